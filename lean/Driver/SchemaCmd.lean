/-
Line protocol for the schema parser / formatter model: `sast <hex of UTF-8 source>` answers `ok <canonical AST
dump>` or `err` (syntax error), `sfmt <hex>` answers `ok <hex of the formatted text>` or `err`. The dump has the
same shape as the one the harness prints from the real AST (`harness/src/bin/fmtc.rs`).
-/
import Driver.Text
import Aldrin.Model.Schema.Parse
import Aldrin.Model.Schema.Fmt
import Aldrin.Lemmas.Schema.ValidSound
import Aldrin.Model.Schema.Span

namespace Aldrin.Driver
open Aldrin Aldrin.Schema

def strOf (s : Str) : String := String.ofList s

def utf8Hex (s : Str) : String := toHex (strOf s).toUTF8.toList

def linesDump (skip : Nat) (ls : List Line) : String :=
  "(" ++ String.intercalate "," (ls.map (fun l => utf8Hex (inner skip l))) ++ ")"

def attrsDump (as : List Attribute) : String :=
  "[" ++ String.intercalate " " (as.map (fun a =>
    strOf a.name ++ "(" ++ String.intercalate "," (a.options.map strOf) ++ ")")) ++ "]"

def namedRefDump : NamedRef → String
  | .intern n => strOf n
  | .extern s n => strOf s ++ "::" ++ strOf n

def tyDump : TypeName → String
  | .prim p => strOf p.text
  | .option t => "option<" ++ tyDump t ++ ">"
  | .box t => "box<" ++ tyDump t ++ ">"
  | .vec t => "vec<" ++ tyDump t ++ ">"
  | .set t => "set<" ++ tyDump t ++ ">"
  | .sender t => "sender<" ++ tyDump t ++ ">"
  | .receiver t => "receiver<" ++ tyDump t ++ ">"
  | .map k v => "map<" ++ tyDump k ++ "->" ++ tyDump v ++ ">"
  | .result a b => "result<" ++ tyDump a ++ "," ++ tyDump b ++ ">"
  | .array t l => "[" ++ tyDump t ++ ";" ++ (match l with | .lit v => strOf v | .ref r => namedRefDump r) ++ "]"
  | .ref r => "@" ++ namedRefDump r

def fieldDump (f : StructField) : String :=
  "f" ++ linesDump 2 f.comment ++ linesDump 3 f.doc ++ (if f.required then "r" else "o") ++ " " ++ strOf f.name ++ "@" ++
    strOf f.id ++ "=" ++ tyDump f.ty ++ ";"

def variantDump (v : EnumVariant) : String :=
  "v" ++ linesDump 2 v.comment ++ linesDump 3 v.doc ++ " " ++ strOf v.name ++ "@" ++ strOf v.id ++
    (match v.ty with | some t => "=" ++ tyDump t | none => "") ++ ";"

def fbDump : Option Fallback → String
  | none => "-"
  | some f => "fb" ++ linesDump 2 f.comment ++ linesDump 3 f.doc ++ " " ++ strOf f.name ++ ";"

def structBodyDump (fs : List StructField) (fb : Option Fallback) : String :=
  "{" ++ String.join (fs.map fieldDump) ++ fbDump fb ++ "}"

def enumBodyDump (vs : List EnumVariant) (fb : Option Fallback) : String :=
  "{" ++ String.join (vs.map variantDump) ++ fbDump fb ++ "}"

def inlDump : TypeOrInline → String
  | .ty t => "ty:" ++ tyDump t
  | .struct s => "struct" ++ linesDump 3 s.doc ++ attrsDump s.attrs ++ structBodyDump s.fields s.fallback
  | .enum e => "enum" ++ linesDump 3 e.doc ++ attrsDump e.attrs ++ enumBodyDump e.variants e.fallback

def partDump : Option FnPart → String
  | none => "-"
  | some p => "p" ++ linesDump 2 p.comment ++ inlDump p.ty

def itemDump : ServiceItem → String
  | .fn f => "fn" ++ linesDump 2 f.comment ++ linesDump 3 f.doc ++ " " ++ strOf f.name ++ "@" ++ strOf f.id ++
      " args:" ++ partDump f.args ++ " ok:" ++ partDump f.ok ++ " err:" ++ partDump f.err ++ ";"
  | .event e => "ev" ++ linesDump 2 e.comment ++ linesDump 3 e.doc ++ " " ++ strOf e.name ++ "@" ++ strOf e.id ++ " " ++
      (match e.ty with | some t => inlDump t | none => "-") ++ ";"

def defDump : Definition → String
  | .struct s => "struct" ++ linesDump 2 s.comment ++ linesDump 3 s.doc ++ attrsDump s.attrs ++ " " ++ strOf s.name ++
      structBodyDump s.fields s.fallback
  | .enum e => "enum" ++ linesDump 2 e.comment ++ linesDump 3 e.doc ++ attrsDump e.attrs ++ " " ++ strOf e.name ++
      enumBodyDump e.variants e.fallback
  | .newtype n => "newtype" ++ linesDump 2 n.comment ++ linesDump 3 n.doc ++ attrsDump n.attrs ++ " " ++ strOf n.name ++ "=" ++
      tyDump n.target
  | .const c => "const" ++ linesDump 2 c.comment ++ linesDump 3 c.doc ++ " " ++ strOf c.name ++ "=" ++ strOf c.kind.text ++ "(" ++
      (if c.kind == .string then utf8Hex c.value else strOf c.value) ++ ")"
  | .service s => "service" ++ linesDump 2 s.comment ++ linesDump 3 s.doc ++ " " ++ strOf s.name ++ " uuid" ++
      linesDump 2 s.uuidComment ++ strOf s.uuid ++ " version" ++ linesDump 2 s.versionComment ++ strOf s.version ++ " [" ++
      String.join (s.items.map itemDump) ++ "] fn:" ++ fbDump s.fnFallback ++ " ev:" ++ fbDump s.evFallback

def schemaDump (s : Schema) : String :=
  "S" ++ linesDump 2 s.comment ++ linesDump 3 s.doc ++ " i[" ++
    String.intercalate " " (s.imports.map (fun i => strOf i.name ++ linesDump 2 i.comment)) ++ "] [" ++
    String.intercalate " | " (s.defs.map defDump) ++ "]"

def decodeSource (h : String) : Option Str := do
  let bs ← ofHex h
  let s ← String.fromUTF8? (ByteArray.mk bs.toArray)
  pure s.toList

def schemaCmd (cmd : String) (args : List String) : Option String :=
  match cmd, args with
  | "sast", [] => some (match parseSchema [] with | some s => "ok " ++ schemaDump s | none => "err")
  | "sast", [h] => do
    let src ← decodeSource h
    pure (match parseSchema src with
      | some s => "ok " ++ schemaDump s
      | none => "err")
  | "sfmt", [] => some (match parseSchema [] with | some s => "ok " ++ utf8Hex (format s) | none => "err")
  | "sfmt", [h] => do
    let src ← decodeSource h
    pure (match parseSchema src with
      | some s => "ok " ++ utf8Hex (format s)
      | none => "err")
  | "sval", [] => some (match parseSchema [] with | some _ => "ok 1" | none => "err")
  | "sval", [h] => do
    -- the premises of `format_parses_back` for what the parser produced: well-formedness, and fuel for the
    -- formatted text; and its conclusion, evaluated
    let src ← decodeSource h
    pure (match parseSchema src with
      | some s =>
        let okValid := validSchemaB s
        let okFuel := decide (schemaFuel s ≤ (format s).length + 2)
        let okBack := parseSchema (format s) == some (canonSchema s)
        if okValid && okFuel && okBack then "ok 1"
        else "ok 0 valid=" ++ toString okValid ++ " fuel=" ++ toString okFuel ++ " back=" ++ toString okBack
      | none => "err")
  | "slc", line :: col :: e :: docs => do
    -- the doc-link position arithmetic: docs as <span_inner start>:<hex of value_inner>
    let docs ← docs.mapM (fun (t : String) => match t.splitOn ":" with
      | [st, h] => do pure ({ start := (← st.toNat?), value := (← ofHex h) } : Span.DocLine)
      | _ => none)
    let r := Span.linecolToIndex docs (← line.toNat?) (← col.toNat?) (e == "1")
    pure (match r with
      | .underflow => "underflow"
      | .none => "none"
      | .some i => s!"some {i}")
  | _, _ => none

end Aldrin.Driver
