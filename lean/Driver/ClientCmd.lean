/-
Line protocol for the client model (stateful, one state per client id): `cnew <cid> <minor version>`,
`cs <cid> <request>` (the client sent this), `cr <cid> <message>` (the client is given this; answers `ok`,
`unexpected`, `panic`, `shutdown`), `cdump <cid>` (sizes of the maps). Requests and messages are written as
the broker driver reads and prints them; cookies are `c<k>` with `k` taken literally.
-/
import Driver.BrokerCmd
import Aldrin.Model.Client
import Aldrin.Model.System

namespace Aldrin.Driver
open Aldrin Aldrin.Broker Aldrin.Client

def litCookie (tok : String) : Option Cookie :=
  match tok.toList with
  | 'c' :: r => (String.ofList r).toNat?
  | 'x' :: r => (String.ofList r).toNat?.map (· + 1000000)
  | _ => none

def objIdOf (tok : String) : Option ObjId :=
  match tok.splitOn "/" with
  | [u, c] => do pure ⟨← uuidOf u, ← litCookie c⟩
  | _ => none

def svcIdOf (tok : String) : Option SvcId :=
  match tok.splitOn "/" with
  | [u, c, su, sc] => do pure ⟨⟨← uuidOf u, ← litCookie c⟩, ← uuidOf su, ← litCookie sc⟩
  | _ => none

def subResOf : String → Option SubRes
  | "ok" => some .ok | "invalidService" => some .invalidService | "notSupported" => some .notSupported | _ => none

def lsnResOf : String → Option ListenerRes
  | "ok" => some .ok | "invalid" => some .invalid | "alreadyStarted" => some .alreadyStarted
  | "notStarted" => some .notStarted | _ => none

def optHex (tok : String) : Option (Option Bytes) := if tok = "-" then some none else (ofHex tok).map some

def destroyObjResOf : String → Option DestroyObjRes
  | "ok" => some .ok | "invalidObject" => some .invalidObject | "foreignObject" => some .foreignObject | _ => none
def createSvcResOf : String → Option CreateSvcRes
  | "duplicate" => some .duplicate | "invalidObject" => some .invalidObject | "foreignObject" => some .foreignObject | _ => none
def destroySvcResOf : String → Option DestroySvcRes
  | "ok" => some .ok | "invalidService" => some .invalidService | "foreignObject" => some .foreignObject | _ => none
def closeResOf : String → Option CloseRes
  | "ok" => some .ok | "invalidChannel" => some .invalidChannel | "foreignChannel" => some .foreignChannel | _ => none
def claimResOf : String → Option ClaimRes
  | "receiverClaimed" => some .receiverClaimed | "invalidChannel" => some .invalidChannel | "alreadyClaimed" => some .alreadyClaimed | _ => none
def busEvOf (kind id : String) : Option BusEv :=
  match kind with
  | "objCreated" => (objIdOf id).map BusEv.objCreated
  | "objDestroyed" => (objIdOf id).map BusEv.objDestroyed
  | "svcCreated" => (svcIdOf id).map BusEv.svcCreated
  | "svcDestroyed" => (svcIdOf id).map BusEv.svcDestroyed
  | _ => none

def parseRsp : List String → Option Rsp
  | ["createObjectReply", s, "ok", c] => do pure (.createObjectReply (← s.toNat?) (.ok (← litCookie c)))
  | ["createObjectReply", s, "duplicate"] => do pure (.createObjectReply (← s.toNat?) .duplicate)
  | ["destroyObjectReply", s, r] => do pure (.destroyObjectReply (← s.toNat?) (← destroyObjResOf r))
  | ["createServiceReply", s, "ok", c] => do pure (.createServiceReply (← s.toNat?) (.ok (← litCookie c)))
  | ["createServiceReply", s, r] => do pure (.createServiceReply (← s.toNat?) (← createSvcResOf r))
  | ["destroyServiceReply", s, r] => do pure (.destroyServiceReply (← s.toNat?) (← destroySvcResOf r))
  | ["callFunction", s, c, f, p] => do pure (.callFunction (← s.toNat?) (← litCookie c) (← f.toNat?) (← ofHex p))
  | ["callFunction2", s, c, f, v, p] => do
    pure (.callFunction2 (← s.toNat?) (← litCookie c) (← f.toNat?) (← optNat v) (← ofHex p))
  | "callFunctionReply" :: s :: r => do pure (.callFunctionReply (← s.toNat?) (← resultOf r))
  | ["abortFunctionCall", s] => do pure (.abortFunctionCall (← s.toNat?))
  | ["subscribeEvent", "-", c, e] => do pure (.subscribeEvent (← litCookie c) (← e.toNat?))
  | ["subscribeEventReply", s, r] => do pure (.subscribeEventReply (← s.toNat?) (← subResOf r))
  | ["unsubscribeEvent", c, e] => do pure (.unsubscribeEvent (← litCookie c) (← e.toNat?))
  | ["emitEvent", c, e, p] => do pure (.emitEvent (← litCookie c) (← e.toNat?) (← ofHex p))
  | ["queryServiceVersionReply", s, r] => do pure (.queryServiceVersionReply (← s.toNat?) (← optNat r))
  | ["queryServiceInfoReply", s, r] => do pure (.queryServiceInfoReply (← s.toNat?) (← optHex r))
  | ["subscribeServiceReply", s, r] => do pure (.subscribeServiceReply (← s.toNat?) (← subResOf r))
  | ["subscribeAllEvents", "-", c] => do pure (.subscribeAllEvents (← litCookie c))
  | ["subscribeAllEventsReply", s, r] => do pure (.subscribeAllEventsReply (← s.toNat?) (← subResOf r))
  | ["unsubscribeAllEvents", "-", c] => do pure (.unsubscribeAllEvents (← litCookie c))
  | ["unsubscribeAllEventsReply", s, r] => do pure (.unsubscribeAllEventsReply (← s.toNat?) (← subResOf r))
  | ["serviceDestroyed", c] => do pure (.serviceDestroyed (← litCookie c))
  | ["createChannelReply", s, c] => do pure (.createChannelReply (← s.toNat?) (← litCookie c))
  | ["closeChannelEndReply", s, r] => do pure (.closeChannelEndReply (← s.toNat?) (← closeResOf r))
  | ["channelEndClosed", c, e] => do pure (.channelEndClosed (← litCookie c) (← endOf e))
  | ["claimChannelEndReply", s, "senderClaimed", cap] => do
    pure (.claimChannelEndReply (← s.toNat?) (.senderClaimed (← cap.toNat?)))
  | ["claimChannelEndReply", s, r] => do pure (.claimChannelEndReply (← s.toNat?) (← claimResOf r))
  | ["channelEndClaimed", c, e, cap] => do pure (.channelEndClaimed (← litCookie c) (← endOf e) (← cap.toNat?))
  | ["itemReceived", c, p] => do pure (.itemReceived (← litCookie c) (← ofHex p))
  | ["addChannelCapacity", c, cap] => do pure (.addChannelCapacity (← litCookie c) (← cap.toNat?))
  | ["syncReply", s] => do pure (.syncReply (← s.toNat?))
  | ["createBusListenerReply", s, c] => do pure (.createBusListenerReply (← s.toNat?) (← litCookie c))
  | ["destroyBusListenerReply", s, r] => do pure (.destroyBusListenerReply (← s.toNat?) (← lsnResOf r))
  | ["startBusListenerReply", s, r] => do pure (.startBusListenerReply (← s.toNat?) (← lsnResOf r))
  | ["stopBusListenerReply", s, r] => do pure (.stopBusListenerReply (← s.toNat?) (← lsnResOf r))
  | ["emitBusEvent", l, kind, id] => do
    let l ← (if l = "-" then some none else (litCookie l).map some)
    pure (.emitBusEvent l (← busEvOf kind id))
  | ["busListenerCurrentFinished", c] => do pure (.busListenerCurrentFinished (← litCookie c))
  | ["queryIntrospection", s, t] => do pure (.queryIntrospection (← s.toNat?) (← uuidOf t))
  | ["queryIntrospectionReply", s, r] => do pure (.queryIntrospectionReply (← s.toNat?) (← optHex r))
  | ["shutdown"] => some .shutdown
  | _ => none

abbrev CStates := List (Nat × CSt)

def verdictText : Verdict → String
  | .ok _ => "ok"
  | .unexpected => "unexpected"
  | .panic _ => "panic"
  | .shutdown => "shutdown"

def clientCmd (st : CStates) (cmd : String) (args : List String) : Option (CStates × String) :=
  match cmd, args with
  | "cnew", [cid, v] => do
    let cid ← cid.toNat?
    pure (AL.insert cid { version := (← v.toNat?) } st, "ok")
  | "cs", cid :: toks => do
    let cid ← cid.toNat?
    let s ← AL.find? cid st
    let r ← (if toks = ["other", "2"] then some none else (parseReqWith litCookie toks).map some)
    -- the hypothesis of the composed-system theorems (Props/C06.lean): a request never reuses a serial that is
    -- still in the map of its kind; a trace of the real client that does is answered differently from `ok`
    let fresh := match r with
      | some r => Aldrin.System.freshSerial s r
      | none => true
    pure (AL.insert cid (sent s r) st, if fresh then "ok" else "reused-serial")
  | "cr", cid :: toks => do
    let cid ← cid.toNat?
    let s ← AL.find? cid st
    let m ← parseRsp toks
    let (s', txt) := recv s m
    pure (AL.insert cid s' st, txt)
  | "cfail", [cid] => do
    let cid ← cid.toNat?
    let s ← AL.find? cid st
    pure (AL.insert cid (transportFailed s) st, "ok")
  | "cend", [cid] => do
    -- how `run` returned (asked once everything is quiescent and flushed)
    let cid ← cid.toNat?
    let s ← AL.find? cid st
    let s := flushed s
    pure (AL.insert cid s st, match s.phase with
      | .running => "running"
      | .draining _ => "running"   -- has not returned yet
      | .stopped .clean => "clean"
      | .stopped .transport => "transport"
      | .stopped .unexpected => "unexpected"
      | .stopped .panicked => "panic")
  | "cdump", [cid] => do
    let cid ← cid.toNat?
    let s ← AL.find? cid st
    pure (st, s!"pending={s.createObject.length + s.createService.length + s.createChannel.length + s.closeChannelEnd.length + s.claimChannelEnd.length + s.sync.length + s.createBusListener.length + s.destroyBusListener.length + s.startBusListener.length + s.stopBusListener.length + s.queryServiceInfo.length + s.queryServiceVersion.length + s.subscribeEvent.length + s.subscribeService.length + s.subscribeAllEvents.length + s.unsubscribeAllEvents.length + s.queryIntrospection.length} services={s.services.length} senders={s.senders.length} receivers={s.receivers.length} listeners={s.listeners.length} aborts={s.abortHandles.length}")
  | _, _ => none

end Aldrin.Driver
