/-
Line protocol for the generated-types model (stateful): `tenv <name>=<desc> …` sets the environment,
`tyv <name> <hex>` decodes the bytes as a dynamic value and runs `accept` for the named definition.
Description syntax (written by the harness' build script from the parser's AST):
  type  = prim | opt(T) | box(T) | vec(T) | set(T) | sender(T) | receiver(T) | map(K,T) | result(A,B) | arr(T,N) | @schema.Name
  def   = struct{<id>:<r|o>:<name>:<type>;…}[fb] | enum{<id>:<name>:<type|->;…}[fb] | newtype(<type>)
-/
import Driver.Text
import Aldrin.Model.Codec
import Aldrin.Model.Typed

namespace Aldrin.Driver
open Aldrin Aldrin.Typed

def wordChar (c : Char) : Bool := c.isAlphanum || c == '_' || c == '.' || c == '@'

def spanC (p : Char → Bool) : List Char → List Char × List Char
  | [] => ([], [])
  | c :: r => if p c then let (a, b) := spanC p r; (c :: a, b) else ([], c :: r)

def primTy (w : String) : Option Ty :=
  match w with
  | "bool" => some .bool
  | "u8" => some (.int .u8) | "i8" => some (.int .i8) | "u16" => some (.int .u16) | "i16" => some (.int .i16)
  | "u32" => some (.int .u32) | "i32" => some (.int .i32) | "u64" => some (.int .u64) | "i64" => some (.int .i64)
  | "f32" => some (.fixed .f32) | "f64" => some (.fixed .f64)
  | "string" => some .string | "uuid" => some (.fixed .uuid)
  | "object_id" => some (.fixed .objectId) | "service_id" => some (.fixed .serviceId)
  | "bytes" => some .bytes | "unit" => some .unit | "value" => some .value
  | "lifetime" => some (.fixed .objectId)   -- `LifetimeId` is an `ObjectId` on the wire
  | _ => none

def parseTy : Nat → List Char → Option (Ty × List Char)
  | 0, _ => none
  | fuel + 1, cs =>
    let (w, rest) := spanC wordChar cs
    match w with
    | '@' :: name => some (.ref (String.ofList name), rest)
    | _ =>
      let w := String.ofList w
      if w = "opt" || w = "box" || w = "vec" || w = "set" || w = "sender" || w = "receiver" then
        match rest with
        | '(' :: rest => match parseTy fuel rest with
          | some (t, ')' :: rest) =>
            some (if w = "opt" then .opt t else if w = "box" then .box t else if w = "vec" then .vec t
              else if w = "set" then .set t else if w = "sender" then .fixed .sender else .fixed .receiver, rest)
          | _ => none
        | _ => none
      else if w = "map" || w = "result" then
        match rest with
        | '(' :: rest => match parseTy fuel rest with
          | some (a, ',' :: rest) => match parseTy fuel rest with
            | some (b, ')' :: rest) => some (if w = "map" then .map a b else .result a b, rest)
            | _ => none
          | _ => none
        | _ => none
      else if w = "arr" then
        match rest with
        | '(' :: rest => match parseTy fuel rest with
          | some (a, ',' :: rest) =>
            let (d, rest) := spanC Char.isDigit rest
            match (String.ofList d).toNat?, rest with
            | some n, ')' :: rest => some (.arr a n, rest)
            | _, _ => none
          | _ => none
        | _ => none
      else (primTy w).map (fun t => (t, rest))

def parseFields : Nat → List Char → Option (List Field × List Char)
  | 0, _ => none
  | fuel + 1, cs =>
    match cs with
    | '}' :: rest => some ([], rest)
    | _ =>
      let (d, rest) := spanC Char.isDigit cs
      match (String.ofList d).toNat?, rest with
      | some id, ':' :: ro :: ':' :: rest =>
        let (_, rest) := spanC wordChar rest
        match rest with
        | ':' :: rest => match parseTy 64 rest with
          | some (t, ';' :: rest) => match parseFields fuel rest with
            | some (fs, rest) => some (⟨id, ro == 'r', t⟩ :: fs, rest)
            | none => none
          | _ => none
        | _ => none
      | _, _ => none

def parseVariants : Nat → List Char → Option (List Variant × List Char)
  | 0, _ => none
  | fuel + 1, cs =>
    match cs with
    | '}' :: rest => some ([], rest)
    | _ =>
      let (d, rest) := spanC Char.isDigit cs
      match (String.ofList d).toNat?, rest with
      | some id, ':' :: rest =>
        let (_, rest) := spanC wordChar rest
        match rest with
        | ':' :: '-' :: ';' :: rest => match parseVariants fuel rest with
          | some (vs, rest) => some (⟨id, none⟩ :: vs, rest)
          | none => none
        | ':' :: rest => match parseTy 64 rest with
          | some (t, ';' :: rest) => match parseVariants fuel rest with
            | some (vs, rest) => some (⟨id, some t⟩ :: vs, rest)
            | none => none
          | _ => none
        | _ => none
      | _, _ => none

def parseDef (s : String) : Option Def :=
  let cs := s.toList
  let (w, rest) := spanC Char.isAlpha cs
  match String.ofList w, rest with
  | "newtype", '(' :: rest => match parseTy 64 rest with
    | some (t, [')']) => some (.newtype t)
    | _ => none
  | "struct", '{' :: rest => match parseFields (rest.length + 1) rest with
    | some (fs, []) => some (.struct fs false)
    | some (fs, ['f', 'b']) => some (.struct fs true)
    | _ => none
  | "enum", '{' :: rest => match parseVariants (rest.length + 1) rest with
    | some (vs, []) => some (.enum vs false)
    | some (vs, ['f', 'b']) => some (.enum vs true)
    | _ => none
  | _, _ => none

def parseEnvItem (s : String) : Option (String × Def) :=
  match s.splitOn "=" with
  | [n, d] => (parseDef d).map (fun d => (n, d))
  | _ => none

def typedCmd (env : Env) (cmd : String) (args : List String) : Option (Env × String) :=
  match cmd, args with
  | "tenv", items => do
    let env ← items.mapM parseEnvItem
    pure (env, "ok")
  | "tyv", [name, h] => do
    let bs ← ofHex h
    match decodeTop .std bs with
    | .error _ => pure (env, "err")
    | .ok v =>
      match accept env env.fuel (.ref name) v with
      | .error _ => pure (env, "err")
      | .ok w => pure (env, "ok " ++ valueText (canon w))
  | _, _ => none

end Aldrin.Driver
