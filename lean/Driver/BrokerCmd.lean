/-
Line protocol for the broker model (stateful): `breset`, `bev <event>`, `bstats`, `bsnap`.
Cookies are α-renamed by order of first appearance in the output (`c0`, `c1`, …); requests refer to
them by that name, `x<n>` names a cookie that was never issued. UUIDs are `u<n>`.
-/
import Driver.Text
import Aldrin.Model.Broker.Step
import Aldrin.Model.Broker.Handshake

namespace Aldrin.Driver
open Aldrin Aldrin.Broker

structure BState where
  b : Broker := {}
  w : Work := {}
  ren : List (Cookie × Nat) := []      -- model cookie ↦ external index
  versions : List (ConnId × Nat) := []
  deriving Inhabited

def BState.nameOf (st : BState) (c : Cookie) : BState × String :=
  match AL.find? c st.ren with
  | some k => (st, "c" ++ toString k)
  | none =>
    let k := st.ren.length
    ({ st with ren := st.ren ++ [(c, k)] }, "c" ++ toString k)

def BState.cookieOf (st : BState) (tok : String) : Option Cookie :=
  match tok.toList with
  | 'c' :: r => do
    let k ← (String.ofList r).toNat?
    (st.ren.find? (·.2 = k)).map (·.1)
  | 'x' :: r => (String.ofList r).toNat?.map (· + 1000000)
  | _ => none

def uuidOf (tok : String) : Option Uuid :=
  match tok.toList with
  | 'u' :: r => (String.ofList r).toNat?
  | _ => none

def optNat (tok : String) : Option (Option Nat) := if tok = "-" then some none else tok.toNat?.map some
def optUuid (tok : String) : Option (Option Uuid) := if tok = "-" then some none else (uuidOf tok).map some

def endOf : String → Option ChanEnd
  | "snd" => some .sender | "rcv" => some .receiver | _ => none
def endName : ChanEnd → String | .sender => "snd" | .receiver => "rcv"
def scopeOf : String → Option Scope
  | "current" => some .current | "new" => some .new | "all" => some .all | _ => none

def filterOf : List String → Option (Filter × List String)
  | "fo" :: o :: r => do pure (.object (← optUuid o), r)
  | "fs" :: o :: s :: r => do pure (.service (← optUuid o) (← optUuid s), r)
  | _ => none

def resultOf : List String → Option CallResult
  | ["ok", h] => (ofHex h).map .ok
  | ["err", h] => (ofHex h).map .err
  | ["aborted"] => some .aborted
  | ["invalidService"] => some .invalidService
  | ["invalidFunction"] => some .invalidFunction
  | ["invalidArgs"] => some .invalidArgs
  | _ => none

def parseReqWith (cookieOf : String → Option Cookie) : List String → Option Req
  | ["createObject", s, u] => do pure (.createObject (← s.toNat?) (← uuidOf u))
  | ["destroyObject", s, c] => do pure (.destroyObject (← s.toNat?) (← cookieOf c))
  | ["createService", s, o, u, v] => do pure (.createService (← s.toNat?) (← cookieOf o) (← uuidOf u) (← v.toNat?))
  | ["createService2", s, o, u, "bad"] => do pure (.createService2 (← s.toNat?) (← cookieOf o) (← uuidOf u) none)
  | ["createService2", s, o, u, v, sa] => do
    let sub ← (match sa with | "-" => some none | "t" => some (some true) | "f" => some (some false) | _ => none)
    pure (.createService2 (← s.toNat?) (← cookieOf o) (← uuidOf u)
      (some { version := (← v.toNat?), subscribeAll := sub }))
  | ["destroyService", s, c] => do pure (.destroyService (← s.toNat?) (← cookieOf c))
  | ["callFunction", s, c, f, p] => do pure (.callFunction (← s.toNat?) (← cookieOf c) (← f.toNat?) (← ofHex p))
  | ["callFunction2", s, c, f, v, p] => do pure (.callFunction2 (← s.toNat?) (← cookieOf c) (← f.toNat?) (← optNat v) (← ofHex p))
  | "callFunctionReply" :: s :: r => do pure (.callFunctionReply (← s.toNat?) (← resultOf r))
  | ["abortFunctionCall", s] => do pure (.abortFunctionCall (← s.toNat?))
  | ["subscribeEvent", s, c, e] => do pure (.subscribeEvent (← optNat s) (← cookieOf c) (← e.toNat?))
  | ["unsubscribeEvent", c, e] => do pure (.unsubscribeEvent (← cookieOf c) (← e.toNat?))
  | ["emitEvent", c, e, p] => do pure (.emitEvent (← cookieOf c) (← e.toNat?) (← ofHex p))
  | ["queryServiceVersion", s, c] => do pure (.queryServiceVersion (← s.toNat?) (← cookieOf c))
  | ["queryServiceInfo", s, c] => do pure (.queryServiceInfo (← s.toNat?) (← cookieOf c))
  | ["subscribeService", s, c] => do pure (.subscribeService (← s.toNat?) (← cookieOf c))
  | ["unsubscribeService", c] => do pure (.unsubscribeService (← cookieOf c))
  | ["subscribeAllEvents", s, c] => do pure (.subscribeAllEvents (← optNat s) (← cookieOf c))
  | ["unsubscribeAllEvents", s, c] => do pure (.unsubscribeAllEvents (← optNat s) (← cookieOf c))
  | ["createChannel", s, e, cap] => do pure (.createChannel (← s.toNat?) (← endOf e) (← cap.toNat?))
  | ["closeChannelEnd", s, c, e] => do pure (.closeChannelEnd (← s.toNat?) (← cookieOf c) (← endOf e))
  | ["claimChannelEnd", s, c, e, cap] => do pure (.claimChannelEnd (← s.toNat?) (← cookieOf c) (← endOf e) (← cap.toNat?))
  | ["sendItem", c, p] => do pure (.sendItem (← cookieOf c) (← ofHex p))
  | ["addChannelCapacity", c, cap] => do pure (.addChannelCapacity (← cookieOf c) (← cap.toNat?))
  | ["sync", s] => do pure (.sync (← s.toNat?))
  | ["createBusListener", s] => do pure (.createBusListener (← s.toNat?))
  | ["destroyBusListener", s, c] => do pure (.destroyBusListener (← s.toNat?) (← cookieOf c))
  | "addFilter" :: c :: r => do let (f, _) ← filterOf r; pure (.addFilter (← cookieOf c) f)
  | "removeFilter" :: c :: r => do let (f, _) ← filterOf r; pure (.removeFilter (← cookieOf c) f)
  | ["clearFilters", c] => do pure (.clearFilters (← cookieOf c))
  | ["startBusListener", s, c, sc] => do pure (.startBusListener (← s.toNat?) (← cookieOf c) (← scopeOf sc))
  | ["stopBusListener", s, c] => do pure (.stopBusListener (← s.toNat?) (← cookieOf c))
  | ["registerIntrospection", "bad"] => some (.registerIntrospection none)
  | "registerIntrospection" :: tys => do pure (.registerIntrospection (some (← tys.mapM uuidOf)))
  | ["queryIntrospection", s, t] => do pure (.queryIntrospection (← s.toNat?) (← uuidOf t))
  | ["queryIntrospectionReply", s, "-"] => do pure (.queryIntrospectionReply (← s.toNat?) none)
  | ["queryIntrospectionReply", s, p] => do pure (.queryIntrospectionReply (← s.toNat?) (some (← ofHex p)))
  | ["other", k] => do pure (.other (← k.toNat?))
  | _ => none

def parseReq (st : BState) : List String → Option Req := parseReqWith st.cookieOf

def parseEvent (st : BState) : List String → Option Event
  | ["new", id, v] => do pure (.newConn (← id.toNat?) (← v.toNat?))
  | ["cshut", id] => do pure (.connShutdown (← id.toNat?))
  | ["bshut"] => some .shutdownBroker
  | ["ishut"] => some .shutdownIdle
  | ["kshut", id] => do pure (.shutdownConn (← id.toNat?))
  | ["drop", id] => do pure (.taskDropped (← id.toNat?))
  | "msg" :: id :: r => do pure (.msg (← id.toNat?) (← parseReq st r))
  | _ => none

def uText (u : Uuid) : String := "u" ++ toString u
def optText {α : Type} (f : α → String) : Option α → String
  | some a => f a
  | none => "-"

/-- The payload as the receiving connection's task will put it on the wire:
`VersionedMessage::convert_value(receiver version)`. -/
def convPayload (st : BState) (o : Out) (p : Payload) : String :=
  match AL.find? o.to st.versions with
  | none => toHex p
  | some v => match convertTop (o.ver.map (fun m => (1, m))) (1, v) p with
    | .ok b => toHex b
    | .error e => "conv-err:" ++ errName e

def subResText : SubRes → String | .ok => "ok" | .invalidService => "invalidService" | .notSupported => "notSupported"
def lsnResText : ListenerRes → String
  | .ok => "ok" | .invalid => "invalid" | .alreadyStarted => "alreadyStarted" | .notStarted => "notStarted"

def objIdText (st : BState) (o : ObjId) : BState × String :=
  let (st, c) := st.nameOf o.cookie
  (st, uText o.uuid ++ "/" ++ c)

def svcIdText (st : BState) (s : SvcId) : BState × String :=
  let (st, o) := objIdText st s.obj
  let (st, c) := st.nameOf s.cookie
  (st, o ++ "/" ++ uText s.uuid ++ "/" ++ c)

def busEvText (st : BState) : BusEv → BState × String
  | .objCreated o => let (st, t) := objIdText st o; (st, "objCreated " ++ t)
  | .objDestroyed o => let (st, t) := objIdText st o; (st, "objDestroyed " ++ t)
  | .svcCreated s => let (st, t) := svcIdText st s; (st, "svcCreated " ++ t)
  | .svcDestroyed s => let (st, t) := svcIdText st s; (st, "svcDestroyed " ++ t)

def callResText (st : BState) (o : Out) : CallResult → String
  | .ok p => "ok " ++ convPayload st o p
  | .err p => "err " ++ convPayload st o p
  | .aborted => "aborted" | .invalidService => "invalidService"
  | .invalidFunction => "invalidFunction" | .invalidArgs => "invalidArgs"

def rspText (st : BState) (o : Out) : BState × String :=
  let n := fun (x : Nat) => toString x
  match o.msg with
  | .createObjectReply s (.ok c) => let (st, t) := st.nameOf c; (st, s!"createObjectReply {s} ok {t}")
  | .createObjectReply s .duplicate => (st, s!"createObjectReply {s} duplicate")
  | .destroyObjectReply s r => (st, s!"destroyObjectReply {s} " ++ (match r with | .ok => "ok" | .invalidObject => "invalidObject" | .foreignObject => "foreignObject"))
  | .createServiceReply s (.ok c) => let (st, t) := st.nameOf c; (st, s!"createServiceReply {s} ok {t}")
  | .createServiceReply s r => (st, s!"createServiceReply {s} " ++ (match r with | .duplicate => "duplicate" | .invalidObject => "invalidObject" | .foreignObject => "foreignObject" | .ok _ => "ok"))
  | .destroyServiceReply s r => (st, s!"destroyServiceReply {s} " ++ (match r with | .ok => "ok" | .invalidService => "invalidService" | .foreignObject => "foreignObject"))
  | .callFunction s c f p => let (st, t) := st.nameOf c; (st, s!"callFunction {s} {t} {f} " ++ convPayload st o p)
  | .callFunction2 s c f v p => let (st, t) := st.nameOf c; (st, s!"callFunction2 {s} {t} {f} " ++ optText n v ++ " " ++ convPayload st o p)
  | .callFunctionReply s r => (st, s!"callFunctionReply {s} " ++ callResText st o r)
  | .abortFunctionCall s => (st, s!"abortFunctionCall {s}")
  | .subscribeEvent c e => let (st, t) := st.nameOf c; (st, s!"subscribeEvent - {t} {e}")
  | .subscribeEventReply s r => (st, s!"subscribeEventReply {s} " ++ subResText r)
  | .unsubscribeEvent c e => let (st, t) := st.nameOf c; (st, s!"unsubscribeEvent {t} {e}")
  | .emitEvent c e p => let (st, t) := st.nameOf c; (st, s!"emitEvent {t} {e} " ++ convPayload st o p)
  | .queryServiceVersionReply s r => (st, s!"queryServiceVersionReply {s} " ++ optText n r)
  | .queryServiceInfoReply s r => (st, s!"queryServiceInfoReply {s} " ++ optText (convPayload st o) r)
  | .subscribeServiceReply s r => (st, s!"subscribeServiceReply {s} " ++ subResText r)
  | .subscribeAllEvents c => let (st, t) := st.nameOf c; (st, s!"subscribeAllEvents - {t}")
  | .subscribeAllEventsReply s r => (st, s!"subscribeAllEventsReply {s} " ++ subResText r)
  | .unsubscribeAllEvents c => let (st, t) := st.nameOf c; (st, s!"unsubscribeAllEvents - {t}")
  | .unsubscribeAllEventsReply s r => (st, s!"unsubscribeAllEventsReply {s} " ++ subResText r)
  | .serviceDestroyed c => let (st, t) := st.nameOf c; (st, s!"serviceDestroyed {t}")
  | .createChannelReply s c => let (st, t) := st.nameOf c; (st, s!"createChannelReply {s} {t}")
  | .closeChannelEndReply s r => (st, s!"closeChannelEndReply {s} " ++ (match r with | .ok => "ok" | .invalidChannel => "invalidChannel" | .foreignChannel => "foreignChannel"))
  | .channelEndClosed c e => let (st, t) := st.nameOf c; (st, s!"channelEndClosed {t} " ++ endName e)
  | .claimChannelEndReply s r => (st, s!"claimChannelEndReply {s} " ++ (match r with
      | .senderClaimed cap => s!"senderClaimed {cap}" | .receiverClaimed => "receiverClaimed"
      | .invalidChannel => "invalidChannel" | .alreadyClaimed => "alreadyClaimed"))
  | .channelEndClaimed c e cap => let (st, t) := st.nameOf c; (st, s!"channelEndClaimed {t} " ++ endName e ++ s!" {cap}")
  | .itemReceived c p => let (st, t) := st.nameOf c; (st, s!"itemReceived {t} " ++ convPayload st o p)
  | .addChannelCapacity c cap => let (st, t) := st.nameOf c; (st, s!"addChannelCapacity {t} {cap}")
  | .syncReply s => (st, s!"syncReply {s}")
  | .createBusListenerReply s c => let (st, t) := st.nameOf c; (st, s!"createBusListenerReply {s} {t}")
  | .destroyBusListenerReply s r => (st, s!"destroyBusListenerReply {s} " ++ lsnResText r)
  | .startBusListenerReply s r => (st, s!"startBusListenerReply {s} " ++ lsnResText r)
  | .stopBusListenerReply s r => (st, s!"stopBusListenerReply {s} " ++ lsnResText r)
  | .emitBusEvent l e =>
    let (st, lt) := match l with
      | some c => st.nameOf c
      | none => (st, "-")
    let (st, et) := busEvText st e
    (st, s!"emitBusEvent {lt} {et}")
  | .busListenerCurrentFinished c => let (st, t) := st.nameOf c; (st, s!"busListenerCurrentFinished {t}")
  | .queryIntrospection s ty => (st, s!"queryIntrospection {s} " ++ uText ty)
  | .queryIntrospectionReply s r => (st, s!"queryIntrospectionReply {s} " ++ optText (convPayload st o) r)
  | .shutdown => (st, "shutdown")

def panicText : Panic → String
  | .inconsistent s => "PANIC inconsistent " ++ s
  | .unreachable s => "PANIC unreachable " ++ s
  | .debugAssert s => "PANIC debug_assert " ++ s
  | .fuel => "PANIC FUEL"

/-- Render the outputs of one step: per receiving connection (ascending), messages in order. -/
def renderOuts (st : BState) (outs : List Out) : BState × String :=
  let conns := (outs.map (·.to)).eraseDups.mergeSort (· ≤ ·)
  conns.foldl (fun (acc : BState × String) cid =>
    let (st, txt) := acc
    let mine := outs.filter (·.to = cid)
    let (st, parts) := mine.foldl (fun (a : BState × List String) o =>
      let (st, t) := rspText a.1 o
      (st, a.2 ++ [t])) (st, [])
    (st, txt ++ s!" | {cid}: " ++ String.intercalate " ; " parts)) (st, "")

def brokerCmd (st : BState) (cmd : String) (args : List String) : Option (BState × String) :=
  match cmd, args with
  | "breset", [] => some ({}, "ok")
  | "bev", toks => do
    let ev ← parseEvent st toks
    let st := match ev with
      | .newConn id v => { st with versions := AL.insert id v st.versions }
      | _ => st
    match Broker.step st.b st.w ev with
    | .error p => pure (st, panicText p)
    | .ok (b, w, outs) =>
      -- a turn that removes a connection walks that connection's hash maps and sets; which of its notifications
      -- comes first is then not defined by the code (the comparison sorts the messages of such a turn)
      let removed := b.conns.length < st.b.conns.length
      let st := { st with b := b, w := w }
      let (st, txt) := renderOuts st outs
      pure (st, s!"fin={if finished b w then 1 else 0}" ++ txt ++ (if removed then " #rm" else ""))
  | "bstats", [] =>
    let s := st.b.stats
    some ({ st with b := { st.b with stats := { s with messagesSent := 0, messagesReceived := 0 } } },
      let b := st.b
      let exact := s.numConnections == b.conns.length && s.numObjects == b.objs.length && s.numObjects == b.objUuids.length
        && s.numServices == b.svcs.length && s.numServices == b.svcUuids.length && s.numChannels == b.channels.length
        && s.numBusListeners == b.listeners.length
      s!"conns={s.numConnections} objs={s.numObjects} svcs={s.numServices} chans={s.numChannels} lsn={s.numBusListeners} sent={s.messagesSent} recv={s.messagesReceived} gauges={if exact then "ok" else "BAD"}")
  | "hs", [kind, major, minor] => do
    let major ← major.toNat?
    let minor ← minor.toNat?
    let c2 ← match kind with | "new" => some true | "legacy" => some false | _ => none
    match negotiate major minor c2 with
    | some v => pure (st, s!"ok {v}")
    | none => pure (st, "incompatible")
  | "bsnap", [] =>
    let b := st.b
    some (st, s!"conns={b.conns.length} obj_uuids={b.objUuids.length} objs={b.objs.length} svc_uuids={b.svcUuids.length} svcs={b.svcs.length} calls={b.calls.elems.length} channels={b.channels.length} listeners={b.listeners.length} introspection={b.introspection.length} iqueries={b.iqueries.elems.length}")
  | _, _ => none

end Aldrin.Driver
