/-
Line protocol for the allocator of connection ids: `cid <op>*` with `a` = acquire, `r<n>` = the last clone of the id
with number n is dropped. Answer: the number returned per `a`, `-` per `r`, then `next=<n> free=<i,j,…>` (the free
list in the order of the `Vec`, bottom first). A panic of the model ends the answer with `panic:<which>`.
-/
import Aldrin.Model.ConnId

namespace Aldrin.Driver
open Aldrin.ConnId

def connIdRun (ops : List String) : Option String := do
  let mut s : Sys := {}
  let mut out : List String := []
  for op in ops do
    match op.toList with
    | ['a'] =>
      match s.step .acquire with
      | .ok s' =>
        out := toString (s'.held.headD 0) :: out
        s := s'
      | .error _ => none
    | 'r' :: d =>
      let n ← (String.ofList d).toNat?
      match s.step (.release n) with
      | .ok s' =>
        out := "-" :: out
        s := s'
      | .error .notBelowNext => return String.intercalate " " (out.reverse ++ ["panic:not-below-next"])
      | .error .alreadyFree => return String.intercalate " " (out.reverse ++ ["panic:already-free"])
    | _ => none
  pure (String.intercalate " " (out.reverse ++
    ["next=" ++ toString s.ids.next, "free=" ++ String.intercalate "," (s.ids.free.reverse.map toString)]))

def connIdCmd (cmd : String) (args : List String) : Option String :=
  match cmd with
  | "cid" => connIdRun args
  | _ => none

end Aldrin.Driver
