/-
Line-protocol helpers shared by all driver commands: hex, the value text format, canonical form.
Not part of the verified model; the same text format is produced by the Rust harness.
-/
import Aldrin.Model.Codec

namespace Aldrin.Driver
open Aldrin

def hexDigit (n : Nat) : Char :=
  if n < 10 then Char.ofNat (48 + n) else Char.ofNat (87 + n)

def toHex (bs : Bytes) : String :=
  if bs.isEmpty then "-" else
  String.ofList (bs.foldr (fun b acc => hexDigit (b.toNat / 16) :: hexDigit (b.toNat % 16) :: acc) [])

def hexVal (c : Char) : Option Nat :=
  if '0' ≤ c ∧ c ≤ '9' then some (c.toNat - 48)
  else if 'a' ≤ c ∧ c ≤ 'f' then some (c.toNat - 87)
  else if 'A' ≤ c ∧ c ≤ 'F' then some (c.toNat - 55)
  else none

def ofHexChars : List Char → Option Bytes
  | [] => some []
  | [_] => none
  | a :: b :: r => do
    let x ← hexVal a
    let y ← hexVal b
    let rest ← ofHexChars r
    pure (UInt8.ofNat (16 * x + y) :: rest)

def ofHex (s : String) : Option Bytes :=
  if s = "-" then some [] else ofHexChars s.toList

def errName : DeErr → String
  | .eoi => "eoi" | .invalid => "invalid" | .unexpected => "unexpected" | .trailing => "trailing"
  | .tooDeep => "depth" | .overflow => "overflow" | .version => "version" | .fuel => "FUEL"

def intTyName : IntTy → String
  | .u8 => "u8" | .i8 => "i8" | .u16 => "u16" | .i16 => "i16"
  | .u32 => "u32" | .i32 => "i32" | .u64 => "u64" | .i64 => "i64"

def intTyOf : String → Option IntTy
  | "u8" => some .u8 | "i8" => some .i8 | "u16" => some .u16 | "i16" => some .i16
  | "u32" => some .u32 | "i32" => some .i32 | "u64" => some .u64 | "i64" => some .i64
  | _ => none

def keyTyName : KeyTy → String
  | .int t => intTyName t | .string => "str" | .uuid => "uuid" | .field => "field"

def keyTyOf : String → Option KeyTy
  | "str" => some .string | "uuid" => some .uuid | "field" => some .field
  | s => (intTyOf s).map .int

def fixedName : FixedKind → String
  | .f32 => "f32" | .f64 => "f64" | .uuid => "uuid" | .objectId => "oid" | .serviceId => "sid"
  | .sender => "snd" | .receiver => "rcv"

def fixedOf : String → Option FixedKind
  | "f32" => some .f32 | "f64" => some .f64 | "uuid" => some .uuid | "oid" => some .objectId
  | "sid" => some .serviceId | "snd" => some .sender | "rcv" => some .receiver
  | _ => none

def keyText : Key → String
  | .int i => "i" ++ toString i
  | .blob bs => "b" ++ toHex bs

/-- Key order used for canonical output: integers numerically, blobs bytewise. -/
def bytesLe : Bytes → Bytes → Bool
  | [], _ => true
  | _ :: _, [] => false
  | a :: as, b :: bs => if a < b then true else if b < a then false else bytesLe as bs

def keyLe : Key → Key → Bool
  | .int a, .int b => a ≤ b
  | .int _, .blob _ => true
  | .blob _, .int _ => false
  | .blob a, .blob b => bytesLe a b

/-- Keep, of each run of equal keys in a key-sorted list, the last entry (= last on the wire,
because the sort is stable): `HashMap::insert` semantics. -/
def dedupLast {α : Type} (key : α → Key) : List α → List α
  | [] => []
  | [a] => [a]
  | a :: b :: r => if key a = key b then dedupLast key (b :: r) else a :: dedupLast key (b :: r)

mutual
partial def canon : Value → Value
  | .some v => .some (canon v)
  | .vec vs => .vec (vs.map canon)
  | .map kt es =>
    let es' := es.map (fun (k, v) => (k, canon v))
    .map kt (dedupLast (·.1) (es'.mergeSort (fun a b => keyLe a.1 b.1)))
  | .set kt ks => .set kt (dedupLast id (ks.mergeSort keyLe))
  | .enum id v => .enum id (canon v)
  | v => v
end

partial def valueText : Value → String
  | .none => "N"
  | .some v => "S " ++ valueText v
  | .bool b => if b then "B1" else "B0"
  | .int t i => "I " ++ intTyName t ++ " " ++ toString i
  | .fixed k bs => "F " ++ fixedName k ++ " " ++ toHex bs
  | .string bs => "T " ++ toHex bs
  | .vec vs => vs.foldl (fun acc v => acc ++ " " ++ valueText v) ("V " ++ toString vs.length)
  | .bytes bs => "Y " ++ toHex bs
  | .map kt es =>
    es.foldl (fun acc (k, v) => acc ++ " " ++ keyText k ++ " " ++ valueText v)
      ("M " ++ keyTyName kt ++ " " ++ toString es.length)
  | .set kt ks =>
    ks.foldl (fun acc k => acc ++ " " ++ keyText k) ("E " ++ keyTyName kt ++ " " ++ toString ks.length)
  | .enum id v => "U " ++ toString id ++ " " ++ valueText v

def parseKey (s : String) : Option Key :=
  match s.toList with
  | 'i' :: r => (String.ofList r).toInt?.map .int
  | 'b' :: r => (ofHex (String.ofList r)).map .blob
  | _ => none

mutual
partial def parseValue : List String → Option (Value × List String)
  | "N" :: r => some (.none, r)
  | "S" :: r => do let (v, r') ← parseValue r; pure (.some v, r')
  | "B0" :: r => some (.bool false, r)
  | "B1" :: r => some (.bool true, r)
  | "I" :: t :: i :: r => do pure (.int (← intTyOf t) (← i.toInt?), r)
  | "F" :: k :: h :: r => do pure (.fixed (← fixedOf k) (← ofHex h), r)
  | "T" :: h :: r => do pure (.string (← ofHex h), r)
  | "Y" :: h :: r => do pure (.bytes (← ofHex h), r)
  | "V" :: n :: r => do
    let (vs, r') ← parseValues (← n.toNat?) r
    pure (.vec vs, r')
  | "M" :: kt :: n :: r => do
    let (es, r') ← parseEntries (← n.toNat?) r
    pure (.map (← keyTyOf kt) es, r')
  | "E" :: kt :: n :: r => do
    let (ks, r') ← parseKeys (← n.toNat?) r
    pure (.set (← keyTyOf kt) ks, r')
  | "U" :: id :: r => do
    let (v, r') ← parseValue r
    pure (.enum (← id.toNat?) v, r')
  | _ => none
partial def parseValues : Nat → List String → Option (List Value × List String)
  | 0, r => some ([], r)
  | n + 1, r => do
    let (v, r1) ← parseValue r
    let (vs, r2) ← parseValues n r1
    pure (v :: vs, r2)
partial def parseEntries : Nat → List String → Option (List (Key × Value) × List String)
  | 0, r => some ([], r)
  | n + 1, k :: r => do
    let key ← parseKey k
    let (v, r1) ← parseValue r
    let (es, r2) ← parseEntries n r1
    pure ((key, v) :: es, r2)
  | _, _ => none
partial def parseKeys : Nat → List String → Option (List Key × List String)
  | 0, r => some ([], r)
  | n + 1, k :: r => do
    let key ← parseKey k
    let (ks, r2) ← parseKeys n r
    pure (key :: ks, r2)
  | _, _ => none
end

def parseVersion (s : String) : Option (Option (Nat × Nat)) :=
  if s = "none" then some none else
  match s.splitOn "." with
  | [a, b] => do pure (some ((← a.toNat?), (← b.toNat?)))
  | _ => none

end Aldrin.Driver
