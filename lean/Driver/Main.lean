/-
Line-protocol driver: one request per line on stdin, one canonical answer per line on stdout.
Imports only the (Mathlib-free) models, so it links as a `lean_exe`.
-/
import Driver.Text
import Aldrin.Model.Msg

namespace Aldrin.Driver
open Aldrin

def resLine {α} (r : Except DeErr α) (f : α → String) : String :=
  match r with
  | .error e => "err " ++ errName e
  | .ok a => "ok " ++ f a

def serRes (r : Except SerErr Bytes) : String :=
  match r with
  | .ok b => toHex b
  | .error .tooDeep => "err:depth"
  | .error .overflow => "err:overflow"

def serLen (r : Except SerErr Bytes) : String :=
  match r with
  | .ok b => toString b.length
  | .error .tooDeep => "err:depth"
  | .error .overflow => "err:overflow"

def kindByteText (k : Kind) : String := toString k.b.toNat

def codecCmd (cmd : String) (args : List String) : Option String :=
  match cmd, args with
  | "dec", [h] => do
    let bs ← ofHex h
    pure (resLine (decodeTop .std bs) (fun v => valueText (canon v)))
  | "decu", [h] => do
    let bs ← ofHex h
    pure (resLine (decodeTop .lax bs) (fun v => valueText (canon v)))
  | "decl", [h] => do   -- a decoder that predates protocol 1.20
    let bs ← ofHex h
    pure (resLine (decodeTop .legacy bs) (fun v => valueText (canon v)))
  | "decp", [h] => do   -- prefix decode: value and number of bytes consumed
    let bs ← ofHex h
    pure (resLine (dec .std (fuelFor bs) bs 0)
      (fun (v, r) => toString (bs.length - r.length) ++ " " ++ valueText (canon v)))
  | "skip", [h] => do
    let bs ← ofHex h
    pure (resLine (lenTop bs) toString)
  | "kind", [h] => do
    let bs ← ofHex h
    pure (resLine (kindTop bs) kindByteText)
  | "conv", [f, t, h] => do
    let bs ← ofHex h
    let frm ← parseVersion f
    let to ← (← parseVersion t)
    pure (resLine (convertTop frm to bs) toHex)
  | "encv", toks => do
    let (v, r) ← parseValue toks
    if !r.isEmpty then none else
    pure (serLen (encodeTop .v1 v) ++ " " ++ serLen (encodeTop .v2 v))
  | "rt", [h] => do
    let bs ← ofHex h
    pure (resLine (decodeTop .std bs)
      (fun v => serRes (encodeTop .v1 v) ++ " " ++ serRes (encodeTop .v2 v) ++ " " ++ valueText (canon v)))
  | "utf8", [h] => do
    let bs ← ofHex h
    pure (if validUtf8 bs then "ok 1" else "ok 0")
  | _, _ => none

def msgCmd (cmd : String) (args : List String) : Option String :=
  match cmd, args with
  | "frame", [h] => do
    let fr ← ofHex h
    pure (match decodeFrame fr with
      | .error e => "err " ++ errName e
      | .ok r => match encodeFrame r with
        | .ok fr' => "ok " ++ toHex fr'
        | .error _ => "ok unserializable")
  | _, _ => none

def step (line : String) : String :=
  match (line.trimAscii.toString.splitOn " ").filter (· ≠ "") with
  | [] => "bad-op"
  | cmd :: args =>
    match codecCmd cmd args with
    | some out => out
    | none => match msgCmd cmd args with
      | some out => out
      | none => "bad-op"

partial def loop (h : IO.FS.Stream) (out : IO.FS.Stream) : IO Unit := do
  let line ← h.getLine
  if line.isEmpty then return ()
  out.putStrLn (step line)
  loop h out

end Aldrin.Driver

def main : IO Unit := do
  let stdin ← IO.getStdin
  let stdout ← IO.getStdout
  Aldrin.Driver.loop stdin stdout
