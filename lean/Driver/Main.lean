/-
Line-protocol driver: one request per line on stdin, one canonical answer per line on stdout.
Imports only the (Mathlib-free) models, so it links as a `lean_exe`.
-/
import Driver.Text
import Aldrin.Model.Msg
import Aldrin.Model.Packetizer
import Driver.BrokerCmd
import Driver.TypeIdCmd
import Driver.DiscCmd
import Driver.TypedCmd
import Driver.SchemaCmd
import Driver.ClientCmd
import Driver.ConnIdCmd
import Driver.ClientChanCmd

namespace Aldrin.Driver
open Aldrin

def resLine {α} (r : Except DeErr α) (f : α → String) : String :=
  match r with
  | .error e => "err " ++ errName e
  | .ok a => "ok " ++ f a

def serRes (r : Except SerErr Bytes) : String :=
  match r with
  | .ok b => toHex b
  | .error .tooDeep => "err:depth"
  | .error .overflow => "err:overflow"

def serLen (r : Except SerErr Bytes) : String :=
  match r with
  | .ok b => toString b.length
  | .error .tooDeep => "err:depth"
  | .error .overflow => "err:overflow"

def kindByteText (k : Kind) : String := toString k.b.toNat

def codecCmd (cmd : String) (args : List String) : Option String :=
  match cmd, args with
  | "dec", [h] => do
    let bs ← ofHex h
    pure (resLine (decodeTop .std bs) (fun v => valueText (canon v)))
  | "decu", [h] => do
    let bs ← ofHex h
    pure (resLine (decodeTop .lax bs) (fun v => valueText (canon v)))
  | "decl", [h] => do   -- a decoder that predates protocol 1.20
    let bs ← ofHex h
    pure (resLine (decodeTop .legacy bs) (fun v => valueText (canon v)))
  | "decp", [h] => do   -- prefix decode: value and number of bytes consumed
    let bs ← ofHex h
    pure (resLine (dec .std (fuelFor bs) bs 0)
      (fun (v, r) => toString (bs.length - r.length) ++ " " ++ valueText (canon v)))
  | "skip", [h] => do
    let bs ← ofHex h
    pure (resLine (lenTop bs) toString)
  | "kind", [h] => do
    let bs ← ofHex h
    pure (resLine (kindTop bs) kindByteText)
  | "conv", [f, t, h] => do
    let bs ← ofHex h
    let frm ← parseVersion f
    let to ← (← parseVersion t)
    pure (resLine (convertTop frm to bs) toHex)
  | "encv", toks => do
    let (v, r) ← parseValue toks
    if !r.isEmpty then none else
    pure (serLen (encodeTop .v1 v) ++ " " ++ serLen (encodeTop .v2 v))
  | "rt", [h] => do
    let bs ← ofHex h
    pure (resLine (decodeTop .std bs)
      (fun v => serRes (encodeTop .v1 v) ++ " " ++ serRes (encodeTop .v2 v) ++ " " ++ valueText (canon v)))
  | "utf8", [h] => do
    let bs ← ofHex h
    pure (if validUtf8 bs then "ok 1" else "ok 0")
  | _, _ => none

def msgCmd (cmd : String) (args : List String) : Option String :=
  match cmd, args with
  | "frame", [h] => do
    let fr ← ofHex h
    pure (match decodeFrame fr with
      | .error e => "err " ++ errName e
      | .ok r => match encodeFrame r with
        | .ok fr' => "ok " ++ toHex fr'
        | .error _ => "ok unserializable")
  | _, _ => none

def parseIoStep (s : String) : Option IoStep :=
  match s.toList with
  | ['p'] => some .pending
  | ['f'] => some .fail
  | 'o' :: r => (String.ofList r).toNat?.map .ok
  | _ => none

def tErrName : TErr → String
  | .eof => "eof" | .writeZero => "writezero" | .io => "io" | .script => "script"
  | .deserialize _ => "de"

def pollText {α : Type} (f : α → String) : Poll α → String
  | .ready a => f a
  | .pending => "pend"
  | .err e => "err:" ++ tErrName e

def frameCanon (f : Bytes) : String :=
  match decodeFrame f with
  | .error _ => "err:de"
  | .ok r => match encodeFrame r with
    | .ok f' => "f:" ++ toHex f'
    | .error _ => "f:unserializable"

/-- `pk <hexstream> <op>*` with `x<n>` = extend_from_slice of the next n bytes, `f<n>` = exactly n bytes
written through spare_capacity_mut/bytes_written, `d` = next_message. -/
def pkCmd (stream : Bytes) (ops : List String) : Option String := do
  let mut pk : Pk := {}
  let mut unfed := stream
  let mut out : List String := []
  for op in ops do
    match op.toList with
    | ['d'] =>
      let (pk', f) := pk.next
      pk := pk'
      out := (match f with | some f => toHex f | none => ".") :: out
    | 'x' :: r =>
      let n ← (String.ofList r).toNat?
      pk := pk.extend (unfed.take n)
      unfed := unfed.drop n
    | 'f' :: r =>
      let n ← (String.ofList r).toNat?
      pk := pk.written (unfed.take n)
      unfed := unfed.drop n
    | _ => none
  pure (String.intercalate " " (out.reverse ++ ["buf=" ++ toString pk.buf.length]))

/-- `tp <hexinput> <script> <op>*`: script = comma-separated `o<n>|p|f`; ops `S<hexframe>`, `F`, `R`. -/
def tpCmd (inp : Bytes) (script : List IoStep) (ops : List String) : Option String := do
  let mut t : Tp := { inp := inp }
  let mut sc := script
  let mut out : List String := []
  for op in ops do
    match op.toList with
    | ['F'] =>
      let (t', r, s') := t.flush sc
      t := t'; sc := s'
      out := pollText (fun _ => "rdy") r :: out
    | ['R'] =>
      let (t', r, s') := t.receive sc
      t := t'; sc := s'
      out := pollText frameCanon r :: out
    | 'S' :: r =>
      let fr ← ofHex (String.ofList r)
      let (t', res, s') := t.pollReady sc
      t := t'; sc := s'
      match res with
      | .ready _ =>
        t := t.sendStart fr
        out := "rdy" :: out
      | other => out := pollText (fun _ => "rdy") other :: out
    | _ => none
  pure (String.intercalate " " (out.reverse ++ ["w=" ++ toHex t.written, "wbuf=" ++ toString t.wbuf.length]))

def ioCmd (cmd : String) (args : List String) : Option String :=
  match cmd, args with
  | "pk", h :: ops => do pkCmd (← ofHex h) ops
  | "tp", h :: sc :: ops => do
    let script ← (if sc = "-" then some [] else (sc.splitOn ",").mapM parseIoStep)
    tpCmd (← ofHex h) script ops
  | _, _ => none

structure DState where
  broker : BState := {}
  disc : Option Aldrin.Disc.Disc := none
  tenv : Aldrin.Typed.Env := []
  clients : CStates := []
  deriving Inhabited

def step (ds : DState) (line : String) : DState × String :=
  match (line.trimAscii.toString.splitOn " ").filter (· ≠ "") with
  | [] => (ds, "bad-op")
  | cmd :: args =>
    match codecCmd cmd args with
    | some out => (ds, out)
    | none => match msgCmd cmd args with
      | some out => (ds, out)
      | none => match ioCmd cmd args with
        | some out => (ds, out)
        | none => match typeIdCmd cmd args with
          | some out => (ds, out)
          | none => match schemaCmd cmd args with
          | some out => (ds, out)
          | none => match connIdCmd cmd args with
          | some out => (ds, out)
          | none => match clientChanCmd cmd args with
          | some out => (ds, out)
          | none => match discCmd ds.disc cmd args with
          | some (d, out) => ({ ds with disc := d }, out)
          | none => match typedCmd ds.tenv cmd args with
          | some (e, out) => ({ ds with tenv := e }, out)
          | none => match clientCmd ds.clients cmd args with
          | some (c, out) => ({ ds with clients := c }, out)
          | none => match brokerCmd ds.broker cmd args with
            | some (b, out) => ({ ds with broker := b }, out)
            | none => (ds, "bad-op")

partial def loop (h : IO.FS.Stream) (out : IO.FS.Stream) (ds : DState) : IO Unit := do
  let line ← h.getLine
  if line.isEmpty then return ()
  let (ds, txt) := step ds line
  out.putStrLn txt
  loop h out ds

end Aldrin.Driver

def main : IO Unit := do
  let stdin ← IO.getStdin
  let stdout ← IO.getStdout
  Aldrin.Driver.loop stdin stdout {}
