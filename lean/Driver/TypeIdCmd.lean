/-
Line protocol for the type-id model: `tid <root> <node> <node> …` with `<node>` = `<ir>-><i,j,…>` (no
spaces). IR text: `U<n>` `B0|B1` `S<hex>` `I<hex>` `N` `J(<ir>)` `M[k:<ir>,…]` `R<Type>{field=<ir>,…}` `E<variant>(<ir>)`.
Answer: `<type id hex> pre=<pre-image hex>`.
-/
import Driver.Text
import Aldrin.Model.TypeId

namespace Aldrin.Driver
open Aldrin Aldrin.TypeIdM

def takeWhileC (p : Char → Bool) : List Char → List Char × List Char
  | [] => ([], [])
  | c :: r => if p c then let (a, b) := takeWhileC p r; (c :: a, b) else ([], c :: r)

mutual
  def parseIr : Nat → List Char → Option (Ir × List Char)
    | 0, _ => none
    | fuel + 1, cs =>
      match cs with
      | 'U' :: r =>
        let (d, rest) := takeWhileC Char.isDigit r
        (String.ofList d).toNat?.map (fun n => (Ir.u32 n, rest))
      | 'B' :: '0' :: r => some (.bool false, r)
      | 'B' :: '1' :: r => some (.bool true, r)
      | 'S' :: r =>
        let (d, rest) := takeWhileC (fun c => (hexVal c).isSome) r
        (ofHexChars d).map (fun bs => (Ir.str bs, rest))
      | 'I' :: r =>
        let (d, rest) := takeWhileC (fun c => (hexVal c).isSome) r
        (ofHexChars d).map (fun bs => (Ir.uuid bs, rest))
      | 'N' :: r => some (.none, r)
      | 'J' :: '(' :: r =>
        match parseIr fuel r with
        | some (x, ')' :: rest) => some (.some x, rest)
        | _ => none
      | 'E' :: r =>
        let (d, rest) := takeWhileC Char.isDigit r
        match (String.ofList d).toNat?, rest with
        | some v, '(' :: rest =>
          match parseIr fuel rest with
          | some (x, ')' :: rest) => some (.enumv v x, rest)
          | _ => none
        | _, _ => none
      | 'M' :: '[' :: r => (parseIrEntries fuel r).map (fun (m, rest) => (Ir.map m, rest))
      | 'R' :: r =>
        let (name, rest) := takeWhileC (fun c => c.isAlphanum) r
        match rest with
        | '{' :: rest => (parseIrFields fuel rest).map (fun (fs, rest) => (Ir.record (String.ofList name) fs, rest))
        | _ => none
      | _ => none
  def parseIrEntries : Nat → List Char → Option (List (Nat × Ir) × List Char)
    | 0, _ => none
    | fuel + 1, cs =>
      match cs with
      | ']' :: r => some ([], r)
      | ',' :: r => parseIrEntries fuel r
      | _ =>
        let (d, rest) := takeWhileC Char.isDigit cs
        match (String.ofList d).toNat?, rest with
        | some k, ':' :: rest =>
          match parseIr fuel rest with
          | some (x, rest) => (parseIrEntries fuel rest).map (fun (m, rest) => ((k, x) :: m, rest))
          | none => none
        | _, _ => none
  def parseIrFields : Nat → List Char → Option (List (String × Ir) × List Char)
    | 0, _ => none
    | fuel + 1, cs =>
      match cs with
      | '}' :: r => some ([], r)
      | ',' :: r => parseIrFields fuel r
      | _ =>
        let (name, rest) := takeWhileC (fun c => c.isAlphanum || c == '_') cs
        match rest with
        | '=' :: rest =>
          match parseIr fuel rest with
          | some (x, rest) => (parseIrFields fuel rest).map (fun (fs, rest) => ((String.ofList name, x) :: fs, rest))
          | none => none
        | _ => none
end

def parseNode (s : String) : Option Node :=
  match s.splitOn "->" with
  | [ir, refs] => do
    let (x, rest) ← parseIr (2 * ir.length + 2) ir.toList
    if !rest.isEmpty then none
    let rs ← (if refs = "" then some [] else (refs.splitOn ",").mapM String.toNat?)
    pure { layout := x, refs := rs }
  | _ => none

def typeIdCmd (cmd : String) (args : List String) : Option String :=
  match cmd, args with
  | "tid", root :: nodes => do
    let root ← root.toNat?
    let g ← nodes.mapM parseNode
    let n ← g[root]?
    match typeIdOfGraph g root with
    | some id => pure (toHex id ++ " pre=" ++ toHex (computeBytesOfSet n.layout (referencedSet g root)))
    | none => pure "no-namespace"
  | _, _ => none

end Aldrin.Driver
