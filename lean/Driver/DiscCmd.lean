/-
Line protocol for the discoverer model (stateful): `dnew <key>:<obj|*>:<s,s|->…`, `dbus oc|od u/c`,
`dbus sc|sd u/c/s/sc`, `ddrain`, `dstate`, `dreset`; stateless: `lft <cookie> <c<k>|d>… | <c<k>|d>…` (a lifetime bound
to `cookie` after the operations before the bar, asked after those behind it: `ended` / `pending`).
-/
import Driver.Text
import Aldrin.Model.Discoverer
import Aldrin.Model.Lifetime

namespace Aldrin.Driver
open Aldrin Aldrin.Broker Aldrin.Disc

def parseEntry (s : String) : Option Entry :=
  match s.splitOn ":" with
  | [k, o, svcs] => do
    let k ← k.toNat?
    let services ← (if svcs = "-" then some [] else (svcs.splitOn ",").mapM String.toNat?)
    if o = "*" then pure (Entry.mkAny k services)
    else do
      let o ← o.toNat?
      pure (Entry.mkSpecific k o services)
  | _ => none

def parseObj (s : String) : Option ObjId :=
  match s.splitOn "/" with
  | [u, c] => do pure ⟨← u.toNat?, ← c.toNat?⟩
  | _ => none

def parseSvc (s : String) : Option SvcId :=
  match s.splitOn "/" with
  | [u, c, su, sc] => do pure ⟨⟨← u.toNat?, ← c.toNat?⟩, ← su.toNat?, ← sc.toNat?⟩
  | _ => none

def sortStrings (l : List String) : List String := l.mergeSort (fun a b => a ≤ b)

def devText (e : DEvent) : String :=
  s!"{e.key}:{match e.kind with | .created => "C" | .destroyed => "D"}:{e.obj.uuid}/{e.obj.cookie}"

def parseBOp (s : String) : Option Lifetime.BOp :=
  if s = "d" then some .destroy
  else if s.startsWith "c" then (s.drop 1).toNat?.map .create
  else none

def lifetimeCmd (args : List String) : Option String :=
  match args with
  | t :: rest => do
    let t ← t.toNat?
    let pre ← (rest.takeWhile (· ≠ "|")).mapM parseBOp
    let post ← ((rest.dropWhile (· ≠ "|")).drop 1).mapM parseBOp
    match ({} : Lifetime.Bus).run pre with
    | none => pure "bad-history"
    | some b1 =>
      match b1.run post with
      | none => pure "bad-history"
      | some _ =>
        pure (if (Lifetime.run t {} (Lifetime.currentEvents b1 ++ Lifetime.eventsFrom b1 post)).ended then "ended" else "pending")
  | [] => none

def discCmd (d : Option Disc) (cmd : String) (args : List String) : Option (Option Disc × String) :=
  match cmd, args with
  | "dnew", specs => do
    let es ← specs.mapM parseEntry
    pure (some { entries := es }, "ok")
  | "dbus", [kind, x] => do
    let d ← d
    let ev ← (match kind with
      | "oc" => (parseObj x).map BusEv.objCreated
      | "od" => (parseObj x).map BusEv.objDestroyed
      | "sc" => (parseSvc x).map BusEv.svcCreated
      | "sd" => (parseSvc x).map BusEv.svcDestroyed
      | _ => none)
    match d.handle ev with
    | .ok d' => pure (some d', "ok")
    | .error (.dup site) => pure (some d, "ASSERT dup " ++ site)
    | .error (.mismatch site) => pure (some d, "ASSERT mismatch " ++ site)
  | "ddrain", [] => do
    let d ← d
    let evs := sortStrings (d.events.map devText)
    pure (some { d with events := [] }, if evs.isEmpty then "-" else String.intercalate " " evs)
  | "dstate", [] => do
    let d ← d
    let items := d.entries.flatMap (fun e => e.found.map (fun (o, svcs) =>
      s!"{e.key}={o.uuid}/{o.cookie}[" ++ String.intercalate "," (sortStrings (svcs.map (fun (s, c) => s!"{s}:{c}"))) ++ "]"))
    let items := sortStrings items
    pure (some d, if items.isEmpty then "-" else String.intercalate " " items)
  | "dreset", [] => do
    let d ← d
    pure (some d.reset, "ok")
  | "lft", args => do
    pure (d, ← lifetimeCmd args)
  | _, _ => none

end Aldrin.Driver
