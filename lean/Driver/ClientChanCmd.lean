/-
Line protocol for the composed producer / broker / consumer model of one channel: `cch <max> <op>*` with `s` = send if
ready, `t` = take, `c` = poll receiver_closed, `r` = poll send_ready. Answer: one word per operation, then
`cap=<sender capacity> cur=<receiver cur_capacity>` (the private fields, which the harness reads off `Debug`).
-/
import Aldrin.Model.ClientChan

namespace Aldrin.Driver
open Aldrin.ClientChan

def obsText : Obs → String
  | .sent => "sent" | .blocked => "blocked" | .item => "item" | .empty => "empty"
  | .pending => "pending" | .isReady => "ready" | .cutOff => "cutoff"

def clientChanRun (max : Nat) (ops : List String) : Option String := do
  let mut s := init max
  let mut out : List String := []
  for t in ops do
    let op ← match t with
      | "s" => some Op.send | "t" => some Op.take | "c" => some Op.pollClosed | "r" => some Op.ready | _ => none
    match step s op with
    | .ok (s', o) =>
      s := s'
      out := obsText o :: out
    | .error _ => return String.intercalate " " (out.reverse ++ ["panic"])
  pure (String.intercalate " " (out.reverse ++ ["cap=" ++ toString s.snd.capacity, "cur=" ++ toString s.rcv.cur]))

def clientChanRunA (max : Nat) (ops : List String) : Option String := do
  let mut s := ASys.ofSys (init max)
  let mut out : List String := []
  for t in ops do
    let op ← match t with
      | "s" => some Op.send | "t" => some Op.take | "c" => some Op.pollClosed | "r" => some Op.ready | _ => none
    match arun s (expand op) with
    | .ok (s', os) =>
      s := s'
      let word := match os with
        | .app o :: rest => if rest.contains .cutOff then "cutoff" else obsText o
        | _ => "?"
      out := word :: out
    | .error _ => return String.intercalate " " (out.reverse ++ ["panic"])
  let rest := if s.sb = 0 ∧ s.br = 0 ∧ s.rb = [] ∧ s.bs = [] then [] else ["in-flight"]
  pure (String.intercalate " " (out.reverse ++ ["cap=" ++ toString s.snd.capacity, "cur=" ++ toString s.rcv.cur] ++ rest))

/-- both models answer; they have to agree -/
def clientChanCmd (cmd : String) (args : List String) : Option String :=
  match cmd, args with
  | "cch", m :: ops => do
    let max ← m.toNat?
    let a ← clientChanRun max ops
    let b ← clientChanRunA max ops
    pure (if a = b then a else "models-disagree: at rest `" ++ a ++ "` in flight `" ++ b ++ "`")
  | _, _ => none

end Aldrin.Driver
