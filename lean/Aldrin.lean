import Aldrin.Model.Bytes
