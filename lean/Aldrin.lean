import Aldrin.Model.Bytes
import Aldrin.Model.Value
import Aldrin.Model.Codec
import Aldrin.Model.WF
import Aldrin.Props.C01
import Aldrin.Props.C07
import Aldrin.Props.C13
