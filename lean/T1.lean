import Aldrin.Lemmas.Broker.Frame
namespace Aldrin.Broker
open Generated
example {s s' : St} {id serial r} {ok : Bool} : queryIntrospectionReply s id serial r = .ok (s', ok) → SameCL s s' := by
  intro h; unfold queryIntrospectionReply at h
  repeat' ((try simp only [] at h); split at h)
  all_goals (try (grind [SameCL, okH, errH]; done))
  · have hrp := replyPending_cl' ‹_›
    simp only [okH, Except.ok.injEq, Prod.mk.injEq] at h
    obtain ⟨h1, h2⟩ := h
    subst h1
    simp_all [SameCL]
  · sorry
