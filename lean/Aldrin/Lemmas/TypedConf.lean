/-
Schema conformance of a dynamic value, stated declaratively (`Conf`), and the proof that the generated
type accepts exactly the conforming values (`accept_ok_iff_conf`).
-/
import Aldrin.Lemmas.Typed

namespace Aldrin.Typed
open Aldrin

/-- `Conf env n ty v`: the dynamic value `v` conforms to the schema type `ty`. Unknown struct field ids are
tolerated for every struct; unknown variants only for enums with a fallback. -/
inductive Conf (env : Env) (n : Nat) : Ty → Value → Prop
  | any {ty v} : shape env n ty = .value → Conf env n ty v
  | unit {ty} : shape env n ty = .unit → Conf env n ty .none
  | optNone {ty t} : shape env n ty = .opt t → Conf env n ty .none
  | optSome {ty t x} : shape env n ty = .opt t → Conf env n t x → Conf env n ty (.some x)
  | bool {ty b} : shape env n ty = .bool → Conf env n ty (.bool b)
  | int {ty t i} : shape env n ty = .int t → Conf env n ty (.int t i)
  | fixed {ty k bs} : shape env n ty = .fixed k → Conf env n ty (.fixed k bs)
  | string {ty bs} : shape env n ty = .string → Conf env n ty (.string bs)
  | bytes {ty bs} : shape env n ty = .bytes → Conf env n ty (.bytes bs)
  | vec {ty t vs} : shape env n ty = .vec t → (∀ x ∈ vs, Conf env n t x) → Conf env n ty (.vec vs)
  | arr {ty t k vs} : shape env n ty = .arr t k → vs.length = k → (∀ x ∈ vs, Conf env n t x) →
      Conf env n ty (.vec vs)
  | map {ty k t kt es} : shape env n ty = .map k t → keyTy env n k = some kt →
      (∀ p ∈ es, Conf env n t p.2) → Conf env n ty (.map kt es)
  | set {ty k kt ks} : shape env n ty = .set k → keyTy env n k = some kt → Conf env n ty (.set kt ks)
  | resOk {ty a b x} : shape env n ty = .result a b → Conf env n a x → Conf env n ty (.enum 0 x)
  | resErr {ty a b x} : shape env n ty = .result a b → Conf env n b x → Conf env n ty (.enum 1 x)
  | struct {ty fs fb es} : shape env n ty = .struct fs fb →
      -- every entry carries a field id, and a declared id carries a value of the field's type
      (∀ p ∈ es, (keyId p.1).isSome) →
      (∀ p ∈ es, ∀ id f, keyId p.1 = some id → findField fs id = some f → Conf env n f.wireTy p.2) →
      -- every required field is present
      (∀ f ∈ fs, f.required = true → ∃ p ∈ es, keyId p.1 = some f.id) →
      Conf env n ty (.map .field es)
  | variant {ty vs fb id id' t x} : shape env n ty = .enum vs fb → findVariant vs id = some ⟨id', some t⟩ →
      Conf env n t x → Conf env n ty (.enum id x)
  | unitVariant {ty vs fb id id'} : shape env n ty = .enum vs fb → findVariant vs id = some ⟨id', none⟩ →
      Conf env n ty (.enum id .none)
  | unknownVariant {ty vs id x} : shape env n ty = .enum vs true → findVariant vs id = none →
      Conf env n ty (.enum id x)

/-! ### acceptance implies conformance -/

theorem acceptFields_known_ids (env : Env) (n : Nat) (fs : List Field) :
    ∀ (es : List (Key × Value)) (kn un : List (Nat × Value)), acceptFields env n fs es = .ok (kn, un) →
      ∀ id, (lastOf id kn).isSome → ∃ p ∈ es, keyId p.1 = some id
  | [], kn, un, h, id, hl => by
    simp only [acceptFields, Except.ok.injEq, Prod.mk.injEq] at h
    obtain ⟨rfl, rfl⟩ := h
    simp [lastOf] at hl
  | (k, v) :: es, kn, un, h, id, hl => by
    unfold acceptFields at h
    split at h
    · simp at h
    · rename_i i hi
      split at h
      · split at h
        · simp at h
        · split at h
          · simp at h
          · rename_i kn' un' hrest
            simp only [Except.ok.injEq, Prod.mk.injEq] at h
            obtain ⟨rfl, rfl⟩ := h
            simp only [lastOf] at hl
            cases hr : lastOf id kn' with
            | some w =>
              obtain ⟨p, hp, hpk⟩ := acceptFields_known_ids env n fs es kn' un' hrest id (by simp [hr])
              exact ⟨p, List.mem_cons_of_mem _ hp, hpk⟩
            | none =>
              simp only [hr] at hl
              split at hl
              · rename_i he
                have : i = id := by simpa using he
                subst this
                exact ⟨(k, v), List.mem_cons_self, hi⟩
              · simp at hl
      · split at h
        · simp at h
        · rename_i kn' un' hrest
          simp only [Except.ok.injEq, Prod.mk.injEq] at h
          obtain ⟨rfl, rfl⟩ := h
          obtain ⟨p, hp, hpk⟩ := acceptFields_known_ids env n fs es kn' un' hrest id hl
          exact ⟨p, List.mem_cons_of_mem _ hp, hpk⟩

mutual
theorem accept_conf (env : Env) (n : Nat) :
    ∀ (v : Value) (ty : Ty) (w : Value), accept env n ty v = .ok w → Conf env n ty v
  | .none, ty, w, h => by
    unfold accept at h; split at h
    · exact .unit ‹_›
    · exact .optNone ‹_›
    · exact .any ‹_›
    · simp at h
  | .bool b, ty, w, h => by
    unfold accept at h; split at h
    · exact .bool ‹_›
    · exact .any ‹_›
    · simp at h
  | .int t i, ty, w, h => by
    unfold accept at h; split at h
    · split at h
      · rename_i ht; subst ht; exact .int ‹_›
      · simp at h
    · exact .any ‹_›
    · simp at h
  | .fixed k bs, ty, w, h => by
    unfold accept at h; split at h
    · split at h
      · rename_i ht; subst ht; exact .fixed ‹_›
      · simp at h
    · exact .any ‹_›
    · simp at h
  | .string bs, ty, w, h => by
    unfold accept at h; split at h
    · exact .string ‹_›
    · exact .any ‹_›
    · simp at h
  | .bytes bs, ty, w, h => by
    unfold accept at h; split at h
    · exact .bytes ‹_›
    · exact .any ‹_›
    · simp at h
  | .set kt ks, ty, w, h => by
    unfold accept at h; split at h
    · split at h
      · exact .set ‹_› ‹_›
      · simp at h
    · exact .any ‹_›
    · simp at h
  | .some x, ty, w, h => by
    unfold accept at h; split at h
    · rename_i t hs
      split at h
      · rename_i w' hw'
        exact .optSome hs (accept_conf env n x t w' hw')
      · simp at h
    · exact .any ‹_›
    · simp at h
  | .vec vs, ty, w, h => by
    unfold accept at h; split at h
    · rename_i t hs
      split at h
      · rename_i ws hws
        exact .vec hs (acceptElems_conf env n vs t ws hws)
      · simp at h
    · rename_i t k hs
      split at h
      · split at h
        · rename_i hl _ ws hws
          exact .arr hs hl (acceptElems_conf env n vs t ws hws)
        · simp at h
      · simp at h
    · exact .any ‹_›
    · simp at h
  | .map kt es, ty, w, h => by
    unfold accept at h; split at h
    · rename_i k t hs
      split at h
      · split at h
        · rename_i hk _ ws hws
          exact .map hs hk (acceptEntries_conf env n es t ws hws)
        · simp at h
      · simp at h
    · rename_i fs fb hs
      split at h
      · rename_i hkt
        subst hkt
        split at h
        · simp at h
        · rename_i kn un hacc
          split at h
          · simp at h
          · rename_i out hfin
            refine .struct hs (fun p hp => (acceptFields_conf env n es fs kn un hacc p hp).1)
              (fun p hp => (acceptFields_conf env n es fs kn un hacc p hp).2) ?_
            intro f hf hr
            exact acceptFields_known_ids env n fs es kn un hacc f.id ((finishFields_some hfin).1 f hf hr)
      · simp at h
    · exact .any ‹_›
    · simp at h
  | .enum id x, ty, w, h => by
    unfold accept at h; split at h
    · rename_i a b hs
      split at h
      · rename_i hid
        subst hid
        split at h
        · rename_i w' hw'
          exact .resOk hs (accept_conf env n x a w' hw')
        · simp at h
      · split at h
        · rename_i hid0 hid
          subst hid
          split at h
          · rename_i w' hw'
            exact .resErr hs (accept_conf env n x b w' hw')
          · simp at h
        · simp at h
    · rename_i vs fb hs
      split at h
      · rename_i id' t hv
        split at h
        · rename_i w' hw'
          exact .variant hs hv (accept_conf env n x t w' hw')
        · simp at h
      · rename_i id' hv
        split at h
        · exact .unitVariant hs hv
        · simp at h
      · rename_i hv
        split at h
        · rename_i hfb
          subst hfb
          exact .unknownVariant hs hv
        · simp at h
    · exact .any ‹_›
    · simp at h

theorem acceptElems_conf (env : Env) (n : Nat) :
    ∀ (vs : List Value) (ty : Ty) (ws : List Value), acceptElems env n ty vs = .ok ws → ∀ x ∈ vs, Conf env n ty x
  | [], ty, ws, h => by simp
  | v :: vs, ty, ws, h => by
    unfold acceptElems at h
    split at h
    · simp at h
    · rename_i w hw
      split at h
      · simp at h
      · rename_i ws' hws'
        intro x hx
        rcases List.mem_cons.1 hx with hxv | hx
        · exact hxv ▸ accept_conf env n v ty w hw
        · exact acceptElems_conf env n vs ty ws' hws' x hx

theorem acceptEntries_conf (env : Env) (n : Nat) :
    ∀ (es : List (Key × Value)) (ty : Ty) (ws : List (Key × Value)),
      acceptEntries env n ty es = .ok ws → ∀ p ∈ es, Conf env n ty p.2
  | [], ty, ws, h => by simp
  | (k, v) :: es, ty, ws, h => by
    unfold acceptEntries at h
    split at h
    · simp at h
    · rename_i w hw
      split at h
      · simp at h
      · rename_i ws' hws'
        intro x hx
        rcases List.mem_cons.1 hx with hxv | hx
        · exact hxv ▸ accept_conf env n v ty w hw
        · exact acceptEntries_conf env n es ty ws' hws' x hx

theorem acceptFields_conf (env : Env) (n : Nat) :
    ∀ (es : List (Key × Value)) (fs : List Field) (kn un : List (Nat × Value)),
      acceptFields env n fs es = .ok (kn, un) →
      ∀ p ∈ es, (keyId p.1).isSome ∧
        ∀ id f, keyId p.1 = some id → findField fs id = some f → Conf env n f.wireTy p.2
  | [], fs, kn, un, h => by simp
  | (k, v) :: es, fs, kn, un, h => by
    unfold acceptFields at h
    split at h
    · simp at h
    · rename_i id hid
      split at h
      · rename_i f hf
        split at h
        · simp at h
        · rename_i w hw
          split at h
          · simp at h
          · rename_i kn' un' hrest
            intro p hp
            rcases List.mem_cons.1 hp with hpe | hp
            · subst hpe
              refine ⟨by simp [hid], fun id' f' hid' hf' => ?_⟩
              rw [hid] at hid'; cases hid'
              rw [hf] at hf'; cases hf'
              exact accept_conf env n v f.wireTy w hw
            · exact acceptFields_conf env n es fs kn' un' hrest p hp
      · rename_i hf
        split at h
        · simp at h
        · rename_i kn' un' hrest
          intro p hp
          rcases List.mem_cons.1 hp with hpe | hp
          · subst hpe
            exact ⟨by simp [hid], fun id' f' hid' hf' => by
              rw [hid] at hid'; cases hid'; rw [hf] at hf'; cases hf'⟩
          · exact acceptFields_conf env n es fs kn' un' hrest p hp
end

/-! ### conformance implies acceptance -/

theorem accept_value {env : Env} {n : Nat} {ty : Ty} (hs : shape env n ty = .value) (v : Value) :
    accept env n ty v = .ok v := by
  cases v <;> simp [accept, hs]

theorem acceptElems_ok {env : Env} {n : Nat} {ty : Ty} :
    ∀ {vs : List Value}, (∀ x ∈ vs, ∃ w, accept env n ty x = .ok w) → ∃ ws, acceptElems env n ty vs = .ok ws
  | [], _ => ⟨[], by simp [acceptElems]⟩
  | v :: vs, h => by
    obtain ⟨w, hw⟩ := h v List.mem_cons_self
    obtain ⟨ws, hws⟩ := acceptElems_ok (vs := vs) (fun x hx => h x (List.mem_cons_of_mem _ hx))
    exact ⟨w :: ws, by simp [acceptElems, hw, hws]⟩

theorem acceptEntries_ok {env : Env} {n : Nat} {ty : Ty} :
    ∀ {es : List (Key × Value)}, (∀ p ∈ es, ∃ w, accept env n ty p.2 = .ok w) →
      ∃ ws, acceptEntries env n ty es = .ok ws
  | [], _ => ⟨[], by simp [acceptEntries]⟩
  | (k, v) :: es, h => by
    obtain ⟨w, hw⟩ := h (k, v) List.mem_cons_self
    obtain ⟨ws, hws⟩ := acceptEntries_ok (es := es) (fun x hx => h x (List.mem_cons_of_mem _ hx))
    exact ⟨(k, w) :: ws, by simp [acceptEntries, hw, hws]⟩

theorem acceptFields_ok {env : Env} {n : Nat} {fs : List Field} :
    ∀ {es : List (Key × Value)}, (∀ p ∈ es, (keyId p.1).isSome) →
      (∀ p ∈ es, ∀ id f, keyId p.1 = some id → findField fs id = some f → ∃ w, accept env n f.wireTy p.2 = .ok w) →
      ∃ kn un, acceptFields env n fs es = .ok (kn, un) ∧
        ∀ id, (∃ p ∈ es, keyId p.1 = some id) → (findField fs id).isSome → (lastOf id kn).isSome
  | [], _, _ => ⟨[], [], by simp [acceptFields], by simp⟩
  | (k, v) :: es, hk, ha => by
    obtain ⟨kn, un, hrest, hpres⟩ := acceptFields_ok (es := es) (fun p hp => hk p (List.mem_cons_of_mem _ hp))
      (fun p hp => ha p (List.mem_cons_of_mem _ hp))
    have hk0 := hk (k, v) List.mem_cons_self
    cases hid : keyId k with
    | none => simp [hid] at hk0
    | some id =>
      cases hf : findField fs id with
      | some f =>
        obtain ⟨w, hw⟩ := ha (k, v) List.mem_cons_self id f hid hf
        refine ⟨(id, w) :: kn, un, by simp [acceptFields, hid, hf, hw, hrest], ?_⟩
        intro id' ⟨p, hp, hpid⟩ hfd
        simp only [lastOf]
        cases hl : lastOf id' kn with
        | some _ => simp
        | none =>
          rcases List.mem_cons.1 hp with rfl | hp
          · simp only at hpid
            rw [hid] at hpid; cases hpid
            simp
          · have := hpres id' ⟨p, hp, hpid⟩ hfd
            simp [hl] at this
      | none =>
        refine ⟨kn, (id, v) :: un, by simp [acceptFields, hid, hf, hrest], ?_⟩
        intro id' ⟨p, hp, hpid⟩ hfd
        rcases List.mem_cons.1 hp with rfl | hp
        · simp only at hpid
          rw [hid] at hpid; cases hpid
          simp [hf] at hfd
        · exact hpres id' ⟨p, hp, hpid⟩ hfd

theorem conf_accept {env : Env} (hwf : env.WF) {n : Nat} {ty : Ty} {v : Value} (h : Conf env n ty v) :
    ∃ w, accept env n ty v = .ok w := by
  induction h with
  | any hs => exact ⟨_, accept_value hs _⟩
  | unit hs => exact ⟨.none, by simp [accept, hs]⟩
  | optNone hs => exact ⟨.none, by simp [accept, hs]⟩
  | optSome hs _ ih => obtain ⟨w, hw⟩ := ih; exact ⟨.some w, by simp [accept, hs, hw]⟩
  | bool hs => exact ⟨_, by simp [accept, hs]; rfl⟩
  | int hs => exact ⟨_, by simp [accept, hs]; rfl⟩
  | fixed hs => exact ⟨_, by simp [accept, hs]; rfl⟩
  | string hs => exact ⟨_, by simp [accept, hs]; rfl⟩
  | bytes hs => exact ⟨_, by simp [accept, hs]; rfl⟩
  | vec hs _ ih => obtain ⟨ws, hws⟩ := acceptElems_ok ih; exact ⟨.vec ws, by simp [accept, hs, hws]⟩
  | arr hs hl _ ih => obtain ⟨ws, hws⟩ := acceptElems_ok ih; exact ⟨.vec ws, by simp [accept, hs, hws, hl]⟩
  | map hs hk _ ih => obtain ⟨ws, hws⟩ := acceptEntries_ok ih; exact ⟨.map _ ws, by simp [accept, hs, hws, hk]; rfl⟩
  | set hs hk => exact ⟨_, by simp [accept, hs, hk]; rfl⟩
  | resOk hs _ ih => obtain ⟨w, hw⟩ := ih; exact ⟨.enum 0 w, by simp [accept, hs, hw]⟩
  | resErr hs _ ih => obtain ⟨w, hw⟩ := ih; exact ⟨.enum 1 w, by simp [accept, hs, hw]⟩
  | @struct ty fs fb es hs hkeys _ hreq ih =>
    obtain ⟨kn, un, hacc, hpres⟩ := acceptFields_ok (fs := fs) hkeys ih
    have hn := shape_struct_nodup hwf n ty hs
    have hfin : ∀ f ∈ fs, f.required = true → (lastOf f.id kn).isSome := by
      intro f hf hr
      exact hpres f.id (hreq f hf hr) (by simp [findField_of_mem hn hf])
    refine ⟨.map .field (fs.filterMap (emit kn) ++ (if fb then dedupLast un else [])), ?_⟩
    simp [accept, hs, hacc, finishFields_eq, if_pos hfin]
  | variant hs hv _ ih => obtain ⟨w, hw⟩ := ih; exact ⟨.enum _ w, by simp [accept, hs, hv, hw]; rfl⟩
  | unitVariant hs hv => exact ⟨_, by simp [accept, hs, hv]; rfl⟩
  | unknownVariant hs hv => exact ⟨_, by simp [accept, hs, hv]; rfl⟩

/-- The generated type accepts exactly the values that conform to its schema type. -/
theorem accept_ok_iff_conf {env : Env} (hwf : env.WF) (n : Nat) (ty : Ty) (v : Value) :
    (∃ w, accept env n ty v = .ok w) ↔ Conf env n ty v :=
  ⟨fun ⟨w, h⟩ => accept_conf env n v ty w h, conf_accept hwf⟩

end Aldrin.Typed
