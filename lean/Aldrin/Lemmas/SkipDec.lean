import Aldrin.Lemmas.Fuel
namespace Aldrin
open Generated

/-! Skipping vs. decoding. Errors are compared up to the class {eoi, invalid}: a too-long `Bytes`
chunk is `InvalidSerialization` when decoding and `UnexpectedEoi` when skipping. -/

/-- Error classes: `eoi` and `invalid` are merged. -/
def cls : DeErr → DeErr
  | .eoi => .invalid
  | e => e

/-- Forget the error detail. -/
def norm {α : Type} : Except DeErr α → Except DeErr α
  | .ok a => .ok a
  | .error e => .error (cls e)

/-- Forget the decoded value, keep the rest of the input. -/
def restOf {α : Type} : Except DeErr (α × Bytes) → Except DeErr Bytes
  | .ok (_, r) => .ok r
  | .error e => .error e

@[simp] theorem norm_ok {α : Type} (a : α) : norm (.ok a : Except DeErr α) = .ok a := rfl
@[simp] theorem norm_err {α : Type} (e : DeErr) : norm (.error e : Except DeErr α) = .error (cls e) := rfl
@[simp] theorem restOf_ok {α : Type} (a : α) (r : Bytes) : restOf (.ok (a, r) : Except DeErr (α × Bytes)) = .ok r := rfl
@[simp] theorem restOf_err {α : Type} (e : DeErr) : restOf (.error e : Except DeErr (α × Bytes)) = .error e := rfl

theorem norm_eq_ok {α : Type} {x : Except DeErr α} {a : α} : norm x = .ok a ↔ x = .ok a := by
  cases x <;> simp [norm]

theorem norm_eq_err {α : Type} {x : Except DeErr α} {e : DeErr} :
    norm x = .error e ↔ ∃ e', x = .error e' ∧ cls e' = e := by
  cases x <;> simp [norm]

@[simp] theorem cls_eoi : cls .eoi = .invalid := rfl
@[simp] theorem cls_invalid : cls .invalid = .invalid := rfl
@[simp] theorem cls_tooDeep : cls .tooDeep = .tooDeep := rfl
@[simp] theorem cls_fuel : cls .fuel = .fuel := rfl
theorem cls_eq_fuel {e : DeErr} : cls e = .fuel ↔ e = .fuel := by cases e <;> simp [cls]
theorem cls_eq_tooDeep {e : DeErr} : cls e = .tooDeep ↔ e = .tooDeep := by cases e <;> simp [cls]

/-! Leaves: the generated skip tables against the decoder's readers. These are the obligations on
`core/src/deserializer.rs::skip` and `KeyTagImpl::skip` (widths and modes). -/

theorem skipVarint_restOf (N : Nat) (bs : Bytes) : skipVarint N bs = restOf (getVarint N bs) := by
  rw [skipVarint_eq_getVarint]
  cases getVarint N bs with
  | error e => rfl
  | ok p => cases p; rfl

theorem skipBy_fixed (n : Nat) (bs : Bytes) : skipBy (.fixed, n) bs = restOf (takeN n bs) := by
  simp only [skipBy]
  cases takeN n bs with
  | error e => rfl
  | ok p => cases p; rfl

theorem skipBy_varint (n : Nat) (bs : Bytes) : skipBy (.varint, n) bs = restOf (getVarint n bs) := by
  simp only [skipBy, skipVarint_restOf]

theorem skip_int_leaf (t : IntTy) (bs : Bytes) : skipBy (intSkipSpec t) bs = restOf (decInt t bs) := by
  cases t <;> simp only [intSkipSpec, skipU8, skipI8, skipU16, skipI16, skipU32, skipI32, skipU64, skipI64,
    skipBy_fixed, skipBy_varint, decInt, IntTy.bytes]
  · cases bs <;> simp [takeN]
  · cases bs <;> simp [takeN]
  all_goals (cases getVarint _ bs with
    | error e => rfl
    | ok p => cases p; rfl)

theorem skip_fixed_leaf (k : FixedKind) (bs : Bytes) : skipBy (fixedSkipSpec k) bs = restOf (takeN k.len bs) := by
  cases k <;> simp only [fixedSkipSpec, skipF32, skipF64, skipUuid, skipObjectId, skipServiceId,
    skipSender, skipReceiver, skipBy_fixed, FixedKind.len]

theorem skip_bool_leaf (bs : Bytes) :
    skipBy skipBool bs = match bs with | [] => .error .eoi | _ :: r => .ok r := by
  cases bs <;> simp [skipBool, skipBy_fixed, takeN]

/-- `KeyTagImpl::skip` agrees with `KeyTagImpl::deserialize_key` (UTF-8 aside) for every key type:
same success, same rest. This is the obligation the C07 defect violated (skip width 0). -/
theorem skipKey_restOf (kt : KeyTy) (bs : Bytes) : skipKey kt bs = restOf (decKey false kt bs) := by
  cases kt with
  | int t =>
    have h := skip_int_leaf t bs
    cases t <;> simp only [skipKey, keySkipSpec, keyU8Skip, keyI8Skip, keyU16Skip, keyI16Skip, keyU32Skip,
      keyI32Skip, keyU64Skip, keyI64Skip, decKey] <;>
      simp only [intSkipSpec, skipU8, skipI8, skipU16, skipI16, skipU32, skipI32, skipU64, skipI64] at h <;>
      rw [h] <;> (cases decInt _ bs with
        | error e => rfl
        | ok p => cases p; rfl)
  | string =>
    simp only [skipKey, keySkipSpec, keyStringSkip, skipBy, decKey]
    cases getVarint 4 bs with
    | error e => rfl
    | ok p =>
      obtain ⟨n, r⟩ := p
      simp only
      cases takeN n r with
      | error e => rfl
      | ok q => cases q; simp
  | uuid =>
    simp only [skipKey, keySkipSpec, keyUuidSkip, skipBy_fixed, decKey]
    cases takeN 16 bs with
    | error e => rfl
    | ok q => cases q; rfl
  | field =>
    simp only [skipKey, keySkipSpec, skipBy_varint, decKey]
    cases getVarint 4 bs with
    | error e => rfl
    | ok q => cases q; rfl

end Aldrin

namespace Aldrin
open Generated

theorem skipKeys1_eq (kt : KeyTy) (f n : Nat) (bs : Bytes) :
    skipKeys1 kt f n bs = restOf (decKeys1 false kt f n bs) := by
  fun_induction decKeys1 false kt f n bs <;> simp_all [skipKeys1, skipKey_restOf]

theorem skipKeys2_eq (kt : KeyTy) (f : Nat) (bs : Bytes) :
    skipKeys2 kt f bs = restOf (decKeys2 false kt f bs) := by
  fun_induction decKeys2 false kt f bs <;> simp_all [skipKeys2, skipKey_restOf]

theorem skipChunks_eq (f : Nat) (bs : Bytes) :
    norm (skipChunks f bs) = norm (restOf (decChunks f bs)) := by
  fun_induction decChunks f bs <;> simp_all [skipChunks, if_lt_of_le]

end Aldrin

namespace Aldrin
open Generated

theorem norm_if {α : Type} (c : Prop) [Decidable c] (x y : Except DeErr α) :
    norm (if c then x else y) = if c then norm x else norm y := by
  split <;> rfl

/-- Case analysis helper: a normalised result is either ok or a (class of) error. -/
theorem norm_cases {α : Type} (x : Except DeErr α) :
    (∃ a, x = .ok a) ∨ (∃ e, x = .error e) := by
  cases x <;> simp

set_option maxHeartbeats 4000000 in
/-- `skip` = `decode without the UTF-8 check`, forgetting the value: same rest on success, same
error class otherwise (in particular the same `tooDeep` and `fuel` outcomes). -/
theorem skip_dec_all :
    (∀ (f : Nat) (bs : Bytes) (d : Nat), norm (skip f bs d) = norm (restOf (dec .lax f bs d))) ∧
    (∀ kt (f : Nat) (bs : Bytes) (d : Nat), norm (skipEntries2 kt f bs d) = norm (restOf (decEntries2 .lax kt f bs d))) ∧
    (∀ (f : Nat) (bs : Bytes) (d : Nat), norm (skipElems2 f bs d) = norm (restOf (decElems2 .lax f bs d))) ∧
    (∀ kt (f n : Nat) (bs : Bytes) (d : Nat), norm (skipEntries1 kt f n bs d) = norm (restOf (decEntries1 .lax kt f n bs d))) ∧
    (∀ (f n : Nat) (bs : Bytes) (d : Nat), norm (skipElems1 f n bs d) = norm (restOf (decElems1 .lax f n bs d))) := by
  apply dec.mutual_induct .lax
    (motive_1 := fun f bs d => norm (skip f bs d) = norm (restOf (dec .lax f bs d)))
    (motive_2 := fun kt f bs d => norm (skipEntries2 kt f bs d) = norm (restOf (decEntries2 .lax kt f bs d)))
    (motive_3 := fun f bs d => norm (skipElems2 f bs d) = norm (restOf (decElems2 .lax f bs d)))
    (motive_4 := fun kt f n bs d => norm (skipEntries1 kt f n bs d) = norm (restOf (decEntries1 .lax kt f n bs d)))
    (motive_5 := fun f n bs d => norm (skipElems1 f n bs d) = norm (restOf (decElems1 .lax f n bs d)))
  all_goals (intros; simp_all [dec, decElems1, decElems2, decEntries1, decEntries2, skip, skipElems1,
    skipElems2, skipEntries1, skipEntries2, if_lt_of_le, skip_int_leaf, skip_fixed_leaf, skip_bool_leaf,
    skipKey_restOf, skipKeys1_eq, skipKeys2_eq, skipChunks_eq, norm_eq_ok, norm_eq_err])
  all_goals (rename_i ih; obtain ⟨e', h1, h2⟩ := ih; simp only [h1]; exact ⟨e', rfl, h2⟩)

end Aldrin
