/-
A request with a serial that a live connection sends and that the broker handles without closing the connection is
answered in the same turn.
-/
import Aldrin.Lemmas.Broker.StepParts

namespace Aldrin.Broker
open Aldrin.Client (SKind rspKey reqKey)

theorem send_ok_of_alive {s : St} {to : ConnId} (m : Rsp) (v : Option Nat) (h : aliveB s to = true) : (s.send to m v).2 = true := by
  rcases send_cases s to m v with ⟨h1, _⟩ | ⟨h1, _⟩
  · exact h1
  · have := send_fail_dead h1; rw [h] at this; simp at this

/-- a send succeeds exactly when the receiver is alive -/
@[simp] theorem send_snd_alive {s : St} {to : ConnId} {m : Rsp} {v : Option Nat} : (s.send to m v).2 = aliveB s to := by
  cases h : aliveB s to
  · cases h2 : (s.send to m v).2
    · rfl
    · have := send_ok_alive h2; rw [h] at this; simp at this
  · exact send_ok_of_alive m v h

/-- how many checked messages (serial replies, tagged messages) have been queued -/
def nrep (s : St) : Nat := (sf s.out).length

@[simp] theorem nrep_setConns (s : St) (x : List (ConnId × Conn)) : nrep (s.setConns x) = nrep s := rfl
@[simp] theorem nrep_setObjUuids (s : St) (x : List (Cookie × Uuid)) : nrep (s.setObjUuids x) = nrep s := rfl
@[simp] theorem nrep_setObjs (s : St) (x : List (Uuid × Obj)) : nrep (s.setObjs x) = nrep s := rfl
@[simp] theorem nrep_setSvcUuids (s : St) (x : List (Cookie × (ObjId × Uuid × SvcInfo))) : nrep (s.setSvcUuids x) = nrep s := rfl
@[simp] theorem nrep_setSvcs (s : St) (x : List ((Uuid × Uuid) × Svc)) : nrep (s.setSvcs x) = nrep s := rfl
@[simp] theorem nrep_setCalls (s : St) (x : SerialMap Call) : nrep (s.setCalls x) = nrep s := rfl
@[simp] theorem nrep_setChannels (s : St) (x : List (Cookie × Chan)) : nrep (s.setChannels x) = nrep s := rfl
@[simp] theorem nrep_setListeners (s : St) (x : List (Cookie × Listener)) : nrep (s.setListeners x) = nrep s := rfl
@[simp] theorem nrep_setIntrospection (s : St) (x : List (Uuid × IEntry)) : nrep (s.setIntrospection x) = nrep s := rfl
@[simp] theorem nrep_setIqueries (s : St) (x : SerialMap Uuid) : nrep (s.setIqueries x) = nrep s := rfl
@[simp] theorem nrep_setNextCookie (s : St) (x : Cookie) : nrep (s.setNextCookie x) = nrep s := rfl
@[simp] theorem nrep_setWShutdownNow (s : St) (x : Bool) : nrep (s.setWShutdownNow x) = nrep s := rfl
@[simp] theorem nrep_setWShutdownIdle (s : St) (x : Bool) : nrep (s.setWShutdownIdle x) = nrep s := rfl
@[simp] theorem nrep_setWRemoveConns (s : St) (x : List (ConnId × Bool)) : nrep (s.setWRemoveConns x) = nrep s := rfl
@[simp] theorem nrep_setWRemoveCalls (s : St) (x : List (Nat × ConnId × CallResult)) : nrep (s.setWRemoveCalls x) = nrep s := rfl
@[simp] theorem nrep_setWServicesDestroyed (s : St) (x : List (ConnId × Cookie)) : nrep (s.setWServicesDestroyed x) = nrep s := rfl
@[simp] theorem nrep_setWUnsubscribeEvent (s : St) (x : List (ConnId × Cookie × Nat)) : nrep (s.setWUnsubscribeEvent x) = nrep s := rfl
@[simp] theorem nrep_setWUnsubscribeAll (s : St) (x : List (ConnId × Cookie)) : nrep (s.setWUnsubscribeAll x) = nrep s := rfl
@[simp] theorem nrep_setWCreateObject (s : St) (x : List ObjId) : nrep (s.setWCreateObject x) = nrep s := rfl
@[simp] theorem nrep_setWDestroyObject (s : St) (x : List ObjId) : nrep (s.setWDestroyObject x) = nrep s := rfl
@[simp] theorem nrep_setWCreateService (s : St) (x : List SvcId) : nrep (s.setWCreateService x) = nrep s := rfl
@[simp] theorem nrep_setWDestroyService (s : St) (x : List SvcId) : nrep (s.setWDestroyService x) = nrep s := rfl
@[simp] theorem nrep_setWAbortCalls (s : St) (x : List (Nat × ConnId)) : nrep (s.setWAbortCalls x) = nrep s := rfl
@[simp] theorem nrep_stat (s : St) (f : Stats → Stats) : nrep (s.stat f) = nrep s := rfl
@[simp] theorem nrep_pushRemoveConn (s : St) (id : ConnId) (b : Bool) : nrep (s.pushRemoveConn id b) = nrep s := rfl
@[simp] theorem nrep_freshCookie (s : St) : nrep s.freshCookie.1 = nrep s := rfl
@[simp] theorem nrep_setConn (s : St) (id : ConnId) (c : Conn) : nrep (s.setConn id c) = nrep s := rfl
@[simp] theorem nrep_updConn (s : St) (id : ConnId) (f : Conn → Conn) : nrep (s.updConn id f) = nrep s := by
  unfold nrep; simp

@[simp] theorem nrep_send (s : St) (to : ConnId) (m : Rsp) (v : Option Nat) :
    nrep (s.send to m v).1 = nrep s + (if aliveB s to && ((strictKey m).isSome || (tagOf m).isSome) then 1 else 0) := by
  unfold nrep
  rw [send_out_eq, send_snd_alive]
  cases aliveB s to <;> cases h : ((strictKey m).isSome || (tagOf m).isSome) <;> simp [h]

@[simp] theorem nrep_sendOrRemove (s : St) (to : ConnId) (m : Rsp) (v : Option Nat) :
    nrep (s.sendOrRemove to m v) = nrep s + (if aliveB s to && ((strictKey m).isSome || (tagOf m).isSome) then 1 else 0) := by
  unfold nrep
  rw [sendOrRemove_out_eq, send_snd_alive]
  cases aliveB s to <;> cases h : ((strictKey m).isSome || (tagOf m).isSome) <;> simp [h]

@[simp] theorem nrep_removeBusListener (s : St) (c : Cookie) : nrep (removeBusListener s c) = nrep s := by
  unfold nrep; simp

theorem nrep_of_sameS {s s' : St} (h : SameS s s') : nrep s' = nrep s := by unfold nrep; rw [h]

theorem nrep_sendAll_le (l : List Rsp) (s : St) (id : ConnId) : nrep s ≤ nrep (sendAll s id l).1 := by
  obtain ⟨t, ht, _⟩ := sendAll_out l s id
  unfold nrep; rw [ht, sf_append]; simp

syntax "ans_tac" ident : tactic
macro_rules
  | `(tactic| ans_tac $f) => `(tactic|
      (intro h ha hok; unfold $f at h
       repeat' ((try simp only [] at h); split at h)
       all_goals (try (simp only [okH, errH, Except.ok.injEq, Prod.mk.injEq, reduceCtorEq] at h))
       all_goals (try (exact h.elim))
       all_goals (try (have hfst := congrArg Prod.fst h; have hsnd := congrArg Prod.snd h; (try dsimp only at hfst hsnd); subst hfst; clear h))
       all_goals (try (obtain ⟨h1, h2⟩ := h; subst h1; subst h2))
       all_goals (try (have hd := conn_none_dead ‹_ = none›; simp_all; done))
       all_goals (try (simp_all [aliveB_updConn', aliveB_conn]; done))
       all_goals (try (simp [aliveB_updConn', ha]; done))
       all_goals (try (simp [aliveB_updConn', ha]; omega))))

theorem sync_ans {s s' : St} {id serial} {ok : Bool} : sync s id serial = .ok (s', ok) → aliveB s id = true → ok = true → nrep s < nrep s' := by
  ans_tac sync

theorem createObject_ans {s s' : St} {id serial uuid} {ok : Bool} : createObject s id serial uuid = .ok (s', ok) → aliveB s id = true → ok = true → nrep s < nrep s' := by
  ans_tac createObject

theorem createServiceImpl_ans {s s' : St} {id serial oc uuid info} {ok : Bool} : createServiceImpl s id serial oc uuid info = .ok (s', ok) → aliveB s id = true → ok = true → nrep s < nrep s' := by
  ans_tac createServiceImpl

theorem queryServiceVersion_ans {s s' : St} {id serial svc} {ok : Bool} : queryServiceVersion s id serial svc = .ok (s', ok) → aliveB s id = true → ok = true → nrep s < nrep s' := by
  ans_tac queryServiceVersion

theorem queryServiceInfo_ans {s s' : St} {id serial svc} {ok : Bool} : queryServiceInfo s id serial svc = .ok (s', ok) → aliveB s id = true → ok = true → nrep s < nrep s' := by
  ans_tac queryServiceInfo

theorem subscribeService_ans {s s' : St} {id serial svc} {ok : Bool} : subscribeService s id serial svc = .ok (s', ok) → aliveB s id = true → ok = true → nrep s < nrep s' := by
  ans_tac subscribeService

theorem createChannel_ans {s s' : St} {id serial e cap} {ok : Bool} : createChannel s id serial e cap = .ok (s', ok) → aliveB s id = true → ok = true → nrep s < nrep s' := by
  ans_tac createChannel

theorem createBusListener_ans {s s' : St} {id serial} {ok : Bool} : createBusListener s id serial = .ok (s', ok) → aliveB s id = true → ok = true → nrep s < nrep s' := by
  ans_tac createBusListener

theorem destroyBusListener_ans {s s' : St} {id serial c} {ok : Bool} : destroyBusListener s id serial c = .ok (s', ok) → aliveB s id = true → ok = true → nrep s < nrep s' := by
  ans_tac destroyBusListener

theorem stopBusListener_ans {s s' : St} {id serial c} {ok : Bool} : stopBusListener s id serial c = .ok (s', ok) → aliveB s id = true → ok = true → nrep s < nrep s' := by
  ans_tac stopBusListener

theorem subscribeEvent_ans {s s' : St} {id svc ev} {serial : Nat} {ok : Bool} : subscribeEvent s id (some serial) svc ev = .ok (s', ok) → aliveB s id = true → ok = true → nrep s < nrep s' := by
  ans_tac subscribeEvent

theorem subscribeAllEvents_ans {s s' : St} {id svc} {serial : Nat} {ok : Bool} : subscribeAllEvents s id (some serial) svc = .ok (s', ok) → aliveB s id = true → ok = true → nrep s < nrep s' := by
  ans_tac subscribeAllEvents

theorem unsubscribeAllEvents_ans {s s' : St} {id svc} {serial : Nat} {ok : Bool} : unsubscribeAllEvents s id (some serial) svc = .ok (s', ok) → aliveB s id = true → ok = true → nrep s < nrep s' := by
  ans_tac unsubscribeAllEvents

theorem createService_ans {s s' : St} {id serial oc uuid v} {ok : Bool} : createService s id serial oc uuid v = .ok (s', ok) → aliveB s id = true → ok = true → nrep s < nrep s' := by
  intro h ha hok; unfold createService at h; exact createServiceImpl_ans h ha hok

theorem createService2_ans {s s' : St} {id serial oc uuid info} {ok : Bool} : createService2 s id serial oc uuid info = .ok (s', ok) → aliveB s id = true → ok = true → nrep s < nrep s' := by
  intro h ha hok; unfold createService2 at h
  repeat' ((try simp only [] at h); split at h)
  all_goals (try (simp only [okH, errH, Except.ok.injEq, Prod.mk.injEq, reduceCtorEq] at h))
  all_goals (try (obtain ⟨h1, h2⟩ := h; subst h1; subst h2))
  all_goals (try (have hd := conn_none_dead ‹_ = none›; simp_all; done))
  all_goals (try (simp at hok; done))
  all_goals (exact createServiceImpl_ans h ha hok)

theorem closeChannelEnd_ans {s s' : St} {id serial c e} {ok : Bool} : closeChannelEnd s id serial c e = .ok (s', ok) → aliveB s id = true → ok = true → nrep s < nrep s' := by
  intro h ha hok; unfold closeChannelEnd at h
  repeat' ((try simp only [] at h); split at h)
  all_goals (try (simp only [okH, errH, Except.ok.injEq, Prod.mk.injEq, reduceCtorEq] at h))
  all_goals (try (exact h.elim))
  all_goals (try (have hfst := congrArg Prod.fst h; (try dsimp only at hfst); subst hfst; clear h))
  all_goals (try (obtain ⟨h1, h2⟩ := h; subst h1; subst h2))
  all_goals (try (have hd := conn_none_dead ‹_ = none›; simp_all; done))
  all_goals (try (simp [ha]; done))
  all_goals (try (simp at hok; done))
  all_goals
    have := nrep_of_sameS (removeChannelEnd_s ‹_›)
    rw [this]; simp [ha]

theorem claimChannelEnd_ans {s s' : St} {id serial c e cap} {ok : Bool} : claimChannelEnd s id serial c e cap = .ok (s', ok) → aliveB s id = true → ok = true → nrep s < nrep s' := by
  intro h ha hok; unfold claimChannelEnd at h
  repeat' ((try simp only [] at h); split at h)
  all_goals (try (simp only [okH, errH, Except.ok.injEq, Prod.mk.injEq, reduceCtorEq] at h))
  all_goals (try (exact h.elim))
  all_goals (try (have hfst := congrArg Prod.fst h; (try dsimp only at hfst); subst hfst; clear h))
  all_goals (try (obtain ⟨h1, h2⟩ := h; subst h1; subst h2))
  all_goals (try (have hd := conn_none_dead ‹_ = none›; simp_all; done))
  all_goals (try (simp [aliveB_updConn', ha]; done))
  all_goals (try (simp [aliveB_updConn', ha]; omega))

theorem startBusListener_ans {s s' : St} {id serial c sc} {ok : Bool} : startBusListener s id serial c sc = .ok (s', ok) → aliveB s id = true → ok = true → nrep s < nrep s' := by
  intro h ha hok; unfold startBusListener at h
  repeat' ((try simp only [] at h); split at h)
  all_goals (try (simp only [okH, errH, Except.ok.injEq, Prod.mk.injEq, reduceCtorEq] at h))
  all_goals (try (exact h.elim))
  all_goals (try (have hfst := congrArg Prod.fst h; (try dsimp only at hfst); subst hfst; clear h))
  all_goals (try (obtain ⟨h1, h2⟩ := h; subst h1; subst h2))
  all_goals (try (have hd := conn_none_dead ‹_ = none›; simp_all; done))
  all_goals (try (simp [ha]; done))
  all_goals (try (simp at hok; done))
  all_goals
    refine Nat.lt_of_lt_of_le ?_ (nrep_sendAll_le _ _ _)
    simp [ha]

/-- a request that is answered under its serial, sent by a live connection and handled without closing it: answered -/
theorem handleMessage_ans {s s' : St} {id : ConnId} {m : Req} {ok : Bool} (hr : handleMessage s id m = .ok (s', ok))
    (ha : aliveB s id = true) (hok : ok = true) (hk : (reqKeyS m).isSome = true) : nrep s < nrep s' := by
  cases m <;> simp only [reqKeyS, reqKey, Option.isSome_none, Bool.false_eq_true] at hk <;> simp only [handleMessage] at hr
  case createObject => exact createObject_ans hr ha hok
  case createService => exact createService_ans hr ha hok
  case createService2 => exact createService2_ans hr ha hok
  case subscribeEvent serial _ _ => cases serial <;> simp [reqKey] at hk; exact subscribeEvent_ans hr ha hok
  case queryServiceVersion => exact queryServiceVersion_ans hr ha hok
  case queryServiceInfo => exact queryServiceInfo_ans hr ha hok
  case subscribeService => exact subscribeService_ans hr ha hok
  case subscribeAllEvents serial _ => cases serial <;> simp [reqKey] at hk; exact subscribeAllEvents_ans hr ha hok
  case unsubscribeAllEvents serial _ => cases serial <;> simp [reqKey] at hk; exact unsubscribeAllEvents_ans hr ha hok
  case createChannel => exact createChannel_ans hr ha hok
  case closeChannelEnd => exact closeChannelEnd_ans hr ha hok
  case claimChannelEnd => exact claimChannelEnd_ans hr ha hok
  case sync => exact sync_ans hr ha hok
  case createBusListener => exact createBusListener_ans hr ha hok
  case destroyBusListener => exact destroyBusListener_ans hr ha hok
  case startBusListener => exact startBusListener_ans hr ha hok
  case stopBusListener => exact stopBusListener_ans hr ha hok

/-- once a connection has been cleaned up it is not there any more -/
theorem shutdownConnection_dead {s s' : St} {id b} (hr : shutdownConnection s id b = .ok s') : aliveB s' id = false := by
  unfold shutdownConnection at hr
  split at hr
  · rename_i hnone
    simp only [Except.ok.injEq] at hr; subst hr; exact conn_none_dead hnone
  · rename_i conn hconn
    simp only [] at hr
    repeat' (split at hr)
    all_goals (try (simp at hr; done))
    rename_i s1 h1 _ s2 h2 _ s3 h3 _ s4 h4 _ s5 h5 _ s6 h6
    -- the state right after the connection has been taken out of the table
    generalize hX : St.setConns _ (AL.erase id _) = X at h1
    have hXd : aliveB X id = false := by
      subst hX
      simp [aliveB, AL.find?_erase]
    have i1 : AliveLe X s1 := by
      refine foldE_inv (AliveLe X) _ (fun s a s' hp hr => AliveLe.trans hp (removeObject_alive hr)) _ _ _ ?_ h1
      exact foldl_inv (AliveLe X) _ (fun s a hp => by simpa [AliveLe] using hp) _ _ (AliveLe.refl X)
    have i2 := foldE_inv (AliveLe X) _ (fun s a s' hp hr => AliveLe.trans hp (removeEventSubscription_alive hr)) _ _ _ i1 h2
    have i3 := foldE_inv (AliveLe X) _ (fun s a s' hp hr => AliveLe.trans hp (removeAllEventsSubscription_alive hr)) _ _ _ i2 h3
    have i4 := foldE_inv (AliveLe X) _ (fun s a s' hp hr => AliveLe.trans hp (removeSubscription_alive hr)) _ _ _ i3 h4
    have i5 := foldE_inv (AliveLe X) _ (fun s a s' hp hr => AliveLe.trans hp (removeChannelEnd_alive hr)) _ _ _ i4 h5
    have i6 := foldE_inv (AliveLe X) _ (fun s a s' hp hr => AliveLe.trans hp (removeChannelEnd_alive hr)) _ _ _ i5 h6
    have i7 : AliveLe X s' := by
      refine AliveLe.trans ?_ (removeIntrospectionConn_alive hr)
      refine AliveLe.trans (b := List.foldl (fun s (p : Nat × (Nat × ConnId)) => (s.setWAbortCalls ((p.2.1, p.2.2) :: s.w.abortCalls))) s6 conn.calls) ?_ (by simp [AliveLe])
      apply foldl_inv (AliveLe X) _ ?_ _ _ i6
      intro s a hp
      simpa [AliveLe] using hp
    cases hd : aliveB s' id with
    | false => rfl
    | true => have := i7 id hd; rw [hXd] at this; simp at this

/-- a turn for a request of a connection that is alive before and after: if the request is answered under its serial,
the answer is among the outputs -/
theorem step_msg_answers {b b' : Broker} {w w' : Work} {id : ConnId} {m : Req} {out : List Out}
    (hr : step b w (.msg id m) = .ok (b', w', out)) (ha : aliveB ⟨b, w, []⟩ id = true) (ha' : aliveB ⟨b', w', []⟩ id = true)
    (hk : (reqKeyS m).isSome = true) : sf out ≠ [] := by
  unfold step at hr
  split at hr
  · simp at hr
  · rename_i s0 h0
    split at hr
    · simp at hr
    · rename_i s2 h2
      simp only [Except.ok.injEq, Prod.mk.injEq] at hr
      obtain ⟨rfl, rfl, rfl⟩ := hr
      simp only [handleEvent] at h0
      split at h0
      · simp at h0
      · rename_i s1 ok hm
        simp only [Except.ok.injEq] at h0
        subst h0
        have hl := processLoop_s _ _ _ h2
        cases hok : ok with
        | true =>
          have h1 := handleMessage_ans hm ha hok hk
          intro hnil
          simp only [SameS, hok, ↓reduceIte, St.stat_out] at hl
          simp only [nrep, sf_nil, List.length_nil] at h1
          rw [hnil] at hl
          rw [← hl] at h1; simp at h1
        | false =>
          -- the connection is queued for removal and removed by the first round of the work loop
          exfalso
          subst hok
          simp only [Bool.false_eq_true, ↓reduceIte] at h2
          generalize hS : (s1.pushRemoveConn id false).stat (fun st => { st with messagesReceived := st.messagesReceived + 1 }) = S at h2
          have hpos : 0 < loopFuel S := by
            unfold loopFuel; exact Nat.lt_of_lt_of_le (by decide : 0 < 1000) (Nat.le_add_right _ _)
          obtain ⟨nf, hnf⟩ : ∃ nf, loopFuel S = nf + 1 := ⟨loopFuel S - 1, by omega⟩
          rw [hnf] at h2
          simp only [processLoop] at h2
          have hone : processOne S = some (shutdownConnection (S.setWRemoveConns s1.w.removeConns) id false) := by
            subst hS; simp [processOne, St.pushRemoveConn]
          rw [hone] at h2
          cases hsd : shutdownConnection (S.setWRemoveConns s1.w.removeConns) id false with
          | error p => simp [hsd] at h2
          | ok s3 =>
            simp only [hsd] at h2
            have hd := shutdownConnection_dead hsd
            have := processLoop_alive _ _ _ h2 id ha'
            rw [hd] at this; simp at this

end Aldrin.Broker
