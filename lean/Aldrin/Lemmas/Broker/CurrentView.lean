/-
The two views of the registry that `start_bus_listener` reads agree: the scan path goes through the cookie-keyed maps
(`obj_uuids`, `svc_uuids`), the "specific" path looks uuids up in the uuid-keyed maps (`objs`, `svcs`). With the
registry invariant of C03 and unique keys both name the same objects and services.
-/
import Aldrin.Lemmas.Broker.Reg
import Aldrin.Lemmas.Broker.Gauge5

namespace Aldrin.Broker

theorem AL.find?_of_mem {K V : Type} [DecidableEq K] {m : List (K × V)} (hn : AL.NodupKeys m) {k : K} {v : V}
    (h : (k, v) ∈ m) : AL.find? k m = some v := by
  induction m with
  | nil => cases h
  | cons p m ih =>
    obtain ⟨a, b⟩ := p
    simp only [AL.NodupKeys, List.map_cons, List.nodup_cons] at hn
    rcases List.mem_cons.1 h with he | hm
    · simp only [Prod.mk.injEq] at he
      obtain ⟨rfl, rfl⟩ := he
      simp [AL.find?_cons]
    · have hne : a ≠ k := by
        rintro rfl
        exact hn.1 (List.mem_map.2 ⟨(a, v), hm, rfl⟩)
      rw [AL.find?_cons]
      simp only [hne, ↓reduceIte]
      exact ih hn.2 hm

theorem AL.mem_iff_find? {K V : Type} [DecidableEq K] {m : List (K × V)} (hn : AL.NodupKeys m) {k : K} {v : V} :
    (k, v) ∈ m ↔ AL.find? k m = some v :=
  ⟨AL.find?_of_mem hn, AL.find?_some_mem⟩

/-- an object id as the cookie-keyed map has it ↔ as the uuid-keyed map has it -/
theorem object_views_agree {b : Broker} (hrc : RegistryConsistent b) (hn : AL.NodupKeys b.objUuids) (o : ObjId) :
    (o.cookie, o.uuid) ∈ b.objUuids ↔ ∃ ob, AL.find? o.uuid b.objs = some ob ∧ ob.cookie = o.cookie := by
  rw [AL.mem_iff_find? hn]
  constructor
  · intro h
    obtain ⟨ob, h1, h2⟩ := hrc.cookie_names_object _ _ h
    exact ⟨ob, h1, h2⟩
  · rintro ⟨ob, h1, h2⟩
    have := hrc.object_is_registered _ _ h1
    rw [h2] at this
    exact this

/-- a service id as the cookie-keyed map has it ↔ as the map keyed by (object uuid, service uuid) has it -/
theorem service_views_agree {b : Broker} (hrc : RegistryConsistent b) (hn : AL.NodupKeys b.svcUuids) (sid : SvcId) :
    (∃ info, (sid.cookie, (sid.obj, sid.uuid, info)) ∈ b.svcUuids) ↔
      ∃ sv, AL.find? (sid.obj.uuid, sid.uuid) b.svcs = some sv ∧ sv.cookie = sid.cookie ∧ sv.objCookie = sid.obj.cookie := by
  constructor
  · rintro ⟨info, hm⟩
    exact hrc.cookie_names_service _ _ _ _ (AL.find?_of_mem hn hm)
  · rintro ⟨sv, h1, h2, h3⟩
    obtain ⟨info, hf⟩ := hrc.service_is_registered _ _ _ h1
    refine ⟨info, ?_⟩
    have := AL.find?_some_mem hf
    rw [h2, h3] at this
    exact this

end Aldrin.Broker
