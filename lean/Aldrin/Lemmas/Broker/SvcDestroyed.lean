/-
`Service::subscribed_conn_ids`: the connections that are told when a service is destroyed. It lists every connection
that is subscribed to one of the service's events or to the service itself, each once; `remove_service` queues one
`ServiceDestroyed` notification for each of them that is still there — each once.
-/
import Aldrin.Lemmas.Broker.AL
import Aldrin.Lemmas.Broker.Prim

set_option linter.unusedSimpArgs false
set_option linter.unusedVariables false
namespace Aldrin.Broker

theorem foldl_sinsert_spec (l acc : List ConnId) (hacc : acc.Nodup) :
    (l.foldl (fun a c => sinsert c a) acc).Nodup ∧ ∀ x, x ∈ l.foldl (fun a c => sinsert c a) acc ↔ x ∈ acc ∨ x ∈ l := by
  induction l generalizing acc with
  | nil => simp [hacc]
  | cons a l ih =>
    simp only [List.foldl_cons]
    obtain ⟨h1, h2⟩ := ih (sinsert a acc) (nodup_sinsert _ _ hacc)
    refine ⟨h1, fun x => ?_⟩
    rw [h2, mem_sinsert]
    simp only [List.mem_cons]
    constructor
    · rintro ((rfl | h) | h)
      · exact Or.inr (Or.inl rfl)
      · exact Or.inl h
      · exact Or.inr (Or.inr h)
    · rintro (h | rfl | h)
      · exact Or.inl (Or.inr h)
      · exact Or.inl (Or.inl rfl)
      · exact Or.inr h

theorem foldl_events_spec (evs : List (Nat × List ConnId)) (acc : List ConnId) (hacc : acc.Nodup) :
    (evs.foldl (fun acc p => p.2.foldl (fun a c => sinsert c a) acc) acc).Nodup ∧
    ∀ x, x ∈ evs.foldl (fun acc p => p.2.foldl (fun a c => sinsert c a) acc) acc ↔ x ∈ acc ∨ ∃ p, p ∈ evs ∧ x ∈ p.2 := by
  induction evs generalizing acc with
  | nil => simp [hacc]
  | cons a l ih =>
    simp only [List.foldl_cons]
    obtain ⟨g1, g2⟩ := foldl_sinsert_spec a.2 acc hacc
    obtain ⟨h1, h2⟩ := ih _ g1
    refine ⟨h1, fun x => ?_⟩
    rw [h2, g2]
    simp only [List.mem_cons]
    constructor
    · rintro ((h | h) | ⟨p, hp, hx⟩)
      · exact Or.inl h
      · exact Or.inr ⟨a, Or.inl rfl, h⟩
      · exact Or.inr ⟨p, Or.inr hp, hx⟩
    · rintro (h | ⟨p, rfl | hp, hx⟩)
      · exact Or.inl (Or.inl h)
      · exact Or.inl (Or.inr hx)
      · exact Or.inr ⟨p, hp, hx⟩

/-- **who is told that a service is gone**: exactly the connections subscribed to one of its events or to the service
itself, each once (subscribers to all events only are not among them, as in the implementation) -/
theorem subscribedConnIds_spec (s : Svc) :
    s.subscribedConnIds.Nodup ∧ ∀ x, x ∈ s.subscribedConnIds ↔ (∃ p, p ∈ s.events ∧ x ∈ p.2) ∨ x ∈ s.subs := by
  unfold Svc.subscribedConnIds
  obtain ⟨h1, h2⟩ := foldl_events_spec s.events [] List.nodup_nil
  obtain ⟨g1, g2⟩ := foldl_sinsert_spec s.subs _ h1
  refine ⟨g1, fun x => ?_⟩
  simp only [Function.comp, g2, h2]
  simp

/-- the notifications `remove_service` queues for a list of connections: one per connection that is there, in turn -/
theorem queue_destroyed_spec (svcCookie : Cookie) : ∀ (l : List ConnId) (s : St),
    let s' := l.foldl (fun s cid =>
          match s.conn? cid with
          | some c =>
            let s := s.setConn cid (c.unsubscribeAllOf svcCookie)
            (s.setWServicesDestroyed ((cid, svcCookie) :: s.w.servicesDestroyed))
          | none => s) s
    s'.w.servicesDestroyed = ((l.filter (fun cid => (s.conn? cid).isSome)).map (fun cid => (cid, svcCookie))).reverse ++ s.w.servicesDestroyed ∧
    ∀ x, (s'.conn? x).isSome = (s.conn? x).isSome := by
  intro l
  induction l with
  | nil => intro s; simp
  | cons a l ih =>
    intro s
    simp only [List.foldl_cons]
    cases hc : s.conn? a with
    | none =>
      simp only []
      obtain ⟨h1, h2⟩ := ih s
      refine ⟨?_, h2⟩
      rw [h1]
      have hc' : AL.find? a s.b.conns = none := by simpa [St.conn?] using hc
      simp [List.filter_cons, St.conn?, hc']
    | some c =>
      simp only []
      obtain ⟨h1, h2⟩ := ih ((s.setConn a (c.unsubscribeAllOf svcCookie)).setWServicesDestroyed
        ((a, svcCookie) :: (s.setConn a (c.unsubscribeAllOf svcCookie)).w.servicesDestroyed))
      have hsame : ∀ x, (((s.setConn a (c.unsubscribeAllOf svcCookie)).setWServicesDestroyed
          ((a, svcCookie) :: (s.setConn a (c.unsubscribeAllOf svcCookie)).w.servicesDestroyed)).conn? x).isSome = (s.conn? x).isSome := by
        intro x
        simp only [St.conn?, St.setWServicesDestroyed_b_conns, St.setConn_b_conns, AL.find?_insert]
        split
        · rename_i heq; subst heq; simp [St.conn?] at hc; simp [hc]
        · rfl
      refine ⟨?_, fun x => (h2 x).trans (hsame x)⟩
      rw [h1]
      have : (l.filter fun cid => (((s.setConn a (c.unsubscribeAllOf svcCookie)).setWServicesDestroyed
          ((a, svcCookie) :: (s.setConn a (c.unsubscribeAllOf svcCookie)).w.servicesDestroyed)).conn? cid).isSome) =
          l.filter fun cid => (s.conn? cid).isSome := by
        apply List.filter_congr
        intro x _
        exact hsame x
      rw [this]
      have hc' : AL.find? a s.b.conns = some c := by simpa [St.conn?] using hc
      simp [List.filter_cons, St.conn?, hc']

end Aldrin.Broker
