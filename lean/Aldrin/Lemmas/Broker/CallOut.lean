/-
Which functions of the broker model put no `callFunctionReply` into any queue: everything but the call handlers
(`call_function_impl`, `call_function_reply`), `abort_call` and the deferred `remove_function_call` items of the work loop.
-/
import Aldrin.Lemmas.Broker.ChanOut

set_option linter.unusedSimpArgs false
set_option linter.unusedVariables false
namespace Aldrin.Broker

/-- a reply to a function call -/
def isR : Rsp → Bool
  | .callFunctionReply _ _ => true
  | _ => false


@[simp, grind =] theorem isR_createObjectReply {a0 a1} : isR (.createObjectReply a0 a1) = false := rfl
@[simp, grind =] theorem isR_destroyObjectReply {a0 a1} : isR (.destroyObjectReply a0 a1) = false := rfl
@[simp, grind =] theorem isR_createServiceReply {a0 a1} : isR (.createServiceReply a0 a1) = false := rfl
@[simp, grind =] theorem isR_destroyServiceReply {a0 a1} : isR (.destroyServiceReply a0 a1) = false := rfl
@[simp, grind =] theorem isR_callFunction {a0 a1 a2 a3} : isR (.callFunction a0 a1 a2 a3) = false := rfl
@[simp, grind =] theorem isR_callFunction2 {a0 a1 a2 a3 a4} : isR (.callFunction2 a0 a1 a2 a3 a4) = false := rfl
@[simp, grind =] theorem isR_callFunctionReply {a0 a1} : isR (.callFunctionReply a0 a1) = true := rfl
@[simp, grind =] theorem isR_abortFunctionCall {a0} : isR (.abortFunctionCall a0) = false := rfl
@[simp, grind =] theorem isR_subscribeEvent {a0 a1} : isR (.subscribeEvent a0 a1) = false := rfl
@[simp, grind =] theorem isR_subscribeEventReply {a0 a1} : isR (.subscribeEventReply a0 a1) = false := rfl
@[simp, grind =] theorem isR_unsubscribeEvent {a0 a1} : isR (.unsubscribeEvent a0 a1) = false := rfl
@[simp, grind =] theorem isR_emitEvent {a0 a1 a2} : isR (.emitEvent a0 a1 a2) = false := rfl
@[simp, grind =] theorem isR_queryServiceVersionReply {a0 a1} : isR (.queryServiceVersionReply a0 a1) = false := rfl
@[simp, grind =] theorem isR_queryServiceInfoReply {a0 a1} : isR (.queryServiceInfoReply a0 a1) = false := rfl
@[simp, grind =] theorem isR_subscribeServiceReply {a0 a1} : isR (.subscribeServiceReply a0 a1) = false := rfl
@[simp, grind =] theorem isR_subscribeAllEvents {a0} : isR (.subscribeAllEvents a0) = false := rfl
@[simp, grind =] theorem isR_subscribeAllEventsReply {a0 a1} : isR (.subscribeAllEventsReply a0 a1) = false := rfl
@[simp, grind =] theorem isR_unsubscribeAllEvents {a0} : isR (.unsubscribeAllEvents a0) = false := rfl
@[simp, grind =] theorem isR_unsubscribeAllEventsReply {a0 a1} : isR (.unsubscribeAllEventsReply a0 a1) = false := rfl
@[simp, grind =] theorem isR_serviceDestroyed {a0} : isR (.serviceDestroyed a0) = false := rfl
@[simp, grind =] theorem isR_createChannelReply {a0 a1} : isR (.createChannelReply a0 a1) = false := rfl
@[simp, grind =] theorem isR_closeChannelEndReply {a0 a1} : isR (.closeChannelEndReply a0 a1) = false := rfl
@[simp, grind =] theorem isR_channelEndClosed {a0 a1} : isR (.channelEndClosed a0 a1) = false := rfl
@[simp, grind =] theorem isR_claimChannelEndReply {a0 a1} : isR (.claimChannelEndReply a0 a1) = false := rfl
@[simp, grind =] theorem isR_channelEndClaimed {a0 a1 a2} : isR (.channelEndClaimed a0 a1 a2) = false := rfl
@[simp, grind =] theorem isR_itemReceived {a0 a1} : isR (.itemReceived a0 a1) = false := rfl
@[simp, grind =] theorem isR_addChannelCapacity {a0 a1} : isR (.addChannelCapacity a0 a1) = false := rfl
@[simp, grind =] theorem isR_syncReply {a0} : isR (.syncReply a0) = false := rfl
@[simp, grind =] theorem isR_createBusListenerReply {a0 a1} : isR (.createBusListenerReply a0 a1) = false := rfl
@[simp, grind =] theorem isR_destroyBusListenerReply {a0 a1} : isR (.destroyBusListenerReply a0 a1) = false := rfl
@[simp, grind =] theorem isR_startBusListenerReply {a0 a1} : isR (.startBusListenerReply a0 a1) = false := rfl
@[simp, grind =] theorem isR_stopBusListenerReply {a0 a1} : isR (.stopBusListenerReply a0 a1) = false := rfl
@[simp, grind =] theorem isR_emitBusEvent {a0 a1} : isR (.emitBusEvent a0 a1) = false := rfl
@[simp, grind =] theorem isR_busListenerCurrentFinished {a0} : isR (.busListenerCurrentFinished a0) = false := rfl
@[simp, grind =] theorem isR_queryIntrospection {a0 a1} : isR (.queryIntrospection a0 a1) = false := rfl
@[simp, grind =] theorem isR_queryIntrospectionReply {a0 a1} : isR (.queryIntrospectionReply a0 a1) = false := rfl
@[simp, grind =] theorem isR_shutdown : isR .shutdown = false := rfl

/-- the call replies among the outputs -/
def rf (l : List Out) : List Out := l.filter (fun o => isR o.msg)

@[simp, grind =] theorem rf_append (a b : List Out) : rf (a ++ b) = rf a ++ rf b := by simp [rf]
@[simp, grind =] theorem rf_nil : rf [] = [] := rfl
@[simp, grind =] theorem rf_single (o : Out) : rf [o] = if isR o.msg then [o] else [] := by
  cases h : isR o.msg <;> simp [rf, h]
theorem rf_cons (o : Out) (t : List Out) : rf (o :: t) = rf [o] ++ rf t := by
  rw [← rf_append]; rfl
@[simp] theorem rf_ite (c : Prop) [Decidable c] (a b : List Out) :
    rf (if c then a else b) = if c then rf a else rf b := by split <;> rfl

/-- no call reply was added -/
def SameR (s s' : St) : Prop := rf s'.out = rf s.out

theorem SameR.refl (s : St) : SameR s s := rfl
theorem SameR.trans {a b c : St} (h1 : SameR a b) (h2 : SameR b c) : SameR a c := Eq.trans h2 h1

syntax "samer_tac" ident : tactic
macro_rules
  | `(tactic| samer_tac $f) => `(tactic|
      (intro h; unfold $f at h
       repeat' ((try simp only [] at h); split at h)
       all_goals (try (grind [SameR, okH, errH]; done))
       all_goals (try (simp only [okH, errH, Except.ok.injEq, Prod.mk.injEq] at h))
       all_goals (try (obtain ⟨h1, h2⟩ := h; subst h1; subst h2))
       all_goals (try subst_vars)
       all_goals (try (simp_all [okH, errH, SameR]; done))
       all_goals (try grind [SameR])))

theorem removeService_calls_r : ∀ (l : List Nat) (s s' : St), removeService.calls s l = .ok s' → SameR s s' := by
  intro l
  induction l with
  | nil => intro s s' h; simp [removeService.calls] at h; subst h; exact SameR.refl _
  | cons a l ih =>
    intro s s' h
    simp only [removeService.calls] at h
    split at h
    · simp at h
    · have := ih _ _ h
      split at this <;> simp_all [SameR]

@[grind →] theorem removeService_r {s s' : St} {c : Cookie} : removeService s c = .ok s' → SameR s s' := by
  intro h
  unfold removeService at h
  split at h
  · simp_all [SameR]
  · (try simp only [] at h)
    split at h
    · simp at h
    · (try simp only [] at h)
      split at h
      · simp at h
      · rename_i s1 hc
        have h1 := removeService_calls_r _ _ _ hc
        simp only [Except.ok.injEq] at h
        subst h
        refine SameR.trans (SameR.trans ?_ h1) ?_
        · split <;> simp [SameR]
        · simp only [SameR, St.stat_out]
          exact foldl_inv (fun s => rf s.out = rf s1.out) _
            (by intro s a hp; split <;> simp_all) _ _ rfl

@[grind →] theorem removeEventSubscription_r {s s' : St} {cid c ev} : removeEventSubscription s cid c ev = .ok s' → SameR s s' := by
  samer_tac removeEventSubscription

theorem removeObject_svcs_r : ∀ (l : List Cookie) (s s' : St), removeObject.svcs s l = .ok s' → SameR s s' := by
  intro l
  induction l with
  | nil => intro s s' h; simp [removeObject.svcs] at h; subst h; exact SameR.refl _
  | cons a l ih =>
    intro s s' h
    simp only [removeObject.svcs] at h
    split at h
    · simp at h
    · exact SameR.trans (removeService_r ‹_›) (ih _ _ h)

@[grind →] theorem removeObject_r {s s' : St} {c : Cookie} : removeObject s c = .ok s' → SameR s s' := by
  intro h
  unfold removeObject at h
  repeat' ((try simp only [] at h); split at h)
  all_goals (try simp_all [SameR])
  rename_i hs
  have := removeObject_svcs_r _ _ _ hs
  subst_vars
  simp_all [SameR]

@[grind →] theorem removeAllEventsSubscription_r {s s' : St} {cid c} : removeAllEventsSubscription s cid c = .ok s' → SameR s s' := by
  samer_tac removeAllEventsSubscription

@[grind →] theorem removeSubscription_r {s s' : St} {cid c} : removeSubscription s cid c = .ok s' → SameR s s' := by
  samer_tac removeSubscription

@[grind →] theorem askIntrospection_r {s s' : St} {ty e} : askIntrospection s ty e = .ok s' → SameR s s' := by
  samer_tac askIntrospection

theorem replyPending_r : ∀ (l : List IQuery) (s s' : St) (r m), replyPending s l r m = .ok s' → SameR s s' := by
  intro l
  induction l with
  | nil => intro s s' r m h; simp [replyPending] at h; subst h; exact SameR.refl _
  | cons a l ih =>
    intro s s' r m h
    simp only [replyPending] at h
    repeat' (split at h)
    · simp at h
    · exact ih _ _ _ _ h
    · have := ih _ _ _ _ h
      simp only [SameR, sendOrRemove_out_eq, rf_ite, rf_append, rf_single, strictKey_queryIntrospectionReply] at this ⊢
      simpa using this

@[grind →] theorem replyPending_r' {l : List IQuery} {s s' : St} {r m} (h : replyPending s l r m = .ok s') : SameR s s' :=
  replyPending_r _ _ _ _ _ h

theorem removeIntrospectionConn_go_r : ∀ (l : List (Nat × Option Uuid × List IQuery)) (s s' : St),
    removeIntrospectionConn.go s l = .ok s' → SameR s s' := by
  intro l
  induction l with
  | nil => intro s s' h; simp [removeIntrospectionConn.go] at h; subst h; exact SameR.refl _
  | cons a l ih =>
    intro s s' h
    obtain ⟨serial, cont, pending⟩ := a
    simp only [removeIntrospectionConn.go] at h
    repeat' ((try simp only [] at h); split at h)
    all_goals (try (simp at h; done))
    · have h1 := replyPending_r _ _ _ _ _ ‹_›
      have h2 := ih _ _ h
      exact SameR.trans (SameR.trans (by simp [SameR]) h1) h2
    · have h2 := ih _ _ h
      exact SameR.trans (by simp [SameR]) h2
    · have h1 := askIntrospection_r ‹_›
      have h2 := ih _ _ h
      exact SameR.trans (SameR.trans (by simp [SameR]) h1) h2

@[grind →] theorem removeIntrospectionConn_r {s s' : St} {cid} : removeIntrospectionConn s cid = .ok s' → SameR s s' := by
  intro h
  unfold removeIntrospectionConn at h
  simp only [] at h
  have := removeIntrospectionConn_go_r _ _ _ h
  simp_all [SameR]

@[grind →] theorem createObject_r {s s' : St} {id serial uuid} {ok : Bool} : createObject s id serial uuid = .ok (s', ok) → SameR s s' := by
  samer_tac createObject

@[grind →] theorem destroyObject_r {s s' : St} {id serial c} {ok : Bool} : destroyObject s id serial c = .ok (s', ok) → SameR s s' := by
  samer_tac destroyObject

@[grind →] theorem createServiceImpl_r {s s' : St} {id serial oc uuid info} {ok : Bool} : createServiceImpl s id serial oc uuid info = .ok (s', ok) → SameR s s' := by
  samer_tac createServiceImpl

@[grind →] theorem createService_r {s s' : St} {id serial oc uuid v} {ok : Bool} : createService s id serial oc uuid v = .ok (s', ok) → SameR s s' := by
  samer_tac createService

@[grind →] theorem createService2_r {s s' : St} {id serial oc uuid info} {ok : Bool} : createService2 s id serial oc uuid info = .ok (s', ok) → SameR s s' := by
  samer_tac createService2

@[grind →] theorem destroyService_r {s s' : St} {id serial c} {ok : Bool} : destroyService s id serial c = .ok (s', ok) → SameR s s' := by
  samer_tac destroyService




@[grind →] theorem abortFunctionCall_r {s s' : St} {id serial} {ok : Bool} : abortFunctionCall s id serial = .ok (s', ok) → SameR s s' := by
  samer_tac abortFunctionCall

@[grind →] theorem subscribeEvent_r {s s' : St} {id serial svc ev} {ok : Bool} : subscribeEvent s id serial svc ev = .ok (s', ok) → SameR s s' := by
  samer_tac subscribeEvent

@[grind →] theorem unsubscribeEvent_r {s s' : St} {id svc ev} {ok : Bool} : unsubscribeEvent s id svc ev = .ok (s', ok) → SameR s s' := by
  samer_tac unsubscribeEvent

@[grind →] theorem queryServiceVersion_r {s s' : St} {id serial svc} {ok : Bool} : queryServiceVersion s id serial svc = .ok (s', ok) → SameR s s' := by
  samer_tac queryServiceVersion

@[grind →] theorem queryServiceInfo_r {s s' : St} {id serial svc} {ok : Bool} : queryServiceInfo s id serial svc = .ok (s', ok) → SameR s s' := by
  samer_tac queryServiceInfo

@[grind →] theorem subscribeService_r {s s' : St} {id serial svc} {ok : Bool} : subscribeService s id serial svc = .ok (s', ok) → SameR s s' := by
  samer_tac subscribeService

@[grind →] theorem unsubscribeService_r {s s' : St} {id svc} {ok : Bool} : unsubscribeService s id svc = .ok (s', ok) → SameR s s' := by
  samer_tac unsubscribeService

@[grind →] theorem subscribeAllEvents_r {s s' : St} {id serial svc} {ok : Bool} : subscribeAllEvents s id serial svc = .ok (s', ok) → SameR s s' := by
  samer_tac subscribeAllEvents

@[grind →] theorem unsubscribeAllEvents_r {s s' : St} {id serial svc} {ok : Bool} : unsubscribeAllEvents s id serial svc = .ok (s', ok) → SameR s s' := by
  samer_tac unsubscribeAllEvents

@[grind →] theorem sync_r {s s' : St} {id serial} {ok : Bool} : sync s id serial = .ok (s', ok) → SameR s s' := by
  samer_tac sync

@[grind →] theorem createBusListener_r {s s' : St} {id serial} {ok : Bool} : createBusListener s id serial = .ok (s', ok) → SameR s s' := by
  samer_tac createBusListener

@[grind →] theorem destroyBusListener_r {s s' : St} {id serial c} {ok : Bool} : destroyBusListener s id serial c = .ok (s', ok) → SameR s s' := by
  samer_tac destroyBusListener

@[grind →] theorem updListener_r {s s' : St} {id c f} {ok : Bool} : updListener s id c f = .ok (s', ok) → SameR s s' := by
  samer_tac updListener

@[grind →] theorem stopBusListener_r {s s' : St} {id serial c} {ok : Bool} : stopBusListener s id serial c = .ok (s', ok) → SameR s s' := by
  samer_tac stopBusListener

@[grind →] theorem queryIntrospection_r {s s' : St} {id serial ty} {ok : Bool} : queryIntrospection s id serial ty = .ok (s', ok) → SameR s s' := by
  samer_tac queryIntrospection

@[grind →] theorem queryIntrospectionReply_r {s s' : St} {id serial r} {ok : Bool} : queryIntrospectionReply s id serial r = .ok (s', ok) → SameR s s' := by
  samer_tac queryIntrospectionReply

@[grind →] theorem emitEvent_r {s s' : St} {id svc ev p} {ok : Bool} : emitEvent s id svc ev p = .ok (s', ok) → SameR s s' := by
  intro h; unfold emitEvent at h
  repeat' ((try simp only [] at h); split at h)
  all_goals (try (grind [SameR, okH, errH]; done))
  simp only [okH, Except.ok.injEq, Prod.mk.injEq] at h
  obtain ⟨h1, _⟩ := h
  subst h1
  apply foldl_inv (fun s' => SameR s s')
  · intro s1 a hp; split <;> simp_all [SameR]
  · exact SameR.refl _

@[grind →] theorem registerIntrospection_r {s s' : St} {id tys} {ok : Bool} : registerIntrospection s id tys = .ok (s', ok) → SameR s s' := by
  intro h; unfold registerIntrospection at h
  repeat' ((try simp only [] at h); split at h)
  all_goals (try (grind [SameR, okH, errH]; done))
  simp only [okH, Except.ok.injEq, Prod.mk.injEq] at h
  obtain ⟨h1, _⟩ := h
  subst h1
  apply foldl_inv (fun s' => SameR s s')
  · intro s1 a hp; simp_all [SameR]
  · exact SameR.refl _

theorem sendAll_r : ∀ (l : List Rsp) (s : St) (id : ConnId), (∀ m ∈ l, isR m = false) → SameR s (sendAll s id l).1 := by
  intro l
  induction l with
  | nil => intro s id _; exact SameR.refl _
  | cons a l ih =>
    intro s id hl
    simp only [sendAll]
    have ha : isR a = false := hl a (by simp)
    split
    · have := ih (s.send id a).1 id (fun m hm => hl m (by simp [hm]))
      simp_all [SameR]
    · simp [SameR, ha]

@[grind →] theorem startBusListener_r {s s' : St} {id serial c sc} {ok : Bool} : startBusListener s id serial c sc = .ok (s', ok) → SameR s s' := by
  intro h; unfold startBusListener at h
  repeat' ((try simp only [] at h); split at h)
  all_goals (try (grind [SameR, okH, errH]; done))
  all_goals (try (simp only [okH, errH, Except.ok.injEq, Prod.mk.injEq] at h))
  all_goals (try (obtain ⟨h1, h2⟩ := h; subst h1; subst h2))
  all_goals (try (simp_all [SameR]; done))
  all_goals
    have h' := congrArg Prod.fst h
    replace h' : _ = s' := h'
    subst h'
    clear h
    refine SameR.trans ?_ (sendAll_r _ _ _ ?_)
    · simp [SameR]
    · intro m hm
      simp only [List.mem_append, List.mem_singleton] at hm
      rcases hm with (hm | hm) | rfl
      · obtain ⟨e, rfl⟩ := currentObjMsgs_ns _ _ _ _ m hm; rfl
      · obtain ⟨e, rfl⟩ := currentSvcMsgs_ns _ _ _ _ m hm; rfl
      · rfl

theorem emitBusEvent_r (s : St) (e : BusEv) : SameR s (emitBusEvent s e) := by
  unfold emitBusEvent
  simp only []
  apply foldl_inv (fun s' => SameR s s')
  · intro s1 a hp; split <;> simp_all [SameR]
  · exact SameR.refl _


@[grind →] theorem removeChannelEnd_r {s s' : St} {c e o} : removeChannelEnd s c e o = .ok s' → SameR s s' := by
  samer_tac removeChannelEnd

@[grind →] theorem createChannel_r {s s' : St} {id serial e cap} {ok : Bool} : createChannel s id serial e cap = .ok (s', ok) → SameR s s' := by
  samer_tac createChannel

@[grind →] theorem closeChannelEnd_r {s s' : St} {id serial c e} {ok : Bool} : closeChannelEnd s id serial c e = .ok (s', ok) → SameR s s' := by
  samer_tac closeChannelEnd

@[grind →] theorem claimChannelEnd_r {s s' : St} {id serial c e cap} {ok : Bool} : claimChannelEnd s id serial c e cap = .ok (s', ok) → SameR s s' := by
  samer_tac claimChannelEnd

@[grind →] theorem addChannelCapacity_r {s s' : St} {id c cap} {ok : Bool} : addChannelCapacity s id c cap = .ok (s', ok) → SameR s s' := by
  samer_tac addChannelCapacity

@[grind →] theorem sendItem_r {s s' : St} {id c p} {ok : Bool} : sendItem s id c p = .ok (s', ok) → SameR s s' := by
  samer_tac sendItem

@[simp] theorem removeBusListener_rf (s : St) (c : Cookie) : rf (removeBusListener s c).out = rf s.out := by
  unfold removeBusListener; split <;> simp

theorem shutdownConnection_r {s s' : St} {id b} (hr : shutdownConnection s id b = .ok s') : SameR s s' := by
  unfold shutdownConnection at hr
  split at hr
  · simp at hr; exact hr ▸ SameR.refl _
  · rename_i conn hconn
    simp only [] at hr
    repeat' (split at hr)
    all_goals (try (simp at hr; done))
    rename_i s1 h1 _ s2 h2 _ s3 h3 _ s4 h4 _ s5 h5 _ s6 h6
    have i1 : SameR s s1 := by
      refine foldE_inv (SameR s) _ (fun s a s' hp hr => SameR.trans hp (removeObject_r hr)) _ _ _ ?_ h1
      apply foldl_inv (SameR s) _ (fun s a hp => by simpa [SameR] using hp)
      split <;> (try split) <;> simp [SameR]
    have i2 := foldE_inv (SameR s) _ (fun s a s' hp hr => SameR.trans hp (removeEventSubscription_r hr)) _ _ _ i1 h2
    have i3 := foldE_inv (SameR s) _ (fun s a s' hp hr => SameR.trans hp (removeAllEventsSubscription_r hr)) _ _ _ i2 h3
    have i4 := foldE_inv (SameR s) _ (fun s a s' hp hr => SameR.trans hp (removeSubscription_r hr)) _ _ _ i3 h4
    have i5 := foldE_inv (SameR s) _ (fun s a s' hp hr => SameR.trans hp (removeChannelEnd_r hr)) _ _ _ i4 h5
    have i6 := foldE_inv (SameR s) _ (fun s a s' hp hr => SameR.trans hp (removeChannelEnd_r hr)) _ _ _ i5 h6
    refine SameR.trans ?_ (removeIntrospectionConn_r hr)
    refine SameR.trans (b := List.foldl (fun s (p : Nat × (Nat × ConnId)) => (s.setWAbortCalls ((p.2.1, p.2.2) :: s.w.abortCalls))) s6 conn.calls) ?_ (by simp [SameR])
    apply foldl_inv (SameR s) _ ?_ _ _ i6
    intro s a hp
    simpa [SameR] using hp

/-- every handler but the three that deal with calls -/
theorem handleMessage_r {s s' : St} {id : ConnId} {m : Req} {ok : Bool}
    (hr : handleMessage s id m = .ok (s', ok))
    (h1 : ∀ a b c d, m ≠ .callFunction a b c d) (h2 : ∀ a b c d e, m ≠ .callFunction2 a b c d e) (h3 : ∀ a b, m ≠ .callFunctionReply a b) :
    SameR s s' := by
  cases m <;> simp only [handleMessage] at hr
  case createObject => exact createObject_r hr
  case destroyObject => exact destroyObject_r hr
  case createService => exact createService_r hr
  case createService2 => exact createService2_r hr
  case destroyService => exact destroyService_r hr
  case callFunction => exact absurd rfl (h1 _ _ _ _)
  case callFunction2 => exact absurd rfl (h2 _ _ _ _ _)
  case callFunctionReply => exact absurd rfl (h3 _ _)
  case abortFunctionCall => exact abortFunctionCall_r hr
  case subscribeEvent serial _ _ => exact subscribeEvent_r hr
  case unsubscribeEvent => exact unsubscribeEvent_r hr
  case emitEvent => exact emitEvent_r hr
  case queryServiceVersion => exact queryServiceVersion_r hr
  case queryServiceInfo => exact queryServiceInfo_r hr
  case subscribeService => exact subscribeService_r hr
  case unsubscribeService => exact unsubscribeService_r hr
  case subscribeAllEvents serial _ => exact subscribeAllEvents_r hr
  case unsubscribeAllEvents serial _ => exact unsubscribeAllEvents_r hr
  case createChannel => exact createChannel_r hr
  case closeChannelEnd => exact closeChannelEnd_r hr
  case claimChannelEnd => exact claimChannelEnd_r hr
  case sendItem => exact sendItem_r hr
  case addChannelCapacity => exact addChannelCapacity_r hr
  case sync => exact sync_r hr
  case createBusListener => exact createBusListener_r hr
  case destroyBusListener => exact destroyBusListener_r hr
  case addFilter f => exact updListener_r hr
  case removeFilter f => exact updListener_r hr
  case clearFilters => exact updListener_r hr
  case startBusListener => exact startBusListener_r hr
  case stopBusListener => exact stopBusListener_r hr
  case registerIntrospection => exact registerIntrospection_r hr
  case queryIntrospection => exact queryIntrospection_r hr
  case queryIntrospectionReply => exact queryIntrospectionReply_r hr
  case other => simp [errH] at hr; exact hr.1 ▸ SameR.refl _

end Aldrin.Broker
