/-
Replies to one connection with one serial are only ever appended to what the broker has put into the queues
(`RepExt`), through `abort_call` and every step of the work loop.
-/
import Aldrin.Lemmas.Broker.Xref2

set_option linter.unusedSimpArgs false
set_option linter.unusedVariables false
namespace Aldrin.Broker
open Generated

/-- the replies to `c` with serial `n` among the outputs, in order -/
def repl (c n : Nat) (l : List Out) : List Out := l.filter (isRep c n)

@[simp] theorem repl_append (c n) (a b : List Out) : repl c n (a ++ b) = repl c n a ++ repl c n b := by simp [repl]
theorem reps_eq_length (c n) (l : List Out) : reps c n l = (repl c n l).length := rfl

theorem repl_rf (c n) (l : List Out) : repl c n (rf l) = repl c n l := by
  unfold repl rf
  rw [List.filter_filter]
  apply List.filter_congr
  intro o _
  cases h : isRep c n o
  · simp
  · simp [isRep_isR h]

/-- replies to `c` with serial `n` are only ever added at the end -/
def RepExt (c n : Nat) (s s' : St) : Prop := ∃ l, repl c n s'.out = repl c n s.out ++ l

theorem RepExt.refl (c n : Nat) (s : St) : RepExt c n s s := ⟨[], by simp⟩
theorem RepExt.trans {c n : Nat} {a b d : St} (h1 : RepExt c n a b) (h2 : RepExt c n b d) : RepExt c n a d := by
  obtain ⟨l1, e1⟩ := h1; obtain ⟨l2, e2⟩ := h2
  exact ⟨l1 ++ l2, by rw [e2, e1, List.append_assoc]⟩
theorem RepExt.of_sameR {c n : Nat} {s s' : St} (h : SameR s s') : RepExt c n s s' :=
  ⟨[], by rw [← repl_rf, h, repl_rf]; simp⟩
theorem RepExt.of_out {c n : Nat} {s s' : St} (h : s'.out = s.out) : RepExt c n s s' := ⟨[], by rw [h]; simp⟩
theorem RepExt.sendOrRemove {c n : Nat} (s : St) (to : ConnId) (m : Rsp) (v : Option Nat) : RepExt c n s (s.sendOrRemove to m v) := by
  unfold RepExt
  simp only [sendOrRemove_out_eq]
  split
  · exact ⟨repl c n [⟨to, m, v⟩], by simp⟩
  · exact ⟨[], by simp⟩

theorem RepExt.sendOrRemove' {c n : Nat} {s0 s : St} (to : ConnId) (m : Rsp) (v : Option Nat) (h : s.out = s0.out) :
    RepExt c n s0 (s.sendOrRemove to m v) :=
  RepExt.trans (RepExt.of_out h) (RepExt.sendOrRemove _ _ _ _)

theorem abortCall_repext {c n : Nat} {s s' : St} {serial cid} : abortCall s serial cid = .ok s' → RepExt c n s s' := by
  intro h; rw [abortCall_eq] at h
  split at h
  · simp at h; exact h ▸ RepExt.refl _ _ _
  · split at h
    · simp at h; exact h ▸ RepExt.refl _ _ _
    · (try simp only [] at h)
      have e1 : ∀ s1 : St, RepExt c n s1 (notifyCallee s1 cid serial) := by
        intro s1; unfold notifyCallee; split
        · split
          · exact RepExt.sendOrRemove _ _ _ _
          · exact RepExt.refl _ _ _
        · exact RepExt.refl _ _ _
      generalize hs1 : s.setCalls _ = s1 at h
      have a1 : RepExt c n s s1 := hs1 ▸ RepExt.of_out rfl
      split at h
      · simp only [Except.ok.injEq] at h; subst h
        exact RepExt.trans a1 (e1 s1)
      · split at h
        · simp at h
        · simp only [Except.ok.injEq] at h; subst h
          exact RepExt.trans (RepExt.trans a1 (e1 s1)) (RepExt.sendOrRemove' _ _ _ rfl)

theorem processOne_repext {c n : Nat} {s s' : St} (hr : processOne s = some (.ok s')) : RepExt c n s s' := by
  unfold processOne at hr
  repeat' (split at hr)
  all_goals (try (simp only [Option.some.injEq, reduceCtorEq] at hr))
  all_goals first
    | (have h1 := RepExt.of_sameR (c := c) (n := n) (shutdownConnection_r hr); exact RepExt.trans (RepExt.of_out rfl) h1)
    | (have h1 := abortCall_repext (c := c) (n := n) hr; exact RepExt.trans (RepExt.of_out rfl) h1)
    | (simp only [Except.ok.injEq] at hr; subst hr; exact RepExt.trans (b := s.setWCreateObject _) (RepExt.of_out rfl) (RepExt.of_sameR (emitBusEvent_r _ _)))
    | (simp only [Except.ok.injEq] at hr; subst hr; exact RepExt.trans (b := s.setWCreateService _) (RepExt.of_out rfl) (RepExt.of_sameR (emitBusEvent_r _ _)))
    | (simp only [Except.ok.injEq] at hr; subst hr; exact RepExt.trans (b := s.setWDestroyService _) (RepExt.of_out rfl) (RepExt.of_sameR (emitBusEvent_r _ _)))
    | (simp only [Except.ok.injEq] at hr; subst hr; exact RepExt.trans (b := s.setWDestroyObject _) (RepExt.of_out rfl) (RepExt.of_sameR (emitBusEvent_r _ _)))
    | (simp only [Except.ok.injEq] at hr; subst hr; split; exact RepExt.trans (b := s.setWUnsubscribeEvent _) (RepExt.of_out rfl) (RepExt.sendOrRemove _ _ _ _); exact RepExt.of_out rfl)
    | (simp only [Except.ok.injEq] at hr; subst hr; split; exact RepExt.trans (b := s.setWUnsubscribeAll _) (RepExt.of_out rfl) (RepExt.sendOrRemove _ _ _ _); exact RepExt.of_out rfl)
    | (simp only [Except.ok.injEq] at hr; subst hr; split; exact RepExt.trans (b := s.setWServicesDestroyed _) (RepExt.of_out rfl) (RepExt.sendOrRemove _ _ _ _); exact RepExt.of_out rfl)
    | skip
  -- the deferred `InvalidService` replies
  split at hr
  · simp only [Except.ok.injEq] at hr; subst hr; exact RepExt.of_out rfl
  · split at hr
    · simp at hr
    · simp only [Except.ok.injEq] at hr; subst hr
      exact RepExt.sendOrRemove' _ _ _ rfl

theorem processLoop_repext {c n : Nat} : ∀ (fuel : Nat) (s s' : St), processLoop fuel s = .ok s' → RepExt c n s s' := by
  intro fuel
  induction fuel with
  | zero => intro s s' hr; simp [processLoop] at hr
  | succ k ih =>
    intro s s' hr
    simp only [processLoop] at hr
    split at hr
    · simp at hr; exact hr ▸ RepExt.refl _ _ _
    · simp at hr
    · exact RepExt.trans (processOne_repext ‹_›) (ih _ _ hr)

end Aldrin.Broker
