/-
A connection that has been removed never comes back within the life of its id: no handler, clean-up or work-loop step
of the broker model inserts a connection (only `newConn` adds one).
-/
import Aldrin.Lemmas.Broker.Alive

namespace Aldrin.Broker

/-- constantly true: the family below is the `AliveLe` family of `Alive.lean` with "is alive" replaced by "is there"
(generated from that file by substitution) -/
def Conn.ex (_ : Conn) : Bool := true
@[simp, grind =] theorem Conn.ex_eq (c : Conn) : c.ex = true := rfl

/-- the connection exists and its task still takes messages: `send` to it succeeds -/
def exB (s : St) (c : ConnId) : Bool :=
  match AL.find? c s.b.conns with
  | some conn => conn.ex
  | none => false

/-- no connection comes (back) to life -/
def ExLe (s s' : St) : Prop := ∀ c, exB s' c = true → exB s c = true

theorem ExLe.refl (s : St) : ExLe s s := fun _ h => h
theorem ExLe.trans {a b c : St} (h1 : ExLe a b) (h2 : ExLe b c) : ExLe a c := fun x h => h1 x (h2 x h)

theorem exB_of_conns {s s' : St} (h : s'.b.conns = s.b.conns) (c : ConnId) : exB s' c = exB s c := by
  simp [exB, h]

theorem ExLe.of_conns {s s' : St} (h : s'.b.conns = s.b.conns) : ExLe s s' := by
  intro c; rw [exB_of_conns h]; exact fun x => x

@[simp, grind =] theorem exB_setObjUuids (s : St) (x : List (Cookie × Uuid)) (c : ConnId) : exB (s.setObjUuids x) c = exB s c := rfl
@[simp, grind =] theorem exB_setObjs (s : St) (x : List (Uuid × Obj)) (c : ConnId) : exB (s.setObjs x) c = exB s c := rfl
@[simp, grind =] theorem exB_setSvcUuids (s : St) (x : List (Cookie × (ObjId × Uuid × SvcInfo))) (c : ConnId) : exB (s.setSvcUuids x) c = exB s c := rfl
@[simp, grind =] theorem exB_setSvcs (s : St) (x : List ((Uuid × Uuid) × Svc)) (c : ConnId) : exB (s.setSvcs x) c = exB s c := rfl
@[simp, grind =] theorem exB_setCalls (s : St) (x : SerialMap Call) (c : ConnId) : exB (s.setCalls x) c = exB s c := rfl
@[simp, grind =] theorem exB_setChannels (s : St) (x : List (Cookie × Chan)) (c : ConnId) : exB (s.setChannels x) c = exB s c := rfl
@[simp, grind =] theorem exB_setListeners (s : St) (x : List (Cookie × Listener)) (c : ConnId) : exB (s.setListeners x) c = exB s c := rfl
@[simp, grind =] theorem exB_setIntrospection (s : St) (x : List (Uuid × IEntry)) (c : ConnId) : exB (s.setIntrospection x) c = exB s c := rfl
@[simp, grind =] theorem exB_setIqueries (s : St) (x : SerialMap Uuid) (c : ConnId) : exB (s.setIqueries x) c = exB s c := rfl
@[simp, grind =] theorem exB_setNextCookie (s : St) (x : Cookie) (c : ConnId) : exB (s.setNextCookie x) c = exB s c := rfl
@[simp, grind =] theorem exB_setWShutdownNow (s : St) (x : Bool) (c : ConnId) : exB (s.setWShutdownNow x) c = exB s c := rfl
@[simp, grind =] theorem exB_setWShutdownIdle (s : St) (x : Bool) (c : ConnId) : exB (s.setWShutdownIdle x) c = exB s c := rfl
@[simp, grind =] theorem exB_setWRemoveConns (s : St) (x : List (ConnId × Bool)) (c : ConnId) : exB (s.setWRemoveConns x) c = exB s c := rfl
@[simp, grind =] theorem exB_setWRemoveCalls (s : St) (x : List (Nat × ConnId × CallResult)) (c : ConnId) : exB (s.setWRemoveCalls x) c = exB s c := rfl
@[simp, grind =] theorem exB_setWServicesDestroyed (s : St) (x : List (ConnId × Cookie)) (c : ConnId) : exB (s.setWServicesDestroyed x) c = exB s c := rfl
@[simp, grind =] theorem exB_setWUnsubscribeEvent (s : St) (x : List (ConnId × Cookie × Nat)) (c : ConnId) : exB (s.setWUnsubscribeEvent x) c = exB s c := rfl
@[simp, grind =] theorem exB_setWUnsubscribeAll (s : St) (x : List (ConnId × Cookie)) (c : ConnId) : exB (s.setWUnsubscribeAll x) c = exB s c := rfl
@[simp, grind =] theorem exB_setWCreateObject (s : St) (x : List ObjId) (c : ConnId) : exB (s.setWCreateObject x) c = exB s c := rfl
@[simp, grind =] theorem exB_setWDestroyObject (s : St) (x : List ObjId) (c : ConnId) : exB (s.setWDestroyObject x) c = exB s c := rfl
@[simp, grind =] theorem exB_setWCreateService (s : St) (x : List SvcId) (c : ConnId) : exB (s.setWCreateService x) c = exB s c := rfl
@[simp, grind =] theorem exB_setWDestroyService (s : St) (x : List SvcId) (c : ConnId) : exB (s.setWDestroyService x) c = exB s c := rfl
@[simp, grind =] theorem exB_setWAbortCalls (s : St) (x : List (Nat × ConnId)) (c : ConnId) : exB (s.setWAbortCalls x) c = exB s c := rfl
@[simp, grind =] theorem exB_setOut (s : St) (x : List Out) (c : ConnId) : exB (s.setOut x) c = exB s c := rfl
@[simp, grind =] theorem exB_stat (s : St) (f : Stats → Stats) (c : ConnId) : exB (s.stat f) c = exB s c := rfl
@[simp, grind =] theorem exB_pushRemoveConn (s : St) (id : ConnId) (b : Bool) (c : ConnId) : exB (s.pushRemoveConn id b) c = exB s c := rfl
@[simp, grind =] theorem exB_freshCookie (s : St) (c : ConnId) : exB s.freshCookie.1 c = exB s c := rfl

@[simp, grind =] theorem exB_setConn (s : St) (id : ConnId) (new : Conn) (c : ConnId) :
    exB (s.setConn id new) c = if id = c then true else exB s c := by
  simp only [exB, St.setConn_b_conns, AL.find?_insert]
  by_cases h : id = c <;> simp [h]

theorem exB_conn {s : St} {id : ConnId} {conn : Conn} (h : s.conn? id = some conn) : exB s id = true := by
  simp only [St.conn?] at h; simp [exB, h]

@[simp] theorem exB_ite (s : St) (id c : ConnId) : (if id = c then exB s id else exB s c) = exB s c := by
  split
  · rename_i h; subst h; rfl
  · rfl

@[simp] theorem exB_getD (s : St) (id : ConnId) : ((s.conn? id).map (fun x => x.ex)).getD false = exB s id := by
  unfold exB St.conn?
  cases AL.find? id s.b.conns <;> rfl

@[simp] theorem exB_getD' (s : St) (id : ConnId) : ((AL.find? id s.b.conns).map (fun x => x.ex)).getD false = exB s id :=
  exB_getD s id

@[simp] theorem exB_getD_true (s : St) (id : ConnId) : ((s.conn? id).map (fun _ => true)).getD false = exB s id := by
  unfold exB St.conn?
  cases AL.find? id s.b.conns <;> rfl

@[simp] theorem exB_getD_true' (s : St) (id : ConnId) : ((AL.find? id s.b.conns).map (fun _ => true)).getD false = exB s id :=
  exB_getD_true s id

theorem exB_updConn' (s : St) (id : ConnId) (f : Conn → Conn) (c : ConnId) :
    exB (s.updConn id f) c = if id = c then ((s.conn? id).map (fun x => (f x).ex)).getD false else exB s c := by
  unfold St.updConn
  cases h : s.conn? id with
  | none =>
    simp only [Option.map_none, Option.getD_none]
    split
    · rename_i heq; subst heq
      simp only [St.conn?] at h; simp [exB, h]
    · rfl
  | some old => simp [exB_setConn]

theorem exB_updConn (s : St) (id : ConnId) (f : Conn → Conn) (c : ConnId) (hf : ∀ x, (f x).ex = x.ex) :
    exB (s.updConn id f) c = exB s c := by
  rw [exB_updConn']; simp only [hf, exB_getD, exB_ite]

@[simp] theorem Conn.subscribeEvent_ex (c : Conn) (svc : Cookie) (ev : Nat) : (c.subscribeEvent svc ev).ex = c.ex := rfl
@[simp] theorem Conn.unsubscribeEvent_ex (c : Conn) (svc : Cookie) (ev : Nat) : (c.unsubscribeEvent svc ev).ex = c.ex := by
  unfold Conn.unsubscribeEvent; split
  · dsimp only; split <;> rfl
  · rfl
@[simp] theorem Conn.unsubscribeAllOf_ex (c : Conn) (svc : Cookie) : (c.unsubscribeAllOf svc).ex = c.ex := rfl

@[simp, grind =] theorem exB_send (s : St) (to : ConnId) (m : Rsp) (v : Option Nat) (c : ConnId) : exB (s.send to m v).1 c = exB s c :=
  exB_of_conns (by simp) c
@[simp, grind =] theorem exB_sendOrRemove (s : St) (to : ConnId) (m : Rsp) (v : Option Nat) (c : ConnId) : exB (s.sendOrRemove to m v) c = exB s c :=
  exB_of_conns (by simp) c

/-- a successful send: the receiver is alive -/
theorem send_ok_ex {s : St} {to : ConnId} {m : Rsp} {v : Option Nat} (h : (s.send to m v).2 = true) : exB s to = true := by
  unfold St.send at h
  simp only [] at h
  split at h
  · rename_i c hc
    split at h
    · rename_i ha
      have : AL.find? to s.b.conns = some c := by simpa [St.conn?] using hc
      simp [exB, this, ha]
    · simp at h
  · simp at h

syntax "ex_tac" ident : tactic
macro_rules
  | `(tactic| ex_tac $f) => `(tactic|
      (intro h; unfold $f at h
       repeat' ((try simp only [] at h); split at h)
       all_goals (try (simp only [okH, errH, Except.ok.injEq, Prod.mk.injEq, reduceCtorEq] at h))
       all_goals (try (have hfst := congrArg Prod.fst h; (try dsimp only at hfst); rw [← hfst]; clear hfst h))
       all_goals (try (exact h.elim))
       all_goals (try (obtain ⟨h1, h2⟩ := h; subst h1; subst h2))
       all_goals (try subst_vars)
       all_goals (try (simp only [ExLe]; intro c; simp [exB_updConn']; done))
       all_goals (try (grind [ExLe, exB_conn, exB_updConn']))))

@[simp, grind =] theorem exB_removeBusListener (s : St) (ck : Cookie) (c : ConnId) : exB (removeBusListener s ck) c = exB s c := by
  unfold removeBusListener; split <;> simp [exB_updConn']

theorem removeService_calls_ex : ∀ (l : List Nat) (s s' : St), removeService.calls s l = .ok s' → ExLe s s' := by
  intro l
  induction l with
  | nil => intro s s' h; simp [removeService.calls] at h; subst h; exact ExLe.refl _
  | cons a l ih =>
    intro s s' h
    simp only [removeService.calls] at h
    split at h
    · simp at h
    · refine ExLe.trans ?_ (ih _ _ h)
      split <;> exact ExLe.of_conns (by simp)

theorem ExLe.step_setConn {s : St} {cid : ConnId} {old new : Conn} (h : s.conn? cid = some old) (ha : new.ex = old.ex) :
    ExLe s (s.setConn cid new) := by
  intro c hc
  rw [exB_setConn] at hc
  split at hc
  · rename_i heq; subst heq; exact exB_conn h
  · exact hc

@[grind →] theorem removeService_ex {s s' : St} {c : Cookie} : removeService s c = .ok s' → ExLe s s' := by
  intro h
  unfold removeService at h
  split at h
  · simp only [Except.ok.injEq] at h; subst h; exact ExLe.refl _
  · (try simp only [] at h)
    split at h
    · simp at h
    · (try simp only [] at h)
      split at h
      · simp at h
      · rename_i s1 hc
        have h1 := removeService_calls_ex _ _ _ hc
        simp only [Except.ok.injEq] at h
        subst h
        refine ExLe.trans (ExLe.trans ?_ h1) ?_
        · split <;> exact ExLe.of_conns (by simp)
        · refine ExLe.trans ?_ (ExLe.of_conns (St.stat_b_conns _ _))
          apply foldl_inv (ExLe s1) _ _ _ _ (ExLe.refl _)
          intro s2 a hp
          refine ExLe.trans hp ?_
          split
          · rename_i c0 hc0
            exact ExLe.trans (ExLe.step_setConn (new := c0.unsubscribeAllOf _) hc0 rfl) (ExLe.of_conns rfl)
          · exact ExLe.refl _

@[grind →] theorem removeEventSubscription_ex {s s' : St} {cid c ev} : removeEventSubscription s cid c ev = .ok s' → ExLe s s' := by
  ex_tac removeEventSubscription

@[grind →] theorem removeChannelEnd_ex {s s' : St} {c e o} : removeChannelEnd s c e o = .ok s' → ExLe s s' := by
  ex_tac removeChannelEnd

theorem removeObject_svcs_ex : ∀ (l : List Cookie) (s s' : St), removeObject.svcs s l = .ok s' → ExLe s s' := by
  intro l
  induction l with
  | nil => intro s s' h; simp [removeObject.svcs] at h; subst h; exact ExLe.refl _
  | cons a l ih =>
    intro s s' h
    simp only [removeObject.svcs] at h
    split at h
    · simp at h
    · exact ExLe.trans (removeService_ex ‹_›) (ih _ _ h)

@[grind →] theorem removeObject_ex {s s' : St} {c : Cookie} : removeObject s c = .ok s' → ExLe s s' := by
  intro h
  unfold removeObject at h
  repeat' ((try simp only [] at h); split at h)
  all_goals (try (simp only [Except.ok.injEq, reduceCtorEq] at h))
  all_goals (try (exact h.elim))
  all_goals (try subst h)
  · exact ExLe.refl _
  · rename_i hs
    refine ExLe.trans (ExLe.trans ?_ (removeObject_svcs_ex _ _ _ hs)) (ExLe.of_conns rfl)
    intro c; simp [exB_updConn']

@[grind →] theorem removeAllEventsSubscription_ex {s s' : St} {cid c} : removeAllEventsSubscription s cid c = .ok s' → ExLe s s' := by
  ex_tac removeAllEventsSubscription

@[grind →] theorem removeSubscription_ex {s s' : St} {cid c} : removeSubscription s cid c = .ok s' → ExLe s s' := by
  ex_tac removeSubscription

@[grind →] theorem askIntrospection_ex {s s' : St} {ty e} : askIntrospection s ty e = .ok s' → ExLe s s' := by
  ex_tac askIntrospection

theorem replyPending_ex : ∀ (l : List IQuery) (s s' : St) (r m), replyPending s l r m = .ok s' → ExLe s s' := by
  intro l
  induction l with
  | nil => intro s s' r m h; simp [replyPending] at h; subst h; exact ExLe.refl _
  | cons a l ih =>
    intro s s' r m h
    simp only [replyPending] at h
    repeat' (split at h)
    · simp at h
    · exact ih _ _ _ _ h
    · exact ExLe.trans (ExLe.of_conns (by simp)) (ih _ _ _ _ h)

@[grind →] theorem replyPending_ex' {l : List IQuery} {s s' : St} {r m} (h : replyPending s l r m = .ok s') : ExLe s s' :=
  replyPending_ex _ _ _ _ _ h

theorem removeIntrospectionConn_go_ex : ∀ (l : List (Nat × Option Uuid × List IQuery)) (s s' : St),
    removeIntrospectionConn.go s l = .ok s' → ExLe s s' := by
  intro l
  induction l with
  | nil => intro s s' h; simp [removeIntrospectionConn.go] at h; subst h; exact ExLe.refl _
  | cons a l ih =>
    intro s s' h
    obtain ⟨serial, cont, pending⟩ := a
    simp only [removeIntrospectionConn.go] at h
    repeat' ((try simp only [] at h); split at h)
    all_goals (try (simp at h; done))
    · have h1 := replyPending_ex _ _ _ _ _ ‹_›
      have h2 := ih _ _ h
      exact ExLe.trans (ExLe.trans (by simp [ExLe]) h1) h2
    · have h2 := ih _ _ h
      exact ExLe.trans (by simp [ExLe]) h2
    · have h1 := askIntrospection_ex ‹_›
      have h2 := ih _ _ h
      exact ExLe.trans (ExLe.trans (by simp [ExLe]) h1) h2

@[grind →] theorem removeIntrospectionConn_ex {s s' : St} {cid} : removeIntrospectionConn s cid = .ok s' → ExLe s s' := by
  intro h
  unfold removeIntrospectionConn at h
  simp only [] at h
  have := removeIntrospectionConn_go_ex _ _ _ h
  simp_all [ExLe]

--HANDLERS
@[grind →] theorem createObject_ex {s s' : St} {id serial uuid} {ok : Bool} : createObject s id serial uuid = .ok (s', ok) → ExLe s s' := by
  ex_tac createObject

@[grind →] theorem destroyObject_ex {s s' : St} {id serial c} {ok : Bool} : destroyObject s id serial c = .ok (s', ok) → ExLe s s' := by
  ex_tac destroyObject

@[grind →] theorem createServiceImpl_ex {s s' : St} {id serial oc uuid info} {ok : Bool} : createServiceImpl s id serial oc uuid info = .ok (s', ok) → ExLe s s' := by
  ex_tac createServiceImpl

@[grind →] theorem createService_ex {s s' : St} {id serial oc uuid v} {ok : Bool} : createService s id serial oc uuid v = .ok (s', ok) → ExLe s s' := by
  ex_tac createService

@[grind →] theorem createService2_ex {s s' : St} {id serial oc uuid info} {ok : Bool} : createService2 s id serial oc uuid info = .ok (s', ok) → ExLe s s' := by
  ex_tac createService2

@[grind →] theorem destroyService_ex {s s' : St} {id serial c} {ok : Bool} : destroyService s id serial c = .ok (s', ok) → ExLe s s' := by
  ex_tac destroyService

@[grind →] theorem callFunctionImpl_ex {s s' : St} {id serial svc f v p} {ok : Bool} : callFunctionImpl s id serial svc f v p = .ok (s', ok) → ExLe s s' := by
  ex_tac callFunctionImpl

@[grind →] theorem callFunction2_ex {s s' : St} {id serial svc f v p} {ok : Bool} : callFunction2 s id serial svc f v p = .ok (s', ok) → ExLe s s' := by
  ex_tac callFunction2

@[grind →] theorem callFunctionReply_ex {s s' : St} {id serial r} {ok : Bool} : callFunctionReply s id serial r = .ok (s', ok) → ExLe s s' := by
  ex_tac callFunctionReply

@[grind →] theorem abortFunctionCall_ex {s s' : St} {id serial} {ok : Bool} : abortFunctionCall s id serial = .ok (s', ok) → ExLe s s' := by
  ex_tac abortFunctionCall

@[grind →] theorem subscribeEvent_ex {s s' : St} {id serial svc ev} {ok : Bool} : subscribeEvent s id serial svc ev = .ok (s', ok) → ExLe s s' := by
  ex_tac subscribeEvent

@[grind →] theorem unsubscribeEvent_ex {s s' : St} {id svc ev} {ok : Bool} : unsubscribeEvent s id svc ev = .ok (s', ok) → ExLe s s' := by
  ex_tac unsubscribeEvent

@[grind →] theorem emitEvent_ex {s s' : St} {id svc ev p} {ok : Bool} : emitEvent s id svc ev p = .ok (s', ok) → ExLe s s' := by
  intro h; unfold emitEvent at h
  repeat' ((try simp only [] at h); split at h)
  all_goals (try (simp only [okH, errH, Except.ok.injEq, Prod.mk.injEq, reduceCtorEq] at h))
  all_goals (try (obtain ⟨h1, h2⟩ := h; subst h1; subst h2))
  all_goals (try (exact ExLe.refl _))
  apply foldl_inv (fun s' => ExLe s s')
  · intro s1 a hp; split
    · exact ExLe.trans hp (ExLe.of_conns (by simp))
    · exact hp
  · exact ExLe.refl _

@[grind →] theorem queryServiceVersion_ex {s s' : St} {id serial svc} {ok : Bool} : queryServiceVersion s id serial svc = .ok (s', ok) → ExLe s s' := by
  ex_tac queryServiceVersion

@[grind →] theorem queryServiceInfo_ex {s s' : St} {id serial svc} {ok : Bool} : queryServiceInfo s id serial svc = .ok (s', ok) → ExLe s s' := by
  ex_tac queryServiceInfo

@[grind →] theorem subscribeService_ex {s s' : St} {id serial svc} {ok : Bool} : subscribeService s id serial svc = .ok (s', ok) → ExLe s s' := by
  ex_tac subscribeService

@[grind →] theorem unsubscribeService_ex {s s' : St} {id svc} {ok : Bool} : unsubscribeService s id svc = .ok (s', ok) → ExLe s s' := by
  ex_tac unsubscribeService

@[grind →] theorem subscribeAllEvents_ex {s s' : St} {id serial svc} {ok : Bool} : subscribeAllEvents s id serial svc = .ok (s', ok) → ExLe s s' := by
  ex_tac subscribeAllEvents

@[grind →] theorem unsubscribeAllEvents_ex {s s' : St} {id serial svc} {ok : Bool} : unsubscribeAllEvents s id serial svc = .ok (s', ok) → ExLe s s' := by
  ex_tac unsubscribeAllEvents

@[grind →] theorem createChannel_ex {s s' : St} {id serial e cap} {ok : Bool} : createChannel s id serial e cap = .ok (s', ok) → ExLe s s' := by
  ex_tac createChannel

@[grind →] theorem closeChannelEnd_ex {s s' : St} {id serial c e} {ok : Bool} : closeChannelEnd s id serial c e = .ok (s', ok) → ExLe s s' := by
  ex_tac closeChannelEnd

@[grind →] theorem claimChannelEnd_ex {s s' : St} {id serial c e cap} {ok : Bool} : claimChannelEnd s id serial c e cap = .ok (s', ok) → ExLe s s' := by
  ex_tac claimChannelEnd

@[grind →] theorem addChannelCapacity_ex {s s' : St} {id c cap} {ok : Bool} : addChannelCapacity s id c cap = .ok (s', ok) → ExLe s s' := by
  ex_tac addChannelCapacity

@[grind →] theorem sendItem_ex {s s' : St} {id c p} {ok : Bool} : sendItem s id c p = .ok (s', ok) → ExLe s s' := by
  ex_tac sendItem

@[grind →] theorem sync_ex {s s' : St} {id serial} {ok : Bool} : sync s id serial = .ok (s', ok) → ExLe s s' := by
  ex_tac sync

@[grind →] theorem createBusListener_ex {s s' : St} {id serial} {ok : Bool} : createBusListener s id serial = .ok (s', ok) → ExLe s s' := by
  ex_tac createBusListener

@[grind →] theorem destroyBusListener_ex {s s' : St} {id serial c} {ok : Bool} : destroyBusListener s id serial c = .ok (s', ok) → ExLe s s' := by
  ex_tac destroyBusListener

@[grind →] theorem updListener_ex {s s' : St} {id c f} {ok : Bool} : updListener s id c f = .ok (s', ok) → ExLe s s' := by
  ex_tac updListener

@[grind →] theorem startBusListener_ex {s s' : St} {id serial c sc} {ok : Bool} : startBusListener s id serial c sc = .ok (s', ok) → ExLe s s' := by
  intro h; unfold startBusListener at h
  repeat' ((try simp only [] at h); split at h)
  all_goals (try (simp only [okH, errH, Except.ok.injEq, Prod.mk.injEq, reduceCtorEq] at h))
  all_goals (try (exact h.elim))
  all_goals (try (have hfst := congrArg Prod.fst h; (try dsimp only at hfst); rw [← hfst]; clear hfst h))
  all_goals (try (obtain ⟨h1, h2⟩ := h; subst h1; subst h2))
  all_goals (exact ExLe.of_conns (by simp [sendAll_conns]))

@[grind →] theorem stopBusListener_ex {s s' : St} {id serial c} {ok : Bool} : stopBusListener s id serial c = .ok (s', ok) → ExLe s s' := by
  ex_tac stopBusListener

@[grind →] theorem registerIntrospection_ex {s s' : St} {id tys} {ok : Bool} : registerIntrospection s id tys = .ok (s', ok) → ExLe s s' := by
  intro h; unfold registerIntrospection at h
  repeat' ((try simp only [] at h); split at h)
  all_goals (try (simp only [okH, errH, Except.ok.injEq, Prod.mk.injEq, reduceCtorEq] at h))
  all_goals (try (obtain ⟨h1, h2⟩ := h; subst h1; subst h2))
  all_goals (try (exact ExLe.refl _))
  apply foldl_inv (fun s' => ExLe s s')
  · intro s1 a hp; exact ExLe.trans hp (ExLe.of_conns (by simp))
  · exact ExLe.refl _

@[grind →] theorem queryIntrospection_ex {s s' : St} {id serial ty} {ok : Bool} : queryIntrospection s id serial ty = .ok (s', ok) → ExLe s s' := by
  ex_tac queryIntrospection

@[grind →] theorem queryIntrospectionReply_ex {s s' : St} {id serial r} {ok : Bool} : queryIntrospectionReply s id serial r = .ok (s', ok) → ExLe s s' := by
  ex_tac queryIntrospectionReply

theorem ExLe.erase {s s0 : St} (id : ConnId) (h : s0.b.conns = s.b.conns) : ExLe s (s0.setConns (AL.erase id s0.b.conns)) := by
  intro c hc
  simp only [exB, St.setConns_b_conns, AL.find?_erase, h] at hc ⊢
  split at hc
  · rename_i heq; split at heq
    · simp at heq
    · rw [heq]; exact hc
  · simp at hc

theorem shutdownConnection_ex {s s' : St} {id b} (hr : shutdownConnection s id b = .ok s') : ExLe s s' := by
  unfold shutdownConnection at hr
  split at hr
  · simp at hr; exact hr ▸ ExLe.refl _
  · rename_i conn hconn
    simp only [] at hr
    repeat' (split at hr)
    all_goals (try (simp at hr; done))
    rename_i s1 h1 _ s2 h2 _ s3 h3 _ s4 h4 _ s5 h5 _ s6 h6
    have i1 : ExLe s s1 := by
      refine foldE_inv (ExLe s) _ (fun s a s' hp hr => ExLe.trans hp (removeObject_ex hr)) _ _ _ ?_ h1
      apply foldl_inv (ExLe s) _ (fun s a hp => by simpa [ExLe] using hp)
      apply ExLe.erase
      split <;> (try split) <;> simp
    have i2 := foldE_inv (ExLe s) _ (fun s a s' hp hr => ExLe.trans hp (removeEventSubscription_ex hr)) _ _ _ i1 h2
    have i3 := foldE_inv (ExLe s) _ (fun s a s' hp hr => ExLe.trans hp (removeAllEventsSubscription_ex hr)) _ _ _ i2 h3
    have i4 := foldE_inv (ExLe s) _ (fun s a s' hp hr => ExLe.trans hp (removeSubscription_ex hr)) _ _ _ i3 h4
    have i5 := foldE_inv (ExLe s) _ (fun s a s' hp hr => ExLe.trans hp (removeChannelEnd_ex hr)) _ _ _ i4 h5
    have i6 := foldE_inv (ExLe s) _ (fun s a s' hp hr => ExLe.trans hp (removeChannelEnd_ex hr)) _ _ _ i5 h6
    refine ExLe.trans ?_ (removeIntrospectionConn_ex hr)
    refine ExLe.trans (b := List.foldl (fun s (p : Nat × (Nat × ConnId)) => (s.setWAbortCalls ((p.2.1, p.2.2) :: s.w.abortCalls))) s6 conn.calls) ?_ (by simp [ExLe])
    apply foldl_inv (ExLe s) _ ?_ _ _ i6
    intro s a hp
    simpa [ExLe] using hp

theorem emitBusEvent_ex (s : St) (e : BusEv) : ExLe s (emitBusEvent s e) := by
  unfold emitBusEvent
  simp only []
  apply foldl_inv (fun s' => ExLe s s')
  · intro s1 a hp; split <;> simp_all [ExLe]
  · exact ExLe.refl _

theorem ExLe.conn_some {s : St} {cid : ConnId} {conn : Conn} (h : s.conn? cid = some conn) (c : ConnId) :
    (cid = c ∨ exB s c = true) → exB s c = true := by
  intro hc
  rcases hc with he | hc
  · subst he; exact exB_conn h
  · exact hc

@[grind →] theorem abortCall_ex {s s' : St} {serial cid} : abortCall s serial cid = .ok s' → ExLe s s' := by
  intro h; unfold abortCall at h
  split at h
  · simp at h; exact h ▸ ExLe.refl _
  · split at h
    · simp at h; exact h ▸ ExLe.refl _
    · simp only [] at h
      have e1 : ∀ s1 : St, ExLe s1 (match s1.conn? cid with
          | some c => if c.version ≥ Generated.abortMinCallee then s1.sendOrRemove cid (.abortFunctionCall serial) else s1
          | none => s1) := by
        intro s1; split
        · split
          · exact ExLe.of_conns (by simp)
          · exact ExLe.refl _
        · exact ExLe.refl _
      generalize hs1 : s.setCalls _ = s1 at h
      have a1 : ExLe s s1 := hs1 ▸ ExLe.of_conns rfl
      split at h
      · simp only [Except.ok.injEq] at h; subst h
        exact ExLe.trans a1 (e1 s1)
      · split at h
        · simp at h
        · rename_i caller hcaller _
          simp only [Except.ok.injEq] at h; subst h
          refine ExLe.trans (ExLe.trans a1 (e1 s1)) ?_
          exact ExLe.trans (ExLe.step_setConn (new := { caller with calls := AL.erase _ caller.calls }) hcaller rfl) (ExLe.of_conns (St.sendOrRemove_b_conns _ _ _ _))

theorem processOne_ex {s s' : St} (hr : processOne s = some (.ok s')) : ExLe s s' := by
  unfold processOne at hr
  repeat' (split at hr)
  all_goals (try (simp only [Option.some.injEq, reduceCtorEq] at hr))
  all_goals first
    | (refine ExLe.trans (b := s.setWRemoveConns _) ?_ (shutdownConnection_ex hr); simp [ExLe]; done)
    | (refine ExLe.trans (b := s.setWAbortCalls _) ?_ (abortCall_ex hr); simp [ExLe]; done)
    | (simp only [Except.ok.injEq] at hr; subst hr; simp [ExLe]; done)
    | (simp only [Except.ok.injEq] at hr; subst hr; refine ExLe.trans (b := s.setWCreateObject _) ?_ (emitBusEvent_ex _ _); simp [ExLe]; done)
    | (simp only [Except.ok.injEq] at hr; subst hr; refine ExLe.trans (b := s.setWCreateService _) ?_ (emitBusEvent_ex _ _); simp [ExLe]; done)
    | (simp only [Except.ok.injEq] at hr; subst hr; refine ExLe.trans (b := s.setWDestroyService _) ?_ (emitBusEvent_ex _ _); simp [ExLe]; done)
    | (simp only [Except.ok.injEq] at hr; subst hr; refine ExLe.trans (b := s.setWDestroyObject _) ?_ (emitBusEvent_ex _ _); simp [ExLe]; done)
    | (simp only [Except.ok.injEq] at hr; subst hr; split <;> simp [ExLe]; done)
    | (split at hr <;> (try split at hr) <;> (try simp only [Except.ok.injEq, reduceCtorEq] at hr) <;>
        first | (exact hr.elim) | (subst hr; simp [ExLe]; done) | (subst hr; simp only [ExLe]; intro c hc; (try simp at hc); exact ExLe.conn_some ‹_› c hc))

theorem processLoop_ex : ∀ (fuel : Nat) (s s' : St), processLoop fuel s = .ok s' → ExLe s s' := by
  intro fuel
  induction fuel with
  | zero => intro s s' hr; simp [processLoop] at hr
  | succ n ih =>
    intro s s' hr
    simp only [processLoop] at hr
    split at hr
    · simp at hr; exact hr ▸ ExLe.refl _
    · simp at hr
    · exact ExLe.trans (processOne_ex ‹_›) (ih _ _ hr)

theorem handleMessage_ex {s s' : St} {id : ConnId} {m : Req} {ok : Bool}
    (hr : handleMessage s id m = .ok (s', ok)) : ExLe s s' := by
  cases m <;> simp only [handleMessage] at hr
  case createObject => exact createObject_ex hr
  case destroyObject => exact destroyObject_ex hr
  case createService => exact createService_ex hr
  case createService2 => exact createService2_ex hr
  case destroyService => exact destroyService_ex hr
  case callFunction => exact callFunctionImpl_ex hr
  case callFunction2 => exact callFunction2_ex hr
  case callFunctionReply => exact callFunctionReply_ex hr
  case abortFunctionCall => exact abortFunctionCall_ex hr
  case subscribeEvent serial _ _ => exact subscribeEvent_ex hr
  case unsubscribeEvent => exact unsubscribeEvent_ex hr
  case emitEvent => exact emitEvent_ex hr
  case queryServiceVersion => exact queryServiceVersion_ex hr
  case queryServiceInfo => exact queryServiceInfo_ex hr
  case subscribeService => exact subscribeService_ex hr
  case unsubscribeService => exact unsubscribeService_ex hr
  case subscribeAllEvents serial _ => exact subscribeAllEvents_ex hr
  case unsubscribeAllEvents serial _ => exact unsubscribeAllEvents_ex hr
  case createChannel => exact createChannel_ex hr
  case closeChannelEnd => exact closeChannelEnd_ex hr
  case claimChannelEnd => exact claimChannelEnd_ex hr
  case sendItem => exact sendItem_ex hr
  case addChannelCapacity => exact addChannelCapacity_ex hr
  case sync => exact sync_ex hr
  case createBusListener => exact createBusListener_ex hr
  case destroyBusListener => exact destroyBusListener_ex hr
  case addFilter f => exact updListener_ex hr
  case removeFilter f => exact updListener_ex hr
  case clearFilters => exact updListener_ex hr
  case startBusListener => exact startBusListener_ex hr
  case stopBusListener => exact stopBusListener_ex hr
  case registerIntrospection => exact registerIntrospection_ex hr
  case queryIntrospection => exact queryIntrospection_ex hr
  case queryIntrospectionReply => exact queryIntrospectionReply_ex hr
  case other => simp [errH] at hr; exact hr.1 ▸ ExLe.refl _


theorem handleEvent_ex {s s' : St} {e : Event} (he : ∀ id v, e ≠ .newConn id v) (hr : handleEvent s e = .ok s') : ExLe s s' := by
  cases e <;> simp only [handleEvent] at hr
  case msg id m =>
    split at hr
    · simp at hr
    · rename_i s1 ok hm
      have := handleMessage_ex hm
      simp only [Except.ok.injEq] at hr
      subst hr
      refine ExLe.trans this ?_
      split <;> exact ExLe.of_conns rfl
  case newConn id v => exact absurd rfl (he id v)
  case taskDropped id =>
    simp only [Except.ok.injEq] at hr; subst hr
    intro c hc
    rw [exB_updConn'] at hc
    split at hc
    · rename_i heq; subst heq
      cases hf : AL.find? id s.b.conns <;> simp [St.conn?, hf] at hc
      simp [exB, hf]
    · exact hc
  all_goals (simp only [Except.ok.injEq] at hr; subst hr; exact ExLe.of_conns (by simp))

/-- One turn of `Broker::run` other than the arrival of a new connection: no connection comes back to life. -/
theorem step_ex {b b' : Broker} {w w' : Work} {e : Event} {out : List Out} (he : ∀ id v, e ≠ .newConn id v)
    (hr : step b w e = .ok (b', w', out)) (c : ConnId) : exB ⟨b', w', []⟩ c = true → exB ⟨b, w, []⟩ c = true := by
  unfold step at hr
  split at hr
  · simp at hr
  · rename_i s1 h1
    split at hr
    · simp at hr
    · rename_i s2 h2
      simp only [Except.ok.injEq, Prod.mk.injEq] at hr
      obtain ⟨rfl, rfl, _⟩ := hr
      exact ExLe.trans (handleEvent_ex he h1) (processLoop_ex _ _ _ h2) c

end Aldrin.Broker
