/-
The ownership invariant `OwnP` (`Lemmas/Broker/XOwn.lean`) on states of the broker model (`Own`): a connection holds a
channel end it has claimed and a bus listener it has created; who holds something lists it
(`ConnectionState::{senders, receivers, bus_listeners}`), and what a connection lists it holds. Through the channel and
listener handlers, `remove_channel_end`, `remove_bus_listener`, the removal of a connection, every request, every item
of deferred work, every event, turn and history (`run_own`).
-/
import Aldrin.Lemmas.Broker.OwnFrame
import Aldrin.Lemmas.Broker.XOwn
import Aldrin.Lemmas.Broker.Gauge

set_option linter.unusedSimpArgs false
set_option linter.unusedVariables false
namespace Aldrin.Broker
open Generated

def endOwner : EndState → Option ConnId
  | .claimed o _ => some o
  | _ => none

def ChanEnd.kind : ChanEnd → HKind
  | .sender => .snd
  | .receiver => .rcv

/-- who holds what: claimed channel ends and bus listeners -/
def own (s : St) : OwnView
  | (.snd, ck) => match AL.find? ck s.b.channels with
    | some c => endOwner c.sender
    | none => none
  | (.rcv, ck) => match AL.find? ck s.b.channels with
    | some c => endOwner c.receiver
    | none => none
  | (.lsn, ck) => match AL.find? ck s.b.listeners with
    | some l => some l.conn
    | none => none

def holds (t : List Cookie × List Cookie × List Cookie) : List Hold :=
  t.1.map (fun c => (HKind.snd, c)) ++ t.2.1.map (fun c => (HKind.rcv, c)) ++ t.2.2.map (fun c => (HKind.lsn, c))

theorem mem_holds (t : List Cookie × List Cookie × List Cookie) (x : Hold) :
    x ∈ holds t ↔ (x.1 = .snd ∧ x.2 ∈ t.1) ∨ (x.1 = .rcv ∧ x.2 ∈ t.2.1) ∨ (x.1 = .lsn ∧ x.2 ∈ t.2.2) := by
  obtain ⟨k, c⟩ := x
  simp only [holds, List.mem_append, List.mem_map, Prod.mk.injEq]
  cases k <;> simp

/-- what a connection lists -/
def co (s : St) (c : ConnId) : Option (List Hold) := (cv s c).map holds

def Own (pc : Option (ConnId × List Hold)) (s : St) : Prop := OwnP pc (own s) (co s)

variable {pc : Option (ConnId × List Hold)}

/-- nobody has come to hold anything -/
def OwnLe (s s' : St) : Prop := ∀ x o, own s' x = some o → own s x = some o
def OwnEq (s s' : St) : Prop := ∀ x, own s' x = own s x

theorem OwnLe.refl (s : St) : OwnLe s s := fun _ _ h => h
theorem OwnLe.trans {a b c : St} (h1 : OwnLe a b) (h2 : OwnLe b c) : OwnLe a c := fun x o h => h1 x o (h2 x o h)
theorem OwnEq.le {s s' : St} (h : OwnEq s s') : OwnLe s s' := fun x o hx => (h x) ▸ hx
theorem OwnEq.refl (s : St) : OwnEq s s := fun _ => rfl
theorem OwnEq.trans {a b c : St} (h1 : OwnEq a b) (h2 : OwnEq b c) : OwnEq a c := fun x => (h2 x).trans (h1 x)

theorem OwnEq.of_eq {s s' : St} (h1 : s'.b.channels = s.b.channels) (h2 : s'.b.listeners = s.b.listeners) : OwnEq s s' := by
  intro x; obtain ⟨k, c⟩ := x; cases k <;> simp [own, h1, h2]
theorem OwnEq.of_cl {s s' : St} (h : SameCL s s') : OwnEq s s' := OwnEq.of_eq h.1 h.2.1

theorem co_of_cve {s s' : St} (h : CvEq s s') (c : ConnId) : co s' c = co s c := by simp [co, h c]

theorem Own.of_views {s' : St} {OWN : OwnView} {CO : CoView} (h : OwnP pc OWN CO) (h1 : ∀ x, own s' x = OWN x) (h2 : ∀ c, co s' c = CO c) :
    Own pc s' := by
  unfold Own
  have e1 : own s' = OWN := funext h1
  have e2 : co s' = CO := funext h2
  rw [e1, e2]; exact h

theorem Own.of_frame {s s' : St} (h : Own pc s) (h1 : OwnEq s s') (h2 : CvEq s s') : Own pc s' :=
  Own.of_views h h1 (co_of_cve h2)

theorem Own.of_cl {s s' : St} (h : Own pc s) (h1 : SameCL s s') (h2 : CvEq s s') : Own pc s' := h.of_frame (OwnEq.of_cl h1) h2

theorem Own.of_eq {s s' : St} (h : Own pc s) (h1 : s'.b.channels = s.b.channels) (h2 : s'.b.listeners = s.b.listeners)
    (h3 : s'.b.conns = s.b.conns) : Own pc s' := h.of_frame (OwnEq.of_eq h1 h2) (CvEq.of_conns h3)

theorem Own.init : Own none ⟨{}, {}, []⟩ := by
  refine Own.of_views OwnP.init ?_ ?_
  · intro x; obtain ⟨k, c⟩ := x; cases k <;> rfl
  · intro c; rfl

theorem co_find {s : St} {id : ConnId} {conn : Conn} (h : AL.find? id s.b.conns = some conn) :
    co s id = some (holds (conn.senders, conn.receivers, conn.busListeners)) := by
  simp [co, cv, h]
theorem co_find_none {s : St} {id : ConnId} (h : AL.find? id s.b.conns = none) : co s id = none := by
  simp [co, cv, h]

/-! ### `Channel::close` -/

theorem close_owner {c c' : Chan} {e : ChanEnd} {other : Option ConnId} (h : c.close e = .ok (c', other)) :
    (match e with
      | .sender => endOwner c'.sender = none ∧ c'.receiver = c.receiver ∧ other = endOwner c.receiver
      | .receiver => endOwner c'.receiver = none ∧ c'.sender = c.sender ∧ other = endOwner c.sender) := by
  unfold Chan.close at h
  cases e <;> simp only [] at h
  all_goals
    repeat' (split at h)
    all_goals (try (simp at h; done))
    all_goals (simp only [Except.ok.injEq, Prod.mk.injEq] at h; obtain ⟨rfl, rfl⟩ := h)
    all_goals (simp_all [endOwner])

/-- what `remove_channel_end` does to a connection's lists -/
def dropEnd (e : ChanEnd) (ck : Cookie) (c : Conn) : Conn :=
  match e with
  | .sender => { c with senders := sremove ck c.senders }
  | .receiver => { c with receivers := sremove ck c.receivers }

theorem conn?_isSome_updConn (s : St) (o : ConnId) (f : Conn → Conn) (x : ConnId) :
    ((s.updConn o f).conn? x).isSome = (s.conn? x).isSome := by
  unfold St.updConn
  split
  · simp only [St.conn?, St.setConn_b_conns, AL.find?_insert]
    split
    · rename_i heq; subst heq; simp_all [St.conn?]
    · rfl
  · rfl

def rceConn (s : St) (ck : Cookie) (e : ChanEnd) (owner : Option ConnId) : St :=
  match owner with
  | some o => s.updConn o (dropEnd e ck)
  | none => s

def rceDrop (t : St) (ck : Cookie) : St :=
  (t.setChannels (AL.erase ck t.b.channels)).stat (fun st => { st with numChannels := st.numChannels - 1 })

def rceFinish (t : St) (ck : Cookie) (e : ChanEnd) (ch' : Chan) (other : Option ConnId) : St :=
  match other with
  | some oid =>
    if ((t.setChannels (AL.insert ck ch' t.b.channels)).conn? oid).isSome
    then (t.setChannels (AL.insert ck ch' t.b.channels)).sendOrRemove oid (.channelEndClosed ck e)
    else rceDrop (t.setChannels (AL.insert ck ch' t.b.channels)) ck
  | none => rceDrop (t.setChannels (AL.insert ck ch' t.b.channels)) ck

/-- `remove_channel_end` in a form that is easier to reason about -/
theorem removeChannelEnd_eq (s : St) (ck : Cookie) (e : ChanEnd) (owner : Option ConnId) :
    removeChannelEnd s ck e owner =
      match AL.find? ck s.b.channels with
      | none => .ok s
      | some ch => match ch.close e with
        | .error p => .error p
        | .ok (ch', other) => .ok (rceFinish (rceConn s ck e owner) ck e ch' other) := by
  unfold removeChannelEnd rceFinish rceDrop rceConn dropEnd
  cases hch : AL.find? ck s.b.channels with
  | none => rfl
  | some ch =>
    simp only []
    cases hc : ch.close e with
    | error p => rfl
    | ok r =>
      obtain ⟨ch', other⟩ := r
      cases owner <;> cases e <;> cases other <;> simp only [] <;> (try rfl) <;> (split <;> simp_all)

theorem rceConn_channels (s : St) (ck : Cookie) (e : ChanEnd) (owner : Option ConnId) : (rceConn s ck e owner).b.channels = s.b.channels := by
  unfold rceConn; split <;> simp
theorem rceConn_listeners (s : St) (ck : Cookie) (e : ChanEnd) (owner : Option ConnId) : (rceConn s ck e owner).b.listeners = s.b.listeners := by
  unfold rceConn; split <;> simp
theorem rceConn_isSome (s : St) (ck : Cookie) (e : ChanEnd) (owner : Option ConnId) (x : ConnId) :
    (AL.find? x (rceConn s ck e owner).b.conns).isSome = (AL.find? x s.b.conns).isSome := by
  unfold rceConn; split
  · exact conn?_isSome_updConn _ _ _ _
  · rfl

/-- the channels, listeners and connection lists after `rceFinish` -/
theorem rceFinish_shape (t : St) (ck : Cookie) (e : ChanEnd) (ch' : Chan) (other : Option ConnId) :
    (rceFinish t ck e ch' other).b.listeners = t.b.listeners ∧ CvEq t (rceFinish t ck e ch' other) ∧
    (((rceFinish t ck e ch' other).b.channels = AL.insert ck ch' t.b.channels ∧ ∃ oid, other = some oid ∧ (AL.find? oid t.b.conns).isSome = true) ∨
     ((rceFinish t ck e ch' other).b.channels = AL.erase ck (AL.insert ck ch' t.b.channels) ∧
        (other = none ∨ ∃ oid, other = some oid ∧ AL.find? oid t.b.conns = none))) := by
  unfold rceFinish rceDrop
  cases other with
  | none => exact ⟨by simp, CvEq.of_conns (by simp), Or.inr ⟨by simp, Or.inl rfl⟩⟩
  | some oid =>
    simp only []
    split
    · rename_i hsome
      exact ⟨by simp, CvEq.of_conns (by simp), Or.inl ⟨by simp, oid, rfl, by simpa [St.conn?] using hsome⟩⟩
    · rename_i hnone
      refine ⟨by simp, CvEq.of_conns (by simp), Or.inr ⟨by simp, Or.inr ⟨oid, rfl, ?_⟩⟩⟩
      cases hx : AL.find? oid t.b.conns <;> simp_all [St.conn?]

theorem own_of_insert {t s : St} {ck : Cookie} {ch' : Chan} (hl : t.b.listeners = s.b.listeners)
    (hc : t.b.channels = AL.insert ck ch' s.b.channels) (x : Hold) :
    own t x = if x = (.snd, ck) then endOwner ch'.sender else if x = (.rcv, ck) then endOwner ch'.receiver else own s x := by
  obtain ⟨k, c⟩ := x
  cases k <;> simp only [own, hl, hc, AL.find?_insert, Prod.mk.injEq, reduceCtorEq, false_and, true_and, ↓reduceIte]
  all_goals (by_cases hk : ck = c <;> simp [hk, eq_comm])

theorem own_of_erase_insert {t s : St} {ck : Cookie} {ch' : Chan} (hl : t.b.listeners = s.b.listeners)
    (hc : t.b.channels = AL.erase ck (AL.insert ck ch' s.b.channels)) (x : Hold) :
    own t x = if x = (.snd, ck) then none else if x = (.rcv, ck) then none else own s x := by
  obtain ⟨k, c⟩ := x
  cases k <;> simp only [own, hl, hc, AL.find?_erase, AL.find?_insert, Prod.mk.injEq, reduceCtorEq, false_and, true_and, ↓reduceIte]
  all_goals (by_cases hk : ck = c <;> simp [hk, eq_comm])

theorem own_chan {s : St} {ck : Cookie} {ch : Chan} (h : AL.find? ck s.b.channels = some ch) :
    own s (.snd, ck) = endOwner ch.sender ∧ own s (.rcv, ck) = endOwner ch.receiver := by
  simp [own, h]

theorem own_chan_none {s : St} {ck : Cookie} (h : AL.find? ck s.b.channels = none) (e : ChanEnd) : own s (e.kind, ck) = none := by
  cases e <;> simp [own, ChanEnd.kind, h]

/-- the lists after `rceConn`, as `OwnP.release` wants them -/
theorem rceConn_co {s : St} {ck : Cookie} {e : ChanEnd} {owner : Option ConnId}
    (hpre : ∀ o', own s (e.kind, ck) = some o' → owner = some o') (id : ConnId) :
    (co (rceConn s ck e owner) id = none ↔ co s id = none) ∧ ∀ L', co (rceConn s ck e owner) id = some L' → ∃ L, co s id = some L ∧
      (∀ y, y ∈ L' → y ∈ L ∧ (own s (e.kind, ck) = some id → y ≠ (e.kind, ck))) ∧ (∀ y, y ∈ L → y ≠ (e.kind, ck) → y ∈ L') := by
  have same : ∀ t : St, (∀ c, cv t c = cv s c) → (∀ o', own s (e.kind, ck) = some o' → co s o' = none) →
      (co t id = none ↔ co s id = none) ∧ ∀ L', co t id = some L' → ∃ L, co s id = some L ∧
      (∀ y, y ∈ L' → y ∈ L ∧ (own s (e.kind, ck) = some id → y ≠ (e.kind, ck))) ∧ (∀ y, y ∈ L → y ≠ (e.kind, ck) → y ∈ L') := by
    intro t ht hgone
    have : co t id = co s id := by simp [co, ht id]
    refine ⟨by rw [this], fun L' hl => ⟨L', by rw [← this]; exact hl, fun y hy => ⟨hy, fun ho => ?_⟩, fun y hy _ => hy⟩⟩
    rw [this, hgone id ho] at hl; simp at hl
  unfold rceConn
  cases owner with
  | none =>
    exact same s (fun _ => rfl) (fun o' ho => by have := hpre o' ho; simp at this)
  | some o =>
    simp only []
    cases hconn : AL.find? o s.b.conns with
    | none =>
      refine same _ (fun c => ?_) (fun o' ho => ?_)
      · rw [cv_updConn']; split
        · rename_i heq; subst heq; simp [St.conn?, hconn, cv]
        · rfl
      · have := hpre o' ho; simp at this; subst this; exact co_find_none hconn
    | some conn =>
      by_cases hid : o = id
      · subst hid
        have e1 : co (s.updConn o (dropEnd e ck)) o = some (holds ((dropEnd e ck conn).senders, (dropEnd e ck conn).receivers, (dropEnd e ck conn).busListeners)) := by
          simp [co, cv_updConn', St.conn?, hconn]
        have e2 : co s o = some (holds (conn.senders, conn.receivers, conn.busListeners)) := co_find hconn
        rw [e1, e2]
        refine ⟨by simp, fun L' hl => ⟨_, rfl, ?_, ?_⟩⟩
        · simp at hl; subst hl
          intro y hy
          rw [mem_holds] at hy ⊢
          cases e <;> simp only [dropEnd, ChanEnd.kind] at hy ⊢
          · rcases hy with ⟨h1, h2⟩ | h2 | h2
            · rw [mem_sremove] at h2
              exact ⟨Or.inl ⟨h1, h2.2⟩, fun _ he => h2.1 (by rw [he])⟩
            · exact ⟨Or.inr (Or.inl h2), fun _ he => by rw [he] at h2; exact absurd h2.1 (by intro hh; cases hh)⟩
            · exact ⟨Or.inr (Or.inr h2), fun _ he => by rw [he] at h2; exact absurd h2.1 (by intro hh; cases hh)⟩
          · rcases hy with h2 | ⟨h1, h2⟩ | h2
            · exact ⟨Or.inl h2, fun _ he => by rw [he] at h2; exact absurd h2.1 (by intro hh; cases hh)⟩
            · rw [mem_sremove] at h2
              exact ⟨Or.inr (Or.inl ⟨h1, h2.2⟩), fun _ he => h2.1 (by rw [he])⟩
            · exact ⟨Or.inr (Or.inr h2), fun _ he => by rw [he] at h2; exact absurd h2.1 (by intro hh; cases hh)⟩
        · simp at hl; subst hl
          intro y hy hne
          rw [mem_holds] at hy ⊢
          obtain ⟨k, c⟩ := y
          cases e <;> simp only [dropEnd, ChanEnd.kind] at hy hne ⊢
          · rcases hy with ⟨h1, h2⟩ | h2 | h2
            · (try simp at h1); subst h1
              exact Or.inl ⟨rfl, by rw [mem_sremove]; exact ⟨fun he => hne (by (try simp at he); simp [he]), h2⟩⟩
            · exact Or.inr (Or.inl h2)
            · exact Or.inr (Or.inr h2)
          · rcases hy with h2 | ⟨h1, h2⟩ | h2
            · exact Or.inl h2
            · (try simp at h1); subst h1
              exact Or.inr (Or.inl ⟨rfl, by rw [mem_sremove]; exact ⟨fun he => hne (by (try simp at he); simp [he]), h2⟩⟩)
            · exact Or.inr (Or.inr h2)
      · have e1 : co (s.updConn o (dropEnd e ck)) id = co s id := by
          simp [co, cv_updConn', hid]
        rw [e1]
        refine ⟨Iff.rfl, fun L' hl => ⟨L', hl, fun y hy => ⟨hy, fun ho => ?_⟩, fun y hy _ => hy⟩⟩
        have := hpre id ho; simp at this; exact absurd this hid

/-- **`remove_channel_end`**, called for an end that — if it is claimed at all — is claimed by `owner` -/
theorem removeChannelEnd_own {s s' : St} {ck : Cookie} {e : ChanEnd} {owner : Option ConnId} (h : Own pc s)
    (hpre : ∀ o', own s (e.kind, ck) = some o' → owner = some o')
    (hr : removeChannelEnd s ck e owner = .ok s') : Own pc s' ∧ own s' (e.kind, ck) = none ∧ OwnLe s s' := by
  rw [removeChannelEnd_eq] at hr
  cases hch : AL.find? ck s.b.channels with
  | none =>
    simp only [hch, Except.ok.injEq] at hr; subst hr
    exact ⟨h, own_chan_none hch e, OwnLe.refl _⟩
  | some ch =>
    simp only [hch] at hr
    cases hc : ch.close e with
    | error p => simp [hc] at hr
    | ok r =>
      obtain ⟨ch', other⟩ := r
      simp only [hc, Except.ok.injEq] at hr
      subst hr
      obtain ⟨hl, hcv, hcases⟩ := rceFinish_shape (rceConn s ck e owner) ck e ch' other
      rw [rceConn_listeners] at hl
      rw [rceConn_channels] at hcases
      have hclose := close_owner hc
      obtain ⟨os, or⟩ := own_chan hch
      have P1 : OwnP pc (upd (own s) (e.kind, ck) none) (co (rceConn s ck e owner)) := OwnP.release h (rceConn_co hpre)
      have hco : ∀ c, co (rceFinish (rceConn s ck e owner) ck e ch' other) c = co (rceConn s ck e owner) c := co_of_cve hcv
      rcases hcases with ⟨hchan, oid, hoth, hsome⟩ | ⟨hchan, hoth⟩
      · -- the channel stays, with the end closed
        have hown := own_of_insert hl hchan
        have hv : ∀ x, own (rceFinish (rceConn s ck e owner) ck e ch' other) x = upd (own s) (e.kind, ck) none x := by
          intro x
          rw [hown x]
          cases e <;> simp only [ChanEnd.kind, upd_apply] at hclose ⊢
          · obtain ⟨c1, c2, _⟩ := hclose
            by_cases h1 : x = (.snd, ck)
            · simp [h1, c1]
            · by_cases h2 : x = (.rcv, ck)
              · simp [h2, c2, or]
              · simp [h1, h2, Ne.symm h1]
          · obtain ⟨c1, c2, _⟩ := hclose
            by_cases h1 : x = (.snd, ck)
            · simp [h1, c2, os]
            · by_cases h2 : x = (.rcv, ck)
              · simp [h2, c1]
              · simp [h1, h2, Ne.symm h2]
        refine ⟨Own.of_views P1 hv hco, by rw [hv]; simp, fun x o hx => ?_⟩
        rw [hv] at hx; simp only [upd_apply] at hx; split at hx
        · simp at hx
        · exact hx
      · -- the channel goes: the other end is unclaimed, closed, or held by a connection that is not there
        have hown := own_of_erase_insert hl hchan
        let x2 : Hold := (match e with | .sender => HKind.rcv | .receiver => HKind.snd, ck)
        have hx2 : ∀ o', upd (own s) (e.kind, ck) none x2 = some o' → other = some o' := by
          intro o' ho
          cases e <;> simp only [x2, ChanEnd.kind, upd_apply, Prod.mk.injEq, reduceCtorEq, false_and, ↓reduceIte] at ho hclose
          · rw [or] at ho; rw [hclose.2.2]; exact ho
          · rw [os] at ho; rw [hclose.2.2]; exact ho
        have P2 : OwnP pc (upd (upd (own s) (e.kind, ck) none) x2 none) (co (rceConn s ck e owner)) := by
          refine P1.release_gone (fun id hid => ?_)
          have := hx2 id hid
          rcases hoth with hn | ⟨oid, ho, hgone⟩
          · rw [hn] at this; simp at this
          · rw [ho] at this; simp at this; subst this
            exact co_find_none hgone
        have hv : ∀ x, own (rceFinish (rceConn s ck e owner) ck e ch' other) x = upd (upd (own s) (e.kind, ck) none) x2 none x := by
          intro x
          rw [hown x]
          cases e <;> simp only [x2, ChanEnd.kind, upd_apply]
          · by_cases h1 : x = (.snd, ck)
            · simp [h1]
            · by_cases h2 : x = (.rcv, ck)
              · simp [h2]
              · simp [h1, h2, Ne.symm h1, Ne.symm h2]
          · by_cases h1 : x = (.snd, ck)
            · simp [h1]
            · by_cases h2 : x = (.rcv, ck)
              · simp [h2]
              · simp [h1, h2, Ne.symm h1, Ne.symm h2]
        refine ⟨Own.of_views P2 hv hco, ?_, fun x o hx => ?_⟩
        · rw [hown]; cases e <;> simp [ChanEnd.kind]
        · rw [hv] at hx; simp only [upd_apply] at hx
          split at hx
          · simp at hx
          · split at hx
            · simp at hx
            · exact hx

/-! ### `remove_bus_listener` -/

/-- a listener goes: out of the map and out of its connection's list -/
theorem release_listener {s t : St} {ck : Cookie} {l : Listener} (hl : AL.find? ck s.b.listeners = some l) (h : Own pc s)
    (h1 : t.b.channels = s.b.channels) (h2 : t.b.listeners = AL.erase ck s.b.listeners)
    (h3 : ∀ c, cv t c = if l.conn = c then (AL.find? l.conn s.b.conns).map (fun x => (x.senders, x.receivers, sremove ck x.busListeners)) else cv s c) :
    Own pc t ∧ own t (.lsn, ck) = none ∧ OwnLe s t := by
  have hv : ∀ x, own t x = upd (own s) (.lsn, ck) none x := by
    intro x
    obtain ⟨k, c⟩ := x
    cases k <;> simp only [own, h1, h2, upd_apply, Prod.mk.injEq, reduceCtorEq, false_and, true_and, ↓reduceIte, AL.find?_erase]
    by_cases hk : ck = c <;> simp [hk]
  have hown : own s (.lsn, ck) = some l.conn := by simp [own, hl]
  have hrel : OwnP pc (upd (own s) (.lsn, ck) none) (co t) := by
    refine OwnP.release h (fun id => ?_)
    by_cases hid : l.conn = id
    · subst hid
      cases hconn : AL.find? l.conn s.b.conns with
      | none =>
        have e1 : co t l.conn = none := by simp [co, h3, hconn]
        rw [e1, co_find_none hconn]
        exact ⟨Iff.rfl, fun L' hl' => by simp at hl'⟩
      | some conn =>
        have e1 : co t l.conn = some (holds (conn.senders, conn.receivers, sremove ck conn.busListeners)) := by simp [co, h3, hconn]
        rw [e1, co_find hconn]
        refine ⟨by simp, fun L' hl' => ⟨_, rfl, ?_, ?_⟩⟩
        · simp at hl'; subst hl'
          intro y hy
          rw [mem_holds] at hy ⊢
          rcases hy with h2' | h2' | ⟨h1', h2'⟩
          · exact ⟨Or.inl h2', fun _ he => by rw [he] at h2'; exact absurd h2'.1 (by intro hh; cases hh)⟩
          · exact ⟨Or.inr (Or.inl h2'), fun _ he => by rw [he] at h2'; exact absurd h2'.1 (by intro hh; cases hh)⟩
          · rw [mem_sremove] at h2'
            exact ⟨Or.inr (Or.inr ⟨h1', h2'.2⟩), fun _ he => h2'.1 (by rw [he])⟩
        · simp at hl'; subst hl'
          intro y hy hne
          rw [mem_holds] at hy ⊢
          obtain ⟨k, c⟩ := y
          rcases hy with h2' | h2' | ⟨h1', h2'⟩
          · exact Or.inl h2'
          · exact Or.inr (Or.inl h2')
          · (try simp at h1'); subst h1'
            exact Or.inr (Or.inr ⟨rfl, by rw [mem_sremove]; exact ⟨fun he => hne (by simp at he; simp [he]), h2'⟩⟩)
    · have e1 : co t id = co s id := by simp [co, h3, hid]
      rw [e1]
      refine ⟨Iff.rfl, fun L' hl' => ⟨L', hl', fun y hy => ⟨hy, fun ho => ?_⟩, fun y hy _ => hy⟩⟩
      rw [hown] at ho; simp at ho; exact absurd ho hid
  refine ⟨Own.of_views hrel hv (fun _ => rfl), by rw [hv]; simp, fun x o hx => ?_⟩
  rw [hv] at hx; simp only [upd_apply] at hx; split at hx
  · simp at hx
  · exact hx

theorem removeBusListener_own {s : St} (ck : Cookie) (h : Own pc s) :
    Own pc (removeBusListener s ck) ∧ own (removeBusListener s ck) (.lsn, ck) = none ∧ OwnLe s (removeBusListener s ck) := by
  unfold removeBusListener
  cases hl : AL.find? ck s.b.listeners with
  | none => exact ⟨h, by simp [own, hl], OwnLe.refl _⟩
  | some l =>
    simp only []
    refine release_listener hl h (by simp) (by simp) (fun c => ?_)
    simp [cv_updConn', St.conn?]

/-! ### channel operations keep who holds the ends -/

theorem OwnEq.of_insert_same {s t : St} {ck : Cookie} {ch ch' : Chan} (hf : AL.find? ck s.b.channels = some ch)
    (hl : t.b.listeners = s.b.listeners) (hc : t.b.channels = AL.insert ck ch' s.b.channels)
    (h1 : endOwner ch'.sender = endOwner ch.sender) (h2 : endOwner ch'.receiver = endOwner ch.receiver) : OwnEq s t := by
  intro x
  rw [own_of_insert hl hc x]
  obtain ⟨os, or⟩ := own_chan hf
  by_cases e1 : x = (.snd, ck)
  · simp [e1, h1, os]
  · by_cases e2 : x = (.rcv, ck)
    · simp [e2, h2, or]
    · simp [e1, e2]

theorem sendItem_owner {c c' : Chan} {conn r : ConnId} {add : Option Nat} (h : c.sendItem conn = .ok (.ok (c', r, add))) :
    endOwner c'.sender = endOwner c.sender ∧ endOwner c'.receiver = endOwner c.receiver := by
  unfold Chan.sendItem at h
  repeat' ((try simp only [] at h); split at h)
  all_goals (try (simp at h; done))
  all_goals (simp only [Except.ok.injEq, Prod.mk.injEq] at h; obtain ⟨rfl, _, _⟩ := h)
  all_goals (simp_all [endOwner])

theorem sendItem_sender {c : Chan} {conn : ConnId} {x} (h : c.sendItem conn = .ok x) (hx : x ≠ .error .invalidSender) :
    endOwner c.sender = some conn := by
  unfold Chan.sendItem at h
  repeat' ((try simp only [] at h); split at h)
  all_goals (try (simp at h; done))
  all_goals (simp only [Except.ok.injEq] at h; subst h)
  all_goals (simp_all [endOwner])

theorem addCapacity_owner {c c' : Chan} {conn : ConnId} {cap : Nat} {fwd} (h : c.addCapacity conn cap = .ok (some (c', fwd))) :
    endOwner c'.sender = endOwner c.sender ∧ endOwner c'.receiver = endOwner c.receiver := by
  unfold Chan.addCapacity at h
  repeat' ((try simp only [] at h); split at h)
  all_goals (try (simp at h; done))
  all_goals (simp only [Except.ok.injEq, Option.some.injEq, Prod.mk.injEq] at h; obtain ⟨rfl, _⟩ := h)
  all_goals (simp_all [endOwner])

theorem addCapacity_none {c : Chan} {conn : ConnId} {cap : Nat} (h : c.addCapacity conn cap = .ok none) :
    endOwner c.receiver = some conn := by
  unfold Chan.addCapacity at h
  repeat' ((try simp only [] at h); split at h)
  all_goals (try (simp at h; done))
  all_goals (simp_all [endOwner])

theorem claimSender_owner {c c' : Chan} {conn other : ConnId} {cap : Nat} (h : c.claimSender conn = .ok (.ok (c', other, cap))) :
    endOwner c.sender = none ∧ endOwner c'.sender = some conn ∧ endOwner c'.receiver = endOwner c.receiver := by
  unfold Chan.claimSender at h
  repeat' ((try simp only [] at h); split at h)
  all_goals (try (simp at h; done))
  all_goals (simp only [Except.ok.injEq, Prod.mk.injEq] at h; obtain ⟨rfl, _, _⟩ := h)
  all_goals (simp_all [endOwner])

theorem claimReceiver_owner {c c' : Chan} {conn other : ConnId} {cap : Nat} (h : c.claimReceiver conn cap = .ok (.ok (c', other))) :
    endOwner c.receiver = none ∧ endOwner c'.receiver = some conn ∧ endOwner c'.sender = endOwner c.sender := by
  unfold Chan.claimReceiver at h
  repeat' ((try simp only [] at h); split at h)
  all_goals (try (simp at h; done))
  all_goals (simp only [Except.ok.injEq, Prod.mk.injEq] at h; obtain ⟨rfl, _⟩ := h)
  all_goals (simp_all [endOwner])

theorem checkClose_pre {c : Chan} {conn : ConnId} {e : ChanEnd} {claimed : Bool} (h : c.checkClose conn e = (.ok, claimed)) :
    ∀ o', endOwner (c.endState e) = some o' → (if claimed then some conn else none) = some o' := by
  unfold Chan.checkClose at h
  intro o' ho
  split at h
  · rename_i heq; rw [heq] at ho; simp [endOwner] at ho
  · rename_i owner cap heq
    rw [heq] at ho; simp [endOwner] at ho; subst ho
    split at h
    · rename_i hc; simp at h; subst h; simp [hc]
    · simp at h
  · simp at h

/-! ### the handlers -/

/-- a connection comes to hold something nobody held -/
theorem acquire_state {s t : St} {id : ConnId} {conn : Conn} {x : Hold} {lists' : List Cookie × List Cookie × List Cookie}
    (h : Own none s) (hconn : AL.find? id s.b.conns = some conn) (hfree : own s x = none)
    (hown : ∀ y, own t y = upd (own s) x (some id) y)
    (hcv : ∀ c, cv t c = if id = c then some lists' else cv s c)
    (hL : ∀ y, y ∈ holds lists' ↔ y = x ∨ y ∈ holds (conn.senders, conn.receivers, conn.busListeners)) : Own none t := by
  refine Own.of_views (OwnP.acquire h hfree (co_find hconn) hL) hown (fun c => ?_)
  simp only [co, hcv, upd_apply]
  split <;> simp [co]

theorem holds_sinsert_snd (ck : Cookie) (a b c : List Cookie) (y : Hold) :
    y ∈ holds (sinsert ck a, b, c) ↔ y = (.snd, ck) ∨ y ∈ holds (a, b, c) := by
  obtain ⟨k, c'⟩ := y
  simp only [mem_holds, mem_sinsert, Prod.mk.injEq]
  cases k <;> simp
theorem holds_sinsert_rcv (ck : Cookie) (a b c : List Cookie) (y : Hold) :
    y ∈ holds (a, sinsert ck b, c) ↔ y = (.rcv, ck) ∨ y ∈ holds (a, b, c) := by
  obtain ⟨k, c'⟩ := y
  simp only [mem_holds, mem_sinsert, Prod.mk.injEq]
  cases k <;> simp
theorem holds_sinsert_lsn (ck : Cookie) (a b c : List Cookie) (y : Hold) :
    y ∈ holds (a, b, sinsert ck c) ↔ y = (.lsn, ck) ∨ y ∈ holds (a, b, c) := by
  obtain ⟨k, c'⟩ := y
  simp only [mem_holds, mem_sinsert, Prod.mk.injEq]
  cases k <;> simp

theorem createBusListener_own {s s' : St} {id serial} {ok : Bool} (hg : G2 s) (h : Own none s)
    (hr : createBusListener s id serial = .ok (s', ok)) : Own none s' := by
  unfold createBusListener at hr
  repeat' ((try simp only [] at hr); split at hr)
  all_goals (simp only [okH, errH, Except.ok.injEq, Prod.mk.injEq] at hr; obtain ⟨rfl, _⟩ := hr)
  · exact h
  · exact h.of_eq (by simp) (by simp) (by simp)
  · rename_i conn hconn0 _ _
    have hconn : AL.find? id s.b.conns = some conn := by simpa [St.conn?] using hconn0
    have hfresh : AL.find? s.b.nextCookie s.b.listeners = none := KeysBelow_fresh hg.2.below
    refine acquire_state (x := (.lsn, s.b.nextCookie)) (lists' := (conn.senders, conn.receivers, sinsert s.b.nextCookie conn.busListeners))
      h hconn (by simp [own, hfresh]) (fun y => ?_) (fun c => ?_) (holds_sinsert_lsn _ _ _ _)
    · obtain ⟨k, c⟩ := y
      cases k <;> simp [own, AL.find?_insert]
      by_cases hk : s.b.nextCookie = c <;> simp [hk]
    · simp [cv_updConn', St.conn?, hconn]

theorem createChannel_own {s s' : St} {id serial e cap} {ok : Bool} (hg : G2 s) (h : Own none s)
    (hr : createChannel s id serial e cap = .ok (s', ok)) : Own none s' := by
  unfold createChannel at hr
  split at hr
  · simp only [okH, Except.ok.injEq, Prod.mk.injEq] at hr; obtain ⟨rfl, _⟩ := hr; exact h
  · rename_i conn hconn
    simp only [St.conn?] at hconn
    have hfresh : AL.find? s.b.nextCookie s.b.channels = none := KeysBelow_fresh hg.1.below
    have key : ∀ t : St, t.b.listeners = s.b.listeners →
        (t.b.channels = AL.insert s.b.nextCookie (match e with | .sender => Chan.withClaimedSender id | .receiver => Chan.withClaimedReceiver id cap) s.b.channels) →
        (∀ c, cv t c = if id = c then some (match e with
          | .sender => (sinsert s.b.nextCookie conn.senders, conn.receivers, conn.busListeners)
          | .receiver => (conn.senders, sinsert s.b.nextCookie conn.receivers, conn.busListeners)) else cv s c) → Own none t := by
      intro t hl hc hcv
      refine acquire_state (x := (e.kind, s.b.nextCookie)) h hconn (own_chan_none hfresh e) (fun y => ?_) hcv ?_
      · rw [own_of_insert hl hc y]
        cases e <;> simp only [ChanEnd.kind, Chan.withClaimedSender, Chan.withClaimedReceiver, endOwner, upd_apply]
        · by_cases h1 : y = (.snd, s.b.nextCookie)
          · simp [h1]
          · by_cases h2 : y = (.rcv, s.b.nextCookie)
            · have := own_chan_none hfresh .receiver; simp [ChanEnd.kind] at this; simp [h2, this]
            · simp [h1, h2, Ne.symm h1]
        · by_cases h1 : y = (.snd, s.b.nextCookie)
          · have := own_chan_none hfresh .sender; simp [ChanEnd.kind] at this; simp [h1, this]
          · by_cases h2 : y = (.rcv, s.b.nextCookie)
            · simp [h2]
            · simp [h1, h2, Ne.symm h2]
      · cases e <;> simp only [ChanEnd.kind]
        · exact holds_sinsert_snd _ _ _ _
        · exact holds_sinsert_rcv _ _ _ _
    simp only [] at hr
    cases e <;> simp only [] at hr
    all_goals
      split at hr
      · have hfst := congrArg Prod.fst (Except.ok.inj hr); dsimp only at hfst; rw [← hfst]
        refine key _ (by simp) (by simp) (fun c => ?_)
        simp [cv_updConn', St.conn?, hconn]
      · split at hr
        · simp only [errH, Except.ok.injEq, Prod.mk.injEq] at hr; obtain ⟨rfl, _⟩ := hr
          refine key _ (by simp) (by simp) (fun c => ?_)
          simp [cv_updConn', St.conn?, hconn]
        · simp only [okH, Except.ok.injEq, Prod.mk.injEq] at hr; obtain ⟨rfl, _⟩ := hr
          refine key _ (by simp) (by simp) (fun c => ?_)
          simp [cv_updConn', St.conn?, hconn]

theorem claimChannelEnd_own {s s' : St} {id serial ck e cap} {ok : Bool} (h : Own none s)
    (hr : claimChannelEnd s id serial ck e cap = .ok (s', ok)) : Own none s' := by
  unfold claimChannelEnd at hr
  split at hr
  · simp only [okH, Except.ok.injEq, Prod.mk.injEq] at hr; obtain ⟨rfl, _⟩ := hr; exact h
  · rename_i conn hconn0
    have hconn : AL.find? id s.b.conns = some conn := by simpa [St.conn?] using hconn0
    split at hr
    · have hfst := congrArg Prod.fst (Except.ok.inj hr); dsimp only at hfst; rw [← hfst]
      exact h.of_eq (by simp) (by simp) (by simp)
    · rename_i ch hch
      simp only [] at hr
      have key : ∀ (ch' : Chan) (t : St), t.b.listeners = s.b.listeners → t.b.channels = AL.insert ck ch' s.b.channels →
          endOwner (ch.endState e) = none → endOwner (ch'.endState e) = some id →
          (match e with | .sender => endOwner ch'.receiver = endOwner ch.receiver | .receiver => endOwner ch'.sender = endOwner ch.sender) →
          (∀ c, cv t c = if id = c then some (match e with
            | .sender => (sinsert ck conn.senders, conn.receivers, conn.busListeners)
            | .receiver => (conn.senders, sinsert ck conn.receivers, conn.busListeners)) else cv s c) → Own none t := by
        intro ch' t hl hc h0 h1 h2 hcv
        obtain ⟨os, or⟩ := own_chan hch
        refine acquire_state (x := (e.kind, ck)) h hconn ?_ (fun y => ?_) hcv ?_
        · cases e <;> simp only [ChanEnd.kind, Chan.endState] at h0 ⊢
          · rw [os]; exact h0
          · rw [or]; exact h0
        · rw [own_of_insert hl hc y]
          cases e <;> simp only [ChanEnd.kind, Chan.endState, upd_apply] at h0 h1 h2 ⊢
          · by_cases e1 : y = (.snd, ck)
            · simp [e1, h1]
            · by_cases e2 : y = (.rcv, ck)
              · simp [e2, h2, or]
              · simp [e1, e2, Ne.symm e1]
          · by_cases e1 : y = (.snd, ck)
            · simp [e1, h2, os]
            · by_cases e2 : y = (.rcv, ck)
              · simp [e2, h1]
              · simp [e1, e2, Ne.symm e2]
        · cases e <;> simp only [ChanEnd.kind]
          · exact holds_sinsert_snd _ _ _ _
          · exact holds_sinsert_rcv _ _ _ _
      cases e <;> simp only [] at hr
      · -- sender
        cases hcl : ch.claimSender id with
        | error p => simp [hcl] at hr
        | ok r =>
          cases r with
          | error r' =>
            simp only [hcl] at hr
            have hfst := congrArg Prod.fst (Except.ok.inj hr); dsimp only at hfst; rw [← hfst]
            exact h.of_eq (by simp) (by simp) (by simp)
          | ok v =>
            obtain ⟨ch', other, c⟩ := v
            simp only [hcl] at hr
            obtain ⟨q1, q2, q3⟩ := claimSender_owner hcl
            split at hr
            · simp at hr
            · have hfst := congrArg Prod.fst (Except.ok.inj hr); dsimp only at hfst; rw [← hfst]
              refine key ch' _ (by simp) (by simp) (by simpa [Chan.endState] using q1) (by simpa [Chan.endState] using q2) q3 (fun c' => ?_)
              simp [cv_updConn', St.conn?, hconn]
      · -- receiver
        cases hcl : ch.claimReceiver id cap with
        | error p => simp [hcl] at hr
        | ok r =>
          cases r with
          | error r' =>
            simp only [hcl] at hr
            have hfst := congrArg Prod.fst (Except.ok.inj hr); dsimp only at hfst; rw [← hfst]
            exact h.of_eq (by simp) (by simp) (by simp)
          | ok v =>
            obtain ⟨ch', other⟩ := v
            simp only [hcl] at hr
            obtain ⟨q1, q2, q3⟩ := claimReceiver_owner hcl
            split at hr
            · simp at hr
            · have hfst := congrArg Prod.fst (Except.ok.inj hr); dsimp only at hfst; rw [← hfst]
              refine key ch' _ (by simp) (by simp) (by simpa [Chan.endState] using q1) (by simpa [Chan.endState] using q2) q3 (fun c' => ?_)
              simp [cv_updConn', St.conn?, hconn]

theorem closeChannelEnd_own {s s' : St} {id serial ck e} {ok : Bool} (h : Own none s)
    (hr : closeChannelEnd s id serial ck e = .ok (s', ok)) : Own none s' := by
  unfold closeChannelEnd at hr
  split at hr
  · simp only [okH, Except.ok.injEq, Prod.mk.injEq] at hr; obtain ⟨rfl, _⟩ := hr; exact h
  · split at hr
    · have hfst := congrArg Prod.fst (Except.ok.inj hr); dsimp only at hfst; rw [← hfst]
      exact h.of_eq (by simp) (by simp) (by simp)
    · rename_i ch hch
      simp only [] at hr
      split at hr
      · simp only [errH, Except.ok.injEq, Prod.mk.injEq] at hr; obtain ⟨rfl, _⟩ := hr
        exact h.of_eq (by simp) (by simp) (by simp)
      · split at hr
        · rename_i hres
          split at hr
          · simp at hr
          · rename_i s1 h1
            simp only [okH, Except.ok.injEq, Prod.mk.injEq] at hr; obtain ⟨rfl, _⟩ := hr
            have hcc : ch.checkClose id e = (.ok, (ch.checkClose id e).2) := by
              rw [← hres]
            have hpre := checkClose_pre hcc
            refine (removeChannelEnd_own (h.of_eq (s' := (s.send id (Rsp.closeChannelEndReply serial (ch.checkClose id e).1)).1) (by simp) (by simp) (by simp)) ?_ h1).1
            intro o' ho
            have hch' : AL.find? ck (s.send id (Rsp.closeChannelEndReply serial (ch.checkClose id e).1)).1.b.channels = some ch := by simpa using hch
            obtain ⟨os, or⟩ := own_chan hch'
            apply hpre o'
            cases e <;> simp only [ChanEnd.kind, Chan.endState] at ho ⊢
            · rw [← os]; exact ho
            · rw [← or]; exact ho
        · simp only [okH, Except.ok.injEq, Prod.mk.injEq] at hr; obtain ⟨rfl, _⟩ := hr
          exact h.of_eq (by simp) (by simp) (by simp)

theorem addChannelCapacity_own {s s' : St} {id ck cap} {ok : Bool} (h : Own none s)
    (hr : addChannelCapacity s id ck cap = .ok (s', ok)) : Own none s' := by
  unfold addChannelCapacity at hr
  split at hr
  · simp only [okH, Except.ok.injEq, Prod.mk.injEq] at hr; obtain ⟨rfl, _⟩ := hr; exact h
  · rename_i ch hch
    obtain ⟨os, or⟩ := own_chan hch
    cases hac : ch.addCapacity id cap with
    | error p => simp [hac] at hr
    | ok r =>
      cases r with
      | none =>
        simp only [hac] at hr
        split at hr
        · simp at hr
        · rename_i s1 h1
          simp only [okH, Except.ok.injEq, Prod.mk.injEq] at hr; obtain ⟨rfl, _⟩ := hr
          refine (removeChannelEnd_own (e := .receiver) h ?_ h1).1
          intro o' ho
          simp only [ChanEnd.kind] at ho
          rw [or, addCapacity_none hac] at ho
          exact ho
      | some v =>
        obtain ⟨ch', fwd⟩ := v
        simp only [hac] at hr
        obtain ⟨q1, q2⟩ := addCapacity_owner hac
        have hmid : Own none (s.setChannels (AL.insert ck ch' s.b.channels)) :=
          h.of_frame (OwnEq.of_insert_same hch (by simp) (by simp) q1 q2) (CvEq.of_conns (by simp))
        repeat' (split at hr)
        all_goals (simp only [okH, Except.ok.injEq, Prod.mk.injEq] at hr; obtain ⟨rfl, _⟩ := hr)
        all_goals (first | exact hmid | exact hmid.of_eq (by simp) (by simp) (by simp))

theorem sendItem_own {s s' : St} {id ck p} {ok : Bool} (h : Own none s)
    (hr : sendItem s id ck p = .ok (s', ok)) : Own none s' := by
  unfold sendItem at hr
  split at hr
  · simp only [okH, Except.ok.injEq, Prod.mk.injEq] at hr; obtain ⟨rfl, _⟩ := hr; exact h
  · split at hr
    · simp only [okH, Except.ok.injEq, Prod.mk.injEq] at hr; obtain ⟨rfl, _⟩ := hr; exact h
    · rename_i ch hch
      obtain ⟨os, or⟩ := own_chan hch
      cases hsi : ch.sendItem id with
      | error p => simp [hsi] at hr
      | ok r =>
        have hsender : r ≠ .error .invalidSender → own s (.snd, ck) = some id := fun hne => by rw [os]; exact sendItem_sender hsi hne
        cases r with
        | error er =>
          simp only [hsi] at hr
          cases er with
          | invalidSender => simp only [okH, Except.ok.injEq, Prod.mk.injEq] at hr; obtain ⟨rfl, _⟩ := hr; exact h
          | receiverClosed => simp only [okH, Except.ok.injEq, Prod.mk.injEq] at hr; obtain ⟨rfl, _⟩ := hr; exact h
          | receiverUnclaimed =>
            simp only [] at hr
            split at hr
            · simp at hr
            · rename_i s1 h1
              split at hr
              · simp at hr
              · rename_i s2 h2
                simp only [okH, Except.ok.injEq, Prod.mk.injEq] at hr; obtain ⟨rfl, _⟩ := hr
                have hru : endOwner ch.receiver = none := by
                  unfold Chan.sendItem at hsi
                  repeat' ((try simp only [] at hsi); split at hsi)
                  all_goals (try (simp at hsi; done))
                  all_goals (simp_all [endOwner])
                obtain ⟨a1, _, a3⟩ := removeChannelEnd_own (e := .receiver) (owner := none) h (by
                  intro o' ho; simp only [ChanEnd.kind] at ho; rw [or, hru] at ho; simp at ho) h1
                refine (removeChannelEnd_own (e := .sender) (owner := some id) a1 ?_ h2).1
                intro o' ho
                have := a3 _ _ ho
                simp only [ChanEnd.kind] at this
                rw [hsender (by simp)] at this; exact this
          | capacityExhausted =>
            simp only [] at hr
            split at hr
            · simp at hr
            · rename_i s1 h1
              simp only [okH, Except.ok.injEq, Prod.mk.injEq] at hr; obtain ⟨rfl, _⟩ := hr
              refine (removeChannelEnd_own (e := .sender) (owner := some id) h ?_ h1).1
              intro o' ho
              simp only [ChanEnd.kind] at ho
              rw [hsender (by simp)] at ho; exact ho
        | ok v =>
          obtain ⟨ch', receiverId, add⟩ := v
          simp only [hsi] at hr
          obtain ⟨q1, q2⟩ := sendItem_owner hsi
          have hmid : Own none (s.setChannels (AL.insert ck ch' s.b.channels)) :=
            h.of_frame (OwnEq.of_insert_same hch (by simp) (by simp) q1 q2) (CvEq.of_conns (by simp))
          repeat' (split at hr)
          all_goals (try (simp only [okH, Except.ok.injEq] at hr))
          all_goals (have hfst := congrArg Prod.fst hr; dsimp only at hfst; rw [← hfst])
          all_goals (first | exact hmid | exact hmid.of_eq (by simp) (by simp) (by simp))

theorem destroyBusListener_own {s s' : St} {id serial ck} {ok : Bool} (h : Own none s)
    (hr : destroyBusListener s id serial ck = .ok (s', ok)) : Own none s' := by
  unfold destroyBusListener at hr
  repeat' ((try simp only [] at hr); split at hr)
  all_goals (try (simp only [okH, errH, Except.ok.injEq, Prod.mk.injEq, reduceCtorEq] at hr))
  all_goals (try (have hfst := congrArg Prod.fst hr; (try dsimp only at hfst); rw [← hfst]; clear hfst hr))
  all_goals (try (obtain ⟨h1, h2⟩ := hr; subst h1; subst h2))
  all_goals (try (exact h))
  all_goals (try (refine Own.of_eq h ?_ ?_ ?_ <;> (first | rfl | (simp; done)); done))
  all_goals (exact (removeBusListener_own _ (h.of_eq (by simp) (by simp) (by simp))).1)

/-- an update of a listener by its own connection keeps whose it is -/
theorem OwnEq.of_listener_same {s t : St} {ck : Cookie} {l l' : Listener} (hf : AL.find? ck s.b.listeners = some l)
    (hc : t.b.channels = s.b.channels) (hl : t.b.listeners = AL.insert ck l' s.b.listeners) (hcn : l'.conn = l.conn) : OwnEq s t := by
  intro x
  obtain ⟨k, c⟩ := x
  cases k <;> simp only [own, hc, hl, AL.find?_insert]
  by_cases hk : ck = c
  · subst hk; simp [hf, hcn]
  · simp [hk]

theorem updListener_own {s s' : St} {id ck} {f : Listener → Listener} {ok : Bool} (hf : ∀ l, (f l).conn = l.conn) (h : Own none s)
    (hr : updListener s id ck f = .ok (s', ok)) : Own none s' := by
  unfold updListener at hr
  repeat' ((try simp only [] at hr); split at hr)
  all_goals (simp only [okH, Except.ok.injEq, Prod.mk.injEq] at hr; obtain ⟨rfl, _⟩ := hr)
  all_goals (try (exact h))
  rename_i l hl _ _
  exact h.of_frame (OwnEq.of_listener_same hl (by simp) (by simp) (hf l)) (CvEq.of_conns (by simp))

theorem OwnEq.of_lsn_view {s t : St} (hc : t.b.channels = s.b.channels)
    (hv : ∀ k, (AL.find? k t.b.listeners).map Listener.conn = (AL.find? k s.b.listeners).map Listener.conn) : OwnEq s t := by
  intro x
  obtain ⟨k, c⟩ := x
  cases k <;> simp only [own, hc]
  have := hv c
  cases h1 : AL.find? c t.b.listeners <;> cases h2 : AL.find? c s.b.listeners <;> simp_all

theorem lsn_view_insert {s : St} {ck : Cookie} {l l' : Listener} (hl : AL.find? ck s.b.listeners = some l) (hcn : l'.conn = l.conn) (k : Cookie) :
    (AL.find? k (AL.insert ck l' s.b.listeners)).map Listener.conn = (AL.find? k s.b.listeners).map Listener.conn := by
  rw [AL.find?_insert]
  split
  · rename_i heq; subst heq; simp [hl, hcn]
  · rfl

theorem stopBusListener_own {s s' : St} {id serial ck} {ok : Bool} (h : Own none s)
    (hr : stopBusListener s id serial ck = .ok (s', ok)) : Own none s' := by
  have hcv := stopBusListener_cve hr
  unfold stopBusListener at hr
  repeat' ((try simp only [] at hr); split at hr)
  all_goals (try (simp only [okH, errH, Except.ok.injEq, Prod.mk.injEq, reduceCtorEq] at hr))
  all_goals (try (have hfst := congrArg Prod.fst hr; (try dsimp only at hfst); rw [← hfst] at hcv ⊢; clear hfst hr))
  all_goals (try (obtain ⟨h1, h2⟩ := hr; subst h1; subst h2))
  all_goals (try (exact h))
  all_goals (try (refine Own.of_eq h ?_ ?_ ?_ <;> (first | rfl | (simp; done)); done))
  refine h.of_frame (OwnEq.of_lsn_view (by simp) (fun k => ?_)) hcv
  simp only [St.send_b_listeners, St.setListeners_b_listeners]
  have hl := ‹AL.find? ck s.b.listeners = some _›
  exact lsn_view_insert (l' := _) hl (by rfl) k

theorem startBusListener_own {s s' : St} {id serial ck sc} {ok : Bool} (h : Own none s)
    (hr : startBusListener s id serial ck sc = .ok (s', ok)) : Own none s' := by
  have hcv := startBusListener_cve hr
  unfold startBusListener at hr
  repeat' ((try simp only [] at hr); split at hr)
  all_goals (try (simp only [okH, errH, Except.ok.injEq, Prod.mk.injEq, reduceCtorEq] at hr))
  all_goals (try (exact hr.elim))
  all_goals (try (have hfst := congrArg Prod.fst hr; (try dsimp only at hfst); rw [← hfst] at hcv ⊢; clear hfst hr))
  all_goals (try (obtain ⟨h1, h2⟩ := hr; subst h1; subst h2))
  all_goals (try (exact h))
  all_goals (try (refine Own.of_eq h ?_ ?_ ?_ <;> (first | rfl | (simp; done)); done))
  all_goals (refine h.of_frame (OwnEq.of_lsn_view (by simp) (fun k => ?_)) hcv; simp only [St.send_b_listeners, St.setListeners_b_listeners, sendAll_listeners]; have hl := ‹AL.find? ck s.b.listeners = some _›; exact lsn_view_insert (l' := _) hl (by rfl) k)

/-- every request -/
theorem handleMessage_own {s s' : St} {id : ConnId} {m : Req} {ok : Bool} (hg : G2 s) (h : Own none s)
    (hr : handleMessage s id m = .ok (s', ok)) : Own none s' := by
  cases m <;> simp only [handleMessage] at hr
  case createChannel => exact createChannel_own hg h hr
  case closeChannelEnd => exact closeChannelEnd_own h hr
  case claimChannelEnd => exact claimChannelEnd_own h hr
  case sendItem => exact sendItem_own h hr
  case addChannelCapacity => exact addChannelCapacity_own h hr
  case createBusListener => exact createBusListener_own hg h hr
  case destroyBusListener => exact destroyBusListener_own h hr
  case addFilter f => exact updListener_own (f := fun x => x.addFilter f) (fun l => rfl) h hr
  case removeFilter f => exact updListener_own (f := fun x => x.removeFilter f) (fun l => rfl) h hr
  case clearFilters => exact updListener_own (f := fun x => x.clearFilters) (fun l => rfl) h hr
  case startBusListener => exact startBusListener_own h hr
  case stopBusListener => exact stopBusListener_own h hr
  case createObject => exact h.of_cl (createObject_cl hr) (createObject_cve hr)
  case destroyObject => exact h.of_cl (destroyObject_cl hr) (destroyObject_cve hr)
  case createService => exact h.of_cl (createService_cl hr) (createService_cve hr)
  case createService2 => exact h.of_cl (createService2_cl hr) (createService2_cve hr)
  case destroyService => exact h.of_cl (destroyService_cl hr) (destroyService_cve hr)
  case callFunction => exact h.of_cl (callFunctionImpl_cl hr) (callFunctionImpl_cve hr)
  case callFunction2 => exact h.of_cl (callFunction2_cl hr) (callFunction2_cve hr)
  case callFunctionReply => exact h.of_cl (callFunctionReply_cl hr) (callFunctionReply_cve hr)
  case abortFunctionCall => exact h.of_cl (abortFunctionCall_cl hr) (abortFunctionCall_cve hr)
  case subscribeEvent serial _ _ => exact h.of_cl (subscribeEvent_cl hr) (subscribeEvent_cve hr)
  case unsubscribeEvent => exact h.of_cl (unsubscribeEvent_cl hr) (unsubscribeEvent_cve hr)
  case emitEvent => exact h.of_cl (emitEvent_cl hr) (emitEvent_cve hr)
  case queryServiceVersion => exact h.of_cl (queryServiceVersion_cl hr) (queryServiceVersion_cve hr)
  case queryServiceInfo => exact h.of_cl (queryServiceInfo_cl hr) (queryServiceInfo_cve hr)
  case subscribeService => exact h.of_cl (subscribeService_cl hr) (subscribeService_cve hr)
  case unsubscribeService => exact h.of_cl (unsubscribeService_cl hr) (unsubscribeService_cve hr)
  case subscribeAllEvents serial _ => exact h.of_cl (subscribeAllEvents_cl hr) (subscribeAllEvents_cve hr)
  case unsubscribeAllEvents serial _ => exact h.of_cl (unsubscribeAllEvents_cl hr) (unsubscribeAllEvents_cve hr)
  case sync => exact h.of_cl (sync_cl hr) (sync_cve hr)
  case registerIntrospection => exact h.of_cl (registerIntrospection_cl hr) (registerIntrospection_cve hr)
  case queryIntrospection => exact h.of_cl (queryIntrospection_cl hr) (queryIntrospection_cve hr)
  case queryIntrospectionReply => exact h.of_cl (queryIntrospectionReply_cl hr) (queryIntrospectionReply_cve hr)
  case other => simp [errH] at hr; exact hr.1 ▸ h

/-! ### the removal of a connection -/

theorem removeEnds_own {id : ConnId} {L : List Hold} {e : ChanEnd} : ∀ (l : List Cookie) (s s' : St), Own (some (id, L)) s →
    (∀ ck, ck ∈ l → (e.kind, ck) ∈ L) → foldE (fun s c => removeChannelEnd s c e (some id)) s l = .ok s' →
    Own (some (id, L)) s' ∧ OwnLe s s' ∧ ∀ ck, ck ∈ l → own s' (e.kind, ck) = none := by
  intro l
  induction l with
  | nil => intro s s' h _ hr; simp [foldE] at hr; subst hr; exact ⟨h, OwnLe.refl _, by simp⟩
  | cons a l ih =>
    intro s s' h hL hr
    simp only [foldE] at hr
    split at hr
    · simp at hr
    · rename_i s1 h1
      obtain ⟨r1, r2, r3⟩ := removeChannelEnd_own h (fun o' ho => by
        have := h.o4 id L (e.kind, a) o' rfl (hL a (by simp)) ho
        rw [this]) h1
      obtain ⟨q1, q2, q3⟩ := ih _ _ r1 (fun ck hck => hL ck (by simp [hck])) hr
      refine ⟨q1, OwnLe.trans r3 q2, fun ck hck => ?_⟩
      rcases List.mem_cons.mp hck with rfl | hck'
      · cases ho : own s' (e.kind, ck) with
        | none => rfl
        | some o => have := q2 _ _ ho; rw [r2] at this; simp at this
      · exact q3 ck hck'

theorem removeListeners_own : ∀ (l : List Cookie) (s : St), Own pc s →
    Own pc (l.foldl removeBusListener s) ∧ OwnLe s (l.foldl removeBusListener s) ∧ ∀ ck, ck ∈ l → own (l.foldl removeBusListener s) (.lsn, ck) = none := by
  intro l
  induction l with
  | nil => intro s h; exact ⟨h, OwnLe.refl _, by simp⟩
  | cons a l ih =>
    intro s h
    simp only [List.foldl_cons]
    obtain ⟨r1, r2, r3⟩ := removeBusListener_own a h
    obtain ⟨q1, q2, q3⟩ := ih _ r1
    refine ⟨q1, OwnLe.trans r3 q2, fun ck hck => ?_⟩
    rcases List.mem_cons.mp hck with rfl | hck'
    · cases ho : own (List.foldl removeBusListener (removeBusListener s ck) l) (.lsn, ck) with
      | none => rfl
      | some o => have := q2 _ _ ho; rw [r2] at this; simp at this
    · exact q3 ck hck'

theorem shutdownConnection_own {s s' : St} {id b} (h : Own none s) (hr : shutdownConnection s id b = .ok s') : Own none s' := by
  unfold shutdownConnection at hr
  split at hr
  · simp at hr; exact hr ▸ h
  · rename_i conn hconn
    simp only [] at hr
    repeat' (split at hr)
    all_goals (try (simp at hr; done))
    rename_i s1 h1 _ s2 h2 _ s3 h3 _ s4 h4 _ s5 h5 _ s6 h6
    have hconn' : AL.find? id s.b.conns = some conn := by simpa using hconn
    -- the connection goes out of the map
    have i0 : Own (some (id, holds (conn.senders, conn.receivers, conn.busListeners))) ((if b = true then
            if conn.alive = true then (s.stat fun st => { st with messagesSent := st.messagesSent + 1 }).setOut
                ((s.stat fun st => { st with messagesSent := st.messagesSent + 1 }).out ++ [{ to := id, msg := Rsp.shutdown, ver := none }])
            else s.stat fun st => { st with messagesSent := st.messagesSent + 1 }
          else s).setConns (AL.erase id (if b = true then
            if conn.alive = true then (s.stat fun st => { st with messagesSent := st.messagesSent + 1 }).setOut
                ((s.stat fun st => { st with messagesSent := st.messagesSent + 1 }).out ++ [{ to := id, msg := Rsp.shutdown, ver := none }])
            else s.stat fun st => { st with messagesSent := st.messagesSent + 1 }
          else s).b.conns)) := by
      refine Own.of_views (OwnP.remove_conn h (co_find hconn')) (fun x => ?_) (fun c => ?_)
      · obtain ⟨k, ck⟩ := x
        cases k <;> (split <;> (try split) <;> rfl)
      · have : ∀ t : St, t.b.conns = s.b.conns → co (t.setConns (AL.erase id t.b.conns)) c = upd (co s) id none c := by
          intro t ht
          simp only [co, cv, St.setConns_b_conns, ht, AL.find?_erase, upd_apply]
          by_cases hx : id = c <;> simp [hx]
        split <;> (try split) <;> exact this _ (by simp)
    obtain ⟨j1, j2, j3⟩ := removeListeners_own conn.busListeners _ i0
    have i1 := foldE_inv (fun t => Own (some (id, holds (conn.senders, conn.receivers, conn.busListeners))) t ∧
        OwnLe (List.foldl removeBusListener _ conn.busListeners) t) _
      (fun s a s' hp hr => ⟨hp.1.of_cl (removeObject_cl hr) (removeObject_cve hr), OwnLe.trans hp.2 (OwnEq.of_cl (removeObject_cl hr)).le⟩) _ _ _ ⟨j1, OwnLe.refl _⟩ h1
    have i2 := foldE_inv (fun t => Own (some (id, holds (conn.senders, conn.receivers, conn.busListeners))) t ∧
        OwnLe (List.foldl removeBusListener _ conn.busListeners) t) _
      (fun s a s' hp hr => ⟨hp.1.of_cl (removeEventSubscription_cl hr) (removeEventSubscription_cve hr), OwnLe.trans hp.2 (OwnEq.of_cl (removeEventSubscription_cl hr)).le⟩) _ _ _ i1 h2
    have i3 := foldE_inv (fun t => Own (some (id, holds (conn.senders, conn.receivers, conn.busListeners))) t ∧
        OwnLe (List.foldl removeBusListener _ conn.busListeners) t) _
      (fun s a s' hp hr => ⟨hp.1.of_cl (removeAllEventsSubscription_cl hr) (removeAllEventsSubscription_cve hr), OwnLe.trans hp.2 (OwnEq.of_cl (removeAllEventsSubscription_cl hr)).le⟩) _ _ _ i2 h3
    have i4 := foldE_inv (fun t => Own (some (id, holds (conn.senders, conn.receivers, conn.busListeners))) t ∧
        OwnLe (List.foldl removeBusListener _ conn.busListeners) t) _
      (fun s a s' hp hr => ⟨hp.1.of_cl (removeSubscription_cl hr) (removeSubscription_cve hr), OwnLe.trans hp.2 (OwnEq.of_cl (removeSubscription_cl hr)).le⟩) _ _ _ i3 h4
    obtain ⟨k1, k2, k3⟩ := removeEnds_own (e := .sender) conn.senders _ _ i4.1 (fun ck hck => by rw [mem_holds]; exact Or.inl ⟨rfl, hck⟩) h5
    obtain ⟨m1, m2, m3⟩ := removeEnds_own (e := .receiver) conn.receivers _ _ k1 (fun ck hck => by rw [mem_holds]; exact Or.inr (Or.inl ⟨rfl, hck⟩)) h6
    -- nothing of what the connection listed is held by it any more
    have hclear : ∀ x, x ∈ holds (conn.senders, conn.receivers, conn.busListeners) → own s6 x = none := by
      intro x hx
      cases ho : own s6 x with
      | none => rfl
      | some o =>
        exfalso
        obtain ⟨k, ck⟩ := x
        rw [mem_holds] at hx
        rcases hx with ⟨e1, e2⟩ | ⟨e1, e2⟩ | ⟨e1, e2⟩
        · simp at e1 e2; subst e1
          have := m2 _ _ ho; rw [show (HKind.snd, ck) = (ChanEnd.sender.kind, ck) from rfl, k3 ck e2] at this; simp at this
        · simp at e1 e2; subst e1
          rw [show (HKind.rcv, ck) = (ChanEnd.receiver.kind, ck) from rfl, m3 ck e2] at ho; simp at ho
        · simp at e1 e2; subst e1
          have := i4.2 _ _ (k2 _ _ (m2 _ _ ho)); rw [j3 ck e2] at this; simp at this
    have i6 : Own none s6 := OwnP.pc_clear m1 hclear
    refine Own.of_cl ?_ (removeIntrospectionConn_cl hr) (removeIntrospectionConn_cve hr)
    refine Own.of_eq (s := List.foldl (fun s (p : Nat × Nat × ConnId) => s.setWAbortCalls ((p.2.1, p.2.2) :: s.w.abortCalls)) s6 conn.calls) ?_ (by simp) (by simp) (by simp)
    apply foldl_inv (Own none) _ ?_ _ _ i6
    intro s a hp
    exact hp.of_eq (by simp) (by simp) (by simp)

/-! ### events, deferred work, turns, histories -/

theorem handleEvent_own {s s' : St} {e : Event} (hg : G2 s) (h : Own none s) (hr : handleEvent s e = .ok s') : Own none s' := by
  cases e <;> simp only [handleEvent] at hr
  case msg id m =>
    split at hr
    · simp at hr
    · rename_i s1 ok hm
      have := handleMessage_own hg h hm
      simp only [Except.ok.injEq] at hr
      subst hr
      refine Own.of_eq this ?_ ?_ ?_ <;> (split <;> simp)
  case newConn id v =>
    split at hr
    · simp at hr
    · rename_i hnew
      simp only [Except.ok.injEq] at hr; subst hr
      have hnone : AL.find? id s.b.conns = none := by
        cases hf : AL.find? id s.b.conns <;> simp_all [St.conn?]
      refine Own.of_views (OwnP.new_conn h (id := id) (co_find_none hnone)) (fun x => ?_) (fun c => ?_)
      · obtain ⟨k, ck⟩ := x; cases k <;> rfl
      · simp only [co, cv_stat, cv_setConn, upd_apply]
        split <;> simp [holds, co]
  case taskDropped id =>
    simp only [Except.ok.injEq] at hr; subst hr
    refine h.of_frame (OwnEq.of_eq (by simp) (by simp)) (fun c => ?_)
    simp [cv_updConn']
  all_goals (simp only [Except.ok.injEq] at hr; subst hr; refine Own.of_eq h ?_ ?_ ?_ <;> simp)

theorem processOne_own {s s' : St} (h : Own none s) (hr : processOne s = some (.ok s')) : Own none s' := by
  unfold processOne at hr
  repeat' (split at hr)
  all_goals (try (simp only [Option.some.injEq, reduceCtorEq] at hr))
  all_goals first
    | (refine shutdownConnection_own (s := s.setWRemoveConns _) (Own.of_eq h ?_ ?_ ?_) hr <;> simp; done)
    | (refine Own.of_cl (Own.of_eq (s' := s.setWAbortCalls _) h ?_ ?_ ?_) (abortCall_cl hr) (abortCall_cve hr) <;> simp; done)
    | (simp only [Except.ok.injEq] at hr; subst hr; refine Own.of_eq h ?_ ?_ ?_ <;> simp; done)
    | (simp only [Except.ok.injEq] at hr; subst hr; refine Own.of_cl (Own.of_eq (s' := s.setWCreateObject _) h ?_ ?_ ?_) (emitBusEvent_cl _ _) (emitBusEvent_cve _ _) <;> simp; done)
    | (simp only [Except.ok.injEq] at hr; subst hr; refine Own.of_cl (Own.of_eq (s' := s.setWCreateService _) h ?_ ?_ ?_) (emitBusEvent_cl _ _) (emitBusEvent_cve _ _) <;> simp; done)
    | (simp only [Except.ok.injEq] at hr; subst hr; refine Own.of_cl (Own.of_eq (s' := s.setWDestroyService _) h ?_ ?_ ?_) (emitBusEvent_cl _ _) (emitBusEvent_cve _ _) <;> simp; done)
    | (simp only [Except.ok.injEq] at hr; subst hr; refine Own.of_cl (Own.of_eq (s' := s.setWDestroyObject _) h ?_ ?_ ?_) (emitBusEvent_cl _ _) (emitBusEvent_cve _ _) <;> simp; done)
    | (simp only [Except.ok.injEq] at hr; subst hr; refine Own.of_eq h ?_ ?_ ?_ <;> (split <;> simp); done)
    | (split at hr <;> (try split at hr) <;> (try simp only [Except.ok.injEq, reduceCtorEq] at hr) <;>
        first | (exact hr.elim) | (subst hr; refine Own.of_eq h ?_ ?_ ?_ <;> simp; done)
              | (subst hr; rename_i c0 hc0 _; refine h.of_frame (OwnEq.of_eq (by simp) (by simp)) (fun c => ?_)
                 simp only [cv_sendOrRemove, cv_setConn, cv_setWRemoveCalls]
                 split
                 · rename_i heq; subst heq; simp only [St.conn?, St.setWRemoveCalls_b_conns] at hc0; simp [cv, hc0]
                 · rfl))

theorem processLoop_own : ∀ (fuel : Nat) (s s' : St), Own none s → processLoop fuel s = .ok s' → Own none s' := by
  intro fuel
  induction fuel with
  | zero => intro s s' _ hr; simp [processLoop] at hr
  | succ n ih =>
    intro s s' h hr
    simp only [processLoop] at hr
    split at hr
    · simp at hr; exact hr ▸ h
    · simp at hr
    · exact ih _ _ (processOne_own h ‹_›) hr

/-- one turn of `Broker::run` -/
theorem step_own {b b' : Broker} {w w' : Work} {e : Event} {out : List Out}
    (hg : G2 ⟨b, w, []⟩) (h : Own none ⟨b, w, []⟩) (hr : step b w e = .ok (b', w', out)) : Own none ⟨b', w', []⟩ := by
  unfold step at hr
  split at hr
  · simp at hr
  · rename_i s1 h1
    split at hr
    · simp at hr
    · rename_i s2 h2
      simp only [Except.ok.injEq, Prod.mk.injEq] at hr
      obtain ⟨rfl, rfl, _⟩ := hr
      exact Own.of_eq (processLoop_own _ _ _ (handleEvent_own hg h h1) h2) rfl rfl rfl

/-- every history -/
theorem run_own : ∀ (es : List Event) (b b' : Broker) (w w' : Work) (outs : List (List Out)),
    G2 ⟨b, w, []⟩ → Own none ⟨b, w, []⟩ → run b w es = .ok (b', w', outs) → Own none ⟨b', w', []⟩ := by
  intro es
  induction es with
  | nil => intro b b' w w' outs _ h hr; simp [run] at hr; obtain ⟨rfl, rfl, _⟩ := hr; exact h
  | cons e es ih =>
    intro b b' w w' outs hg h hr
    simp only [run] at hr
    split at hr
    · simp at hr
    · rename_i b1 w1 o1 h1
      split at hr
      · simp at hr
      · rename_i b2 w2 o2 h2
        simp only [Except.ok.injEq, Prod.mk.injEq] at hr
        obtain ⟨rfl, rfl, _⟩ := hr
        exact ih _ _ _ _ _ (step_G2 hg h1) (step_own hg h h1) h2

end Aldrin.Broker
