/-
The same, as an equality: every function of the broker model except the call handlers, `abort_call`, the deferred
`remove_function_call` items and the removal of a connection leaves every connection's table of pending calls and
`alive` flag exactly as they were, and neither adds nor removes a connection.
-/
import Aldrin.Lemmas.Broker.CallConn

set_option linter.unusedSimpArgs false
set_option linter.unusedVariables false
namespace Aldrin.Broker

def CkEq (s s' : St) : Prop := ∀ c, ck s' c = ck s c

theorem CkEq.refl (s : St) : CkEq s s := fun _ => rfl
theorem CkEq.trans {a b c : St} (h1 : CkEq a b) (h2 : CkEq b c) : CkEq a c := fun x => (h2 x).trans (h1 x)
theorem CkEq.le {s s' : St} (h : CkEq s s') : CkLe s s' := fun c v hv => (h c) ▸ hv
theorem CkEq.of_conns {s s' : St} (h : s'.b.conns = s.b.conns) : CkEq s s' := fun c => ck_of_conns h c

syntax "cke_tac" ident : tactic
macro_rules
  | `(tactic| cke_tac $f) => `(tactic|
      (intro h; unfold $f at h
       repeat' ((try simp only [] at h); split at h)
       all_goals (try (simp only [okH, errH, Except.ok.injEq, Prod.mk.injEq, reduceCtorEq] at h))
       all_goals (try (have hfst := congrArg Prod.fst h; (try dsimp only at hfst); rw [← hfst]; clear hfst h))
       all_goals (try (exact h.elim))
       all_goals (try (obtain ⟨h1, h2⟩ := h; subst h1; subst h2))
       all_goals (try subst_vars)
       all_goals (try (simp only [CkEq]; intro c; simp [ck_updConn']; done))
       all_goals (try (grind [CkEq, ck_conn, ck_updConn']))))


theorem removeService_calls_cke : ∀ (l : List Nat) (s s' : St), removeService.calls s l = .ok s' → CkEq s s' := by
  intro l
  induction l with
  | nil => intro s s' h; simp [removeService.calls] at h; subst h; exact CkEq.refl _
  | cons a l ih =>
    intro s s' h
    simp only [removeService.calls] at h
    split at h
    · simp at h
    · refine CkEq.trans ?_ (ih _ _ h)
      split <;> exact CkEq.of_conns (by simp)

theorem CkEq.step_setConn {s : St} {cid : ConnId} {old new : Conn} (h : s.conn? cid = some old) (ha : new.alive = old.alive)
    (hk : new.calls = old.calls) : CkEq s (s.setConn cid new) := by
  intro c
  rw [ck_setConn]
  split
  · rename_i heq; subst heq; rw [ck_conn h, ← ha, ← hk]
  · rfl

@[grind →] theorem removeService_cke {s s' : St} {c : Cookie} : removeService s c = .ok s' → CkEq s s' := by
  intro h
  unfold removeService at h
  split at h
  · simp only [Except.ok.injEq] at h; subst h; exact CkEq.refl _
  · (try simp only [] at h)
    split at h
    · simp at h
    · (try simp only [] at h)
      split at h
      · simp at h
      · rename_i s1 hc
        have h1 := removeService_calls_cke _ _ _ hc
        simp only [Except.ok.injEq] at h
        subst h
        refine CkEq.trans (CkEq.trans ?_ h1) ?_
        · split <;> exact CkEq.of_conns (by simp)
        · refine CkEq.trans ?_ (CkEq.of_conns (St.stat_b_conns _ _))
          apply foldl_inv (CkEq s1) _ _ _ _ (CkEq.refl _)
          intro s2 a hp
          refine CkEq.trans hp ?_
          split
          · rename_i c0 hc0
            exact CkEq.trans (CkEq.step_setConn (new := c0.unsubscribeAllOf _) hc0 rfl rfl) (CkEq.of_conns rfl)
          · exact CkEq.refl _

@[grind →] theorem removeEventSubscription_cke {s s' : St} {cid c ev} : removeEventSubscription s cid c ev = .ok s' → CkEq s s' := by
  cke_tac removeEventSubscription

@[grind →] theorem removeChannelEnd_cke {s s' : St} {c e o} : removeChannelEnd s c e o = .ok s' → CkEq s s' := by
  cke_tac removeChannelEnd

theorem removeObject_svcs_cke : ∀ (l : List Cookie) (s s' : St), removeObject.svcs s l = .ok s' → CkEq s s' := by
  intro l
  induction l with
  | nil => intro s s' h; simp [removeObject.svcs] at h; subst h; exact CkEq.refl _
  | cons a l ih =>
    intro s s' h
    simp only [removeObject.svcs] at h
    split at h
    · simp at h
    · exact CkEq.trans (removeService_cke ‹_›) (ih _ _ h)

@[grind →] theorem removeObject_cke {s s' : St} {c : Cookie} : removeObject s c = .ok s' → CkEq s s' := by
  intro h
  unfold removeObject at h
  repeat' ((try simp only [] at h); split at h)
  all_goals (try (simp only [Except.ok.injEq, reduceCtorEq] at h))
  all_goals (try (exact h.elim))
  all_goals (try subst h)
  · exact CkEq.refl _
  · rename_i hs
    refine CkEq.trans (CkEq.trans ?_ (removeObject_svcs_cke _ _ _ hs)) (CkEq.of_conns rfl)
    intro c; simp [ck_updConn']

@[grind →] theorem removeAllEventsSubscription_cke {s s' : St} {cid c} : removeAllEventsSubscription s cid c = .ok s' → CkEq s s' := by
  cke_tac removeAllEventsSubscription

@[grind →] theorem removeSubscription_cke {s s' : St} {cid c} : removeSubscription s cid c = .ok s' → CkEq s s' := by
  cke_tac removeSubscription

@[grind →] theorem askIntrospection_cke {s s' : St} {ty e} : askIntrospection s ty e = .ok s' → CkEq s s' := by
  cke_tac askIntrospection

theorem replyPending_cke : ∀ (l : List IQuery) (s s' : St) (r m), replyPending s l r m = .ok s' → CkEq s s' := by
  intro l
  induction l with
  | nil => intro s s' r m h; simp [replyPending] at h; subst h; exact CkEq.refl _
  | cons a l ih =>
    intro s s' r m h
    simp only [replyPending] at h
    repeat' (split at h)
    · simp at h
    · exact ih _ _ _ _ h
    · exact CkEq.trans (CkEq.of_conns (by simp)) (ih _ _ _ _ h)

@[grind →] theorem replyPending_cke' {l : List IQuery} {s s' : St} {r m} (h : replyPending s l r m = .ok s') : CkEq s s' :=
  replyPending_cke _ _ _ _ _ h

theorem removeIntrospectionConn_go_cke : ∀ (l : List (Nat × Option Uuid × List IQuery)) (s s' : St),
    removeIntrospectionConn.go s l = .ok s' → CkEq s s' := by
  intro l
  induction l with
  | nil => intro s s' h; simp [removeIntrospectionConn.go] at h; subst h; exact CkEq.refl _
  | cons a l ih =>
    intro s s' h
    obtain ⟨serial, cont, pending⟩ := a
    simp only [removeIntrospectionConn.go] at h
    repeat' ((try simp only [] at h); split at h)
    all_goals (try (simp at h; done))
    · have h1 := replyPending_cke _ _ _ _ _ ‹_›
      have h2 := ih _ _ h
      exact CkEq.trans (CkEq.trans (by simp [CkEq]) h1) h2
    · have h2 := ih _ _ h
      exact CkEq.trans (by simp [CkEq]) h2
    · have h1 := askIntrospection_cke ‹_›
      have h2 := ih _ _ h
      exact CkEq.trans (CkEq.trans (by simp [CkEq]) h1) h2

@[grind →] theorem removeIntrospectionConn_cke {s s' : St} {cid} : removeIntrospectionConn s cid = .ok s' → CkEq s s' := by
  intro h
  unfold removeIntrospectionConn at h
  simp only [] at h
  have := removeIntrospectionConn_go_cke _ _ _ h
  simp_all [CkEq]

--HANDLERS
@[grind →] theorem createObject_cke {s s' : St} {id serial uuid} {ok : Bool} : createObject s id serial uuid = .ok (s', ok) → CkEq s s' := by
  cke_tac createObject

@[grind →] theorem destroyObject_cke {s s' : St} {id serial c} {ok : Bool} : destroyObject s id serial c = .ok (s', ok) → CkEq s s' := by
  cke_tac destroyObject

@[grind →] theorem createServiceImpl_cke {s s' : St} {id serial oc uuid info} {ok : Bool} : createServiceImpl s id serial oc uuid info = .ok (s', ok) → CkEq s s' := by
  cke_tac createServiceImpl

@[grind →] theorem createService_cke {s s' : St} {id serial oc uuid v} {ok : Bool} : createService s id serial oc uuid v = .ok (s', ok) → CkEq s s' := by
  cke_tac createService

@[grind →] theorem createService2_cke {s s' : St} {id serial oc uuid info} {ok : Bool} : createService2 s id serial oc uuid info = .ok (s', ok) → CkEq s s' := by
  cke_tac createService2

@[grind →] theorem destroyService_cke {s s' : St} {id serial c} {ok : Bool} : destroyService s id serial c = .ok (s', ok) → CkEq s s' := by
  cke_tac destroyService




@[grind →] theorem abortFunctionCall_cke {s s' : St} {id serial} {ok : Bool} : abortFunctionCall s id serial = .ok (s', ok) → CkEq s s' := by
  cke_tac abortFunctionCall

@[grind →] theorem subscribeEvent_cke {s s' : St} {id serial svc ev} {ok : Bool} : subscribeEvent s id serial svc ev = .ok (s', ok) → CkEq s s' := by
  cke_tac subscribeEvent

@[grind →] theorem unsubscribeEvent_cke {s s' : St} {id svc ev} {ok : Bool} : unsubscribeEvent s id svc ev = .ok (s', ok) → CkEq s s' := by
  cke_tac unsubscribeEvent

@[grind →] theorem emitEvent_cke {s s' : St} {id svc ev p} {ok : Bool} : emitEvent s id svc ev p = .ok (s', ok) → CkEq s s' := by
  intro h; unfold emitEvent at h
  repeat' ((try simp only [] at h); split at h)
  all_goals (try (simp only [okH, errH, Except.ok.injEq, Prod.mk.injEq, reduceCtorEq] at h))
  all_goals (try (obtain ⟨h1, h2⟩ := h; subst h1; subst h2))
  all_goals (try (exact CkEq.refl _))
  apply foldl_inv (fun s' => CkEq s s')
  · intro s1 a hp; split
    · exact CkEq.trans hp (CkEq.of_conns (by simp))
    · exact hp
  · exact CkEq.refl _

@[grind →] theorem queryServiceVersion_cke {s s' : St} {id serial svc} {ok : Bool} : queryServiceVersion s id serial svc = .ok (s', ok) → CkEq s s' := by
  cke_tac queryServiceVersion

@[grind →] theorem queryServiceInfo_cke {s s' : St} {id serial svc} {ok : Bool} : queryServiceInfo s id serial svc = .ok (s', ok) → CkEq s s' := by
  cke_tac queryServiceInfo

@[grind →] theorem subscribeService_cke {s s' : St} {id serial svc} {ok : Bool} : subscribeService s id serial svc = .ok (s', ok) → CkEq s s' := by
  cke_tac subscribeService

@[grind →] theorem unsubscribeService_cke {s s' : St} {id svc} {ok : Bool} : unsubscribeService s id svc = .ok (s', ok) → CkEq s s' := by
  cke_tac unsubscribeService

@[grind →] theorem subscribeAllEvents_cke {s s' : St} {id serial svc} {ok : Bool} : subscribeAllEvents s id serial svc = .ok (s', ok) → CkEq s s' := by
  cke_tac subscribeAllEvents

@[grind →] theorem unsubscribeAllEvents_cke {s s' : St} {id serial svc} {ok : Bool} : unsubscribeAllEvents s id serial svc = .ok (s', ok) → CkEq s s' := by
  cke_tac unsubscribeAllEvents

@[grind →] theorem createChannel_cke {s s' : St} {id serial e cap} {ok : Bool} : createChannel s id serial e cap = .ok (s', ok) → CkEq s s' := by
  cke_tac createChannel

@[grind →] theorem closeChannelEnd_cke {s s' : St} {id serial c e} {ok : Bool} : closeChannelEnd s id serial c e = .ok (s', ok) → CkEq s s' := by
  cke_tac closeChannelEnd

@[grind →] theorem claimChannelEnd_cke {s s' : St} {id serial c e cap} {ok : Bool} : claimChannelEnd s id serial c e cap = .ok (s', ok) → CkEq s s' := by
  cke_tac claimChannelEnd

@[grind →] theorem addChannelCapacity_cke {s s' : St} {id c cap} {ok : Bool} : addChannelCapacity s id c cap = .ok (s', ok) → CkEq s s' := by
  cke_tac addChannelCapacity

@[grind →] theorem sendItem_cke {s s' : St} {id c p} {ok : Bool} : sendItem s id c p = .ok (s', ok) → CkEq s s' := by
  cke_tac sendItem

@[grind →] theorem sync_cke {s s' : St} {id serial} {ok : Bool} : sync s id serial = .ok (s', ok) → CkEq s s' := by
  cke_tac sync

@[grind →] theorem createBusListener_cke {s s' : St} {id serial} {ok : Bool} : createBusListener s id serial = .ok (s', ok) → CkEq s s' := by
  cke_tac createBusListener

@[grind →] theorem destroyBusListener_cke {s s' : St} {id serial c} {ok : Bool} : destroyBusListener s id serial c = .ok (s', ok) → CkEq s s' := by
  cke_tac destroyBusListener

@[grind →] theorem updListener_cke {s s' : St} {id c f} {ok : Bool} : updListener s id c f = .ok (s', ok) → CkEq s s' := by
  cke_tac updListener


@[grind →] theorem startBusListener_cke {s s' : St} {id serial c sc} {ok : Bool} : startBusListener s id serial c sc = .ok (s', ok) → CkEq s s' := by
  intro h; unfold startBusListener at h
  repeat' ((try simp only [] at h); split at h)
  all_goals (try (simp only [okH, errH, Except.ok.injEq, Prod.mk.injEq, reduceCtorEq] at h))
  all_goals (try (exact h.elim))
  all_goals (try (have hfst := congrArg Prod.fst h; (try dsimp only at hfst); rw [← hfst]; clear hfst h))
  all_goals (try (obtain ⟨h1, h2⟩ := h; subst h1; subst h2))
  all_goals (exact CkEq.of_conns (by simp [sendAll_conns]))

@[grind →] theorem stopBusListener_cke {s s' : St} {id serial c} {ok : Bool} : stopBusListener s id serial c = .ok (s', ok) → CkEq s s' := by
  cke_tac stopBusListener

@[grind →] theorem registerIntrospection_cke {s s' : St} {id tys} {ok : Bool} : registerIntrospection s id tys = .ok (s', ok) → CkEq s s' := by
  intro h; unfold registerIntrospection at h
  repeat' ((try simp only [] at h); split at h)
  all_goals (try (simp only [okH, errH, Except.ok.injEq, Prod.mk.injEq, reduceCtorEq] at h))
  all_goals (try (obtain ⟨h1, h2⟩ := h; subst h1; subst h2))
  all_goals (try (exact CkEq.refl _))
  apply foldl_inv (fun s' => CkEq s s')
  · intro s1 a hp; exact CkEq.trans hp (CkEq.of_conns (by simp))
  · exact CkEq.refl _

@[grind →] theorem queryIntrospection_cke {s s' : St} {id serial ty} {ok : Bool} : queryIntrospection s id serial ty = .ok (s', ok) → CkEq s s' := by
  cke_tac queryIntrospection

@[grind →] theorem queryIntrospectionReply_cke {s s' : St} {id serial r} {ok : Bool} : queryIntrospectionReply s id serial r = .ok (s', ok) → CkEq s s' := by
  cke_tac queryIntrospectionReply


end Aldrin.Broker
