/-
The `expect("inconsistent state")` lookups of the broker cannot fail where the registry invariant, the callee-side
invariant of calls and the ownership invariant hold — except the four of the introspection code, whose invariant is
not proved. One lemma per function; the handlers that only look into the registry are closed by one tactic call.
-/
import Aldrin.Lemmas.Broker.Callee
import Aldrin.Lemmas.Broker.Own
import Aldrin.Lemmas.Broker.CallAsserts

set_option linter.unusedSimpArgs false
set_option linter.unusedVariables false
namespace Aldrin.Broker
open Generated

/-- the lookup sites of the introspection code -/
def introspectionSites : List String :=
  ["query introspection: conn", "introspection pending: conn", "remove_introspection_conn: serial", "query_replied: entry"]

theorem find_isSome_updConn (s : St) (o : ConnId) (f : Conn → Conn) (x : ConnId) :
    (AL.find? x (s.updConn o f).b.conns).isSome = (AL.find? x s.b.conns).isSome := conn?_isSome_updConn s o f x

theorem find_isNone_updConn (s : St) (o : ConnId) (f : Conn → Conn) (x : ConnId) :
    (AL.find? x (s.updConn o f).b.conns).isNone = (AL.find? x s.b.conns).isNone := by
  have := find_isSome_updConn s o f x
  cases h1 : AL.find? x (s.updConn o f).b.conns <;> cases h2 : AL.find? x s.b.conns <;> simp_all

syntax "lk_tac" ident : tactic
macro_rules
  | `(tactic| lk_tac $f) => `(tactic|
      (intro he; unfold $f at he
       repeat' ((try simp only [] at he); split at he)
       all_goals (try (simp [okH, errH] at he; done))
       all_goals (try (simp only [St.conn?, St.setSvcs_b_conns, St.send_b_conns, St.setCalls_b_conns, find_isSome_updConn, find_isNone_updConn] at *))
       all_goals (grind)))

section
variable {s : St} (h : RegistryConsistent s.b)
include h

theorem subscribeEvent_lk (id : ConnId) (serial : Option Nat) (svc : Cookie) (ev : Nat) (pn : Panic) :
    subscribeEvent s id serial svc ev ≠ .error pn := by
  obtain ⟨h1, h2, h3, h4, h5, h6, h7, h8⟩ := h
  lk_tac subscribeEvent

theorem unsubscribeEvent_lk (id : ConnId) (svc : Cookie) (ev : Nat) (pn : Panic) :
    unsubscribeEvent s id svc ev ≠ .error pn := by
  obtain ⟨h1, h2, h3, h4, h5, h6, h7, h8⟩ := h
  lk_tac unsubscribeEvent

theorem emitEvent_lk (id : ConnId) (svc : Cookie) (ev : Nat) (p : Payload) (pn : Panic) :
    emitEvent s id svc ev p ≠ .error pn := by
  obtain ⟨h1, h2, h3, h4, h5, h6, h7, h8⟩ := h
  lk_tac emitEvent

theorem subscribeService_lk (id : ConnId) (serial : Nat) (svc : Cookie) (pn : Panic) :
    subscribeService s id serial svc ≠ .error pn := by
  obtain ⟨h1, h2, h3, h4, h5, h6, h7, h8⟩ := h
  lk_tac subscribeService

theorem unsubscribeService_lk (id : ConnId) (svc : Cookie) (pn : Panic) :
    unsubscribeService s id svc ≠ .error pn := by
  obtain ⟨h1, h2, h3, h4, h5, h6, h7, h8⟩ := h
  lk_tac unsubscribeService

theorem subscribeAllEvents_lk (id : ConnId) (serial : Option Nat) (svc : Cookie) (pn : Panic) :
    subscribeAllEvents s id serial svc ≠ .error pn := by
  obtain ⟨h1, h2, h3, h4, h5, h6, h7, h8⟩ := h
  lk_tac subscribeAllEvents

theorem unsubscribeAllEvents_lk (id : ConnId) (serial : Option Nat) (svc : Cookie) (pn : Panic) :
    unsubscribeAllEvents s id serial svc ≠ .error pn := by
  obtain ⟨h1, h2, h3, h4, h5, h6, h7, h8⟩ := h
  lk_tac unsubscribeAllEvents

theorem createServiceImpl_lk (id : ConnId) (serial : Nat) (oc : Cookie) (uuid : Uuid) (info : Conn → Option SvcInfo) (pn : Panic) :
    createServiceImpl s id serial oc uuid info ≠ .error pn := by
  obtain ⟨h1, h2, h3, h4, h5, h6, h7, h8⟩ := h
  lk_tac createServiceImpl

theorem removeEventSubscription_lk (cid : ConnId) (svc : Cookie) (ev : Nat) (pn : Panic) :
    removeEventSubscription s cid svc ev ≠ .error pn := by
  obtain ⟨h1, h2, h3, h4, h5, h6, h7, h8⟩ := h
  lk_tac removeEventSubscription

theorem removeAllEventsSubscription_lk (cid : ConnId) (svc : Cookie) (pn : Panic) :
    removeAllEventsSubscription s cid svc ≠ .error pn := by
  obtain ⟨h1, h2, h3, h4, h5, h6, h7, h8⟩ := h
  lk_tac removeAllEventsSubscription

theorem removeSubscription_lk (cid : ConnId) (svc : Cookie) (pn : Panic) :
    removeSubscription s cid svc ≠ .error pn := by
  obtain ⟨h1, h2, h3, h4, h5, h6, h7, h8⟩ := h
  lk_tac removeSubscription

end

/-! ### `remove_service`, `remove_object`: they cannot fail at all -/

theorem calls_no_error' {k : Uuid × Uuid} {l : List Nat} {t : St} {e : Panic} (hc : Cal (some (k, l)) t)
    (he : removeService.calls t l = .error e) : False := by
  obtain ⟨s1, hs1⟩ := removeService_calls_no_panic l t hc
  rw [hs1] at he; cases he

theorem removeService_ok {pc ps} {s : St} (hcal : Cal none s) (hreg : Reg pc ps s) (c : Cookie) : ∃ s', removeService s c = .ok s' := by
  unfold removeService
  split
  · exact ⟨_, rfl⟩
  · rename_i objId svcUuid info hu
    have h5 := hreg.i5 c objId svcUuid info hu
    simp only [sk, skl] at h5
    split at h5
    · rename_i svc hsv
      simp only [St.setSvcUuids_b_svcs, hsv]
      have hmid : Cal (some ((objId.uuid, svcUuid), svc.calls)) ((match AL.find? objId.uuid ((s.setSvcUuids (AL.erase c s.b.svcUuids)).setSvcs
            (AL.erase (objId.uuid, svcUuid) s.b.svcs)).b.objs with
          | some o => ((s.setSvcUuids (AL.erase c s.b.svcUuids)).setSvcs (AL.erase (objId.uuid, svcUuid) s.b.svcs)).setObjs
                (AL.insert objId.uuid { o with svcs := sremove c o.svcs }
                  ((s.setSvcUuids (AL.erase c s.b.svcUuids)).setSvcs (AL.erase (objId.uuid, svcUuid) s.b.svcs)).b.objs)
          | none => (s.setSvcUuids (AL.erase c s.b.svcUuids)).setSvcs (AL.erase (objId.uuid, svcUuid) s.b.svcs))) := by
        refine Cal.of_views (CalleeP.drop_entry hcal (k := (objId.uuid, svcUuid)) (l := svc.calls) (scv_find hsv)) ?_ ?_
        · intro bs; split <;> simp [gk]
        · intro k
          have : ∀ t : St, t.b.svcs = AL.erase (objId.uuid, svcUuid) s.b.svcs → scv t k = upd (scv s) (objId.uuid, svcUuid) none k := by
            intro t ht
            simp only [scv, ht, scl_erase, upd_apply]
          split <;> exact this _ (by simp)
      split
      · rename_i e heq
        exfalso
        refine calls_no_error' (k := (objId.uuid, svcUuid)) ?_ heq
        exact Cal.of_eq hmid rfl rfl
      · exact ⟨_, rfl⟩
    · simp at h5

theorem removeObject_svcs_ok {pc} {oid : ObjId} : ∀ (l : List Cookie) (s : St), Cal none s → Reg pc (some (oid, l)) s →
    ∃ s', removeObject.svcs s l = .ok s' := by
  intro l
  induction l with
  | nil => intro s _ _; exact ⟨s, rfl⟩
  | cons a l ih =>
    intro s hc hr
    simp only [removeObject.svcs]
    obtain ⟨s1, h1⟩ := removeService_ok hc hr a
    simp only [h1]
    obtain ⟨r1, r2, _⟩ := removeService_reg hr h1
    exact ih _ (removeService_cal hc h1) (RegP.ps_next r1 r2)

theorem removeObject_ok {pc} {s : St} (hcal : Cal none s) (hreg : Reg pc none s) (c : Cookie) : ∃ s', removeObject s c = .ok s' := by
  unfold removeObject
  split
  · exact ⟨_, rfl⟩
  · rename_i u hu
    obtain ⟨obj, hob, _⟩ := hreg.i1 c u hu
    simp only [obv] at hob
    simp only [St.setObjUuids_b_objs, hob]
    have hmid : Reg pc (some (⟨u, c⟩, obj.svcs))
        ((((s.setObjUuids (AL.erase c s.b.objUuids)).setObjs (AL.erase u s.b.objs)).updConn
          obj.conn fun c_1 => { c_1 with objects := sremove c c_1.objects })) := by
      refine Reg.of_views (RegP.remove_object hreg (c := c) (u := u) (obj := obj) hu hob) ?_ ?_ ?_ ?_ ?_
      · intro x; simp [ouv, AL.find?_erase]
      · intro x; simp [obv, AL.find?_erase]
      · intro x; simp [suv]
      · intro k; simp
      · intro x
        rw [roDropObj_apply, ro_updConn']
        simp only [St.conn?, St.setObjs_b_conns, St.setObjUuids_b_conns, ro_setObjs, ro_setObjUuids]
        split
        · rename_i heq
          cases hf : AL.find? obj.conn s.b.conns <;> simp [ro, hf]
        · rfl
    obtain ⟨s1, h1⟩ := removeObject_svcs_ok (oid := ⟨u, c⟩) obj.svcs
      (((((s.setObjUuids (AL.erase c s.b.objUuids)).setObjs (AL.erase u s.b.objs)).updConn
          obj.conn fun c_1 => { c_1 with objects := sremove c c_1.objects })).setWDestroyObject
        (⟨u, c⟩ :: ((((s.setObjUuids (AL.erase c s.b.objUuids)).setObjs (AL.erase u s.b.objs)).updConn
          obj.conn fun c_1 => { c_1 with objects := sremove c c_1.objects })).w.destroyObject))
      (Cal.of_eq hcal (by simp) (by simp)) (Reg.of_same hmid (by reg_eq))
    simp only [h1]
    exact ⟨_, rfl⟩

/-! ### the handlers that need more than the registry -/

theorem destroyObject_lk {s : St} (hcal : Cal none s) (hreg : Reg none none s) (id : ConnId) (serial : Nat) (c : Cookie) (p : Panic) :
    destroyObject s id serial c ≠ .error p := by
  intro he
  unfold destroyObject at he
  split at he
  · simp [okH] at he
  · split at he
    · simp at he
    · rename_i u hu
      obtain ⟨obj, hob, _⟩ := hreg.i1 c u hu
      simp only [obv] at hob
      simp only [hob] at he
      split at he
      · simp at he
      · split at he
        · simp [errH] at he
        · obtain ⟨s1, h1⟩ := removeObject_ok (s := (s.send id (Rsp.destroyObjectReply serial DestroyObjRes.ok)).1)
            (Cal.of_eq hcal (by simp) (by simp)) (Reg.of_same hreg (by reg_eq)) c
          simp [h1, okH] at he

theorem destroyService_lk {s : St} (hcal : Cal none s) (hreg : Reg none none s) (id : ConnId) (serial : Nat) (c : Cookie) (p : Panic) :
    destroyService s id serial c ≠ .error p := by
  intro he
  unfold destroyService at he
  split at he
  · simp [okH] at he
  · split at he
    · simp at he
    · rename_i objId svu info hu
      rcases hreg.i7 c objId svu info hu with ⟨_, o, ho, _⟩ | ⟨l, hl, _⟩
      · simp only [obv] at ho
        simp only [ho] at he
        split at he
        · simp at he
        · split at he
          · simp [errH] at he
          · obtain ⟨s1, h1⟩ := removeService_ok (s := (s.send id (Rsp.destroyServiceReply serial DestroySvcRes.ok)).1)
              (Cal.of_eq hcal (by simp) (by simp)) (Reg.of_same hreg (by reg_eq)) c
            simp [h1, okH] at he
      · simp at hl

theorem close_error {c : Chan} {e : ChanEnd} {p : Panic} (h : c.close e = .error p) : ∀ site, p ≠ .inconsistent site := by
  unfold Chan.close at h
  cases e <;> simp only [] at h
  all_goals
    repeat' (split at h)
    all_goals (try (simp at h; done))
    all_goals (simp only [Except.error.injEq] at h; subst h; intro site hh; cases hh)

theorem removeChannelEnd_lk {s : St} {ck : Cookie} {e : ChanEnd} {owner : Option ConnId} {p : Panic}
    (h : removeChannelEnd s ck e owner = .error p) : ∀ site, p ≠ .inconsistent site := by
  rw [removeChannelEnd_eq] at h
  split at h
  · simp at h
  · split at h
    · rename_i hc; simp only [Except.error.injEq] at h; subst h; exact close_error hc
    · simp at h

syntax "nolk_tac" ident : tactic
macro_rules
  | `(tactic| nolk_tac $f) => `(tactic|
      (intro he; unfold $f at he
       repeat' ((try simp only [] at he); split at he)
       all_goals (try (simp [okH, errH] at he; done))
       all_goals (try (simp only [Except.error.injEq] at he; subst he))
       all_goals (first
         | (exact removeChannelEnd_lk ‹removeChannelEnd _ _ _ _ = _› _ rfl)
         | (simp_all; done))))

theorem createObject_lk (s : St) (id : ConnId) (serial : Nat) (uuid : Uuid) (pn : Panic) :
    createObject s id serial uuid ≠ .error pn := by
  nolk_tac createObject
theorem abortFunctionCall_lk (s : St) (id : ConnId) (serial : Nat) (pn : Panic) :
    abortFunctionCall s id serial ≠ .error pn := by
  nolk_tac abortFunctionCall
theorem queryServiceVersion_lk (s : St) (id : ConnId) (serial : Nat) (svc : Cookie) (pn : Panic) :
    queryServiceVersion s id serial svc ≠ .error pn := by
  nolk_tac queryServiceVersion
theorem queryServiceInfo_lk (s : St) (id : ConnId) (serial : Nat) (svc : Cookie) (pn : Panic) :
    queryServiceInfo s id serial svc ≠ .error pn := by
  nolk_tac queryServiceInfo
theorem sync_lk (s : St) (id : ConnId) (serial : Nat) (pn : Panic) : sync s id serial ≠ .error pn := by
  nolk_tac sync
theorem createChannel_lk (s : St) (id : ConnId) (serial : Nat) (e : ChanEnd) (cap : Nat) (pn : Panic) :
    createChannel s id serial e cap ≠ .error pn := by
  nolk_tac createChannel
theorem closeChannelEnd_lk (s : St) (id : ConnId) (serial : Nat) (ck : Cookie) (e : ChanEnd) (site : String) :
    closeChannelEnd s id serial ck e ≠ .error (.inconsistent site) := by
  nolk_tac closeChannelEnd
theorem createBusListener_lk (s : St) (id : ConnId) (serial : Nat) (pn : Panic) :
    createBusListener s id serial ≠ .error pn := by
  nolk_tac createBusListener
theorem destroyBusListener_lk (s : St) (id : ConnId) (serial : Nat) (ck : Cookie) (pn : Panic) :
    destroyBusListener s id serial ck ≠ .error pn := by
  nolk_tac destroyBusListener
theorem updListener_lk (s : St) (id : ConnId) (ck : Cookie) (f : Listener → Listener) (pn : Panic) :
    updListener s id ck f ≠ .error pn := by
  nolk_tac updListener
theorem stopBusListener_lk (s : St) (id : ConnId) (serial : Nat) (ck : Cookie) (pn : Panic) :
    stopBusListener s id serial ck ≠ .error pn := by
  nolk_tac stopBusListener

theorem addCapacity_error {c : Chan} {conn : ConnId} {cap : Nat} {p : Panic} (h : c.addCapacity conn cap = .error p) :
    ∀ site, p ≠ .inconsistent site := by
  unfold Chan.addCapacity at h
  repeat' ((try simp only [] at h); split at h)
  all_goals (try (simp at h; done))
  all_goals (simp only [Except.error.injEq] at h; subst h; intro site hh; cases hh)

theorem sendItem_error {c : Chan} {conn : ConnId} {p : Panic} (h : c.sendItem conn = .error p) : ∀ site, p ≠ .inconsistent site := by
  unfold Chan.sendItem at h
  repeat' ((try simp only [] at h); split at h)
  all_goals (try (simp at h; done))
  all_goals (simp only [Except.error.injEq] at h; subst h; intro site hh; cases hh)

theorem specificObjects_error {l : Listener} {p : Panic} (h : l.specificObjects = .error p) : ∀ site, p ≠ .inconsistent site := by
  unfold Listener.specificObjects at h
  repeat' (split at h)
  all_goals (try (simp at h; done))
  all_goals (simp only [Except.error.injEq] at h; subst h; intro site hh; cases hh)

theorem specificServices_error {l : Listener} {p : Panic} (h : l.specificServices? = .error p) : ∀ site, p ≠ .inconsistent site := by
  unfold Listener.specificServices? at h
  repeat' (split at h)
  all_goals (try (simp at h; done))
  all_goals (simp only [Except.error.injEq] at h; subst h; intro site hh; cases hh)

theorem addChannelCapacity_lk (s : St) (id : ConnId) (ck : Cookie) (cap : Nat) (site : String) :
    addChannelCapacity s id ck cap ≠ .error (.inconsistent site) := by
  intro he; unfold addChannelCapacity at he
  repeat' ((try simp only [] at he); split at he)
  all_goals (try (simp [okH, errH] at he; done))
  all_goals (simp only [Except.error.injEq] at he; subst he)
  all_goals (first
    | (exact removeChannelEnd_lk ‹removeChannelEnd _ _ _ _ = _› _ rfl)
    | (exact addCapacity_error ‹Chan.addCapacity _ _ _ = _› _ rfl))

theorem sendItem_lk (s : St) (id : ConnId) (ck : Cookie) (p : Payload) (site : String) :
    sendItem s id ck p ≠ .error (.inconsistent site) := by
  intro he; unfold sendItem at he
  repeat' ((try simp only [] at he); split at he)
  all_goals (try (simp [okH, errH] at he; done))
  all_goals (simp only [Except.error.injEq] at he; subst he)
  all_goals (first
    | (exact removeChannelEnd_lk ‹removeChannelEnd _ _ _ (some _) = _› _ rfl)
    | (exact removeChannelEnd_lk ‹removeChannelEnd _ _ _ none = _› _ rfl)
    | (exact sendItem_error ‹Chan.sendItem _ _ = _› _ rfl))

theorem startBusListener_lk (s : St) (id : ConnId) (serial : Nat) (ck : Cookie) (sc : Scope) (site : String) :
    startBusListener s id serial ck sc ≠ .error (.inconsistent site) := by
  intro he; unfold startBusListener at he
  repeat' ((try simp only [] at he); split at he)
  all_goals (try (simp [okH, errH] at he; done))
  all_goals (simp only [Except.error.injEq] at he; subst he)
  all_goals (first
    | (exact specificObjects_error ‹Listener.specificObjects _ = _› _ rfl)
    | (exact specificServices_error ‹Listener.specificServices? _ = _› _ rfl))

theorem isNone_isSome_absurd {α : Type} {o : Option α} (h1 : o.isNone = true) (h2 : o.isSome = true) : False := by
  cases o <;> simp_all

theorem claimSender_other {c c' : Chan} {conn other : ConnId} {cap : Nat} (h : c.claimSender conn = .ok (.ok (c', other, cap))) :
    endOwner c.receiver = some other := by
  unfold Chan.claimSender at h
  repeat' ((try simp only [] at h); split at h)
  all_goals (try (simp at h; done))
  all_goals (simp only [Except.ok.injEq, Prod.mk.injEq] at h; obtain ⟨_, rfl, _⟩ := h)
  all_goals (simp_all [endOwner])

theorem claimReceiver_other {c c' : Chan} {conn other : ConnId} {cap : Nat} (h : c.claimReceiver conn cap = .ok (.ok (c', other))) :
    endOwner c.sender = some other := by
  unfold Chan.claimReceiver at h
  repeat' ((try simp only [] at h); split at h)
  all_goals (try (simp at h; done))
  all_goals (simp only [Except.ok.injEq, Prod.mk.injEq] at h; obtain ⟨_, rfl⟩ := h)
  all_goals (simp_all [endOwner])

theorem claimSender_error {c : Chan} {conn : ConnId} {p : Panic} (h : c.claimSender conn = .error p) : ∀ site, p ≠ .inconsistent site := by
  unfold Chan.claimSender at h
  repeat' ((try simp only [] at h); split at h)
  all_goals (try (simp at h; done))
  all_goals (simp only [Except.error.injEq] at h; subst h; intro site hh; cases hh)

theorem claimReceiver_error {c : Chan} {conn : ConnId} {cap : Nat} {p : Panic} (h : c.claimReceiver conn cap = .error p) :
    ∀ site, p ≠ .inconsistent site := by
  unfold Chan.claimReceiver at h
  repeat' ((try simp only [] at h); split at h)
  all_goals (try (simp at h; done))
  all_goals (simp only [Except.error.injEq] at h; subst h; intro site hh; cases hh)


theorem callFunctionReply_lk {s : St} (hcal : Cal none s) (hreg : Reg none none s) (id : ConnId) (serial : Nat) (r : CallResult) (site : String) :
    callFunctionReply s id serial r ≠ .error (.inconsistent site) := by
  intro he
  unfold callFunctionReply at he
  split at he
  · simp [okH] at he
  · split at he
    · simp [okH] at he
    · rename_i call hcall
      obtain ⟨sv, info, o, owner, q1, _, _, q4, _, _⟩ := callee_of_call hcal hreg hcall
      simp only [q4] at he
      split at he
      · simp [okH] at he
      · simp only [St.setCalls_b_svcs, q1] at he
        repeat' (split at he)
        all_goals (simp [okH] at he)

theorem callFunctionImpl_lk {s : St} (hreg : Reg none none s) (id : ConnId) (serial : Nat) (svc : Cookie) (f : Nat)
    (v : Option Nat) (p : Payload) (pn : Panic) :
    callFunctionImpl s id serial svc f v p ≠ .error pn := by
  intro he
  unfold callFunctionImpl at he
  split at he
  · simp [okH] at he
  · rename_i conn hconn
    split at he
    · simp at he
    · rename_i objId svcUuid info hsvc
      rcases hreg.i7 svc objId svcUuid info hsvc with ⟨_, o, ho, _⟩ | ⟨l, hl, _⟩
      · simp only [obv] at ho
        simp only [ho] at he
        split at he
        · simp [errH] at he
        · rcases hreg.i3 _ o ho with ⟨lo, hlo, _⟩ | ⟨lo, hlo, _⟩
          · simp only [ro] at hlo
            split at hlo
            · rename_i owner hown
              have h5 := hreg.i5 svc objId svcUuid info hsvc
              simp only [sk, skl] at h5
              split at h5
              · rename_i sv hsv
                have e1 : ∀ t : St, t.b.conns = AL.insert id { conn with calls := conn.calls ++ [(serial, ((s.b.calls.insert (⟨serial, id, objId.uuid, svcUuid, false⟩ : Call)).2, o.conn))] } s.b.conns →
                    ∃ callee, t.conn? o.conn = some callee := by
                  intro t ht
                  simp only [St.conn?, ht, AL.find?_insert]
                  split
                  · exact ⟨_, rfl⟩
                  · exact ⟨owner, hown⟩
                obtain ⟨callee, hcallee⟩ := e1 ((s.setCalls (s.b.calls.insert (⟨serial, id, objId.uuid, svcUuid, false⟩ : Call)).1).setConn id
                  { conn with calls := conn.calls ++ [(serial, ((s.b.calls.insert (⟨serial, id, objId.uuid, svcUuid, false⟩ : Call)).2, o.conn))] }) (by simp)
                simp only [hcallee, St.setConn_b_svcs, St.setCalls_b_svcs, hsv] at he
                simp [okH] at he
              · simp at h5
            · simp at hlo
          · simp at hlo
      · simp at hl

theorem callFunction2_lk {s : St} (hreg : Reg none none s) (id : ConnId) (serial : Nat) (svc : Cookie) (f : Nat)
    (v : Option Nat) (p : Payload) (pn : Panic) :
    callFunction2 s id serial svc f v p ≠ .error pn := by
  intro he; unfold callFunction2 at he
  repeat' ((try simp only [] at he); split at he)
  all_goals (try (simp [okH, errH] at he; done))
  exact callFunctionImpl_lk hreg _ _ _ _ _ _ _ he

theorem createService2_lk {s : St} (h : RegistryConsistent s.b) (id : ConnId) (serial : Nat) (oc : Cookie) (uuid : Uuid) (info : Option SvcInfo) (pn : Panic) :
    createService2 s id serial oc uuid info ≠ .error pn := by
  intro he; unfold createService2 at he
  repeat' ((try simp only [] at he); split at he)
  all_goals (try (simp [okH, errH] at he; done))
  exact createServiceImpl_lk h _ _ _ _ _ _ he

theorem claimChannelEnd_lk {s : St} (hown : Own none s) (id : ConnId) (serial : Nat) (ck : Cookie) (e : ChanEnd) (cap : Nat) (site : String) :
    claimChannelEnd s id serial ck e cap ≠ .error (.inconsistent site) := by
  have there : ∀ (x : Hold) (o : ConnId), own s x = some o → (AL.find? o s.b.conns).isSome = true := by
    intro x o hx
    rcases hown.o1 x o hx with ⟨L, hl, _⟩ | ⟨L, hp, _⟩
    · simp only [co, cv] at hl
      split at hl
      · rename_i conn hconn; simp [hconn]
      · simp at hl
    · simp at hp
  intro he
  unfold claimChannelEnd at he
  split at he
  · simp [okH] at he
  · split at he
    · simp at he
    · rename_i ch hch
      obtain ⟨os, or⟩ := own_chan hch
      simp only [] at he
      cases e <;> simp only [] at he
      · cases hcl : ch.claimSender id with
        | error p => simp only [hcl, Except.error.injEq] at he; exact claimSender_error hcl site he
        | ok r =>
          cases r with
          | error r' => simp [hcl] at he
          | ok v =>
            obtain ⟨ch', other, c⟩ := v
            simp only [hcl] at he
            have hth := there (.rcv, ck) other (by rw [or]; exact claimSender_other hcl)
            split at he
            · rename_i hnone
              simp only [St.conn?, St.send_b_conns] at hnone
              have := conn?_isSome_updConn (s.setChannels (AL.insert ck ch' s.b.channels)) id
                (fun c => { c with senders := sinsert ck c.senders }) other
              simp only [St.conn?, St.setChannels_b_conns] at this
              rw [hth] at this
              exact isNone_isSome_absurd hnone this
            · simp at he
      · cases hcl : ch.claimReceiver id cap with
        | error p => simp only [hcl, Except.error.injEq] at he; exact claimReceiver_error hcl site he
        | ok r =>
          cases r with
          | error r' => simp [hcl] at he
          | ok v =>
            obtain ⟨ch', other⟩ := v
            simp only [hcl] at he
            have hth := there (.snd, ck) other (by rw [os]; exact claimReceiver_other hcl)
            split at he
            · rename_i hnone
              simp only [St.conn?, St.send_b_conns] at hnone
              have := conn?_isSome_updConn (s.setChannels (AL.insert ck ch' s.b.channels)) id
                (fun c => { c with receivers := sinsert ck c.receivers }) other
              simp only [St.conn?, St.setChannels_b_conns] at this
              rw [hth] at this
              exact isNone_isSome_absurd hnone this
            · simp at he

/-! ### the introspection handlers: what can fail there is one of the four introspection lookups -/

theorem askIntrospection_sites {s : St} {ty : Uuid} {entry : IEntry} {site : String}
    (h : askIntrospection s ty entry = .error (.inconsistent site)) : site ∈ introspectionSites := by
  unfold askIntrospection at h
  repeat' ((try simp only [] at h); split at h)
  all_goals (try (simp at h; done))
  all_goals (try (simp only [Except.error.injEq, Panic.inconsistent.injEq] at h; subst h; simp [introspectionSites]; done))
  all_goals (rename_i hq; unfold IEntry.queryRandomConn at hq; repeat' (split at hq))
  all_goals (try (simp at hq; done))
  all_goals (simp only [Except.error.injEq] at hq h; subst hq; cases h)

theorem replyPending_sites : ∀ (l : List IQuery) (s : St) (r : Option Payload) (m : Bool) (site : String),
    replyPending s l r m = .error (.inconsistent site) → site ∈ introspectionSites := by
  intro l
  induction l with
  | nil => intro s r m site h; simp [replyPending] at h
  | cons a l ih =>
    intro s r m site h
    simp only [replyPending] at h
    repeat' (split at h)
    · simp only [Except.error.injEq, Panic.inconsistent.injEq] at h; subst h; simp [introspectionSites]
    · exact ih _ _ _ _ h
    · exact ih _ _ _ _ h

theorem registerIntrospection_lk (s : St) (id : ConnId) (tys : Option (List Uuid)) (pn : Panic) :
    registerIntrospection s id tys ≠ .error pn := by
  nolk_tac registerIntrospection

theorem queryIntrospection_sites {s : St} {id : ConnId} {serial : Nat} {ty : Uuid} {site : String}
    (h : queryIntrospection s id serial ty = .error (.inconsistent site)) : site ∈ introspectionSites := by
  unfold queryIntrospection at h
  repeat' ((try simp only [] at h); split at h)
  all_goals (try (simp [okH, errH] at h; done))
  all_goals (simp only [Except.error.injEq] at h; subst h)
  all_goals (exact askIntrospection_sites ‹askIntrospection _ _ _ = _›)

theorem queryIntrospectionReply_sites {s : St} {id : ConnId} {serial : Nat} {r : Option Payload} {site : String}
    (h : queryIntrospectionReply s id serial r = .error (.inconsistent site)) : site ∈ introspectionSites := by
  unfold queryIntrospectionReply at h
  repeat' ((try simp only [] at h); split at h)
  all_goals (try (simp [okH, errH] at h; done))
  all_goals (try (simp only [Except.error.injEq, Panic.inconsistent.injEq] at h; subst h; simp [introspectionSites]; done))
  all_goals (simp only [Except.error.injEq] at h; subst h)
  all_goals (first
    | (exact askIntrospection_sites ‹askIntrospection _ _ _ = _›)
    | (exact replyPending_sites _ _ _ _ _ ‹replyPending _ _ _ _ = _›))

theorem removeIntrospectionConn_go_sites : ∀ (l : List (Nat × Option Uuid × List IQuery)) (s : St) (site : String),
    removeIntrospectionConn.go s l = .error (.inconsistent site) → site ∈ introspectionSites := by
  intro l
  induction l with
  | nil => intro s site h; simp [removeIntrospectionConn.go] at h
  | cons a l ih =>
    intro s site h
    obtain ⟨serial, cont, pending⟩ := a
    simp only [removeIntrospectionConn.go] at h
    repeat' ((try simp only [] at h); split at h)
    all_goals (try (simp at h; done))
    all_goals (try (simp only [Except.error.injEq, Panic.inconsistent.injEq] at h; subst h; simp [introspectionSites]; done))
    all_goals (try (exact ih _ _ h))
    all_goals (simp only [Except.error.injEq] at h; subst h)
    all_goals (first
      | (exact askIntrospection_sites ‹askIntrospection _ _ _ = _›)
      | (exact replyPending_sites _ _ _ _ _ ‹replyPending _ _ _ _ = _›))

theorem removeIntrospectionConn_sites {s : St} {cid : ConnId} {site : String}
    (h : removeIntrospectionConn s cid = .error (.inconsistent site)) : site ∈ introspectionSites := by
  unfold removeIntrospectionConn at h
  simp only [] at h
  exact removeIntrospectionConn_go_sites _ _ _ h

/-- the invariants under which the lookups are proved -/
structure LkInv (s : St) : Prop where
  reg : Reg none none s
  cal : Cal none s
  own : Own none s

theorem LkInv.rc {s : St} (h : LkInv s) : RegistryConsistent s.b := RegistryConsistent.of_reg (b := s.b) (w := s.w) (out := s.out) h.reg

/-- **every request**: a failed `expect("inconsistent state")` lookup can only be one of the introspection code -/
theorem handleMessage_sites {s : St} (h : LkInv s) {id : ConnId} {m : Req} {site : String}
    (he : handleMessage s id m = .error (.inconsistent site)) : site ∈ introspectionSites := by
  cases m <;> simp only [handleMessage] at he
  case createObject => exact absurd he (createObject_lk _ _ _ _ _)
  case destroyObject => exact absurd he (destroyObject_lk h.cal h.reg _ _ _ _)
  case createService => exact absurd he (createServiceImpl_lk h.rc _ _ _ _ _ _)
  case createService2 => exact absurd he (createService2_lk h.rc _ _ _ _ _ _)
  case destroyService => exact absurd he (destroyService_lk h.cal h.reg _ _ _ _)
  case callFunction => exact absurd he (callFunctionImpl_lk h.reg _ _ _ _ _ _ _)
  case callFunction2 => exact absurd he (callFunction2_lk h.reg _ _ _ _ _ _ _)
  case callFunctionReply => exact absurd he (callFunctionReply_lk h.cal h.reg _ _ _ _)
  case abortFunctionCall => exact absurd he (abortFunctionCall_lk _ _ _ _)
  case subscribeEvent => exact absurd he (subscribeEvent_lk h.rc _ _ _ _ _)
  case unsubscribeEvent => exact absurd he (unsubscribeEvent_lk h.rc _ _ _ _)
  case emitEvent => exact absurd he (emitEvent_lk h.rc _ _ _ _ _)
  case queryServiceVersion => exact absurd he (queryServiceVersion_lk _ _ _ _ _)
  case queryServiceInfo => exact absurd he (queryServiceInfo_lk _ _ _ _ _)
  case subscribeService => exact absurd he (subscribeService_lk h.rc _ _ _ _)
  case unsubscribeService => exact absurd he (unsubscribeService_lk h.rc _ _ _)
  case subscribeAllEvents => exact absurd he (subscribeAllEvents_lk h.rc _ _ _ _)
  case unsubscribeAllEvents => exact absurd he (unsubscribeAllEvents_lk h.rc _ _ _ _)
  case createChannel => exact absurd he (createChannel_lk _ _ _ _ _ _)
  case closeChannelEnd => exact absurd he (closeChannelEnd_lk _ _ _ _ _ _)
  case claimChannelEnd => exact absurd he (claimChannelEnd_lk h.own _ _ _ _ _ _)
  case sendItem => exact absurd he (sendItem_lk _ _ _ _ _)
  case addChannelCapacity => exact absurd he (addChannelCapacity_lk _ _ _ _ _)
  case sync => exact absurd he (sync_lk _ _ _ _)
  case createBusListener => exact absurd he (createBusListener_lk _ _ _ _)
  case destroyBusListener => exact absurd he (destroyBusListener_lk _ _ _ _ _)
  case addFilter f => exact absurd he (updListener_lk _ _ _ _ _)
  case removeFilter f => exact absurd he (updListener_lk _ _ _ _ _)
  case clearFilters => exact absurd he (updListener_lk _ _ _ _ _)
  case startBusListener => exact absurd he (startBusListener_lk _ _ _ _ _ _)
  case stopBusListener => exact absurd he (stopBusListener_lk _ _ _ _ _)
  case registerIntrospection => exact absurd he (registerIntrospection_lk _ _ _ _)
  case queryIntrospection => exact queryIntrospection_sites he
  case queryIntrospectionReply => exact queryIntrospectionReply_sites he
  case other => simp [errH] at he

/-! ### the removal of a connection, the work loop, one turn -/

theorem foldE_error {α : Type} {P : St → Prop} {f : St → α → Except Panic St} (hf : ∀ s a s', P s → f s a = .ok s' → P s') :
    ∀ (l : List α) (s : St) (p : Panic), P s → foldE f s l = .error p → ∃ s1 a, P s1 ∧ f s1 a = .error p := by
  intro l
  induction l with
  | nil => intro s p _ h; simp [foldE] at h
  | cons a l ih =>
    intro s p hp h
    simp only [foldE] at h
    split at h
    · rename_i e he
      simp only [Except.error.injEq] at h; subst h
      exact ⟨s, a, hp, he⟩
    · rename_i s1 h1
      exact ih _ _ (hf _ _ _ hp h1) h

theorem removeObjects_ok {id : ConnId} : ∀ (l : List Cookie) (s : St), Cal none s → Reg (some (id, l)) none s →
    ∃ s', foldE removeObject s l = .ok s' ∧ Cal none s' ∧ Reg none none s' := by
  intro l
  induction l with
  | nil => intro s hc hr; exact ⟨s, rfl, hc, RegP.pc_done hr⟩
  | cons a l ih =>
    intro s hc hr
    obtain ⟨s1, h1⟩ := removeObject_ok hc hr a
    simp only [foldE, h1]
    obtain ⟨r1, r2⟩ := removeObject_reg hr h1
    exact ih _ (removeObject_cal hc h1) (RegP.pc_next r1 r2)

theorem shutdownConnection_sites {s : St} (h : LkInv s) {id : ConnId} {b : Bool} {site : String}
    (he : shutdownConnection s id b = .error (.inconsistent site)) : site ∈ introspectionSites := by
  unfold shutdownConnection at he
  split at he
  · simp at he
  · rename_i conn hconn
    simp only [] at he
    have hconn' : AL.find? id s.b.conns = some conn := by simpa using hconn
    -- the state after the connection is taken out and its listeners are removed
    have i0 : Reg (some (id, conn.objects)) none (List.foldl removeBusListener ((if b = true then
            if conn.alive = true then (s.stat fun st => { st with messagesSent := st.messagesSent + 1 }).setOut
                ((s.stat fun st => { st with messagesSent := st.messagesSent + 1 }).out ++ [{ to := id, msg := Rsp.shutdown, ver := none }])
            else s.stat fun st => { st with messagesSent := st.messagesSent + 1 }
          else s).setConns (AL.erase id (if b = true then
            if conn.alive = true then (s.stat fun st => { st with messagesSent := st.messagesSent + 1 }).setOut
                ((s.stat fun st => { st with messagesSent := st.messagesSent + 1 }).out ++ [{ to := id, msg := Rsp.shutdown, ver := none }])
            else s.stat fun st => { st with messagesSent := st.messagesSent + 1 }
          else s).b.conns)) conn.busListeners) ∧
        Cal none (List.foldl removeBusListener ((if b = true then
            if conn.alive = true then (s.stat fun st => { st with messagesSent := st.messagesSent + 1 }).setOut
                ((s.stat fun st => { st with messagesSent := st.messagesSent + 1 }).out ++ [{ to := id, msg := Rsp.shutdown, ver := none }])
            else s.stat fun st => { st with messagesSent := st.messagesSent + 1 }
          else s).setConns (AL.erase id (if b = true then
            if conn.alive = true then (s.stat fun st => { st with messagesSent := st.messagesSent + 1 }).setOut
                ((s.stat fun st => { st with messagesSent := st.messagesSent + 1 }).out ++ [{ to := id, msg := Rsp.shutdown, ver := none }])
            else s.stat fun st => { st with messagesSent := st.messagesSent + 1 }
          else s).b.conns)) conn.busListeners) := by
      apply foldl_inv (fun t => Reg (some (id, conn.objects)) none t ∧ Cal none t) _
        (fun s a hp => ⟨Reg.of_same hp.1 (removeBusListener_reg _ _), hp.2.of_frame (GkEq.of_calls (by unfold removeBusListener; split <;> simp)) (removeBusListener_cal _ _)⟩)
      constructor
      · refine Reg.of_views (RegP.remove_conn h.reg (id := id) (l := conn.objects) (ro_find hconn')) ?_ ?_ ?_ ?_ ?_
        · intro x; split <;> (try split) <;> rfl
        · intro x; split <;> (try split) <;> rfl
        · intro x; split <;> (try split) <;> rfl
        · intro x; split <;> (try split) <;> rfl
        · intro x
          have : ∀ t : St, t.b.conns = s.b.conns → ro (t.setConns (AL.erase id t.b.conns)) x = upd (ro s) id none x := by
            intro t ht
            simp only [ro, St.setConns_b_conns, ht, AL.find?_erase, upd_apply]
            by_cases hx : id = x <;> simp [hx]
          split <;> (try split) <;> exact this _ (by simp)
      · refine Cal.of_eq h.cal ?_ ?_ <;> (split <;> (try split) <;> rfl)
    obtain ⟨s1, h1, c1, r1⟩ := removeObjects_ok _ _ i0.2 i0.1
    simp only [h1] at he
    have rc1 : RegistryConsistent s1.b := RegistryConsistent.of_reg (b := s1.b) (w := s1.w) (out := s1.out) r1
    have frameRC : ∀ {t t' : St}, RegistryConsistent t.b → SameReg t t' → RegistryConsistent t'.b := by
      intro t t' ht hs
      have : Reg none none t := by
        obtain ⟨a1, a2, a3, a4, a5, a6, a7, a8⟩ := ht
        refine ⟨a1, a2, ?_, ?_, ?_, ?_, ?_, a8⟩
        · intro u o ho
          obtain ⟨conn', hc', hm'⟩ := a3 u o ho
          exact Or.inl ⟨conn'.objects, ro_find hc', hm'⟩
        · intro id' l c hl hm
          simp only [ro] at hl
          split at hl
          · rename_i conn' hc'; simp at hl; subst hl; exact a4 id' conn' c hc' hm
          · simp at hl
        · intro sc oid svu info hs'
          obtain ⟨sv, hsv, e1, e2⟩ := a5 sc oid svu info hs'
          rw [sk_find hsv, e1, e2]
        · intro obu svu sc oc hk
          simp only [sk, skl] at hk
          split at hk
          · rename_i sv hsv; simp at hk; obtain ⟨rfl, rfl⟩ := hk; exact a6 obu svu sv hsv
          · simp at hk
        · intro sc oid svu info hs'
          exact Or.inl (a7 sc oid svu info hs')
      exact RegistryConsistent.of_reg (b := t'.b) (w := t'.w) (out := t'.out) (Reg.of_same this hs)
    split at he
    · rename_i e2 h2
      simp only [Except.error.injEq] at he; subst he
      obtain ⟨t, a, ht, hf⟩ := foldE_error (P := fun t => RegistryConsistent t.b) (fun s a s' hp hr => frameRC hp (removeEventSubscription_reg hr)) _ _ _ rc1 h2
      exact absurd hf (removeEventSubscription_lk ht _ _ _ _)
    · rename_i s2 h2
      have rc2 := foldE_inv (fun t => RegistryConsistent t.b) _ (fun s a s' hp hr => frameRC hp (removeEventSubscription_reg hr)) _ _ _ rc1 h2
      split at he
      · rename_i e3 h3
        simp only [Except.error.injEq] at he; subst he
        obtain ⟨t, a, ht, hf⟩ := foldE_error (P := fun t => RegistryConsistent t.b) (fun s a s' hp hr => frameRC hp (removeAllEventsSubscription_reg hr)) _ _ _ rc2 h3
        exact absurd hf (removeAllEventsSubscription_lk ht _ _ _)
      · rename_i s3 h3
        have rc3 := foldE_inv (fun t => RegistryConsistent t.b) _ (fun s a s' hp hr => frameRC hp (removeAllEventsSubscription_reg hr)) _ _ _ rc2 h3
        split at he
        · rename_i e4 h4
          simp only [Except.error.injEq] at he; subst he
          obtain ⟨t, a, ht, hf⟩ := foldE_error (P := fun t => RegistryConsistent t.b) (fun s a s' hp hr => frameRC hp (removeSubscription_reg hr)) _ _ _ rc3 h4
          exact absurd hf (removeSubscription_lk ht _ _ _)
        · split at he
          · rename_i e5 h5
            simp only [Except.error.injEq] at he; subst he
            obtain ⟨t, a, _, hf⟩ := foldE_error (P := fun _ => True) (fun _ _ _ _ _ => trivial) _ _ _ trivial h5
            exact absurd rfl (removeChannelEnd_lk hf site)
          · split at he
            · rename_i e6 h6
              simp only [Except.error.injEq] at he; subst he
              obtain ⟨t, a, _, hf⟩ := foldE_error (P := fun _ => True) (fun _ _ _ _ _ => trivial) _ _ _ trivial h6
              exact absurd rfl (removeChannelEnd_lk hf site)
            · exact removeIntrospectionConn_sites he

theorem processOne_lkinv {s s' : St} (h : LkInv s) (hr : processOne s = some (.ok s')) : LkInv s' :=
  ⟨processOne_reg h.reg hr, processOne_cal h.cal hr, processOne_own h.own hr⟩

/-- one item of deferred work -/
theorem processOne_sites {s : St} (h : LkInv s) {site : String} (he : processOne s = some (.error (.inconsistent site))) :
    site ∈ introspectionSites := by
  unfold processOne at he
  repeat' (split at he)
  all_goals (try (simp only [Option.some.injEq, reduceCtorEq] at he))
  all_goals (try (exact he.elim))
  all_goals first
    | (refine shutdownConnection_sites (s := s.setWRemoveConns _) ⟨Reg.of_same h.reg ?_, Cal.of_eq h.cal ?_ ?_, Own.of_eq h.own ?_ ?_ ?_⟩ he <;>
        first | reg_eq | (simp; done))
    | (exfalso; revert he; unfold abortCall; intro he
       repeat' ((try simp only [] at he); split at he)
       all_goals (simp at he))
    | (exfalso; repeat' (split at he)
       all_goals (simp at he))

/-- the work loop -/
theorem processLoop_sites : ∀ (fuel : Nat) (s : St) (site : String), LkInv s → processLoop fuel s = .error (.inconsistent site) →
    site ∈ introspectionSites := by
  intro fuel
  induction fuel with
  | zero => intro s site _ he; simp [processLoop] at he
  | succ n ih =>
    intro s site h he
    simp only [processLoop] at he
    split at he
    · simp at he
    · rename_i p hp
      simp only [Except.error.injEq] at he; subst he
      exact processOne_sites h hp
    · rename_i s1 h1
      exact ih _ _ (processOne_lkinv h h1) he

/-- the invariants of `Lookups` in every reachable state -/
theorem Reachable.own {b : Broker} {w : Work} (h : Reachable b w) : G2 ⟨b, w, []⟩ ∧ Own none ⟨b, w, []⟩ := by
  induction h with
  | init => exact ⟨G2_init, Own.init⟩
  | step _ _ hs ih => exact ⟨step_G2 ih.1 hs, step_own ih.1 ih.2 hs⟩

theorem Reachable.lkinv {b : Broker} {w : Work} (h : Reachable b w) : LkInv ⟨b, w, []⟩ := ⟨h.reg.2, h.cal, h.own.2⟩

/-- **One turn of `Broker::run`, from any reachable state with room in the call table, for any event**: if it stops at an
`expect("inconsistent state")`, that is one of the four lookups of the introspection code. -/
theorem step_sites {b : Broker} {w : Work} (h : Reachable b w) (hroom : b.calls.elems.length ≤ u32Max) {e : Event} {site : String}
    (he : step b w e = .error (.inconsistent site)) : site ∈ introspectionSites := by
  have hi := h.lkinv
  unfold step at he
  split at he
  · rename_i p hp
    simp only [Except.error.injEq] at he; subst he
    -- the event handler
    cases e <;> simp only [handleEvent] at hp
    case msg id m =>
      split at hp
      · rename_i p' hp'
        simp only [Except.error.injEq] at hp; subst hp
        exact handleMessage_sites hi hp'
      · simp at hp
    case newConn id v => split at hp <;> simp at hp
    all_goals (simp at hp)
  · rename_i s1 h1
    split at he
    · rename_i p hp
      simp only [Except.error.injEq] at he; subst he
      have inv1 : LkInv s1 :=
        ⟨handleEvent_reg h.reg.1 h.reg.2 h1, handleEvent_cal h.cal h.idle.x.d hroom h1, handleEvent_own h.own.1 h.own.2 h1⟩
      exact processLoop_sites _ _ _ inv1 hp
    · simp at he

/-! ### the channel, listener and reply handlers do not panic in any way -/

theorem okAnd_ne_error {α : Type} {x : Except Panic α} {P : α → Prop} (h : okAnd x P) (p : Panic) : x ≠ .error p := by
  obtain ⟨a, ha, _⟩ := okAnd_iff.mp h
  rw [ha]; simp

/-- closing an end that is not closed, of a stored channel -/
theorem removeChannelEnd_np {s : St} (hch : ChInv s) {ck : Cookie} {e : ChanEnd} {owner : Option ConnId}
    (hne : ∀ ch, AL.find? ck s.b.channels = some ch → ch.endState e ≠ .closed) (p : Panic) :
    removeChannelEnd s ck e owner ≠ .error p := by
  intro he
  rw [removeChannelEnd_eq] at he
  split at he
  · simp at he
  · rename_i ch hf
    split at he
    · rename_i p' hc
      exact okAnd_ne_error (close_ok (AllV_find hch hf) (hne ch hf)) p' hc
    · simp at he

theorem checkClose_not_closed {c : Chan} {conn : ConnId} {e : ChanEnd} (h : (c.checkClose conn e).1 = .ok) : c.endState e ≠ .closed := by
  unfold Chan.checkClose at h
  intro hc
  rw [hc] at h; simp at h

theorem closeChannelEnd_np {s : St} (hch : ChInv s) (id : ConnId) (serial : Nat) (ck : Cookie) (e : ChanEnd) (p : Panic) :
    closeChannelEnd s id serial ck e ≠ .error p := by
  intro he; unfold closeChannelEnd at he
  split at he
  · simp [okH] at he
  · split at he
    · simp at he
    · rename_i ch hf
      simp only [] at he
      split at he
      · simp [errH] at he
      · split at he
        · rename_i hres
          split at he
          · rename_i p' hrm
            refine removeChannelEnd_np (s := (s.send id (Rsp.closeChannelEndReply serial (ch.checkClose id e).1)).1) (ChInv_of_eq hch (by simp)) ?_ _ hrm
            intro ch' hf'
            simp only [St.send_b_channels, hf, Option.some.injEq] at hf'
            subst hf'
            exact checkClose_not_closed hres
          · simp [okH] at he
        · simp [okH] at he

theorem claimChannelEnd_err {s : St} {id : ConnId} {serial : Nat} {ck : Cookie} {e : ChanEnd} {cap : Nat} {p : Panic}
    (he : claimChannelEnd s id serial ck e cap = .error p) :
    (∃ site, p = .inconsistent site) ∨ (∃ ch, AL.find? ck s.b.channels = some ch ∧ (ch.claimSender id = .error p ∨ ch.claimReceiver id cap = .error p)) := by
  unfold claimChannelEnd at he
  split at he
  · simp [okH] at he
  · split at he
    · simp at he
    · rename_i ch hf
      simp only [] at he
      cases e <;> simp only [] at he
      · cases hcl : ch.claimSender id with
        | error p' => simp only [hcl, Except.error.injEq] at he; subst he; exact Or.inr ⟨ch, hf, Or.inl hcl⟩
        | ok r =>
          cases r with
          | error r' => simp [hcl] at he
          | ok v =>
            obtain ⟨ch', other, c⟩ := v
            simp only [hcl] at he
            split at he
            · simp only [Except.error.injEq] at he; exact Or.inl ⟨_, he.symm⟩
            · cases he
      · cases hcl : ch.claimReceiver id cap with
        | error p' => simp only [hcl, Except.error.injEq] at he; subst he; exact Or.inr ⟨ch, hf, Or.inr hcl⟩
        | ok r =>
          cases r with
          | error r' => simp [hcl] at he
          | ok v =>
            obtain ⟨ch', other⟩ := v
            simp only [hcl] at he
            split at he
            · simp only [Except.error.injEq] at he; exact Or.inl ⟨_, he.symm⟩
            · cases he

theorem claimChannelEnd_np {s : St} (hch : ChInv s) (hown : Own none s) (id : ConnId) (serial : Nat) (ck : Cookie) (e : ChanEnd) (cap : Nat) (p : Panic) :
    claimChannelEnd s id serial ck e cap ≠ .error p := by
  intro he
  rcases claimChannelEnd_err he with ⟨site, rfl⟩ | ⟨ch, hf, h1 | h1⟩
  · exact claimChannelEnd_lk hown id serial ck e cap site he
  · exact okAnd_ne_error (claimSender_ok (AllV_find hch hf)) p h1
  · exact okAnd_ne_error (claimReceiver_ok (AllV_find hch hf)) p h1

theorem addChannelCapacity_np {s : St} (hch : ChInv s) (id : ConnId) (ck : Cookie) (cap : Nat) (p : Panic) :
    addChannelCapacity s id ck cap ≠ .error p := by
  intro he; unfold addChannelCapacity at he
  split at he
  · simp [okH] at he
  · rename_i ch hf
    have hok : ch.OK := AllV_find hch hf
    cases hac : ch.addCapacity id cap with
    | error p' => exact okAnd_ne_error (addCapacity_ok hok) p' hac
    | ok r =>
      cases r with
      | none =>
        simp only [hac] at he
        split at he
        · rename_i p' hrm
          refine removeChannelEnd_np hch ?_ _ hrm
          intro ch' hf'
          rw [hf] at hf'; simp at hf'; subst hf'
          have := addCapacity_none hac
          intro hc; simp only [Chan.endState] at hc; rw [hc] at this; simp [endOwner] at this
        · simp [okH] at he
      | some v =>
        simp only [hac] at he
        repeat' ((try simp only [] at he); split at he)
        all_goals (simp [okH] at he)

theorem startBusListener_np {s : St} (hl : LInv s) (id : ConnId) (serial : Nat) (ck : Cookie) (sc : Scope) (p : Panic) :
    startBusListener s id serial ck sc ≠ .error p := by
  intro he; unfold startBusListener at he
  split at he
  · simp [okH] at he
  · split at he
    · simp at he
    · rename_i l hfl
      have hok : l.OK := AllV_find (P := Listener.OK) hl hfl
      have hok' : ({ l with scope := some sc } : Listener).OK := Listener.setScope_ok (some sc) hok
      have e1 := Listener.specificObjects_ok hok'
      have e2 := Listener.specificServices?_ok hok'
      repeat' ((try simp only [] at he); split at he)
      all_goals (try (simp [okH, errH] at he; done))
      all_goals (simp_all)

theorem callFunctionReply_np {s : St} {sv} (hx : XrefP sv s) (hcal : Cal none s) (hreg : Reg none none s) (id : ConnId) (serial : Nat)
    (r : CallResult) (p : Panic) : callFunctionReply s id serial r ≠ .error p := by
  intro he
  have h1 := callFunctionReply_lk hcal hreg id serial r
  have h2 := reply_remove_call_assert_holds hx id serial r
  unfold callFunctionReply at he h1 h2
  repeat' ((try simp only [] at he h1 h2); split at he)
  all_goals (try (simp [okH, errH] at he; done))
  all_goals (simp only [Except.error.injEq] at he; subst he)
  all_goals (first | (exact h1 _ rfl) | (exact h2 rfl) | (simp_all; done))

theorem sendItem_claimed {c : Chan} {conn : ConnId} {x} (h : c.sendItem conn = .ok x) (hx : x ≠ .error .invalidSender) :
    ∃ cap, c.sender = .claimed conn cap := by
  unfold Chan.sendItem at h
  repeat' ((try simp only [] at h); split at h)
  all_goals (try (simp at h; done))
  all_goals (simp only [Except.ok.injEq] at h; subst h)
  all_goals (simp_all)

theorem sendItem_runclaimed {c : Chan} {conn : ConnId} (h : c.sendItem conn = .ok (.error .receiverUnclaimed)) : c.receiver = .unclaimed := by
  unfold Chan.sendItem at h
  repeat' ((try simp only [] at h); split at h)
  all_goals (try (simp at h; done))
  all_goals (simp_all)

theorem sendItem_np {s : St} (hch : ChInv s) (id : ConnId) (ck : Cookie) (pl : Payload) (p : Panic) :
    sendItem s id ck pl ≠ .error p := by
  intro he; unfold sendItem at he
  split at he
  · simp [okH] at he
  · split at he
    · simp [okH] at he
    · rename_i ch hf
      have hok : ch.OK := AllV_find hch hf
      cases hsi : ch.sendItem id with
      | error p' => exact okAnd_ne_error (sendItem_ok hok) p' hsi
      | ok r =>
        cases r with
        | error er =>
          simp only [hsi] at he
          cases er with
          | invalidSender => simp [okH] at he
          | receiverClosed => simp [okH] at he
          | receiverUnclaimed =>
            simp only [] at he
            obtain ⟨cap, hsender⟩ := sendItem_claimed hsi (by simp)
            have hrcv := sendItem_runclaimed hsi
            split at he
            · rename_i p' hrm
              refine removeChannelEnd_np hch ?_ _ hrm
              intro ch' hf'; rw [hf] at hf'; simp at hf'; subst hf'
              simp [Chan.endState, hrcv]
            · rename_i s1 h1
              split at he
              · rename_i p' hrm
                refine removeChannelEnd_np (removeChannelEnd_ChInv hch h1) ?_ _ hrm
                intro ch1 hf1
                -- the channel after the receiver end was closed
                rw [removeChannelEnd_eq] at h1
                simp only [hf] at h1
                cases hc : ch.close .receiver with
                | error pe => simp [hc] at h1
                | ok rr =>
                  obtain ⟨ch', other⟩ := rr
                  simp only [hc, Except.ok.injEq] at h1
                  subst h1
                  obtain ⟨_, _, hcases⟩ := rceFinish_shape (rceConn s ck .receiver none) ck .receiver ch' other
                  rw [rceConn_channels] at hcases
                  have hcl := close_owner hc
                  simp only [] at hcl
                  rcases hcases with ⟨hchan, _⟩ | ⟨hchan, _⟩
                  · rw [hchan] at hf1; simp at hf1; subst hf1
                    simp [Chan.endState, hcl.2.1, hsender]
                  · rw [hchan] at hf1; simp [AL.find?_erase] at hf1
              · simp [okH] at he
          | capacityExhausted =>
            simp only [] at he
            obtain ⟨cap, hsender⟩ := sendItem_claimed hsi (by simp)
            split at he
            · rename_i p' hrm
              refine removeChannelEnd_np hch ?_ _ hrm
              intro ch' hf'; rw [hf] at hf'; simp at hf'; subst hf'
              simp [Chan.endState, hsender]
            · simp [okH] at he
        | ok v =>
          simp only [hsi] at he
          repeat' ((try simp only [] at he); split at he)
          all_goals (simp [okH] at he)

/-- what else the no-panic statements need: the channel and listener invariants of C05 / C10 -/
theorem Reachable.clinv {b : Broker} {w : Work} (h : Reachable b w) : CLInv ⟨b, w, []⟩ := by
  induction h with
  | init => exact CLInv_init
  | step _ _ hs ih => exact step_CLInv ih hs

/-- **No request other than the three about introspection makes the broker panic in any way** — no failed lookup, no
`unreachable!()`, no `debug_assert!` — in any reachable state. -/
theorem handleMessage_np {b : Broker} {w : Work} (h : Reachable b w) (id : ConnId) (m : Req) (p : Panic)
    (hm : ∀ tys, m ≠ .registerIntrospection tys) (hq : ∀ serial ty, m ≠ .queryIntrospection serial ty)
    (hr : ∀ serial r, m ≠ .queryIntrospectionReply serial r) :
    handleMessage ⟨b, w, []⟩ id m ≠ .error p := by
  intro he
  have hi := h.lkinv
  have hcl := h.clinv
  cases m <;> simp only [handleMessage] at he
  case createObject => exact absurd he (createObject_lk _ _ _ _ _)
  case destroyObject => exact absurd he (destroyObject_lk hi.cal hi.reg _ _ _ _)
  case createService => exact absurd he (createServiceImpl_lk hi.rc _ _ _ _ _ _)
  case createService2 => exact absurd he (createService2_lk hi.rc _ _ _ _ _ _)
  case destroyService => exact absurd he (destroyService_lk hi.cal hi.reg _ _ _ _)
  case callFunction => exact absurd he (callFunctionImpl_lk hi.reg _ _ _ _ _ _ _)
  case callFunction2 => exact absurd he (callFunction2_lk hi.reg _ _ _ _ _ _ _)
  case callFunctionReply => exact absurd he (callFunctionReply_np h.idle.x hi.cal hi.reg _ _ _ _)
  case abortFunctionCall => exact absurd he (abortFunctionCall_lk _ _ _ _)
  case subscribeEvent => exact absurd he (subscribeEvent_lk hi.rc _ _ _ _ _)
  case unsubscribeEvent => exact absurd he (unsubscribeEvent_lk hi.rc _ _ _ _)
  case emitEvent => exact absurd he (emitEvent_lk hi.rc _ _ _ _ _)
  case queryServiceVersion => exact absurd he (queryServiceVersion_lk _ _ _ _ _)
  case queryServiceInfo => exact absurd he (queryServiceInfo_lk _ _ _ _ _)
  case subscribeService => exact absurd he (subscribeService_lk hi.rc _ _ _ _)
  case unsubscribeService => exact absurd he (unsubscribeService_lk hi.rc _ _ _)
  case subscribeAllEvents => exact absurd he (subscribeAllEvents_lk hi.rc _ _ _ _)
  case unsubscribeAllEvents => exact absurd he (unsubscribeAllEvents_lk hi.rc _ _ _ _)
  case createChannel => exact absurd he (createChannel_lk _ _ _ _ _ _)
  case closeChannelEnd => exact absurd he (closeChannelEnd_np hcl.1 _ _ _ _ _)
  case claimChannelEnd => exact absurd he (claimChannelEnd_np hcl.1 hi.own _ _ _ _ _ _)
  case sendItem => exact absurd he (sendItem_np hcl.1 _ _ _ _)
  case addChannelCapacity => exact absurd he (addChannelCapacity_np hcl.1 _ _ _ _)
  case sync => exact absurd he (sync_lk _ _ _ _)
  case createBusListener => exact absurd he (createBusListener_lk _ _ _ _)
  case destroyBusListener => exact absurd he (destroyBusListener_lk _ _ _ _ _)
  case addFilter f => exact absurd he (updListener_lk _ _ _ _ _)
  case removeFilter f => exact absurd he (updListener_lk _ _ _ _ _)
  case clearFilters => exact absurd he (updListener_lk _ _ _ _ _)
  case startBusListener => exact absurd he (startBusListener_np hcl.2 _ _ _ _ _)
  case stopBusListener => exact absurd he (stopBusListener_lk _ _ _ _ _)
  case registerIntrospection tys => exact absurd rfl (hm tys)
  case queryIntrospection serial ty => exact absurd rfl (hq serial ty)
  case queryIntrospectionReply serial r => exact absurd rfl (hr serial r)
  case other => simp [errH] at he

end Aldrin.Broker
