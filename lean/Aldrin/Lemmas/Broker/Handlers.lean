/-
Handler-level statements (decision logic of single handlers, for every state).
-/
import Aldrin.Lemmas.Broker.Inv

namespace Aldrin.Broker
open Generated

/-- outputs of a `send` to a connection that exists and whose task is alive -/
theorem send_alive {s : St} {to : ConnId} {c : Conn} {m : Rsp} {v : Option Nat}
    (hc : AL.find? to s.b.conns = some c) (ha : c.alive = true) :
    (s.send to m v).1.out = s.out ++ [⟨to, m, v⟩] ∧ (s.send to m v).2 = true := by
  unfold St.send
  simp [hc, ha]

theorem send_dead {s : St} {to : ConnId} {m : Rsp} {v : Option Nat}
    (hc : ∀ c, AL.find? to s.b.conns = some c → c.alive = false) :
    (s.send to m v).1.out = s.out ∧ (s.send to m v).2 = false := by
  unfold St.send
  simp only [St.conn?_def, St.stat_b_conns]
  cases h : AL.find? to s.b.conns with
  | none => simp
  | some c => simp [hc c h]

theorem send_out (s : St) (to : ConnId) (m : Rsp) (v : Option Nat) :
    ((s.send to m v).1.out = s.out ∧ (s.send to m v).2 = false) ∨
    ((s.send to m v).1.out = s.out ++ [⟨to, m, v⟩] ∧ (s.send to m v).2 = true) := by
  unfold St.send
  simp only [St.conn?_def, St.stat_b_conns]
  cases AL.find? to s.b.conns with
  | none => simp
  | some c => cases h : c.alive <;> simp [h]

theorem sendOrRemove_out {s : St} {to : ConnId} {m : Rsp} {v : Option Nat} :
    (s.sendOrRemove to m v).out = s.out ∨ (s.sendOrRemove to m v).out = s.out ++ [⟨to, m, v⟩] := by
  unfold St.sendOrRemove
  rcases send_out s to m v with ⟨h1, h2⟩ | ⟨h1, h2⟩
  · left; simp [h2, h1]
  · right; simp [h2, h1]

/-- C05: an item sent within the announced credit on an established channel is forwarded exactly
once, unchanged, to the receiver (appended to the outputs in send order), possibly followed by a
credit replenishment for the sender; nothing else is emitted. -/
theorem sendItem_delivers {s : St} {id r : ConnId} {cookie : Cookie} {p : Payload} {sender rconn : Conn} {sc rc : Nat}
    (hs : AL.find? id s.b.conns = some sender) (hr : AL.find? r s.b.conns = some rconn)
    (hsa : sender.alive = true) (hra : rconn.alive = true)
    (hch : AL.find? cookie s.b.channels = some ⟨.claimed id sc, .claimed r rc⟩)
    (hok : ChInv s) (hpos : 0 < sc) :
    ∃ s' credit, sendItem s id cookie p = .ok (s', true) ∧
      s'.out = s.out ++ [⟨r, .itemReceived cookie p, some sender.version⟩] ++ credit ∧
      (credit = [] ∨ ∃ n, credit = [⟨id, .addChannelCapacity cookie n, none⟩]) := by
  have hc := AllV_find hok hch
  obtain ⟨c', add, hsend⟩ := sendItem_within_credit (s := id) (r := r) hc rfl rfl hpos
  unfold sendItem
  simp only [St.conn?_def, hs, hch, hsend]
  have hr' : AL.find? r (s.setChannels (AL.insert cookie c' s.b.channels)).b.conns = some rconn := by simpa using hr
  simp only [St.setChannels_b_conns, hr, Option.isNone_some, Bool.false_eq_true, ↓reduceIte]
  have h1 := send_alive (s := s.setChannels (AL.insert cookie c' s.b.channels)) (m := Rsp.itemReceived cookie p)
    (v := some sender.version) hr' hra
  unfold St.sendOrRemove
  simp only [h1.2, ↓reduceIte]
  cases add with
  | none =>
    refine ⟨_, [], rfl, ?_, Or.inl rfl⟩
    simp [h1.1]
  | some n =>
    have hs' : AL.find? id ((s.setChannels (AL.insert cookie c' s.b.channels)).send r (Rsp.itemReceived cookie p) (some sender.version)).1.b.conns = some sender := by
      simpa using hs
    have h2 := send_alive (m := Rsp.addChannelCapacity cookie n) (v := none) hs' hsa
    refine ⟨(((s.setChannels (AL.insert cookie c' s.b.channels)).send r (Rsp.itemReceived cookie p)
        (some sender.version)).1.send id (Rsp.addChannelCapacity cookie n)).1,
      [⟨id, .addChannelCapacity cookie n, none⟩], ?_, ?_, Or.inr ⟨n, rfl⟩⟩
    · simp only []
      rw [← h2.2]
    · simp [h2.1, h1.1]

/-! ### bus events -/

/-- the connections that get a copy of a new bus event: those owning a started, matching listener; each once -/
def busTargets (s : St) (e : BusEv) : List ConnId :=
  s.b.listeners.foldl (fun acc (p : Cookie × Listener) =>
    if p.2.matchesNewEvent e then sinsert p.2.conn acc else acc) ([] : List ConnId)

theorem busTargets_nodup_aux (e : BusEv) : ∀ (ls : List (Cookie × Listener)) (acc : List ConnId), acc.Nodup →
    (ls.foldl (fun acc (p : Cookie × Listener) => if p.2.matchesNewEvent e then sinsert p.2.conn acc else acc) acc).Nodup := by
  intro ls
  induction ls with
  | nil => intro acc h; exact h
  | cons p ls ih =>
    intro acc h
    simp only [List.foldl_cons]
    apply ih
    split
    · exact nodup_sinsert _ _ h
    · exact h

theorem busTargets_nodup (s : St) (e : BusEv) : (busTargets s e).Nodup :=
  busTargets_nodup_aux e _ _ List.nodup_nil

theorem busTargets_mem_aux (e : BusEv) (c : ConnId) : ∀ (ls : List (Cookie × Listener)) (acc : List ConnId),
    c ∈ ls.foldl (fun acc (p : Cookie × Listener) => if p.2.matchesNewEvent e then sinsert p.2.conn acc else acc) acc ↔
      c ∈ acc ∨ ∃ p ∈ ls, p.2.conn = c ∧ p.2.matchesNewEvent e = true := by
  intro ls
  induction ls with
  | nil => intro acc; simp
  | cons p ls ih =>
    intro acc
    simp only [List.foldl_cons]
    rw [ih]
    by_cases hm : p.2.matchesNewEvent e = true
    · simp only [hm, ↓reduceIte, mem_sinsert, List.mem_cons, exists_eq_or_imp]
      constructor
      · rintro (h | h)
        · rcases h with h | h
          · exact Or.inr (Or.inl ⟨h.symm, trivial⟩)
          · exact Or.inl h
        · exact Or.inr (Or.inr h)
      · rintro (h | h | h)
        · exact Or.inl (Or.inr h)
        · exact Or.inl (Or.inl h.1.symm)
        · exact Or.inr h
    · simp only [hm, Bool.false_eq_true, ↓reduceIte, List.mem_cons, exists_eq_or_imp, and_false, false_or]

/-- a connection is a target iff it owns a listener that is started with a scope including new
entities and has a filter matching the event -/
theorem busTargets_mem (s : St) (e : BusEv) (c : ConnId) :
    c ∈ busTargets s e ↔ ∃ p ∈ s.b.listeners, p.2.conn = c ∧ p.2.matchesNewEvent e = true := by
  unfold busTargets
  rw [busTargets_mem_aux]
  simp

/-- what a fold of sends appends: one message per listed connection that exists and is alive, in list order -/
theorem emitTargets_out (e : BusEv) : ∀ (ts : List ConnId) (s : St),
    (ts.foldl (fun s cid => if (s.conn? cid).isSome then s.sendOrRemove cid (.emitBusEvent none e) else s) s).out =
      s.out ++ ts.filterMap (fun cid => match AL.find? cid s.b.conns with
        | some c => if c.alive then some ⟨cid, .emitBusEvent none e, none⟩ else none
        | none => none) ∧
    (ts.foldl (fun s cid => if (s.conn? cid).isSome then s.sendOrRemove cid (.emitBusEvent none e) else s) s).b.conns = s.b.conns := by
  intro ts
  induction ts with
  | nil => intro s; simp
  | cons t ts ih =>
    intro s
    simp only [List.foldl_cons, List.filterMap_cons]
    obtain ⟨ih1, ih2⟩ := ih (if (s.conn? t).isSome then s.sendOrRemove t (.emitBusEvent none e) else s)
    rw [ih1, ih2]
    cases hc : AL.find? t s.b.conns with
    | none => simp [hc]
    | some c =>
      simp only [St.conn?_def, hc, Option.isSome_some, ↓reduceIte, St.sendOrRemove_b_conns]
      unfold St.sendOrRemove St.send
      simp only [St.conn?_def, St.stat_b_conns, hc]
      cases ha : c.alive <;> simp [St.pushRemoveConn]

/-- C10: a creation or destruction is reported at most once per connection (not once per listener),
exactly to the connections owning a started matching listener (that are still alive) -/
theorem emitBusEvent_out (s : St) (e : BusEv) :
    (emitBusEvent s e).out = s.out ++ (busTargets s e).filterMap (fun cid => match AL.find? cid s.b.conns with
        | some c => if c.alive then some ⟨cid, .emitBusEvent none e, none⟩ else none
        | none => none) := by
  unfold emitBusEvent
  exact (emitTargets_out e _ s).1

end Aldrin.Broker
