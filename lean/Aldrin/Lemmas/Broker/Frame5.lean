/-
Frame lemmas for the registry maps (connections, objects, services) and their gauges.
-/
import Aldrin.Lemmas.Broker.Gauge

namespace Aldrin.Broker
open Generated

/-- same keys in the same order (values may differ) -/
def KS {K V : Type} (m m' : List (K × V)) : Prop := m'.map Prod.fst = m.map Prod.fst

theorem KS.refl {K V : Type} (m : List (K × V)) : KS m m := rfl
theorem KS.trans {K V : Type} {a b c : List (K × V)} (h1 : KS a b) (h2 : KS b c) : KS a c := by
  unfold KS at *; rw [h2, h1]

theorem KS_insert_of_find {K V : Type} [DecidableEq K] {m : List (K × V)} {k : K} {v v' : V}
    (h : AL.find? k m = some v') : KS m (AL.insert k v m) := AL.keys_insert_of_some h

theorem KS_find_none {K V : Type} [DecidableEq K] {m m' : List (K × V)} (h : KS m m') (k : K) :
    AL.find? k m' = none ↔ AL.find? k m = none := by
  rw [AL.find?_none_iff, AL.find?_none_iff, h]

theorem KS_find_isSome {K V : Type} [DecidableEq K] {m m' : List (K × V)} (h : KS m m') (k : K) :
    (AL.find? k m').isSome = (AL.find? k m).isSome := by
  have := KS_find_none h k
  cases h1 : AL.find? k m' <;> cases h2 : AL.find? k m <;> simp_all

theorem KS_length {K V : Type} {m m' : List (K × V)} (h : KS m m') : m'.length = m.length := by
  have := congrArg List.length h; simpa using this

theorem KS_nodup {K V : Type} [DecidableEq K] {m m' : List (K × V)} (h : KS m m') (hn : AL.NodupKeys m) : AL.NodupKeys m' := by
  unfold AL.NodupKeys at *; rw [h]; exact hn

theorem updConn_conns_KS (s : St) (id : ConnId) (f : Conn → Conn) : KS s.b.conns (s.updConn id f).b.conns := by
  unfold St.updConn
  split
  · rename_i c hc
    simp only [St.setConn_b_conns]
    exact KS_insert_of_find (by simpa using hc)
  · exact KS.refl _

/-- the registry part of the state is untouched except for values under existing keys -/
def Same5 (s s' : St) : Prop :=
  s'.b.objUuids = s.b.objUuids ∧ s'.b.svcUuids = s.b.svcUuids ∧
  s'.b.objs.map Prod.fst = s.b.objs.map Prod.fst ∧ s'.b.svcs.map Prod.fst = s.b.svcs.map Prod.fst ∧
  s'.b.conns.map Prod.fst = s.b.conns.map Prod.fst ∧
  s'.b.stats.numConnections = s.b.stats.numConnections ∧ s'.b.stats.numObjects = s.b.stats.numObjects ∧
  s'.b.stats.numServices = s.b.stats.numServices ∧ s.b.nextCookie ≤ s'.b.nextCookie

theorem Same5.refl (s : St) : Same5 s s := ⟨rfl, rfl, rfl, rfl, rfl, rfl, rfl, rfl, Nat.le_refl _⟩

theorem Same5.trans {a b c : St} (h1 : Same5 a b) (h2 : Same5 b c) : Same5 a c := by
  unfold Same5 at *
  obtain ⟨a1, a2, a3, a4, a5, a6, a7, a8, a9⟩ := h1
  obtain ⟨b1, b2, b3, b4, b5, b6, b7, b8, b9⟩ := h2
  exact ⟨b1.trans a1, b2.trans a2, b3.trans a3, b4.trans a4, b5.trans a5, b6.trans a6, b7.trans a7, b8.trans a8, Nat.le_trans a9 b9⟩

@[simp, grind =] theorem updConn_conns_keys (s : St) (id : ConnId) (f : Conn → Conn) :
    (s.updConn id f).b.conns.map Prod.fst = s.b.conns.map Prod.fst := updConn_conns_KS s id f

theorem keys_insert_some {K V : Type} [DecidableEq K] {m : List (K × V)} {k : K} {v : V}
    (h : (AL.find? k m).isSome = true) : (AL.insert k v m).map Prod.fst = m.map Prod.fst := by
  cases hf : AL.find? k m with
  | none => simp [hf] at h
  | some v' => exact AL.keys_insert_of_some hf

syntax "f5_tac" ident : tactic
macro_rules
  | `(tactic| f5_tac $f) => `(tactic|
      (intro h; unfold $f at h
       repeat' ((try simp only [] at h); split at h)
       all_goals (try (simp at h; done))
       all_goals (grind [Same5, okH, errH, keys_insert_some])))

theorem send_same5 (s : St) (to : ConnId) (m : Rsp) (v : Option Nat) : Same5 s (s.send to m v).1 := by simp [Same5]
theorem sendOrRemove_same5 (s : St) (to : ConnId) (m : Rsp) (v : Option Nat) : Same5 s (s.sendOrRemove to m v) := by simp [Same5]

@[simp, grind =] theorem removeBusListener_same5_objUuids (s : St) (c : Cookie) : (removeBusListener s c).b.objUuids = s.b.objUuids := by
  unfold removeBusListener; split <;> simp

@[grind] theorem removeBusListener_same5 (s : St) (c : Cookie) : Same5 s (removeBusListener s c) := by
  unfold removeBusListener; split <;> simp [Same5]

@[grind →] theorem removeEventSubscription_same5 {s s' : St} {cid c ev} : removeEventSubscription s cid c ev = .ok s' → Same5 s s' := by
  f5_tac removeEventSubscription
@[grind →] theorem removeAllEventsSubscription_same5 {s s' : St} {cid c} : removeAllEventsSubscription s cid c = .ok s' → Same5 s s' := by
  f5_tac removeAllEventsSubscription
@[grind →] theorem removeSubscription_same5 {s s' : St} {cid c} : removeSubscription s cid c = .ok s' → Same5 s s' := by
  f5_tac removeSubscription
@[grind →] theorem removeChannelEnd_same5 {s s' : St} {c e o} : removeChannelEnd s c e o = .ok s' → Same5 s s' := by
  f5_tac removeChannelEnd
@[grind →] theorem askIntrospection_same5 {s s' : St} {ty e} : askIntrospection s ty e = .ok s' → Same5 s s' := by
  f5_tac askIntrospection
@[grind →] theorem abortCall_same5 {s s' : St} {serial cid} : abortCall s serial cid = .ok s' → Same5 s s' := by
  f5_tac abortCall

theorem replyPending_same5 : ∀ (l : List IQuery) (s s' : St) (r m), replyPending s l r m = .ok s' → Same5 s s' := by
  intro l
  induction l with
  | nil => intro s s' r m h; simp [replyPending] at h; subst h; exact Same5.refl _
  | cons a l ih =>
    intro s s' r m h
    simp only [replyPending] at h
    repeat' (split at h)
    · simp at h
    · exact ih _ _ _ _ h
    · exact Same5.trans (by simp [Same5]) (ih _ _ _ _ h)

@[grind →] theorem replyPending_same5' {l : List IQuery} {s s' : St} {r m} (h : replyPending s l r m = .ok s') : Same5 s s' :=
  replyPending_same5 _ _ _ _ _ h

theorem removeIntrospectionConn_go_same5 : ∀ (l : List (Nat × Option Uuid × List IQuery)) (s s' : St),
    removeIntrospectionConn.go s l = .ok s' → Same5 s s' := by
  intro l
  induction l with
  | nil => intro s s' h; simp [removeIntrospectionConn.go] at h; subst h; exact Same5.refl _
  | cons a l ih =>
    intro s s' h
    obtain ⟨serial, cont, pending⟩ := a
    simp only [removeIntrospectionConn.go] at h
    repeat' ((try simp only [] at h); split at h)
    all_goals (try (simp at h; done))
    · have h1 := replyPending_same5 _ _ _ _ _ ‹_›
      have h2 := ih _ _ h
      exact Same5.trans (Same5.trans (by simp [Same5]) h1) h2
    · have h2 := ih _ _ h
      exact Same5.trans (by simp [Same5]) h2
    · have h1 := askIntrospection_same5 ‹_›
      have h2 := ih _ _ h
      exact Same5.trans (Same5.trans (by simp [Same5]) h1) h2

@[grind →] theorem removeIntrospectionConn_same5 {s s' : St} {cid} : removeIntrospectionConn s cid = .ok s' → Same5 s s' := by
  intro h
  unfold removeIntrospectionConn at h
  simp only [] at h
  exact Same5.trans (by simp [Same5]) (removeIntrospectionConn_go_same5 _ _ _ h)

@[grind →] theorem callFunctionImpl_same5 {s s' : St} {id serial svc f v p} {ok : Bool} : callFunctionImpl s id serial svc f v p = .ok (s', ok) → Same5 s s' := by
  f5_tac callFunctionImpl
@[grind →] theorem callFunction2_same5 {s s' : St} {id serial svc f v p} {ok : Bool} : callFunction2 s id serial svc f v p = .ok (s', ok) → Same5 s s' := by
  f5_tac callFunction2
@[grind →] theorem callFunctionReply_same5 {s s' : St} {id serial r} {ok : Bool} : callFunctionReply s id serial r = .ok (s', ok) → Same5 s s' := by
  f5_tac callFunctionReply
@[grind →] theorem abortFunctionCall_same5 {s s' : St} {id serial} {ok : Bool} : abortFunctionCall s id serial = .ok (s', ok) → Same5 s s' := by
  f5_tac abortFunctionCall
@[grind →] theorem subscribeEvent_same5 {s s' : St} {id serial svc ev} {ok : Bool} : subscribeEvent s id serial svc ev = .ok (s', ok) → Same5 s s' := by
  f5_tac subscribeEvent
@[grind →] theorem unsubscribeEvent_same5 {s s' : St} {id svc ev} {ok : Bool} : unsubscribeEvent s id svc ev = .ok (s', ok) → Same5 s s' := by
  f5_tac unsubscribeEvent
@[grind →] theorem queryServiceVersion_same5 {s s' : St} {id serial svc} {ok : Bool} : queryServiceVersion s id serial svc = .ok (s', ok) → Same5 s s' := by
  f5_tac queryServiceVersion
@[grind →] theorem queryServiceInfo_same5 {s s' : St} {id serial svc} {ok : Bool} : queryServiceInfo s id serial svc = .ok (s', ok) → Same5 s s' := by
  f5_tac queryServiceInfo
@[grind →] theorem subscribeService_same5 {s s' : St} {id serial svc} {ok : Bool} : subscribeService s id serial svc = .ok (s', ok) → Same5 s s' := by
  f5_tac subscribeService
@[grind →] theorem unsubscribeService_same5 {s s' : St} {id svc} {ok : Bool} : unsubscribeService s id svc = .ok (s', ok) → Same5 s s' := by
  f5_tac unsubscribeService
@[grind →] theorem subscribeAllEvents_same5 {s s' : St} {id serial svc} {ok : Bool} : subscribeAllEvents s id serial svc = .ok (s', ok) → Same5 s s' := by
  f5_tac subscribeAllEvents
@[grind →] theorem unsubscribeAllEvents_same5 {s s' : St} {id serial svc} {ok : Bool} : unsubscribeAllEvents s id serial svc = .ok (s', ok) → Same5 s s' := by
  f5_tac unsubscribeAllEvents
@[grind →] theorem createChannel_same5 {s s' : St} {id serial e cap} {ok : Bool} : createChannel s id serial e cap = .ok (s', ok) → Same5 s s' := by
  f5_tac createChannel
@[grind →] theorem closeChannelEnd_same5 {s s' : St} {id serial c e} {ok : Bool} : closeChannelEnd s id serial c e = .ok (s', ok) → Same5 s s' := by
  f5_tac closeChannelEnd
@[grind →] theorem claimChannelEnd_same5 {s s' : St} {id serial c e cap} {ok : Bool} : claimChannelEnd s id serial c e cap = .ok (s', ok) → Same5 s s' := by
  f5_tac claimChannelEnd
@[grind →] theorem addChannelCapacity_same5 {s s' : St} {id c cap} {ok : Bool} : addChannelCapacity s id c cap = .ok (s', ok) → Same5 s s' := by
  f5_tac addChannelCapacity
@[grind →] theorem sendItem_same5 {s s' : St} {id c p} {ok : Bool} : sendItem s id c p = .ok (s', ok) → Same5 s s' := by
  f5_tac sendItem
@[grind →] theorem sync_same5 {s s' : St} {id serial} {ok : Bool} : sync s id serial = .ok (s', ok) → Same5 s s' := by
  f5_tac sync
@[grind →] theorem createBusListener_same5 {s s' : St} {id serial} {ok : Bool} : createBusListener s id serial = .ok (s', ok) → Same5 s s' := by
  f5_tac createBusListener
@[grind →] theorem destroyBusListener_same5 {s s' : St} {id serial c} {ok : Bool} : destroyBusListener s id serial c = .ok (s', ok) → Same5 s s' := by
  intro hr
  unfold destroyBusListener at hr
  repeat' ((try simp only [] at hr); split at hr)
  all_goals (simp only [okH, errH, Except.ok.injEq, Prod.mk.injEq] at hr)
  all_goals first
    | (obtain ⟨rfl, _⟩ := hr; exact Same5.refl _)
    | (obtain ⟨rfl, _⟩ := hr; exact Same5.trans (send_same5 _ _ _ _) (removeBusListener_same5 _ _))
    | (obtain ⟨rfl, _⟩ := hr; exact send_same5 _ _ _ _)
    | (have hr' := congrArg Prod.fst hr; simp only at hr'; subst hr'; exact send_same5 _ _ _ _)
@[grind →] theorem updListener_same5 {s s' : St} {id c f} {ok : Bool} : updListener s id c f = .ok (s', ok) → Same5 s s' := by
  f5_tac updListener
@[grind →] theorem stopBusListener_same5 {s s' : St} {id serial c} {ok : Bool} : stopBusListener s id serial c = .ok (s', ok) → Same5 s s' := by
  f5_tac stopBusListener
@[grind →] theorem queryIntrospection_same5 {s s' : St} {id serial ty} {ok : Bool} : queryIntrospection s id serial ty = .ok (s', ok) → Same5 s s' := by
  f5_tac queryIntrospection

theorem sendAll_same5 : ∀ (l : List Rsp) (s : St) (id : ConnId), Same5 s (sendAll s id l).1 := by
  intro l
  induction l with
  | nil => intro s id; exact Same5.refl _
  | cons a l ih =>
    intro s id
    simp only [sendAll]
    split
    · exact Same5.trans (send_same5 s id a none) (ih _ _)
    · exact send_same5 s id a none

@[grind →] theorem startBusListener_same5 {s s' : St} {id serial c sc} {ok : Bool} : startBusListener s id serial c sc = .ok (s', ok) → Same5 s s' := by
  intro h; unfold startBusListener at h
  repeat' ((try simp only [] at h); split at h)
  all_goals (try (simp at h; done))
  all_goals (try (grind [Same5, okH, errH]; done))
  all_goals
    simp only [Except.ok.injEq] at h
    have h' := congrArg Prod.fst h
    simp only at h'
    subst h'
    exact Same5.trans (Same5.trans (by simp [Same5]) (send_same5 _ _ _ _)) (sendAll_same5 _ _ _)

@[grind →] theorem queryIntrospectionReply_same5 {s s' : St} {id serial r} {ok : Bool} : queryIntrospectionReply s id serial r = .ok (s', ok) → Same5 s s' := by
  intro h; unfold queryIntrospectionReply at h
  repeat' ((try simp only [] at h); split at h)
  all_goals (try (grind [Same5, okH, errH]; done))
  all_goals
    have hrp := replyPending_same5' ‹_›
    simp only [okH, Except.ok.injEq, Prod.mk.injEq] at h
    obtain ⟨h1, h2⟩ := h
    subst h1
    exact Same5.trans (by simp [Same5]) hrp

@[grind →] theorem emitEvent_same5 {s s' : St} {id svc ev p} {ok : Bool} : emitEvent s id svc ev p = .ok (s', ok) → Same5 s s' := by
  intro h; unfold emitEvent at h
  repeat' ((try simp only [] at h); split at h)
  all_goals (try (grind [Same5, okH, errH]; done))
  simp only [okH, Except.ok.injEq, Prod.mk.injEq] at h
  obtain ⟨h1, _⟩ := h
  subst h1
  apply foldl_inv (fun s' => Same5 s s')
  · intro s1 a hp; split
    · exact Same5.trans hp (sendOrRemove_same5 _ _ _ _)
    · exact hp
  · exact Same5.refl _

@[grind →] theorem registerIntrospection_same5 {s s' : St} {id tys} {ok : Bool} : registerIntrospection s id tys = .ok (s', ok) → Same5 s s' := by
  intro h; unfold registerIntrospection at h
  repeat' ((try simp only [] at h); split at h)
  all_goals (try (grind [Same5, okH, errH]; done))
  simp only [okH, Except.ok.injEq, Prod.mk.injEq] at h
  obtain ⟨h1, _⟩ := h
  subst h1
  apply foldl_inv (fun s' => Same5 s s')
  · intro s1 a hp; exact Same5.trans hp (by simp [Same5])
  · exact Same5.refl _

theorem emitBusEvent_same5 (s : St) (e : BusEv) : Same5 s (emitBusEvent s e) := by
  unfold emitBusEvent
  simp only []
  apply foldl_inv (fun s' => Same5 s s')
  · intro s1 a hp; split
    · exact Same5.trans hp (sendOrRemove_same5 _ _ _ _)
    · exact hp
  · exact Same5.refl _

end Aldrin.Broker
