/-
One whole turn of `Broker::run` panics only inside the introspection code (or on a connection id that is already
there, or by running out of the model's budget): the last piece is the teardown of a connection, which closes every
channel end the connection lists — each is still claimed by it when its turn comes, because a connection lists an
end once (`Nodup.lean`) and closing one end leaves the other end of the channel as it was.
-/
import Aldrin.Lemmas.Broker.Lookups
import Aldrin.Lemmas.Broker.Nodup

set_option linter.unusedSimpArgs false
set_option linter.unusedVariables false
namespace Aldrin.Broker
open Generated

/-- what `remove_channel_end` does to the channel map: other channels stay; of this channel the other end stays -/
theorem removeChannelEnd_channels {s s' : St} {ck : Cookie} {e : ChanEnd} {owner : Option ConnId}
    (hr : removeChannelEnd s ck e owner = .ok s') :
    (∀ ck', ck' ≠ ck → AL.find? ck' s'.b.channels = AL.find? ck' s.b.channels) ∧
    (∀ ch', AL.find? ck s'.b.channels = some ch' → ∃ ch, AL.find? ck s.b.channels = some ch ∧ ch'.endState e.other = ch.endState e.other) := by
  rw [removeChannelEnd_eq] at hr
  cases hf : AL.find? ck s.b.channels with
  | none =>
    simp only [hf, Except.ok.injEq] at hr; subst hr
    exact ⟨fun _ _ => rfl, fun ch' h => by rw [hf] at h; simp at h⟩
  | some ch =>
    simp only [hf] at hr
    cases hc : ch.close e with
    | error p => simp [hc] at hr
    | ok r =>
      obtain ⟨ch1, other⟩ := r
      simp only [hc, Except.ok.injEq] at hr; subst hr
      obtain ⟨_, _, hcases⟩ := rceFinish_shape (rceConn s ck e owner) ck e ch1 other
      rw [rceConn_channels] at hcases
      have hcl := close_owner hc
      rcases hcases with ⟨hchan, _⟩ | ⟨hchan, _⟩
      · refine ⟨fun ck' hne => by rw [hchan, AL.find?_insert]; simp [Ne.symm hne], fun ch' h => ?_⟩
        rw [hchan] at h; simp at h; subst h
        refine ⟨ch, rfl, ?_⟩
        cases e <;> simp only [ChanEnd.other, Chan.endState] at hcl ⊢
        · exact hcl.2.1
        · exact hcl.2.1
      · refine ⟨fun ck' hne => by rw [hchan, AL.find?_erase, AL.find?_insert]; simp [Ne.symm hne], fun ch' h => ?_⟩
        rw [hchan] at h; simp [AL.find?_erase] at h

theorem ChanEnd.other_other (e : ChanEnd) : e.other.other = e := by cases e <;> rfl

/-- closing, one after the other, ends that a connection lists once and that are claimed (if their channel is still
there): no panic; and the listed ends of the other kind stay claimed -/
theorem removeEnds_np {id : ConnId} {e : ChanEnd} : ∀ (l : List Cookie) (s : St), ChInv s → l.Nodup →
    (∀ ck, ck ∈ l → ∀ ch, AL.find? ck s.b.channels = some ch → ∃ cap, ch.endState e = .claimed id cap) →
    ∀ (l2 : List Cookie), (∀ ck, ck ∈ l2 → ∀ ch, AL.find? ck s.b.channels = some ch → ∃ cap, ch.endState e.other = .claimed id cap) →
    (∀ p, foldE (fun s c => removeChannelEnd s c e (some id)) s l ≠ .error p) ∧
    (∀ s', foldE (fun s c => removeChannelEnd s c e (some id)) s l = .ok s' → ChInv s' ∧
      ∀ ck, ck ∈ l2 → ∀ ch, AL.find? ck s'.b.channels = some ch → ∃ cap, ch.endState e.other = .claimed id cap) := by
  intro l
  induction l with
  | nil =>
    intro s hch _ _ l2 h2
    exact ⟨fun p h => by simp [foldE] at h, fun s' h => by simp [foldE] at h; subst h; exact ⟨hch, h2⟩⟩
  | cons a l ih =>
    intro s hch hnd h1 l2 h2
    have hnp : ∀ p, removeChannelEnd s a e (some id) ≠ .error p := fun p => removeChannelEnd_np hch (fun ch hf => by
      obtain ⟨cap, hc⟩ := h1 a (by simp) ch hf; rw [hc]; simp) p
    rw [List.nodup_cons] at hnd
    have step : ∀ s1, removeChannelEnd s a e (some id) = .ok s1 →
        ChInv s1 ∧ (∀ ck, ck ∈ l → ∀ ch, AL.find? ck s1.b.channels = some ch → ∃ cap, ch.endState e = .claimed id cap) ∧
        (∀ ck, ck ∈ l2 → ∀ ch, AL.find? ck s1.b.channels = some ch → ∃ cap, ch.endState e.other = .claimed id cap) := by
      intro s1 hs1
      obtain ⟨c1, c2⟩ := removeChannelEnd_channels hs1
      refine ⟨removeChannelEnd_ChInv hch hs1, fun ck hck ch hf => ?_, fun ck hck ch hf => ?_⟩
      · have hne : ck ≠ a := fun he => hnd.1 (he ▸ hck)
        rw [c1 ck hne] at hf
        exact h1 ck (by simp [hck]) ch hf
      · by_cases hne : ck = a
        · subst hne
          obtain ⟨ch0, hf0, heq⟩ := c2 ch hf
          obtain ⟨cap, hc⟩ := h2 ck hck ch0 hf0
          exact ⟨cap, by rw [heq, hc]⟩
        · rw [c1 ck hne] at hf
          exact h2 ck hck ch hf
    constructor
    · intro p hp
      simp only [foldE] at hp
      split at hp
      · rename_i p' h'; exact hnp p' h'
      · rename_i s1 hs1
        obtain ⟨q1, q2, q3⟩ := step s1 hs1
        exact (ih s1 q1 hnd.2 q2 l2 q3).1 p hp
    · intro s' hs'
      simp only [foldE] at hs'
      split at hs'
      · simp at hs'
      · rename_i s1 hs1
        obtain ⟨q1, q2, q3⟩ := step s1 hs1
        exact (ih s1 q1 hnd.2 q2 l2 q3).2 s' hs'

/-- a panic of the introspection code: `remove_introspection_conn` fails with it in some state -/
def IntroRemovePanic (p : Panic) : Prop := ∃ t cid, removeIntrospectionConn t cid = .error p

/-- **The teardown of a connection can only panic inside `remove_introspection_conn`.** -/
theorem shutdownConnection_panics {s : St} (h : LkInv s) (hch : ChInv s) (hnd : NdInv s) {id : ConnId} {b : Bool} {p : Panic}
    (he : shutdownConnection s id b = .error p) : IntroRemovePanic p := by
  unfold shutdownConnection at he
  split at he
  · simp at he
  · rename_i conn hconn
    simp only [] at he
    have hconn' : AL.find? id s.b.conns = some conn := by simpa using hconn
    -- what the connection lists it holds, once
    have hlists := hnd id _ (cv_conn hconn)
    have hheld : ∀ (e : ChanEnd) ck, ck ∈ (match e with | .sender => conn.senders | .receiver => conn.receivers) →
        ∀ ch, AL.find? ck s.b.channels = some ch → ∃ cap, ch.endState e = .claimed id cap := by
      intro e ck hck ch hf
      have hx : (e.kind, ck) ∈ holds (conn.senders, conn.receivers, conn.busListeners) := by
        rw [mem_holds]; cases e
        · exact Or.inl ⟨rfl, hck⟩
        · exact Or.inr (Or.inl ⟨rfl, hck⟩)
      have := h.own.o2 id _ (e.kind, ck) (co_find hconn') hx
      obtain ⟨os, or⟩ := own_chan hf
      cases e <;> simp only [ChanEnd.kind, Chan.endState] at this ⊢
      · rw [os] at this
        cases hs : ch.sender <;> simp [hs, endOwner] at this
        exact ⟨_, by rw [this]⟩
      · rw [or] at this
        cases hs : ch.receiver <;> simp [hs, endOwner] at this
        exact ⟨_, by rw [this]⟩
    -- the state after the connection is taken out and its listeners are removed
    have i0 : (Reg (some (id, conn.objects)) none (List.foldl removeBusListener ((if b = true then
            if conn.alive = true then (s.stat fun st => { st with messagesSent := st.messagesSent + 1 }).setOut
                ((s.stat fun st => { st with messagesSent := st.messagesSent + 1 }).out ++ [{ to := id, msg := Rsp.shutdown, ver := none }])
            else s.stat fun st => { st with messagesSent := st.messagesSent + 1 }
          else s).setConns (AL.erase id (if b = true then
            if conn.alive = true then (s.stat fun st => { st with messagesSent := st.messagesSent + 1 }).setOut
                ((s.stat fun st => { st with messagesSent := st.messagesSent + 1 }).out ++ [{ to := id, msg := Rsp.shutdown, ver := none }])
            else s.stat fun st => { st with messagesSent := st.messagesSent + 1 }
          else s).b.conns)) conn.busListeners) ∧
        Cal none (List.foldl removeBusListener ((if b = true then
            if conn.alive = true then (s.stat fun st => { st with messagesSent := st.messagesSent + 1 }).setOut
                ((s.stat fun st => { st with messagesSent := st.messagesSent + 1 }).out ++ [{ to := id, msg := Rsp.shutdown, ver := none }])
            else s.stat fun st => { st with messagesSent := st.messagesSent + 1 }
          else s).setConns (AL.erase id (if b = true then
            if conn.alive = true then (s.stat fun st => { st with messagesSent := st.messagesSent + 1 }).setOut
                ((s.stat fun st => { st with messagesSent := st.messagesSent + 1 }).out ++ [{ to := id, msg := Rsp.shutdown, ver := none }])
            else s.stat fun st => { st with messagesSent := st.messagesSent + 1 }
          else s).b.conns)) conn.busListeners)) ∧
        (List.foldl removeBusListener ((if b = true then
            if conn.alive = true then (s.stat fun st => { st with messagesSent := st.messagesSent + 1 }).setOut
                ((s.stat fun st => { st with messagesSent := st.messagesSent + 1 }).out ++ [{ to := id, msg := Rsp.shutdown, ver := none }])
            else s.stat fun st => { st with messagesSent := st.messagesSent + 1 }
          else s).setConns (AL.erase id (if b = true then
            if conn.alive = true then (s.stat fun st => { st with messagesSent := st.messagesSent + 1 }).setOut
                ((s.stat fun st => { st with messagesSent := st.messagesSent + 1 }).out ++ [{ to := id, msg := Rsp.shutdown, ver := none }])
            else s.stat fun st => { st with messagesSent := st.messagesSent + 1 }
          else s).b.conns)) conn.busListeners).b.channels = s.b.channels := by
      apply foldl_inv (fun t => (Reg (some (id, conn.objects)) none t ∧ Cal none t) ∧ t.b.channels = s.b.channels) _
        (fun s a hp => ⟨⟨Reg.of_same hp.1.1 (removeBusListener_reg _ _), hp.1.2.of_frame (GkEq.of_calls (by unfold removeBusListener; split <;> simp)) (removeBusListener_cal _ _)⟩,
          by rw [removeBusListener_channels]; exact hp.2⟩)
      refine ⟨⟨?_, ?_⟩, ?_⟩
      · refine Reg.of_views (RegP.remove_conn h.reg (id := id) (l := conn.objects) (ro_find hconn')) ?_ ?_ ?_ ?_ ?_
        · intro x; split <;> (try split) <;> rfl
        · intro x; split <;> (try split) <;> rfl
        · intro x; split <;> (try split) <;> rfl
        · intro x; split <;> (try split) <;> rfl
        · intro x
          have : ∀ t : St, t.b.conns = s.b.conns → ro (t.setConns (AL.erase id t.b.conns)) x = upd (ro s) id none x := by
            intro t ht
            simp only [ro, St.setConns_b_conns, ht, AL.find?_erase, upd_apply]
            by_cases hx : id = x <;> simp [hx]
          split <;> (try split) <;> exact this _ (by simp)
      · refine Cal.of_eq h.cal ?_ ?_ <;> (split <;> (try split) <;> rfl)
      · split <;> (try split) <;> rfl
    obtain ⟨s1, h1, c1, r1⟩ := removeObjects_ok _ _ i0.1.2 i0.1.1
    have ch1 : s1.b.channels = s.b.channels := by
      have := foldE_inv (fun t => t.b.channels = s.b.channels) _ (fun s a s' hp hr => by rw [(removeObject_cl hr).1]; exact hp) _ _ _ i0.2 h1
      exact this
    simp only [h1] at he
    have rc1 : RegistryConsistent s1.b := RegistryConsistent.of_reg (b := s1.b) (w := s1.w) (out := s1.out) r1
    have frameRC : ∀ {t t' : St}, RegistryConsistent t.b → SameReg t t' → RegistryConsistent t'.b := by
      intro t t' ht hs
      have : Reg none none t := by
        obtain ⟨a1, a2, a3, a4, a5, a6, a7, a8⟩ := ht
        refine ⟨a1, a2, ?_, ?_, ?_, ?_, ?_, a8⟩
        · intro u o ho
          obtain ⟨conn', hc', hm'⟩ := a3 u o ho
          exact Or.inl ⟨conn'.objects, ro_find hc', hm'⟩
        · intro id' l c hl hm
          simp only [ro] at hl
          split at hl
          · rename_i conn' hc'; simp at hl; subst hl; exact a4 id' conn' c hc' hm
          · simp at hl
        · intro sc oid svu info hs'
          obtain ⟨sv, hsv, e1, e2⟩ := a5 sc oid svu info hs'
          rw [sk_find hsv, e1, e2]
        · intro obu svu sc oc hk
          simp only [sk, skl] at hk
          split at hk
          · rename_i sv hsv; simp at hk; obtain ⟨rfl, rfl⟩ := hk; exact a6 obu svu sv hsv
          · simp at hk
        · intro sc oid svu info hs'
          exact Or.inl (a7 sc oid svu info hs')
      exact RegistryConsistent.of_reg (b := t'.b) (w := t'.w) (out := t'.out) (Reg.of_same this hs)
    split at he
    · rename_i e2 h2
      simp only [Except.error.injEq] at he; subst he
      obtain ⟨t, a, ht, hf⟩ := foldE_error (P := fun t => RegistryConsistent t.b) (fun s a s' hp hr => frameRC hp (removeEventSubscription_reg hr)) _ _ _ rc1 h2
      exact absurd hf (removeEventSubscription_lk ht _ _ _ _)
    · rename_i s2 h2
      have rc2 := foldE_inv (fun t => RegistryConsistent t.b) _ (fun s a s' hp hr => frameRC hp (removeEventSubscription_reg hr)) _ _ _ rc1 h2
      have ch2 : s2.b.channels = s.b.channels :=
        foldE_inv (fun t => t.b.channels = s.b.channels) _ (fun s a s' hp hr => by rw [(removeEventSubscription_cl hr).1]; exact hp) _ _ _ ch1 h2
      split at he
      · rename_i e3 h3
        simp only [Except.error.injEq] at he; subst he
        obtain ⟨t, a, ht, hf⟩ := foldE_error (P := fun t => RegistryConsistent t.b) (fun s a s' hp hr => frameRC hp (removeAllEventsSubscription_reg hr)) _ _ _ rc2 h3
        exact absurd hf (removeAllEventsSubscription_lk ht _ _ _)
      · rename_i s3 h3
        have rc3 := foldE_inv (fun t => RegistryConsistent t.b) _ (fun s a s' hp hr => frameRC hp (removeAllEventsSubscription_reg hr)) _ _ _ rc2 h3
        have ch3 : s3.b.channels = s.b.channels :=
          foldE_inv (fun t => t.b.channels = s.b.channels) _ (fun s a s' hp hr => by rw [(removeAllEventsSubscription_cl hr).1]; exact hp) _ _ _ ch2 h3
        split at he
        · rename_i e4 h4
          simp only [Except.error.injEq] at he; subst he
          obtain ⟨t, a, ht, hf⟩ := foldE_error (P := fun t => RegistryConsistent t.b) (fun s a s' hp hr => frameRC hp (removeSubscription_reg hr)) _ _ _ rc3 h4
          exact absurd hf (removeSubscription_lk ht _ _ _)
        · rename_i s4 h4
          have ch4 : s4.b.channels = s.b.channels :=
            foldE_inv (fun t => t.b.channels = s.b.channels) _ (fun s a s' hp hr => by rw [(removeSubscription_cl hr).1]; exact hp) _ _ _ ch3 h4
          have hsnd := removeEnds_np (id := id) (e := .sender) conn.senders s4 (ChInv_of_eq hch ch4) hlists.1
            (fun ck hck ch hf => hheld .sender ck hck ch (by rw [← ch4]; exact hf)) conn.receivers
            (fun ck hck ch hf => hheld .receiver ck hck ch (by rw [← ch4]; exact hf))
          split at he
          · rename_i e5 h5
            exact absurd h5 (hsnd.1 e5)
          · rename_i s5 h5
            obtain ⟨ch5, hrcv5⟩ := hsnd.2 s5 h5
            have hrcv := removeEnds_np (id := id) (e := .receiver) conn.receivers s5 ch5 hlists.2.1 hrcv5 [] (fun ck hck => by simp at hck)
            split at he
            · rename_i e6 h6
              exact absurd h6 (hrcv.1 e6)
            · exact ⟨_, _, he⟩

/-- the invariants that hold at every point of a turn -/
structure TurnInv (s : St) : Prop where
  lk : LkInv s
  cl : CLInv s
  nd : NdInv s
  x : Xref s

theorem processOne_turninv {s s' : St} (h : TurnInv s) (hr : processOne s = some (.ok s')) : TurnInv s' :=
  ⟨processOne_lkinv h.lk hr, processOne_CLInv h.cl hr, processOne_nd h.nd hr, processOne_xref h.x hr⟩

theorem abortCall_error_site {s : St} {bs : Nat} {cid : ConnId} {p : Panic} (h : abortCall s bs cid = .error p) :
    p = .debugAssert "abort_call: remove_call" := by
  unfold abortCall at h
  repeat' ((try simp only [] at h); split at h)
  all_goals (try (simp at h; done))
  all_goals (simp only [Except.error.injEq] at h; exact h.symm)

/-- one item of deferred work panics only inside `remove_introspection_conn` -/
theorem processOne_panics {s : St} (h : TurnInv s) {p : Panic} (he : processOne s = some (.error p)) : IntroRemovePanic p := by
  unfold processOne at he
  split at he
  · rename_i cid b rest hq
    simp only [Option.some.injEq] at he
    refine shutdownConnection_panics (s := s.setWRemoveConns rest) ⟨Reg.of_same h.lk.reg ?_, Cal.of_eq h.lk.cal ?_ ?_, Own.of_eq h.lk.own ?_ ?_ ?_⟩
      (ChInv_of_eq h.cl.1 ?_) (NdInv.of_conns h.nd ?_) he
    all_goals (first | reg_eq | (simp; done))
  split at he
  · simp at he
  split at he
  · simp at he
  split at he
  · simp at he
  split at he
  · rename_i serial cid result rest hq
    simp only [Option.some.injEq] at he
    split at he
    · simp at he
    · rename_i c hc
      split at he
      · rename_i hnone
        exfalso
        have := loop_remove_call_assert_holds h.x hq (conn := c) (by simpa [St.conn?] using hc)
        cases hf : AL.find? serial c.calls <;> simp_all
      · simp at he
  split at he
  · simp at he
  split at he
  · simp at he
  split at he
  · simp at he
  split at he
  · simp at he
  split at he
  · rename_i serial cid rest hq
    simp only [Option.some.injEq] at he
    exfalso
    have := abortCall_error_site he
    subst this
    exact abort_remove_call_assert_holds h.x serial cid rest he
  · simp at he

/-- the work loop panics only inside `remove_introspection_conn` (or runs out of the model's budget) -/
theorem processLoop_panics : ∀ (fuel : Nat) (s : St) (p : Panic), TurnInv s → processLoop fuel s = .error p →
    p = .fuel ∨ IntroRemovePanic p := by
  intro fuel
  induction fuel with
  | zero => intro s p _ he; simp [processLoop] at he; exact Or.inl he.symm
  | succ n ih =>
    intro s p h he
    simp only [processLoop] at he
    split at he
    · simp at he
    · rename_i p' hp
      simp only [Except.error.injEq] at he; subst he
      exact Or.inr (processOne_panics h hp)
    · rename_i s1 h1
      exact ih _ _ (processOne_turninv h h1) he

theorem processLoop_nd : ∀ (fuel : Nat) (s s' : St), NdInv s → processLoop fuel s = .ok s' → NdInv s' := by
  intro fuel
  induction fuel with
  | zero => intro s s' _ hr; simp [processLoop] at hr
  | succ n ih =>
    intro s s' h hr
    simp only [processLoop] at hr
    split at hr
    · simp at hr; exact hr ▸ h
    · simp at hr
    · exact ih _ _ (processOne_nd h ‹_›) hr

theorem Reachable.nd {b : Broker} {w : Work} (h : Reachable b w) : NdInv ⟨b, w, []⟩ := by
  induction h with
  | init => exact NdInv.init
  | step _ _ hs ih =>
    unfold Aldrin.Broker.step at hs
    split at hs
    · simp at hs
    · rename_i s1 h1
      split at hs
      · simp at hs
      · rename_i s2 h2
        simp only [Except.ok.injEq, Prod.mk.injEq] at hs
        obtain ⟨rfl, rfl, _⟩ := hs
        exact NdInv.of_conns (processLoop_nd _ _ _ (handleEvent_nd ih h1) h2) rfl

/-- a request about introspection -/
def Req.isIntrospection : Req → Bool
  | .registerIntrospection _ | .queryIntrospection _ _ | .queryIntrospectionReply _ _ => true
  | _ => false

/-- **One whole turn of `Broker::run`, from any reachable state (fewer than 2³² pending calls), for any event: if it
panics, then inside the introspection code** (the handler of one of the three introspection requests, or
`remove_introspection_conn`), **or because the id of a new connection is already in use, or because the model's budget
ran out.** -/
theorem step_panics {b : Broker} {w : Work} (h : Reachable b w) (hroom : b.calls.elems.length ≤ u32Max) {e : Event} {p : Panic}
    (he : step b w e = .error p) :
    p = .fuel ∨ p = .debugAssert "NewConnection: duplicate id" ∨ IntroRemovePanic p ∨
      (∃ id m, m.isIntrospection = true ∧ handleMessage ⟨b, w, []⟩ id m = .error p) := by
  unfold step at he
  split at he
  · rename_i p' hp
    simp only [Except.error.injEq] at he; subst he
    cases e <;> simp only [handleEvent] at hp
    case msg id m =>
      split at hp
      · rename_i p'' hp'
        simp only [Except.error.injEq] at hp; subst hp
        by_cases hi : m.isIntrospection = true
        · exact Or.inr (Or.inr (Or.inr ⟨id, m, hi, hp'⟩))
        · exfalso
          refine handleMessage_np h id m _ ?_ ?_ ?_ hp'
          · intro tys hm; subst hm; simp [Req.isIntrospection] at hi
          · intro serial ty hm; subst hm; simp [Req.isIntrospection] at hi
          · intro serial r hm; subst hm; simp [Req.isIntrospection] at hi
      · simp at hp
    case newConn id v =>
      split at hp
      · simp only [Except.error.injEq] at hp; exact Or.inr (Or.inl hp.symm)
      · simp at hp
    all_goals (simp at hp)
  · rename_i s1 h1
    split at he
    · rename_i p' hp
      simp only [Except.error.injEq] at he; subst he
      have inv1 : TurnInv s1 :=
        ⟨⟨handleEvent_reg h.reg.1 h.reg.2 h1, handleEvent_cal h.cal h.idle.x.d hroom h1, handleEvent_own h.own.1 h.own.2 h1⟩,
         handleEvent_CLInv h.clinv h1, handleEvent_nd h.nd h1, handleEvent_xref h.idle.x h.idle.r h.idle.a hroom h1⟩
      rcases processLoop_panics _ _ _ inv1 hp with hf | hi
      · exact Or.inl hf
      · exact Or.inr (Or.inr (Or.inl hi))
    · simp at he

end Aldrin.Broker
