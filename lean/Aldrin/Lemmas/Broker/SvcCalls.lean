/-
What `remove_service` does with the calls that are pending at the service: every one of them leaves the broker's call
table, and for every one that has not been aborted a reply `InvalidService` to its caller is deferred
(`remove_function_call` items of the work loop, which sends it as `CallFunctionReply`).
-/
import Aldrin.Lemmas.Broker.Xref

namespace Aldrin.Broker

/-- the deferred replies for a list of broker serials, first serial first -/
def invalidServiceItems (m : SerialMap Call) (l : List Nat) : List (Nat × ConnId × CallResult) :=
  l.filterMap (fun bs => match m.get? bs with
    | some call => if call.aborted then none else some (call.callerSerial, call.callerConn, CallResult.invalidService)
    | none => none)

theorem invalidServiceItems_congr {m1 m2 : SerialMap Call} : ∀ (l : List Nat), (∀ k, k ∈ l → m1.get? k = m2.get? k) →
    invalidServiceItems m1 l = invalidServiceItems m2 l := by
  intro l
  induction l with
  | nil => intro _; rfl
  | cons a l ih =>
    intro h
    have := ih (fun k hk => h k (List.mem_cons_of_mem _ hk))
    simp only [invalidServiceItems, List.filterMap_cons] at this ⊢
    rw [h a List.mem_cons_self, this]

theorem removeService_calls_spec : ∀ (l : List Nat) (s s' : St), l.Nodup → removeService.calls s l = .ok s' →
    s'.w.removeCalls = (invalidServiceItems s.b.calls l).reverse ++ s.w.removeCalls ∧
    (∀ k, s'.b.calls.get? k = if k ∈ l then none else s.b.calls.get? k) ∧
    (∀ bs, bs ∈ l → (s.b.calls.get? bs).isSome) := by
  intro l
  induction l with
  | nil =>
    intro s s' _ h
    simp only [removeService.calls, Except.ok.injEq] at h
    subst h
    simp [invalidServiceItems]
  | cons a l ih =>
    intro s s' hnd h
    have hnd' := List.nodup_cons.1 hnd
    simp only [removeService.calls] at h
    split at h
    · simp at h
    · rename_i call hcall
      generalize ht : (if call.aborted = true then s.setCalls (s.b.calls.remove a)
          else (s.setCalls (s.b.calls.remove a)).setWRemoveCalls
            ((call.callerSerial, call.callerConn, CallResult.invalidService) :: (s.setCalls (s.b.calls.remove a)).w.removeCalls)) = t at h
      have ht_calls : t.b.calls = s.b.calls.remove a := by rw [← ht]; split <;> simp
      have ht_w : t.w.removeCalls = if call.aborted = true then s.w.removeCalls
          else (call.callerSerial, call.callerConn, CallResult.invalidService) :: s.w.removeCalls := by
        rw [← ht]; split <;> simp
      obtain ⟨h1, h2, h3⟩ := ih _ _ hnd'.2 h
      have hget : ∀ k, k ∈ l → (s.b.calls.remove a).get? k = s.b.calls.get? k := by
        intro k hk
        rw [get?_remove]
        have : a ≠ k := fun e => hnd'.1 (e ▸ hk)
        simp [this]
      have hitems : invalidServiceItems (s.b.calls.remove a) l = invalidServiceItems s.b.calls l :=
        invalidServiceItems_congr l hget
      refine ⟨?_, ?_, ?_⟩
      · rw [h1, ht_calls, ht_w, hitems]
        by_cases hab : call.aborted = true
        · simp [invalidServiceItems, hcall, hab]
        · simp [invalidServiceItems, hcall, hab]
      · intro k
        rw [h2 k, ht_calls, get?_remove]
        by_cases hk : k ∈ l
        · simp [hk]
        · by_cases hak : a = k
          · simp [hak]
          · have : ¬ k = a := fun e => hak e.symm
            simp [hk, hak, this]
      · intro bs hbs
        rcases List.mem_cons.1 hbs with rfl | hbs
        · simp [hcall]
        · have := h3 bs hbs
          rw [ht_calls, hget bs hbs] at this
          exact this

end Aldrin.Broker

namespace Aldrin.Broker

/-- if the loop over the pending calls succeeds, every serial was in the table and none is listed twice (a second
visit would not find it any more) -/
theorem removeService_calls_nodup : ∀ (l : List Nat) (s s' : St), removeService.calls s l = .ok s' →
    l.Nodup ∧ ∀ bs, bs ∈ l → (s.b.calls.get? bs).isSome := by
  intro l
  induction l with
  | nil => intro s s' _; simp
  | cons a l ih =>
    intro s s' h
    simp only [removeService.calls] at h
    split at h
    · simp at h
    · rename_i call hcall
      generalize ht : (if call.aborted = true then s.setCalls (s.b.calls.remove a)
          else (s.setCalls (s.b.calls.remove a)).setWRemoveCalls
            ((call.callerSerial, call.callerConn, CallResult.invalidService) :: (s.setCalls (s.b.calls.remove a)).w.removeCalls)) = t at h
      have ht_calls : t.b.calls = s.b.calls.remove a := by rw [← ht]; split <;> simp
      obtain ⟨hn, hp⟩ := ih _ _ h
      have key : ∀ bs, bs ∈ l → a ≠ bs ∧ (s.b.calls.get? bs).isSome := by
        intro bs hbs
        have := hp bs hbs
        rw [ht_calls, get?_remove] at this
        by_cases hab : a = bs
        · simp [hab] at this
        · simp only [hab, ↓reduceIte] at this
          exact ⟨hab, this⟩
      refine ⟨List.nodup_cons.2 ⟨fun hm => (key a hm).1 rfl, hn⟩, ?_⟩
      intro bs hbs
      rcases List.mem_cons.1 hbs with rfl | hbs
      · simp [hcall]
      · exact (key bs hbs).2

/-- `remove_service` as a whole: the calls pending at the service leave the call table, and the caller of every one that
has not been aborted is sent `InvalidService` (deferred: `remove_function_call` items, in the order of the service's set) -/
theorem removeService_pending_calls {s s' : St} {c : Cookie} {objId : ObjId} {svcUuid : Uuid} {info : SvcInfo} {svc : Svc}
    (hu : AL.find? c s.b.svcUuids = some (objId, svcUuid, info)) (hs : AL.find? (objId.uuid, svcUuid) s.b.svcs = some svc)
    (hr : removeService s c = .ok s') :
    s'.w.removeCalls = (invalidServiceItems s.b.calls svc.calls).reverse ++ s.w.removeCalls ∧
    (∀ k, s'.b.calls.get? k = if k ∈ svc.calls then none else s.b.calls.get? k) := by
  unfold removeService at hr
  simp only [hu, St.setSvcUuids_b_svcs, hs] at hr
  split at hr
  · simp at hr
  · rename_i s1 h1
    simp only [Except.ok.injEq] at hr
    subst hr
    obtain ⟨hn, _⟩ := removeService_calls_nodup _ _ _ h1
    obtain ⟨e1, e2, _⟩ := removeService_calls_spec _ _ _ hn h1
    have hw : ∀ (x : St) (f : Stats → Stats), (x.stat f).w = x.w := fun _ _ => rfl
    have hb : ∀ (x : St) (f : Stats → Stats), (x.stat f).b.calls = x.b.calls := fun _ _ => rfl
    rw [hw, hb]
    generalize hfold : List.foldl _ s1 svc.subscribedConnIds = t2
    have inv : t2.w.removeCalls = s1.w.removeCalls ∧ t2.b.calls = s1.b.calls := by
      rw [← hfold]
      apply foldl_inv (fun t => t.w.removeCalls = s1.w.removeCalls ∧ t.b.calls = s1.b.calls)
      · intro t a hp
        split
        · exact ⟨by simpa using hp.1, by simpa using hp.2⟩
        · exact hp
      · exact ⟨rfl, rfl⟩
    obtain ⟨i1, i2⟩ := inv
    constructor
    · rw [i1, e1]
      split <;> simp
    · intro k
      rw [i2, e2 k]
      by_cases hk : k ∈ svc.calls
      · simp [hk]
      · simp only [hk, ↓reduceIte]
        split <;> simp

end Aldrin.Broker
