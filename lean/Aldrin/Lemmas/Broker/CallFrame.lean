/-
Which functions of the broker model leave the table of pending calls (`function_calls`) and the two deferred lists
about calls (`remove_function_calls`, `abort_function_calls`) alone.
-/
import Aldrin.Lemmas.Broker.CallConnEq
import Aldrin.Lemmas.Broker.CallOut

set_option linter.unusedSimpArgs false
set_option linter.unusedVariables false
namespace Aldrin.Broker

/-- the table of calls and the two deferred lists about calls are as they were -/
def SameF (s s' : St) : Prop := s'.b.calls = s.b.calls ∧ s'.w.removeCalls = s.w.removeCalls ∧ s'.w.abortCalls = s.w.abortCalls

theorem SameF.refl (s : St) : SameF s s := ⟨rfl, rfl, rfl⟩
theorem SameF.trans {a b c : St} (h1 : SameF a b) (h2 : SameF b c) : SameF a c :=
  ⟨h2.1.trans h1.1, h2.2.1.trans h1.2.1, h2.2.2.trans h1.2.2⟩

@[simp, grind =] theorem removeBusListener_b_calls (s : St) (c : Cookie) : (removeBusListener s c).b.calls = s.b.calls := by
  unfold removeBusListener; split <;> simp
@[simp, grind =] theorem removeBusListener_w_removeCalls (s : St) (c : Cookie) : (removeBusListener s c).w.removeCalls = s.w.removeCalls := by
  unfold removeBusListener; split <;> simp
@[simp, grind =] theorem removeBusListener_w_abortCalls (s : St) (c : Cookie) : (removeBusListener s c).w.abortCalls = s.w.abortCalls := by
  unfold removeBusListener; split <;> simp

syntax "samef_tac" ident : tactic
macro_rules
  | `(tactic| samef_tac $f) => `(tactic|
      (intro h; unfold $f at h
       repeat' ((try simp only [] at h); split at h)
       all_goals (try (grind [SameF, okH, errH]; done))
       all_goals (try (simp only [okH, errH, Except.ok.injEq, Prod.mk.injEq] at h))
       all_goals (try (obtain ⟨h1, h2⟩ := h; subst h1; subst h2))
       all_goals (try subst_vars)
       all_goals (try (simp_all [okH, errH, SameF]; done))
       all_goals (try grind [SameF])))



@[grind →] theorem removeEventSubscription_f {s s' : St} {cid c ev} : removeEventSubscription s cid c ev = .ok s' → SameF s s' := by
  samef_tac removeEventSubscription



@[grind →] theorem removeAllEventsSubscription_f {s s' : St} {cid c} : removeAllEventsSubscription s cid c = .ok s' → SameF s s' := by
  samef_tac removeAllEventsSubscription

@[grind →] theorem removeSubscription_f {s s' : St} {cid c} : removeSubscription s cid c = .ok s' → SameF s s' := by
  samef_tac removeSubscription

@[grind →] theorem askIntrospection_f {s s' : St} {ty e} : askIntrospection s ty e = .ok s' → SameF s s' := by
  samef_tac askIntrospection

theorem replyPending_f : ∀ (l : List IQuery) (s s' : St) (r m), replyPending s l r m = .ok s' → SameF s s' := by
  intro l
  induction l with
  | nil => intro s s' r m h; simp [replyPending] at h; subst h; exact SameF.refl _
  | cons a l ih =>
    intro s s' r m h
    simp only [replyPending] at h
    repeat' (split at h)
    · simp at h
    · exact ih _ _ _ _ h
    · have := ih _ _ _ _ h
      simp only [SameF, sendOrRemove_out_eq, rf_ite, rf_append, rf_single, strictKey_queryIntrospectionReply] at this ⊢
      simpa using this

@[grind →] theorem replyPending_f' {l : List IQuery} {s s' : St} {r m} (h : replyPending s l r m = .ok s') : SameF s s' :=
  replyPending_f _ _ _ _ _ h

theorem removeIntrospectionConn_go_f : ∀ (l : List (Nat × Option Uuid × List IQuery)) (s s' : St),
    removeIntrospectionConn.go s l = .ok s' → SameF s s' := by
  intro l
  induction l with
  | nil => intro s s' h; simp [removeIntrospectionConn.go] at h; subst h; exact SameF.refl _
  | cons a l ih =>
    intro s s' h
    obtain ⟨serial, cont, pending⟩ := a
    simp only [removeIntrospectionConn.go] at h
    repeat' ((try simp only [] at h); split at h)
    all_goals (try (simp at h; done))
    · have h1 := replyPending_f _ _ _ _ _ ‹_›
      have h2 := ih _ _ h
      exact SameF.trans (SameF.trans (by simp [SameF]) h1) h2
    · have h2 := ih _ _ h
      exact SameF.trans (by simp [SameF]) h2
    · have h1 := askIntrospection_f ‹_›
      have h2 := ih _ _ h
      exact SameF.trans (SameF.trans (by simp [SameF]) h1) h2

@[grind →] theorem removeIntrospectionConn_f {s s' : St} {cid} : removeIntrospectionConn s cid = .ok s' → SameF s s' := by
  intro h
  unfold removeIntrospectionConn at h
  simp only [] at h
  have := removeIntrospectionConn_go_f _ _ _ h
  simp_all [SameF]

@[grind →] theorem createObject_f {s s' : St} {id serial uuid} {ok : Bool} : createObject s id serial uuid = .ok (s', ok) → SameF s s' := by
  samef_tac createObject


@[grind →] theorem createServiceImpl_f {s s' : St} {id serial oc uuid info} {ok : Bool} : createServiceImpl s id serial oc uuid info = .ok (s', ok) → SameF s s' := by
  samef_tac createServiceImpl

@[grind →] theorem createService_f {s s' : St} {id serial oc uuid v} {ok : Bool} : createService s id serial oc uuid v = .ok (s', ok) → SameF s s' := by
  samef_tac createService

@[grind →] theorem createService2_f {s s' : St} {id serial oc uuid info} {ok : Bool} : createService2 s id serial oc uuid info = .ok (s', ok) → SameF s s' := by
  samef_tac createService2



@[grind →] theorem subscribeEvent_f {s s' : St} {id serial svc ev} {ok : Bool} : subscribeEvent s id serial svc ev = .ok (s', ok) → SameF s s' := by
  samef_tac subscribeEvent

@[grind →] theorem unsubscribeEvent_f {s s' : St} {id svc ev} {ok : Bool} : unsubscribeEvent s id svc ev = .ok (s', ok) → SameF s s' := by
  samef_tac unsubscribeEvent

@[grind →] theorem queryServiceVersion_f {s s' : St} {id serial svc} {ok : Bool} : queryServiceVersion s id serial svc = .ok (s', ok) → SameF s s' := by
  samef_tac queryServiceVersion

@[grind →] theorem queryServiceInfo_f {s s' : St} {id serial svc} {ok : Bool} : queryServiceInfo s id serial svc = .ok (s', ok) → SameF s s' := by
  samef_tac queryServiceInfo

@[grind →] theorem subscribeService_f {s s' : St} {id serial svc} {ok : Bool} : subscribeService s id serial svc = .ok (s', ok) → SameF s s' := by
  samef_tac subscribeService

@[grind →] theorem unsubscribeService_f {s s' : St} {id svc} {ok : Bool} : unsubscribeService s id svc = .ok (s', ok) → SameF s s' := by
  samef_tac unsubscribeService

@[grind →] theorem subscribeAllEvents_f {s s' : St} {id serial svc} {ok : Bool} : subscribeAllEvents s id serial svc = .ok (s', ok) → SameF s s' := by
  samef_tac subscribeAllEvents

@[grind →] theorem unsubscribeAllEvents_f {s s' : St} {id serial svc} {ok : Bool} : unsubscribeAllEvents s id serial svc = .ok (s', ok) → SameF s s' := by
  samef_tac unsubscribeAllEvents

@[grind →] theorem sync_f {s s' : St} {id serial} {ok : Bool} : sync s id serial = .ok (s', ok) → SameF s s' := by
  samef_tac sync

@[grind →] theorem createBusListener_f {s s' : St} {id serial} {ok : Bool} : createBusListener s id serial = .ok (s', ok) → SameF s s' := by
  samef_tac createBusListener

@[grind →] theorem destroyBusListener_f {s s' : St} {id serial c} {ok : Bool} : destroyBusListener s id serial c = .ok (s', ok) → SameF s s' := by
  samef_tac destroyBusListener

@[grind →] theorem updListener_f {s s' : St} {id c f} {ok : Bool} : updListener s id c f = .ok (s', ok) → SameF s s' := by
  samef_tac updListener

@[grind →] theorem stopBusListener_f {s s' : St} {id serial c} {ok : Bool} : stopBusListener s id serial c = .ok (s', ok) → SameF s s' := by
  samef_tac stopBusListener

@[grind →] theorem queryIntrospection_f {s s' : St} {id serial ty} {ok : Bool} : queryIntrospection s id serial ty = .ok (s', ok) → SameF s s' := by
  samef_tac queryIntrospection

@[grind →] theorem queryIntrospectionReply_f {s s' : St} {id serial r} {ok : Bool} : queryIntrospectionReply s id serial r = .ok (s', ok) → SameF s s' := by
  samef_tac queryIntrospectionReply

@[grind →] theorem emitEvent_f {s s' : St} {id svc ev p} {ok : Bool} : emitEvent s id svc ev p = .ok (s', ok) → SameF s s' := by
  intro h; unfold emitEvent at h
  repeat' ((try simp only [] at h); split at h)
  all_goals (try (grind [SameF, okH, errH]; done))
  simp only [okH, Except.ok.injEq, Prod.mk.injEq] at h
  obtain ⟨h1, _⟩ := h
  subst h1
  apply foldl_inv (fun s' => SameF s s')
  · intro s1 a hp; split <;> simp_all [SameF]
  · exact SameF.refl _

@[grind →] theorem registerIntrospection_f {s s' : St} {id tys} {ok : Bool} : registerIntrospection s id tys = .ok (s', ok) → SameF s s' := by
  intro h; unfold registerIntrospection at h
  repeat' ((try simp only [] at h); split at h)
  all_goals (try (grind [SameF, okH, errH]; done))
  simp only [okH, Except.ok.injEq, Prod.mk.injEq] at h
  obtain ⟨h1, _⟩ := h
  subst h1
  apply foldl_inv (fun s' => SameF s s')
  · intro s1 a hp; simp_all [SameF]
  · exact SameF.refl _

theorem sendAll_f : ∀ (l : List Rsp) (s : St) (id : ConnId), (∀ m ∈ l, isR m = false) → SameF s (sendAll s id l).1 := by
  intro l
  induction l with
  | nil => intro s id _; exact SameF.refl _
  | cons a l ih =>
    intro s id hl
    simp only [sendAll]
    have ha : isR a = false := hl a (by simp)
    split
    · have := ih (s.send id a).1 id (fun m hm => hl m (by simp [hm]))
      simp_all [SameF]
    · simp [SameF, ha]

@[grind →] theorem startBusListener_f {s s' : St} {id serial c sc} {ok : Bool} : startBusListener s id serial c sc = .ok (s', ok) → SameF s s' := by
  intro h; unfold startBusListener at h
  repeat' ((try simp only [] at h); split at h)
  all_goals (try (grind [SameF, okH, errH]; done))
  all_goals (try (simp only [okH, errH, Except.ok.injEq, Prod.mk.injEq] at h))
  all_goals (try (obtain ⟨h1, h2⟩ := h; subst h1; subst h2))
  all_goals (try (simp_all [SameF]; done))
  all_goals
    have h' := congrArg Prod.fst h
    replace h' : _ = s' := h'
    subst h'
    clear h
    refine SameF.trans ?_ (sendAll_f _ _ _ ?_)
    · simp [SameF]
    · intro m hm
      simp only [List.mem_append, List.mem_singleton] at hm
      rcases hm with (hm | hm) | rfl
      · obtain ⟨e, rfl⟩ := currentObjMsgs_ns _ _ _ _ m hm; rfl
      · obtain ⟨e, rfl⟩ := currentSvcMsgs_ns _ _ _ _ m hm; rfl
      · rfl

theorem emitBusEvent_f (s : St) (e : BusEv) : SameF s (emitBusEvent s e) := by
  unfold emitBusEvent
  simp only []
  apply foldl_inv (fun s' => SameF s s')
  · intro s1 a hp; split <;> simp_all [SameF]
  · exact SameF.refl _


@[grind →] theorem removeChannelEnd_f {s s' : St} {c e o} : removeChannelEnd s c e o = .ok s' → SameF s s' := by
  samef_tac removeChannelEnd

@[grind →] theorem createChannel_f {s s' : St} {id serial e cap} {ok : Bool} : createChannel s id serial e cap = .ok (s', ok) → SameF s s' := by
  samef_tac createChannel

@[grind →] theorem closeChannelEnd_f {s s' : St} {id serial c e} {ok : Bool} : closeChannelEnd s id serial c e = .ok (s', ok) → SameF s s' := by
  samef_tac closeChannelEnd

@[grind →] theorem claimChannelEnd_f {s s' : St} {id serial c e cap} {ok : Bool} : claimChannelEnd s id serial c e cap = .ok (s', ok) → SameF s s' := by
  samef_tac claimChannelEnd

@[grind →] theorem addChannelCapacity_f {s s' : St} {id c cap} {ok : Bool} : addChannelCapacity s id c cap = .ok (s', ok) → SameF s s' := by
  samef_tac addChannelCapacity

@[grind →] theorem sendItem_f {s s' : St} {id c p} {ok : Bool} : sendItem s id c p = .ok (s', ok) → SameF s s' := by
  samef_tac sendItem


end Aldrin.Broker
