/-
A connection lists a channel end or a bus listener once: `ConnectionState::{senders, receivers, bus_listeners}` are hash
sets in the implementation; in the model they are lists that are only ever changed by `sinsert` / `sremove`, which keeps
them free of duplicates (`NdInv`). Needed where the model walks such a list and the second visit of an entry would
meet a changed state (the teardown of a connection closes every listed end).
-/
import Aldrin.Lemmas.Broker.Own

set_option linter.unusedSimpArgs false
set_option linter.unusedVariables false
namespace Aldrin.Broker
open Generated

def NdLists (t : List Cookie × List Cookie × List Cookie) : Prop := t.1.Nodup ∧ t.2.1.Nodup ∧ t.2.2.Nodup

/-- every connection lists its sender ends, receiver ends and bus listeners once -/
def NdInv (s : St) : Prop := ∀ c t, cv s c = some t → NdLists t

theorem NdInv.of_cve {s s' : St} (h : NdInv s) (hc : CvEq s s') : NdInv s' := fun c t ht => h c t (by rw [← hc c]; exact ht)
theorem NdInv.of_conns {s s' : St} (h : NdInv s) (hc : s'.b.conns = s.b.conns) : NdInv s' := h.of_cve (CvEq.of_conns hc)

theorem NdInv.init : NdInv ⟨{}, {}, []⟩ := by intro c t h; simp [cv, AL.find?] at h

/-- one connection's lists change, staying duplicate-free -/
theorem NdInv.upd {s s' : St} {id : ConnId} (h : NdInv s)
    (hcv : ∀ c, cv s' c = if id = c then (cv s' id) else cv s c) (hid : ∀ t, cv s' id = some t → NdLists t) : NdInv s' := by
  intro c t ht
  by_cases hc : id = c
  · subst hc; exact hid t ht
  · rw [hcv c] at ht; simp [hc] at ht; exact h c t ht

theorem updConn_nd {s : St} (h : NdInv s) (id : ConnId) (f : Conn → Conn)
    (hf : ∀ c, NdLists (c.senders, c.receivers, c.busListeners) → NdLists ((f c).senders, (f c).receivers, (f c).busListeners)) :
    NdInv (s.updConn id f) := by
  intro c t ht
  rw [cv_updConn'] at ht
  split at ht
  · rename_i heq; subst heq
    cases hc : s.conn? id with
    | none => rw [hc] at ht; simp at ht
    | some conn =>
      rw [hc] at ht; simp at ht; subst ht
      exact hf conn (h id _ (cv_conn hc))
  · exact h c t ht

theorem removeBusListener_nd {s : St} (h : NdInv s) (ck : Cookie) : NdInv (removeBusListener s ck) := by
  unfold removeBusListener
  split
  · exact h
  · rename_i l hl
    have h1 : NdInv (s.setListeners (AL.erase ck s.b.listeners)) := NdInv.of_conns h (by simp)
    have h2 := updConn_nd h1 l.conn (fun c => { c with busListeners := sremove ck c.busListeners })
      (fun c hc => ⟨hc.1, hc.2.1, nodup_sremove _ _ hc.2.2⟩)
    exact NdInv.of_conns h2 (by simp)

theorem rceConn_nd {s : St} (h : NdInv s) (ck : Cookie) (e : ChanEnd) (owner : Option ConnId) : NdInv (rceConn s ck e owner) := by
  unfold rceConn
  split
  · refine updConn_nd h _ _ ?_
    intro c hc
    cases e <;> simp only [dropEnd]
    · exact ⟨nodup_sremove _ _ hc.1, hc.2.1, hc.2.2⟩
    · exact ⟨hc.1, nodup_sremove _ _ hc.2.1, hc.2.2⟩
  · exact h

theorem removeChannelEnd_nd {s s' : St} {ck : Cookie} {e : ChanEnd} {owner : Option ConnId} (h : NdInv s)
    (hr : removeChannelEnd s ck e owner = .ok s') : NdInv s' := by
  rw [removeChannelEnd_eq] at hr
  split at hr
  · simp only [Except.ok.injEq] at hr; subst hr; exact h
  · split at hr
    · simp at hr
    · simp only [Except.ok.injEq] at hr; subst hr
      exact (rceConn_nd h ck e owner).of_cve (rceFinish_shape _ _ _ _ _).2.1

theorem NdInv.of_cv {s t : St} {id : ConnId} (h : NdInv s) {lists' : List Cookie × List Cookie × List Cookie} (hl : NdLists lists')
    (hcv : ∀ c, cv t c = if id = c then some lists' else cv s c) : NdInv t := by
  intro c x hx
  rw [hcv c] at hx
  split at hx
  · simp at hx; subst hx; exact hl
  · exact h c x hx

theorem createBusListener_nd {s s' : St} {id serial} {ok : Bool} (h : NdInv s)
    (hr : createBusListener s id serial = .ok (s', ok)) : NdInv s' := by
  unfold createBusListener at hr
  repeat' ((try simp only [] at hr); split at hr)
  all_goals (simp only [okH, errH, Except.ok.injEq, Prod.mk.injEq] at hr; obtain ⟨rfl, _⟩ := hr)
  · exact h
  · exact h.of_conns (by simp)
  · rename_i conn hconn0 _ _
    have hconn : AL.find? id s.b.conns = some conn := by simpa [St.conn?] using hconn0
    have hn := h id _ (cv_conn hconn0)
    refine NdInv.of_cv (id := id) h (lists' := (conn.senders, conn.receivers, sinsert s.b.nextCookie conn.busListeners))
      ⟨hn.1, hn.2.1, nodup_sinsert _ _ hn.2.2⟩ (fun c => ?_)
    simp [cv_updConn', St.conn?, hconn]

theorem createChannel_nd {s s' : St} {id serial e cap} {ok : Bool} (h : NdInv s)
    (hr : createChannel s id serial e cap = .ok (s', ok)) : NdInv s' := by
  unfold createChannel at hr
  split at hr
  · simp only [okH, Except.ok.injEq, Prod.mk.injEq] at hr; obtain ⟨rfl, _⟩ := hr; exact h
  · rename_i conn hconn0
    have hconn : AL.find? id s.b.conns = some conn := by simpa [St.conn?] using hconn0
    have hn := h id _ (cv_conn hconn0)
    have key : ∀ t : St, (∀ c, cv t c = if id = c then some (match e with
          | .sender => (sinsert s.b.nextCookie conn.senders, conn.receivers, conn.busListeners)
          | .receiver => (conn.senders, sinsert s.b.nextCookie conn.receivers, conn.busListeners)) else cv s c) → NdInv t := by
      intro t hcv
      refine NdInv.of_cv (id := id) h ?_ hcv
      cases e
      · exact ⟨nodup_sinsert _ _ hn.1, hn.2.1, hn.2.2⟩
      · exact ⟨hn.1, nodup_sinsert _ _ hn.2.1, hn.2.2⟩
    simp only [] at hr
    cases e <;> simp only [] at hr
    all_goals
      split at hr
      · have hfst := congrArg Prod.fst (Except.ok.inj hr); dsimp only at hfst; rw [← hfst]
        refine key _ (fun c => ?_)
        simp [cv_updConn', St.conn?, hconn]
      · split at hr
        · simp only [errH, Except.ok.injEq, Prod.mk.injEq] at hr; obtain ⟨rfl, _⟩ := hr
          refine key _ (fun c => ?_)
          simp [cv_updConn', St.conn?, hconn]
        · simp only [okH, Except.ok.injEq, Prod.mk.injEq] at hr; obtain ⟨rfl, _⟩ := hr
          refine key _ (fun c => ?_)
          simp [cv_updConn', St.conn?, hconn]

theorem claimChannelEnd_nd {s s' : St} {id serial ck e cap} {ok : Bool} (h : NdInv s)
    (hr : claimChannelEnd s id serial ck e cap = .ok (s', ok)) : NdInv s' := by
  unfold claimChannelEnd at hr
  split at hr
  · simp only [okH, Except.ok.injEq, Prod.mk.injEq] at hr; obtain ⟨rfl, _⟩ := hr; exact h
  · rename_i conn hconn0
    have hconn : AL.find? id s.b.conns = some conn := by simpa [St.conn?] using hconn0
    have hn := h id _ (cv_conn hconn0)
    split at hr
    · have hfst := congrArg Prod.fst (Except.ok.inj hr); dsimp only at hfst; rw [← hfst]
      exact h.of_conns (by simp)
    · rename_i ch hch
      simp only [] at hr
      have key : ∀ t : St, (∀ c, cv t c = if id = c then some (match e with
            | .sender => (sinsert ck conn.senders, conn.receivers, conn.busListeners)
            | .receiver => (conn.senders, sinsert ck conn.receivers, conn.busListeners)) else cv s c) → NdInv t := by
        intro t hcv
        refine NdInv.of_cv (id := id) h ?_ hcv
        cases e
        · exact ⟨nodup_sinsert _ _ hn.1, hn.2.1, hn.2.2⟩
        · exact ⟨hn.1, nodup_sinsert _ _ hn.2.1, hn.2.2⟩
      cases e <;> simp only [] at hr
      · cases hcl : ch.claimSender id with
        | error p => simp [hcl] at hr
        | ok r =>
          cases r with
          | error r' =>
            simp only [hcl] at hr
            have hfst := congrArg Prod.fst (Except.ok.inj hr); dsimp only at hfst; rw [← hfst]
            exact h.of_conns (by simp)
          | ok v =>
            obtain ⟨ch', other, c⟩ := v
            simp only [hcl] at hr
            split at hr
            · simp at hr
            · have hfst := congrArg Prod.fst (Except.ok.inj hr); dsimp only at hfst; rw [← hfst]
              refine key _ (fun c' => ?_)
              simp [cv_updConn', St.conn?, hconn]
      · cases hcl : ch.claimReceiver id cap with
        | error p => simp [hcl] at hr
        | ok r =>
          cases r with
          | error r' =>
            simp only [hcl] at hr
            have hfst := congrArg Prod.fst (Except.ok.inj hr); dsimp only at hfst; rw [← hfst]
            exact h.of_conns (by simp)
          | ok v =>
            obtain ⟨ch', other⟩ := v
            simp only [hcl] at hr
            split at hr
            · simp at hr
            · have hfst := congrArg Prod.fst (Except.ok.inj hr); dsimp only at hfst; rw [← hfst]
              refine key _ (fun c' => ?_)
              simp [cv_updConn', St.conn?, hconn]

/-- the handlers that go through `remove_channel_end` / `remove_bus_listener` -/
theorem closeChannelEnd_nd {s s' : St} {id serial ck e} {ok : Bool} (h : NdInv s)
    (hr : closeChannelEnd s id serial ck e = .ok (s', ok)) : NdInv s' := by
  unfold closeChannelEnd at hr
  repeat' ((try simp only [] at hr); split at hr)
  all_goals (try (simp only [okH, errH, Except.ok.injEq, Prod.mk.injEq, reduceCtorEq] at hr))
  all_goals (try (exact hr.elim))
  all_goals (try (have hfst := congrArg Prod.fst hr; (try dsimp only at hfst); rw [← hfst]; clear hfst hr))
  all_goals (try (obtain ⟨h1, h2⟩ := hr; subst h1; subst h2))
  all_goals (try (exact h))
  all_goals (try (refine NdInv.of_conns h ?_; simp; done))
  all_goals (refine removeChannelEnd_nd (NdInv.of_conns h ?_) ‹removeChannelEnd _ _ _ _ = _›; simp)

theorem addChannelCapacity_nd {s s' : St} {id ck cap} {ok : Bool} (h : NdInv s)
    (hr : addChannelCapacity s id ck cap = .ok (s', ok)) : NdInv s' := by
  unfold addChannelCapacity at hr
  repeat' ((try simp only [] at hr); split at hr)
  all_goals (try (simp only [okH, errH, Except.ok.injEq, Prod.mk.injEq, reduceCtorEq] at hr))
  all_goals (try (exact hr.elim))
  all_goals (try (obtain ⟨h1, h2⟩ := hr; subst h1; subst h2))
  all_goals (try (exact h))
  all_goals (try (refine NdInv.of_conns h ?_; simp; done))
  all_goals (exact removeChannelEnd_nd h ‹removeChannelEnd _ _ _ _ = _›)

theorem sendItem_nd {s s' : St} {id ck p} {ok : Bool} (h : NdInv s)
    (hr : sendItem s id ck p = .ok (s', ok)) : NdInv s' := by
  unfold sendItem at hr
  repeat' ((try simp only [] at hr); split at hr)
  all_goals (try (simp only [okH, errH, Except.ok.injEq, Prod.mk.injEq, reduceCtorEq] at hr))
  all_goals (try (exact hr.elim))
  all_goals (try (have hfst := congrArg Prod.fst hr; (try dsimp only at hfst); rw [← hfst]; clear hfst hr))
  all_goals (try (obtain ⟨h1, h2⟩ := hr; subst h1; subst h2))
  all_goals (try (exact h))
  all_goals (try (refine NdInv.of_conns h ?_; simp; done))
  all_goals (try (exact removeChannelEnd_nd h ‹removeChannelEnd _ _ _ (some _) = _›))
  all_goals (rename_i h1 _ _ h2; exact removeChannelEnd_nd (removeChannelEnd_nd h h1) h2)

theorem destroyBusListener_nd {s s' : St} {id serial ck} {ok : Bool} (h : NdInv s)
    (hr : destroyBusListener s id serial ck = .ok (s', ok)) : NdInv s' := by
  unfold destroyBusListener at hr
  repeat' ((try simp only [] at hr); split at hr)
  all_goals (try (simp only [okH, errH, Except.ok.injEq, Prod.mk.injEq, reduceCtorEq] at hr))
  all_goals (try (have hfst := congrArg Prod.fst hr; (try dsimp only at hfst); rw [← hfst]; clear hfst hr))
  all_goals (try (obtain ⟨h1, h2⟩ := hr; subst h1; subst h2))
  all_goals (try (exact h))
  all_goals (try (refine NdInv.of_conns h ?_; simp; done))
  all_goals (refine removeBusListener_nd (NdInv.of_conns h ?_) _; simp)

theorem handleMessage_nd {s s' : St} {id : ConnId} {m : Req} {ok : Bool} (h : NdInv s)
    (hr : handleMessage s id m = .ok (s', ok)) : NdInv s' := by
  cases m <;> simp only [handleMessage] at hr
  case createChannel => exact createChannel_nd h hr
  case closeChannelEnd => exact closeChannelEnd_nd h hr
  case claimChannelEnd => exact claimChannelEnd_nd h hr
  case sendItem => exact sendItem_nd h hr
  case addChannelCapacity => exact addChannelCapacity_nd h hr
  case createBusListener => exact createBusListener_nd h hr
  case destroyBusListener => exact destroyBusListener_nd h hr
  case addFilter f => exact h.of_cve (updListener_cve hr)
  case removeFilter f => exact h.of_cve (updListener_cve hr)
  case clearFilters => exact h.of_cve (updListener_cve hr)
  case startBusListener => exact h.of_cve (startBusListener_cve hr)
  case stopBusListener => exact h.of_cve (stopBusListener_cve hr)
  case createObject => exact h.of_cve (createObject_cve hr)
  case destroyObject => exact h.of_cve (destroyObject_cve hr)
  case createService => exact h.of_cve (createService_cve hr)
  case createService2 => exact h.of_cve (createService2_cve hr)
  case destroyService => exact h.of_cve (destroyService_cve hr)
  case callFunction => exact h.of_cve (callFunctionImpl_cve hr)
  case callFunction2 => exact h.of_cve (callFunction2_cve hr)
  case callFunctionReply => exact h.of_cve (callFunctionReply_cve hr)
  case abortFunctionCall => exact h.of_cve (abortFunctionCall_cve hr)
  case subscribeEvent serial _ _ => exact h.of_cve (subscribeEvent_cve hr)
  case unsubscribeEvent => exact h.of_cve (unsubscribeEvent_cve hr)
  case emitEvent => exact h.of_cve (emitEvent_cve hr)
  case queryServiceVersion => exact h.of_cve (queryServiceVersion_cve hr)
  case queryServiceInfo => exact h.of_cve (queryServiceInfo_cve hr)
  case subscribeService => exact h.of_cve (subscribeService_cve hr)
  case unsubscribeService => exact h.of_cve (unsubscribeService_cve hr)
  case subscribeAllEvents serial _ => exact h.of_cve (subscribeAllEvents_cve hr)
  case unsubscribeAllEvents serial _ => exact h.of_cve (unsubscribeAllEvents_cve hr)
  case sync => exact h.of_cve (sync_cve hr)
  case registerIntrospection => exact h.of_cve (registerIntrospection_cve hr)
  case queryIntrospection => exact h.of_cve (queryIntrospection_cve hr)
  case queryIntrospectionReply => exact h.of_cve (queryIntrospectionReply_cve hr)
  case other => simp [errH] at hr; exact hr.1 ▸ h

theorem shutdownConnection_nd {s s' : St} {id b} (h : NdInv s) (hr : shutdownConnection s id b = .ok s') : NdInv s' := by
  unfold shutdownConnection at hr
  split at hr
  · simp at hr; exact hr ▸ h
  · rename_i conn hconn
    simp only [] at hr
    repeat' (split at hr)
    all_goals (try (simp at hr; done))
    rename_i s1 h1 _ s2 h2 _ s3 h3 _ s4 h4 _ s5 h5 _ s6 h6
    have i0 : NdInv ((if b = true then
            if conn.alive = true then (s.stat fun st => { st with messagesSent := st.messagesSent + 1 }).setOut
                ((s.stat fun st => { st with messagesSent := st.messagesSent + 1 }).out ++ [{ to := id, msg := Rsp.shutdown, ver := none }])
            else s.stat fun st => { st with messagesSent := st.messagesSent + 1 }
          else s).setConns (AL.erase id (if b = true then
            if conn.alive = true then (s.stat fun st => { st with messagesSent := st.messagesSent + 1 }).setOut
                ((s.stat fun st => { st with messagesSent := st.messagesSent + 1 }).out ++ [{ to := id, msg := Rsp.shutdown, ver := none }])
            else s.stat fun st => { st with messagesSent := st.messagesSent + 1 }
          else s).b.conns)) := by
      have : ∀ t : St, t.b.conns = s.b.conns → NdInv (t.setConns (AL.erase id t.b.conns)) := by
        intro t ht c x hx
        simp only [cv, St.setConns_b_conns, ht, AL.find?_erase] at hx
        by_cases hc : id = c
        · simp [hc] at hx
        · simp only [hc, ↓reduceIte] at hx
          exact h c x (by simpa [cv] using hx)
      split <;> (try split) <;> exact this _ (by simp)
    have i1 : NdInv s1 := by
      refine foldE_inv NdInv _ (fun s a s' hp hr => hp.of_cve (removeObject_cve hr)) _ _ _ ?_ h1
      exact foldl_inv NdInv _ (fun s a hp => removeBusListener_nd hp a) _ _ i0
    have i2 := foldE_inv NdInv _ (fun s a s' hp hr => hp.of_cve (removeEventSubscription_cve hr)) _ _ _ i1 h2
    have i3 := foldE_inv NdInv _ (fun s a s' hp hr => hp.of_cve (removeAllEventsSubscription_cve hr)) _ _ _ i2 h3
    have i4 := foldE_inv NdInv _ (fun s a s' hp hr => hp.of_cve (removeSubscription_cve hr)) _ _ _ i3 h4
    have i5 := foldE_inv NdInv _ (fun s a s' hp hr => removeChannelEnd_nd hp hr) _ _ _ i4 h5
    have i6 := foldE_inv NdInv _ (fun s a s' hp hr => removeChannelEnd_nd hp hr) _ _ _ i5 h6
    refine NdInv.of_cve ?_ (removeIntrospectionConn_cve hr)
    refine NdInv.of_conns (s := List.foldl (fun s (p : Nat × Nat × ConnId) => s.setWAbortCalls ((p.2.1, p.2.2) :: s.w.abortCalls)) s6 conn.calls) ?_ (by simp)
    apply foldl_inv NdInv _ ?_ _ _ i6
    intro s a hp
    exact hp.of_conns (by simp)

theorem handleEvent_nd {s s' : St} {e : Event} (h : NdInv s) (hr : handleEvent s e = .ok s') : NdInv s' := by
  cases e <;> simp only [handleEvent] at hr
  case msg id m =>
    split at hr
    · simp at hr
    · rename_i s1 ok hm
      have := handleMessage_nd h hm
      simp only [Except.ok.injEq] at hr
      subst hr
      refine NdInv.of_conns this ?_
      split <;> simp
  case newConn id v =>
    split at hr
    · simp at hr
    · simp only [Except.ok.injEq] at hr; subst hr
      intro c x hx
      simp only [cv_stat, cv_setConn] at hx
      split at hx
      · simp at hx; subst hx; exact ⟨List.nodup_nil, List.nodup_nil, List.nodup_nil⟩
      · exact h c x hx
  case taskDropped id =>
    simp only [Except.ok.injEq] at hr; subst hr
    refine h.of_cve (fun c => ?_)
    simp [cv_updConn']
  all_goals (simp only [Except.ok.injEq] at hr; subst hr; refine NdInv.of_conns h ?_; simp)

theorem processOne_nd {s s' : St} (h : NdInv s) (hr : processOne s = some (.ok s')) : NdInv s' := by
  unfold processOne at hr
  repeat' (split at hr)
  all_goals (try (simp only [Option.some.injEq, reduceCtorEq] at hr))
  all_goals first
    | (refine shutdownConnection_nd (s := s.setWRemoveConns _) (NdInv.of_conns h ?_) hr; simp; done)
    | (refine NdInv.of_cve (NdInv.of_conns (s' := s.setWAbortCalls _) h ?_) (abortCall_cve hr); simp; done)
    | (simp only [Except.ok.injEq] at hr; subst hr; refine NdInv.of_conns h ?_; simp; done)
    | (simp only [Except.ok.injEq] at hr; subst hr; refine NdInv.of_cve (NdInv.of_conns (s' := s.setWCreateObject _) h ?_) (emitBusEvent_cve _ _); simp; done)
    | (simp only [Except.ok.injEq] at hr; subst hr; refine NdInv.of_cve (NdInv.of_conns (s' := s.setWCreateService _) h ?_) (emitBusEvent_cve _ _); simp; done)
    | (simp only [Except.ok.injEq] at hr; subst hr; refine NdInv.of_cve (NdInv.of_conns (s' := s.setWDestroyService _) h ?_) (emitBusEvent_cve _ _); simp; done)
    | (simp only [Except.ok.injEq] at hr; subst hr; refine NdInv.of_cve (NdInv.of_conns (s' := s.setWDestroyObject _) h ?_) (emitBusEvent_cve _ _); simp; done)
    | (simp only [Except.ok.injEq] at hr; subst hr; refine NdInv.of_conns h ?_; split <;> simp; done)
    | (split at hr <;> (try split at hr) <;> (try simp only [Except.ok.injEq, reduceCtorEq] at hr) <;>
        first | (exact hr.elim) | (subst hr; refine NdInv.of_conns h ?_; simp; done)
              | (subst hr; rename_i c0 hc0 _; refine h.of_cve (fun c => ?_)
                 simp only [cv_sendOrRemove, cv_setConn, cv_setWRemoveCalls]
                 split
                 · rename_i heq; subst heq; simp only [St.conn?, St.setWRemoveCalls_b_conns] at hc0; simp [cv, hc0]
                 · rfl))

end Aldrin.Broker
