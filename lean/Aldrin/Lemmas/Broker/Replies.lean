/-
Which serial replies one turn of the broker model puts into the connections' queues: handling a request
appends at most one reply that carries a serial the client checks, it goes to the requesting connection and is
of the request's kind with the request's serial; nothing else the broker does (clean-up of a connection, the
deferred work loop, bus events, the other events of `Broker::run`) appends such a reply.
(`queryIntrospectionReply` is not among them: it is produced later, when another client has answered.)
-/
import Aldrin.Lemmas.Broker.Frame
import Aldrin.Lemmas.Client.Pending

namespace Aldrin.Broker
open Aldrin.Client (SKind rspKey reqKey)

/-- kind and serial of a reply that is produced while the request is handled -/
def strictKey (m : Rsp) : Option (SKind × Nat) :=
  match rspKey m with
  | some (.queryIntrospection, _) => none
  | x => x

/-- kind and serial under which a request is answered while it is handled -/
def reqKeyS (r : Req) : Option (SKind × Nat) :=
  match reqKey r with
  | some (.queryIntrospection, _) => none
  | x => x

@[simp, grind =] theorem strictKey_createObjectReply {a0 a1} : strictKey (.createObjectReply a0 a1) = some (.createObject, a0) := rfl
@[simp, grind =] theorem strictKey_destroyObjectReply {a0 a1} : strictKey (.destroyObjectReply a0 a1) = none := rfl
@[simp, grind =] theorem strictKey_createServiceReply {a0 a1} : strictKey (.createServiceReply a0 a1) = some (.createService, a0) := rfl
@[simp, grind =] theorem strictKey_destroyServiceReply {a0 a1} : strictKey (.destroyServiceReply a0 a1) = none := rfl
@[simp, grind =] theorem strictKey_callFunction {a0 a1 a2 a3} : strictKey (.callFunction a0 a1 a2 a3) = none := rfl
@[simp, grind =] theorem strictKey_callFunction2 {a0 a1 a2 a3 a4} : strictKey (.callFunction2 a0 a1 a2 a3 a4) = none := rfl
@[simp, grind =] theorem strictKey_callFunctionReply {a0 a1} : strictKey (.callFunctionReply a0 a1) = none := rfl
@[simp, grind =] theorem strictKey_abortFunctionCall {a0} : strictKey (.abortFunctionCall a0) = none := rfl
@[simp, grind =] theorem strictKey_subscribeEvent {a0 a1} : strictKey (.subscribeEvent a0 a1) = none := rfl
@[simp, grind =] theorem strictKey_subscribeEventReply {a0 a1} : strictKey (.subscribeEventReply a0 a1) = some (.subscribeEvent, a0) := rfl
@[simp, grind =] theorem strictKey_unsubscribeEvent {a0 a1} : strictKey (.unsubscribeEvent a0 a1) = none := rfl
@[simp, grind =] theorem strictKey_emitEvent {a0 a1 a2} : strictKey (.emitEvent a0 a1 a2) = none := rfl
@[simp, grind =] theorem strictKey_queryServiceVersionReply {a0 a1} : strictKey (.queryServiceVersionReply a0 a1) = some (.queryServiceVersion, a0) := rfl
@[simp, grind =] theorem strictKey_queryServiceInfoReply {a0 a1} : strictKey (.queryServiceInfoReply a0 a1) = some (.queryServiceInfo, a0) := rfl
@[simp, grind =] theorem strictKey_subscribeServiceReply {a0 a1} : strictKey (.subscribeServiceReply a0 a1) = some (.subscribeService, a0) := rfl
@[simp, grind =] theorem strictKey_subscribeAllEvents {a0} : strictKey (.subscribeAllEvents a0) = none := rfl
@[simp, grind =] theorem strictKey_subscribeAllEventsReply {a0 a1} : strictKey (.subscribeAllEventsReply a0 a1) = some (.subscribeAllEvents, a0) := rfl
@[simp, grind =] theorem strictKey_unsubscribeAllEvents {a0} : strictKey (.unsubscribeAllEvents a0) = none := rfl
@[simp, grind =] theorem strictKey_unsubscribeAllEventsReply {a0 a1} : strictKey (.unsubscribeAllEventsReply a0 a1) = some (.unsubscribeAllEvents, a0) := rfl
@[simp, grind =] theorem strictKey_serviceDestroyed {a0} : strictKey (.serviceDestroyed a0) = none := rfl
@[simp, grind =] theorem strictKey_createChannelReply {a0 a1} : strictKey (.createChannelReply a0 a1) = some (.createChannel, a0) := rfl
@[simp, grind =] theorem strictKey_closeChannelEndReply {a0 a1} : strictKey (.closeChannelEndReply a0 a1) = some (.closeChannelEnd, a0) := rfl
@[simp, grind =] theorem strictKey_channelEndClosed {a0 a1} : strictKey (.channelEndClosed a0 a1) = none := rfl
@[simp, grind =] theorem strictKey_claimChannelEndReply {a0 a1} : strictKey (.claimChannelEndReply a0 a1) = some (.claimChannelEnd, a0) := rfl
@[simp, grind =] theorem strictKey_channelEndClaimed {a0 a1 a2} : strictKey (.channelEndClaimed a0 a1 a2) = none := rfl
@[simp, grind =] theorem strictKey_itemReceived {a0 a1} : strictKey (.itemReceived a0 a1) = none := rfl
@[simp, grind =] theorem strictKey_addChannelCapacity {a0 a1} : strictKey (.addChannelCapacity a0 a1) = none := rfl
@[simp, grind =] theorem strictKey_syncReply {a0} : strictKey (.syncReply a0) = some (.sync, a0) := rfl
@[simp, grind =] theorem strictKey_createBusListenerReply {a0 a1} : strictKey (.createBusListenerReply a0 a1) = some (.createBusListener, a0) := rfl
@[simp, grind =] theorem strictKey_destroyBusListenerReply {a0 a1} : strictKey (.destroyBusListenerReply a0 a1) = some (.destroyBusListener, a0) := rfl
@[simp, grind =] theorem strictKey_startBusListenerReply {a0 a1} : strictKey (.startBusListenerReply a0 a1) = some (.startBusListener, a0) := rfl
@[simp, grind =] theorem strictKey_stopBusListenerReply {a0 a1} : strictKey (.stopBusListenerReply a0 a1) = some (.stopBusListener, a0) := rfl
@[simp, grind =] theorem strictKey_emitBusEvent {a0 a1} : strictKey (.emitBusEvent a0 a1) = none := rfl
@[simp, grind =] theorem strictKey_busListenerCurrentFinished {a0} : strictKey (.busListenerCurrentFinished a0) = none := rfl
@[simp, grind =] theorem strictKey_queryIntrospection {a0 a1} : strictKey (.queryIntrospection a0 a1) = none := rfl
@[simp, grind =] theorem strictKey_queryIntrospectionReply {a0 a1} : strictKey (.queryIntrospectionReply a0 a1) = none := rfl
@[simp, grind =] theorem strictKey_shutdown : strictKey .shutdown = none := rfl

/-- the listener a message is tagged with: the created-events for existing objects and services that answer the
start of a bus listener, and the marker that ends them -/
def tagOf : Rsp → Option Cookie
  | .emitBusEvent l _ => l
  | .busListenerCurrentFinished c => some c
  | _ => none

@[simp, grind =] theorem tagOf_createObjectReply {a0 a1} : tagOf (.createObjectReply a0 a1) = none := rfl
@[simp, grind =] theorem tagOf_destroyObjectReply {a0 a1} : tagOf (.destroyObjectReply a0 a1) = none := rfl
@[simp, grind =] theorem tagOf_createServiceReply {a0 a1} : tagOf (.createServiceReply a0 a1) = none := rfl
@[simp, grind =] theorem tagOf_destroyServiceReply {a0 a1} : tagOf (.destroyServiceReply a0 a1) = none := rfl
@[simp, grind =] theorem tagOf_callFunction {a0 a1 a2 a3} : tagOf (.callFunction a0 a1 a2 a3) = none := rfl
@[simp, grind =] theorem tagOf_callFunction2 {a0 a1 a2 a3 a4} : tagOf (.callFunction2 a0 a1 a2 a3 a4) = none := rfl
@[simp, grind =] theorem tagOf_callFunctionReply {a0 a1} : tagOf (.callFunctionReply a0 a1) = none := rfl
@[simp, grind =] theorem tagOf_abortFunctionCall {a0} : tagOf (.abortFunctionCall a0) = none := rfl
@[simp, grind =] theorem tagOf_subscribeEvent {a0 a1} : tagOf (.subscribeEvent a0 a1) = none := rfl
@[simp, grind =] theorem tagOf_subscribeEventReply {a0 a1} : tagOf (.subscribeEventReply a0 a1) = none := rfl
@[simp, grind =] theorem tagOf_unsubscribeEvent {a0 a1} : tagOf (.unsubscribeEvent a0 a1) = none := rfl
@[simp, grind =] theorem tagOf_emitEvent {a0 a1 a2} : tagOf (.emitEvent a0 a1 a2) = none := rfl
@[simp, grind =] theorem tagOf_queryServiceVersionReply {a0 a1} : tagOf (.queryServiceVersionReply a0 a1) = none := rfl
@[simp, grind =] theorem tagOf_queryServiceInfoReply {a0 a1} : tagOf (.queryServiceInfoReply a0 a1) = none := rfl
@[simp, grind =] theorem tagOf_subscribeServiceReply {a0 a1} : tagOf (.subscribeServiceReply a0 a1) = none := rfl
@[simp, grind =] theorem tagOf_subscribeAllEvents {a0} : tagOf (.subscribeAllEvents a0) = none := rfl
@[simp, grind =] theorem tagOf_subscribeAllEventsReply {a0 a1} : tagOf (.subscribeAllEventsReply a0 a1) = none := rfl
@[simp, grind =] theorem tagOf_unsubscribeAllEvents {a0} : tagOf (.unsubscribeAllEvents a0) = none := rfl
@[simp, grind =] theorem tagOf_unsubscribeAllEventsReply {a0 a1} : tagOf (.unsubscribeAllEventsReply a0 a1) = none := rfl
@[simp, grind =] theorem tagOf_serviceDestroyed {a0} : tagOf (.serviceDestroyed a0) = none := rfl
@[simp, grind =] theorem tagOf_createChannelReply {a0 a1} : tagOf (.createChannelReply a0 a1) = none := rfl
@[simp, grind =] theorem tagOf_closeChannelEndReply {a0 a1} : tagOf (.closeChannelEndReply a0 a1) = none := rfl
@[simp, grind =] theorem tagOf_channelEndClosed {a0 a1} : tagOf (.channelEndClosed a0 a1) = none := rfl
@[simp, grind =] theorem tagOf_claimChannelEndReply {a0 a1} : tagOf (.claimChannelEndReply a0 a1) = none := rfl
@[simp, grind =] theorem tagOf_channelEndClaimed {a0 a1 a2} : tagOf (.channelEndClaimed a0 a1 a2) = none := rfl
@[simp, grind =] theorem tagOf_itemReceived {a0 a1} : tagOf (.itemReceived a0 a1) = none := rfl
@[simp, grind =] theorem tagOf_addChannelCapacity {a0 a1} : tagOf (.addChannelCapacity a0 a1) = none := rfl
@[simp, grind =] theorem tagOf_syncReply {a0} : tagOf (.syncReply a0) = none := rfl
@[simp, grind =] theorem tagOf_createBusListenerReply {a0 a1} : tagOf (.createBusListenerReply a0 a1) = none := rfl
@[simp, grind =] theorem tagOf_destroyBusListenerReply {a0 a1} : tagOf (.destroyBusListenerReply a0 a1) = none := rfl
@[simp, grind =] theorem tagOf_startBusListenerReply {a0 a1} : tagOf (.startBusListenerReply a0 a1) = none := rfl
@[simp, grind =] theorem tagOf_stopBusListenerReply {a0 a1} : tagOf (.stopBusListenerReply a0 a1) = none := rfl
@[simp, grind =] theorem tagOf_emitBusEvent {a0 a1} : tagOf (.emitBusEvent a0 a1) = a0 := rfl
@[simp, grind =] theorem tagOf_busListenerCurrentFinished {a0} : tagOf (.busListenerCurrentFinished a0) = some a0 := rfl
@[simp, grind =] theorem tagOf_queryIntrospection {a0 a1} : tagOf (.queryIntrospection a0 a1) = none := rfl
@[simp, grind =] theorem tagOf_queryIntrospectionReply {a0 a1} : tagOf (.queryIntrospectionReply a0 a1) = none := rfl
@[simp, grind =] theorem tagOf_shutdown : tagOf .shutdown = none := rfl

/-- a message the client checks against its book-keeping by serial or by listener tag -/
def Out.strict (o : Out) : Bool := (strictKey o.msg).isSome || (tagOf o.msg).isSome

/-- the serial replies and tagged messages among the outputs -/
def sf (l : List Out) : List Out := l.filter Out.strict

@[simp, grind =] theorem sf_append (a b : List Out) : sf (a ++ b) = sf a ++ sf b := by simp [sf]
@[simp, grind =] theorem sf_nil : sf [] = [] := rfl
@[simp, grind =] theorem sf_single (o : Out) : sf [o] = if (strictKey o.msg).isSome || (tagOf o.msg).isSome then [o] else [] := by
  cases h : ((strictKey o.msg).isSome || (tagOf o.msg).isSome) <;> simp [sf, Out.strict, h]

theorem sf_cons (o : Out) (t : List Out) : sf (o :: t) = sf [o] ++ sf t := by
  rw [← sf_append]; rfl

@[simp] theorem sf_ite (c : Prop) [Decidable c] (a b : List Out) :
    sf (if c then a else b) = if c then sf a else sf b := by split <;> rfl

theorem send_cases (s : St) (to : ConnId) (m : Rsp) (v : Option Nat) :
    ((s.send to m v).2 = true ∧ (s.send to m v).1.out = s.out ++ [⟨to, m, v⟩]) ∨
    ((s.send to m v).2 = false ∧ (s.send to m v).1.out = s.out) := by
  unfold St.send; simp only []
  split
  · split <;> simp
  · simp

@[simp, grind =] theorem send_out_eq (s : St) (to : ConnId) (m : Rsp) (v : Option Nat) :
    (s.send to m v).1.out = if (s.send to m v).2 then s.out ++ [⟨to, m, v⟩] else s.out := by
  rcases send_cases s to m v with ⟨h1, h2⟩ | ⟨h1, h2⟩ <;> simp [h1, h2]

@[simp, grind =] theorem sendOrRemove_out_eq (s : St) (to : ConnId) (m : Rsp) (v : Option Nat) :
    (s.sendOrRemove to m v).out = if (s.send to m v).2 then s.out ++ [⟨to, m, v⟩] else s.out := by
  unfold St.sendOrRemove
  rcases send_cases s to m v with ⟨h1, h2⟩ | ⟨h1, h2⟩ <;> simp [h1, h2]

/-- no serial reply was added -/
def SameS (s s' : St) : Prop := sf s'.out = sf s.out

theorem SameS.refl (s : St) : SameS s s := rfl
theorem SameS.trans {a b c : St} (h1 : SameS a b) (h2 : SameS b c) : SameS a c := Eq.trans h2 h1

/-- at most one serial reply was added; it goes to `id` and has the given kind and serial -/
def AtMost (s s' : St) (id : ConnId) (key : Option (SKind × Nat)) : Prop :=
  sf s'.out = sf s.out ∨ ∃ o, sf s'.out = sf s.out ++ [o] ∧ o.to = id ∧ strictKey o.msg = key ∧ key.isSome

theorem AtMost.of_same {s s' : St} {id key} (h : SameS s s') : AtMost s s' id key := Or.inl h

syntax "same_tac" ident : tactic
macro_rules
  | `(tactic| same_tac $f) => `(tactic|
      (intro h; unfold $f at h
       repeat' ((try simp only [] at h); split at h)
       all_goals (try (grind [SameS, okH, errH]; done))
       all_goals (try subst_vars)
       all_goals (try (simp_all [okH, errH, SameS]; done))
       all_goals (try grind [SameS])))

syntax "rep_tac" ident : tactic
macro_rules
  | `(tactic| rep_tac $f) => `(tactic|
      (intro h; unfold $f at h
       repeat' ((try simp only [] at h); split at h)
       all_goals (try (grind [AtMost, SameS, okH, errH]; done))
       all_goals (try (simp only [okH, errH, Except.ok.injEq, Prod.mk.injEq] at h))
       all_goals (try (obtain ⟨h1, h2⟩ := h; subst h1; subst h2))
       all_goals (try (simp_all [AtMost, SameS]; done))))

@[simp, grind =] theorem removeBusListener_out (s : St) (c : Cookie) : (removeBusListener s c).out = s.out := by
  unfold removeBusListener; split <;> simp

theorem removeService_calls_s : ∀ (l : List Nat) (s s' : St), removeService.calls s l = .ok s' → SameS s s' := by
  intro l
  induction l with
  | nil => intro s s' h; simp [removeService.calls] at h; subst h; exact SameS.refl _
  | cons a l ih =>
    intro s s' h
    simp only [removeService.calls] at h
    split at h
    · simp at h
    · have := ih _ _ h
      split at this <;> simp_all [SameS]

@[grind →] theorem removeService_s {s s' : St} {c : Cookie} : removeService s c = .ok s' → SameS s s' := by
  intro h
  unfold removeService at h
  split at h
  · simp_all [SameS]
  · (try simp only [] at h)
    split at h
    · simp at h
    · (try simp only [] at h)
      split at h
      · simp at h
      · rename_i s1 hc
        have h1 := removeService_calls_s _ _ _ hc
        simp only [Except.ok.injEq] at h
        subst h
        refine SameS.trans (SameS.trans ?_ h1) ?_
        · split <;> simp [SameS]
        · simp only [SameS, St.stat_out]
          exact foldl_inv (fun s => sf s.out = sf s1.out) _
            (by intro s a hp; split <;> simp_all) _ _ rfl

@[grind →] theorem removeEventSubscription_s {s s' : St} {cid c ev} : removeEventSubscription s cid c ev = .ok s' → SameS s s' := by
  same_tac removeEventSubscription

@[grind →] theorem removeChannelEnd_s {s s' : St} {c e o} : removeChannelEnd s c e o = .ok s' → SameS s s' := by
  same_tac removeChannelEnd

theorem removeObject_svcs_s : ∀ (l : List Cookie) (s s' : St), removeObject.svcs s l = .ok s' → SameS s s' := by
  intro l
  induction l with
  | nil => intro s s' h; simp [removeObject.svcs] at h; subst h; exact SameS.refl _
  | cons a l ih =>
    intro s s' h
    simp only [removeObject.svcs] at h
    split at h
    · simp at h
    · exact SameS.trans (removeService_s ‹_›) (ih _ _ h)

@[grind →] theorem removeObject_s {s s' : St} {c : Cookie} : removeObject s c = .ok s' → SameS s s' := by
  intro h
  unfold removeObject at h
  repeat' ((try simp only [] at h); split at h)
  all_goals (try simp_all [SameS])
  rename_i hs
  have := removeObject_svcs_s _ _ _ hs
  subst_vars
  simp_all [SameS]

@[grind →] theorem removeAllEventsSubscription_s {s s' : St} {cid c} : removeAllEventsSubscription s cid c = .ok s' → SameS s s' := by
  same_tac removeAllEventsSubscription

@[grind →] theorem removeSubscription_s {s s' : St} {cid c} : removeSubscription s cid c = .ok s' → SameS s s' := by
  same_tac removeSubscription

@[grind →] theorem askIntrospection_s {s s' : St} {ty e} : askIntrospection s ty e = .ok s' → SameS s s' := by
  same_tac askIntrospection

theorem replyPending_s : ∀ (l : List IQuery) (s s' : St) (r m), replyPending s l r m = .ok s' → SameS s s' := by
  intro l
  induction l with
  | nil => intro s s' r m h; simp [replyPending] at h; subst h; exact SameS.refl _
  | cons a l ih =>
    intro s s' r m h
    simp only [replyPending] at h
    repeat' (split at h)
    · simp at h
    · exact ih _ _ _ _ h
    · have := ih _ _ _ _ h
      simp only [SameS, sendOrRemove_out_eq, sf_ite, sf_append, sf_single, strictKey_queryIntrospectionReply] at this ⊢
      simpa using this

@[grind →] theorem replyPending_s' {l : List IQuery} {s s' : St} {r m} (h : replyPending s l r m = .ok s') : SameS s s' :=
  replyPending_s _ _ _ _ _ h

theorem removeIntrospectionConn_go_s : ∀ (l : List (Nat × Option Uuid × List IQuery)) (s s' : St),
    removeIntrospectionConn.go s l = .ok s' → SameS s s' := by
  intro l
  induction l with
  | nil => intro s s' h; simp [removeIntrospectionConn.go] at h; subst h; exact SameS.refl _
  | cons a l ih =>
    intro s s' h
    obtain ⟨serial, cont, pending⟩ := a
    simp only [removeIntrospectionConn.go] at h
    repeat' ((try simp only [] at h); split at h)
    all_goals (try (simp at h; done))
    · have h1 := replyPending_s _ _ _ _ _ ‹_›
      have h2 := ih _ _ h
      exact SameS.trans (SameS.trans (by simp [SameS]) h1) h2
    · have h2 := ih _ _ h
      exact SameS.trans (by simp [SameS]) h2
    · have h1 := askIntrospection_s ‹_›
      have h2 := ih _ _ h
      exact SameS.trans (SameS.trans (by simp [SameS]) h1) h2

@[grind →] theorem removeIntrospectionConn_s {s s' : St} {cid} : removeIntrospectionConn s cid = .ok s' → SameS s s' := by
  intro h
  unfold removeIntrospectionConn at h
  simp only [] at h
  have := removeIntrospectionConn_go_s _ _ _ h
  simp_all [SameS]

@[grind →] theorem createObject_rep {s s' : St} {id serial uuid} {ok : Bool} : createObject s id serial uuid = .ok (s', ok) → AtMost s s' id (some (.createObject, serial)) := by
  rep_tac createObject

@[grind →] theorem destroyObject_rep {s s' : St} {id serial c} {ok : Bool} : destroyObject s id serial c = .ok (s', ok) → AtMost s s' id (none) := by
  rep_tac destroyObject

@[grind →] theorem createServiceImpl_rep {s s' : St} {id serial oc uuid info} {ok : Bool} : createServiceImpl s id serial oc uuid info = .ok (s', ok) → AtMost s s' id (some (.createService, serial)) := by
  rep_tac createServiceImpl

@[grind →] theorem createService_rep {s s' : St} {id serial oc uuid v} {ok : Bool} : createService s id serial oc uuid v = .ok (s', ok) → AtMost s s' id (some (.createService, serial)) := by
  rep_tac createService

@[grind →] theorem createService2_rep {s s' : St} {id serial oc uuid info} {ok : Bool} : createService2 s id serial oc uuid info = .ok (s', ok) → AtMost s s' id (some (.createService, serial)) := by
  rep_tac createService2

@[grind →] theorem destroyService_rep {s s' : St} {id serial c} {ok : Bool} : destroyService s id serial c = .ok (s', ok) → AtMost s s' id (none) := by
  rep_tac destroyService

@[grind →] theorem callFunctionImpl_rep {s s' : St} {id serial svc f v p} {ok : Bool} : callFunctionImpl s id serial svc f v p = .ok (s', ok) → AtMost s s' id (none) := by
  rep_tac callFunctionImpl

@[grind →] theorem callFunction2_rep {s s' : St} {id serial svc f v p} {ok : Bool} : callFunction2 s id serial svc f v p = .ok (s', ok) → AtMost s s' id (none) := by
  rep_tac callFunction2

@[grind →] theorem callFunctionReply_rep {s s' : St} {id serial r} {ok : Bool} : callFunctionReply s id serial r = .ok (s', ok) → AtMost s s' id (none) := by
  rep_tac callFunctionReply

@[grind →] theorem abortFunctionCall_rep {s s' : St} {id serial} {ok : Bool} : abortFunctionCall s id serial = .ok (s', ok) → AtMost s s' id (none) := by
  rep_tac abortFunctionCall

@[grind →] theorem subscribeEvent_rep {s s' : St} {id serial svc ev} {ok : Bool} : subscribeEvent s id serial svc ev = .ok (s', ok) → AtMost s s' id (serial.map (fun n => (SKind.subscribeEvent, n))) := by
  rep_tac subscribeEvent

@[grind →] theorem unsubscribeEvent_rep {s s' : St} {id svc ev} {ok : Bool} : unsubscribeEvent s id svc ev = .ok (s', ok) → AtMost s s' id (none) := by
  rep_tac unsubscribeEvent

@[grind →] theorem emitEvent_rep {s s' : St} {id svc ev p} {ok : Bool} : emitEvent s id svc ev p = .ok (s', ok) → AtMost s s' id (none) := by
  intro h; unfold emitEvent at h
  repeat' ((try simp only [] at h); split at h)
  all_goals (try (grind [AtMost, SameS, okH, errH]; done))
  simp only [okH, Except.ok.injEq, Prod.mk.injEq] at h
  obtain ⟨h1, _⟩ := h
  subst h1
  apply AtMost.of_same
  apply foldl_inv (fun s' => SameS s s')
  · intro s1 a hp; split <;> simp_all [SameS]
  · exact SameS.refl _

@[grind →] theorem queryServiceVersion_rep {s s' : St} {id serial svc} {ok : Bool} : queryServiceVersion s id serial svc = .ok (s', ok) → AtMost s s' id (some (.queryServiceVersion, serial)) := by
  rep_tac queryServiceVersion

@[grind →] theorem queryServiceInfo_rep {s s' : St} {id serial svc} {ok : Bool} : queryServiceInfo s id serial svc = .ok (s', ok) → AtMost s s' id (some (.queryServiceInfo, serial)) := by
  rep_tac queryServiceInfo

@[grind →] theorem subscribeService_rep {s s' : St} {id serial svc} {ok : Bool} : subscribeService s id serial svc = .ok (s', ok) → AtMost s s' id (some (.subscribeService, serial)) := by
  rep_tac subscribeService

@[grind →] theorem unsubscribeService_rep {s s' : St} {id svc} {ok : Bool} : unsubscribeService s id svc = .ok (s', ok) → AtMost s s' id (none) := by
  rep_tac unsubscribeService

@[grind →] theorem subscribeAllEvents_rep {s s' : St} {id serial svc} {ok : Bool} : subscribeAllEvents s id serial svc = .ok (s', ok) → AtMost s s' id (serial.map (fun n => (SKind.subscribeAllEvents, n))) := by
  rep_tac subscribeAllEvents

@[grind →] theorem unsubscribeAllEvents_rep {s s' : St} {id serial svc} {ok : Bool} : unsubscribeAllEvents s id serial svc = .ok (s', ok) → AtMost s s' id (serial.map (fun n => (SKind.unsubscribeAllEvents, n))) := by
  rep_tac unsubscribeAllEvents

@[grind →] theorem createChannel_rep {s s' : St} {id serial e cap} {ok : Bool} : createChannel s id serial e cap = .ok (s', ok) → AtMost s s' id (some (.createChannel, serial)) := by
  rep_tac createChannel

@[grind →] theorem closeChannelEnd_rep {s s' : St} {id serial c e} {ok : Bool} : closeChannelEnd s id serial c e = .ok (s', ok) → AtMost s s' id (some (.closeChannelEnd, serial)) := by
  rep_tac closeChannelEnd

@[grind →] theorem claimChannelEnd_rep {s s' : St} {id serial c e cap} {ok : Bool} : claimChannelEnd s id serial c e cap = .ok (s', ok) → AtMost s s' id (some (.claimChannelEnd, serial)) := by
  rep_tac claimChannelEnd

@[grind →] theorem addChannelCapacity_rep {s s' : St} {id c cap} {ok : Bool} : addChannelCapacity s id c cap = .ok (s', ok) → AtMost s s' id (none) := by
  rep_tac addChannelCapacity

@[grind →] theorem sendItem_rep {s s' : St} {id c p} {ok : Bool} : sendItem s id c p = .ok (s', ok) → AtMost s s' id (none) := by
  rep_tac sendItem

@[grind →] theorem sync_rep {s s' : St} {id serial} {ok : Bool} : sync s id serial = .ok (s', ok) → AtMost s s' id (some (.sync, serial)) := by
  rep_tac sync

@[grind →] theorem createBusListener_rep {s s' : St} {id serial} {ok : Bool} : createBusListener s id serial = .ok (s', ok) → AtMost s s' id (some (.createBusListener, serial)) := by
  rep_tac createBusListener

@[grind →] theorem destroyBusListener_rep {s s' : St} {id serial c} {ok : Bool} : destroyBusListener s id serial c = .ok (s', ok) → AtMost s s' id (some (.destroyBusListener, serial)) := by
  rep_tac destroyBusListener

@[grind →] theorem updListener_rep {s s' : St} {id c f} {ok : Bool} : updListener s id c f = .ok (s', ok) → AtMost s s' id (none) := by
  rep_tac updListener

/-- what a run of sends to one connection appends: some of the messages, all addressed to it -/
theorem sendAll_out : ∀ (l : List Rsp) (s : St) (id : ConnId),
    ∃ t, (sendAll s id l).1.out = s.out ++ t ∧ ∀ x ∈ t, x.to = id ∧ x.msg ∈ l := by
  intro l
  induction l with
  | nil => intro s id; exact ⟨[], by simp [sendAll], by simp⟩
  | cons a l ih =>
    intro s id
    simp only [sendAll]
    rcases send_cases s id a none with ⟨h1, h2⟩ | ⟨h1, h2⟩
    · obtain ⟨t, ht, hx⟩ := ih (s.send id a).1 id
      refine ⟨⟨id, a, none⟩ :: t, ?_, ?_⟩
      · simp [h1, ht, h2]
      · intro x hxm
        simp only [List.mem_cons] at hxm
        rcases hxm with rfl | hxm
        · simp
        · exact ⟨(hx x hxm).1, by simp [(hx x hxm).2]⟩
    · exact ⟨[], by simp [h1, h2], by simp⟩

theorem currentObjMsgs_ns (b : Broker) (l : Listener) (c : Cookie) (o) : ∀ m ∈ currentObjMsgs b l c o, ∃ e, m = .emitBusEvent (some c) e := by
  intro m hm
  unfold currentObjMsgs at hm
  split at hm
  · simp only [List.mem_filterMap, Option.map_eq_some_iff] at hm
    obtain ⟨_, _, _, _, rfl⟩ := hm; exact ⟨_, rfl⟩
  · simp only [List.mem_filterMap] at hm
    obtain ⟨_, _, h⟩ := hm
    split at h <;> simp at h
    subst h; exact ⟨_, rfl⟩

theorem currentSvcMsgs_ns (b : Broker) (l : Listener) (c : Cookie) (o) : ∀ m ∈ currentSvcMsgs b l c o, ∃ e, m = .emitBusEvent (some c) e := by
  intro m hm
  unfold currentSvcMsgs at hm
  split at hm
  · simp only [List.mem_filterMap, Option.map_eq_some_iff] at hm
    obtain ⟨_, _, _, _, rfl⟩ := hm; exact ⟨_, rfl⟩
  · simp only [List.mem_filterMap] at hm
    obtain ⟨_, _, h⟩ := hm
    split at h <;> simp at h
    subst h; exact ⟨_, rfl⟩

/-- the messages that answer the start of a listener with a scope that includes what exists: tagged created-events, then the marker -/
theorem current_msgs_form (b : Broker) (l : Listener) (c : Cookie) (so ss) :
    ∀ m ∈ currentObjMsgs b l c so ++ currentSvcMsgs b l c ss ++ [.busListenerCurrentFinished c], strictKey m = none := by
  intro m hm
  simp only [List.mem_append, List.mem_singleton] at hm
  rcases hm with (hm | hm) | rfl
  · obtain ⟨e, rfl⟩ := currentObjMsgs_ns _ _ _ _ m hm; rfl
  · obtain ⟨e, rfl⟩ := currentSvcMsgs_ns _ _ _ _ m hm; rfl
  · rfl

/-- at most one serial reply was added, to `id`, with the given kind and serial; whatever follows it is tagged and goes to `id` too -/
def AtMostT (s s' : St) (id : ConnId) (key : Option (SKind × Nat)) : Prop :=
  sf s'.out = sf s.out ∨ ∃ o t, sf s'.out = sf s.out ++ o :: t ∧ o.to = id ∧ strictKey o.msg = key ∧ key.isSome ∧
    ∀ x ∈ t, x.to = id ∧ strictKey x.msg = none

theorem AtMost.toT {s s' : St} {id key} (h : AtMost s s' id key) : AtMostT s s' id key := by
  rcases h with h | ⟨o, h1, h2, h3, h4⟩
  · exact Or.inl h
  · exact Or.inr ⟨o, [], h1, h2, h3, h4, by simp⟩

theorem mem_sf {x : Out} {l : List Out} (h : x ∈ sf l) : x ∈ l := (List.mem_filter.mp h).1

theorem startBusListener_rep {s s' : St} {id serial c sc} {ok : Bool} : startBusListener s id serial c sc = .ok (s', ok) → AtMostT s s' id (some (.startBusListener, serial)) := by
  intro h; unfold startBusListener at h
  repeat' ((try simp only [] at h); split at h)
  all_goals (try (apply AtMost.toT; grind [AtMost, SameS, okH, errH]; done))
  all_goals (try (simp only [okH, errH, Except.ok.injEq, Prod.mk.injEq] at h))
  all_goals (try (obtain ⟨h1, h2⟩ := h; subst h1; subst h2))
  all_goals (try (apply AtMost.toT; simp_all [AtMost, SameS]; done))
  all_goals
    have h' := congrArg Prod.fst h
    replace h' : _ = s' := h'
    subst h'
    clear h
    rename_i so ss _ _
    obtain ⟨t, ht, hx⟩ := sendAll_out (currentObjMsgs (St.send (s.setListeners _) id (Rsp.startBusListenerReply serial ListenerRes.ok)).1.b _ c so ++
      currentSvcMsgs (St.send (s.setListeners _) id (Rsp.startBusListenerReply serial ListenerRes.ok)).1.b _ c ss ++ [.busListenerCurrentFinished c])
      (St.send (s.setListeners _) id (Rsp.startBusListenerReply serial ListenerRes.ok)).1 id
    refine Or.inr ⟨⟨id, .startBusListenerReply serial .ok, none⟩, sf t, ?_, rfl, rfl, rfl, ?_⟩
    · rw [ht, sf_append, send_out_eq, if_pos (by simpa using ‹¬(!_) = true›)]; simp
    · intro x hxm
      have := hx x (mem_sf hxm)
      exact ⟨this.1, current_msgs_form _ _ _ _ _ _ this.2⟩

@[grind →] theorem stopBusListener_rep {s s' : St} {id serial c} {ok : Bool} : stopBusListener s id serial c = .ok (s', ok) → AtMost s s' id (some (.stopBusListener, serial)) := by
  rep_tac stopBusListener

@[grind →] theorem registerIntrospection_rep {s s' : St} {id tys} {ok : Bool} : registerIntrospection s id tys = .ok (s', ok) → AtMost s s' id (none) := by
  intro h; unfold registerIntrospection at h
  repeat' ((try simp only [] at h); split at h)
  all_goals (try (grind [AtMost, SameS, okH, errH]; done))
  simp only [okH, Except.ok.injEq, Prod.mk.injEq] at h
  obtain ⟨h1, _⟩ := h
  subst h1
  apply AtMost.of_same
  apply foldl_inv (fun s' => SameS s s')
  · intro s1 a hp; simp_all [SameS]
  · exact SameS.refl _

@[grind →] theorem queryIntrospection_rep {s s' : St} {id serial ty} {ok : Bool} : queryIntrospection s id serial ty = .ok (s', ok) → AtMost s s' id (none) := by
  rep_tac queryIntrospection

@[grind →] theorem queryIntrospectionReply_rep {s s' : St} {id serial r} {ok : Bool} : queryIntrospectionReply s id serial r = .ok (s', ok) → AtMost s s' id (none) := by
  rep_tac queryIntrospectionReply

/-! ### dispatch, connection teardown, the work loop -/

theorem handleMessage_rep {s s' : St} {id : ConnId} {m : Req} {ok : Bool}
    (hr : handleMessage s id m = .ok (s', ok)) : AtMostT s s' id (reqKeyS m) := by
  cases m <;> simp only [handleMessage] at hr
  case createObject => exact (createObject_rep hr).toT
  case destroyObject => exact (destroyObject_rep hr).toT
  case createService => exact (createService_rep hr).toT
  case createService2 => exact (createService2_rep hr).toT
  case destroyService => exact (destroyService_rep hr).toT
  case callFunction => exact (callFunctionImpl_rep hr).toT
  case callFunction2 => exact (callFunction2_rep hr).toT
  case callFunctionReply => exact (callFunctionReply_rep hr).toT
  case abortFunctionCall => exact (abortFunctionCall_rep hr).toT
  case subscribeEvent serial _ _ => cases serial <;> exact (subscribeEvent_rep hr).toT
  case unsubscribeEvent => exact (unsubscribeEvent_rep hr).toT
  case emitEvent => exact (emitEvent_rep hr).toT
  case queryServiceVersion => exact (queryServiceVersion_rep hr).toT
  case queryServiceInfo => exact (queryServiceInfo_rep hr).toT
  case subscribeService => exact (subscribeService_rep hr).toT
  case unsubscribeService => exact (unsubscribeService_rep hr).toT
  case subscribeAllEvents serial _ => cases serial <;> exact (subscribeAllEvents_rep hr).toT
  case unsubscribeAllEvents serial _ => cases serial <;> exact (unsubscribeAllEvents_rep hr).toT
  case createChannel => exact (createChannel_rep hr).toT
  case closeChannelEnd => exact (closeChannelEnd_rep hr).toT
  case claimChannelEnd => exact (claimChannelEnd_rep hr).toT
  case sendItem => exact (sendItem_rep hr).toT
  case addChannelCapacity => exact (addChannelCapacity_rep hr).toT
  case sync => exact (sync_rep hr).toT
  case createBusListener => exact (createBusListener_rep hr).toT
  case destroyBusListener => exact (destroyBusListener_rep hr).toT
  case addFilter f => exact (updListener_rep hr).toT
  case removeFilter f => exact (updListener_rep hr).toT
  case clearFilters => exact (updListener_rep hr).toT
  case startBusListener => exact startBusListener_rep hr
  case stopBusListener => exact (stopBusListener_rep hr).toT
  case registerIntrospection => exact (registerIntrospection_rep hr).toT
  case queryIntrospection => exact (queryIntrospection_rep hr).toT
  case queryIntrospectionReply => exact (queryIntrospectionReply_rep hr).toT
  case other => simp [errH] at hr; exact Or.inl (by rw [hr.1])

theorem shutdownConnection_s {s s' : St} {id b} (hr : shutdownConnection s id b = .ok s') : SameS s s' := by
  unfold shutdownConnection at hr
  split at hr
  · simp at hr; exact hr ▸ SameS.refl _
  · rename_i conn hconn
    simp only [] at hr
    repeat' (split at hr)
    all_goals (try (simp at hr; done))
    rename_i s1 h1 _ s2 h2 _ s3 h3 _ s4 h4 _ s5 h5 _ s6 h6
    have i1 : SameS s s1 := by
      refine foldE_inv (SameS s) _ (fun s a s' hp hr => SameS.trans hp (removeObject_s hr)) _ _ _ ?_ h1
      apply foldl_inv (SameS s) _ (fun s a hp => by simpa [SameS] using hp)
      split <;> (try split) <;> simp [SameS]
    have i2 := foldE_inv (SameS s) _ (fun s a s' hp hr => SameS.trans hp (removeEventSubscription_s hr)) _ _ _ i1 h2
    have i3 := foldE_inv (SameS s) _ (fun s a s' hp hr => SameS.trans hp (removeAllEventsSubscription_s hr)) _ _ _ i2 h3
    have i4 := foldE_inv (SameS s) _ (fun s a s' hp hr => SameS.trans hp (removeSubscription_s hr)) _ _ _ i3 h4
    have i5 := foldE_inv (SameS s) _ (fun s a s' hp hr => SameS.trans hp (removeChannelEnd_s hr)) _ _ _ i4 h5
    have i6 := foldE_inv (SameS s) _ (fun s a s' hp hr => SameS.trans hp (removeChannelEnd_s hr)) _ _ _ i5 h6
    refine SameS.trans ?_ (removeIntrospectionConn_s hr)
    refine SameS.trans (b := List.foldl (fun s (p : Nat × (Nat × ConnId)) => (s.setWAbortCalls ((p.2.1, p.2.2) :: s.w.abortCalls))) s6 conn.calls) ?_ (by simp [SameS])
    apply foldl_inv (SameS s) _ ?_ _ _ i6
    intro s a hp
    simpa [SameS] using hp

theorem handleEvent_rep {s s' : St} {e : Event} (hr : handleEvent s e = .ok s') :
    match e with
    | .msg id m => AtMostT s s' id (reqKeyS m)
    | _ => SameS s s' := by
  cases e <;> simp only [handleEvent] at hr
  case msg id m =>
    split at hr
    · simp at hr
    · rename_i s1 ok hm
      have := handleMessage_rep hm
      simp only [Except.ok.injEq] at hr
      subst hr
      simp only [AtMostT, St.stat_out] at this ⊢
      split <;> simpa using this
  case newConn id v =>
    split at hr
    · simp at hr
    · simp only [Except.ok.injEq] at hr; subst hr; simp [SameS]
  all_goals (simp only [Except.ok.injEq] at hr; subst hr; simp [SameS])

theorem emitBusEvent_s (s : St) (e : BusEv) : SameS s (emitBusEvent s e) := by
  unfold emitBusEvent
  simp only []
  apply foldl_inv (fun s' => SameS s s')
  · intro s1 a hp; split <;> simp_all [SameS]
  · exact SameS.refl _

@[grind →] theorem abortCall_s {s s' : St} {serial cid} : abortCall s serial cid = .ok s' → SameS s s' := by
  intro h; unfold abortCall at h
  repeat' ((try simp only [] at h); split at h)
  all_goals (try subst_vars)
  all_goals (try (simp_all [SameS]; done))
  all_goals (try (grind [SameS]; done))

theorem processOne_s {s s' : St} (hr : processOne s = some (.ok s')) : SameS s s' := by
  unfold processOne at hr
  repeat' (split at hr)
  all_goals (try (simp only [Option.some.injEq, reduceCtorEq] at hr))
  all_goals first
    | (refine SameS.trans (b := s.setWRemoveConns _) ?_ (shutdownConnection_s hr); simp [SameS]; done)
    | (refine SameS.trans (b := s.setWAbortCalls _) ?_ (abortCall_s hr); simp [SameS]; done)
    | (simp only [Except.ok.injEq] at hr; subst hr; simp [SameS]; done)
    | (simp only [Except.ok.injEq] at hr; subst hr; refine SameS.trans (b := s.setWCreateObject _) ?_ (emitBusEvent_s _ _); simp [SameS]; done)
    | (simp only [Except.ok.injEq] at hr; subst hr; refine SameS.trans (b := s.setWCreateService _) ?_ (emitBusEvent_s _ _); simp [SameS]; done)
    | (simp only [Except.ok.injEq] at hr; subst hr; refine SameS.trans (b := s.setWDestroyService _) ?_ (emitBusEvent_s _ _); simp [SameS]; done)
    | (simp only [Except.ok.injEq] at hr; subst hr; refine SameS.trans (b := s.setWDestroyObject _) ?_ (emitBusEvent_s _ _); simp [SameS]; done)
    | (simp only [Except.ok.injEq] at hr; subst hr; split <;> simp [SameS]; done)
    | (split at hr <;> (try split at hr) <;> (try simp only [Except.ok.injEq, reduceCtorEq] at hr) <;>
        first | (exact hr.elim) | (subst hr; simp [SameS]; done))

theorem processLoop_s : ∀ (fuel : Nat) (s s' : St), processLoop fuel s = .ok s' → SameS s s' := by
  intro fuel
  induction fuel with
  | zero => intro s s' hr; simp [processLoop] at hr
  | succ n ih =>
    intro s s' hr
    simp only [processLoop] at hr
    split at hr
    · simp at hr; exact hr ▸ SameS.refl _
    · simp at hr
    · exact SameS.trans (processOne_s ‹_›) (ih _ _ hr)

/-- what one turn of `Broker::run` puts into the queues, as far as checked serials and tags go -/
def OneReply (id : ConnId) (key : Option (SKind × Nat)) (out : List Out) : Prop :=
  sf out = [] ∨ ∃ o t, sf out = o :: t ∧ o.to = id ∧ strictKey o.msg = key ∧ key.isSome ∧ ∀ x ∈ t, x.to = id ∧ strictKey x.msg = none

/-- Handling a request appends at most one reply with a checked serial: to the requesting connection, of the
request's kind, under the request's serial; tagged messages only follow such a reply and go to the same connection. -/
theorem step_msg_reply {b b' : Broker} {w w' : Work} {id : ConnId} {m : Req} {out : List Out}
    (hr : step b w (.msg id m) = .ok (b', w', out)) : OneReply id (reqKeyS m) out := by
  unfold step at hr
  split at hr
  · simp at hr
  · rename_i s1 h1
    split at hr
    · simp at hr
    · rename_i s2 h2
      simp only [Except.ok.injEq, Prod.mk.injEq] at hr
      obtain ⟨_, _, rfl⟩ := hr
      have a := handleEvent_rep h1
      have l := processLoop_s _ _ _ h2
      simp only [AtMostT, sf_nil, List.nil_append] at a
      simp only [SameS] at l
      simpa only [OneReply, l] using a

/-- No other event of `Broker::run` appends a reply with a checked serial. -/
theorem step_other_no_reply {b b' : Broker} {w w' : Work} {e : Event} {out : List Out}
    (he : ∀ id m, e ≠ .msg id m) (hr : step b w e = .ok (b', w', out)) : sf out = [] := by
  unfold step at hr
  split at hr
  · simp at hr
  · rename_i s1 h1
    split at hr
    · simp at hr
    · rename_i s2 h2
      simp only [Except.ok.injEq, Prod.mk.injEq] at hr
      obtain ⟨_, _, rfl⟩ := hr
      have a := handleEvent_rep h1
      have l := processLoop_s _ _ _ h2
      cases e <;> simp only [SameS, sf_nil] at a l
      case msg id m => exact absurd rfl (he id m)
      all_goals (rw [l, a])

end Aldrin.Broker
