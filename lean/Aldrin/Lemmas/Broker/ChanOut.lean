/-
Which functions of the broker model put nothing about channels into any queue (no reply to a channel request, no
notification about a channel end, no item, no capacity): everything but the five channel handlers and the clean-up of
channel ends.
-/
import Aldrin.Lemmas.Broker.Replies
import Aldrin.Lemmas.Client.ChannelView

namespace Aldrin.Broker
open Aldrin.Client (isC)

@[simp, grind =] theorem isC_createObjectReply {a0 a1} : Aldrin.Client.isC (.createObjectReply a0 a1) = false := rfl
@[simp, grind =] theorem isC_destroyObjectReply {a0 a1} : Aldrin.Client.isC (.destroyObjectReply a0 a1) = false := rfl
@[simp, grind =] theorem isC_createServiceReply {a0 a1} : Aldrin.Client.isC (.createServiceReply a0 a1) = false := rfl
@[simp, grind =] theorem isC_destroyServiceReply {a0 a1} : Aldrin.Client.isC (.destroyServiceReply a0 a1) = false := rfl
@[simp, grind =] theorem isC_callFunction {a0 a1 a2 a3} : Aldrin.Client.isC (.callFunction a0 a1 a2 a3) = false := rfl
@[simp, grind =] theorem isC_callFunction2 {a0 a1 a2 a3 a4} : Aldrin.Client.isC (.callFunction2 a0 a1 a2 a3 a4) = false := rfl
@[simp, grind =] theorem isC_callFunctionReply {a0 a1} : Aldrin.Client.isC (.callFunctionReply a0 a1) = false := rfl
@[simp, grind =] theorem isC_abortFunctionCall {a0} : Aldrin.Client.isC (.abortFunctionCall a0) = false := rfl
@[simp, grind =] theorem isC_subscribeEvent {a0 a1} : Aldrin.Client.isC (.subscribeEvent a0 a1) = false := rfl
@[simp, grind =] theorem isC_subscribeEventReply {a0 a1} : Aldrin.Client.isC (.subscribeEventReply a0 a1) = false := rfl
@[simp, grind =] theorem isC_unsubscribeEvent {a0 a1} : Aldrin.Client.isC (.unsubscribeEvent a0 a1) = false := rfl
@[simp, grind =] theorem isC_emitEvent {a0 a1 a2} : Aldrin.Client.isC (.emitEvent a0 a1 a2) = false := rfl
@[simp, grind =] theorem isC_queryServiceVersionReply {a0 a1} : Aldrin.Client.isC (.queryServiceVersionReply a0 a1) = false := rfl
@[simp, grind =] theorem isC_queryServiceInfoReply {a0 a1} : Aldrin.Client.isC (.queryServiceInfoReply a0 a1) = false := rfl
@[simp, grind =] theorem isC_subscribeServiceReply {a0 a1} : Aldrin.Client.isC (.subscribeServiceReply a0 a1) = false := rfl
@[simp, grind =] theorem isC_subscribeAllEvents {a0} : Aldrin.Client.isC (.subscribeAllEvents a0) = false := rfl
@[simp, grind =] theorem isC_subscribeAllEventsReply {a0 a1} : Aldrin.Client.isC (.subscribeAllEventsReply a0 a1) = false := rfl
@[simp, grind =] theorem isC_unsubscribeAllEvents {a0} : Aldrin.Client.isC (.unsubscribeAllEvents a0) = false := rfl
@[simp, grind =] theorem isC_unsubscribeAllEventsReply {a0 a1} : Aldrin.Client.isC (.unsubscribeAllEventsReply a0 a1) = false := rfl
@[simp, grind =] theorem isC_serviceDestroyed {a0} : Aldrin.Client.isC (.serviceDestroyed a0) = false := rfl
@[simp, grind =] theorem isC_createChannelReply {a0 a1} : Aldrin.Client.isC (.createChannelReply a0 a1) = true := rfl
@[simp, grind =] theorem isC_closeChannelEndReply {a0 a1} : Aldrin.Client.isC (.closeChannelEndReply a0 a1) = true := rfl
@[simp, grind =] theorem isC_channelEndClosed {a0 a1} : Aldrin.Client.isC (.channelEndClosed a0 a1) = true := rfl
@[simp, grind =] theorem isC_claimChannelEndReply {a0 a1} : Aldrin.Client.isC (.claimChannelEndReply a0 a1) = true := rfl
@[simp, grind =] theorem isC_channelEndClaimed {a0 a1 a2} : Aldrin.Client.isC (.channelEndClaimed a0 a1 a2) = true := rfl
@[simp, grind =] theorem isC_itemReceived {a0 a1} : Aldrin.Client.isC (.itemReceived a0 a1) = true := rfl
@[simp, grind =] theorem isC_addChannelCapacity {a0 a1} : Aldrin.Client.isC (.addChannelCapacity a0 a1) = true := rfl
@[simp, grind =] theorem isC_syncReply {a0} : Aldrin.Client.isC (.syncReply a0) = false := rfl
@[simp, grind =] theorem isC_createBusListenerReply {a0 a1} : Aldrin.Client.isC (.createBusListenerReply a0 a1) = false := rfl
@[simp, grind =] theorem isC_destroyBusListenerReply {a0 a1} : Aldrin.Client.isC (.destroyBusListenerReply a0 a1) = false := rfl
@[simp, grind =] theorem isC_startBusListenerReply {a0 a1} : Aldrin.Client.isC (.startBusListenerReply a0 a1) = false := rfl
@[simp, grind =] theorem isC_stopBusListenerReply {a0 a1} : Aldrin.Client.isC (.stopBusListenerReply a0 a1) = false := rfl
@[simp, grind =] theorem isC_emitBusEvent {a0 a1} : Aldrin.Client.isC (.emitBusEvent a0 a1) = false := rfl
@[simp, grind =] theorem isC_busListenerCurrentFinished {a0} : Aldrin.Client.isC (.busListenerCurrentFinished a0) = false := rfl
@[simp, grind =] theorem isC_queryIntrospection {a0 a1} : Aldrin.Client.isC (.queryIntrospection a0 a1) = false := rfl
@[simp, grind =] theorem isC_queryIntrospectionReply {a0 a1} : Aldrin.Client.isC (.queryIntrospectionReply a0 a1) = false := rfl
@[simp, grind =] theorem isC_shutdown : Aldrin.Client.isC .shutdown = false := rfl

/-- the channel messages among the outputs -/
def cf (l : List Out) : List Out := l.filter (fun o => isC o.msg)

@[simp, grind =] theorem cf_append (a b : List Out) : cf (a ++ b) = cf a ++ cf b := by simp [cf]
@[simp, grind =] theorem cf_nil : cf [] = [] := rfl
@[simp, grind =] theorem cf_single (o : Out) : cf [o] = if isC o.msg then [o] else [] := by
  cases h : isC o.msg <;> simp [cf, h]
theorem cf_cons (o : Out) (t : List Out) : cf (o :: t) = cf [o] ++ cf t := by
  rw [← cf_append]; rfl
@[simp] theorem cf_ite (c : Prop) [Decidable c] (a b : List Out) :
    cf (if c then a else b) = if c then cf a else cf b := by split <;> rfl

/-- nothing about channels was added -/
def SameC (s s' : St) : Prop := cf s'.out = cf s.out

theorem SameC.refl (s : St) : SameC s s := rfl
theorem SameC.trans {a b c : St} (h1 : SameC a b) (h2 : SameC b c) : SameC a c := Eq.trans h2 h1

syntax "samec_tac" ident : tactic
macro_rules
  | `(tactic| samec_tac $f) => `(tactic|
      (intro h; unfold $f at h
       repeat' ((try simp only [] at h); split at h)
       all_goals (try (grind [SameC, okH, errH]; done))
       all_goals (try (simp only [okH, errH, Except.ok.injEq, Prod.mk.injEq] at h))
       all_goals (try (obtain ⟨h1, h2⟩ := h; subst h1; subst h2))
       all_goals (try subst_vars)
       all_goals (try (simp_all [okH, errH, SameC]; done))
       all_goals (try grind [SameC])))

theorem removeService_calls_c : ∀ (l : List Nat) (s s' : St), removeService.calls s l = .ok s' → SameC s s' := by
  intro l
  induction l with
  | nil => intro s s' h; simp [removeService.calls] at h; subst h; exact SameC.refl _
  | cons a l ih =>
    intro s s' h
    simp only [removeService.calls] at h
    split at h
    · simp at h
    · have := ih _ _ h
      split at this <;> simp_all [SameC]

@[grind →] theorem removeService_c {s s' : St} {c : Cookie} : removeService s c = .ok s' → SameC s s' := by
  intro h
  unfold removeService at h
  split at h
  · simp_all [SameC]
  · (try simp only [] at h)
    split at h
    · simp at h
    · (try simp only [] at h)
      split at h
      · simp at h
      · rename_i s1 hc
        have h1 := removeService_calls_c _ _ _ hc
        simp only [Except.ok.injEq] at h
        subst h
        refine SameC.trans (SameC.trans ?_ h1) ?_
        · split <;> simp [SameC]
        · simp only [SameC, St.stat_out]
          exact foldl_inv (fun s => cf s.out = cf s1.out) _
            (by intro s a hp; split <;> simp_all) _ _ rfl

@[grind →] theorem removeEventSubscription_c {s s' : St} {cid c ev} : removeEventSubscription s cid c ev = .ok s' → SameC s s' := by
  samec_tac removeEventSubscription

theorem removeObject_svcs_c : ∀ (l : List Cookie) (s s' : St), removeObject.svcs s l = .ok s' → SameC s s' := by
  intro l
  induction l with
  | nil => intro s s' h; simp [removeObject.svcs] at h; subst h; exact SameC.refl _
  | cons a l ih =>
    intro s s' h
    simp only [removeObject.svcs] at h
    split at h
    · simp at h
    · exact SameC.trans (removeService_c ‹_›) (ih _ _ h)

@[grind →] theorem removeObject_c {s s' : St} {c : Cookie} : removeObject s c = .ok s' → SameC s s' := by
  intro h
  unfold removeObject at h
  repeat' ((try simp only [] at h); split at h)
  all_goals (try simp_all [SameC])
  rename_i hs
  have := removeObject_svcs_c _ _ _ hs
  subst_vars
  simp_all [SameC]

@[grind →] theorem removeAllEventsSubscription_c {s s' : St} {cid c} : removeAllEventsSubscription s cid c = .ok s' → SameC s s' := by
  samec_tac removeAllEventsSubscription

@[grind →] theorem removeSubscription_c {s s' : St} {cid c} : removeSubscription s cid c = .ok s' → SameC s s' := by
  samec_tac removeSubscription

@[grind →] theorem askIntrospection_c {s s' : St} {ty e} : askIntrospection s ty e = .ok s' → SameC s s' := by
  samec_tac askIntrospection

theorem replyPending_c : ∀ (l : List IQuery) (s s' : St) (r m), replyPending s l r m = .ok s' → SameC s s' := by
  intro l
  induction l with
  | nil => intro s s' r m h; simp [replyPending] at h; subst h; exact SameC.refl _
  | cons a l ih =>
    intro s s' r m h
    simp only [replyPending] at h
    repeat' (split at h)
    · simp at h
    · exact ih _ _ _ _ h
    · have := ih _ _ _ _ h
      simp only [SameC, sendOrRemove_out_eq, cf_ite, cf_append, cf_single, strictKey_queryIntrospectionReply] at this ⊢
      simpa using this

@[grind →] theorem replyPending_c' {l : List IQuery} {s s' : St} {r m} (h : replyPending s l r m = .ok s') : SameC s s' :=
  replyPending_c _ _ _ _ _ h

theorem removeIntrospectionConn_go_c : ∀ (l : List (Nat × Option Uuid × List IQuery)) (s s' : St),
    removeIntrospectionConn.go s l = .ok s' → SameC s s' := by
  intro l
  induction l with
  | nil => intro s s' h; simp [removeIntrospectionConn.go] at h; subst h; exact SameC.refl _
  | cons a l ih =>
    intro s s' h
    obtain ⟨serial, cont, pending⟩ := a
    simp only [removeIntrospectionConn.go] at h
    repeat' ((try simp only [] at h); split at h)
    all_goals (try (simp at h; done))
    · have h1 := replyPending_c _ _ _ _ _ ‹_›
      have h2 := ih _ _ h
      exact SameC.trans (SameC.trans (by simp [SameC]) h1) h2
    · have h2 := ih _ _ h
      exact SameC.trans (by simp [SameC]) h2
    · have h1 := askIntrospection_c ‹_›
      have h2 := ih _ _ h
      exact SameC.trans (SameC.trans (by simp [SameC]) h1) h2

@[grind →] theorem removeIntrospectionConn_c {s s' : St} {cid} : removeIntrospectionConn s cid = .ok s' → SameC s s' := by
  intro h
  unfold removeIntrospectionConn at h
  simp only [] at h
  have := removeIntrospectionConn_go_c _ _ _ h
  simp_all [SameC]

@[grind →] theorem createObject_c {s s' : St} {id serial uuid} {ok : Bool} : createObject s id serial uuid = .ok (s', ok) → SameC s s' := by
  samec_tac createObject

@[grind →] theorem destroyObject_c {s s' : St} {id serial c} {ok : Bool} : destroyObject s id serial c = .ok (s', ok) → SameC s s' := by
  samec_tac destroyObject

@[grind →] theorem createServiceImpl_c {s s' : St} {id serial oc uuid info} {ok : Bool} : createServiceImpl s id serial oc uuid info = .ok (s', ok) → SameC s s' := by
  samec_tac createServiceImpl

@[grind →] theorem createService_c {s s' : St} {id serial oc uuid v} {ok : Bool} : createService s id serial oc uuid v = .ok (s', ok) → SameC s s' := by
  samec_tac createService

@[grind →] theorem createService2_c {s s' : St} {id serial oc uuid info} {ok : Bool} : createService2 s id serial oc uuid info = .ok (s', ok) → SameC s s' := by
  samec_tac createService2

@[grind →] theorem destroyService_c {s s' : St} {id serial c} {ok : Bool} : destroyService s id serial c = .ok (s', ok) → SameC s s' := by
  samec_tac destroyService

@[grind →] theorem callFunctionImpl_c {s s' : St} {id serial svc f v p} {ok : Bool} : callFunctionImpl s id serial svc f v p = .ok (s', ok) → SameC s s' := by
  samec_tac callFunctionImpl

@[grind →] theorem callFunction2_c {s s' : St} {id serial svc f v p} {ok : Bool} : callFunction2 s id serial svc f v p = .ok (s', ok) → SameC s s' := by
  samec_tac callFunction2

@[grind →] theorem callFunctionReply_c {s s' : St} {id serial r} {ok : Bool} : callFunctionReply s id serial r = .ok (s', ok) → SameC s s' := by
  samec_tac callFunctionReply

@[grind →] theorem abortFunctionCall_c {s s' : St} {id serial} {ok : Bool} : abortFunctionCall s id serial = .ok (s', ok) → SameC s s' := by
  samec_tac abortFunctionCall

@[grind →] theorem subscribeEvent_c {s s' : St} {id serial svc ev} {ok : Bool} : subscribeEvent s id serial svc ev = .ok (s', ok) → SameC s s' := by
  samec_tac subscribeEvent

@[grind →] theorem unsubscribeEvent_c {s s' : St} {id svc ev} {ok : Bool} : unsubscribeEvent s id svc ev = .ok (s', ok) → SameC s s' := by
  samec_tac unsubscribeEvent

@[grind →] theorem queryServiceVersion_c {s s' : St} {id serial svc} {ok : Bool} : queryServiceVersion s id serial svc = .ok (s', ok) → SameC s s' := by
  samec_tac queryServiceVersion

@[grind →] theorem queryServiceInfo_c {s s' : St} {id serial svc} {ok : Bool} : queryServiceInfo s id serial svc = .ok (s', ok) → SameC s s' := by
  samec_tac queryServiceInfo

@[grind →] theorem subscribeService_c {s s' : St} {id serial svc} {ok : Bool} : subscribeService s id serial svc = .ok (s', ok) → SameC s s' := by
  samec_tac subscribeService

@[grind →] theorem unsubscribeService_c {s s' : St} {id svc} {ok : Bool} : unsubscribeService s id svc = .ok (s', ok) → SameC s s' := by
  samec_tac unsubscribeService

@[grind →] theorem subscribeAllEvents_c {s s' : St} {id serial svc} {ok : Bool} : subscribeAllEvents s id serial svc = .ok (s', ok) → SameC s s' := by
  samec_tac subscribeAllEvents

@[grind →] theorem unsubscribeAllEvents_c {s s' : St} {id serial svc} {ok : Bool} : unsubscribeAllEvents s id serial svc = .ok (s', ok) → SameC s s' := by
  samec_tac unsubscribeAllEvents

@[grind →] theorem sync_c {s s' : St} {id serial} {ok : Bool} : sync s id serial = .ok (s', ok) → SameC s s' := by
  samec_tac sync

@[grind →] theorem createBusListener_c {s s' : St} {id serial} {ok : Bool} : createBusListener s id serial = .ok (s', ok) → SameC s s' := by
  samec_tac createBusListener

@[grind →] theorem destroyBusListener_c {s s' : St} {id serial c} {ok : Bool} : destroyBusListener s id serial c = .ok (s', ok) → SameC s s' := by
  samec_tac destroyBusListener

@[grind →] theorem updListener_c {s s' : St} {id c f} {ok : Bool} : updListener s id c f = .ok (s', ok) → SameC s s' := by
  samec_tac updListener

@[grind →] theorem stopBusListener_c {s s' : St} {id serial c} {ok : Bool} : stopBusListener s id serial c = .ok (s', ok) → SameC s s' := by
  samec_tac stopBusListener

@[grind →] theorem queryIntrospection_c {s s' : St} {id serial ty} {ok : Bool} : queryIntrospection s id serial ty = .ok (s', ok) → SameC s s' := by
  samec_tac queryIntrospection

@[grind →] theorem queryIntrospectionReply_c {s s' : St} {id serial r} {ok : Bool} : queryIntrospectionReply s id serial r = .ok (s', ok) → SameC s s' := by
  samec_tac queryIntrospectionReply

@[grind →] theorem emitEvent_c {s s' : St} {id svc ev p} {ok : Bool} : emitEvent s id svc ev p = .ok (s', ok) → SameC s s' := by
  intro h; unfold emitEvent at h
  repeat' ((try simp only [] at h); split at h)
  all_goals (try (grind [SameC, okH, errH]; done))
  simp only [okH, Except.ok.injEq, Prod.mk.injEq] at h
  obtain ⟨h1, _⟩ := h
  subst h1
  apply foldl_inv (fun s' => SameC s s')
  · intro s1 a hp; split <;> simp_all [SameC]
  · exact SameC.refl _

@[grind →] theorem registerIntrospection_c {s s' : St} {id tys} {ok : Bool} : registerIntrospection s id tys = .ok (s', ok) → SameC s s' := by
  intro h; unfold registerIntrospection at h
  repeat' ((try simp only [] at h); split at h)
  all_goals (try (grind [SameC, okH, errH]; done))
  simp only [okH, Except.ok.injEq, Prod.mk.injEq] at h
  obtain ⟨h1, _⟩ := h
  subst h1
  apply foldl_inv (fun s' => SameC s s')
  · intro s1 a hp; simp_all [SameC]
  · exact SameC.refl _

theorem sendAll_c : ∀ (l : List Rsp) (s : St) (id : ConnId), (∀ m ∈ l, isC m = false) → SameC s (sendAll s id l).1 := by
  intro l
  induction l with
  | nil => intro s id _; exact SameC.refl _
  | cons a l ih =>
    intro s id hl
    simp only [sendAll]
    have ha : isC a = false := hl a (by simp)
    split
    · have := ih (s.send id a).1 id (fun m hm => hl m (by simp [hm]))
      simp_all [SameC]
    · simp [SameC, ha]

@[grind →] theorem startBusListener_c {s s' : St} {id serial c sc} {ok : Bool} : startBusListener s id serial c sc = .ok (s', ok) → SameC s s' := by
  intro h; unfold startBusListener at h
  repeat' ((try simp only [] at h); split at h)
  all_goals (try (grind [SameC, okH, errH]; done))
  all_goals (try (simp only [okH, errH, Except.ok.injEq, Prod.mk.injEq] at h))
  all_goals (try (obtain ⟨h1, h2⟩ := h; subst h1; subst h2))
  all_goals (try (simp_all [SameC]; done))
  all_goals
    have h' := congrArg Prod.fst h
    replace h' : _ = s' := h'
    subst h'
    clear h
    refine SameC.trans ?_ (sendAll_c _ _ _ ?_)
    · simp [SameC]
    · intro m hm
      simp only [List.mem_append, List.mem_singleton] at hm
      rcases hm with (hm | hm) | rfl
      · obtain ⟨e, rfl⟩ := currentObjMsgs_ns _ _ _ _ m hm; rfl
      · obtain ⟨e, rfl⟩ := currentSvcMsgs_ns _ _ _ _ m hm; rfl
      · rfl

theorem emitBusEvent_c (s : St) (e : BusEv) : SameC s (emitBusEvent s e) := by
  unfold emitBusEvent
  simp only []
  apply foldl_inv (fun s' => SameC s s')
  · intro s1 a hp; split <;> simp_all [SameC]
  · exact SameC.refl _

@[grind →] theorem abortCall_c {s s' : St} {serial cid} : abortCall s serial cid = .ok s' → SameC s s' := by
  intro h; unfold abortCall at h
  repeat' ((try simp only [] at h); split at h)
  all_goals (try subst_vars)
  all_goals (try (simp_all [SameC]; done))
  all_goals (try (grind [SameC]; done))

end Aldrin.Broker
