/-
What a turn of the broker puts into the connections' queues only grows at its end (`OutLe`), through the removal of a
connection and everything it calls; the removal of a connection that is to be told (`Shutdown`) and whose task still
takes messages puts that message first. Generated from the `RmLe` family of `Shutdown.lean` by substitution.
-/
import Aldrin.Lemmas.Broker.Shutdown

set_option linter.unusedSimpArgs false
set_option linter.unusedVariables false
namespace Aldrin.Broker
open Generated

/-- what has been put into the queues stays there, in order: the output only grows at its end -/
def OutLe (s s' : St) : Prop := ∃ l, s'.out = s.out ++ l

theorem OutLe.refl (s : St) : OutLe s s := ⟨[], by simp⟩
theorem OutLe.trans {a b c : St} (h1 : OutLe a b) (h2 : OutLe b c) : OutLe a c := by
  obtain ⟨l1, e1⟩ := h1; obtain ⟨l2, e2⟩ := h2
  exact ⟨l1 ++ l2, by rw [e2, e1, List.append_assoc]⟩
theorem OutLe.of_eq {s s' : St} (h : s'.out = s.out) : OutLe s s' := ⟨[], by simp [h]⟩

theorem send_ol (s : St) (to : ConnId) (m : Rsp) (v : Option Nat) : OutLe s (s.send to m v).1 := by
  unfold St.send
  simp only []
  split
  · split
    · exact ⟨[⟨to, m, v⟩], by simp⟩
    · exact OutLe.of_eq (by simp)
  · exact OutLe.of_eq (by simp)

theorem sendOrRemove_ol (s : St) (to : ConnId) (m : Rsp) (v : Option Nat) : OutLe s (s.sendOrRemove to m v) := by
  unfold St.sendOrRemove
  simp only []
  split
  · exact send_ol s to m v
  · refine OutLe.trans (send_ol s to m v) (OutLe.of_eq ?_)
    simp [St.pushRemoveConn]

syntax "ol_tac" ident : tactic
macro_rules
  | `(tactic| ol_tac $f) => `(tactic|
      (intro h; unfold $f at h
       repeat' ((try simp only [] at h); split at h)
       all_goals (try (simp only [okH, errH, Except.ok.injEq, Prod.mk.injEq, reduceCtorEq] at h))
       all_goals (try (exact h.elim))
       all_goals (try subst h)
       all_goals (try (exact OutLe.refl _))
       all_goals (try (exact OutLe.of_eq (by simp)))
       all_goals (try (exact OutLe.trans (OutLe.of_eq (by simp)) (sendOrRemove_ol _ _ _ _)))))

theorem removeBusListener_ol (s : St) (c : Cookie) : OutLe s (removeBusListener s c) := by
  unfold removeBusListener; split
  · exact OutLe.refl _
  · exact OutLe.of_eq (by simp)

theorem removeService_calls_ol : ∀ (l : List Nat) (s s' : St), removeService.calls s l = .ok s' → OutLe s s' := by
  intro l
  induction l with
  | nil => intro s s' h; simp [removeService.calls] at h; subst h; exact OutLe.refl _
  | cons a l ih =>
    intro s s' h
    simp only [removeService.calls] at h
    split at h
    · simp at h
    · refine OutLe.trans ?_ (ih _ _ h)
      split <;> exact OutLe.of_eq (by simp)

theorem removeService_ol {s s' : St} {c : Cookie} (hr : removeService s c = .ok s') : OutLe s s' := by
  unfold removeService at hr
  split at hr
  · simp only [Except.ok.injEq] at hr; subst hr; exact OutLe.refl _
  · (try simp only [] at hr)
    split at hr
    · simp at hr
    · (try simp only [] at hr)
      split at hr
      · simp at hr
      · rename_i s1 hc
        simp only [Except.ok.injEq] at hr
        subst hr
        refine OutLe.trans (OutLe.trans ?_ (removeService_calls_ol _ _ _ hc)) ?_
        · split <;> exact OutLe.of_eq (by simp)
        · refine OutLe.trans ?_ (OutLe.of_eq rfl)
          apply foldl_inv (OutLe s1) _ _ _ _ (OutLe.refl _)
          intro s2 a hp
          refine OutLe.trans hp ?_
          split
          · exact OutLe.of_eq rfl
          · exact OutLe.refl _

theorem removeObject_svcs_ol : ∀ (l : List Cookie) (s s' : St), removeObject.svcs s l = .ok s' → OutLe s s' := by
  intro l
  induction l with
  | nil => intro s s' h; simp [removeObject.svcs] at h; subst h; exact OutLe.refl _
  | cons a l ih =>
    intro s s' h
    simp only [removeObject.svcs] at h
    split at h
    · simp at h
    · exact OutLe.trans (removeService_ol ‹_›) (ih _ _ h)

theorem removeObject_ol {s s' : St} {c : Cookie} (hr : removeObject s c = .ok s') : OutLe s s' := by
  unfold removeObject at hr
  repeat' ((try simp only [] at hr); split at hr)
  all_goals (try (simp only [Except.ok.injEq, reduceCtorEq] at hr))
  all_goals (try (exact hr.elim))
  all_goals (try subst hr)
  · exact OutLe.refl _
  · rename_i hs
    exact OutLe.trans (OutLe.trans (OutLe.of_eq (by simp)) (removeObject_svcs_ol _ _ _ hs)) (OutLe.of_eq rfl)

theorem removeEventSubscription_ol {s s' : St} {cid c ev} : removeEventSubscription s cid c ev = .ok s' → OutLe s s' := by
  ol_tac removeEventSubscription
theorem removeAllEventsSubscription_ol {s s' : St} {cid c} : removeAllEventsSubscription s cid c = .ok s' → OutLe s s' := by
  ol_tac removeAllEventsSubscription
theorem removeSubscription_ol {s s' : St} {cid c} : removeSubscription s cid c = .ok s' → OutLe s s' := by
  ol_tac removeSubscription
theorem askIntrospection_ol {s s' : St} {ty e} : askIntrospection s ty e = .ok s' → OutLe s s' := by
  intro h; unfold askIntrospection at h
  repeat' ((try simp only [] at h); split at h)
  all_goals (try (simp at h; done))
  simp only [Except.ok.injEq] at h; subst h
  refine OutLe.trans (OutLe.of_eq ?_) (sendOrRemove_ol _ _ _ _)
  simp

theorem removeChannelEnd_ol {s s' : St} {ck : Cookie} {e : ChanEnd} {owner : Option ConnId}
    (hr : removeChannelEnd s ck e owner = .ok s') : OutLe s s' := by
  rw [removeChannelEnd_eq] at hr
  split at hr
  · simp only [Except.ok.injEq] at hr; subst hr; exact OutLe.refl _
  · split at hr
    · simp at hr
    · rename_i ch' other hc
      simp only [Except.ok.injEq] at hr; subst hr
      have h0 : OutLe s (rceConn s ck e owner) := by
        unfold rceConn; split
        · exact OutLe.of_eq (by simp)
        · exact OutLe.refl _
      refine OutLe.trans h0 ?_
      unfold rceFinish rceDrop
      cases other with
      | none => exact OutLe.of_eq (by simp)
      | some oid =>
        simp only []
        split
        · exact OutLe.trans (OutLe.of_eq (by simp)) (sendOrRemove_ol _ _ _ _)
        · exact OutLe.of_eq (by simp)

theorem replyPending_ol : ∀ (l : List IQuery) (s s' : St) (r m), replyPending s l r m = .ok s' → OutLe s s' := by
  intro l
  induction l with
  | nil => intro s s' r m h; simp [replyPending] at h; subst h; exact OutLe.refl _
  | cons a l ih =>
    intro s s' r m h
    simp only [replyPending] at h
    repeat' (split at h)
    · simp at h
    · exact ih _ _ _ _ h
    · exact OutLe.trans (sendOrRemove_ol _ _ _ _) (ih _ _ _ _ h)

theorem removeIntrospectionConn_go_ol : ∀ (l : List (Nat × Option Uuid × List IQuery)) (s s' : St),
    removeIntrospectionConn.go s l = .ok s' → OutLe s s' := by
  intro l
  induction l with
  | nil => intro s s' h; simp [removeIntrospectionConn.go] at h; subst h; exact OutLe.refl _
  | cons a l ih =>
    intro s s' h
    obtain ⟨serial, cont, pending⟩ := a
    simp only [removeIntrospectionConn.go] at h
    repeat' ((try simp only [] at h); split at h)
    all_goals (try (simp at h; done))
    · refine OutLe.trans (OutLe.trans ?_ (replyPending_ol _ _ _ _ _ ‹replyPending _ _ _ _ = _›)) (ih _ _ h)
      exact OutLe.of_eq rfl
    · refine OutLe.trans ?_ (ih _ _ h)
      exact OutLe.of_eq rfl
    · refine OutLe.trans (OutLe.trans ?_ (askIntrospection_ol ‹askIntrospection _ _ _ = _›)) (ih _ _ h)
      exact OutLe.of_eq rfl

theorem removeIntrospectionConn_ol {s s' : St} {cid} (hr : removeIntrospectionConn s cid = .ok s') : OutLe s s' := by
  unfold removeIntrospectionConn at hr
  simp only [] at hr
  refine OutLe.trans ?_ (removeIntrospectionConn_go_ol _ _ _ hr)
  exact OutLe.of_eq rfl


/-- the removal of a connection only adds to the output -/
theorem shutdownConnection_ol_from {s s' : St} {id : ConnId} {b : Bool} {conn : Conn} (hconn : s.conn? id = some conn)
    (hr : shutdownConnection s id b = .ok s') :
    OutLe ((if b = true then
            if conn.alive = true then (s.stat fun st => { st with messagesSent := st.messagesSent + 1 }).setOut
                ((s.stat fun st => { st with messagesSent := st.messagesSent + 1 }).out ++ [{ to := id, msg := Rsp.shutdown, ver := none }])
            else s.stat fun st => { st with messagesSent := st.messagesSent + 1 }
          else s).setConns (AL.erase id (if b = true then
            if conn.alive = true then (s.stat fun st => { st with messagesSent := st.messagesSent + 1 }).setOut
                ((s.stat fun st => { st with messagesSent := st.messagesSent + 1 }).out ++ [{ to := id, msg := Rsp.shutdown, ver := none }])
            else s.stat fun st => { st with messagesSent := st.messagesSent + 1 }
          else s).b.conns)) s' := by
  unfold shutdownConnection at hr
  simp only [hconn] at hr
  repeat' (split at hr)
  all_goals (try (simp at hr; done))
  rename_i s1 h1 _ s2 h2 _ s3 h3 _ s4 h4 _ s5 h5 _ s6 h6
  have r1 := foldE_inv (OutLe _) _ (fun s a s' hp hr => OutLe.trans hp (removeObject_ol hr)) _ _ _
    (foldl_inv (OutLe _) _ (fun s a hp => OutLe.trans hp (removeBusListener_ol _ _)) _ _ (OutLe.refl _)) h1
  have r2 := foldE_inv (OutLe _) _ (fun s a s' hp hr => OutLe.trans hp (removeEventSubscription_ol hr)) _ _ _ r1 h2
  have r3 := foldE_inv (OutLe _) _ (fun s a s' hp hr => OutLe.trans hp (removeAllEventsSubscription_ol hr)) _ _ _ r2 h3
  have r4 := foldE_inv (OutLe _) _ (fun s a s' hp hr => OutLe.trans hp (removeSubscription_ol hr)) _ _ _ r3 h4
  have r5 := foldE_inv (OutLe _) _ (fun s a s' hp hr => OutLe.trans hp (removeChannelEnd_ol hr)) _ _ _ r4 h5
  have r6 := foldE_inv (OutLe _) _ (fun s a s' hp hr => OutLe.trans hp (removeChannelEnd_ol hr)) _ _ _ r5 h6
  refine OutLe.trans (OutLe.trans r6 ?_) (removeIntrospectionConn_ol hr)
  refine OutLe.trans ?_ (OutLe.of_eq rfl)
  apply foldl_inv (OutLe s6) _ ?_ _ _ (OutLe.refl _)
  intro t a hp
  exact OutLe.trans hp (OutLe.of_eq rfl)

/-- **A connection that is removed with notice (broker shutdown, `shutdown_connection` of the handle) and whose task
still takes messages gets `Shutdown`, and that is the first thing its removal puts into any queue.** -/
theorem shutdownConnection_sends_shutdown {s s' : St} {id : ConnId} {conn : Conn} (hconn : AL.find? id s.b.conns = some conn)
    (ha : conn.alive = true) (hr : shutdownConnection s id true = .ok s') :
    ∃ rest, s'.out = s.out ++ [⟨id, .shutdown, none⟩] ++ rest := by
  obtain ⟨l, hl⟩ := shutdownConnection_ol_from (conn := conn) (by simpa [St.conn?] using hconn) hr
  refine ⟨l, ?_⟩
  rw [hl]
  simp [ha]

end Aldrin.Broker
