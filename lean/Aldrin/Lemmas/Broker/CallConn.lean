/-
What the book-keeping of calls looks at in a connection — its table of pending calls and whether its task still takes
messages — is left alone by every function of the broker model except the call handlers, `abort_call` and the deferred
`remove_function_call` items: a connection that is still there afterwards has the table and the flag it had before.
-/
import Aldrin.Lemmas.Broker.Alive

set_option linter.unusedSimpArgs false
set_option linter.unusedVariables false
namespace Aldrin.Broker

abbrev CallTbl := List (Nat × (Nat × ConnId))

/-- a connection's table of pending calls and its `alive` flag -/
def ck (s : St) (c : ConnId) : Option (CallTbl × Bool) :=
  match AL.find? c s.b.conns with
  | some conn => some (conn.calls, conn.alive)
  | none => none

/-- every connection that is there afterwards was there before, with the same table and flag -/
def CkLe (s s' : St) : Prop := ∀ c v, ck s' c = some v → ck s c = some v

theorem CkLe.refl (s : St) : CkLe s s := fun _ _ h => h
theorem CkLe.trans {a b c : St} (h1 : CkLe a b) (h2 : CkLe b c) : CkLe a c := fun x v h => h1 x v (h2 x v h)

theorem ck_of_conns {s s' : St} (h : s'.b.conns = s.b.conns) (c : ConnId) : ck s' c = ck s c := by
  simp [ck, h]

theorem CkLe.of_conns {s s' : St} (h : s'.b.conns = s.b.conns) : CkLe s s' := by
  intro c v; rw [ck_of_conns h]; exact fun x => x

@[simp, grind =] theorem ck_setObjUuids (s : St) (x : List (Cookie × Uuid)) (c : ConnId) : ck (s.setObjUuids x) c = ck s c := rfl
@[simp, grind =] theorem ck_setObjs (s : St) (x : List (Uuid × Obj)) (c : ConnId) : ck (s.setObjs x) c = ck s c := rfl
@[simp, grind =] theorem ck_setSvcUuids (s : St) (x : List (Cookie × (ObjId × Uuid × SvcInfo))) (c : ConnId) : ck (s.setSvcUuids x) c = ck s c := rfl
@[simp, grind =] theorem ck_setSvcs (s : St) (x : List ((Uuid × Uuid) × Svc)) (c : ConnId) : ck (s.setSvcs x) c = ck s c := rfl
@[simp, grind =] theorem ck_setCalls (s : St) (x : SerialMap Call) (c : ConnId) : ck (s.setCalls x) c = ck s c := rfl
@[simp, grind =] theorem ck_setChannels (s : St) (x : List (Cookie × Chan)) (c : ConnId) : ck (s.setChannels x) c = ck s c := rfl
@[simp, grind =] theorem ck_setListeners (s : St) (x : List (Cookie × Listener)) (c : ConnId) : ck (s.setListeners x) c = ck s c := rfl
@[simp, grind =] theorem ck_setIntrospection (s : St) (x : List (Uuid × IEntry)) (c : ConnId) : ck (s.setIntrospection x) c = ck s c := rfl
@[simp, grind =] theorem ck_setIqueries (s : St) (x : SerialMap Uuid) (c : ConnId) : ck (s.setIqueries x) c = ck s c := rfl
@[simp, grind =] theorem ck_setNextCookie (s : St) (x : Cookie) (c : ConnId) : ck (s.setNextCookie x) c = ck s c := rfl
@[simp, grind =] theorem ck_setWShutdownNow (s : St) (x : Bool) (c : ConnId) : ck (s.setWShutdownNow x) c = ck s c := rfl
@[simp, grind =] theorem ck_setWShutdownIdle (s : St) (x : Bool) (c : ConnId) : ck (s.setWShutdownIdle x) c = ck s c := rfl
@[simp, grind =] theorem ck_setWRemoveConns (s : St) (x : List (ConnId × Bool)) (c : ConnId) : ck (s.setWRemoveConns x) c = ck s c := rfl
@[simp, grind =] theorem ck_setWRemoveCalls (s : St) (x : List (Nat × ConnId × CallResult)) (c : ConnId) : ck (s.setWRemoveCalls x) c = ck s c := rfl
@[simp, grind =] theorem ck_setWServicesDestroyed (s : St) (x : List (ConnId × Cookie)) (c : ConnId) : ck (s.setWServicesDestroyed x) c = ck s c := rfl
@[simp, grind =] theorem ck_setWUnsubscribeEvent (s : St) (x : List (ConnId × Cookie × Nat)) (c : ConnId) : ck (s.setWUnsubscribeEvent x) c = ck s c := rfl
@[simp, grind =] theorem ck_setWUnsubscribeAll (s : St) (x : List (ConnId × Cookie)) (c : ConnId) : ck (s.setWUnsubscribeAll x) c = ck s c := rfl
@[simp, grind =] theorem ck_setWCreateObject (s : St) (x : List ObjId) (c : ConnId) : ck (s.setWCreateObject x) c = ck s c := rfl
@[simp, grind =] theorem ck_setWDestroyObject (s : St) (x : List ObjId) (c : ConnId) : ck (s.setWDestroyObject x) c = ck s c := rfl
@[simp, grind =] theorem ck_setWCreateService (s : St) (x : List SvcId) (c : ConnId) : ck (s.setWCreateService x) c = ck s c := rfl
@[simp, grind =] theorem ck_setWDestroyService (s : St) (x : List SvcId) (c : ConnId) : ck (s.setWDestroyService x) c = ck s c := rfl
@[simp, grind =] theorem ck_setWAbortCalls (s : St) (x : List (Nat × ConnId)) (c : ConnId) : ck (s.setWAbortCalls x) c = ck s c := rfl
@[simp, grind =] theorem ck_setOut (s : St) (x : List Out) (c : ConnId) : ck (s.setOut x) c = ck s c := rfl
@[simp, grind =] theorem ck_stat (s : St) (f : Stats → Stats) (c : ConnId) : ck (s.stat f) c = ck s c := rfl
@[simp, grind =] theorem ck_pushRemoveConn (s : St) (id : ConnId) (b : Bool) (c : ConnId) : ck (s.pushRemoveConn id b) c = ck s c := rfl
@[simp, grind =] theorem ck_freshCookie (s : St) (c : ConnId) : ck s.freshCookie.1 c = ck s c := rfl


@[simp, grind =] theorem ck_setConn (s : St) (id : ConnId) (new : Conn) (c : ConnId) :
    ck (s.setConn id new) c = if id = c then some (new.calls, new.alive) else ck s c := by
  simp only [ck, St.setConn_b_conns, AL.find?_insert]
  by_cases h : id = c <;> simp [h]

theorem ck_conn {s : St} {id : ConnId} {conn : Conn} (h : s.conn? id = some conn) : ck s id = some (conn.calls, conn.alive) := by
  simp only [St.conn?] at h; simp [ck, h]

@[simp] theorem ck_ite (s : St) (id c : ConnId) : (if id = c then ck s id else ck s c) = ck s c := by
  split
  · rename_i h; subst h; rfl
  · rfl

@[simp] theorem ck_map (s : St) (id : ConnId) : ((s.conn? id).map (fun x => (x.calls, x.alive))) = ck s id := by
  unfold ck St.conn?
  cases AL.find? id s.b.conns <;> rfl

@[simp] theorem ck_map' (s : St) (id : ConnId) : ((AL.find? id s.b.conns).map (fun x => (x.calls, x.alive))) = ck s id :=
  ck_map s id

theorem ck_updConn' (s : St) (id : ConnId) (f : Conn → Conn) (c : ConnId) :
    ck (s.updConn id f) c = if id = c then ((s.conn? id).map (fun x => ((f x).calls, (f x).alive))) else ck s c := by
  unfold St.updConn
  cases h : s.conn? id with
  | none =>
    simp only [Option.map_none]
    split
    · rename_i heq; subst heq
      simp only [St.conn?] at h; simp [ck, h]
    · rfl
  | some old => simp [ck_setConn]

@[simp] theorem Conn.subscribeEvent_calls (c : Conn) (svc : Cookie) (ev : Nat) : (c.subscribeEvent svc ev).calls = c.calls := rfl
@[simp] theorem Conn.unsubscribeEvent_calls (c : Conn) (svc : Cookie) (ev : Nat) : (c.unsubscribeEvent svc ev).calls = c.calls := by
  unfold Conn.unsubscribeEvent; split
  · dsimp only; split <;> rfl
  · rfl
@[simp] theorem Conn.unsubscribeAllOf_calls (c : Conn) (svc : Cookie) : (c.unsubscribeAllOf svc).calls = c.calls := rfl

@[simp, grind =] theorem ck_send (s : St) (to : ConnId) (m : Rsp) (v : Option Nat) (c : ConnId) : ck (s.send to m v).1 c = ck s c :=
  ck_of_conns (by simp) c
@[simp, grind =] theorem ck_sendOrRemove (s : St) (to : ConnId) (m : Rsp) (v : Option Nat) (c : ConnId) : ck (s.sendOrRemove to m v) c = ck s c :=
  ck_of_conns (by simp) c

syntax "ck_tac" ident : tactic
macro_rules
  | `(tactic| ck_tac $f) => `(tactic|
      (intro h; unfold $f at h
       repeat' ((try simp only [] at h); split at h)
       all_goals (try (simp only [okH, errH, Except.ok.injEq, Prod.mk.injEq, reduceCtorEq] at h))
       all_goals (try (have hfst := congrArg Prod.fst h; (try dsimp only at hfst); rw [← hfst]; clear hfst h))
       all_goals (try (exact h.elim))
       all_goals (try (obtain ⟨h1, h2⟩ := h; subst h1; subst h2))
       all_goals (try subst_vars)
       all_goals (try (simp only [CkLe]; intro c; simp [ck_updConn']; done))
       all_goals (try (grind [CkLe, ck_conn, ck_updConn']))))

@[simp, grind =] theorem ck_removeBusListener (s : St) (k : Cookie) (c : ConnId) : ck (removeBusListener s k) c = ck s c := by
  unfold removeBusListener; split <;> simp [ck_updConn']

theorem removeService_calls_ck : ∀ (l : List Nat) (s s' : St), removeService.calls s l = .ok s' → CkLe s s' := by
  intro l
  induction l with
  | nil => intro s s' h; simp [removeService.calls] at h; subst h; exact CkLe.refl _
  | cons a l ih =>
    intro s s' h
    simp only [removeService.calls] at h
    split at h
    · simp at h
    · refine CkLe.trans ?_ (ih _ _ h)
      split <;> exact CkLe.of_conns (by simp)

theorem CkLe.step_setConn {s : St} {cid : ConnId} {old new : Conn} (h : s.conn? cid = some old) (ha : new.alive = old.alive)
    (hk : new.calls = old.calls) : CkLe s (s.setConn cid new) := by
  intro c v hc
  rw [ck_setConn] at hc
  split at hc
  · rename_i heq; subst heq; rw [ck_conn h, ← ha, ← hk]; exact hc
  · exact hc

@[grind →] theorem removeService_ck {s s' : St} {c : Cookie} : removeService s c = .ok s' → CkLe s s' := by
  intro h
  unfold removeService at h
  split at h
  · simp only [Except.ok.injEq] at h; subst h; exact CkLe.refl _
  · (try simp only [] at h)
    split at h
    · simp at h
    · (try simp only [] at h)
      split at h
      · simp at h
      · rename_i s1 hc
        have h1 := removeService_calls_ck _ _ _ hc
        simp only [Except.ok.injEq] at h
        subst h
        refine CkLe.trans (CkLe.trans ?_ h1) ?_
        · split <;> exact CkLe.of_conns (by simp)
        · refine CkLe.trans ?_ (CkLe.of_conns (St.stat_b_conns _ _))
          apply foldl_inv (CkLe s1) _ _ _ _ (CkLe.refl _)
          intro s2 a hp
          refine CkLe.trans hp ?_
          split
          · rename_i c0 hc0
            exact CkLe.trans (CkLe.step_setConn (new := c0.unsubscribeAllOf _) hc0 rfl rfl) (CkLe.of_conns rfl)
          · exact CkLe.refl _

@[grind →] theorem removeEventSubscription_ck {s s' : St} {cid c ev} : removeEventSubscription s cid c ev = .ok s' → CkLe s s' := by
  ck_tac removeEventSubscription

@[grind →] theorem removeChannelEnd_ck {s s' : St} {c e o} : removeChannelEnd s c e o = .ok s' → CkLe s s' := by
  ck_tac removeChannelEnd

theorem removeObject_svcs_ck : ∀ (l : List Cookie) (s s' : St), removeObject.svcs s l = .ok s' → CkLe s s' := by
  intro l
  induction l with
  | nil => intro s s' h; simp [removeObject.svcs] at h; subst h; exact CkLe.refl _
  | cons a l ih =>
    intro s s' h
    simp only [removeObject.svcs] at h
    split at h
    · simp at h
    · exact CkLe.trans (removeService_ck ‹_›) (ih _ _ h)

@[grind →] theorem removeObject_ck {s s' : St} {c : Cookie} : removeObject s c = .ok s' → CkLe s s' := by
  intro h
  unfold removeObject at h
  repeat' ((try simp only [] at h); split at h)
  all_goals (try (simp only [Except.ok.injEq, reduceCtorEq] at h))
  all_goals (try (exact h.elim))
  all_goals (try subst h)
  · exact CkLe.refl _
  · rename_i hs
    refine CkLe.trans (CkLe.trans ?_ (removeObject_svcs_ck _ _ _ hs)) (CkLe.of_conns rfl)
    intro c; simp [ck_updConn']

@[grind →] theorem removeAllEventsSubscription_ck {s s' : St} {cid c} : removeAllEventsSubscription s cid c = .ok s' → CkLe s s' := by
  ck_tac removeAllEventsSubscription

@[grind →] theorem removeSubscription_ck {s s' : St} {cid c} : removeSubscription s cid c = .ok s' → CkLe s s' := by
  ck_tac removeSubscription

@[grind →] theorem askIntrospection_ck {s s' : St} {ty e} : askIntrospection s ty e = .ok s' → CkLe s s' := by
  ck_tac askIntrospection

theorem replyPending_ck : ∀ (l : List IQuery) (s s' : St) (r m), replyPending s l r m = .ok s' → CkLe s s' := by
  intro l
  induction l with
  | nil => intro s s' r m h; simp [replyPending] at h; subst h; exact CkLe.refl _
  | cons a l ih =>
    intro s s' r m h
    simp only [replyPending] at h
    repeat' (split at h)
    · simp at h
    · exact ih _ _ _ _ h
    · exact CkLe.trans (CkLe.of_conns (by simp)) (ih _ _ _ _ h)

@[grind →] theorem replyPending_ck' {l : List IQuery} {s s' : St} {r m} (h : replyPending s l r m = .ok s') : CkLe s s' :=
  replyPending_ck _ _ _ _ _ h

theorem removeIntrospectionConn_go_ck : ∀ (l : List (Nat × Option Uuid × List IQuery)) (s s' : St),
    removeIntrospectionConn.go s l = .ok s' → CkLe s s' := by
  intro l
  induction l with
  | nil => intro s s' h; simp [removeIntrospectionConn.go] at h; subst h; exact CkLe.refl _
  | cons a l ih =>
    intro s s' h
    obtain ⟨serial, cont, pending⟩ := a
    simp only [removeIntrospectionConn.go] at h
    repeat' ((try simp only [] at h); split at h)
    all_goals (try (simp at h; done))
    · have h1 := replyPending_ck _ _ _ _ _ ‹_›
      have h2 := ih _ _ h
      exact CkLe.trans (CkLe.trans (by simp [CkLe]) h1) h2
    · have h2 := ih _ _ h
      exact CkLe.trans (by simp [CkLe]) h2
    · have h1 := askIntrospection_ck ‹_›
      have h2 := ih _ _ h
      exact CkLe.trans (CkLe.trans (by simp [CkLe]) h1) h2

@[grind →] theorem removeIntrospectionConn_ck {s s' : St} {cid} : removeIntrospectionConn s cid = .ok s' → CkLe s s' := by
  intro h
  unfold removeIntrospectionConn at h
  simp only [] at h
  have := removeIntrospectionConn_go_ck _ _ _ h
  simp_all [CkLe]

--HANDLERS
@[grind →] theorem createObject_ck {s s' : St} {id serial uuid} {ok : Bool} : createObject s id serial uuid = .ok (s', ok) → CkLe s s' := by
  ck_tac createObject

@[grind →] theorem destroyObject_ck {s s' : St} {id serial c} {ok : Bool} : destroyObject s id serial c = .ok (s', ok) → CkLe s s' := by
  ck_tac destroyObject

@[grind →] theorem createServiceImpl_ck {s s' : St} {id serial oc uuid info} {ok : Bool} : createServiceImpl s id serial oc uuid info = .ok (s', ok) → CkLe s s' := by
  ck_tac createServiceImpl

@[grind →] theorem createService_ck {s s' : St} {id serial oc uuid v} {ok : Bool} : createService s id serial oc uuid v = .ok (s', ok) → CkLe s s' := by
  ck_tac createService

@[grind →] theorem createService2_ck {s s' : St} {id serial oc uuid info} {ok : Bool} : createService2 s id serial oc uuid info = .ok (s', ok) → CkLe s s' := by
  ck_tac createService2

@[grind →] theorem destroyService_ck {s s' : St} {id serial c} {ok : Bool} : destroyService s id serial c = .ok (s', ok) → CkLe s s' := by
  ck_tac destroyService




@[grind →] theorem abortFunctionCall_ck {s s' : St} {id serial} {ok : Bool} : abortFunctionCall s id serial = .ok (s', ok) → CkLe s s' := by
  ck_tac abortFunctionCall

@[grind →] theorem subscribeEvent_ck {s s' : St} {id serial svc ev} {ok : Bool} : subscribeEvent s id serial svc ev = .ok (s', ok) → CkLe s s' := by
  ck_tac subscribeEvent

@[grind →] theorem unsubscribeEvent_ck {s s' : St} {id svc ev} {ok : Bool} : unsubscribeEvent s id svc ev = .ok (s', ok) → CkLe s s' := by
  ck_tac unsubscribeEvent

@[grind →] theorem emitEvent_ck {s s' : St} {id svc ev p} {ok : Bool} : emitEvent s id svc ev p = .ok (s', ok) → CkLe s s' := by
  intro h; unfold emitEvent at h
  repeat' ((try simp only [] at h); split at h)
  all_goals (try (simp only [okH, errH, Except.ok.injEq, Prod.mk.injEq, reduceCtorEq] at h))
  all_goals (try (obtain ⟨h1, h2⟩ := h; subst h1; subst h2))
  all_goals (try (exact CkLe.refl _))
  apply foldl_inv (fun s' => CkLe s s')
  · intro s1 a hp; split
    · exact CkLe.trans hp (CkLe.of_conns (by simp))
    · exact hp
  · exact CkLe.refl _

@[grind →] theorem queryServiceVersion_ck {s s' : St} {id serial svc} {ok : Bool} : queryServiceVersion s id serial svc = .ok (s', ok) → CkLe s s' := by
  ck_tac queryServiceVersion

@[grind →] theorem queryServiceInfo_ck {s s' : St} {id serial svc} {ok : Bool} : queryServiceInfo s id serial svc = .ok (s', ok) → CkLe s s' := by
  ck_tac queryServiceInfo

@[grind →] theorem subscribeService_ck {s s' : St} {id serial svc} {ok : Bool} : subscribeService s id serial svc = .ok (s', ok) → CkLe s s' := by
  ck_tac subscribeService

@[grind →] theorem unsubscribeService_ck {s s' : St} {id svc} {ok : Bool} : unsubscribeService s id svc = .ok (s', ok) → CkLe s s' := by
  ck_tac unsubscribeService

@[grind →] theorem subscribeAllEvents_ck {s s' : St} {id serial svc} {ok : Bool} : subscribeAllEvents s id serial svc = .ok (s', ok) → CkLe s s' := by
  ck_tac subscribeAllEvents

@[grind →] theorem unsubscribeAllEvents_ck {s s' : St} {id serial svc} {ok : Bool} : unsubscribeAllEvents s id serial svc = .ok (s', ok) → CkLe s s' := by
  ck_tac unsubscribeAllEvents

@[grind →] theorem createChannel_ck {s s' : St} {id serial e cap} {ok : Bool} : createChannel s id serial e cap = .ok (s', ok) → CkLe s s' := by
  ck_tac createChannel

@[grind →] theorem closeChannelEnd_ck {s s' : St} {id serial c e} {ok : Bool} : closeChannelEnd s id serial c e = .ok (s', ok) → CkLe s s' := by
  ck_tac closeChannelEnd

@[grind →] theorem claimChannelEnd_ck {s s' : St} {id serial c e cap} {ok : Bool} : claimChannelEnd s id serial c e cap = .ok (s', ok) → CkLe s s' := by
  ck_tac claimChannelEnd

@[grind →] theorem addChannelCapacity_ck {s s' : St} {id c cap} {ok : Bool} : addChannelCapacity s id c cap = .ok (s', ok) → CkLe s s' := by
  ck_tac addChannelCapacity

@[grind →] theorem sendItem_ck {s s' : St} {id c p} {ok : Bool} : sendItem s id c p = .ok (s', ok) → CkLe s s' := by
  ck_tac sendItem

@[grind →] theorem sync_ck {s s' : St} {id serial} {ok : Bool} : sync s id serial = .ok (s', ok) → CkLe s s' := by
  ck_tac sync

@[grind →] theorem createBusListener_ck {s s' : St} {id serial} {ok : Bool} : createBusListener s id serial = .ok (s', ok) → CkLe s s' := by
  ck_tac createBusListener

@[grind →] theorem destroyBusListener_ck {s s' : St} {id serial c} {ok : Bool} : destroyBusListener s id serial c = .ok (s', ok) → CkLe s s' := by
  ck_tac destroyBusListener

@[grind →] theorem updListener_ck {s s' : St} {id c f} {ok : Bool} : updListener s id c f = .ok (s', ok) → CkLe s s' := by
  ck_tac updListener


@[grind →] theorem startBusListener_ck {s s' : St} {id serial c sc} {ok : Bool} : startBusListener s id serial c sc = .ok (s', ok) → CkLe s s' := by
  intro h; unfold startBusListener at h
  repeat' ((try simp only [] at h); split at h)
  all_goals (try (simp only [okH, errH, Except.ok.injEq, Prod.mk.injEq, reduceCtorEq] at h))
  all_goals (try (exact h.elim))
  all_goals (try (have hfst := congrArg Prod.fst h; (try dsimp only at hfst); rw [← hfst]; clear hfst h))
  all_goals (try (obtain ⟨h1, h2⟩ := h; subst h1; subst h2))
  all_goals (exact CkLe.of_conns (by simp [sendAll_conns]))

@[grind →] theorem stopBusListener_ck {s s' : St} {id serial c} {ok : Bool} : stopBusListener s id serial c = .ok (s', ok) → CkLe s s' := by
  ck_tac stopBusListener

@[grind →] theorem registerIntrospection_ck {s s' : St} {id tys} {ok : Bool} : registerIntrospection s id tys = .ok (s', ok) → CkLe s s' := by
  intro h; unfold registerIntrospection at h
  repeat' ((try simp only [] at h); split at h)
  all_goals (try (simp only [okH, errH, Except.ok.injEq, Prod.mk.injEq, reduceCtorEq] at h))
  all_goals (try (obtain ⟨h1, h2⟩ := h; subst h1; subst h2))
  all_goals (try (exact CkLe.refl _))
  apply foldl_inv (fun s' => CkLe s s')
  · intro s1 a hp; exact CkLe.trans hp (CkLe.of_conns (by simp))
  · exact CkLe.refl _

@[grind →] theorem queryIntrospection_ck {s s' : St} {id serial ty} {ok : Bool} : queryIntrospection s id serial ty = .ok (s', ok) → CkLe s s' := by
  ck_tac queryIntrospection

@[grind →] theorem queryIntrospectionReply_ck {s s' : St} {id serial r} {ok : Bool} : queryIntrospectionReply s id serial r = .ok (s', ok) → CkLe s s' := by
  ck_tac queryIntrospectionReply

theorem CkLe.erase {s s0 : St} (id : ConnId) (h : s0.b.conns = s.b.conns) : CkLe s (s0.setConns (AL.erase id s0.b.conns)) := by
  intro c v hc
  simp only [ck, St.setConns_b_conns, AL.find?_erase, h] at hc ⊢
  split at hc
  · rename_i heq; split at heq
    · simp at heq
    · rw [heq]; exact hc
  · simp at hc

theorem shutdownConnection_ck {s s' : St} {id b} (hr : shutdownConnection s id b = .ok s') : CkLe s s' := by
  unfold shutdownConnection at hr
  split at hr
  · simp at hr; exact hr ▸ CkLe.refl _
  · rename_i conn hconn
    simp only [] at hr
    repeat' (split at hr)
    all_goals (try (simp at hr; done))
    rename_i s1 h1 _ s2 h2 _ s3 h3 _ s4 h4 _ s5 h5 _ s6 h6
    have i1 : CkLe s s1 := by
      refine foldE_inv (CkLe s) _ (fun s a s' hp hr => CkLe.trans hp (removeObject_ck hr)) _ _ _ ?_ h1
      apply foldl_inv (CkLe s) _ (fun s a hp => by simpa [CkLe] using hp)
      apply CkLe.erase
      split <;> (try split) <;> simp
    have i2 := foldE_inv (CkLe s) _ (fun s a s' hp hr => CkLe.trans hp (removeEventSubscription_ck hr)) _ _ _ i1 h2
    have i3 := foldE_inv (CkLe s) _ (fun s a s' hp hr => CkLe.trans hp (removeAllEventsSubscription_ck hr)) _ _ _ i2 h3
    have i4 := foldE_inv (CkLe s) _ (fun s a s' hp hr => CkLe.trans hp (removeSubscription_ck hr)) _ _ _ i3 h4
    have i5 := foldE_inv (CkLe s) _ (fun s a s' hp hr => CkLe.trans hp (removeChannelEnd_ck hr)) _ _ _ i4 h5
    have i6 := foldE_inv (CkLe s) _ (fun s a s' hp hr => CkLe.trans hp (removeChannelEnd_ck hr)) _ _ _ i5 h6
    refine CkLe.trans ?_ (removeIntrospectionConn_ck hr)
    refine CkLe.trans (b := List.foldl (fun s (p : Nat × (Nat × ConnId)) => (s.setWAbortCalls ((p.2.1, p.2.2) :: s.w.abortCalls))) s6 conn.calls) ?_ (by simp [CkLe])
    apply foldl_inv (CkLe s) _ ?_ _ _ i6
    intro s a hp
    simpa [CkLe] using hp

theorem emitBusEvent_ck (s : St) (e : BusEv) : CkLe s (emitBusEvent s e) := by
  unfold emitBusEvent
  simp only []
  apply foldl_inv (fun s' => CkLe s s')
  · intro s1 a hp; split <;> simp_all [CkLe]
  · exact CkLe.refl _

end Aldrin.Broker
