/-
What the ownership invariant of channel ends and bus listeners (`Lemmas/Broker/Own.lean`) looks at in a connection — the
sender ends, receiver ends and bus listeners it lists (`cv`) — and how the state update primitives act on it.
Generated from the corresponding lemmas about `ck` in `CallConn.lean` by substitution.
-/
import Aldrin.Lemmas.Broker.CallConnEq

set_option linter.unusedSimpArgs false
set_option linter.unusedVariables false
namespace Aldrin.Broker

/-- the channel ends and bus listeners a connection lists -/
def cv (s : St) (c : ConnId) : Option (List Cookie × List Cookie × List Cookie) :=
  match AL.find? c s.b.conns with
  | some conn => some (conn.senders, conn.receivers, conn.busListeners)
  | none => none


theorem cv_of_conns {s s' : St} (h : s'.b.conns = s.b.conns) (c : ConnId) : cv s' c = cv s c := by
  simp [cv, h]


@[simp, grind =] theorem cv_setObjUuids (s : St) (x : List (Cookie × Uuid)) (c : ConnId) : cv (s.setObjUuids x) c = cv s c := rfl
@[simp, grind =] theorem cv_setObjs (s : St) (x : List (Uuid × Obj)) (c : ConnId) : cv (s.setObjs x) c = cv s c := rfl
@[simp, grind =] theorem cv_setSvcUuids (s : St) (x : List (Cookie × (ObjId × Uuid × SvcInfo))) (c : ConnId) : cv (s.setSvcUuids x) c = cv s c := rfl
@[simp, grind =] theorem cv_setSvcs (s : St) (x : List ((Uuid × Uuid) × Svc)) (c : ConnId) : cv (s.setSvcs x) c = cv s c := rfl
@[simp, grind =] theorem cv_setCalls (s : St) (x : SerialMap Call) (c : ConnId) : cv (s.setCalls x) c = cv s c := rfl
@[simp, grind =] theorem cv_setChannels (s : St) (x : List (Cookie × Chan)) (c : ConnId) : cv (s.setChannels x) c = cv s c := rfl
@[simp, grind =] theorem cv_setListeners (s : St) (x : List (Cookie × Listener)) (c : ConnId) : cv (s.setListeners x) c = cv s c := rfl
@[simp, grind =] theorem cv_setIntrospection (s : St) (x : List (Uuid × IEntry)) (c : ConnId) : cv (s.setIntrospection x) c = cv s c := rfl
@[simp, grind =] theorem cv_setIqueries (s : St) (x : SerialMap Uuid) (c : ConnId) : cv (s.setIqueries x) c = cv s c := rfl
@[simp, grind =] theorem cv_setNextCookie (s : St) (x : Cookie) (c : ConnId) : cv (s.setNextCookie x) c = cv s c := rfl
@[simp, grind =] theorem cv_setWShutdownNow (s : St) (x : Bool) (c : ConnId) : cv (s.setWShutdownNow x) c = cv s c := rfl
@[simp, grind =] theorem cv_setWShutdownIdle (s : St) (x : Bool) (c : ConnId) : cv (s.setWShutdownIdle x) c = cv s c := rfl
@[simp, grind =] theorem cv_setWRemoveConns (s : St) (x : List (ConnId × Bool)) (c : ConnId) : cv (s.setWRemoveConns x) c = cv s c := rfl
@[simp, grind =] theorem cv_setWRemoveCalls (s : St) (x : List (Nat × ConnId × CallResult)) (c : ConnId) : cv (s.setWRemoveCalls x) c = cv s c := rfl
@[simp, grind =] theorem cv_setWServicesDestroyed (s : St) (x : List (ConnId × Cookie)) (c : ConnId) : cv (s.setWServicesDestroyed x) c = cv s c := rfl
@[simp, grind =] theorem cv_setWUnsubscribeEvent (s : St) (x : List (ConnId × Cookie × Nat)) (c : ConnId) : cv (s.setWUnsubscribeEvent x) c = cv s c := rfl
@[simp, grind =] theorem cv_setWUnsubscribeAll (s : St) (x : List (ConnId × Cookie)) (c : ConnId) : cv (s.setWUnsubscribeAll x) c = cv s c := rfl
@[simp, grind =] theorem cv_setWCreateObject (s : St) (x : List ObjId) (c : ConnId) : cv (s.setWCreateObject x) c = cv s c := rfl
@[simp, grind =] theorem cv_setWDestroyObject (s : St) (x : List ObjId) (c : ConnId) : cv (s.setWDestroyObject x) c = cv s c := rfl
@[simp, grind =] theorem cv_setWCreateService (s : St) (x : List SvcId) (c : ConnId) : cv (s.setWCreateService x) c = cv s c := rfl
@[simp, grind =] theorem cv_setWDestroyService (s : St) (x : List SvcId) (c : ConnId) : cv (s.setWDestroyService x) c = cv s c := rfl
@[simp, grind =] theorem cv_setWAbortCalls (s : St) (x : List (Nat × ConnId)) (c : ConnId) : cv (s.setWAbortCalls x) c = cv s c := rfl
@[simp, grind =] theorem cv_setOut (s : St) (x : List Out) (c : ConnId) : cv (s.setOut x) c = cv s c := rfl
@[simp, grind =] theorem cv_stat (s : St) (f : Stats → Stats) (c : ConnId) : cv (s.stat f) c = cv s c := rfl
@[simp, grind =] theorem cv_pushRemoveConn (s : St) (id : ConnId) (b : Bool) (c : ConnId) : cv (s.pushRemoveConn id b) c = cv s c := rfl
@[simp, grind =] theorem cv_freshCookie (s : St) (c : ConnId) : cv s.freshCookie.1 c = cv s c := rfl


@[simp, grind =] theorem cv_setConn (s : St) (id : ConnId) (new : Conn) (c : ConnId) :
    cv (s.setConn id new) c = if id = c then some (new.senders, new.receivers, new.busListeners) else cv s c := by
  simp only [cv, St.setConn_b_conns, AL.find?_insert]
  by_cases h : id = c <;> simp [h]

theorem cv_conn {s : St} {id : ConnId} {conn : Conn} (h : s.conn? id = some conn) : cv s id = some (conn.senders, conn.receivers, conn.busListeners) := by
  simp only [St.conn?] at h; simp [cv, h]

@[simp] theorem cv_ite (s : St) (id c : ConnId) : (if id = c then cv s id else cv s c) = cv s c := by
  split
  · rename_i h; subst h; rfl
  · rfl

@[simp] theorem cv_map (s : St) (id : ConnId) : ((s.conn? id).map (fun x => (x.senders, x.receivers, x.busListeners))) = cv s id := by
  unfold cv St.conn?
  cases AL.find? id s.b.conns <;> rfl

@[simp] theorem cv_map' (s : St) (id : ConnId) : ((AL.find? id s.b.conns).map (fun x => (x.senders, x.receivers, x.busListeners))) = cv s id :=
  cv_map s id

theorem cv_updConn' (s : St) (id : ConnId) (f : Conn → Conn) (c : ConnId) :
    cv (s.updConn id f) c = if id = c then ((s.conn? id).map (fun x => ((f x).senders, (f x).receivers, (f x).busListeners))) else cv s c := by
  unfold St.updConn
  cases h : s.conn? id with
  | none =>
    simp only [Option.map_none]
    split
    · rename_i heq; subst heq
      simp only [St.conn?] at h; simp [cv, h]
    · rfl
  | some old => simp [cv_setConn]

@[simp] theorem Conn.subscribeEvent_senders (c : Conn) (svc : Cookie) (ev : Nat) : (c.subscribeEvent svc ev).senders = c.senders := rfl
@[simp] theorem Conn.subscribeEvent_receivers (c : Conn) (svc : Cookie) (ev : Nat) : (c.subscribeEvent svc ev).receivers = c.receivers := rfl
@[simp] theorem Conn.subscribeEvent_busListeners (c : Conn) (svc : Cookie) (ev : Nat) : (c.subscribeEvent svc ev).busListeners = c.busListeners := rfl
@[simp] theorem Conn.unsubscribeEvent_senders (c : Conn) (svc : Cookie) (ev : Nat) : (c.unsubscribeEvent svc ev).senders = c.senders := by
  unfold Conn.unsubscribeEvent; split
  · dsimp only; split <;> rfl
  · rfl
@[simp] theorem Conn.unsubscribeEvent_receivers (c : Conn) (svc : Cookie) (ev : Nat) : (c.unsubscribeEvent svc ev).receivers = c.receivers := by
  unfold Conn.unsubscribeEvent; split
  · dsimp only; split <;> rfl
  · rfl
@[simp] theorem Conn.unsubscribeEvent_busListeners (c : Conn) (svc : Cookie) (ev : Nat) : (c.unsubscribeEvent svc ev).busListeners = c.busListeners := by
  unfold Conn.unsubscribeEvent; split
  · dsimp only; split <;> rfl
  · rfl
@[simp] theorem Conn.unsubscribeAllOf_senders (c : Conn) (svc : Cookie) : (c.unsubscribeAllOf svc).senders = c.senders := rfl
@[simp] theorem Conn.unsubscribeAllOf_receivers (c : Conn) (svc : Cookie) : (c.unsubscribeAllOf svc).receivers = c.receivers := rfl
@[simp] theorem Conn.unsubscribeAllOf_busListeners (c : Conn) (svc : Cookie) : (c.unsubscribeAllOf svc).busListeners = c.busListeners := rfl

@[simp, grind =] theorem cv_send (s : St) (to : ConnId) (m : Rsp) (v : Option Nat) (c : ConnId) : cv (s.send to m v).1 c = cv s c :=
  cv_of_conns (by simp) c
@[simp, grind =] theorem cv_sendOrRemove (s : St) (to : ConnId) (m : Rsp) (v : Option Nat) (c : ConnId) : cv (s.sendOrRemove to m v) c = cv s c :=
  cv_of_conns (by simp) c


def CvEq (s s' : St) : Prop := ∀ c, cv s' c = cv s c

theorem CvEq.refl (s : St) : CvEq s s := fun _ => rfl
theorem CvEq.trans {a b c : St} (h1 : CvEq a b) (h2 : CvEq b c) : CvEq a c := fun x => (h2 x).trans (h1 x)
theorem CvEq.of_conns {s s' : St} (h : s'.b.conns = s.b.conns) : CvEq s s' := fun c => cv_of_conns h c

syntax "cve_tac" ident : tactic
macro_rules
  | `(tactic| cve_tac $f) => `(tactic|
      (intro h; unfold $f at h
       repeat' ((try simp only [] at h); split at h)
       all_goals (try (simp only [okH, errH, Except.ok.injEq, Prod.mk.injEq, reduceCtorEq] at h))
       all_goals (try (have hfst := congrArg Prod.fst h; (try dsimp only at hfst); rw [← hfst]; clear hfst h))
       all_goals (try (exact h.elim))
       all_goals (try (obtain ⟨h1, h2⟩ := h; subst h1; subst h2))
       all_goals (try subst_vars)
       all_goals (try (simp only [CvEq]; intro c; simp [cv_updConn']; done))
       all_goals (try (grind [CvEq, cv_conn, cv_updConn']))))

theorem CvEq.step_setConn {s : St} {cid : ConnId} {old new : Conn} (h : s.conn? cid = some old) (h1 : new.senders = old.senders)
    (h2 : new.receivers = old.receivers) (h3 : new.busListeners = old.busListeners) : CvEq s (s.setConn cid new) := by
  intro c
  rw [cv_setConn]
  split
  · rename_i heq; subst heq; rw [cv_conn h, ← h1, ← h2, ← h3]
  · rfl

end Aldrin.Broker
