/-
Frame lemmas for the ownership invariant: every function of the broker model except the channel handlers,
`remove_channel_end`, `create_bus_listener`, `destroy_bus_listener` / `remove_bus_listener`, the removal of a connection
and `NewConnection` leaves the ends and listeners every connection lists as they were (`CvEq`). Generated from
`CallConnEq.lean` by substitution; the call handlers (which are not frames there) are added at the end.
-/
import Aldrin.Lemmas.Broker.OwnView

set_option linter.unusedSimpArgs false
set_option linter.unusedVariables false
namespace Aldrin.Broker

theorem removeService_calls_cve : ∀ (l : List Nat) (s s' : St), removeService.calls s l = .ok s' → CvEq s s' := by
  intro l
  induction l with
  | nil => intro s s' h; simp [removeService.calls] at h; subst h; exact CvEq.refl _
  | cons a l ih =>
    intro s s' h
    simp only [removeService.calls] at h
    split at h
    · simp at h
    · refine CvEq.trans ?_ (ih _ _ h)
      split <;> exact CvEq.of_conns (by simp)

@[grind →] theorem removeService_cve {s s' : St} {c : Cookie} : removeService s c = .ok s' → CvEq s s' := by
  intro h
  unfold removeService at h
  split at h
  · simp only [Except.ok.injEq] at h; subst h; exact CvEq.refl _
  · (try simp only [] at h)
    split at h
    · simp at h
    · (try simp only [] at h)
      split at h
      · simp at h
      · rename_i s1 hc
        have h1 := removeService_calls_cve _ _ _ hc
        simp only [Except.ok.injEq] at h
        subst h
        refine CvEq.trans (CvEq.trans ?_ h1) ?_
        · split <;> exact CvEq.of_conns (by simp)
        · refine CvEq.trans ?_ (CvEq.of_conns (St.stat_b_conns _ _))
          apply foldl_inv (CvEq s1) _ _ _ _ (CvEq.refl _)
          intro s2 a hp
          refine CvEq.trans hp ?_
          split
          · rename_i c0 hc0
            exact CvEq.trans (CvEq.step_setConn (new := c0.unsubscribeAllOf _) hc0 rfl rfl rfl) (CvEq.of_conns rfl)
          · exact CvEq.refl _

@[grind →] theorem removeEventSubscription_cve {s s' : St} {cid c ev} : removeEventSubscription s cid c ev = .ok s' → CvEq s s' := by
  cve_tac removeEventSubscription


theorem removeObject_svcs_cve : ∀ (l : List Cookie) (s s' : St), removeObject.svcs s l = .ok s' → CvEq s s' := by
  intro l
  induction l with
  | nil => intro s s' h; simp [removeObject.svcs] at h; subst h; exact CvEq.refl _
  | cons a l ih =>
    intro s s' h
    simp only [removeObject.svcs] at h
    split at h
    · simp at h
    · exact CvEq.trans (removeService_cve ‹_›) (ih _ _ h)

@[grind →] theorem removeObject_cve {s s' : St} {c : Cookie} : removeObject s c = .ok s' → CvEq s s' := by
  intro h
  unfold removeObject at h
  repeat' ((try simp only [] at h); split at h)
  all_goals (try (simp only [Except.ok.injEq, reduceCtorEq] at h))
  all_goals (try (exact h.elim))
  all_goals (try subst h)
  · exact CvEq.refl _
  · rename_i hs
    refine CvEq.trans (CvEq.trans ?_ (removeObject_svcs_cve _ _ _ hs)) (CvEq.of_conns rfl)
    intro c; simp [cv_updConn']

@[grind →] theorem removeAllEventsSubscription_cve {s s' : St} {cid c} : removeAllEventsSubscription s cid c = .ok s' → CvEq s s' := by
  cve_tac removeAllEventsSubscription

@[grind →] theorem removeSubscription_cve {s s' : St} {cid c} : removeSubscription s cid c = .ok s' → CvEq s s' := by
  cve_tac removeSubscription

@[grind →] theorem askIntrospection_cve {s s' : St} {ty e} : askIntrospection s ty e = .ok s' → CvEq s s' := by
  cve_tac askIntrospection

theorem replyPending_cve : ∀ (l : List IQuery) (s s' : St) (r m), replyPending s l r m = .ok s' → CvEq s s' := by
  intro l
  induction l with
  | nil => intro s s' r m h; simp [replyPending] at h; subst h; exact CvEq.refl _
  | cons a l ih =>
    intro s s' r m h
    simp only [replyPending] at h
    repeat' (split at h)
    · simp at h
    · exact ih _ _ _ _ h
    · exact CvEq.trans (CvEq.of_conns (by simp)) (ih _ _ _ _ h)

@[grind →] theorem replyPending_cve' {l : List IQuery} {s s' : St} {r m} (h : replyPending s l r m = .ok s') : CvEq s s' :=
  replyPending_cve _ _ _ _ _ h

theorem removeIntrospectionConn_go_cve : ∀ (l : List (Nat × Option Uuid × List IQuery)) (s s' : St),
    removeIntrospectionConn.go s l = .ok s' → CvEq s s' := by
  intro l
  induction l with
  | nil => intro s s' h; simp [removeIntrospectionConn.go] at h; subst h; exact CvEq.refl _
  | cons a l ih =>
    intro s s' h
    obtain ⟨serial, cont, pending⟩ := a
    simp only [removeIntrospectionConn.go] at h
    repeat' ((try simp only [] at h); split at h)
    all_goals (try (simp at h; done))
    · have h1 := replyPending_cve _ _ _ _ _ ‹_›
      have h2 := ih _ _ h
      exact CvEq.trans (CvEq.trans (by simp [CvEq]) h1) h2
    · have h2 := ih _ _ h
      exact CvEq.trans (by simp [CvEq]) h2
    · have h1 := askIntrospection_cve ‹_›
      have h2 := ih _ _ h
      exact CvEq.trans (CvEq.trans (by simp [CvEq]) h1) h2

@[grind →] theorem removeIntrospectionConn_cve {s s' : St} {cid} : removeIntrospectionConn s cid = .ok s' → CvEq s s' := by
  intro h
  unfold removeIntrospectionConn at h
  simp only [] at h
  have := removeIntrospectionConn_go_cve _ _ _ h
  simp_all [CvEq]

--HANDLERS
@[grind →] theorem createObject_cve {s s' : St} {id serial uuid} {ok : Bool} : createObject s id serial uuid = .ok (s', ok) → CvEq s s' := by
  cve_tac createObject

@[grind →] theorem destroyObject_cve {s s' : St} {id serial c} {ok : Bool} : destroyObject s id serial c = .ok (s', ok) → CvEq s s' := by
  cve_tac destroyObject

@[grind →] theorem createServiceImpl_cve {s s' : St} {id serial oc uuid info} {ok : Bool} : createServiceImpl s id serial oc uuid info = .ok (s', ok) → CvEq s s' := by
  cve_tac createServiceImpl

@[grind →] theorem createService_cve {s s' : St} {id serial oc uuid v} {ok : Bool} : createService s id serial oc uuid v = .ok (s', ok) → CvEq s s' := by
  cve_tac createService

@[grind →] theorem createService2_cve {s s' : St} {id serial oc uuid info} {ok : Bool} : createService2 s id serial oc uuid info = .ok (s', ok) → CvEq s s' := by
  cve_tac createService2

@[grind →] theorem destroyService_cve {s s' : St} {id serial c} {ok : Bool} : destroyService s id serial c = .ok (s', ok) → CvEq s s' := by
  cve_tac destroyService




@[grind →] theorem abortFunctionCall_cve {s s' : St} {id serial} {ok : Bool} : abortFunctionCall s id serial = .ok (s', ok) → CvEq s s' := by
  cve_tac abortFunctionCall

@[grind →] theorem subscribeEvent_cve {s s' : St} {id serial svc ev} {ok : Bool} : subscribeEvent s id serial svc ev = .ok (s', ok) → CvEq s s' := by
  cve_tac subscribeEvent

@[grind →] theorem unsubscribeEvent_cve {s s' : St} {id svc ev} {ok : Bool} : unsubscribeEvent s id svc ev = .ok (s', ok) → CvEq s s' := by
  cve_tac unsubscribeEvent

@[grind →] theorem emitEvent_cve {s s' : St} {id svc ev p} {ok : Bool} : emitEvent s id svc ev p = .ok (s', ok) → CvEq s s' := by
  intro h; unfold emitEvent at h
  repeat' ((try simp only [] at h); split at h)
  all_goals (try (simp only [okH, errH, Except.ok.injEq, Prod.mk.injEq, reduceCtorEq] at h))
  all_goals (try (obtain ⟨h1, h2⟩ := h; subst h1; subst h2))
  all_goals (try (exact CvEq.refl _))
  apply foldl_inv (fun s' => CvEq s s')
  · intro s1 a hp; split
    · exact CvEq.trans hp (CvEq.of_conns (by simp))
    · exact hp
  · exact CvEq.refl _

@[grind →] theorem queryServiceVersion_cve {s s' : St} {id serial svc} {ok : Bool} : queryServiceVersion s id serial svc = .ok (s', ok) → CvEq s s' := by
  cve_tac queryServiceVersion

@[grind →] theorem queryServiceInfo_cve {s s' : St} {id serial svc} {ok : Bool} : queryServiceInfo s id serial svc = .ok (s', ok) → CvEq s s' := by
  cve_tac queryServiceInfo

@[grind →] theorem subscribeService_cve {s s' : St} {id serial svc} {ok : Bool} : subscribeService s id serial svc = .ok (s', ok) → CvEq s s' := by
  cve_tac subscribeService

@[grind →] theorem unsubscribeService_cve {s s' : St} {id svc} {ok : Bool} : unsubscribeService s id svc = .ok (s', ok) → CvEq s s' := by
  cve_tac unsubscribeService

@[grind →] theorem subscribeAllEvents_cve {s s' : St} {id serial svc} {ok : Bool} : subscribeAllEvents s id serial svc = .ok (s', ok) → CvEq s s' := by
  cve_tac subscribeAllEvents

@[grind →] theorem unsubscribeAllEvents_cve {s s' : St} {id serial svc} {ok : Bool} : unsubscribeAllEvents s id serial svc = .ok (s', ok) → CvEq s s' := by
  cve_tac unsubscribeAllEvents






@[grind →] theorem sync_cve {s s' : St} {id serial} {ok : Bool} : sync s id serial = .ok (s', ok) → CvEq s s' := by
  cve_tac sync



@[grind →] theorem updListener_cve {s s' : St} {id c f} {ok : Bool} : updListener s id c f = .ok (s', ok) → CvEq s s' := by
  cve_tac updListener


@[grind →] theorem startBusListener_cve {s s' : St} {id serial c sc} {ok : Bool} : startBusListener s id serial c sc = .ok (s', ok) → CvEq s s' := by
  intro h; unfold startBusListener at h
  repeat' ((try simp only [] at h); split at h)
  all_goals (try (simp only [okH, errH, Except.ok.injEq, Prod.mk.injEq, reduceCtorEq] at h))
  all_goals (try (exact h.elim))
  all_goals (try (have hfst := congrArg Prod.fst h; (try dsimp only at hfst); rw [← hfst]; clear hfst h))
  all_goals (try (obtain ⟨h1, h2⟩ := h; subst h1; subst h2))
  all_goals (exact CvEq.of_conns (by simp [sendAll_conns]))

@[grind →] theorem stopBusListener_cve {s s' : St} {id serial c} {ok : Bool} : stopBusListener s id serial c = .ok (s', ok) → CvEq s s' := by
  cve_tac stopBusListener

@[grind →] theorem registerIntrospection_cve {s s' : St} {id tys} {ok : Bool} : registerIntrospection s id tys = .ok (s', ok) → CvEq s s' := by
  intro h; unfold registerIntrospection at h
  repeat' ((try simp only [] at h); split at h)
  all_goals (try (simp only [okH, errH, Except.ok.injEq, Prod.mk.injEq, reduceCtorEq] at h))
  all_goals (try (obtain ⟨h1, h2⟩ := h; subst h1; subst h2))
  all_goals (try (exact CvEq.refl _))
  apply foldl_inv (fun s' => CvEq s s')
  · intro s1 a hp; exact CvEq.trans hp (CvEq.of_conns (by simp))
  · exact CvEq.refl _

@[grind →] theorem queryIntrospection_cve {s s' : St} {id serial ty} {ok : Bool} : queryIntrospection s id serial ty = .ok (s', ok) → CvEq s s' := by
  cve_tac queryIntrospection

@[grind →] theorem queryIntrospectionReply_cve {s s' : St} {id serial r} {ok : Bool} : queryIntrospectionReply s id serial r = .ok (s', ok) → CvEq s s' := by
  cve_tac queryIntrospectionReply


@[grind →] theorem callFunctionImpl_cve {s s' : St} {id serial svc f v p} {ok : Bool} : callFunctionImpl s id serial svc f v p = .ok (s', ok) → CvEq s s' := by
  cve_tac callFunctionImpl
@[grind →] theorem callFunction2_cve {s s' : St} {id serial svc f v p} {ok : Bool} : callFunction2 s id serial svc f v p = .ok (s', ok) → CvEq s s' := by
  intro h; unfold callFunction2 at h
  repeat' ((try simp only [] at h); split at h)
  all_goals (try (simp only [okH, errH, Except.ok.injEq, Prod.mk.injEq, reduceCtorEq] at h))
  all_goals (try (obtain ⟨h1, h2⟩ := h; subst h1; subst h2))
  all_goals (try (exact CvEq.refl _))
  exact callFunctionImpl_cve h
@[grind →] theorem callFunctionReply_cve {s s' : St} {id serial r} {ok : Bool} : callFunctionReply s id serial r = .ok (s', ok) → CvEq s s' := by
  cve_tac callFunctionReply
@[grind →] theorem abortCall_cve {s s' : St} {serial cid} : abortCall s serial cid = .ok s' → CvEq s s' := by
  cve_tac abortCall
theorem emitBusEvent_cve (s : St) (e : BusEv) : CvEq s (emitBusEvent s e) := by
  unfold emitBusEvent
  simp only []
  apply foldl_inv (fun s' => CvEq s s')
  · intro s1 a hp; split
    · exact CvEq.trans hp (CvEq.of_conns (by simp))
    · exact hp
  · exact CvEq.refl _

end Aldrin.Broker
