/-
Handler-level decision logic for the object/service registry, calls and events.
-/
import Aldrin.Lemmas.Broker.Handlers

namespace Aldrin.Broker
open Generated

/-! ### objects -/

/-- `create_object`: duplicate exactly when the uuid is live; nothing changes then but the reply -/
theorem createObject_duplicate {s : St} {id serial uuid} {c : Conn} {o : Obj}
    (hc : AL.find? id s.b.conns = some c) (ho : AL.find? uuid s.b.objs = some o) :
    ∃ s' ok, createObject s id serial uuid = .ok (s', ok) ∧ s'.b.objs = s.b.objs ∧ s'.b.objUuids = s.b.objUuids ∧
      s'.b.nextCookie = s.b.nextCookie ∧
      (c.alive = true → s'.out = s.out ++ [⟨id, .createObjectReply serial .duplicate, none⟩]) := by
  unfold createObject
  simp only [St.conn?_def, hc, ho, Option.isSome_some, ↓reduceIte]
  refine ⟨_, _, rfl, by simp, by simp, by simp, ?_⟩
  intro ha
  exact (send_alive hc ha).1

/-- `create_object` with an unused uuid: the reply carries a cookie that was never issued before
(the counter value, which is then advanced), and the object is registered under both keys for `id` -/
theorem createObject_fresh {s : St} {id serial uuid} {c : Conn}
    (hc : AL.find? id s.b.conns = some c) (ha : c.alive = true) (ho : AL.find? uuid s.b.objs = none) :
    ∃ s', createObject s id serial uuid = .ok (s', true) ∧
      AL.find? uuid s'.b.objs = some ⟨id, s.b.nextCookie, []⟩ ∧
      AL.find? s.b.nextCookie s'.b.objUuids = some uuid ∧
      s'.b.nextCookie = s.b.nextCookie + 1 ∧
      s'.out = s.out ++ [⟨id, .createObjectReply serial (.ok s.b.nextCookie), none⟩] ∧
      s'.w.createObject = ⟨uuid, s.b.nextCookie⟩ :: s.w.createObject := by
  have hc' : AL.find? id s.freshCookie.1.b.conns = some c := by simpa using hc
  have hs := send_alive (s := s.freshCookie.1) (m := Rsp.createObjectReply serial (.ok s.freshCookie.2)) (v := none) hc' ha
  unfold createObject
  simp only [St.conn?_def, hc, ho, Option.isSome_none, Bool.false_eq_true, ↓reduceIte, hs.2, Bool.not_true, okH]
  simp only [St.freshCookie_snd, St.freshCookie_out] at hs
  refine ⟨_, rfl, ?_, ?_, ?_, ?_, ?_⟩ <;> simp [hs.1]

/-- `destroy_object`: the three answers are decided by the registry alone -/
theorem destroyObject_invalid {s : St} {id serial cookie} {c : Conn}
    (hc : AL.find? id s.b.conns = some c) (ho : AL.find? cookie s.b.objUuids = none) :
    destroyObject s id serial cookie = .ok (s.send id (.destroyObjectReply serial .invalidObject)) := by
  unfold destroyObject; simp [hc, ho]

theorem destroyObject_foreign {s : St} {id serial cookie uuid} {c : Conn} {o : Obj}
    (hc : AL.find? id s.b.conns = some c) (hu : AL.find? cookie s.b.objUuids = some uuid)
    (ho : AL.find? uuid s.b.objs = some o) (hne : o.conn ≠ id) :
    destroyObject s id serial cookie = .ok (s.send id (.destroyObjectReply serial .foreignObject)) := by
  unfold destroyObject; simp [hc, hu, ho, hne]

/-! ### services -/

theorem createService_invalidObject {s : St} {id serial oc uuid v} {c : Conn}
    (hc : AL.find? id s.b.conns = some c) (ho : AL.find? oc s.b.objUuids = none) :
    createService s id serial oc uuid v = .ok (s.send id (.createServiceReply serial .invalidObject)) := by
  unfold createService createServiceImpl; simp [hc, ho]

theorem createService_duplicate {s : St} {id serial oc uuid v ou} {c : Conn} {sv : Svc}
    (hc : AL.find? id s.b.conns = some c) (ho : AL.find? oc s.b.objUuids = some ou)
    (hs : AL.find? (ou, uuid) s.b.svcs = some sv) :
    createService s id serial oc uuid v = .ok (s.send id (.createServiceReply serial .duplicate)) := by
  unfold createService createServiceImpl; simp [hc, ho, hs]

theorem createService_foreign {s : St} {id serial oc uuid v ou} {c : Conn} {o : Obj}
    (hc : AL.find? id s.b.conns = some c) (ho : AL.find? oc s.b.objUuids = some ou)
    (hs : AL.find? (ou, uuid) s.b.svcs = none) (hobj : AL.find? ou s.b.objs = some o) (hne : o.conn ≠ id) :
    createService s id serial oc uuid v = .ok (s.send id (.createServiceReply serial .foreignObject)) := by
  unfold createService createServiceImpl; simp [hc, ho, hs, hobj, hne]

theorem createService_fresh {s : St} {id serial oc uuid v ou} {c : Conn} {o : Obj}
    (hc : AL.find? id s.b.conns = some c) (ha : c.alive = true) (ho : AL.find? oc s.b.objUuids = some ou)
    (hs : AL.find? (ou, uuid) s.b.svcs = none) (hobj : AL.find? ou s.b.objs = some o) (hown : o.conn = id) :
    ∃ s', createService s id serial oc uuid v = .ok (s', true) ∧
      AL.find? s.b.nextCookie s'.b.svcUuids = some (⟨ou, oc⟩, uuid, { version := v }) ∧
      AL.find? (ou, uuid) s'.b.svcs = some { cookie := s.b.nextCookie, objCookie := oc } ∧
      s'.b.nextCookie = s.b.nextCookie + 1 ∧
      s'.out = s.out ++ [⟨id, .createServiceReply serial (.ok s.b.nextCookie), none⟩] := by
  have hc' : AL.find? id s.freshCookie.1.b.conns = some c := by simpa using hc
  have hsd := send_alive (s := s.freshCookie.1) (m := Rsp.createServiceReply serial (.ok s.freshCookie.2)) (v := none) hc' ha
  unfold createService createServiceImpl
  simp only [St.conn?_def, hc, ho, hs, hobj, hown, Option.isSome_none, Bool.false_eq_true, ↓reduceIte, ne_eq,
    not_true_eq_false, hsd.2, Bool.not_true, okH]
  simp only [St.freshCookie_snd, St.freshCookie_out] at hsd
  refine ⟨_, rfl, ?_, ?_, ?_, ?_⟩ <;> simp [hsd.1]

/-- queries succeed exactly while the service is live -/
theorem queryServiceVersion_spec {s : St} {id serial svc} {c : Conn} (hc : AL.find? id s.b.conns = some c) :
    queryServiceVersion s id serial svc =
      .ok (s.send id (.queryServiceVersionReply serial ((AL.find? svc s.b.svcUuids).map (·.2.2.version)))) := by
  unfold queryServiceVersion; simp [hc]

/-! ### calls -/

theorem call_invalid_service {s : St} {id serial svc f v p} {c : Conn}
    (hc : AL.find? id s.b.conns = some c) (hs : AL.find? svc s.b.svcUuids = none) :
    callFunctionImpl s id serial svc f v p = .ok (s.send id (.callFunctionReply serial .invalidService)) := by
  unfold callFunctionImpl; simp [hc, hs]

/-- a reply whose serial names no pending call (never issued, already answered, or already failed) is ignored -/
theorem reply_unknown_ignored {s : St} {id serial r} (hn : s.b.calls.get? serial = none) :
    callFunctionReply s id serial r = .ok (s, true) := by
  unfold callFunctionReply
  cases hc : s.conn? id <;> simp [hn, okH]

/-- a reply from a connection that does not own the called object is ignored -/
theorem reply_foreign_ignored {s : St} {id serial r} {call : Call} {o : Obj} {c : Conn}
    (hc : AL.find? id s.b.conns = some c) (hcall : s.b.calls.get? serial = some call)
    (ho : AL.find? call.calleeObj s.b.objs = some o) (hne : o.conn ≠ id) :
    callFunctionReply s id serial r = .ok (s, true) := by
  unfold callFunctionReply
  simp [hc, hcall, ho, hne, okH]

/-- the owner's reply: the pending call disappears (so a second reply is "unknown"), and unless the
call was aborted the caller gets exactly one reply with its own serial and the owner's result -/
theorem reply_owner_forwarded {s : St} {id serial r} {call : Call} {o : Obj} {c caller : Conn} {sv : Svc} {x}
    (hc : AL.find? id s.b.conns = some c) (hcall : s.b.calls.get? serial = some call)
    (ho : AL.find? call.calleeObj s.b.objs = some o) (hown : o.conn = id)
    (hsv : AL.find? (call.calleeObj, call.calleeSvc) s.b.svcs = some sv)
    (hna : call.aborted = false)
    (hcaller : AL.find? call.callerConn s.b.conns = some caller) (halive : caller.alive = true)
    (hreg : AL.find? call.callerSerial caller.calls = some x) :
    ∃ s', callFunctionReply s id serial r = .ok (s', true) ∧
      s'.b.calls.get? serial = none ∧
      s'.out = s.out ++ [⟨call.callerConn, .callFunctionReply call.callerSerial r, some c.version⟩] := by
  unfold callFunctionReply
  simp only [St.conn?_def, hc, hcall, ho, hown, ne_eq, not_true_eq_false, ↓reduceIte, St.setCalls_b_svcs, hsv,
    hna, Bool.false_eq_true, St.setSvcs_b_conns, St.setCalls_b_conns, hcaller, hreg, Option.isNone_some, okH]
  have hcc : AL.find? call.callerConn (((s.setCalls (s.b.calls.remove serial)).setSvcs
      (AL.insert (call.calleeObj, call.calleeSvc) { sv with calls := sremove serial sv.calls } s.b.svcs)).setConn call.callerConn
        { caller with calls := AL.erase call.callerSerial caller.calls }).b.conns =
      some { caller with calls := AL.erase call.callerSerial caller.calls } := by simp
  have hsd := send_alive (m := Rsp.callFunctionReply call.callerSerial r) (v := some c.version) hcc halive
  refine ⟨_, rfl, ?_, ?_⟩
  · unfold St.sendOrRemove
    simp only [hsd.2, ↓reduceIte]
    simp [SerialMap.get?, SerialMap.remove]
  · unfold St.sendOrRemove
    simp only [hsd.2, ↓reduceIte, hsd.1]
    simp

theorem reply_after_abort_dropped {s : St} {id serial r} {call : Call} {o : Obj} {c : Conn} {sv : Svc}
    (hc : AL.find? id s.b.conns = some c) (hcall : s.b.calls.get? serial = some call)
    (ho : AL.find? call.calleeObj s.b.objs = some o) (hown : o.conn = id)
    (hsv : AL.find? (call.calleeObj, call.calleeSvc) s.b.svcs = some sv)
    (ha : call.aborted = true) :
    ∃ s', callFunctionReply s id serial r = .ok (s', true) ∧ s'.out = s.out ∧ s'.b.calls.get? serial = none := by
  unfold callFunctionReply
  simp only [St.conn?_def, hc, hcall, ho, hown, ne_eq, not_true_eq_false, ↓reduceIte, St.setCalls_b_svcs, hsv, ha, okH]
  refine ⟨_, rfl, by simp, ?_⟩
  simp [SerialMap.get?, SerialMap.remove]

/-- `abort_call` on a pending, not yet aborted call: it is marked (so the owner's later reply is
dropped) and the caller is told `Aborted` once -/
theorem abort_marks_and_answers {s s' : St} {serial cid} {call : Call} {caller : Conn} {x}
    (hcall : s.b.calls.get? serial = some call) (hna : call.aborted = false)
    (hcaller : AL.find? call.callerConn s.b.conns = some caller) (hreg : AL.find? call.callerSerial caller.calls = some x)
    (hnc : AL.find? cid s.b.conns = none)
    (h : abortCall s serial cid = .ok s') :
    s'.b.calls.get? serial = some { call with aborted := true } ∧
    (caller.alive = true → s'.out = s.out ++ [⟨call.callerConn, .callFunctionReply call.callerSerial .aborted, none⟩]) := by
  unfold abortCall at h
  simp only [hcall, hna, Bool.false_eq_true, ↓reduceIte, St.conn?_def, St.setCalls_b_conns, hnc, hcaller, hreg,
    Option.isNone_some, Except.ok.injEq] at h
  subst h
  constructor
  · simp only [St.sendOrRemove_b_calls, St.setConn_b_calls, St.setCalls_b_calls]
    simp [SerialMap.get?, SerialMap.set]
  · intro ha
    have hcc : AL.find? call.callerConn ((s.setCalls (s.b.calls.set serial { call with aborted := true })).setConn call.callerConn
        { caller with calls := AL.erase call.callerSerial caller.calls }).b.conns =
        some { caller with calls := AL.erase call.callerSerial caller.calls } := by simp
    have hsd := send_alive (m := Rsp.callFunctionReply call.callerSerial .aborted) (v := none) hcc ha
    unfold St.sendOrRemove
    simp only [hsd.2, ↓reduceIte, hsd.1]
    simp

end Aldrin.Broker
