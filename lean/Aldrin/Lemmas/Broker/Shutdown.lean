/-
A broker shutdown removes every connection: after `handle_event(ShutdownBroker)` every connection is queued for
removal; the removal of a connection takes it out of the map and keeps what else is queued; the work loop handles
removals first, so it can only end with nothing queued — hence with no connection left.
-/
import Aldrin.Lemmas.Broker.Terminate
import Aldrin.Lemmas.Broker.Own
import Aldrin.Lemmas.Broker.Xref2

set_option linter.unusedSimpArgs false
set_option linter.unusedVariables false
namespace Aldrin.Broker
open Generated

/-- every queued removal of a connection is still queued -/
def RmLe (s s' : St) : Prop := (∀ x, x ∈ s.w.removeConns → x ∈ s'.w.removeConns) ∧ s'.w.shutdownNow = s.w.shutdownNow

theorem RmLe.refl (s : St) : RmLe s s := ⟨fun _ h => h, rfl⟩
theorem RmLe.trans {a b c : St} (h1 : RmLe a b) (h2 : RmLe b c) : RmLe a c := ⟨fun x h => h2.1 x (h1.1 x h), h2.2.trans h1.2⟩
theorem RmLe.of_eq {s s' : St} (h : s'.w.removeConns = s.w.removeConns) (h2 : s'.w.shutdownNow = s.w.shutdownNow) : RmLe s s' := ⟨fun x hx => by rw [h]; exact hx, h2⟩

theorem sendOrRemove_rm (s : St) (to : ConnId) (m : Rsp) (v : Option Nat) : RmLe s (s.sendOrRemove to m v) := by
  unfold St.sendOrRemove
  simp only []
  split
  · exact RmLe.of_eq (by simp) (by simp)
  · exact ⟨fun x hx => by simp [St.pushRemoveConn, hx], by simp [St.pushRemoveConn]⟩

syntax "rm_tac" ident : tactic
macro_rules
  | `(tactic| rm_tac $f) => `(tactic|
      (intro h; unfold $f at h
       repeat' ((try simp only [] at h); split at h)
       all_goals (try (simp only [okH, errH, Except.ok.injEq, Prod.mk.injEq, reduceCtorEq] at h))
       all_goals (try (exact h.elim))
       all_goals (try subst h)
       all_goals (try (exact RmLe.refl _))
       all_goals (try (exact RmLe.of_eq (by simp) (by simp)))
       all_goals (try (exact RmLe.trans (RmLe.of_eq (by simp) (by simp)) (sendOrRemove_rm _ _ _ _)))))

theorem removeBusListener_rm (s : St) (c : Cookie) : RmLe s (removeBusListener s c) := by
  unfold removeBusListener; split
  · exact RmLe.refl _
  · exact RmLe.of_eq (by simp) (by simp)

theorem removeService_calls_rm : ∀ (l : List Nat) (s s' : St), removeService.calls s l = .ok s' → RmLe s s' := by
  intro l
  induction l with
  | nil => intro s s' h; simp [removeService.calls] at h; subst h; exact RmLe.refl _
  | cons a l ih =>
    intro s s' h
    simp only [removeService.calls] at h
    split at h
    · simp at h
    · refine RmLe.trans ?_ (ih _ _ h)
      split <;> exact RmLe.of_eq (by simp) (by simp)

theorem removeService_rm {s s' : St} {c : Cookie} (hr : removeService s c = .ok s') : RmLe s s' := by
  unfold removeService at hr
  split at hr
  · simp only [Except.ok.injEq] at hr; subst hr; exact RmLe.refl _
  · (try simp only [] at hr)
    split at hr
    · simp at hr
    · (try simp only [] at hr)
      split at hr
      · simp at hr
      · rename_i s1 hc
        simp only [Except.ok.injEq] at hr
        subst hr
        refine RmLe.trans (RmLe.trans ?_ (removeService_calls_rm _ _ _ hc)) ?_
        · split <;> exact RmLe.of_eq (by simp) (by simp)
        · refine RmLe.trans ?_ (RmLe.of_eq rfl rfl)
          apply foldl_inv (RmLe s1) _ _ _ _ (RmLe.refl _)
          intro s2 a hp
          refine RmLe.trans hp ?_
          split
          · exact RmLe.of_eq rfl rfl
          · exact RmLe.refl _

theorem removeObject_svcs_rm : ∀ (l : List Cookie) (s s' : St), removeObject.svcs s l = .ok s' → RmLe s s' := by
  intro l
  induction l with
  | nil => intro s s' h; simp [removeObject.svcs] at h; subst h; exact RmLe.refl _
  | cons a l ih =>
    intro s s' h
    simp only [removeObject.svcs] at h
    split at h
    · simp at h
    · exact RmLe.trans (removeService_rm ‹_›) (ih _ _ h)

theorem removeObject_rm {s s' : St} {c : Cookie} (hr : removeObject s c = .ok s') : RmLe s s' := by
  unfold removeObject at hr
  repeat' ((try simp only [] at hr); split at hr)
  all_goals (try (simp only [Except.ok.injEq, reduceCtorEq] at hr))
  all_goals (try (exact hr.elim))
  all_goals (try subst hr)
  · exact RmLe.refl _
  · rename_i hs
    exact RmLe.trans (RmLe.trans (RmLe.of_eq (by simp) (by simp)) (removeObject_svcs_rm _ _ _ hs)) (RmLe.of_eq rfl rfl)

theorem removeEventSubscription_rm {s s' : St} {cid c ev} : removeEventSubscription s cid c ev = .ok s' → RmLe s s' := by
  rm_tac removeEventSubscription
theorem removeAllEventsSubscription_rm {s s' : St} {cid c} : removeAllEventsSubscription s cid c = .ok s' → RmLe s s' := by
  rm_tac removeAllEventsSubscription
theorem removeSubscription_rm {s s' : St} {cid c} : removeSubscription s cid c = .ok s' → RmLe s s' := by
  rm_tac removeSubscription
theorem askIntrospection_rm {s s' : St} {ty e} : askIntrospection s ty e = .ok s' → RmLe s s' := by
  rm_tac askIntrospection

theorem removeChannelEnd_rm {s s' : St} {ck : Cookie} {e : ChanEnd} {owner : Option ConnId}
    (hr : removeChannelEnd s ck e owner = .ok s') : RmLe s s' := by
  rw [removeChannelEnd_eq] at hr
  split at hr
  · simp only [Except.ok.injEq] at hr; subst hr; exact RmLe.refl _
  · split at hr
    · simp at hr
    · rename_i ch' other hc
      simp only [Except.ok.injEq] at hr; subst hr
      have h0 : RmLe s (rceConn s ck e owner) := by
        unfold rceConn; split
        · exact RmLe.of_eq (by simp) (by simp)
        · exact RmLe.refl _
      refine RmLe.trans h0 ?_
      unfold rceFinish rceDrop
      cases other with
      | none => exact RmLe.of_eq (by simp) (by simp)
      | some oid =>
        simp only []
        split
        · exact RmLe.trans (RmLe.of_eq (by simp) (by simp)) (sendOrRemove_rm _ _ _ _)
        · exact RmLe.of_eq (by simp) (by simp)

theorem replyPending_rm : ∀ (l : List IQuery) (s s' : St) (r m), replyPending s l r m = .ok s' → RmLe s s' := by
  intro l
  induction l with
  | nil => intro s s' r m h; simp [replyPending] at h; subst h; exact RmLe.refl _
  | cons a l ih =>
    intro s s' r m h
    simp only [replyPending] at h
    repeat' (split at h)
    · simp at h
    · exact ih _ _ _ _ h
    · exact RmLe.trans (sendOrRemove_rm _ _ _ _) (ih _ _ _ _ h)

theorem removeIntrospectionConn_go_rm : ∀ (l : List (Nat × Option Uuid × List IQuery)) (s s' : St),
    removeIntrospectionConn.go s l = .ok s' → RmLe s s' := by
  intro l
  induction l with
  | nil => intro s s' h; simp [removeIntrospectionConn.go] at h; subst h; exact RmLe.refl _
  | cons a l ih =>
    intro s s' h
    obtain ⟨serial, cont, pending⟩ := a
    simp only [removeIntrospectionConn.go] at h
    repeat' ((try simp only [] at h); split at h)
    all_goals (try (simp at h; done))
    · refine RmLe.trans (RmLe.trans ?_ (replyPending_rm _ _ _ _ _ ‹replyPending _ _ _ _ = _›)) (ih _ _ h)
      exact RmLe.of_eq rfl rfl
    · refine RmLe.trans ?_ (ih _ _ h)
      exact RmLe.of_eq rfl rfl
    · refine RmLe.trans (RmLe.trans ?_ (askIntrospection_rm ‹askIntrospection _ _ _ = _›)) (ih _ _ h)
      exact RmLe.of_eq rfl rfl

theorem removeIntrospectionConn_rm {s s' : St} {cid} (hr : removeIntrospectionConn s cid = .ok s') : RmLe s s' := by
  unfold removeIntrospectionConn at hr
  simp only [] at hr
  refine RmLe.trans ?_ (removeIntrospectionConn_go_rm _ _ _ hr)
  exact RmLe.of_eq rfl rfl

/-- the removal of a connection keeps what else is queued, and the connection is not in the map afterwards -/
theorem shutdownConnection_rm {s s' : St} {id : ConnId} {b : Bool} (hr : shutdownConnection s id b = .ok s') :
    RmLe s s' ∧ s'.b.conns.map Prod.fst = (AL.erase id s.b.conns).map Prod.fst := by
  unfold shutdownConnection at hr
  split at hr
  · rename_i hnone
    simp only [Except.ok.injEq] at hr; subst hr
    refine ⟨RmLe.refl _, ?_⟩
    have : AL.find? id s.b.conns = none := by simpa [St.conn?] using hnone
    rw [AL.length_erase_of_none this]
  · rename_i conn hconn
    simp only [] at hr
    repeat' (split at hr)
    all_goals (try (simp at hr; done))
    rename_i s1 h1 _ s2 h2 _ s3 h3 _ s4 h4 _ s5 h5 _ s6 h6
    constructor
    · have r0 : RmLe s ((if b = true then
            if conn.alive = true then (s.stat fun st => { st with messagesSent := st.messagesSent + 1 }).setOut
                ((s.stat fun st => { st with messagesSent := st.messagesSent + 1 }).out ++ [{ to := id, msg := Rsp.shutdown, ver := none }])
            else s.stat fun st => { st with messagesSent := st.messagesSent + 1 }
          else s).setConns (AL.erase id (if b = true then
            if conn.alive = true then (s.stat fun st => { st with messagesSent := st.messagesSent + 1 }).setOut
                ((s.stat fun st => { st with messagesSent := st.messagesSent + 1 }).out ++ [{ to := id, msg := Rsp.shutdown, ver := none }])
            else s.stat fun st => { st with messagesSent := st.messagesSent + 1 }
          else s).b.conns)) := by
        split <;> (try split) <;> exact RmLe.of_eq rfl rfl
      have r1 : RmLe s s1 := foldE_inv (RmLe s) _ (fun s a s' hp hr => RmLe.trans hp (removeObject_rm hr)) _ _ _
        (foldl_inv (RmLe s) _ (fun s a hp => RmLe.trans hp (removeBusListener_rm _ _)) _ _ r0) h1
      have r2 := foldE_inv (RmLe s) _ (fun s a s' hp hr => RmLe.trans hp (removeEventSubscription_rm hr)) _ _ _ r1 h2
      have r3 := foldE_inv (RmLe s) _ (fun s a s' hp hr => RmLe.trans hp (removeAllEventsSubscription_rm hr)) _ _ _ r2 h3
      have r4 := foldE_inv (RmLe s) _ (fun s a s' hp hr => RmLe.trans hp (removeSubscription_rm hr)) _ _ _ r3 h4
      have r5 := foldE_inv (RmLe s) _ (fun s a s' hp hr => RmLe.trans hp (removeChannelEnd_rm hr)) _ _ _ r4 h5
      have r6 := foldE_inv (RmLe s) _ (fun s a s' hp hr => RmLe.trans hp (removeChannelEnd_rm hr)) _ _ _ r5 h6
      refine RmLe.trans (RmLe.trans r6 ?_) (removeIntrospectionConn_rm hr)
      refine RmLe.trans ?_ (RmLe.of_eq rfl rfl)
      apply foldl_inv (RmLe s6) _ ?_ _ _ (RmLe.refl _)
      intro t a hp
      exact RmLe.trans hp (RmLe.of_eq rfl rfl)
    · have k1 : KSc _ s1 := foldE_inv (KSc _) _ (fun s a s' hp hr => KSc.trans hp (removeObject_kc hr)) _ _ _
        (foldl_inv (KSc _) _ (fun s a hp => KSc.trans hp (KSc.of_same5 (removeBusListener_same5 _ _))) _ _ (KSc.refl _)) h1
      have k2 := foldE_inv (KSc _) _ (fun s a s' hp hr => KSc.trans hp (KSc.of_same5 (removeEventSubscription_same5 hr))) _ _ _ k1 h2
      have k3 := foldE_inv (KSc _) _ (fun s a s' hp hr => KSc.trans hp (KSc.of_same5 (removeAllEventsSubscription_same5 hr))) _ _ _ k2 h3
      have k4 := foldE_inv (KSc _) _ (fun s a s' hp hr => KSc.trans hp (KSc.of_same5 (removeSubscription_same5 hr))) _ _ _ k3 h4
      have k5 := foldE_inv (KSc _) _ (fun s a s' hp hr => KSc.trans hp (KSc.of_same5 (removeChannelEnd_same5 hr))) _ _ _ k4 h5
      have k6 := foldE_inv (KSc _) _ (fun s a s' hp hr => KSc.trans hp (KSc.of_same5 (removeChannelEnd_same5 hr))) _ _ _ k5 h6
      have k7 : KSc s6 s' := by
        refine KSc.trans ?_ (KSc.of_same5 (removeIntrospectionConn_same5 hr))
        refine KSc.trans ?_ (KSc.of_eq (St.stat_b_conns _ _))
        apply foldl_inv (KSc s6) _ ?_ _ _ (KSc.refl _)
        intro t a hp
        exact KSc.trans hp (KSc.of_eq rfl)
      have := KSc.trans k6 k7
      unfold KSc at this
      rw [this]
      split <;> (try split) <;> simp

/-! ### a broker shutdown removes everybody -/

/-- every connection is queued for removal -/
def AllQueued (s : St) : Prop := ∀ c, c ∈ s.b.conns.map Prod.fst → ∃ b, (c, b) ∈ s.w.removeConns

theorem mem_keys_erase {K V : Type} [DecidableEq K] {m : List (K × V)} {k c : K} (h : c ∈ (AL.erase k m).map Prod.fst) :
    c ∈ m.map Prod.fst ∧ c ≠ k := by
  simp only [AL.erase, List.mem_map, List.mem_filter] at h
  obtain ⟨p, ⟨hp, hne⟩, rfl⟩ := h
  exact ⟨List.mem_map.mpr ⟨p, hp, rfl⟩, by simpa using hne⟩

theorem processOne_queued {s s' : St} (h : AllQueued s) (hr : processOne s = some (.ok s')) :
    AllQueued s' ∧ s'.w.shutdownNow = s.w.shutdownNow := by
  cases hrm : s.w.removeConns with
  | nil =>
    -- nobody is queued, so nobody is there; an item of another kind leaves it so
    have hc : s.b.conns.map Prod.fst = [] := by
      cases hk : s.b.conns.map Prod.fst with
      | nil => rfl
      | cons c rest =>
        obtain ⟨b, hb⟩ := h c (by rw [hk]; simp)
        rw [hrm] at hb; simp at hb
    obtain ⟨h1, _⟩ := processOne_work hrm hr
    have hnil : s.b.conns = [] := by simpa using hc
    have : s'.b.conns = [] := by
      have : s'.b.conns.length = 0 := by simpa [mConns, hnil] using h1
      exact List.length_eq_zero_iff.mp this
    refine ⟨fun c hcm => by rw [this] at hcm; simp at hcm, ?_⟩
    -- the flag: every branch is a frame for it
    unfold processOne at hr
    simp only [hrm] at hr
    repeat' (split at hr)
    all_goals (try (simp only [Option.some.injEq, Except.ok.injEq, reduceCtorEq] at hr))
    all_goals (try (exact hr.elim))
    all_goals first
      | (subst hr; first
          | rfl
          | (exact (sendOrRemove_w _ _ _ _).2.2.2.2.2.2.2.2.2.2)
          | (exact (emitBusEvent_w _ _).2.2.2.2.2.2.2.2.2.2)
          | (exact (SameW.trans (setConn_w ‹_› _) (sendOrRemove_w _ _ _ _)).2.2.2.2.2.2.2.2.2.2))
      | (exact (abortCall_w hr).2.2.2.2.2.2.2.2.2.2)
  | cons x rest =>
    obtain ⟨cid, b⟩ := x
    rw [processOne_rm hrm] at hr
    simp only [Option.some.injEq] at hr
    obtain ⟨hle, hkeys⟩ := shutdownConnection_rm hr
    refine ⟨fun c hcm => ?_, by rw [hle.2]; simp⟩
    rw [hkeys] at hcm
    simp only [St.setWRemoveConns_b_conns] at hcm
    obtain ⟨hin, hne⟩ := mem_keys_erase hcm
    obtain ⟨b', hb'⟩ := h c hin
    rw [hrm] at hb'
    rcases List.mem_cons.mp hb' with he | hm
    · simp at he; exact absurd he.1 hne
    · exact ⟨b', hle.1 _ (by simpa using hm)⟩

theorem processLoop_queued : ∀ (fuel : Nat) (s s' : St), AllQueued s → processLoop fuel s = .ok s' →
    s'.b.conns = [] ∧ s'.w.shutdownNow = s.w.shutdownNow := by
  intro fuel
  induction fuel with
  | zero => intro s s' _ hr; simp [processLoop] at hr
  | succ n ih =>
    intro s s' h hr
    simp only [processLoop] at hr
    split at hr
    · rename_i hnone
      simp only [Except.ok.injEq] at hr; subst hr
      have hidle := processOne_none_idle hnone
      refine ⟨?_, rfl⟩
      cases hk : s.b.conns with
      | nil => rfl
      | cons p rest =>
        obtain ⟨b, hb⟩ := h p.1 (by rw [hk]; simp)
        rw [hidle.1] at hb; simp at hb
    · simp at hr
    · rename_i s1 h1
      obtain ⟨q1, q2⟩ := processOne_queued h h1
      obtain ⟨r1, r2⟩ := ih _ _ q1 hr
      exact ⟨r1, r2.trans q2⟩

/-- **A broker shutdown removes every connection and ends the run loop**: the turn that handles `ShutdownBroker`, from
any state, leaves no connection, nothing deferred, and `Broker::run`'s exit condition true. -/
theorem shutdownBroker_completes {b b' : Broker} {w w' : Work} {out : List Out} (hr : step b w .shutdownBroker = .ok (b', w', out)) :
    b'.conns = [] ∧ w'.idle ∧ finished b' w' = true := by
  unfold step at hr
  split at hr
  · simp at hr
  · rename_i s1 h1
    split at hr
    · simp at hr
    · rename_i s2 h2
      simp only [Except.ok.injEq, Prod.mk.injEq] at hr
      obtain ⟨rfl, rfl, _⟩ := hr
      simp only [handleEvent, Except.ok.injEq] at h1
      subst h1
      have hq : AllQueued (((⟨b, w, []⟩ : St).setWRemoveConns ((b.conns.map (fun p => (p.1, true))).reverse ++ w.removeConns)).setWShutdownNow true) := by
        intro c hc
        simp only [St.setWShutdownNow_b_conns, St.setWRemoveConns_b_conns, List.mem_map] at hc
        obtain ⟨p, hp, rfl⟩ := hc
        refine ⟨true, ?_⟩
        simp only [St.setWShutdownNow_w_removeConns, St.setWRemoveConns_w_removeConns, List.mem_append, List.mem_reverse, List.mem_map]
        exact Or.inl ⟨p, hp, rfl⟩
      obtain ⟨c1, c2⟩ := processLoop_queued _ _ _ hq h2
      refine ⟨c1, processLoop_idle _ _ _ h2, ?_⟩
      unfold finished
      rw [c2]; simp

end Aldrin.Broker
