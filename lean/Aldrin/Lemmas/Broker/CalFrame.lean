/-
Frame lemmas for the callee side of the book-keeping of calls: every function of the broker model except the call
handlers, `create_service`, `remove_service` and what calls it leaves the set of calls of every service entry as it was.
-/
import Aldrin.Lemmas.Broker.CalView

set_option linter.unusedSimpArgs false
set_option linter.unusedVariables false
namespace Aldrin.Broker

theorem removeBusListener_cal (s : St) (k : Cookie) : SameSc s (removeBusListener s k) := by
  unfold removeBusListener; split
  · exact SameSc.refl _
  · cal_eq

@[grind →] theorem removeEventSubscription_cal {s s' : St} {cid c ev} : removeEventSubscription s cid c ev = .ok s' → SameSc s s' := by
  cal_tac removeEventSubscription

@[grind →] theorem removeChannelEnd_cal {s s' : St} {c e o} : removeChannelEnd s c e o = .ok s' → SameSc s s' := by
  cal_tac removeChannelEnd
@[grind →] theorem removeAllEventsSubscription_cal {s s' : St} {cid c} : removeAllEventsSubscription s cid c = .ok s' → SameSc s s' := by
  cal_tac removeAllEventsSubscription
@[grind →] theorem removeSubscription_cal {s s' : St} {cid c} : removeSubscription s cid c = .ok s' → SameSc s s' := by
  cal_tac removeSubscription
@[grind →] theorem askIntrospection_cal {s s' : St} {ty e} : askIntrospection s ty e = .ok s' → SameSc s s' := by
  cal_tac askIntrospection
@[grind →] theorem abortCall_cal {s s' : St} {serial cid} : abortCall s serial cid = .ok s' → SameSc s s' := by
  cal_tac abortCall

theorem replyPending_cal : ∀ (l : List IQuery) (s s' : St) (r m), replyPending s l r m = .ok s' → SameSc s s' := by
  intro l
  induction l with
  | nil => intro s s' r m h; simp [replyPending] at h; subst h; exact SameSc.refl _
  | cons a l ih =>
    intro s s' r m h
    simp only [replyPending] at h
    repeat' (split at h)
    · simp at h
    · exact ih _ _ _ _ h
    · exact SameSc.trans (by cal_eq) (ih _ _ _ _ h)

theorem removeIntrospectionConn_go_cal : ∀ (l : List (Nat × Option Uuid × List IQuery)) (s s' : St),
    removeIntrospectionConn.go s l = .ok s' → SameSc s s' := by
  intro l
  induction l with
  | nil => intro s s' h; simp [removeIntrospectionConn.go] at h; subst h; exact SameSc.refl _
  | cons a l ih =>
    intro s s' h
    obtain ⟨serial, cont, pending⟩ := a
    simp only [removeIntrospectionConn.go] at h
    repeat' ((try simp only [] at h); split at h)
    all_goals (try (simp at h; done))
    · have h1 := replyPending_cal _ _ _ _ _ ‹_›
      have h2 := ih _ _ h
      exact SameSc.trans (SameSc.trans (by cal_eq) h1) h2
    · have h2 := ih _ _ h
      exact SameSc.trans (by cal_eq) h2
    · have h1 := askIntrospection_cal ‹_›
      have h2 := ih _ _ h
      exact SameSc.trans (SameSc.trans (by cal_eq) h1) h2

@[grind →] theorem removeIntrospectionConn_cal {s s' : St} {cid} : removeIntrospectionConn s cid = .ok s' → SameSc s s' := by
  intro h
  unfold removeIntrospectionConn at h
  simp only [] at h
  exact SameSc.trans (by cal_eq) (removeIntrospectionConn_go_cal _ _ _ h)

--HANDLERS
@[grind →] theorem abortFunctionCall_cal {s s' : St} {id serial} {ok : Bool} : abortFunctionCall s id serial = .ok (s', ok) → SameSc s s' := by
  cal_tac abortFunctionCall
@[grind →] theorem subscribeEvent_cal {s s' : St} {id serial svc ev} {ok : Bool} : subscribeEvent s id serial svc ev = .ok (s', ok) → SameSc s s' := by
  cal_tac subscribeEvent
@[grind →] theorem unsubscribeEvent_cal {s s' : St} {id svc ev} {ok : Bool} : unsubscribeEvent s id svc ev = .ok (s', ok) → SameSc s s' := by
  cal_tac unsubscribeEvent

@[grind →] theorem emitEvent_cal {s s' : St} {id svc ev p} {ok : Bool} : emitEvent s id svc ev p = .ok (s', ok) → SameSc s s' := by
  intro h; unfold emitEvent at h
  repeat' ((try simp only [] at h); split at h)
  all_goals (try (simp only [okH, errH, Except.ok.injEq, Prod.mk.injEq, reduceCtorEq] at h))
  all_goals (try (obtain ⟨h1, h2⟩ := h; subst h1; subst h2))
  all_goals (try (exact SameSc.refl _))
  apply foldl_inv (fun s' => SameSc s s')
  · intro s1 a hp; split
    · exact SameSc.trans hp (by cal_eq)
    · exact hp
  · exact SameSc.refl _

@[grind →] theorem queryServiceVersion_cal {s s' : St} {id serial svc} {ok : Bool} : queryServiceVersion s id serial svc = .ok (s', ok) → SameSc s s' := by
  cal_tac queryServiceVersion
@[grind →] theorem queryServiceInfo_cal {s s' : St} {id serial svc} {ok : Bool} : queryServiceInfo s id serial svc = .ok (s', ok) → SameSc s s' := by
  cal_tac queryServiceInfo
@[grind →] theorem subscribeService_cal {s s' : St} {id serial svc} {ok : Bool} : subscribeService s id serial svc = .ok (s', ok) → SameSc s s' := by
  cal_tac subscribeService
@[grind →] theorem unsubscribeService_cal {s s' : St} {id svc} {ok : Bool} : unsubscribeService s id svc = .ok (s', ok) → SameSc s s' := by
  cal_tac unsubscribeService
@[grind →] theorem subscribeAllEvents_cal {s s' : St} {id serial svc} {ok : Bool} : subscribeAllEvents s id serial svc = .ok (s', ok) → SameSc s s' := by
  cal_tac subscribeAllEvents
@[grind →] theorem unsubscribeAllEvents_cal {s s' : St} {id serial svc} {ok : Bool} : unsubscribeAllEvents s id serial svc = .ok (s', ok) → SameSc s s' := by
  cal_tac unsubscribeAllEvents
@[grind →] theorem createChannel_cal {s s' : St} {id serial e cap} {ok : Bool} : createChannel s id serial e cap = .ok (s', ok) → SameSc s s' := by
  cal_tac createChannel
@[grind →] theorem closeChannelEnd_cal {s s' : St} {id serial c e} {ok : Bool} : closeChannelEnd s id serial c e = .ok (s', ok) → SameSc s s' := by
  intro h; unfold closeChannelEnd at h
  repeat' ((try simp only [] at h); split at h)
  all_goals (try (simp only [okH, errH, Except.ok.injEq, Prod.mk.injEq, reduceCtorEq] at h))
  all_goals (try (have hfst := congrArg Prod.fst h; (try dsimp only at hfst); rw [← hfst]; clear hfst h))
  all_goals (try (exact h.elim))
  all_goals (try (obtain ⟨h1, h2⟩ := h; subst h1; subst h2))
  all_goals (try (exact SameSc.refl _))
  all_goals (try (cal_eq))
  all_goals (refine SameSc.trans ?_ (removeChannelEnd_cal ‹removeChannelEnd _ _ _ _ = _›); cal_eq)
@[grind →] theorem claimChannelEnd_cal {s s' : St} {id serial c e cap} {ok : Bool} : claimChannelEnd s id serial c e cap = .ok (s', ok) → SameSc s s' := by
  cal_tac claimChannelEnd
@[grind →] theorem addChannelCapacity_cal {s s' : St} {id c cap} {ok : Bool} : addChannelCapacity s id c cap = .ok (s', ok) → SameSc s s' := by
  intro h; unfold addChannelCapacity at h
  repeat' ((try simp only [] at h); split at h)
  all_goals (try (simp only [okH, errH, Except.ok.injEq, Prod.mk.injEq, reduceCtorEq] at h))
  all_goals (try (exact h.elim))
  all_goals (try (obtain ⟨h1, h2⟩ := h; subst h1; subst h2))
  all_goals (try (exact SameSc.refl _))
  all_goals (try (cal_eq))
  all_goals (exact removeChannelEnd_cal ‹removeChannelEnd _ _ _ _ = _›)
@[grind →] theorem sendItem_cal {s s' : St} {id c p} {ok : Bool} : sendItem s id c p = .ok (s', ok) → SameSc s s' := by
  intro h; unfold sendItem at h
  repeat' ((try simp only [] at h); split at h)
  all_goals (try (simp only [okH, errH, Except.ok.injEq, Prod.mk.injEq, reduceCtorEq] at h))
  all_goals (try (have hfst := congrArg Prod.fst h; (try dsimp only at hfst); rw [← hfst]; clear hfst h))
  all_goals (try (exact h.elim))
  all_goals (try (obtain ⟨h1, h2⟩ := h; subst h1; subst h2))
  all_goals (try (exact SameSc.refl _))
  all_goals (try (cal_eq))
  all_goals (try (exact removeChannelEnd_cal ‹removeChannelEnd _ _ _ _ = _›))
  all_goals (rename_i h1 _ _ h2; exact SameSc.trans (removeChannelEnd_cal h1) (removeChannelEnd_cal h2))
@[grind →] theorem sync_cal {s s' : St} {id serial} {ok : Bool} : sync s id serial = .ok (s', ok) → SameSc s s' := by
  cal_tac sync
@[grind →] theorem createBusListener_cal {s s' : St} {id serial} {ok : Bool} : createBusListener s id serial = .ok (s', ok) → SameSc s s' := by
  cal_tac createBusListener
@[grind →] theorem destroyBusListener_cal {s s' : St} {id serial c} {ok : Bool} : destroyBusListener s id serial c = .ok (s', ok) → SameSc s s' := by
  intro h; unfold destroyBusListener at h
  repeat' ((try simp only [] at h); split at h)
  all_goals (try (simp only [okH, errH, Except.ok.injEq, Prod.mk.injEq, reduceCtorEq] at h))
  all_goals (try (have hfst := congrArg Prod.fst h; (try dsimp only at hfst); rw [← hfst]; clear hfst h))
  all_goals (try (exact h.elim))
  all_goals (try (obtain ⟨h1, h2⟩ := h; subst h1; subst h2))
  all_goals (try (exact SameSc.refl _))
  all_goals (try (cal_eq))
  all_goals (refine SameSc.trans ?_ (removeBusListener_cal _ _); cal_eq)
@[grind →] theorem updListener_cal {s s' : St} {id c f} {ok : Bool} : updListener s id c f = .ok (s', ok) → SameSc s s' := by
  cal_tac updListener

theorem sendAll_cal : ∀ (l : List Rsp) (s : St) (id : ConnId), SameSc s (sendAll s id l).1 := by
  intro l
  induction l with
  | nil => intro s id; exact SameSc.refl _
  | cons a l ih =>
    intro s id
    simp only [sendAll]
    split
    · exact SameSc.trans (by cal_eq) (ih _ _)
    · cal_eq

@[grind →] theorem startBusListener_cal {s s' : St} {id serial c sc} {ok : Bool} : startBusListener s id serial c sc = .ok (s', ok) → SameSc s s' := by
  intro h; unfold startBusListener at h
  repeat' ((try simp only [] at h); split at h)
  all_goals (try (simp only [okH, errH, Except.ok.injEq, Prod.mk.injEq, reduceCtorEq] at h))
  all_goals (try (exact h.elim))
  all_goals (try (have hfst := congrArg Prod.fst h; (try dsimp only at hfst); rw [← hfst]; clear hfst h))
  all_goals (try (obtain ⟨h1, h2⟩ := h; subst h1; subst h2))
  all_goals (try (exact SameSc.refl _))
  all_goals (try (cal_eq))
  all_goals (refine SameSc.trans ?_ (sendAll_cal _ _ _); cal_eq)

@[grind →] theorem stopBusListener_cal {s s' : St} {id serial c} {ok : Bool} : stopBusListener s id serial c = .ok (s', ok) → SameSc s s' := by
  cal_tac stopBusListener

@[grind →] theorem registerIntrospection_cal {s s' : St} {id tys} {ok : Bool} : registerIntrospection s id tys = .ok (s', ok) → SameSc s s' := by
  intro h; unfold registerIntrospection at h
  repeat' ((try simp only [] at h); split at h)
  all_goals (try (simp only [okH, errH, Except.ok.injEq, Prod.mk.injEq, reduceCtorEq] at h))
  all_goals (try (obtain ⟨h1, h2⟩ := h; subst h1; subst h2))
  all_goals (try (exact SameSc.refl _))
  apply foldl_inv (fun s' => SameSc s s')
  · intro s1 a hp; exact SameSc.trans hp (by cal_eq)
  · exact SameSc.refl _

@[grind →] theorem queryIntrospection_cal {s s' : St} {id serial ty} {ok : Bool} : queryIntrospection s id serial ty = .ok (s', ok) → SameSc s s' := by
  intro h; unfold queryIntrospection at h
  repeat' ((try simp only [] at h); split at h)
  all_goals (try (simp only [okH, errH, Except.ok.injEq, Prod.mk.injEq, reduceCtorEq] at h))
  all_goals (try (have hfst := congrArg Prod.fst h; (try dsimp only at hfst); rw [← hfst]; clear hfst h))
  all_goals (try (exact h.elim))
  all_goals (try (obtain ⟨h1, h2⟩ := h; subst h1; subst h2))
  all_goals (try (exact SameSc.refl _))
  all_goals (try (cal_eq))
  all_goals (refine SameSc.trans ?_ (askIntrospection_cal ‹askIntrospection _ _ _ = _›); cal_eq)

@[grind →] theorem queryIntrospectionReply_cal {s s' : St} {id serial r} {ok : Bool} : queryIntrospectionReply s id serial r = .ok (s', ok) → SameSc s s' := by
  intro h; unfold queryIntrospectionReply at h
  repeat' ((try simp only [] at h); split at h)
  all_goals (try (simp only [okH, errH, Except.ok.injEq, Prod.mk.injEq, reduceCtorEq] at h))
  all_goals (try (exact h.elim))
  all_goals (try (obtain ⟨h1, h2⟩ := h; subst h1; subst h2))
  all_goals (try (exact SameSc.refl _))
  all_goals (try (refine SameSc.trans ?_ (replyPending_cal _ _ _ _ _ ‹replyPending _ _ _ _ = _›); cal_eq; done))
  all_goals (refine SameSc.trans ?_ (askIntrospection_cal ‹askIntrospection _ _ _ = _›); cal_eq)

theorem emitBusEvent_cal (s : St) (e : BusEv) : SameSc s (emitBusEvent s e) := by
  unfold emitBusEvent
  simp only []
  apply foldl_inv (fun s' => SameSc s s')
  · intro s1 a hp; split
    · exact SameSc.trans hp (by cal_eq)
    · exact hp
  · exact SameSc.refl _

end Aldrin.Broker
