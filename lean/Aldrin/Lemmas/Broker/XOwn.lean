/-
Ownership of channel ends and bus listeners, on what it looks at. A *holding* is a sender end, a receiver end or a bus
listener (`Hold`); `OWN` says which connection holds it (a claimed end, a listener's connection), `CO` says what every
connection lists. The invariant: who holds something lists it, and what a connection lists it holds. Its preservation by
the abstract operations of the broker: a connection arrives (`new_conn`), a holding is acquired (`acquire`: create /
claim a channel end, create a listener), released (`release`: an end is closed, a channel dropped, a listener removed),
a connection is taken out while what it lists is still to be released (`remove_conn`, `pc_next`, `pc_done`).

`pc = some (id, L)`: connection `id` is gone from the map; the holdings in `L` are still to be released.
-/
import Aldrin.Lemmas.Broker.XReg

set_option linter.unusedSimpArgs false
set_option linter.unusedVariables false
namespace Aldrin.Broker

inductive HKind where
  | snd | rcv | lsn
  deriving DecidableEq, Repr

abbrev Hold := HKind × Cookie
abbrev OwnView := Hold → Option ConnId
abbrev CoView := ConnId → Option (List Hold)

structure OwnP (pc : Option (ConnId × List Hold)) (OWN : OwnView) (CO : CoView) : Prop where
  /-- who holds something lists it (or is the connection being removed, which still lists it) -/
  o1 : ∀ x o, OWN x = some o → (∃ L, CO o = some L ∧ x ∈ L) ∨ (∃ L, pc = some (o, L) ∧ x ∈ L)
  /-- what a connection lists it holds -/
  o2 : ∀ id L x, CO id = some L → x ∈ L → OWN x = some id
  /-- the connection being removed is not in the map -/
  o3 : ∀ id L, pc = some (id, L) → CO id = none
  /-- what the connection being removed still lists is held by it, if by anybody -/
  o4 : ∀ id L x o, pc = some (id, L) → x ∈ L → OWN x = some o → o = id

variable {pc : Option (ConnId × List Hold)} {OWN : OwnView} {CO : CoView}

theorem OwnP.init : OwnP none (fun _ => none) (fun _ => none) := by
  constructor <;> simp

theorem OwnP.new_conn {id : ConnId} (h : OwnP none OWN CO) (hn : CO id = none) : OwnP none OWN (upd CO id (some [])) := by
  obtain ⟨h1, h2, h3, h4⟩ := h
  refine ⟨?_, ?_, by simp, by simp⟩
  · intro x o hx
    rcases h1 x o hx with ⟨L, hl, hm⟩ | ⟨L, hp, _⟩
    · have : id ≠ o := by intro he; subst he; rw [hn] at hl; simp at hl
      exact Or.inl ⟨L, by simp [this, hl], hm⟩
    · simp at hp
  · intro id' L x hl hm
    simp only [upd_apply] at hl
    split at hl
    · simp at hl; subst hl; simp at hm
    · exact h2 id' L x hl hm

/-- a connection that is there comes to hold something nobody held: `create_channel`, `claim_channel_end`,
`create_bus_listener`. `L'` is the connection's new list. -/
theorem OwnP.acquire {id : ConnId} {x : Hold} {L L' : List Hold} (h : OwnP none OWN CO) (hf : OWN x = none)
    (hc : CO id = some L) (hL : ∀ y, y ∈ L' ↔ y = x ∨ y ∈ L) : OwnP none (upd OWN x (some id)) (upd CO id (some L')) := by
  obtain ⟨h1, h2, h3, h4⟩ := h
  refine ⟨?_, ?_, by simp, by simp⟩
  · intro y o hy
    simp only [upd_apply] at hy
    split at hy
    · rename_i heq; subst heq; simp at hy; subst hy
      exact Or.inl ⟨L', by simp, (hL _).2 (Or.inl rfl)⟩
    · rcases h1 y o hy with ⟨L0, hl, hm⟩ | ⟨L0, hp, _⟩
      · by_cases he : id = o
        · subst he; rw [hc] at hl; simp at hl; subst hl
          exact Or.inl ⟨L', by simp, (hL _).2 (Or.inr hm)⟩
        · exact Or.inl ⟨L0, by simp [he, hl], hm⟩
      · simp at hp
  · intro id' L0 y hl hm
    simp only [upd_apply] at hl ⊢
    split at hl
    · rename_i heq; subst heq; simp at hl; subst hl
      rcases (hL y).1 hm with rfl | hm'
      · simp
      · have := h2 id L y hc hm'
        have hne : x ≠ y := by intro he; subst he; rw [hf] at this; simp at this
        simp [hne, this]
    · have := h2 id' L0 y hl hm
      have hne : x ≠ y := by intro he; subst he; rw [hf] at this; simp at this
      simp [hne, this]

/-- something stops being held (by whoever held it, if anybody); if its holder is in the map, the holder's list loses it -/
theorem OwnP.release {x : Hold} {CO' : CoView} (h : OwnP pc OWN CO)
    (hco : ∀ id, (CO' id = none ↔ CO id = none) ∧ ∀ L', CO' id = some L' → ∃ L, CO id = some L ∧
      (∀ y, y ∈ L' → y ∈ L ∧ (OWN x = some id → y ≠ x)) ∧ (∀ y, y ∈ L → y ≠ x → y ∈ L')) :
    OwnP pc (upd OWN x none) CO' := by
  obtain ⟨h1, h2, h3, h4⟩ := h
  refine ⟨?_, ?_, ?_, ?_⟩
  · intro y o hy
    simp only [upd_apply] at hy
    split at hy
    · simp at hy
    · rename_i hne
      rcases h1 y o hy with ⟨L, hl, hm⟩ | hp
      · left
        cases hc' : CO' o with
        | none => rw [(hco o).1.1 hc'] at hl; simp at hl
        | some L' =>
          obtain ⟨L0, hl0, _, hsup⟩ := (hco o).2 L' hc'
          rw [hl] at hl0; simp at hl0; subst hl0
          exact ⟨L', rfl, hsup y hm (Ne.symm hne)⟩
      · exact Or.inr hp
  · intro id L' y hl hm
    obtain ⟨L, hl0, hsub, _⟩ := (hco id).2 L' hl
    obtain ⟨hm0, hnx⟩ := hsub y hm
    have := h2 id L y hl0 hm0
    have hne : x ≠ y := by
      intro he; subst he; exact hnx this rfl
    simp [hne, this]
  · intro id L hp
    exact (hco id).1.2 (h3 id L hp)
  · intro id L y o hp hm hy
    simp only [upd_apply] at hy
    split at hy
    · simp at hy
    · exact h4 id L y o hp hm hy

/-- something held by a connection that is not in the map (or by nobody) stops being held -/
theorem OwnP.release_gone {x : Hold} (h : OwnP pc OWN CO) (hg : ∀ id, OWN x = some id → CO id = none) :
    OwnP pc (upd OWN x none) CO := by
  refine h.release (CO' := CO) (fun id => ⟨Iff.rfl, fun L' hl => ⟨L', hl, fun y hy => ⟨hy, fun ho => ?_⟩, fun y hy _ => hy⟩⟩)
  rw [hg id ho] at hl; simp at hl

/-- the connection is taken out of the map; what it lists is still to be released -/
theorem OwnP.remove_conn {id : ConnId} {L : List Hold} (h : OwnP none OWN CO) (hc : CO id = some L) :
    OwnP (some (id, L)) OWN (upd CO id none) := by
  obtain ⟨h1, h2, h3, h4⟩ := h
  refine ⟨?_, ?_, ?_, ?_⟩
  · intro x o hx
    rcases h1 x o hx with ⟨L0, hl, hm⟩ | ⟨L0, hp, _⟩
    · by_cases he : id = o
      · subst he; rw [hc] at hl; simp at hl; subst hl; exact Or.inr ⟨L, rfl, hm⟩
      · exact Or.inl ⟨L0, by simp [he, hl], hm⟩
    · simp at hp
  · intro id' L0 x hl hm
    simp only [upd_apply] at hl
    split at hl
    · simp at hl
    · exact h2 id' L0 x hl hm
  · intro id' L' hp
    simp at hp; obtain ⟨rfl, _⟩ := hp; simp
  · intro id' L' x o hp hm hx
    simp at hp; obtain ⟨rfl, rfl⟩ := hp
    have := h2 _ _ x hc hm
    rw [hx] at this; simp at this; exact this

/-- nothing of what the connection that went listed is held by it any more -/
theorem OwnP.pc_clear {id : ConnId} {L : List Hold} (h : OwnP (some (id, L)) OWN CO) (hL : ∀ x, x ∈ L → OWN x = none) :
    OwnP none OWN CO := by
  obtain ⟨h1, h2, h3, h4⟩ := h
  refine ⟨?_, h2, by simp, by simp⟩
  intro y o hy
  rcases h1 y o hy with hl | ⟨L0, hp, hm⟩
  · exact Or.inl hl
  · simp at hp; obtain ⟨rfl, rfl⟩ := hp
    rw [hL y hm] at hy; simp at hy

end Aldrin.Broker
