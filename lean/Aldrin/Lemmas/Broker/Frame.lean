/-
Frame lemmas: which functions of the broker model leave the channel map and the listener map alone.
-/
import Aldrin.Lemmas.Broker.Prim

namespace Aldrin.Broker
open Generated

theorem foldE_inv {α : Type} (P : St → Prop) (f : St → α → Except Panic St)
    (hf : ∀ s a s', P s → f s a = .ok s' → P s') :
    ∀ (l : List α) (s s' : St), P s → foldE f s l = .ok s' → P s' := by
  intro l
  induction l with
  | nil => intro s s' hp h; simp [foldE] at h; exact h ▸ hp
  | cons a l ih =>
    intro s s' hp h
    simp only [foldE] at h
    split at h
    · simp at h
    · exact ih _ _ (hf _ _ _ hp ‹_›) h

theorem foldl_inv {α : Type} (P : St → Prop) (f : St → α → St) (hf : ∀ s a, P s → P (f s a)) :
    ∀ (l : List α) (s : St), P s → P (l.foldl f s) := by
  intro l
  induction l with
  | nil => intro s hp; exact hp
  | cons a l ih => intro s hp; exact ih _ (hf _ _ hp)

/-- both maps and their statistics gauges unchanged -/
def SameCL (s s' : St) : Prop := s'.b.channels = s.b.channels ∧ s'.b.listeners = s.b.listeners ∧
  s'.b.stats.numChannels = s.b.stats.numChannels ∧ s'.b.stats.numBusListeners = s.b.stats.numBusListeners ∧
  s.b.nextCookie ≤ s'.b.nextCookie

theorem SameCL.refl (s : St) : SameCL s s := ⟨rfl, rfl, rfl, rfl, Nat.le_refl _⟩
theorem SameCL.trans {a b c : St} (h1 : SameCL a b) (h2 : SameCL b c) : SameCL a c :=
  ⟨h2.1.trans h1.1, h2.2.1.trans h1.2.1, h2.2.2.1.trans h1.2.2.1, h2.2.2.2.1.trans h1.2.2.2.1,
   Nat.le_trans h1.2.2.2.2 h2.2.2.2.2⟩

syntax "frame_tac" ident : tactic
macro_rules
  | `(tactic| frame_tac $f) => `(tactic|
      (intro h; unfold $f at h
       repeat' ((try simp only [] at h); split at h)
       all_goals (try (grind [SameCL, okH, errH]; done))
       all_goals (try subst_vars)
       all_goals (try simp_all [okH, errH, SameCL])
       all_goals (try grind [SameCL])))

@[simp, grind =] theorem removeBusListener_channels (s : St) (c : Cookie) : (removeBusListener s c).b.channels = s.b.channels := by
  unfold removeBusListener; split <;> simp

theorem removeService_calls_cl : ∀ (l : List Nat) (s s' : St), removeService.calls s l = .ok s' → SameCL s s' := by
  intro l
  induction l with
  | nil => intro s s' h; simp [removeService.calls] at h; subst h; exact SameCL.refl _
  | cons a l ih =>
    intro s s' h
    simp only [removeService.calls] at h
    split at h
    · simp at h
    · have := ih _ _ h
      split at this <;> simp_all [SameCL]

@[grind →] theorem removeService_cl {s s' : St} {c : Cookie} : removeService s c = .ok s' → SameCL s s' := by
  intro h
  unfold removeService at h
  split at h
  · simp_all [SameCL]
  · (try simp only [] at h)
    split at h
    · simp at h
    · (try simp only [] at h)
      split at h
      · simp at h
      · rename_i s1 hc
        have h1 := removeService_calls_cl _ _ _ hc
        simp only [Except.ok.injEq] at h
        subst h
        refine SameCL.trans (SameCL.trans ?_ h1) ?_
        · split <;> simp [SameCL]
        · simp only [SameCL, St.stat_b_channels, St.stat_b_listeners, St.stat_b_stats, St.stat_b_nextCookie]
          exact foldl_inv (fun s => s.b.channels = s1.b.channels ∧ s.b.listeners = s1.b.listeners ∧
            s.b.stats.numChannels = s1.b.stats.numChannels ∧ s.b.stats.numBusListeners = s1.b.stats.numBusListeners ∧
            s1.b.nextCookie ≤ s.b.nextCookie) _
            (by intro s a hp; split <;> simp_all) _ _ (by simp)

@[grind →] theorem removeEventSubscription_cl {s s' : St} {cid c ev} : removeEventSubscription s cid c ev = .ok s' → SameCL s s' := by
  frame_tac removeEventSubscription

@[grind →] theorem removeChannelEnd_listeners {s s' : St} {c e o} : removeChannelEnd s c e o = .ok s' →
    s'.b.listeners = s.b.listeners := by
  frame_tac removeChannelEnd

theorem removeObject_svcs_cl : ∀ (l : List Cookie) (s s' : St), removeObject.svcs s l = .ok s' → SameCL s s' := by
  intro l
  induction l with
  | nil => intro s s' h; simp [removeObject.svcs] at h; subst h; exact SameCL.refl _
  | cons a l ih =>
    intro s s' h
    simp only [removeObject.svcs] at h
    split at h
    · simp at h
    · exact SameCL.trans (removeService_cl ‹_›) (ih _ _ h)

@[grind →] theorem removeObject_cl {s s' : St} {c : Cookie} : removeObject s c = .ok s' → SameCL s s' := by
  intro h
  unfold removeObject at h
  repeat' ((try simp only [] at h); split at h)
  all_goals (try simp_all [SameCL])
  rename_i hs
  have := removeObject_svcs_cl _ _ _ hs
  subst_vars
  simp_all [SameCL]

@[grind →] theorem removeAllEventsSubscription_cl {s s' : St} {cid c} : removeAllEventsSubscription s cid c = .ok s' → SameCL s s' := by
  frame_tac removeAllEventsSubscription

@[grind →] theorem removeSubscription_cl {s s' : St} {cid c} : removeSubscription s cid c = .ok s' → SameCL s s' := by
  frame_tac removeSubscription

@[grind →] theorem askIntrospection_cl {s s' : St} {ty e} : askIntrospection s ty e = .ok s' → SameCL s s' := by
  frame_tac askIntrospection

theorem replyPending_cl : ∀ (l : List IQuery) (s s' : St) (r m), replyPending s l r m = .ok s' → SameCL s s' := by
  intro l
  induction l with
  | nil => intro s s' r m h; simp [replyPending] at h; subst h; exact SameCL.refl _
  | cons a l ih =>
    intro s s' r m h
    simp only [replyPending] at h
    repeat' (split at h)
    · simp at h
    · exact ih _ _ _ _ h
    · have := ih _ _ _ _ h
      simp_all [SameCL]

@[grind →] theorem replyPending_cl' {l : List IQuery} {s s' : St} {r m} (h : replyPending s l r m = .ok s') : SameCL s s' :=
  replyPending_cl _ _ _ _ _ h

syntax "frame_tac2" ident : tactic
macro_rules
  | `(tactic| frame_tac2 $f) => `(tactic|
      (intro h; unfold $f at h
       repeat' ((try simp only [] at h); split at h)
       all_goals (try (first | grind [SameCL, okH, errH]
                             | (have hrp := replyPending_cl' ‹_›; simp_all [SameCL, okH, errH]; done)
                             | (have hrp := replyPending_cl' ‹_›; simp only [okH, Except.ok.injEq, Prod.mk.injEq] at *; grind [SameCL])))))

theorem removeIntrospectionConn_go_cl : ∀ (l : List (Nat × Option Uuid × List IQuery)) (s s' : St),
    removeIntrospectionConn.go s l = .ok s' → SameCL s s' := by
  intro l
  induction l with
  | nil => intro s s' h; simp [removeIntrospectionConn.go] at h; subst h; exact SameCL.refl _
  | cons a l ih =>
    intro s s' h
    obtain ⟨serial, cont, pending⟩ := a
    simp only [removeIntrospectionConn.go] at h
    repeat' ((try simp only [] at h); split at h)
    all_goals (try (simp at h; done))
    · have h1 := replyPending_cl _ _ _ _ _ ‹_›
      have h2 := ih _ _ h
      exact SameCL.trans (SameCL.trans (by simp [SameCL]) h1) h2
    · have h2 := ih _ _ h
      exact SameCL.trans (by simp [SameCL]) h2
    · have h1 := askIntrospection_cl ‹_›
      have h2 := ih _ _ h
      exact SameCL.trans (SameCL.trans (by simp [SameCL]) h1) h2

@[grind →] theorem removeIntrospectionConn_cl {s s' : St} {cid} : removeIntrospectionConn s cid = .ok s' → SameCL s s' := by
  intro h
  unfold removeIntrospectionConn at h
  simp only [] at h
  have := removeIntrospectionConn_go_cl _ _ _ h
  simp_all [SameCL]

@[grind →] theorem createObject_cl {s s' : St} {id serial uuid} {ok : Bool} : createObject s id serial uuid = .ok (s', ok) → SameCL s s' := by
  frame_tac createObject

@[grind →] theorem destroyObject_cl {s s' : St} {id serial c} {ok : Bool} : destroyObject s id serial c = .ok (s', ok) → SameCL s s' := by
  frame_tac destroyObject

@[grind →] theorem createServiceImpl_cl {s s' : St} {id serial oc uuid info} {ok : Bool} : createServiceImpl s id serial oc uuid info = .ok (s', ok) → SameCL s s' := by
  frame_tac createServiceImpl

@[grind →] theorem createService_cl {s s' : St} {id serial oc uuid v} {ok : Bool} : createService s id serial oc uuid v = .ok (s', ok) → SameCL s s' := by
  frame_tac createService

@[grind →] theorem createService2_cl {s s' : St} {id serial oc uuid info} {ok : Bool} : createService2 s id serial oc uuid info = .ok (s', ok) → SameCL s s' := by
  frame_tac createService2

@[grind →] theorem destroyService_cl {s s' : St} {id serial c} {ok : Bool} : destroyService s id serial c = .ok (s', ok) → SameCL s s' := by
  frame_tac destroyService

@[grind →] theorem callFunctionImpl_cl {s s' : St} {id serial svc f v p} {ok : Bool} : callFunctionImpl s id serial svc f v p = .ok (s', ok) → SameCL s s' := by
  frame_tac callFunctionImpl

@[grind →] theorem callFunction2_cl {s s' : St} {id serial svc f v p} {ok : Bool} : callFunction2 s id serial svc f v p = .ok (s', ok) → SameCL s s' := by
  frame_tac callFunction2

@[grind →] theorem callFunctionReply_cl {s s' : St} {id serial r} {ok : Bool} : callFunctionReply s id serial r = .ok (s', ok) → SameCL s s' := by
  frame_tac callFunctionReply

@[grind →] theorem abortFunctionCall_cl {s s' : St} {id serial} {ok : Bool} : abortFunctionCall s id serial = .ok (s', ok) → SameCL s s' := by
  frame_tac abortFunctionCall

@[grind →] theorem subscribeEvent_cl {s s' : St} {id serial svc ev} {ok : Bool} : subscribeEvent s id serial svc ev = .ok (s', ok) → SameCL s s' := by
  frame_tac subscribeEvent

@[grind →] theorem unsubscribeEvent_cl {s s' : St} {id svc ev} {ok : Bool} : unsubscribeEvent s id svc ev = .ok (s', ok) → SameCL s s' := by
  frame_tac unsubscribeEvent

@[grind →] theorem queryServiceVersion_cl {s s' : St} {id serial svc} {ok : Bool} : queryServiceVersion s id serial svc = .ok (s', ok) → SameCL s s' := by
  frame_tac queryServiceVersion

@[grind →] theorem queryServiceInfo_cl {s s' : St} {id serial svc} {ok : Bool} : queryServiceInfo s id serial svc = .ok (s', ok) → SameCL s s' := by
  frame_tac queryServiceInfo

@[grind →] theorem subscribeService_cl {s s' : St} {id serial svc} {ok : Bool} : subscribeService s id serial svc = .ok (s', ok) → SameCL s s' := by
  frame_tac subscribeService

@[grind →] theorem unsubscribeService_cl {s s' : St} {id svc} {ok : Bool} : unsubscribeService s id svc = .ok (s', ok) → SameCL s s' := by
  frame_tac unsubscribeService

@[grind →] theorem subscribeAllEvents_cl {s s' : St} {id serial svc} {ok : Bool} : subscribeAllEvents s id serial svc = .ok (s', ok) → SameCL s s' := by
  frame_tac subscribeAllEvents

@[grind →] theorem unsubscribeAllEvents_cl {s s' : St} {id serial svc} {ok : Bool} : unsubscribeAllEvents s id serial svc = .ok (s', ok) → SameCL s s' := by
  frame_tac unsubscribeAllEvents

@[grind →] theorem sync_cl {s s' : St} {id serial} {ok : Bool} : sync s id serial = .ok (s', ok) → SameCL s s' := by
  frame_tac sync

@[grind →] theorem queryIntrospection_cl {s s' : St} {id serial ty} {ok : Bool} : queryIntrospection s id serial ty = .ok (s', ok) → SameCL s s' := by
  frame_tac2 queryIntrospection

@[grind →] theorem queryIntrospectionReply_cl {s s' : St} {id serial r} {ok : Bool} : queryIntrospectionReply s id serial r = .ok (s', ok) → SameCL s s' := by
  intro h; unfold queryIntrospectionReply at h
  repeat' ((try simp only [] at h); split at h)
  all_goals (try (grind [SameCL, okH, errH]; done))
  all_goals
    have hrp := replyPending_cl' ‹_›
    simp only [okH, Except.ok.injEq, Prod.mk.injEq] at h
    obtain ⟨h1, h2⟩ := h
    subst h1
    simp_all [SameCL]

@[grind →] theorem emitEvent_cl {s s' : St} {id svc ev p} {ok : Bool} : emitEvent s id svc ev p = .ok (s', ok) → SameCL s s' := by
  intro h; unfold emitEvent at h
  repeat' ((try simp only [] at h); split at h)
  all_goals (try (grind [SameCL, okH, errH]; done))
  simp only [okH, Except.ok.injEq, Prod.mk.injEq] at h
  obtain ⟨h1, _⟩ := h
  subst h1
  apply foldl_inv (fun s' => SameCL s s')
  · intro s1 a hp; split <;> simp_all [SameCL]
  · exact SameCL.refl _

@[grind →] theorem registerIntrospection_cl {s s' : St} {id tys} {ok : Bool} : registerIntrospection s id tys = .ok (s', ok) → SameCL s s' := by
  intro h; unfold registerIntrospection at h
  repeat' ((try simp only [] at h); split at h)
  all_goals (try (grind [SameCL, okH, errH]; done))
  simp only [okH, Except.ok.injEq, Prod.mk.injEq] at h
  obtain ⟨h1, _⟩ := h
  subst h1
  apply foldl_inv (fun s' => SameCL s s')
  · intro s1 a hp; simp_all [SameCL]
  · exact SameCL.refl _

theorem emitBusEvent_cl (s : St) (e : BusEv) : SameCL s (emitBusEvent s e) := by
  unfold emitBusEvent
  simp only []
  apply foldl_inv (fun s' => SameCL s s')
  · intro s1 a hp; split <;> simp_all [SameCL]
  · exact SameCL.refl _

@[grind →] theorem abortCall_cl {s s' : St} {serial cid} : abortCall s serial cid = .ok s' → SameCL s s' := by
  intro h; unfold abortCall at h
  repeat' ((try simp only [] at h); split at h)
  all_goals (try subst_vars)
  all_goals (try (simp_all [SameCL]; done))
  all_goals (try (grind [SameCL]; done))

/-! handlers that touch only one of the two maps -/

@[grind →] theorem createBusListener_channels {s s' : St} {id serial} {ok : Bool} : createBusListener s id serial = .ok (s', ok) → s'.b.channels = s.b.channels := by
  frame_tac createBusListener
@[grind →] theorem destroyBusListener_channels {s s' : St} {id serial c} {ok : Bool} : destroyBusListener s id serial c = .ok (s', ok) → s'.b.channels = s.b.channels := by
  frame_tac destroyBusListener
@[grind →] theorem updListener_channels {s s' : St} {id c f} {ok : Bool} : updListener s id c f = .ok (s', ok) → s'.b.channels = s.b.channels := by
  frame_tac updListener
@[grind →] theorem stopBusListener_channels {s s' : St} {id serial c} {ok : Bool} : stopBusListener s id serial c = .ok (s', ok) → s'.b.channels = s.b.channels := by
  frame_tac stopBusListener

theorem sendAll_cl : ∀ (l : List Rsp) (s : St) (id : ConnId), SameCL s (sendAll s id l).1 := by
  intro l
  induction l with
  | nil => intro s id; exact SameCL.refl _
  | cons a l ih =>
    intro s id
    simp only [sendAll]
    split
    · have := ih (s.send id a).1 id
      simp_all [SameCL]
    · simp [SameCL]

@[simp, grind =] theorem sendAll_channels (l : List Rsp) (s : St) (id : ConnId) : (sendAll s id l).1.b.channels = s.b.channels :=
  (sendAll_cl l s id).1
@[simp, grind =] theorem sendAll_listeners (l : List Rsp) (s : St) (id : ConnId) : (sendAll s id l).1.b.listeners = s.b.listeners :=
  (sendAll_cl l s id).2.1

@[simp, grind =] theorem sendAll_numChannels (l : List Rsp) (s : St) (id : ConnId) : (sendAll s id l).1.b.stats.numChannels = s.b.stats.numChannels :=
  (sendAll_cl l s id).2.2.1
@[simp, grind =] theorem sendAll_numBusListeners (l : List Rsp) (s : St) (id : ConnId) : (sendAll s id l).1.b.stats.numBusListeners = s.b.stats.numBusListeners :=
  (sendAll_cl l s id).2.2.2.1
theorem sendAll_nextCookie_le (l : List Rsp) (s : St) (id : ConnId) : s.b.nextCookie ≤ (sendAll s id l).1.b.nextCookie :=
  (sendAll_cl l s id).2.2.2.2

@[grind →] theorem startBusListener_channels {s s' : St} {id serial c sc} {ok : Bool} : startBusListener s id serial c sc = .ok (s', ok) → s'.b.channels = s.b.channels := by
  intro h; unfold startBusListener at h
  repeat' ((try simp only [] at h); split at h)
  all_goals (try subst_vars)
  all_goals (try (simp_all [okH, errH]; done))
  all_goals (try (grind [okH, errH]; done))
  all_goals
    simp only [Except.ok.injEq] at h
    have h' := congrArg Prod.fst h
    simp only at h'
    subst h'
    simp

@[grind →] theorem createChannel_listeners {s s' : St} {id serial e cap} {ok : Bool} : createChannel s id serial e cap = .ok (s', ok) → s'.b.listeners = s.b.listeners := by
  frame_tac createChannel
@[grind →] theorem closeChannelEnd_listeners {s s' : St} {id serial c e} {ok : Bool} : closeChannelEnd s id serial c e = .ok (s', ok) → s'.b.listeners = s.b.listeners := by
  frame_tac closeChannelEnd
@[grind →] theorem claimChannelEnd_listeners {s s' : St} {id serial c e cap} {ok : Bool} : claimChannelEnd s id serial c e cap = .ok (s', ok) → s'.b.listeners = s.b.listeners := by
  frame_tac claimChannelEnd
@[grind →] theorem addChannelCapacity_listeners {s s' : St} {id c cap} {ok : Bool} : addChannelCapacity s id c cap = .ok (s', ok) → s'.b.listeners = s.b.listeners := by
  frame_tac addChannelCapacity
@[grind →] theorem sendItem_listeners {s s' : St} {id c p} {ok : Bool} : sendItem s id c p = .ok (s', ok) → s'.b.listeners = s.b.listeners := by
  frame_tac sendItem

end Aldrin.Broker
