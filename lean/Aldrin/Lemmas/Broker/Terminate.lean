/-
The work loop of `process_loop_result` stops: from every state, after finitely many items of deferred work nothing is
left or an item fails. The measure is lexicographic — connections, deferred items other than removals of connections,
removals of connections: an item that is not the removal of a connection leaves the connections alone and can only add
removals of connections (`send!` to a connection whose task is gone); the removal of a connection that is there removes
it (and may defer any amount of other work); the removal of one that is not there only takes the item off the list.
Hence the outcome of `processLoop` does not depend on its budget once that is large enough (`processLoop_stable`): the
model's "out of fuel" is never what ends the loop.
-/
import Aldrin.Lemmas.Broker.Gauge5

set_option linter.unusedSimpArgs false
set_option linter.unusedVariables false
namespace Aldrin.Broker
open Generated

/-- connections -/
def mConns (s : St) : Nat := s.b.conns.length
/-- deferred items other than removals of connections -/
def mWork (s : St) : Nat :=
  s.w.unsubscribeEvent.length + s.w.unsubscribeAll.length + s.w.servicesDestroyed.length + s.w.removeCalls.length +
  s.w.createObject.length + s.w.createService.length + s.w.destroyService.length + s.w.destroyObject.length + s.w.abortCalls.length
/-- deferred removals of connections -/
def mRm (s : St) : Nat := s.w.removeConns.length

/-- the connections are the same ones and nothing but removals of connections has been deferred -/
def SameW (s s' : St) : Prop :=
  s'.b.conns.map Prod.fst = s.b.conns.map Prod.fst ∧ s'.w.unsubscribeEvent = s.w.unsubscribeEvent ∧ s'.w.unsubscribeAll = s.w.unsubscribeAll ∧
  s'.w.servicesDestroyed = s.w.servicesDestroyed ∧ s'.w.removeCalls = s.w.removeCalls ∧ s'.w.createObject = s.w.createObject ∧
  s'.w.createService = s.w.createService ∧ s'.w.destroyService = s.w.destroyService ∧ s'.w.destroyObject = s.w.destroyObject ∧
  s'.w.abortCalls = s.w.abortCalls ∧ s'.w.shutdownNow = s.w.shutdownNow

theorem SameW.refl (s : St) : SameW s s := ⟨rfl, rfl, rfl, rfl, rfl, rfl, rfl, rfl, rfl, rfl, rfl⟩
theorem SameW.trans {a b c : St} (h1 : SameW a b) (h2 : SameW b c) : SameW a c := by
  obtain ⟨a0, a1, a2, a3, a4, a5, a6, a7, a8, a9, a10⟩ := h1
  obtain ⟨b0, b1, b2, b3, b4, b5, b6, b7, b8, b9, b10⟩ := h2
  exact ⟨b0.trans a0, b1.trans a1, b2.trans a2, b3.trans a3, b4.trans a4, b5.trans a5, b6.trans a6, b7.trans a7, b8.trans a8, b9.trans a9, b10.trans a10⟩

theorem SameW.conns {s s' : St} (h : SameW s s') : mConns s' = mConns s := by
  have := congrArg List.length h.1; simpa [mConns] using this
theorem SameW.work {s s' : St} (h : SameW s s') : mWork s' = mWork s := by
  obtain ⟨_, a1, a2, a3, a4, a5, a6, a7, a8, a9, _⟩ := h
  simp [mWork, a1, a2, a3, a4, a5, a6, a7, a8, a9]

theorem sendOrRemove_w (s : St) (to : ConnId) (m : Rsp) (v : Option Nat) : SameW s (s.sendOrRemove to m v) := by
  unfold St.sendOrRemove
  simp only []
  split
  · simp [SameW]
  · simp [SameW, St.pushRemoveConn]

theorem emitBusEvent_w (s : St) (e : BusEv) : SameW s (emitBusEvent s e) := by
  unfold emitBusEvent
  simp only []
  apply foldl_inv (fun s' => SameW s s')
  · intro s1 a hp; split
    · exact SameW.trans hp (sendOrRemove_w _ _ _ _)
    · exact hp
  · exact SameW.refl _

theorem setConn_w {s : St} {cid : ConnId} {old : Conn} (h : s.conn? cid = some old) (new : Conn) : SameW s (s.setConn cid new) := by
  refine ⟨?_, rfl, rfl, rfl, rfl, rfl, rfl, rfl, rfl, rfl, rfl⟩
  simp only [St.setConn_b_conns]
  exact AL.keys_insert_of_some (by simpa [St.conn?] using h)

theorem abortCall_w {s s' : St} {serial cid} (hr : abortCall s serial cid = .ok s') : SameW s s' := by
  unfold abortCall at hr
  split at hr
  · simp only [Except.ok.injEq] at hr; subst hr; exact SameW.refl _
  · split at hr
    · simp only [Except.ok.injEq] at hr; subst hr; exact SameW.refl _
    · simp only [] at hr
      rename_i call hcall _
      have h1 : SameW s (match (s.setCalls (s.b.calls.set serial { call with aborted := true })).conn? cid with
          | some c => if c.version ≥ abortMinCallee then (s.setCalls (s.b.calls.set serial { call with aborted := true })).sendOrRemove cid (.abortFunctionCall serial)
              else s.setCalls (s.b.calls.set serial { call with aborted := true })
          | none => s.setCalls (s.b.calls.set serial { call with aborted := true })) := by
        split
        · split
          · exact SameW.trans (by simp [SameW]) (sendOrRemove_w _ _ _ _)
          · simp [SameW]
        · simp [SameW]
      split at hr
      · simp only [Except.ok.injEq] at hr; subst hr; exact h1
      · rename_i caller hcaller
        split at hr
        · simp at hr
        · simp only [Except.ok.injEq] at hr; subst hr
          exact SameW.trans h1 (SameW.trans (setConn_w hcaller _) (sendOrRemove_w _ _ _ _))

/-- an item that is not the removal of a connection: the connections stay, one item less, only removals of connections
may have been added -/
theorem processOne_work {s s' : St} (hrm : s.w.removeConns = []) (hr : processOne s = some (.ok s')) :
    mConns s' = mConns s ∧ mWork s' + 1 = mWork s := by
  unfold processOne at hr
  simp only [hrm] at hr
  have key : ∀ (t : St), SameW t s' → mConns t = mConns s → mWork t + 1 = mWork s → mConns s' = mConns s ∧ mWork s' + 1 = mWork s := by
    intro t ht h1 h2
    exact ⟨by rw [ht.conns, h1], by rw [ht.work, h2]⟩
  split at hr
  · rename_i cid svc ev rest hq
    simp only [Option.some.injEq, Except.ok.injEq] at hr; subst hr
    refine key (s.setWUnsubscribeEvent rest) ?_ (by simp [mConns]) (by simp [mWork, hq]; omega)
    split
    · exact sendOrRemove_w _ _ _ _
    · exact SameW.refl _
  split at hr
  · rename_i cid svc rest hq
    simp only [Option.some.injEq, Except.ok.injEq] at hr; subst hr
    refine key (s.setWUnsubscribeAll rest) ?_ (by simp [mConns]) (by simp [mWork, hq]; omega)
    split
    · exact sendOrRemove_w _ _ _ _
    · exact SameW.refl _
  split at hr
  · rename_i cid svc rest hq
    simp only [Option.some.injEq, Except.ok.injEq] at hr; subst hr
    refine key (s.setWServicesDestroyed rest) ?_ (by simp [mConns]) (by simp [mWork, hq]; omega)
    split
    · exact sendOrRemove_w _ _ _ _
    · exact SameW.refl _
  split at hr
  · rename_i serial cid result rest hq
    simp only [Option.some.injEq] at hr
    split at hr
    · simp only [Except.ok.injEq] at hr; subst hr
      exact key (s.setWRemoveCalls rest) (SameW.refl _) (by simp [mConns]) (by simp [mWork, hq]; omega)
    · rename_i c hc
      split at hr
      · simp at hr
      · simp only [Except.ok.injEq] at hr; subst hr
        exact key (s.setWRemoveCalls rest) (SameW.trans (setConn_w hc _) (sendOrRemove_w _ _ _ _)) (by simp [mConns]) (by simp [mWork, hq]; omega)
  split at hr
  · rename_i o rest hq
    simp only [Option.some.injEq, Except.ok.injEq] at hr; subst hr
    exact key (s.setWCreateObject rest) (emitBusEvent_w _ _) (by simp [mConns]) (by simp [mWork, hq]; omega)
  split at hr
  · rename_i o rest hq
    simp only [Option.some.injEq, Except.ok.injEq] at hr; subst hr
    exact key (s.setWCreateService rest) (emitBusEvent_w _ _) (by simp [mConns]) (by simp [mWork, hq]; omega)
  split at hr
  · rename_i o rest hq
    simp only [Option.some.injEq, Except.ok.injEq] at hr; subst hr
    exact key (s.setWDestroyService rest) (emitBusEvent_w _ _) (by simp [mConns]) (by simp [mWork, hq]; omega)
  split at hr
  · rename_i o rest hq
    simp only [Option.some.injEq, Except.ok.injEq] at hr; subst hr
    exact key (s.setWDestroyObject rest) (emitBusEvent_w _ _) (by simp [mConns]) (by simp [mWork, hq]; omega)
  split at hr
  · rename_i serial cid rest hq
    simp only [Option.some.injEq] at hr
    exact key (s.setWAbortCalls rest) (abortCall_w hr) (by simp [mConns]) (by simp [mWork, hq]; omega)
  · simp at hr

/-! ### the removal of a connection that is there removes it -/

/-- the same connections -/
def KSc (s s' : St) : Prop := s'.b.conns.map Prod.fst = s.b.conns.map Prod.fst
theorem KSc.refl (s : St) : KSc s s := rfl
theorem KSc.trans {a b c : St} (h1 : KSc a b) (h2 : KSc b c) : KSc a c := by unfold KSc at *; rw [h2, h1]
theorem KSc.of_same5 {s s' : St} (h : Same5 s s') : KSc s s' := h.2.2.2.2.1
theorem KSc.of_eq {s s' : St} (h : s'.b.conns = s.b.conns) : KSc s s' := by unfold KSc; rw [h]

theorem removeService_calls_kc : ∀ (l : List Nat) (s s' : St), removeService.calls s l = .ok s' → KSc s s' := by
  intro l
  induction l with
  | nil => intro s s' h; simp [removeService.calls] at h; subst h; exact KSc.refl _
  | cons a l ih =>
    intro s s' h
    simp only [removeService.calls] at h
    split at h
    · simp at h
    · refine KSc.trans ?_ (ih _ _ h)
      split <;> exact KSc.of_eq (by simp)

theorem removeService_kc {s s' : St} {c : Cookie} (hr : removeService s c = .ok s') : KSc s s' := by
  unfold removeService at hr
  split at hr
  · simp only [Except.ok.injEq] at hr; subst hr; exact KSc.refl _
  · (try simp only [] at hr)
    split at hr
    · simp at hr
    · (try simp only [] at hr)
      split at hr
      · simp at hr
      · rename_i s1 hc
        simp only [Except.ok.injEq] at hr
        subst hr
        refine KSc.trans (KSc.trans ?_ (removeService_calls_kc _ _ _ hc)) ?_
        · split <;> exact KSc.of_eq (by simp)
        · refine KSc.trans ?_ (KSc.of_eq (St.stat_b_conns _ _))
          apply foldl_inv (KSc s1) _ _ _ _ (KSc.refl _)
          intro s2 a hp
          refine KSc.trans hp ?_
          split
          · rename_i c0 hc0
            exact KSc.trans (setConn_w hc0 _).1 (KSc.of_eq rfl)
          · exact KSc.refl _

theorem removeObject_svcs_kc : ∀ (l : List Cookie) (s s' : St), removeObject.svcs s l = .ok s' → KSc s s' := by
  intro l
  induction l with
  | nil => intro s s' h; simp [removeObject.svcs] at h; subst h; exact KSc.refl _
  | cons a l ih =>
    intro s s' h
    simp only [removeObject.svcs] at h
    split at h
    · simp at h
    · exact KSc.trans (removeService_kc ‹_›) (ih _ _ h)

theorem removeObject_kc {s s' : St} {c : Cookie} (hr : removeObject s c = .ok s') : KSc s s' := by
  unfold removeObject at hr
  repeat' ((try simp only [] at hr); split at hr)
  all_goals (try (simp only [Except.ok.injEq, reduceCtorEq] at hr))
  all_goals (try (exact hr.elim))
  all_goals (try subst hr)
  · exact KSc.refl _
  · rename_i hs
    refine KSc.trans (KSc.trans ?_ (removeObject_svcs_kc _ _ _ hs)) (KSc.of_eq rfl)
    unfold KSc
    simp

theorem erase_keys_length_lt {K V : Type} [DecidableEq K] {m : List (K × V)} {k : K} {v : V} (h : AL.find? k m = some v) :
    (AL.erase k m).length < m.length := by
  induction m with
  | nil => simp at h
  | cons p m ih =>
    obtain ⟨a, b⟩ := p
    simp only [AL.find?_cons] at h
    simp only [AL.erase, List.filter_cons]
    split at h
    · rename_i heq; subst heq
      simp only [ne_eq, not_true_eq_false, decide_false, Bool.false_eq_true, ↓reduceIte, List.length_cons]
      exact Nat.lt_succ_of_le (List.length_filter_le _ _)
    · rename_i hne
      simp only [ne_eq, hne, not_false_eq_true, decide_true, ↓reduceIte, List.length_cons]
      exact Nat.succ_lt_succ (ih h)

/-- the removal of a connection: if it is not there nothing happens; if it is, one connection less afterwards -/
theorem shutdownConnection_conns {s s' : St} {id : ConnId} {b : Bool} (hr : shutdownConnection s id b = .ok s') :
    (AL.find? id s.b.conns = none ∧ s' = s) ∨ mConns s' < mConns s := by
  unfold shutdownConnection at hr
  split at hr
  · rename_i hnone
    simp only [Except.ok.injEq] at hr
    exact Or.inl ⟨by simpa [St.conn?] using hnone, hr.symm⟩
  · rename_i conn hconn
    right
    simp only [] at hr
    repeat' (split at hr)
    all_goals (try (simp at hr; done))
    rename_i s1 h1 _ s2 h2 _ s3 h3 _ s4 h4 _ s5 h5 _ s6 h6
    have hconn' : AL.find? id s.b.conns = some conn := by simpa [St.conn?] using hconn
    have i0 : ∀ t : St, t.b.conns = s.b.conns → (t.setConns (AL.erase id t.b.conns)).b.conns.length < s.b.conns.length := by
      intro t ht
      simp only [St.setConns_b_conns, ht]
      exact erase_keys_length_lt hconn'
    have k1 : KSc _ s1 := foldE_inv (KSc _) _ (fun s a s' hp hr => KSc.trans hp (removeObject_kc hr)) _ _ _
      (foldl_inv (KSc _) _ (fun s a hp => KSc.trans hp (KSc.of_same5 (removeBusListener_same5 _ _))) _ _ (KSc.refl _)) h1
    have k2 := foldE_inv (KSc _) _ (fun s a s' hp hr => KSc.trans hp (KSc.of_same5 (removeEventSubscription_same5 hr))) _ _ _ k1 h2
    have k3 := foldE_inv (KSc _) _ (fun s a s' hp hr => KSc.trans hp (KSc.of_same5 (removeAllEventsSubscription_same5 hr))) _ _ _ k2 h3
    have k4 := foldE_inv (KSc _) _ (fun s a s' hp hr => KSc.trans hp (KSc.of_same5 (removeSubscription_same5 hr))) _ _ _ k3 h4
    have k5 := foldE_inv (KSc _) _ (fun s a s' hp hr => KSc.trans hp (KSc.of_same5 (removeChannelEnd_same5 hr))) _ _ _ k4 h5
    have k6 := foldE_inv (KSc _) _ (fun s a s' hp hr => KSc.trans hp (KSc.of_same5 (removeChannelEnd_same5 hr))) _ _ _ k5 h6
    have k7 : KSc s6 s' := by
      refine KSc.trans ?_ (KSc.of_same5 (removeIntrospectionConn_same5 hr))
      refine KSc.trans ?_ (KSc.of_eq (St.stat_b_conns _ _))
      apply foldl_inv (KSc s6) _ ?_ _ _ (KSc.refl _)
      intro t a hp
      exact KSc.trans hp (KSc.of_eq rfl)
    have hlen : mConns s' = mConns ((if b = true then
            if conn.alive = true then (s.stat fun st => { st with messagesSent := st.messagesSent + 1 }).setOut
                ((s.stat fun st => { st with messagesSent := st.messagesSent + 1 }).out ++ [{ to := id, msg := Rsp.shutdown, ver := none }])
            else s.stat fun st => { st with messagesSent := st.messagesSent + 1 }
          else s).setConns (AL.erase id (if b = true then
            if conn.alive = true then (s.stat fun st => { st with messagesSent := st.messagesSent + 1 }).setOut
                ((s.stat fun st => { st with messagesSent := st.messagesSent + 1 }).out ++ [{ to := id, msg := Rsp.shutdown, ver := none }])
            else s.stat fun st => { st with messagesSent := st.messagesSent + 1 }
          else s).b.conns)) := by
      have := KSc.trans k6 k7
      have := congrArg List.length this
      simpa [mConns] using this
    rw [hlen]
    unfold mConns
    split <;> (try split) <;> exact i0 _ (by simp)

/-! ### the loop stops -/

theorem processOne_rm {s : St} {cid : ConnId} {b : Bool} {rest : List (ConnId × Bool)} (h : s.w.removeConns = (cid, b) :: rest) :
    processOne s = some (shutdownConnection (s.setWRemoveConns rest) cid b) := by
  unfold processOne; simp only [h]

/-- finitely many successful items of deferred work lead from the first state to the second -/
inductive Steps : St → St → Prop
  | refl (s : St) : Steps s s
  | step {s s1 s2 : St} : processOne s = some (.ok s1) → Steps s1 s2 → Steps s s2

/-- what one successful item does to the measure -/
theorem processOne_decreases {s s1 : St} (hp : processOne s = some (.ok s1)) :
    mConns s1 < mConns s ∨ (mConns s1 = mConns s ∧ (mWork s1 < mWork s ∨ (mWork s1 = mWork s ∧ mRm s1 < mRm s))) := by
  cases hrm : s.w.removeConns with
  | nil =>
    obtain ⟨h1, h2⟩ := processOne_work hrm hp
    exact Or.inr ⟨h1, Or.inl (by omega)⟩
  | cons x rest =>
    obtain ⟨cid, b⟩ := x
    rw [processOne_rm hrm] at hp
    simp only [Option.some.injEq] at hp
    rcases shutdownConnection_conns hp with ⟨_, hs⟩ | hlt
    · subst hs
      exact Or.inr ⟨by simp [mConns], Or.inr ⟨by simp [mWork], by simp [mRm, hrm]⟩⟩
    · exact Or.inl (by simpa [mConns] using hlt)

/-- **The work loop stops**: from every state, after finitely many items nothing is left to do or an item fails. -/
theorem loop_terminates (s : St) : ∃ s1, Steps s s1 ∧ (processOne s1 = none ∨ ∃ p, processOne s1 = some (.error p)) := by
  match hp : processOne s with
  | none => exact ⟨s, Steps.refl s, Or.inl hp⟩
  | some (.error p) => exact ⟨s, Steps.refl s, Or.inr ⟨p, hp⟩⟩
  | some (.ok s1) =>
    obtain ⟨s2, h, hfin⟩ := loop_terminates s1
    exact ⟨s2, Steps.step hp h, hfin⟩
termination_by (mConns s, mWork s, mRm s)
decreasing_by
  rcases processOne_decreases hp with h | ⟨h1, h | ⟨h2, h3⟩⟩
  · exact Prod.Lex.left _ _ h
  · rw [h1]; exact Prod.Lex.right _ (Prod.Lex.left _ _ h)
  · rw [h1, h2]; exact Prod.Lex.right _ (Prod.Lex.right _ h3)

/-- what `processLoop` returns when it has enough budget for the items on the way -/
theorem processLoop_of_steps {s s1 : St} (h : Steps s s1) :
    ∃ n, (processOne s1 = none → ∀ fuel, n ≤ fuel → processLoop fuel s = .ok s1) ∧
      (∀ p, processOne s1 = some (.error p) → ∀ fuel, n ≤ fuel → processLoop fuel s = .error p) := by
  induction h with
  | refl s =>
    refine ⟨1, fun hn fuel hf => ?_, fun p hp fuel hf => ?_⟩
    · obtain ⟨k, rfl⟩ : ∃ k, fuel = k + 1 := ⟨fuel - 1, by omega⟩
      simp [processLoop, hn]
    · obtain ⟨k, rfl⟩ : ∃ k, fuel = k + 1 := ⟨fuel - 1, by omega⟩
      simp [processLoop, hp]
  | step hp _ ih =>
    obtain ⟨n, h1, h2⟩ := ih
    refine ⟨n + 1, fun hn fuel hf => ?_, fun p hpe fuel hf => ?_⟩
    · obtain ⟨k, rfl⟩ : ∃ k, fuel = k + 1 := ⟨fuel - 1, by omega⟩
      simp only [processLoop, hp]
      exact h1 hn k (by omega)
    · obtain ⟨k, rfl⟩ : ∃ k, fuel = k + 1 := ⟨fuel - 1, by omega⟩
      simp only [processLoop, hp]
      exact h2 p hpe k (by omega)

/-- **The outcome of the work loop does not depend on its budget** once that is large enough: running out of fuel is
never what ends it. -/
theorem processLoop_stable (s : St) : ∃ n r, (∀ fuel, n ≤ fuel → processLoop fuel s = r) ∧
    (r = .error .fuel → ∃ s1, Steps s s1 ∧ processOne s1 = some (.error .fuel)) := by
  obtain ⟨s1, hs, hfin⟩ := loop_terminates s
  obtain ⟨n, h1, h2⟩ := processLoop_of_steps hs
  rcases hfin with hn | ⟨p, hp⟩
  · exact ⟨n, .ok s1, h1 hn, fun h => by simp at h⟩
  · refine ⟨n, .error p, h2 p hp, fun h => ?_⟩
    simp only [Except.error.injEq] at h; subst h
    exact ⟨s1, hs, hp⟩

end Aldrin.Broker
