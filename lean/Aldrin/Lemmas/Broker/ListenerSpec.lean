/-
What the four bus-listener requests do to the listener table and what they put into the requester's queue, and that
nothing else touches another connection's listeners.
-/
import Aldrin.Lemmas.Broker.Alive
import Aldrin.Lemmas.Broker.Inv

namespace Aldrin.Broker
open Aldrin.Client (SKind)

theorem send_fail_dead {s : St} {to : ConnId} {m : Rsp} {v : Option Nat} (h : (s.send to m v).2 = false) : aliveB s to = false := by
  unfold St.send at h
  simp only [] at h
  split at h
  · rename_i c hc
    split at h
    · simp at h
    · rename_i ha
      have : AL.find? to s.b.conns = some c := by simpa [St.conn?] using hc
      simp [aliveB, this, ha]
  · rename_i hc
    have : AL.find? to s.b.conns = none := by simpa [St.conn?] using hc
    simp [aliveB, this]

theorem conn_none_dead {s : St} {id : ConnId} (h : s.conn? id = none) : aliveB s id = false := by
  have : AL.find? id s.b.conns = none := by simpa [St.conn?] using h
  simp [aliveB, this]

/-- the entries of the listener table that are not `id`'s were there before, unchanged -/
def LSub (id : ConnId) (s s' : St) : Prop :=
  ∀ ck l, AL.find? ck s'.b.listeners = some l → l.conn = id ∨ AL.find? ck s.b.listeners = some l

theorem LSub.of_eq {id : ConnId} {s s' : St} (h : s'.b.listeners = s.b.listeners) : LSub id s s' := by
  intro ck l hl; rw [h] at hl; exact Or.inr hl

theorem LSub.trans {id : ConnId} {a b c : St} (h1 : LSub id a b) (h2 : LSub id b c) : LSub id a c := by
  intro ck l hl
  rcases h2 ck l hl with h | h
  · exact Or.inl h
  · exact h1 ck l h

/-- entries only vanish -/
def LShrink (s s' : St) : Prop := ∀ ck l, AL.find? ck s'.b.listeners = some l → AL.find? ck s.b.listeners = some l

theorem LShrink.refl (s : St) : LShrink s s := fun _ _ h => h
theorem LShrink.trans {a b c : St} (h1 : LShrink a b) (h2 : LShrink b c) : LShrink a c := fun ck l h => h1 ck l (h2 ck l h)
theorem LShrink.of_eq {s s' : St} (h : s'.b.listeners = s.b.listeners) : LShrink s s' := by
  intro ck l hl; rw [h] at hl; exact hl
theorem LShrink.toSub {id : ConnId} {s s' : St} (h : LShrink s s') : LSub id s s' := fun ck l hl => Or.inr (h ck l hl)

theorem removeBusListener_shrink (s : St) (c : Cookie) : LShrink s (removeBusListener s c) := by
  unfold removeBusListener
  split
  · exact LShrink.refl _
  · intro ck l hl
    simp only [St.stat_b_listeners, St.updConn_b_listeners, St.setListeners_b_listeners, AL.find?_erase] at hl
    split at hl
    · simp at hl
    · exact hl

/-! ### the four requests -/

/-- `create_bus_listener`: not delivered and nothing registered, or a reply with a cookie never used before and a
listener of `id` without scope. -/
theorem createBusListener_spec {s s' : St} {id n} {ok : Bool} (h : createBusListener s id n = .ok (s', ok)) :
    (sf s'.out = sf s.out ∧ s'.b.listeners = s.b.listeners) ∨
    (sf s'.out = sf s.out ++ [⟨id, .createBusListenerReply n s.b.nextCookie, none⟩] ∧
      s'.b.listeners = AL.insert s.b.nextCookie { conn := id } s.b.listeners ∧ aliveB s id = true) := by
  unfold createBusListener at h
  repeat' ((try simp only [] at h); split at h)
  all_goals (simp only [okH, errH, Except.ok.injEq, Prod.mk.injEq] at h; obtain ⟨h1, h2⟩ := h; subst h1; subst h2)
  · exact Or.inl ⟨rfl, rfl⟩
  · rename_i hb
    have hb' : ((s.setNextCookie (s.b.nextCookie + 1)).send id (.createBusListenerReply n s.b.nextCookie)).2 = false := by
      simpa [St.freshCookie] using hb
    left; simp [hb', St.freshCookie]
  · rename_i hb
    have hb' : ((s.setNextCookie (s.b.nextCookie + 1)).send id (.createBusListenerReply n s.b.nextCookie)).2 = true := by
      simpa [St.freshCookie] using hb
    right; simp [hb', St.freshCookie]
    simpa using send_ok_alive hb'

theorem destroyBusListener_spec {s s' : St} {id n ck} {ok : Bool} (h : destroyBusListener s id n ck = .ok (s', ok)) :
    (sf s'.out = sf s.out ∧ s'.b.listeners = s.b.listeners) ∨
    (sf s'.out = sf s.out ++ [⟨id, .destroyBusListenerReply n .invalid, none⟩] ∧ s'.b.listeners = s.b.listeners ∧ aliveB s id = true) ∨
    (sf s'.out = sf s.out ++ [⟨id, .destroyBusListenerReply n .ok, none⟩] ∧
      (∃ l, AL.find? ck s.b.listeners = some l ∧ l.conn = id) ∧ LShrink s s' ∧ AL.find? ck s'.b.listeners = none ∧ aliveB s id = true) := by
  unfold destroyBusListener at h
  repeat' ((try simp only [] at h); split at h)
  all_goals (try (simp only [okH, errH, Except.ok.injEq, Prod.mk.injEq] at h))
  all_goals (try (have hfst := congrArg Prod.fst h; (try dsimp only at hfst); subst hfst; clear h))
  all_goals (try (obtain ⟨h1, h2⟩ := h; subst h1; subst h2))
  · exact Or.inl ⟨rfl, rfl⟩
  · rcases send_cases s id (.destroyBusListenerReply n .invalid) none with ⟨h1, h2⟩ | ⟨h1, h2⟩
    · right; left; simp [h1, send_ok_alive h1]
    · left; simp [h1]
  · rename_i hb
    have hb' : (s.send id (.destroyBusListenerReply n .ok)).2 = false := by simpa using hb
    left; simp [hb']
  · rename_i l hl hc hb
    have hb' : (s.send id (.destroyBusListenerReply n .ok)).2 = true := by simpa using hb
    right; right
    refine ⟨by simp [removeBusListener, hl, hb'], ⟨l, hl, hc⟩, ?_, ?_, send_ok_alive hb'⟩
    · exact LShrink.trans (LShrink.of_eq (by simp)) (removeBusListener_shrink _ _)
    · simp [removeBusListener, hl]
  · rcases send_cases s id (.destroyBusListenerReply n .invalid) none with ⟨h1, h2⟩ | ⟨h1, h2⟩
    · right; left; simp [h1, send_ok_alive h1]
    · left; simp [h1]

theorem stopBusListener_spec {s s' : St} {id n ck} {ok : Bool} (h : stopBusListener s id n ck = .ok (s', ok)) :
    (sf s'.out = sf s.out ∧ (s'.b.listeners = s.b.listeners ∨ aliveB s id = false)) ∨
    (∃ r, r ≠ ListenerRes.ok ∧ sf s'.out = sf s.out ++ [⟨id, .stopBusListenerReply n r, none⟩] ∧ s'.b.listeners = s.b.listeners ∧ aliveB s id = true) ∨
    (∃ l, AL.find? ck s.b.listeners = some l ∧ l.conn = id ∧ l.scope.isSome = true ∧
      s'.b.listeners = AL.insert ck { l with scope := none } s.b.listeners ∧
      sf s'.out = sf s.out ++ [⟨id, .stopBusListenerReply n .ok, none⟩] ∧ aliveB s id = true) := by
  unfold stopBusListener at h
  repeat' ((try simp only [] at h); split at h)
  all_goals (try (simp only [okH, errH, Except.ok.injEq, Prod.mk.injEq] at h))
  all_goals (try (have hfst := congrArg Prod.fst h; (try dsimp only at hfst); subst hfst; clear h))
  all_goals (try (obtain ⟨h1, h2⟩ := h; subst h1; subst h2))
  · exact Or.inl ⟨rfl, Or.inl rfl⟩
  · rcases send_cases s id (.stopBusListenerReply n .invalid) none with ⟨h1, h2⟩ | ⟨h1, h2⟩
    · right; left; exact ⟨.invalid, by simp, by simp [h1], by simp, send_ok_alive h1⟩
    · left; simp [h1]
  · rcases send_cases s id (.stopBusListenerReply n .invalid) none with ⟨h1, h2⟩ | ⟨h1, h2⟩
    · right; left; exact ⟨.invalid, by simp, by simp [h1], by simp, send_ok_alive h1⟩
    · left; simp [h1]
  · rename_i l hl hc hsc
    rcases send_cases (s.setListeners (AL.insert ck { l with scope := none } s.b.listeners)) id (.stopBusListenerReply n .ok) none with ⟨h1, h2⟩ | ⟨h1, h2⟩
    · right; right
      exact ⟨l, hl, by simpa using hc, hsc, by simp, by simp [h1], by simpa using send_ok_alive h1⟩
    · left
      refine ⟨by simp [h1], Or.inr ?_⟩
      have := send_fail_dead h1
      simpa [aliveB] using this
  · rcases send_cases s id (.stopBusListenerReply n .notStarted) none with ⟨h1, h2⟩ | ⟨h1, h2⟩
    · right; left; exact ⟨.notStarted, by simp, by simp [h1], by simp, send_ok_alive h1⟩
    · left; simp [h1]

theorem sf_of_all {l : List Out} (h : ∀ x ∈ l, x.strict = true) : sf l = l := by
  unfold sf; exact List.filter_eq_self.mpr h

theorem sendAll_alive : ∀ (l : List Rsp) (s : St) (id : ConnId), aliveB s id = true →
    (sendAll s id l).1.out = s.out ++ l.map (fun m => ⟨id, m, none⟩) ∧ (sendAll s id l).1.b.listeners = s.b.listeners := by
  intro l
  induction l with
  | nil => intro s id _; simp [sendAll]
  | cons a l ih =>
    intro s id ha
    simp only [sendAll]
    rcases send_cases s id a none with ⟨h1, h2⟩ | ⟨h1, h2⟩
    · have ha' : aliveB (s.send id a).1 id = true := by rw [aliveB_send]; exact ha
      obtain ⟨i1, i2⟩ := ih (s.send id a).1 id ha'
      simp [h1, i1, i2, h2]
    · have := send_fail_dead h1
      rw [ha] at this; simp at this

/-- `start_bus_listener`: a refusal, or the listener gets its scope and the requester gets the reply followed, if the
scope includes what exists, by the tagged created-events and the marker, in this order and nothing else. -/
theorem startBusListener_spec {s s' : St} {id n ck sc} {ok : Bool} (h : startBusListener s id n ck sc = .ok (s', ok)) :
    (sf s'.out = sf s.out ∧ (s'.b.listeners = s.b.listeners ∨ aliveB s id = false)) ∨
    (∃ r, r ≠ ListenerRes.ok ∧ sf s'.out = sf s.out ++ [⟨id, .startBusListenerReply n r, none⟩] ∧ s'.b.listeners = s.b.listeners ∧ aliveB s id = true) ∨
    (∃ l, AL.find? ck s.b.listeners = some l ∧ l.conn = id ∧ l.scope = none ∧ aliveB s id = true ∧
      s'.b.listeners = AL.insert ck { l with scope := some sc } s.b.listeners ∧
      ∃ cur : List Rsp, (∀ m ∈ cur, ∃ e, m = .emitBusEvent (some ck) e) ∧
        sf s'.out = sf s.out ++ ⟨id, .startBusListenerReply n .ok, none⟩ ::
          (if sc = .new then [] else (cur ++ [Rsp.busListenerCurrentFinished ck]).map (fun m => (⟨id, m, none⟩ : Out)))) := by
  unfold startBusListener at h
  repeat' ((try simp only [] at h); split at h)
  all_goals (try (simp only [okH, errH, Except.ok.injEq, Prod.mk.injEq, reduceCtorEq] at h))
  all_goals (try (exact h.elim))
  all_goals (try (have hfst := congrArg Prod.fst h; (try dsimp only at hfst); subst hfst; clear h))
  all_goals (try (obtain ⟨h1, h2⟩ := h; subst h1; subst h2))
  · exact Or.inl ⟨rfl, Or.inl rfl⟩
  · rcases send_cases s id (.startBusListenerReply n .invalid) none with ⟨h1, h2⟩ | ⟨h1, h2⟩
    · right; left; exact ⟨.invalid, by simp, by simp [h1], by simp, send_ok_alive h1⟩
    · left; simp [h1]
  · rcases send_cases s id (.startBusListenerReply n .invalid) none with ⟨h1, h2⟩ | ⟨h1, h2⟩
    · right; left; exact ⟨.invalid, by simp, by simp [h1], by simp, send_ok_alive h1⟩
    · left; simp [h1]
  · rcases send_cases s id (.startBusListenerReply n .alreadyStarted) none with ⟨h1, h2⟩ | ⟨h1, h2⟩
    · right; left; exact ⟨.alreadyStarted, by simp, by simp [h1], by simp, send_ok_alive h1⟩
    · left; simp [h1]
  · -- the reply could not be sent
    rename_i l hl hc hsc hb
    have hb' : (St.send (s.setListeners (AL.insert ck { l with scope := some sc } s.b.listeners)) id (.startBusListenerReply n .ok)).2 = false := by
      simpa using hb
    left
    refine ⟨by simp [hb'], Or.inr ?_⟩
    have := send_fail_dead hb'
    simpa [aliveB] using this
  · -- scope `new`: the reply only
    rename_i l hl hc hsc hb hnew
    have hb' : (St.send (s.setListeners (AL.insert ck { l with scope := some sc } s.b.listeners)) id (.startBusListenerReply n .ok)).2 = true := by
      simpa using hb
    right; right
    refine ⟨l, hl, by simpa using hc, by simpa using hsc, by simpa using send_ok_alive hb', by simp, [], by simp, ?_⟩
    subst hnew; simp [hb']
  · -- the reply, the created-events, the marker
    rename_i l hl hc hsc hb hnew _ _ so ss hso hss
    have hb' : (St.send (s.setListeners (AL.insert ck { l with scope := some sc } s.b.listeners)) id (.startBusListenerReply n .ok)).2 = true := by
      simpa using hb
    have ha : aliveB (St.send (s.setListeners (AL.insert ck { l with scope := some sc } s.b.listeners)) id (.startBusListenerReply n .ok)).1 id = true := by
      rw [aliveB_send]; exact send_ok_alive hb'
    right; right
    obtain ⟨S1, hS1⟩ : ∃ S1, S1 = (St.send (s.setListeners (AL.insert ck { l with scope := some sc } s.b.listeners)) id (.startBusListenerReply n .ok)).1 := ⟨_, rfl⟩
    rw [← hS1] at ha ⊢
    obtain ⟨i1, i2⟩ := sendAll_alive (currentObjMsgs S1.b { l with scope := some sc } ck so ++
        currentSvcMsgs S1.b { l with scope := some sc } ck ss ++ [.busListenerCurrentFinished ck]) S1 id ha
    refine ⟨l, hl, by simpa using hc, by simpa using hsc, by simpa using send_ok_alive hb', by rw [i2, hS1]; simp,
      currentObjMsgs S1.b { l with scope := some sc } ck so ++ currentSvcMsgs S1.b { l with scope := some sc } ck ss, ?_, ?_⟩
    · intro m hm
      simp only [List.mem_append] at hm
      rcases hm with hm | hm
      · exact currentObjMsgs_ns _ _ _ _ m hm
      · exact currentSvcMsgs_ns _ _ _ _ m hm
    · rw [i1, sf_append, hS1, send_out_eq, if_pos hb', sf_append, St.setListeners_out, sf_single]
      have hall : ∀ x ∈ (currentObjMsgs S1.b { l with scope := some sc } ck so ++ currentSvcMsgs S1.b { l with scope := some sc } ck ss ++
          [Rsp.busListenerCurrentFinished ck]).map (fun m => (⟨id, m, none⟩ : Out)), x.strict = true := by
        intro x hx
        simp only [List.mem_map, List.mem_append, List.mem_singleton] at hx
        obtain ⟨m, hm, rfl⟩ := hx
        rcases hm with (hm | hm) | rfl
        · obtain ⟨e, rfl⟩ := currentObjMsgs_ns _ _ _ _ m hm; rfl
        · obtain ⟨e, rfl⟩ := currentSvcMsgs_ns _ _ _ _ m hm; rfl
        · rfl
      rw [← hS1, sf_of_all hall]
      simp [hnew]

/-! ### the listener table under everything else -/

theorem LSub.insert {id : ConnId} {s s' : St} {ck : Cookie} {l : Listener} (h : s'.b.listeners = AL.insert ck l s.b.listeners)
    (hc : l.conn = id) : LSub id s s' := by
  intro ck' l' hl
  rw [h, AL.find?_insert] at hl
  split at hl
  · simp only [Option.some.injEq] at hl; subst hl; exact Or.inl hc
  · exact Or.inr hl

theorem createBusListener_lsub {s s' : St} {id n} {ok : Bool} (h : createBusListener s id n = .ok (s', ok)) : LSub id s s' := by
  rcases createBusListener_spec h with ⟨_, h2⟩ | ⟨_, h2, _⟩
  · exact LSub.of_eq h2
  · exact LSub.insert h2 rfl

theorem destroyBusListener_lsub {s s' : St} {id n ck} {ok : Bool} (h : destroyBusListener s id n ck = .ok (s', ok)) : LSub id s s' := by
  rcases destroyBusListener_spec h with ⟨_, h2⟩ | ⟨_, h2, _⟩ | ⟨_, _, h2, _⟩
  · exact LSub.of_eq h2
  · exact LSub.of_eq h2
  · exact h2.toSub

theorem updListener_lsub {s s' : St} {id ck f} {ok : Bool} (hf : ∀ l, (f l).conn = l.conn) (h : updListener s id ck f = .ok (s', ok)) : LSub id s s' := by
  unfold updListener at h
  repeat' ((try simp only [] at h); split at h)
  all_goals (simp only [okH, Except.ok.injEq, Prod.mk.injEq] at h; obtain ⟨h1, h2⟩ := h; subst h1; subst h2)
  · rename_i l hl hc
    exact LSub.insert (ck := ck) (l := f l) (by simp) (by rw [hf]; exact hc)
  · exact LSub.of_eq rfl
  · exact LSub.of_eq rfl

theorem startBusListener_lsub {s s' : St} {id n ck sc} {ok : Bool} (h : startBusListener s id n ck sc = .ok (s', ok)) : LSub id s s' := by
  unfold startBusListener at h
  repeat' ((try simp only [] at h); split at h)
  all_goals (try (simp only [okH, errH, Except.ok.injEq, Prod.mk.injEq, reduceCtorEq] at h))
  all_goals (try (exact h.elim))
  all_goals (try (have hfst := congrArg Prod.fst h; (try dsimp only at hfst); subst hfst; clear h))
  all_goals (try (obtain ⟨h1, h2⟩ := h; subst h1; subst h2))
  all_goals (try (refine LSub.of_eq ?_; simp; done))
  all_goals
    refine LSub.insert (ck := ck) (l := { (‹Listener›) with scope := some sc }) ?_ ?_
    · simp [sendAll_listeners]
    · simpa using ‹¬ _ ≠ id›

theorem stopBusListener_lsub {s s' : St} {id n ck} {ok : Bool} (h : stopBusListener s id n ck = .ok (s', ok)) : LSub id s s' := by
  unfold stopBusListener at h
  repeat' ((try simp only [] at h); split at h)
  all_goals (try (simp only [okH, errH, Except.ok.injEq, Prod.mk.injEq, reduceCtorEq] at h))
  all_goals (try (have hfst := congrArg Prod.fst h; (try dsimp only at hfst); subst hfst; clear h))
  all_goals (try (obtain ⟨h1, h2⟩ := h; subst h1; subst h2))
  all_goals (try (refine LSub.of_eq ?_; simp; done))
  all_goals
    refine LSub.insert (ck := ck) (l := { (‹Listener›) with scope := none }) ?_ ?_
    · simp
    · simpa using ‹¬ _ ≠ id›

@[simp] theorem Listener.addFilter_conn (l : Listener) (f : Filter) : (l.addFilter f).conn = l.conn := rfl
@[simp] theorem Listener.removeFilter_conn (l : Listener) (f : Filter) : (l.removeFilter f).conn = l.conn := rfl
@[simp] theorem Listener.clearFilters_conn (l : Listener) : l.clearFilters.conn = l.conn := rfl
@[simp] theorem Listener.addFilter_scope (l : Listener) (f : Filter) : (l.addFilter f).scope = l.scope := rfl
@[simp] theorem Listener.removeFilter_scope (l : Listener) (f : Filter) : (l.removeFilter f).scope = l.scope := rfl
@[simp] theorem Listener.clearFilters_scope (l : Listener) : l.clearFilters.scope = l.scope := rfl

theorem handleMessage_lsub {s s' : St} {id : ConnId} {m : Req} {ok : Bool}
    (hr : handleMessage s id m = .ok (s', ok)) : LSub id s s' := by
  cases m <;> simp only [handleMessage] at hr
  case createObject => exact LSub.of_eq (createObject_cl hr).2.1
  case destroyObject => exact LSub.of_eq (destroyObject_cl hr).2.1
  case createService => exact LSub.of_eq (createService_cl hr).2.1
  case createService2 => exact LSub.of_eq (createService2_cl hr).2.1
  case destroyService => exact LSub.of_eq (destroyService_cl hr).2.1
  case callFunction => exact LSub.of_eq (callFunctionImpl_cl hr).2.1
  case callFunction2 => exact LSub.of_eq (callFunction2_cl hr).2.1
  case callFunctionReply => exact LSub.of_eq (callFunctionReply_cl hr).2.1
  case abortFunctionCall => exact LSub.of_eq (abortFunctionCall_cl hr).2.1
  case subscribeEvent => exact LSub.of_eq (subscribeEvent_cl hr).2.1
  case unsubscribeEvent => exact LSub.of_eq (unsubscribeEvent_cl hr).2.1
  case emitEvent => exact LSub.of_eq (emitEvent_cl hr).2.1
  case queryServiceVersion => exact LSub.of_eq (queryServiceVersion_cl hr).2.1
  case queryServiceInfo => exact LSub.of_eq (queryServiceInfo_cl hr).2.1
  case subscribeService => exact LSub.of_eq (subscribeService_cl hr).2.1
  case unsubscribeService => exact LSub.of_eq (unsubscribeService_cl hr).2.1
  case subscribeAllEvents => exact LSub.of_eq (subscribeAllEvents_cl hr).2.1
  case unsubscribeAllEvents => exact LSub.of_eq (unsubscribeAllEvents_cl hr).2.1
  case createChannel => exact LSub.of_eq (createChannel_listeners hr)
  case closeChannelEnd => exact LSub.of_eq (closeChannelEnd_listeners hr)
  case claimChannelEnd => exact LSub.of_eq (claimChannelEnd_listeners hr)
  case sendItem => exact LSub.of_eq (sendItem_listeners hr)
  case addChannelCapacity => exact LSub.of_eq (addChannelCapacity_listeners hr)
  case sync => exact LSub.of_eq (sync_cl hr).2.1
  case createBusListener => exact createBusListener_lsub hr
  case destroyBusListener => exact destroyBusListener_lsub hr
  case addFilter f => exact updListener_lsub (by simp) hr
  case removeFilter f => exact updListener_lsub (by simp) hr
  case clearFilters => exact updListener_lsub (by simp) hr
  case startBusListener => exact startBusListener_lsub hr
  case stopBusListener => exact stopBusListener_lsub hr
  case registerIntrospection => exact LSub.of_eq (registerIntrospection_cl hr).2.1
  case queryIntrospection => exact LSub.of_eq (queryIntrospection_cl hr).2.1
  case queryIntrospectionReply => exact LSub.of_eq (queryIntrospectionReply_cl hr).2.1
  case other => simp [errH] at hr; exact LSub.of_eq (by rw [hr.1])

theorem shutdownConnection_shrink {s s' : St} {id b} (hr : shutdownConnection s id b = .ok s') : LShrink s s' := by
  unfold shutdownConnection at hr
  split at hr
  · simp at hr; exact hr ▸ LShrink.refl _
  · rename_i conn hconn
    simp only [] at hr
    repeat' (split at hr)
    all_goals (try (simp at hr; done))
    rename_i s1 h1 _ s2 h2 _ s3 h3 _ s4 h4 _ s5 h5 _ s6 h6
    have i1 : LShrink s s1 := by
      refine foldE_inv (LShrink s) _ (fun s a s' hp hr => LShrink.trans hp (LShrink.of_eq (removeObject_cl hr).2.1)) _ _ _ ?_ h1
      apply foldl_inv (LShrink s) _ (fun s a hp => LShrink.trans hp (removeBusListener_shrink _ _))
      apply LShrink.of_eq
      split <;> (try split) <;> simp
    have i2 := foldE_inv (LShrink s) _ (fun s a s' hp hr => LShrink.trans hp (LShrink.of_eq (removeEventSubscription_cl hr).2.1)) _ _ _ i1 h2
    have i3 := foldE_inv (LShrink s) _ (fun s a s' hp hr => LShrink.trans hp (LShrink.of_eq (removeAllEventsSubscription_cl hr).2.1)) _ _ _ i2 h3
    have i4 := foldE_inv (LShrink s) _ (fun s a s' hp hr => LShrink.trans hp (LShrink.of_eq (removeSubscription_cl hr).2.1)) _ _ _ i3 h4
    have i5 := foldE_inv (LShrink s) _ (fun s a s' hp hr => LShrink.trans hp (LShrink.of_eq (removeChannelEnd_listeners hr))) _ _ _ i4 h5
    have i6 := foldE_inv (LShrink s) _ (fun s a s' hp hr => LShrink.trans hp (LShrink.of_eq (removeChannelEnd_listeners hr))) _ _ _ i5 h6
    refine LShrink.trans ?_ (LShrink.of_eq (removeIntrospectionConn_cl hr).2.1)
    refine LShrink.trans (b := List.foldl (fun s (p : Nat × (Nat × ConnId)) => (s.setWAbortCalls ((p.2.1, p.2.2) :: s.w.abortCalls))) s6 conn.calls) ?_ (LShrink.of_eq rfl)
    apply foldl_inv (LShrink s) _ ?_ _ _ i6
    intro s a hp
    exact LShrink.trans hp (LShrink.of_eq rfl)

theorem processOne_shrink {s s' : St} (hr : processOne s = some (.ok s')) : LShrink s s' := by
  unfold processOne at hr
  repeat' (split at hr)
  all_goals (try (simp only [Option.some.injEq, reduceCtorEq] at hr))
  all_goals first
    | (refine LShrink.trans (b := s.setWRemoveConns _) ?_ (shutdownConnection_shrink hr); exact LShrink.of_eq rfl)
    | (refine LShrink.trans (b := s.setWAbortCalls _) ?_ (LShrink.of_eq (abortCall_cl hr).2.1); exact LShrink.of_eq rfl)
    | (simp only [Except.ok.injEq] at hr; subst hr; refine LShrink.of_eq ?_; simp; done)
    | (simp only [Except.ok.injEq] at hr; subst hr; refine LShrink.of_eq ?_; split <;> simp; done)
    | (split at hr <;> (try split at hr) <;> (try simp only [Except.ok.injEq, reduceCtorEq] at hr) <;>
        first | (exact hr.elim) | (subst hr; refine LShrink.of_eq ?_; simp; done))

theorem processLoop_shrink : ∀ (fuel : Nat) (s s' : St), processLoop fuel s = .ok s' → LShrink s s' := by
  intro fuel
  induction fuel with
  | zero => intro s s' hr; simp [processLoop] at hr
  | succ n ih =>
    intro s s' hr
    simp only [processLoop] at hr
    split at hr
    · simp at hr; exact hr ▸ LShrink.refl _
    · simp at hr
    · exact LShrink.trans (processOne_shrink ‹_›) (ih _ _ hr)

end Aldrin.Broker
