/-
The views of the state the registry invariant (`Lemmas/Broker/Reg.lean`) is stated on, how the state update primitives
act on them, and the relation `SameReg`. What the invariant looks at — the two object maps, the cookie view of the services,
for every service entry its own cookie and the cookie of its object, and for every connection the list of objects it
owns — is left exactly as it was by every function of the broker model except `create_object`, `create_service`,
`remove_service`, `remove_object` (and the handlers that call them), the removal of a connection and `NewConnection`.
-/
import Aldrin.Lemmas.Broker.CallConnEq

set_option linter.unusedSimpArgs false
set_option linter.unusedVariables false
namespace Aldrin.Broker

/-- the objects a connection owns, as the connection lists them -/
def ro (s : St) (c : ConnId) : Option (List Cookie) :=
  match AL.find? c s.b.conns with
  | some conn => some conn.objects
  | none => none

/-- a service entry's own cookie and the cookie of its object -/
def skl (m : List ((Uuid × Uuid) × Svc)) (k : Uuid × Uuid) : Option (Cookie × Cookie) :=
  match AL.find? k m with
  | some v => some (v.cookie, v.objCookie)
  | none => none

def sk (s : St) (k : Uuid × Uuid) : Option (Cookie × Cookie) := skl s.b.svcs k

@[simp, grind =] theorem ro_setObjUuids (s : St) (x : List (Cookie × Uuid)) (c : ConnId) : ro (s.setObjUuids x) c = ro s c := rfl
@[simp, grind =] theorem ro_setObjs (s : St) (x : List (Uuid × Obj)) (c : ConnId) : ro (s.setObjs x) c = ro s c := rfl
@[simp, grind =] theorem ro_setSvcUuids (s : St) (x : List (Cookie × (ObjId × Uuid × SvcInfo))) (c : ConnId) : ro (s.setSvcUuids x) c = ro s c := rfl
@[simp, grind =] theorem ro_setSvcs (s : St) (x : List ((Uuid × Uuid) × Svc)) (c : ConnId) : ro (s.setSvcs x) c = ro s c := rfl
@[simp, grind =] theorem ro_setCalls (s : St) (x : SerialMap Call) (c : ConnId) : ro (s.setCalls x) c = ro s c := rfl
@[simp, grind =] theorem ro_setChannels (s : St) (x : List (Cookie × Chan)) (c : ConnId) : ro (s.setChannels x) c = ro s c := rfl
@[simp, grind =] theorem ro_setListeners (s : St) (x : List (Cookie × Listener)) (c : ConnId) : ro (s.setListeners x) c = ro s c := rfl
@[simp, grind =] theorem ro_setIntrospection (s : St) (x : List (Uuid × IEntry)) (c : ConnId) : ro (s.setIntrospection x) c = ro s c := rfl
@[simp, grind =] theorem ro_setIqueries (s : St) (x : SerialMap Uuid) (c : ConnId) : ro (s.setIqueries x) c = ro s c := rfl
@[simp, grind =] theorem ro_setNextCookie (s : St) (x : Cookie) (c : ConnId) : ro (s.setNextCookie x) c = ro s c := rfl
@[simp, grind =] theorem ro_setWShutdownNow (s : St) (x : Bool) (c : ConnId) : ro (s.setWShutdownNow x) c = ro s c := rfl
@[simp, grind =] theorem ro_setWShutdownIdle (s : St) (x : Bool) (c : ConnId) : ro (s.setWShutdownIdle x) c = ro s c := rfl
@[simp, grind =] theorem ro_setWRemoveConns (s : St) (x : List (ConnId × Bool)) (c : ConnId) : ro (s.setWRemoveConns x) c = ro s c := rfl
@[simp, grind =] theorem ro_setWRemoveCalls (s : St) (x : List (Nat × ConnId × CallResult)) (c : ConnId) : ro (s.setWRemoveCalls x) c = ro s c := rfl
@[simp, grind =] theorem ro_setWServicesDestroyed (s : St) (x : List (ConnId × Cookie)) (c : ConnId) : ro (s.setWServicesDestroyed x) c = ro s c := rfl
@[simp, grind =] theorem ro_setWUnsubscribeEvent (s : St) (x : List (ConnId × Cookie × Nat)) (c : ConnId) : ro (s.setWUnsubscribeEvent x) c = ro s c := rfl
@[simp, grind =] theorem ro_setWUnsubscribeAll (s : St) (x : List (ConnId × Cookie)) (c : ConnId) : ro (s.setWUnsubscribeAll x) c = ro s c := rfl
@[simp, grind =] theorem ro_setWCreateObject (s : St) (x : List ObjId) (c : ConnId) : ro (s.setWCreateObject x) c = ro s c := rfl
@[simp, grind =] theorem ro_setWDestroyObject (s : St) (x : List ObjId) (c : ConnId) : ro (s.setWDestroyObject x) c = ro s c := rfl
@[simp, grind =] theorem ro_setWCreateService (s : St) (x : List SvcId) (c : ConnId) : ro (s.setWCreateService x) c = ro s c := rfl
@[simp, grind =] theorem ro_setWDestroyService (s : St) (x : List SvcId) (c : ConnId) : ro (s.setWDestroyService x) c = ro s c := rfl
@[simp, grind =] theorem ro_setWAbortCalls (s : St) (x : List (Nat × ConnId)) (c : ConnId) : ro (s.setWAbortCalls x) c = ro s c := rfl
@[simp, grind =] theorem ro_setOut (s : St) (x : List Out) (c : ConnId) : ro (s.setOut x) c = ro s c := rfl
@[simp, grind =] theorem ro_stat (s : St) (f : Stats → Stats) (c : ConnId) : ro (s.stat f) c = ro s c := rfl
@[simp, grind =] theorem ro_pushRemoveConn (s : St) (id : ConnId) (b : Bool) (c : ConnId) : ro (s.pushRemoveConn id b) c = ro s c := rfl
@[simp, grind =] theorem ro_freshCookie (s : St) (c : ConnId) : ro s.freshCookie.1 c = ro s c := rfl
@[simp, grind =] theorem sk_setObjUuids (s : St) (x : List (Cookie × Uuid)) (k : Uuid × Uuid) : sk (s.setObjUuids x) k = sk s k := rfl
@[simp, grind =] theorem sk_setObjs (s : St) (x : List (Uuid × Obj)) (k : Uuid × Uuid) : sk (s.setObjs x) k = sk s k := rfl
@[simp, grind =] theorem sk_setSvcUuids (s : St) (x : List (Cookie × (ObjId × Uuid × SvcInfo))) (k : Uuid × Uuid) : sk (s.setSvcUuids x) k = sk s k := rfl
@[simp, grind =] theorem sk_setCalls (s : St) (x : SerialMap Call) (k : Uuid × Uuid) : sk (s.setCalls x) k = sk s k := rfl
@[simp, grind =] theorem sk_setChannels (s : St) (x : List (Cookie × Chan)) (k : Uuid × Uuid) : sk (s.setChannels x) k = sk s k := rfl
@[simp, grind =] theorem sk_setListeners (s : St) (x : List (Cookie × Listener)) (k : Uuid × Uuid) : sk (s.setListeners x) k = sk s k := rfl
@[simp, grind =] theorem sk_setIntrospection (s : St) (x : List (Uuid × IEntry)) (k : Uuid × Uuid) : sk (s.setIntrospection x) k = sk s k := rfl
@[simp, grind =] theorem sk_setIqueries (s : St) (x : SerialMap Uuid) (k : Uuid × Uuid) : sk (s.setIqueries x) k = sk s k := rfl
@[simp, grind =] theorem sk_setNextCookie (s : St) (x : Cookie) (k : Uuid × Uuid) : sk (s.setNextCookie x) k = sk s k := rfl
@[simp, grind =] theorem sk_setWShutdownNow (s : St) (x : Bool) (k : Uuid × Uuid) : sk (s.setWShutdownNow x) k = sk s k := rfl
@[simp, grind =] theorem sk_setWShutdownIdle (s : St) (x : Bool) (k : Uuid × Uuid) : sk (s.setWShutdownIdle x) k = sk s k := rfl
@[simp, grind =] theorem sk_setWRemoveConns (s : St) (x : List (ConnId × Bool)) (k : Uuid × Uuid) : sk (s.setWRemoveConns x) k = sk s k := rfl
@[simp, grind =] theorem sk_setWRemoveCalls (s : St) (x : List (Nat × ConnId × CallResult)) (k : Uuid × Uuid) : sk (s.setWRemoveCalls x) k = sk s k := rfl
@[simp, grind =] theorem sk_setWServicesDestroyed (s : St) (x : List (ConnId × Cookie)) (k : Uuid × Uuid) : sk (s.setWServicesDestroyed x) k = sk s k := rfl
@[simp, grind =] theorem sk_setWUnsubscribeEvent (s : St) (x : List (ConnId × Cookie × Nat)) (k : Uuid × Uuid) : sk (s.setWUnsubscribeEvent x) k = sk s k := rfl
@[simp, grind =] theorem sk_setWUnsubscribeAll (s : St) (x : List (ConnId × Cookie)) (k : Uuid × Uuid) : sk (s.setWUnsubscribeAll x) k = sk s k := rfl
@[simp, grind =] theorem sk_setWCreateObject (s : St) (x : List ObjId) (k : Uuid × Uuid) : sk (s.setWCreateObject x) k = sk s k := rfl
@[simp, grind =] theorem sk_setWDestroyObject (s : St) (x : List ObjId) (k : Uuid × Uuid) : sk (s.setWDestroyObject x) k = sk s k := rfl
@[simp, grind =] theorem sk_setWCreateService (s : St) (x : List SvcId) (k : Uuid × Uuid) : sk (s.setWCreateService x) k = sk s k := rfl
@[simp, grind =] theorem sk_setWDestroyService (s : St) (x : List SvcId) (k : Uuid × Uuid) : sk (s.setWDestroyService x) k = sk s k := rfl
@[simp, grind =] theorem sk_setWAbortCalls (s : St) (x : List (Nat × ConnId)) (k : Uuid × Uuid) : sk (s.setWAbortCalls x) k = sk s k := rfl
@[simp, grind =] theorem sk_setOut (s : St) (x : List Out) (k : Uuid × Uuid) : sk (s.setOut x) k = sk s k := rfl
@[simp, grind =] theorem sk_stat (s : St) (f : Stats → Stats) (k : Uuid × Uuid) : sk (s.stat f) k = sk s k := rfl
@[simp, grind =] theorem sk_pushRemoveConn (s : St) (id : ConnId) (b : Bool) (k : Uuid × Uuid) : sk (s.pushRemoveConn id b) k = sk s k := rfl
@[simp, grind =] theorem sk_freshCookie (s : St) (k : Uuid × Uuid) : sk s.freshCookie.1 k = sk s k := rfl

@[simp, grind =] theorem sk_setConns (s : St) (x : List (ConnId × Conn)) (k : Uuid × Uuid) : sk (s.setConns x) k = sk s k := rfl
@[simp, grind =] theorem sk_setConn (s : St) (id : ConnId) (c : Conn) (k : Uuid × Uuid) : sk (s.setConn id c) k = sk s k := rfl
@[simp, grind =] theorem sk_updConn (s : St) (id : ConnId) (f : Conn → Conn) (k : Uuid × Uuid) : sk (s.updConn id f) k = sk s k := by
  unfold St.updConn; split <;> rfl
@[simp, grind =] theorem sk_send (s : St) (to : ConnId) (m : Rsp) (v : Option Nat) (k : Uuid × Uuid) : sk (s.send to m v).1 k = sk s k := by
  simp [sk]
@[simp, grind =] theorem sk_sendOrRemove (s : St) (to : ConnId) (m : Rsp) (v : Option Nat) (k : Uuid × Uuid) : sk (s.sendOrRemove to m v) k = sk s k := by
  simp [sk]

theorem sk_of_svcs {s s' : St} (h : s'.b.svcs = s.b.svcs) (k : Uuid × Uuid) : sk s' k = sk s k := by simp [sk, h]

theorem sk_setSvcs (s : St) (x : List ((Uuid × Uuid) × Svc)) (k : Uuid × Uuid) : sk (s.setSvcs x) k = skl x k := rfl

/-- replacing a service entry by one with the same two cookies -/
theorem skl_insert_same {m : List ((Uuid × Uuid) × Svc)} {k0 : Uuid × Uuid} {old new : Svc} (h : AL.find? k0 m = some old)
    (h1 : new.cookie = old.cookie) (h2 : new.objCookie = old.objCookie) (k : Uuid × Uuid) :
    skl (AL.insert k0 new m) k = skl m k := by
  simp only [skl, AL.find?_insert]
  by_cases hk : k0 = k
  · subst hk; simp [h, h1, h2]
  · simp [hk]

theorem ro_of_conns {s s' : St} (h : s'.b.conns = s.b.conns) (c : ConnId) : ro s' c = ro s c := by simp [ro, h]

theorem sk_setSvcs_insert (s : St) (k0 : Uuid × Uuid) (v : Svc) (k : Uuid × Uuid) :
    sk (s.setSvcs (AL.insert k0 v s.b.svcs)) k = if k0 = k then some (v.cookie, v.objCookie) else sk s k := by
  simp only [sk, skl, St.setSvcs_b_svcs, AL.find?_insert]
  by_cases h : k0 = k <;> simp [h]

theorem sk_setSvcs_erase (s : St) (k0 : Uuid × Uuid) (k : Uuid × Uuid) :
    sk (s.setSvcs (AL.erase k0 s.b.svcs)) k = if k0 = k then none else sk s k := by
  simp only [sk, skl, St.setSvcs_b_svcs, AL.find?_erase]
  by_cases h : k0 = k <;> simp [h]

theorem sk_find {s : St} {k : Uuid × Uuid} {v : Svc} (h : AL.find? k s.b.svcs = some v) : sk s k = some (v.cookie, v.objCookie) := by
  simp [sk, skl, h]
theorem sk_find_none {s : St} {k : Uuid × Uuid} (h : AL.find? k s.b.svcs = none) : sk s k = none := by
  simp [sk, skl, h]

/-- replacing a service entry by one with the same two cookies -/
theorem sk_setSvcs_same {s : St} {k0 : Uuid × Uuid} {old new : Svc} (h : AL.find? k0 s.b.svcs = some old)
    (h1 : new.cookie = old.cookie) (h2 : new.objCookie = old.objCookie) (k : Uuid × Uuid) :
    sk (s.setSvcs (AL.insert k0 new s.b.svcs)) k = sk s k := by
  rw [sk_setSvcs_insert]
  split
  · rename_i heq; subst heq; rw [sk_find h, h1, h2]
  · rfl

@[simp] theorem Svc.subscribeEvent_cookie (s : Svc) (ev : Nat) (c : ConnId) : (s.subscribeEvent ev c).1.cookie = s.cookie := by
  unfold Svc.subscribeEvent; split <;> rfl
@[simp] theorem Svc.subscribeEvent_objCookie (s : Svc) (ev : Nat) (c : ConnId) : (s.subscribeEvent ev c).1.objCookie = s.objCookie := by
  unfold Svc.subscribeEvent; split <;> rfl
@[simp] theorem Svc.unsubscribeEvent_cookie (s : Svc) (ev : Nat) (c : ConnId) : (s.unsubscribeEvent ev c).1.cookie = s.cookie := by
  unfold Svc.unsubscribeEvent; split
  · dsimp only; split <;> rfl
  · rfl
@[simp] theorem Svc.unsubscribeEvent_objCookie (s : Svc) (ev : Nat) (c : ConnId) : (s.unsubscribeEvent ev c).1.objCookie = s.objCookie := by
  unfold Svc.unsubscribeEvent; split
  · dsimp only; split <;> rfl
  · rfl
@[simp] theorem Svc.subscribeAll_cookie (s : Svc) (c : ConnId) : (s.subscribeAll c).1.cookie = s.cookie := rfl
@[simp] theorem Svc.subscribeAll_objCookie (s : Svc) (c : ConnId) : (s.subscribeAll c).1.objCookie = s.objCookie := rfl
@[simp] theorem Svc.unsubscribeAll_cookie (s : Svc) (c : ConnId) : (s.unsubscribeAll c).1.cookie = s.cookie := rfl
@[simp] theorem Svc.unsubscribeAll_objCookie (s : Svc) (c : ConnId) : (s.unsubscribeAll c).1.objCookie = s.objCookie := rfl

@[simp, grind =] theorem ro_setConn (s : St) (id : ConnId) (new : Conn) (c : ConnId) :
    ro (s.setConn id new) c = if id = c then some new.objects else ro s c := by
  simp only [ro, St.setConn_b_conns, AL.find?_insert]
  by_cases h : id = c <;> simp [h]

theorem ro_conn {s : St} {id : ConnId} {conn : Conn} (h : s.conn? id = some conn) : ro s id = some conn.objects := by
  simp only [St.conn?] at h; simp [ro, h]

theorem ro_find {s : St} {id : ConnId} {conn : Conn} (h : AL.find? id s.b.conns = some conn) : ro s id = some conn.objects := by
  simp [ro, h]
theorem ro_find_none {s : St} {id : ConnId} (h : AL.find? id s.b.conns = none) : ro s id = none := by
  simp [ro, h]

@[simp] theorem ro_map (s : St) (id : ConnId) : ((s.conn? id).map (fun x => x.objects)) = ro s id := by
  unfold ro St.conn?
  cases AL.find? id s.b.conns <;> rfl

theorem ro_updConn' (s : St) (id : ConnId) (f : Conn → Conn) (c : ConnId) :
    ro (s.updConn id f) c = if id = c then ((s.conn? id).map (fun x => (f x).objects)) else ro s c := by
  unfold St.updConn
  cases h : s.conn? id with
  | none =>
    simp only [Option.map_none]
    split
    · rename_i heq; subst heq
      simp only [St.conn?] at h; simp [ro, h]
    · rfl
  | some old => simp [ro_setConn]

@[simp] theorem ro_map' (s : St) (id : ConnId) : ((AL.find? id s.b.conns).map (fun x => x.objects)) = ro s id := ro_map s id

/-- an update of a connection that leaves its list of objects alone -/
theorem ro_updConn_same (s : St) (id : ConnId) (f : Conn → Conn) (hf : ∀ x, (f x).objects = x.objects) (c : ConnId) :
    ro (s.updConn id f) c = ro s c := by
  rw [ro_updConn']
  split
  · rename_i heq; subst heq
    cases h : s.conn? id with
    | none => simp only [St.conn?] at h; simp [ro, h]
    | some old => simp only [St.conn?] at h; simp [ro, h, hf]
  · rfl

@[simp] theorem ro_ite (s : St) (id c : ConnId) : (if id = c then ro s id else ro s c) = ro s c := by
  split
  · rename_i h; subst h; rfl
  · rfl

@[simp] theorem Conn.subscribeEvent_objects (c : Conn) (svc : Cookie) (ev : Nat) : (c.subscribeEvent svc ev).objects = c.objects := rfl
@[simp] theorem Conn.unsubscribeEvent_objects (c : Conn) (svc : Cookie) (ev : Nat) : (c.unsubscribeEvent svc ev).objects = c.objects := by
  unfold Conn.unsubscribeEvent; split
  · dsimp only; split <;> rfl
  · rfl
@[simp] theorem Conn.unsubscribeAllOf_objects (c : Conn) (svc : Cookie) : (c.unsubscribeAllOf svc).objects = c.objects := rfl

@[simp, grind =] theorem ro_send (s : St) (to : ConnId) (m : Rsp) (v : Option Nat) (c : ConnId) : ro (s.send to m v).1 c = ro s c :=
  ro_of_conns (by simp) c
@[simp, grind =] theorem ro_sendOrRemove (s : St) (to : ConnId) (m : Rsp) (v : Option Nat) (c : ConnId) : ro (s.sendOrRemove to m v) c = ro s c :=
  ro_of_conns (by simp) c

/-- the views the registry invariant is stated on are the same in both states -/
def SameReg (s s' : St) : Prop :=
  s'.b.objUuids = s.b.objUuids ∧ s'.b.objs = s.b.objs ∧ s'.b.svcUuids = s.b.svcUuids ∧
  (∀ k, sk s' k = sk s k) ∧ (∀ c, ro s' c = ro s c)

theorem SameReg.refl (s : St) : SameReg s s := ⟨rfl, rfl, rfl, fun _ => rfl, fun _ => rfl⟩
theorem SameReg.trans {a b c : St} (h1 : SameReg a b) (h2 : SameReg b c) : SameReg a c :=
  ⟨h2.1.trans h1.1, h2.2.1.trans h1.2.1, h2.2.2.1.trans h1.2.2.1, fun k => (h2.2.2.2.1 k).trans (h1.2.2.2.1 k),
    fun k => (h2.2.2.2.2 k).trans (h1.2.2.2.2 k)⟩

/-- nothing but fields the invariant does not look at has changed -/
theorem SameReg.of_eq {s s' : St} (h1 : s'.b.objUuids = s.b.objUuids) (h2 : s'.b.objs = s.b.objs) (h3 : s'.b.svcUuids = s.b.svcUuids)
    (h4 : s'.b.svcs = s.b.svcs) (h5 : s'.b.conns = s.b.conns) : SameReg s s' :=
  ⟨h1, h2, h3, sk_of_svcs h4, ro_of_conns h5⟩

macro "reg_eq" : tactic => `(tactic| (refine SameReg.of_eq ?_ ?_ ?_ ?_ ?_ <;> (first | rfl | (simp; done))))

syntax "reg_tac" ident : tactic
macro_rules
  | `(tactic| reg_tac $f) => `(tactic|
      (intro h; unfold $f at h
       repeat' ((try simp only [] at h); split at h)
       all_goals (try (simp only [okH, errH, Except.ok.injEq, Prod.mk.injEq, reduceCtorEq] at h))
       all_goals (try (have hfst := congrArg Prod.fst h; (try dsimp only at hfst); rw [← hfst]; clear hfst h))
       all_goals (try (exact h.elim))
       all_goals (try (obtain ⟨h1, h2⟩ := h; subst h1; subst h2))
       all_goals (try subst_vars)
       all_goals (try (exact SameReg.refl _))
       all_goals (try simp only [St.updConn_b_svcs, St.setSvcs_b_objs, St.updConn_b_objs, St.send_b_svcs, St.send_b_objs] at *)
       all_goals (refine ⟨by simp, by simp, by simp, fun k => ?_, fun c => ?_⟩)
       all_goals (try (simp [ro_updConn']; done))
       all_goals (try (simp only [sk, St.setSvcs_b_svcs, St.updConn_b_svcs, St.send_b_svcs, St.sendOrRemove_b_svcs, St.setWUnsubscribeEvent_b_svcs,
         St.setWUnsubscribeAll_b_svcs, St.setCalls_b_svcs, St.setConn_b_svcs, St.stat_b_svcs]; rw [skl_insert_same (by assumption) (by simp) (by simp)]; done))
       all_goals (try (grind [ro_conn, ro_updConn', sk]))))


end Aldrin.Broker
