/-
Channel component (`broker/src/broker/channel.rs`): the end state machine and credit accounting.
-/
import Aldrin.Model.Broker.Parts

namespace Aldrin.Broker
open Generated

def EndState.isClaimed : EndState → Bool
  | .claimed _ _ => true
  | _ => false

/-- A channel kept in the broker's map has at least one claimed end. -/
def Chan.WF (c : Chan) : Prop := c.sender.isClaimed = true ∨ c.receiver.isClaimed = true

/-- Credit relation: the credit announced to the sender never exceeds what the receiver granted, and
at or below the low-water mark the two are equal. A claimed sender whose receiver is not claimed yet
has no credit. -/
def Chan.J (c : Chan) : Prop :=
  match c.sender, c.receiver with
  | .claimed _ sc, .claimed _ rc => sc ≤ rc ∧ (sc ≤ lowCapacity → sc = rc)
  | .claimed _ sc, .unclaimed => sc = 0
  | _, _ => True

def Chan.OK (c : Chan) : Prop := c.WF ∧ c.J

theorem lowCapacity_eq : lowCapacity = 4 := rfl

/-- `x` does not panic and its result satisfies `P` -/
def okAnd {α : Type} (x : Except Panic α) (P : α → Prop) : Prop :=
  match x with
  | .ok a => P a
  | .error _ => False

@[simp] theorem okAnd_ok {α : Type} (a : α) (P : α → Prop) : okAnd (.ok a) P ↔ P a := Iff.rfl
@[simp] theorem okAnd_error {α : Type} (e : Panic) (P : α → Prop) : okAnd (.error e : Except Panic α) P ↔ False := Iff.rfl

theorem okAnd_iff {α : Type} {x : Except Panic α} {P : α → Prop} : okAnd x P ↔ ∃ a, x = .ok a ∧ P a := by
  cases x <;> simp

theorem okAnd_mono {α : Type} {x : Except Panic α} {P Q : α → Prop} (h : okAnd x P) (hpq : ∀ a, P a → Q a) : okAnd x Q := by
  cases x <;> simp_all

/-! ### creation -/

theorem withClaimedSender_ok (o : ConnId) : (Chan.withClaimedSender o).OK := by
  simp [Chan.OK, Chan.WF, Chan.J, Chan.withClaimedSender, EndState.isClaimed]

theorem withClaimedReceiver_ok (o : ConnId) (cap : Nat) : (Chan.withClaimedReceiver o cap).OK := by
  simp [Chan.OK, Chan.WF, Chan.J, Chan.withClaimedReceiver, EndState.isClaimed]

/-! ### claim -/

theorem claimSender_ok {c : Chan} {conn : ConnId} (h : c.OK) :
    okAnd (c.claimSender conn) (fun r => ∀ c' o cap, r = .ok (c', o, cap) → c'.OK) := by
  obtain ⟨snd, rcv⟩ := c
  cases snd <;> cases rcv <;>
    simp_all [Chan.claimSender, Chan.WF, Chan.J, Chan.OK, EndState.isClaimed, lowCapacity_eq]

theorem claimReceiver_ok {c : Chan} {conn : ConnId} {cap : Nat} (h : c.OK) :
    okAnd (c.claimReceiver conn cap) (fun r => ∀ c' o, r = .ok (c', o) → c'.OK) := by
  obtain ⟨snd, rcv⟩ := c
  cases snd <;> cases rcv <;>
    simp_all [Chan.claimReceiver, Chan.WF, Chan.J, Chan.OK, EndState.isClaimed, lowCapacity_eq]

/-- claiming the sender succeeds exactly when that end is unclaimed; it takes over the receiver's credit -/
theorem claimSender_result (c : Chan) (conn : ConnId) (h : c.WF) :
    (c.sender = .unclaimed → ∃ o cap, c.receiver = .claimed o cap ∧
        c.claimSender conn = .ok (.ok ({ c with sender := .claimed conn cap }, o, cap))) ∧
    ((∃ o k, c.sender = .claimed o k) → c.claimSender conn = .ok (.error .alreadyClaimed)) ∧
    (c.sender = .closed → c.claimSender conn = .ok (.error .invalidChannel)) := by
  obtain ⟨snd, rcv⟩ := c
  cases snd <;> cases rcv <;> simp_all [Chan.claimSender, Chan.WF, EndState.isClaimed]
  exact ⟨_, _, ⟨rfl, rfl⟩, rfl, rfl, rfl⟩

theorem claimReceiver_result (c : Chan) (conn : ConnId) (cap : Nat) (h : c.WF) :
    (c.receiver = .unclaimed → ∃ o k, c.sender = .claimed o k ∧
        c.claimReceiver conn cap = .ok (.ok (⟨.claimed o cap, .claimed conn cap⟩, o))) ∧
    ((∃ o k, c.receiver = .claimed o k) → c.claimReceiver conn cap = .ok (.error .alreadyClaimed)) ∧
    (c.receiver = .closed → c.claimReceiver conn cap = .ok (.error .invalidChannel)) := by
  obtain ⟨snd, rcv⟩ := c
  cases snd <;> cases rcv <;> simp_all [Chan.claimReceiver, Chan.WF, EndState.isClaimed]

/-! ### close -/

theorem checkClose_spec (c : Chan) (conn : ConnId) (e : ChanEnd) :
    ((c.checkClose conn e).1 = .ok ↔ (c.endState e = .unclaimed ∨ ∃ k, c.endState e = .claimed conn k)) ∧
    ((c.checkClose conn e).1 = .foreignChannel ↔ ∃ o k, c.endState e = .claimed o k ∧ o ≠ conn) ∧
    ((c.checkClose conn e).1 = .invalidChannel ↔ c.endState e = .closed) ∧
    ((c.checkClose conn e).2 = true ↔ (c.endState e).isClaimed = true) := by
  unfold Chan.checkClose
  cases h : c.endState e <;> simp [EndState.isClaimed]
  split <;> simp_all

def ChanEnd.other : ChanEnd → ChanEnd
  | .sender => .receiver
  | .receiver => .sender

/-- closing an end that is not closed yet never hits one of the `unreachable!()` arms; the channel
survives (an owner to notify is returned) exactly when the other end is claimed, and it is then
well-formed again -/
theorem close_ok {c : Chan} {e : ChanEnd} (h : c.OK) (he : c.endState e ≠ .closed) :
    okAnd (c.close e) (fun r => r.1.endState e = .closed ∧ r.1.endState e.other = c.endState e.other ∧
      (∀ o, r.2 = some o → r.1.OK ∧ ∃ k, c.endState e.other = .claimed o k) ∧
      (r.2 = none ↔ (c.endState e.other).isClaimed = false)) := by
  obtain ⟨snd, rcv⟩ := c
  cases e <;> cases snd <;> cases rcv <;>
    simp_all [Chan.close, Chan.WF, Chan.J, Chan.OK, Chan.endState, EndState.isClaimed, ChanEnd.other]

/-! ### items and capacity -/

theorem sendItem_ok {c : Chan} {conn : ConnId} (h : c.OK) :
    okAnd (c.sendItem conn) (fun r => ∀ c' o add, r = .ok (c', o, add) → c'.OK) := by
  obtain ⟨snd, rcv⟩ := c
  cases snd with
  | unclaimed => simp [Chan.sendItem]
  | closed => simp [Chan.sendItem]
  | claimed s sc =>
    simp only [Chan.sendItem]
    by_cases hc : s ≠ conn
    · simp [hc]
    · simp only [hc, ↓reduceIte]
      cases rcv with
      | unclaimed => simp
      | closed => simp
      | claimed r rc =>
        simp only [Chan.OK, Chan.WF, Chan.J, lowCapacity_eq] at h
        simp only [lowCapacity_eq]
        by_cases hz : sc = 0
        · have : rc = 0 := by omega
          simp [hz, this]
        · have hrz : rc ≠ 0 := by omega
          simp only [hz, hrz, ↓reduceIte]
          by_cases hcond : sc - 1 ≤ 4 ∧ rc - 1 > sc - 1
          · simp [hcond, EndState.isClaimed, Chan.OK, Chan.WF, Chan.J, lowCapacity_eq]
          · simp only [hcond, ↓reduceIte]
            simp [EndState.isClaimed, Chan.OK, Chan.WF, Chan.J, lowCapacity_eq]
            omega

theorem addCapacity_ok {c : Chan} {conn : ConnId} {cap : Nat} (h : c.OK) :
    okAnd (c.addCapacity conn cap) (fun r => ∀ c' f, r = some (c', f) → c'.OK) := by
  have h0 := h
  unfold Chan.addCapacity
  by_cases hc : cap = 0
  · simp [hc]; exact h0
  · simp only [hc, ↓reduceIte]
    obtain ⟨snd, rcv⟩ := c
    cases rcv with
    | unclaimed => simp; exact h0
    | closed => simp; exact h0
    | claimed r rc =>
      simp only []
      by_cases ho : r ≠ conn
      · simp [ho]; exact h0
      · simp only [ho, ↓reduceIte]
        by_cases hov : rc + cap > u32Max
        · simp [hov]
        · simp only [hov, ↓reduceIte]
          cases snd with
          | unclaimed => simp [Chan.OK, Chan.WF, Chan.J, EndState.isClaimed]
          | closed => simp [Chan.OK, Chan.WF, Chan.J, EndState.isClaimed]
          | claimed s sc =>
            simp only [Chan.OK, Chan.WF, Chan.J, lowCapacity_eq] at h
            simp only [lowCapacity_eq]
            by_cases hl : sc ≤ 4
            · have : rc + cap > sc := by omega
              simp [hl, this, Chan.OK, Chan.WF, Chan.J, EndState.isClaimed, lowCapacity_eq]
            · simp [hl, Chan.OK, Chan.WF, Chan.J, EndState.isClaimed, lowCapacity_eq]
              omega

/-- a sender that still has credit is never refused -/
theorem sendItem_within_credit {c : Chan} {s r : ConnId} {sc rc : Nat} (h : c.OK)
    (hs : c.sender = .claimed s sc) (hr : c.receiver = .claimed r rc) (hpos : 0 < sc) :
    ∃ c' add, c.sendItem s = .ok (.ok (c', r, add)) := by
  obtain ⟨snd, rcv⟩ := c
  simp only at hs hr
  subst hs hr
  simp only [Chan.OK, Chan.WF, Chan.J, lowCapacity_eq] at h
  have h1 : sc ≠ 0 := by omega
  have h2 : rc ≠ 0 := by omega
  simp only [Chan.sendItem, ne_eq, not_true_eq_false, ↓reduceIte, h1, h2]
  split <;> simp

/-- without credit the send is refused with `capacityExhausted` (and the sender then loses its end) -/
theorem sendItem_no_credit {c : Chan} {s r : ConnId} {rc : Nat} (h : c.OK)
    (hs : c.sender = .claimed s 0) (hr : c.receiver = .claimed r rc) :
    c.sendItem s = .ok (.error .capacityExhausted) := by
  obtain ⟨snd, rcv⟩ := c
  simp only at hs hr
  subst hs hr
  simp only [Chan.OK, Chan.WF, Chan.J, lowCapacity_eq] at h
  have : rc = 0 := by omega
  simp [Chan.sendItem, this]

/-- a grant is refused exactly when the receiver's credit would exceed `u32::MAX` -/
theorem addCapacity_overflow {c : Chan} {r : ConnId} {rc cap : Nat} (h : c.OK)
    (hr : c.receiver = .claimed r rc) (hc : cap ≠ 0) :
    (c.addCapacity r cap = .ok none ↔ rc + cap > u32Max) := by
  obtain ⟨snd, rcv⟩ := c
  simp only at hr
  subst hr
  unfold Chan.addCapacity
  simp only [hc, ↓reduceIte, ne_eq, not_true_eq_false]
  by_cases hov : rc + cap > u32Max
  · simp [hov]
  · simp only [hov, ↓reduceIte, iff_false]
    cases snd with
    | unclaimed => simp
    | closed => simp
    | claimed s sc =>
      simp only [Chan.OK, Chan.WF, Chan.J, lowCapacity_eq] at h
      simp only [lowCapacity_eq]
      by_cases hl : sc ≤ 4
      · have : rc + cap > sc := by omega
        simp [hl, this]
      · simp [hl]

/-! ### preservation in the form the state-machine proofs use -/

theorem close_preserves {c c' : Chan} {e : ChanEnd} {o : ConnId} (h : c.OK) (hc : c.close e = .ok (c', some o)) : c'.OK := by
  obtain ⟨snd, rcv⟩ := c
  cases e <;> cases snd <;> cases rcv <;>
    simp_all [Chan.close, Chan.WF, Chan.J, Chan.OK, EndState.isClaimed] <;>
    (obtain ⟨rfl, _⟩ := hc; simp)

theorem sendItem_preserves {c c' : Chan} {conn o : ConnId} {add : Option Nat} (h : c.OK)
    (hs : c.sendItem conn = .ok (.ok (c', o, add))) : c'.OK := by
  have := sendItem_ok (conn := conn) h
  rw [hs] at this
  exact this _ _ _ rfl

theorem addCapacity_preserves {c c' : Chan} {conn : ConnId} {cap : Nat} {f} (h : c.OK)
    (ha : c.addCapacity conn cap = .ok (some (c', f))) : c'.OK := by
  have := addCapacity_ok (conn := conn) (cap := cap) h
  rw [ha] at this
  exact this _ _ rfl

theorem claimSender_preserves {c c' : Chan} {conn o : ConnId} {cap : Nat} (h : c.OK)
    (hs : c.claimSender conn = .ok (.ok (c', o, cap))) : c'.OK := by
  have := claimSender_ok (conn := conn) h
  rw [hs] at this
  exact this _ _ _ rfl

theorem claimReceiver_preserves {c c' : Chan} {conn o : ConnId} {cap : Nat} (h : c.OK)
    (hs : c.claimReceiver conn cap = .ok (.ok (c', o))) : c'.OK := by
  have := claimReceiver_ok (conn := conn) (cap := cap) h
  rw [hs] at this
  exact this _ _ rfl

/-! ### credit accounting over arbitrary histories of an established channel -/

inductive COp where
  | send
  | add (cap : Nat)
  deriving Repr

/-- ghost counters: capacity granted by the receiver, capacity announced to the sender, items forwarded -/
structure Ghost where
  granted : Nat
  announced : Nat
  forwarded : Nat
  deriving Repr

/-- run sender-side sends and receiver-side grants on a channel established between `s` and `r`;
refused operations leave the channel unchanged (the broker then closes an end, which ends the history) -/
def crun (s r : ConnId) : Chan → Ghost → List COp → Except Panic (Chan × Ghost)
  | c, g, [] => .ok (c, g)
  | c, g, .send :: ops =>
    match c.sendItem s with
    | .error p => .error p
    | .ok (.error _) => crun s r c g ops
    | .ok (.ok (c', _, add)) =>
      crun s r c' { g with forwarded := g.forwarded + 1, announced := g.announced + add.getD 0 } ops
  | c, g, .add cap :: ops =>
    match c.addCapacity r cap with
    | .error p => .error p
    | .ok none => crun s r c g ops
    | .ok (some (c', fwd)) =>
      crun s r c' { g with granted := g.granted + cap, announced := g.announced + (fwd.map (·.2)).getD 0 } ops

/-- the stored capacities are exactly the unspent parts of what was announced / granted -/
def Acct (s r : ConnId) (c : Chan) (g : Ghost) : Prop :=
  ∃ sc rc, c = ⟨.claimed s sc, .claimed r rc⟩ ∧
    sc + g.forwarded = g.announced ∧ rc + g.forwarded = g.granted ∧ sc ≤ rc ∧ (sc ≤ 4 → sc = rc)

theorem acct_send {s r : ConnId} {c : Chan} {g : Ghost} (h : Acct s r c g) :
    (∃ e, c.sendItem s = .ok (.error e)) ∨
    ∃ c' add, c.sendItem s = .ok (.ok (c', r, add)) ∧
      Acct s r c' { g with forwarded := g.forwarded + 1, announced := g.announced + add.getD 0 } := by
  obtain ⟨sc, rc, hc, h1, h2, h3, h4⟩ := h
  subst hc
  by_cases hz : sc = 0
  · left
    have : rc = 0 := by omega
    simp [Chan.sendItem, hz, this]
  · right
    have hrz : rc ≠ 0 := by omega
    simp only [Chan.sendItem, ne_eq, not_true_eq_false, ↓reduceIte, hz, hrz, lowCapacity_eq]
    by_cases hcond : sc - 1 ≤ 4 ∧ rc - 1 > sc - 1
    · simp only [hcond, and_self, ↓reduceIte]
      refine ⟨_, _, rfl, rc - 1, rc - 1, rfl, ?_⟩
      simp; omega
    · simp only [hcond, ↓reduceIte]
      refine ⟨_, _, rfl, sc - 1, rc - 1, rfl, ?_⟩
      simp; omega

theorem acct_add {s r : ConnId} {c : Chan} {g : Ghost} {cap : Nat} (h : Acct s r c g) :
    c.addCapacity r cap = .ok none ∨
    ∃ c' fwd, c.addCapacity r cap = .ok (some (c', fwd)) ∧
      Acct s r c' { g with granted := g.granted + cap, announced := g.announced + (fwd.map (·.2)).getD 0 } := by
  obtain ⟨sc, rc, hc, h1, h2, h3, h4⟩ := h
  subst hc
  unfold Chan.addCapacity
  by_cases hc : cap = 0
  · right
    simp only [hc, ↓reduceIte]
    exact ⟨_, _, rfl, sc, rc, rfl, by simp; omega⟩
  · simp only [hc, ↓reduceIte, ne_eq, not_true_eq_false, lowCapacity_eq]
    by_cases ho : rc + cap > u32Max
    · left; simp [ho]
    · right
      simp only [ho, ↓reduceIte]
      by_cases hl : sc ≤ 4
      · have : rc + cap > sc := by omega
        simp only [hl, ↓reduceIte, this, not_true_eq_false]
        exact ⟨_, _, rfl, rc + cap, rc + cap, rfl, by simp; omega⟩
      · simp only [hl, ↓reduceIte]
        exact ⟨_, _, rfl, sc, rc + cap, rfl, by simp; omega⟩

/-- For every history of sends and grants on an established channel: no panic site of `channel.rs`
is reached and the accounting relation is kept. -/
theorem crun_acct (s r : ConnId) (ops : List COp) (c : Chan) (g : Ghost) (h : Acct s r c g) :
    ∃ c' g', crun s r c g ops = .ok (c', g') ∧ Acct s r c' g' := by
  induction ops generalizing c g with
  | nil => exact ⟨c, g, rfl, h⟩
  | cons op ops ih =>
    cases op with
    | send =>
      rcases acct_send h with ⟨e, he⟩ | ⟨c', add, he, ha⟩
      · simp only [crun, he]; exact ih c g h
      · simp only [crun, he]; exact ih _ _ ha
    | add cap =>
      rcases acct_add (cap := cap) h with he | ⟨c', fwd, he, ha⟩
      · simp only [crun, he]; exact ih c g h
      · simp only [crun, he]; exact ih _ _ ha

/-- the items forwarded never exceed the credit announced to the sender, which never exceeds the
capacity granted by the receiver -/
theorem acct_bounds {s r : ConnId} {c : Chan} {g : Ghost} (h : Acct s r c g) :
    g.forwarded ≤ g.announced ∧ g.announced ≤ g.granted := by
  obtain ⟨sc, rc, _, h1, h2, h3, _⟩ := h; omega

end Aldrin.Broker
