/-
`XrefP` through every request (`handleMessage_xref`), the removal of a connection (`shutdownConnection_xref`), the
work loop, every event and one turn of `Broker::run` (`step_xref`): it holds, with nothing deferred, in every state
`Broker::run` can be in between two events (`Reachable.idle`).
-/
import Aldrin.Lemmas.Broker.Xref

set_option linter.unusedSimpArgs false
set_option linter.unusedVariables false
namespace Aldrin.Broker
open Generated

theorem emitBusEvent_cke (s : St) (e : BusEv) : CkEq s (emitBusEvent s e) := by
  unfold emitBusEvent
  simp only []
  apply foldl_inv (fun s' => CkEq s s')
  · intro s1 a hp; split <;> simp_all [CkEq]
  · exact CkEq.refl _

/-- every request, while nothing about calls is deferred and the call table has room -/
theorem handleMessage_xref {sv} {s s' : St} {id : ConnId} {m : Req} {ok : Bool} (hx : XrefP sv s)
    (hR : s.w.removeCalls = []) (hroom : s.b.calls.elems.length ≤ u32Max)
    (hr : handleMessage s id m = .ok (s', ok)) : XrefP sv s' := by
  cases m <;> simp only [handleMessage] at hr
  case callFunction => exact callFunctionImpl_xref hx hR hroom hr
  case callFunction2 => exact callFunction2_xref hx hR hroom hr
  case callFunctionReply => exact callFunctionReply_xref hx hr
  case abortFunctionCall => exact abortFunctionCall_xref hx hr
  case destroyObject => exact destroyObject_xref hx hr
  case destroyService => exact destroyService_xref hx hr
  case createObject => exact hx.of_F (createObject_cke hr) (createObject_f hr)
  case createService => exact hx.of_F (createService_cke hr) (createService_f hr)
  case createService2 => exact hx.of_F (createService2_cke hr) (createService2_f hr)
  case subscribeEvent serial _ _ => exact hx.of_F (subscribeEvent_cke hr) (subscribeEvent_f hr)
  case unsubscribeEvent => exact hx.of_F (unsubscribeEvent_cke hr) (unsubscribeEvent_f hr)
  case emitEvent => exact hx.of_F (emitEvent_cke hr) (emitEvent_f hr)
  case queryServiceVersion => exact hx.of_F (queryServiceVersion_cke hr) (queryServiceVersion_f hr)
  case queryServiceInfo => exact hx.of_F (queryServiceInfo_cke hr) (queryServiceInfo_f hr)
  case subscribeService => exact hx.of_F (subscribeService_cke hr) (subscribeService_f hr)
  case unsubscribeService => exact hx.of_F (unsubscribeService_cke hr) (unsubscribeService_f hr)
  case subscribeAllEvents serial _ => exact hx.of_F (subscribeAllEvents_cke hr) (subscribeAllEvents_f hr)
  case unsubscribeAllEvents serial _ => exact hx.of_F (unsubscribeAllEvents_cke hr) (unsubscribeAllEvents_f hr)
  case createChannel => exact hx.of_F (createChannel_cke hr) (createChannel_f hr)
  case closeChannelEnd => exact hx.of_F (closeChannelEnd_cke hr) (closeChannelEnd_f hr)
  case claimChannelEnd => exact hx.of_F (claimChannelEnd_cke hr) (claimChannelEnd_f hr)
  case sendItem => exact hx.of_F (sendItem_cke hr) (sendItem_f hr)
  case addChannelCapacity => exact hx.of_F (addChannelCapacity_cke hr) (addChannelCapacity_f hr)
  case sync => exact hx.of_F (sync_cke hr) (sync_f hr)
  case createBusListener => exact hx.of_F (createBusListener_cke hr) (createBusListener_f hr)
  case destroyBusListener => exact hx.of_F (destroyBusListener_cke hr) (destroyBusListener_f hr)
  case addFilter f => exact hx.of_F (updListener_cke hr) (updListener_f hr)
  case removeFilter f => exact hx.of_F (updListener_cke hr) (updListener_f hr)
  case clearFilters => exact hx.of_F (updListener_cke hr) (updListener_f hr)
  case startBusListener => exact hx.of_F (startBusListener_cke hr) (startBusListener_f hr)
  case stopBusListener => exact hx.of_F (stopBusListener_cke hr) (stopBusListener_f hr)
  case registerIntrospection => exact hx.of_F (registerIntrospection_cke hr) (registerIntrospection_f hr)
  case queryIntrospection => exact hx.of_F (queryIntrospection_cke hr) (queryIntrospection_f hr)
  case queryIntrospectionReply => exact hx.of_F (queryIntrospectionReply_cke hr) (queryIntrospectionReply_f hr)
  case other => simp [errH] at hr; exact hr.1 ▸ hx

theorem ck_setConns_erase (s : St) (id c : ConnId) : ck (s.setConns (AL.erase id s.b.conns)) c = if c = id then none else ck s c := by
  simp only [ck, St.setConns_b_conns, AL.find?_erase]
  by_cases h : id = c
  · simp [h]
  · simp [h, Ne.symm h]

theorem foldl_push_abort_spec : ∀ (tbl : CallTbl) (s : St),
    let S := tbl.foldl (fun s (p : Nat × (Nat × ConnId)) => (s.setWAbortCalls ((p.2.1, p.2.2) :: s.w.abortCalls))) s
    S.b = s.b ∧ S.w.removeCalls = s.w.removeCalls ∧ (∀ x ∈ s.w.abortCalls, x ∈ S.w.abortCalls) ∧
      (∀ p ∈ tbl, (p.2.1, p.2.2) ∈ S.w.abortCalls) := by
  intro tbl
  induction tbl with
  | nil => intro s; simp
  | cons a l ih =>
    intro s
    simp only [List.foldl_cons]
    obtain ⟨h1, h2, h3, h4⟩ := ih (s.setWAbortCalls ((a.2.1, a.2.2) :: s.w.abortCalls))
    refine ⟨by rw [h1]; rfl, by rw [h2]; rfl, fun x hx => h3 x (by simp [hx]), ?_⟩
    intro p hp
    rw [List.mem_cons] at hp
    rcases hp with rfl | hp
    · exact h3 _ (by simp)
    · exact h4 p hp

theorem shutdownConnection_xref {s s' : St} {id b} (hx : Xref s) (hr : shutdownConnection s id b = .ok s') : Xref s' := by
  unfold shutdownConnection at hr
  split at hr
  · simp at hr; exact hr ▸ hx
  · rename_i conn hconn
    simp only [St.conn?] at hconn
    simp only [] at hr
    repeat' (split at hr)
    all_goals (try (simp at hr; done))
    rename_i s1 h1 _ s2 h2 _ s3 h3 _ s4 h4 _ s5 h5 _ s6 h6
    -- the connection goes out of the map
    have i0 : XrefP (some (id, conn.calls)) ((if b = true then
            if conn.alive = true then (s.stat fun st => { st with messagesSent := st.messagesSent + 1 }).setOut
                ((s.stat fun st => { st with messagesSent := st.messagesSent + 1 }).out ++ [{ to := id, msg := Rsp.shutdown, ver := none }])
            else s.stat fun st => { st with messagesSent := st.messagesSent + 1 }
          else s).setConns (AL.erase id (if b = true then
            if conn.alive = true then (s.stat fun st => { st with messagesSent := st.messagesSent + 1 }).setOut
                ((s.stat fun st => { st with messagesSent := st.messagesSent + 1 }).out ++ [{ to := id, msg := Rsp.shutdown, ver := none }])
            else s.stat fun st => { st with messagesSent := st.messagesSent + 1 }
          else s).b.conns)) := by
      have hk : ck s id = some (conn.calls, conn.alive) := ck_of_find hconn
      refine XrefP.of_views (XP.remove_conn hx hk) (fun c => ?_) (fun k => ?_) ?_ ?_ ?_
      · rw [ck_setConns_erase]; split <;> (try split) <;> (try split) <;> simp_all [ck]
      · split <;> (try split) <;> simp
      · split <;> (try split) <;> simp
      · split <;> (try split) <;> simp
      · split <;> (try split) <;> simp
    have i1 : XrefP (some (id, conn.calls)) s1 := by
      refine foldE_inv (XrefP (some (id, conn.calls))) _ (fun s a s' hp hr => removeObject_xref hp hr) _ _ _ ?_ h1
      apply foldl_inv (XrefP (some (id, conn.calls))) _ (fun s a hp => ?_) _ _ i0
      exact hp.of_F (fun c => by simp) (by simp [SameF])
    have i2 := foldE_inv (XrefP (some (id, conn.calls))) _ (fun s a s' hp hr => hp.of_F (removeEventSubscription_cke hr) (removeEventSubscription_f hr)) _ _ _ i1 h2
    have i3 := foldE_inv (XrefP (some (id, conn.calls))) _ (fun s a s' hp hr => hp.of_F (removeAllEventsSubscription_cke hr) (removeAllEventsSubscription_f hr)) _ _ _ i2 h3
    have i4 := foldE_inv (XrefP (some (id, conn.calls))) _ (fun s a s' hp hr => hp.of_F (removeSubscription_cke hr) (removeSubscription_f hr)) _ _ _ i3 h4
    have i5 := foldE_inv (XrefP (some (id, conn.calls))) _ (fun s a s' hp hr => hp.of_F (removeChannelEnd_cke hr) (removeChannelEnd_f hr)) _ _ _ i4 h5
    have i6 := foldE_inv (XrefP (some (id, conn.calls))) _ (fun s a s' hp hr => hp.of_F (removeChannelEnd_cke hr) (removeChannelEnd_f hr)) _ _ _ i5 h6
    obtain ⟨f1, f2, f3, f4⟩ := foldl_push_abort_spec conn.calls s6
    have i7 : Xref (List.foldl (fun s (p : Nat × (Nat × ConnId)) => (s.setWAbortCalls ((p.2.1, p.2.2) :: s.w.abortCalls))) s6 conn.calls) := by
      refine XrefP.of_views (XP.flush_aborts i6 f3 f4) (fun c => ?_) (fun k => ?_) ?_ f2 rfl
      · simp only [ck]; rw [f1]
      · rw [f1]
      · rw [f1]
    exact XrefP.of_F' (XrefP.of_F' i7 (CkEq.of_conns (by simp)) (by simp [SameF])) (removeIntrospectionConn_cke hr) (removeIntrospectionConn_f hr)

theorem XrefP.pop_frame {s s' : St} (hx : Xref s) (h1 : s'.b.conns = s.b.conns) (h2 : s'.b.calls = s.b.calls)
    (h3 : s'.w.removeCalls = s.w.removeCalls) (h4 : s'.w.abortCalls = s.w.abortCalls) : Xref s' :=
  XrefP.of_eq h1 h2 h3 h4 hx

theorem processOne_xref {s s' : St} (hx : Xref s) (hr : processOne s = some (.ok s')) : Xref s' := by
  unfold processOne at hr
  split at hr
  · -- remove a connection
    rename_i cid sendShutdown rest hq
    simp only [Option.some.injEq] at hr
    exact shutdownConnection_xref (XrefP.of_eq (s' := s.setWRemoveConns rest) rfl rfl rfl rfl hx) hr
  split at hr
  · simp only [Option.some.injEq, Except.ok.injEq] at hr; subst hr
    split
    · exact XrefP.of_eq (by simp) (by simp) (by simp) (by simp) hx
    · exact XrefP.of_eq rfl rfl rfl rfl hx
  split at hr
  · simp only [Option.some.injEq, Except.ok.injEq] at hr; subst hr
    split
    · exact XrefP.of_eq (by simp) (by simp) (by simp) (by simp) hx
    · exact XrefP.of_eq rfl rfl rfl rfl hx
  split at hr
  · simp only [Option.some.injEq, Except.ok.injEq] at hr; subst hr
    split
    · exact XrefP.of_eq (by simp) (by simp) (by simp) (by simp) hx
    · exact XrefP.of_eq rfl rfl rfl rfl hx
  split at hr
  · -- a queued `InvalidService` reply
    rename_i serial cid result rest hq
    simp only [Option.some.injEq] at hr
    unfold Xref XrefP at hx; rw [hq] at hx
    split at hr
    · rename_i hnone
      simp only [Except.ok.injEq] at hr; subst hr
      have hk : ck s cid = none := ck_of_find_none (by simpa using hnone)
      exact XrefP.of_views (XP.pop_remove_gone hx hk) (fun c => by simp) (fun k => by simp) (by simp) (by simp) (by simp)
    · rename_i conn hconn
      split at hr
      · simp at hr
      · simp only [Except.ok.injEq] at hr; subst hr
        have hk : ck s cid = some (conn.calls, conn.alive) := ck_of_find (by simpa using hconn)
        refine XrefP.of_views (XP.pop_remove hx hk) (fun c => ?_) (fun k => by simp) (by simp) (by simp) (by simp)
        simp only [ck_sendOrRemove, ck_setConn, ck_setWRemoveCalls]
        by_cases hcc : c = cid
        · simp [hcc]
        · simp [hcc, Ne.symm hcc]
  split at hr
  · simp only [Option.some.injEq, Except.ok.injEq] at hr; subst hr
    exact XrefP.of_F' (XrefP.of_eq (s' := s.setWCreateObject _) rfl rfl rfl rfl hx) (emitBusEvent_cke _ _) (emitBusEvent_f _ _)
  split at hr
  · simp only [Option.some.injEq, Except.ok.injEq] at hr; subst hr
    exact XrefP.of_F' (XrefP.of_eq (s' := s.setWCreateService _) rfl rfl rfl rfl hx) (emitBusEvent_cke _ _) (emitBusEvent_f _ _)
  split at hr
  · simp only [Option.some.injEq, Except.ok.injEq] at hr; subst hr
    exact XrefP.of_F' (XrefP.of_eq (s' := s.setWDestroyService _) rfl rfl rfl rfl hx) (emitBusEvent_cke _ _) (emitBusEvent_f _ _)
  split at hr
  · simp only [Option.some.injEq, Except.ok.injEq] at hr; subst hr
    exact XrefP.of_F' (XrefP.of_eq (s' := s.setWDestroyObject _) rfl rfl rfl rfl hx) (emitBusEvent_cke _ _) (emitBusEvent_f _ _)
  split at hr
  · rename_i serial cid rest hq
    simp only [Option.some.injEq] at hr
    exact abortCall_xref hx hq hr
  · simp at hr

theorem processLoop_xref : ∀ (fuel : Nat) (s s' : St), Xref s → processLoop fuel s = .ok s' → Xref s' := by
  intro fuel
  induction fuel with
  | zero => intro s s' _ hr; simp [processLoop] at hr
  | succ k ih =>
    intro s s' hx hr
    simp only [processLoop] at hr
    split at hr
    · simp at hr; exact hr ▸ hx
    · simp at hr
    · exact ih _ _ (processOne_xref hx ‹_›) hr

/-- the work loop ends with nothing deferred -/
theorem processOne_none {s : St} (h : processOne s = none) : s.w.removeCalls = [] ∧ s.w.abortCalls = [] := by
  unfold processOne at h
  repeat' (split at h)
  all_goals (try (simp at h; done))
  exact ⟨‹_›, ‹_›⟩

theorem processLoop_done : ∀ (fuel : Nat) (s s' : St), processLoop fuel s = .ok s' → s'.w.removeCalls = [] ∧ s'.w.abortCalls = [] := by
  intro fuel
  induction fuel with
  | zero => intro s s' hr; simp [processLoop] at hr
  | succ k ih =>
    intro s s' hr
    simp only [processLoop] at hr
    split at hr
    · rename_i hnone; simp at hr; exact hr ▸ processOne_none hnone
    · simp at hr
    · exact ih _ _ hr

theorem handleEvent_xref {s s' : St} {e : Event} (hx : Xref s) (hR : s.w.removeCalls = []) (hA : s.w.abortCalls = [])
    (hroom : s.b.calls.elems.length ≤ u32Max) (hr : handleEvent s e = .ok s') : Xref s' := by
  cases e <;> simp only [handleEvent] at hr
  case msg id m =>
    split at hr
    · simp at hr
    · rename_i s1 ok hm
      have := handleMessage_xref hx hR hroom hm
      simp only [Except.ok.injEq] at hr
      subst hr
      split <;> exact XrefP.of_eq rfl rfl rfl rfl this
  case newConn id v =>
    split at hr
    · simp at hr
    · rename_i hnone
      simp only [Except.ok.injEq] at hr; subst hr
      have hk : ck s id = none := by
        cases hf : AL.find? id s.b.conns with
        | none => exact ck_of_find_none hf
        | some c => simp [St.conn?, hf] at hnone
      unfold Xref XrefP at hx; rw [hR, hA] at hx
      refine XrefP.of_views (XP.new_conn hx hk) (fun c => ?_) (fun k => by simp) (by simp) (by simp [hR]) (by simp [hA])
      simp only [ck_stat, ck_setConn]
      by_cases hcc : c = id
      · simp [hcc]
      · simp [hcc, Ne.symm hcc]
  case taskDropped id =>
    simp only [Except.ok.injEq] at hr; subst hr
    refine XrefP.of_views (XP.drop_alive (c0 := id) hx (K' := ck (s.updConn id fun c => { c with alive := false })) (fun c => ?_)) (fun c => rfl) (fun k => by simp) (by simp) (by simp) (by simp)
    rw [ck_updConn']
    by_cases hcc : c = id
    · subst hcc
      simp only [↓reduceIte]
      cases hf : AL.find? c s.b.conns <;> simp [St.conn?, ck, hf]
    · simp [hcc, Ne.symm hcc]
  all_goals (simp only [Except.ok.injEq] at hr; subst hr; exact XrefP.of_eq (by simp) (by simp) (by simp) (by simp) hx)

/-- all ten deferred lists are empty -/
def Work.idle (w : Work) : Prop :=
  w.removeConns = [] ∧ w.unsubscribeEvent = [] ∧ w.unsubscribeAll = [] ∧ w.servicesDestroyed = [] ∧ w.removeCalls = [] ∧
  w.createObject = [] ∧ w.createService = [] ∧ w.destroyService = [] ∧ w.destroyObject = [] ∧ w.abortCalls = []

theorem processOne_none_idle {s : St} (h : processOne s = none) : s.w.idle := by
  unfold processOne at h
  repeat' (split at h)
  all_goals (try (simp at h; done))
  exact ⟨‹_›, ‹_›, ‹_›, ‹_›, ‹_›, ‹_›, ‹_›, ‹_›, ‹_›, ‹_›⟩

theorem processOne_of_idle {s : St} (h : s.w.idle) : processOne s = none := by
  obtain ⟨h1, h2, h3, h4, h5, h6, h7, h8, h9, h10⟩ := h
  unfold processOne
  simp [h1, h2, h3, h4, h5, h6, h7, h8, h9, h10]

theorem processLoop_idle : ∀ (fuel : Nat) (s s' : St), processLoop fuel s = .ok s' → s'.w.idle := by
  intro fuel
  induction fuel with
  | zero => intro s s' hr; simp [processLoop] at hr
  | succ k ih =>
    intro s s' hr
    simp only [processLoop] at hr
    split at hr
    · rename_i hnone; simp at hr; exact hr ▸ processOne_none_idle hnone
    · simp at hr
    · exact ih _ _ hr

/-- the work loop has nothing to do on an idle state -/
theorem processLoop_of_idle {s : St} (h : s.w.idle) (fuel : Nat) : processLoop (fuel + 1) s = .ok s := by
  simp [processLoop, processOne_of_idle h]

/-- the invariant at the points where `Broker::run` waits for the next event: nothing is deferred -/
structure XrefIdle (b : Broker) (w : Work) : Prop where
  x : Xref ⟨b, w, []⟩
  i : w.idle

theorem XrefIdle.r {b : Broker} {w : Work} (h : XrefIdle b w) : w.removeCalls = [] := h.i.2.2.2.2.1
theorem XrefIdle.a {b : Broker} {w : Work} (h : XrefIdle b w) : w.abortCalls = [] := h.i.2.2.2.2.2.2.2.2.2

theorem XrefIdle.init : XrefIdle {} {} := by
  refine ⟨?_, ⟨rfl, rfl, rfl, rfl, rfl, rfl, rfl, rfl, rfl, rfl⟩⟩
  unfold Xref XrefP
  constructor
  · intro c t al n bs callee hc; simp [ck, AL.find?] at hc
  · intro bs call hg; simp [SerialMap.get?, AL.find?] at hg
  · intro n c r hm; simp at hm
  · exact List.Pairwise.nil
  · simp [u32Max]

theorem xref_out_irrelevant {sv} {b : Broker} {w : Work} {o o' : List Out} (h : XrefP sv ⟨b, w, o⟩) : XrefP sv ⟨b, w, o'⟩ := h

/-- One turn of `Broker::run`, with room in the call table (fewer than 2³² pending calls). -/
theorem step_xref {b b' : Broker} {w w' : Work} {e : Event} {out : List Out} (hi : XrefIdle b w)
    (hroom : b.calls.elems.length ≤ u32Max) (hr : step b w e = .ok (b', w', out)) : XrefIdle b' w' := by
  unfold step at hr
  split at hr
  · simp at hr
  · rename_i s1 h1
    split at hr
    · simp at hr
    · rename_i s2 h2
      simp only [Except.ok.injEq, Prod.mk.injEq] at hr
      obtain ⟨rfl, rfl, rfl⟩ := hr
      have x1 := handleEvent_xref hi.x hi.r hi.a hroom h1
      have x2 := processLoop_xref _ _ _ x1 h2
      exact ⟨x2, processLoop_idle _ _ _ h2⟩

/-- the states `Broker::run` can be in between two events, as long as the call table never holds 2³² calls
(`SerialMap::insert` of the implementation does not return in that case) -/
inductive Reachable : Broker → Work → Prop
  | init : Reachable {} {}
  | step {b b' : Broker} {w w' : Work} {e : Event} {out : List Out} :
      Reachable b w → b.calls.elems.length ≤ u32Max → step b w e = .ok (b', w', out) → Reachable b' w'

theorem Reachable.idle {b : Broker} {w : Work} (h : Reachable b w) : XrefIdle b w := by
  induction h with
  | init => exact XrefIdle.init
  | step _ hroom hs ih => exact step_xref ih hroom hs

end Aldrin.Broker
