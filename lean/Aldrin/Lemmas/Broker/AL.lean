/-
Association-list / list-set lemmas used by all broker proofs.
-/
import Aldrin.Model.Broker.Types

namespace Aldrin.Broker
namespace AL
variable {K V : Type} [DecidableEq K]

@[simp] theorem find?_nil (k : K) : find? k ([] : List (K × V)) = none := rfl

@[simp] theorem find?_cons (k k' : K) (v : V) (m : List (K × V)) :
    find? k ((k', v) :: m) = if k' = k then some v else find? k m := rfl

theorem find?_insert (k k' : K) (v : V) (m : List (K × V)) :
    find? k (insert k' v m) = if k' = k then some v else find? k m := by
  induction m with
  | nil => simp [insert]
  | cons p m ih =>
    obtain ⟨a, b⟩ := p
    simp only [insert]
    split
    · subst_vars; simp only [find?_cons]; split <;> rfl
    · simp only [find?_cons, ih]
      by_cases h1 : a = k <;> by_cases h2 : k' = k <;> simp_all

@[simp] theorem find?_insert_self (k : K) (v : V) (m : List (K × V)) : find? k (insert k v m) = some v := by
  simp [find?_insert]

theorem find?_insert_ne {k k' : K} (v : V) (m : List (K × V)) (h : k' ≠ k) :
    find? k (insert k' v m) = find? k m := by simp [find?_insert, h]

theorem find?_erase (k k' : K) (m : List (K × V)) :
    find? k (erase k' m) = if k' = k then none else find? k m := by
  induction m with
  | nil => simp [erase]
  | cons p m ih =>
    obtain ⟨a, b⟩ := p
    simp only [erase, List.filter_cons] at *
    by_cases h1 : a = k' <;> by_cases h2 : k' = k <;> simp_all

@[simp] theorem find?_erase_self (k : K) (m : List (K × V)) : find? k (erase k m) = none := by
  simp [find?_erase]

theorem find?_erase_ne {k k' : K} (m : List (K × V)) (h : k' ≠ k) : find? k (erase k' m) = find? k m := by
  simp [find?_erase, h]

theorem find?_some_mem {k : K} {v : V} {m : List (K × V)} (h : find? k m = some v) : (k, v) ∈ m := by
  induction m with
  | nil => simp at h
  | cons p m ih =>
    obtain ⟨a, b⟩ := p
    simp only [find?_cons] at h
    split at h
    · simp_all
    · simp [ih h]

/-- keys are pairwise distinct -/
def NodupKeys (m : List (K × V)) : Prop := (m.map Prod.fst).Nodup

theorem find?_none_iff {k : K} {m : List (K × V)} : find? k m = none ↔ k ∉ m.map Prod.fst := by
  induction m with
  | nil => simp
  | cons p m ih =>
    obtain ⟨a, b⟩ := p
    simp only [find?_cons, List.map_cons, List.mem_cons, not_or]
    split <;> simp_all [eq_comm]

theorem nodupKeys_nil : NodupKeys ([] : List (K × V)) := by simp [NodupKeys]

theorem keys_insert_of_none {k : K} {v : V} {m : List (K × V)} (h : find? k m = none) :
    (insert k v m).map Prod.fst = m.map Prod.fst ++ [k] := by
  induction m with
  | nil => simp [insert]
  | cons p m ih =>
    obtain ⟨a, b⟩ := p
    simp only [find?_cons] at h
    split at h
    · simp at h
    · simp_all [insert]

theorem keys_insert_of_some {k : K} {v v' : V} {m : List (K × V)} (h : find? k m = some v') :
    (insert k v m).map Prod.fst = m.map Prod.fst := by
  induction m with
  | nil => simp at h
  | cons p m ih =>
    obtain ⟨a, b⟩ := p
    simp only [find?_cons] at h
    split at h
    · simp_all [insert]
    · simp_all [insert]

theorem nodupKeys_insert {k : K} {v : V} {m : List (K × V)} (h : NodupKeys m) : NodupKeys (insert k v m) := by
  unfold NodupKeys at *
  cases hf : find? k m with
  | none =>
    rw [keys_insert_of_none hf]
    have := find?_none_iff.mp hf
    simp_all [List.nodup_append]
    intro a x hm h; subst h; exact this x hm
  | some v' => rw [keys_insert_of_some hf]; exact h

theorem nodupKeys_erase {k : K} {m : List (K × V)} (h : NodupKeys m) : NodupKeys (erase k m) := by
  unfold NodupKeys erase at *
  induction m with
  | nil => simp
  | cons p m ih =>
    simp only [List.filter_cons]
    simp only [List.map_cons, List.nodup_cons] at h
    split
    · simp only [List.map_cons, List.nodup_cons]
      refine ⟨?_, ih h.2⟩
      intro hm
      apply h.1
      simp only [List.mem_map] at *
      obtain ⟨x, hx, hx'⟩ := hm
      exact ⟨x, (List.mem_filter.mp hx).1, hx'⟩
    · exact ih h.2

theorem length_insert_of_none {k : K} {v : V} {m : List (K × V)} (h : find? k m = none) :
    (insert k v m).length = m.length + 1 := by
  have := congrArg List.length (keys_insert_of_none (v := v) h); simpa using this

theorem length_insert_of_some {k : K} {v v' : V} {m : List (K × V)} (h : find? k m = some v') :
    (insert k v m).length = m.length := by
  have := congrArg List.length (keys_insert_of_some (v := v) h); simpa using this

theorem length_erase_of_some {k : K} {v : V} {m : List (K × V)} (hn : NodupKeys m) (h : find? k m = some v) :
    (erase k m).length + 1 = m.length := by
  unfold NodupKeys erase at *
  induction m with
  | nil => simp at h
  | cons p m ih =>
    obtain ⟨a, b⟩ := p
    simp only [find?_cons] at h
    simp only [List.map_cons, List.nodup_cons] at hn
    simp only [List.filter_cons]
    split at h
    · subst_vars
      have : List.filter (fun p => decide (p.1 ≠ a)) m = m := by
        apply List.filter_eq_self.mpr
        intro x hx
        simp only [ne_eq, decide_not, Bool.not_eq_eq_eq_not, Bool.not_true, decide_eq_false_iff_not]
        intro hxa
        exact hn.1 (List.mem_map.mpr ⟨x, hx, hxa⟩)
      have h2 : (decide ((a, b).fst ≠ a)) = false := by simp
      rw [h2]
      simp only [Bool.false_eq_true, ↓reduceIte]
      rw [this]; rfl
    · have := ih hn.2 h
      simp_all

theorem length_erase_of_none {k : K} {m : List (K × V)} (h : find? k m = none) : (erase k m) = m := by
  unfold erase
  apply List.filter_eq_self.mpr
  intro x hx
  have := find?_none_iff.mp h
  simp only [ne_eq, decide_not, Bool.not_eq_eq_eq_not, Bool.not_true, decide_eq_false_iff_not]
  intro hxa
  exact this (List.mem_map.mpr ⟨x, hx, hxa⟩)

end AL

theorem mem_sinsert {α : Type} [DecidableEq α] (a b : α) (s : List α) : b ∈ sinsert a s ↔ b = a ∨ b ∈ s := by
  unfold sinsert; split <;> simp_all [or_comm]

theorem mem_sremove {α : Type} [DecidableEq α] (a b : α) (s : List α) : b ∈ sremove a s ↔ b ≠ a ∧ b ∈ s := by
  unfold sremove; simp [and_comm]

theorem nodup_sinsert {α : Type} [DecidableEq α] (a : α) (s : List α) (h : s.Nodup) : (sinsert a s).Nodup := by
  unfold sinsert; split
  · exact h
  · simp_all [List.nodup_append]
    intro b hb h; subst h; contradiction

theorem nodup_sremove {α : Type} [DecidableEq α] (a : α) (s : List α) (h : s.Nodup) : (sremove a s).Nodup := by
  unfold sremove; exact h.filter _

end Aldrin.Broker
