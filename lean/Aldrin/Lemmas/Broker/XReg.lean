/-
The cross-reference invariant of the broker's registry of objects and services, on what it looks at — the map from
object cookies to uuids `ou`, the objects `ob`, the map from service cookies to (object id, service uuid, info) `su`,
the two cookies `sk` of every service entry, and the list of owned objects `ro` of every connection — and its
preservation by the abstract operations the broker performs on them: an object is created (`create_object`), a
service is created (`create_service`), a service is removed (`remove_service`), an object is taken out of the maps
while its services are still to be removed (`remove_object`), a connection is taken out while its objects are still
to be removed (`remove_conn`), a connection arrives (`new_conn`).

`pc = some (id, l)`: connection `id` is gone from the map, the objects in `l` are still to be removed;
`ps = some (oid, l)`: object `oid` is gone from the maps, the services in `l` are still to be removed.
-/
import Aldrin.Lemmas.Broker.AL
import Aldrin.Model.Broker.Parts

set_option linter.unusedSimpArgs false
set_option linter.unusedVariables false
namespace Aldrin.Broker

abbrev OuView := Cookie → Option Uuid
abbrev ObView := Uuid → Option Obj
abbrev SuView := Cookie → Option (ObjId × Uuid × SvcInfo)
abbrev SkView := Uuid × Uuid → Option (Cookie × Cookie)
abbrev RoView := ConnId → Option (List Cookie)

/-- pointwise update of a view -/
def upd {K V : Type} [DecidableEq K] (f : K → Option V) (k : K) (v : Option V) : K → Option V :=
  fun x => if k = x then v else f x

@[simp, grind =] theorem upd_apply {K V : Type} [DecidableEq K] (f : K → Option V) (k : K) (v : Option V) (x : K) :
    upd f k v x = if k = x then v else f x := rfl

structure RegP (pc : Option (ConnId × List Cookie)) (ps : Option (ObjId × List Cookie))
    (ou : OuView) (ob : ObView) (su : SuView) (sk : SkView) (ro : RoView) : Prop where
  /-- a registered object cookie names an object that carries that cookie -/
  i1 : ∀ c u, ou c = some u → ∃ o, ob u = some o ∧ o.cookie = c
  /-- an object's cookie is registered under the object's uuid -/
  i2 : ∀ u o, ob u = some o → ou o.cookie = some u
  /-- the owner of an object is a connection that lists it (or the connection being removed) -/
  i3 : ∀ u o, ob u = some o → (∃ l, ro o.conn = some l ∧ o.cookie ∈ l) ∨ (∃ l, pc = some (o.conn, l) ∧ o.cookie ∈ l)
  /-- what a connection lists is an object it owns -/
  i4 : ∀ id l c, ro id = some l → c ∈ l → ∃ u o, ou c = some u ∧ ob u = some o ∧ o.conn = id
  /-- a registered service cookie names a service entry that carries that cookie and the cookie of its object -/
  i5 : ∀ sc oid svu info, su sc = some (oid, svu, info) → sk (oid.uuid, svu) = some (sc, oid.cookie)
  /-- a service entry's cookie is registered under the entry's key -/
  i6 : ∀ obu svu sc oc, sk (obu, svu) = some (sc, oc) → ∃ info, su sc = some (⟨obu, oc⟩, svu, info)
  /-- the object of a service lives and lists it (or is the object being removed) -/
  i7 : ∀ sc oid svu info, su sc = some (oid, svu, info) →
        (ou oid.cookie = some oid.uuid ∧ ∃ o, ob oid.uuid = some o ∧ sc ∈ o.svcs) ∨ (∃ l, ps = some (oid, l) ∧ sc ∈ l)
  /-- what an object lists is a service of that object -/
  i8 : ∀ u o sc, ob u = some o → sc ∈ o.svcs → ∃ svu info, su sc = some (⟨u, o.cookie⟩, svu, info)

variable {pc : Option (ConnId × List Cookie)} {ps : Option (ObjId × List Cookie)}
  {ou : OuView} {ob : ObView} {su : SuView} {sk : SkView} {ro : RoView}

theorem RegP.init : RegP none none (fun _ => none) (fun _ => none) (fun _ => none) (fun _ => none) (fun _ => none) := by
  constructor <;> simp

/-- no object is left to be removed for the connection that went -/
theorem RegP.pc_done {id : ConnId} (h : RegP (some (id, [])) ps ou ob su sk ro) : RegP none ps ou ob su sk ro := by
  obtain ⟨h1, h2, h3, h4, h5, h6, h7, h8⟩ := h
  refine ⟨h1, h2, ?_, h4, h5, h6, h7, h8⟩
  intro u o ho
  rcases h3 u o ho with h | ⟨l, hl, hm⟩
  · exact Or.inl h
  · simp at hl; obtain ⟨_, rfl⟩ := hl; simp at hm

/-- no service is left to be removed for the object that went -/
theorem RegP.ps_done {oid : ObjId} (h : RegP pc (some (oid, [])) ou ob su sk ro) : RegP pc none ou ob su sk ro := by
  obtain ⟨h1, h2, h3, h4, h5, h6, h7, h8⟩ := h
  refine ⟨h1, h2, h3, h4, h5, h6, ?_, h8⟩
  intro sc oid' svu info hs
  rcases h7 sc oid' svu info hs with h | ⟨l, hl, hm⟩
  · exact Or.inl h
  · simp at hl; obtain ⟨_, rfl⟩ := hl; simp at hm

/-- an object of the connection that went has been dealt with -/
theorem RegP.pc_next {id : ConnId} {c : Cookie} {rest : List Cookie} (h : RegP (some (id, c :: rest)) ps ou ob su sk ro)
    (hc : ou c = none) : RegP (some (id, rest)) ps ou ob su sk ro := by
  obtain ⟨h1, h2, h3, h4, h5, h6, h7, h8⟩ := h
  refine ⟨h1, h2, ?_, h4, h5, h6, h7, h8⟩
  intro u o ho
  rcases h3 u o ho with h | ⟨l, hl, hm⟩
  · exact Or.inl h
  · simp at hl; obtain ⟨h1', rfl⟩ := hl
    refine Or.inr ⟨rest, by simp [h1'], ?_⟩
    rcases List.mem_cons.mp hm with heq | hm
    · have := h2 u o ho; rw [heq, hc] at this; simp at this
    · exact hm

/-- a service of the object that went has been dealt with -/
theorem RegP.ps_next {oid : ObjId} {c : Cookie} {rest : List Cookie} (h : RegP pc (some (oid, c :: rest)) ou ob su sk ro)
    (hc : su c = none) : RegP pc (some (oid, rest)) ou ob su sk ro := by
  obtain ⟨h1, h2, h3, h4, h5, h6, h7, h8⟩ := h
  refine ⟨h1, h2, h3, h4, h5, h6, ?_, h8⟩
  intro sc oid' svu info hs
  rcases h7 sc oid' svu info hs with h | ⟨l, hl, hm⟩
  · exact Or.inl h
  · simp at hl; obtain ⟨h1', rfl⟩ := hl
    refine Or.inr ⟨rest, by simp [h1'], ?_⟩
    rcases List.mem_cons.mp hm with heq | hm
    · rw [heq, hc] at hs; simp at hs
    · exact hm

/-- `NewConnection` -/
theorem RegP.new_conn {id : ConnId} (h : RegP none none ou ob su sk ro) (hn : ro id = none) :
    RegP none none ou ob su sk (upd ro id (some [])) := by
  obtain ⟨h1, h2, h3, h4, h5, h6, h7, h8⟩ := h
  refine ⟨h1, h2, ?_, ?_, h5, h6, h7, h8⟩
  · intro u o ho
    rcases h3 u o ho with ⟨l, hl, hm⟩ | ⟨l, hl, _⟩
    · refine Or.inl ⟨l, ?_, hm⟩
      simp only [upd_apply]; split
      · rename_i heq; subst heq; rw [hn] at hl; simp at hl
      · exact hl
    · simp at hl
  · intro id' l c hl hm
    simp only [upd_apply] at hl
    split at hl
    · simp at hl; subst hl; simp at hm
    · exact h4 id' l c hl hm

/-- `create_object`: a fresh cookie, a uuid nobody has, a connection that is there -/
theorem RegP.create_object {id : ConnId} {uuid : Uuid} {ck : Cookie} {l : List Cookie} (h : RegP none none ou ob su sk ro)
    (hu : ob uuid = none) (hk : ou ck = none) (hr : ro id = some l) :
    RegP none none (upd ou ck (some uuid)) (upd ob uuid (some ⟨id, ck, []⟩)) su sk (upd ro id (some (sinsert ck l))) := by
  obtain ⟨h1, h2, h3, h4, h5, h6, h7, h8⟩ := h
  refine ⟨?_, ?_, ?_, ?_, h5, h6, ?_, ?_⟩
  · intro c u hc
    simp only [upd_apply] at hc ⊢
    split at hc
    · simp at hc; subst hc; rename_i heq; subst heq; simp
    · obtain ⟨o, ho, hoc⟩ := h1 c u hc
      have : uuid ≠ u := by intro he; subst he; rw [hu] at ho; simp at ho
      exact ⟨o, by simp [this, ho], hoc⟩
  · intro u o ho
    simp only [upd_apply] at ho ⊢
    split at ho
    · simp at ho; subst ho; rename_i heq; subst heq; simp
    · have h2' := h2 u o ho
      have : ck ≠ o.cookie := by intro he; rw [← he, hk] at h2'; simp at h2'
      simp [this, h2']
  · intro u o ho
    simp only [upd_apply] at ho ⊢
    split at ho
    · simp at ho; subst ho; simp [mem_sinsert]
    · rcases h3 u o ho with ⟨l', hl', hm⟩ | ⟨l', hl', _⟩
      · left
        by_cases hid : id = o.conn
        · subst hid; rw [hr] at hl'; simp at hl'; subst hl'
          exact ⟨sinsert ck l, by simp, by simp [mem_sinsert, hm]⟩
        · exact ⟨l', by simp [hid, hl'], hm⟩
      · simp at hl'
  · intro id' l' c hl' hm
    simp only [upd_apply] at hl' ⊢
    split at hl'
    · simp at hl'; subst hl'; rename_i heq; subst heq
      rw [mem_sinsert] at hm
      rcases hm with rfl | hm
      · exact ⟨uuid, ⟨id, c, []⟩, by simp, by simp, rfl⟩
      · obtain ⟨u, o, hu', ho, hc⟩ := h4 id l c hr hm
        have n1 : ck ≠ c := by intro he; subst he; rw [hk] at hu'; simp at hu'
        have n2 : uuid ≠ u := by intro he; subst he; rw [hu] at ho; simp at ho
        exact ⟨u, o, by simp [n1, hu'], by simp [n2, ho], hc⟩
    · obtain ⟨u, o, hu', ho, hc⟩ := h4 id' l' c hl' hm
      have n1 : ck ≠ c := by intro he; subst he; rw [hk] at hu'; simp at hu'
      have n2 : uuid ≠ u := by intro he; subst he; rw [hu] at ho; simp at ho
      exact ⟨u, o, by simp [n1, hu'], by simp [n2, ho], hc⟩
  · intro sc oid svu info hs
    rcases h7 sc oid svu info hs with ⟨ha, o, ho, hm⟩ | ⟨l', hl', _⟩
    · left
      have n1 : ck ≠ oid.cookie := by intro he; rw [← he, hk] at ha; simp at ha
      have n2 : uuid ≠ oid.uuid := by intro he; rw [← he, hu] at ho; simp at ho
      exact ⟨by simp [n1, ha], o, by simp [n2, ho], hm⟩
    · simp at hl'
  · intro u o sc ho hm
    simp only [upd_apply] at ho
    split at ho
    · simp at ho; subst ho; simp at hm
    · exact h8 u o sc ho hm

/-- `create_service`: a fresh cookie, an object that is registered, a service uuid the object does not have -/
theorem RegP.create_service {objUuid svu : Uuid} {oc ck : Cookie} {obj : Obj} {info : SvcInfo}
    (h : RegP none none ou ob su sk ro) (ho : ou oc = some objUuid) (hb : ob objUuid = some obj)
    (hn : sk (objUuid, svu) = none) (hk : su ck = none) :
    RegP none none ou (upd ob objUuid (some { obj with svcs := sinsert ck obj.svcs }))
      (upd su ck (some (⟨objUuid, oc⟩, svu, info))) (upd sk (objUuid, svu) (some (ck, oc))) ro := by
  obtain ⟨h1, h2, h3, h4, h5, h6, h7, h8⟩ := h
  have hoc : obj.cookie = oc := by
    obtain ⟨o, ho', hc⟩ := h1 oc objUuid ho
    rw [hb] at ho'; simp at ho'; subst ho'; exact hc
  refine ⟨?_, ?_, ?_, ?_, ?_, ?_, ?_, ?_⟩
  · intro c u hc
    obtain ⟨o, ho', hoc'⟩ := h1 c u hc
    simp only [upd_apply]
    split
    · rename_i heq; subst heq; rw [hb] at ho'; simp at ho'; subst ho'; exact ⟨_, rfl, hoc'⟩
    · exact ⟨o, ho', hoc'⟩
  · intro u o ho'
    simp only [upd_apply] at ho'
    split at ho'
    · simp at ho'; subst ho'; rename_i heq; subst heq; exact h2 objUuid obj hb
    · exact h2 u o ho'
  · intro u o ho'
    simp only [upd_apply] at ho'
    split at ho'
    · simp at ho'; subst ho'; exact h3 objUuid obj hb
    · exact h3 u o ho'
  · intro id l c hl hm
    obtain ⟨u, o, hu', ho', hc⟩ := h4 id l c hl hm
    simp only [upd_apply]
    by_cases he : objUuid = u
    · subst he; rw [hb] at ho'; simp at ho'; subst ho'
      exact ⟨objUuid, { obj with svcs := sinsert ck obj.svcs }, hu', by simp, hc⟩
    · exact ⟨u, o, hu', by simp [he, ho'], hc⟩
  · intro sc oid svu' info' hs
    simp only [upd_apply] at hs ⊢
    split at hs
    · simp at hs; obtain ⟨rfl, rfl, rfl⟩ := hs; rename_i heq; subst heq; simp
    · have h5' := h5 sc oid svu' info' hs
      have : (objUuid, svu) ≠ (oid.uuid, svu') := by
        intro he; rw [← he, hn] at h5'; simp at h5'
      simp [this, h5']
  · intro obu svu' sc oc' hs
    simp only [upd_apply] at hs ⊢
    split at hs
    · simp at hs; obtain ⟨rfl, rfl⟩ := hs; rename_i heq; simp at heq; obtain ⟨rfl, rfl⟩ := heq
      exact ⟨info, by simp⟩
    · obtain ⟨info', hi⟩ := h6 obu svu' sc oc' hs
      have : ck ≠ sc := by intro he; subst he; rw [hk] at hi; simp at hi
      exact ⟨info', by simp [this, hi]⟩
  · intro sc oid svu' info' hs
    simp only [upd_apply] at hs ⊢
    split at hs
    · simp at hs; obtain ⟨rfl, rfl, rfl⟩ := hs; rename_i heq; subst heq
      left; exact ⟨ho, { obj with svcs := sinsert ck obj.svcs }, by simp, by simp [mem_sinsert]⟩
    · rcases h7 sc oid svu' info' hs with ⟨ha, o, ho', hm⟩ | ⟨l', hl', _⟩
      · left
        refine ⟨ha, ?_⟩
        by_cases he : objUuid = oid.uuid
        · rw [← he, hb] at ho'; simp at ho'; subst ho'
          exact ⟨{ obj with svcs := sinsert ck obj.svcs }, by simp [he], by simp [mem_sinsert, hm]⟩
        · exact ⟨o, by simp [he, ho'], hm⟩
      · simp at hl'
  · intro u o sc ho' hm
    simp only [upd_apply] at ho' ⊢
    split at ho'
    · simp at ho'; subst ho'; rename_i heq; subst heq
      simp only [mem_sinsert] at hm
      rcases hm with rfl | hm
      · exact ⟨svu, info, by simp [hoc]⟩
      · obtain ⟨svu', info', hs⟩ := h8 _ _ sc hb hm
        have : ck ≠ sc := by intro he; subst he; rw [hk] at hs; simp at hs
        exact ⟨svu', info', by simp [this, hs]⟩
    · obtain ⟨svu', info', hs⟩ := h8 u o sc ho' hm
      have : ck ≠ sc := by intro he; subst he; rw [hk] at hs; simp at hs
      exact ⟨svu', info', by simp [this, hs]⟩

/-- what `remove_service` does to the object of the service, if it is still there -/
def obDropSvc (ob : ObView) (u : Uuid) (sc : Cookie) : ObView :=
  match ob u with
  | some o => upd ob u (some { o with svcs := sremove sc o.svcs })
  | none => ob

theorem obDropSvc_apply (ob : ObView) (u : Uuid) (sc : Cookie) (x : Uuid) :
    obDropSvc ob u sc x = if u = x then (ob u).map (fun o => { o with svcs := sremove sc o.svcs }) else ob x := by
  unfold obDropSvc
  cases h : ob u with
  | none => by_cases hx : u = x <;> simp [hx, h]; subst hx; exact h
  | some o => simp [h]

/-- `remove_service` -/
theorem RegP.remove_service {sc : Cookie} {oid : ObjId} {svu : Uuid} {info : SvcInfo}
    (h : RegP pc ps ou ob su sk ro) (hs : su sc = some (oid, svu, info)) :
    RegP pc ps ou (obDropSvc ob oid.uuid sc) (upd su sc none) (upd sk (oid.uuid, svu) none) ro := by
  obtain ⟨h1, h2, h3, h4, h5, h6, h7, h8⟩ := h
  have obs : ∀ u o', obDropSvc ob oid.uuid sc u = some o' → ∃ o, ob u = some o ∧ o'.conn = o.conn ∧ o'.cookie = o.cookie ∧
      (∀ x, x ∈ o'.svcs → x ∈ o.svcs ∧ (u = oid.uuid → x ≠ sc)) ∧ (∀ x, x ∈ o.svcs → x ≠ sc → x ∈ o'.svcs) := by
    intro u o' ho'
    rw [obDropSvc_apply] at ho'
    split at ho'
    · rename_i heq; subst heq
      cases hb : ob oid.uuid with
      | none => rw [hb] at ho'; simp at ho'
      | some o =>
        rw [hb] at ho'; simp at ho'; subst ho'
        exact ⟨o, rfl, rfl, rfl, fun x hx => by rw [mem_sremove] at hx; exact ⟨hx.2, fun _ => hx.1⟩, fun x hx hne => by rw [mem_sremove]; exact ⟨hne, hx⟩⟩
    · rename_i hne
      exact ⟨o', ho', rfl, rfl, fun x hx => ⟨hx, fun he => absurd he.symm hne⟩, fun x hx _ => hx⟩
  have obs' : ∀ u o, ob u = some o → ∃ o', obDropSvc ob oid.uuid sc u = some o' ∧ o'.conn = o.conn ∧ o'.cookie = o.cookie ∧
      (∀ x, x ∈ o.svcs → x ≠ sc → x ∈ o'.svcs) := by
    intro u o ho
    rw [obDropSvc_apply]
    split
    · rename_i heq; subst heq; rw [ho]
      exact ⟨_, rfl, rfl, rfl, fun x hx hne => by rw [mem_sremove]; exact ⟨hne, hx⟩⟩
    · exact ⟨o, ho, rfl, rfl, fun x hx _ => hx⟩
  refine ⟨?_, ?_, ?_, ?_, ?_, ?_, ?_, ?_⟩
  · intro c u hc
    obtain ⟨o, ho, hoc⟩ := h1 c u hc
    obtain ⟨o', ho', _, hc', _⟩ := obs' u o ho
    exact ⟨o', ho', hc'.trans hoc⟩
  · intro u o' ho'
    obtain ⟨o, ho, _, hc, _⟩ := obs u o' ho'
    rw [hc]; exact h2 u o ho
  · intro u o' ho'
    obtain ⟨o, ho, hcn, hc, _⟩ := obs u o' ho'
    rw [hcn, hc]; exact h3 u o ho
  · intro id l c hl hm
    obtain ⟨u, o, hu, ho, hc⟩ := h4 id l c hl hm
    obtain ⟨o', ho', hcn, _, _⟩ := obs' u o ho
    exact ⟨u, o', hu, ho', hcn.trans hc⟩
  · intro sc' oid' svu' info' hs'
    simp only [upd_apply] at hs' ⊢
    split at hs'
    · simp at hs'
    · rename_i hne
      have h5' := h5 sc' oid' svu' info' hs'
      have : (oid.uuid, svu) ≠ (oid'.uuid, svu') := by
        intro he
        have := h5 sc oid svu info hs
        rw [he, h5'] at this; simp at this; exact hne this.1.symm
      simp [this, h5']
  · intro obu svu' sc' oc' hk
    simp only [upd_apply] at hk ⊢
    split at hk
    · simp at hk
    · rename_i hne
      obtain ⟨info', hi⟩ := h6 obu svu' sc' oc' hk
      have : sc ≠ sc' := by
        intro he; subst he; rw [hs] at hi; simp at hi
        obtain ⟨rfl, rfl, _⟩ := hi; exact hne rfl
      exact ⟨info', by simp [this, hi]⟩
  · intro sc' oid' svu' info' hs'
    simp only [upd_apply] at hs'
    split at hs'
    · simp at hs'
    · rename_i hne
      rcases h7 sc' oid' svu' info' hs' with ⟨ha, o, ho, hm⟩ | hp
      · left
        obtain ⟨o', ho', _, _, hsv⟩ := obs' oid'.uuid o ho
        exact ⟨ha, o', ho', hsv sc' hm (Ne.symm hne)⟩
      · exact Or.inr hp
  · intro u o' sc' ho' hm
    obtain ⟨o, ho, _, hc, hsv, _⟩ := obs u o' ho'
    obtain ⟨hm', hne⟩ := hsv sc' hm
    obtain ⟨svu', info', hs'⟩ := h8 u o sc' ho hm'
    have : sc ≠ sc' := by
      intro he; subst he
      rw [hs] at hs'; simp at hs'
      exact hne (by rw [hs'.1]) rfl
    exact ⟨svu', info', by simp [this, hc, hs']⟩

/-- what `remove_object` does to the owner's list of objects, if the owner is still there -/
def roDropObj (ro : RoView) (id : ConnId) (c : Cookie) : RoView :=
  match ro id with
  | some l => upd ro id (some (sremove c l))
  | none => ro

theorem roDropObj_apply (ro : RoView) (id : ConnId) (c : Cookie) (x : ConnId) :
    roDropObj ro id c x = if id = x then (ro id).map (fun l => sremove c l) else ro x := by
  unfold roDropObj
  cases h : ro id with
  | none => by_cases hx : id = x <;> simp [hx, h]; subst hx; exact h
  | some o => simp [h]

/-- `remove_object`, up to the point where its services are removed one by one -/
theorem RegP.remove_object {c : Cookie} {u : Uuid} {obj : Obj}
    (h : RegP pc none ou ob su sk ro) (hc : ou c = some u) (hb : ob u = some obj) :
    RegP pc (some (⟨u, c⟩, obj.svcs)) (upd ou c none) (upd ob u none) su sk (roDropObj ro obj.conn c) := by
  obtain ⟨h1, h2, h3, h4, h5, h6, h7, h8⟩ := h
  have hoc : obj.cookie = c := by
    obtain ⟨o, ho', hc'⟩ := h1 c u hc
    rw [hb] at ho'; simp at ho'; subst ho'; exact hc'
  refine ⟨?_, ?_, ?_, ?_, h5, h6, ?_, ?_⟩
  · intro c' u' hc'
    simp only [upd_apply] at hc' ⊢
    split at hc'
    · simp at hc'
    · rename_i hne
      obtain ⟨o, ho, hoc'⟩ := h1 c' u' hc'
      have : u ≠ u' := by
        intro he; subst he; rw [hb] at ho; simp at ho; subst ho; exact hne (hoc.symm.trans hoc')
      exact ⟨o, by simp [this, ho], hoc'⟩
  · intro u' o ho
    simp only [upd_apply] at ho ⊢
    split at ho
    · simp at ho
    · rename_i hne
      have h2' := h2 u' o ho
      have : c ≠ o.cookie := by
        intro he; rw [← he, hc] at h2'; simp at h2'; exact hne h2'
      simp [this, h2']
  · intro u' o ho
    simp only [upd_apply] at ho
    split at ho
    · simp at ho
    · rename_i hne
      have hck : c ≠ o.cookie := by
        intro he; have := h2 u' o ho; rw [← he, hc] at this; simp at this; exact hne this
      rcases h3 u' o ho with ⟨l, hl, hm⟩ | hp
      · left
        rw [roDropObj_apply]
        split
        · rename_i heq; rw [heq, hl]; exact ⟨_, rfl, by simp [mem_sremove, hm, Ne.symm hck]⟩
        · exact ⟨l, hl, hm⟩
      · exact Or.inr hp
  · intro id l c' hl hm
    rw [roDropObj_apply] at hl
    have : ∃ l0, ro id = some l0 ∧ c' ∈ l0 ∧ (id = obj.conn → c' ≠ c) := by
      split at hl
      · rename_i heq; subst heq
        cases hr : ro obj.conn with
        | none => rw [hr] at hl; simp at hl
        | some l0 =>
          rw [hr] at hl; simp at hl; subst hl
          rw [mem_sremove] at hm
          exact ⟨l0, rfl, hm.2, fun _ => hm.1⟩
      · rename_i hne; exact ⟨l, hl, hm, fun he => absurd he.symm hne⟩
    obtain ⟨l0, hl0, hm0, hne0⟩ := this
    obtain ⟨u', o, hu', ho, hcn⟩ := h4 id l0 c' hl0 hm0
    have n1 : c ≠ c' := by
      intro he; subst he
      rw [hc] at hu'; simp at hu'; subst hu'
      rw [hb] at ho; simp at ho; subst ho
      exact hne0 hcn.symm rfl
    have n2 : u ≠ u' := by
      intro he; subst he; rw [hb] at ho; simp at ho; subst ho
      exact n1 (by
        obtain ⟨o2, ho2, hc2⟩ := h1 c' u hu'
        rw [hb] at ho2; simp at ho2; subst ho2; exact hoc.symm.trans hc2)
    exact ⟨u', o, by simp [n1, hu'], by simp [n2, ho], hcn⟩
  · intro sc oid svu info hs
    rcases h7 sc oid svu info hs with ⟨ha, o, ho, hm⟩ | ⟨l, hl, _⟩
    · by_cases he : oid.uuid = u
      · right
        rw [he, hb] at ho; simp at ho; subst ho
        have : oid.cookie = c := by
          obtain ⟨o2, ho2, hc2⟩ := h1 oid.cookie oid.uuid ha
          rw [he, hb] at ho2; simp at ho2; subst ho2; exact hc2.symm.trans hoc
        refine ⟨obj.svcs, ?_, hm⟩
        cases oid; simp at he this; simp [he, this]
      · left
        have n1 : c ≠ oid.cookie := by
          intro hcc; rw [← hcc, hc] at ha; simp at ha; exact he ha.symm
        exact ⟨by simp [n1, ha], o, by simp [Ne.symm he, ho], hm⟩
    · simp at hl
  · intro u' o sc ho hm
    simp only [upd_apply] at ho
    split at ho
    · simp at ho
    · exact h8 u' o sc ho hm

/-- the connection is taken out of the map; the objects it lists are still to be removed -/
theorem RegP.remove_conn {id : ConnId} {l : List Cookie} (h : RegP none none ou ob su sk ro) (hr : ro id = some l) :
    RegP (some (id, l)) none ou ob su sk (upd ro id none) := by
  obtain ⟨h1, h2, h3, h4, h5, h6, h7, h8⟩ := h
  refine ⟨h1, h2, ?_, ?_, h5, h6, h7, h8⟩
  · intro u o ho
    rcases h3 u o ho with ⟨l', hl', hm⟩ | ⟨l', hl', _⟩
    · by_cases he : id = o.conn
      · right; subst he; rw [hr] at hl'; simp at hl'; subst hl'; exact ⟨l, rfl, hm⟩
      · left; exact ⟨l', by simp [he, hl'], hm⟩
    · simp at hl'
  · intro id' l' c hl' hm
    simp only [upd_apply] at hl'
    split at hl'
    · simp at hl'
    · exact h4 id' l' c hl' hm

end Aldrin.Broker
