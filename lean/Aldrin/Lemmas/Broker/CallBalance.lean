/-
The balance of calls and replies of one connection `c` and one caller serial `n` through every function of the broker
model: `replies to c with serial n put into its queue + (1 if a call (c, n) is pending in c's table)` changes only when
the broker takes a call `(c, n)`, as long as `c` is there with its task running (`BalK`). No invariant is needed: the
law holds from any state, for every handler, clean-up function and step of the work loop, hence for every history
(`run_bal`). `taken_eq_callReqs`: for a caller that keeps to the protocol every call request is taken.
-/
import Aldrin.Lemmas.Broker.CallOut
import Aldrin.Lemmas.Broker.Answers
import Aldrin.Lemmas.Broker.CallConn

set_option linter.unusedSimpArgs false
set_option linter.unusedVariables false
namespace Aldrin.Broker
open Generated

/-- a reply to connection `c` for its call with serial `n` -/
def isRep (c : ConnId) (n : Nat) (o : Out) : Bool :=
  o.to == c && (match o.msg with | .callFunctionReply m _ => m == n | _ => false)

/-- how many of them -/
def reps (c : ConnId) (n : Nat) (l : List Out) : Nat := (l.filter (isRep c n)).length

@[simp] theorem reps_nil (c n) : reps c n [] = 0 := rfl
@[simp] theorem reps_append (c n) (a b : List Out) : reps c n (a ++ b) = reps c n a + reps c n b := by simp [reps]
@[simp] theorem reps_single (c n) (o : Out) : reps c n [o] = if isRep c n o then 1 else 0 := by
  cases h : isRep c n o <;> simp [reps, h]

theorem isRep_isR {c n} {o : Out} (h : isRep c n o = true) : isR o.msg = true := by
  unfold isRep at h
  cases hm : o.msg <;> simp_all [isR]

theorem reps_rf (c n) (l : List Out) : reps c n (rf l) = reps c n l := by
  unfold reps rf
  rw [List.filter_filter]
  congr 1
  apply List.filter_congr
  intro o _
  cases h : isRep c n o
  · simp
  · simp [isRep_isR h]

theorem reps_of_sameR {c n} {s s' : St} (h : SameR s s') : reps c n s'.out = reps c n s.out := by
  rw [← reps_rf, h, reps_rf]

/-- whether serial `n` is in a table of pending calls -/
def pendC (t : CallTbl) (n : Nat) : Nat := if (AL.find? n t).isSome then 1 else 0

/-- for connection `c` and serial `n`: if `c` is there afterwards and its task still runs, it was there before, and
`replies sent + (1 if pending)` grew by `k` -/
def BalK (c : ConnId) (n k : Nat) (s s' : St) : Prop :=
  ∀ t', ck s' c = some (t', true) →
    ∃ t, ck s c = some (t, true) ∧ reps c n s'.out + pendC t' n = reps c n s.out + pendC t n + k

theorem BalK.refl (c n : Nat) (s : St) : BalK c n 0 s s := fun t' h => ⟨t', h, rfl⟩

theorem BalK.trans {c n k1 k2 : Nat} {a b d : St} (h1 : BalK c n k1 a b) (h2 : BalK c n k2 b d) : BalK c n (k1 + k2) a d := by
  intro t' h
  obtain ⟨t1, e1, q1⟩ := h2 t' h
  obtain ⟨t0, e0, q0⟩ := h1 t1 e1
  exact ⟨t0, e0, by omega⟩

theorem BalK.trans0 {c n k : Nat} {a b d : St} (h1 : BalK c n k a b) (h2 : BalK c n 0 b d) : BalK c n k a d := by
  simpa using BalK.trans h1 h2

theorem BalK.trans0' {c n k : Nat} {a b d : St} (h1 : BalK c n 0 a b) (h2 : BalK c n k b d) : BalK c n k a d := by
  simpa using BalK.trans h1 h2

theorem BalK.of_keep {c n : Nat} {s s' : St} (h1 : CkLe s s') (h2 : SameR s s') : BalK c n 0 s s' := by
  intro t' h
  exact ⟨t', h1 _ _ h, by rw [reps_of_sameR h2]; omega⟩

theorem pendC_erase_ne {t : CallTbl} {m n : Nat} (h : m ≠ n) : pendC (AL.erase m t) n = pendC t n := by
  unfold pendC; rw [AL.find?_erase]; simp [h]

theorem pendC_erase_self {t : CallTbl} {n : Nat} : pendC (AL.erase n t) n = 0 := by
  unfold pendC; rw [AL.find?_erase]; simp

theorem find?_append_single {K V : Type} [DecidableEq K] (k k' : K) (v : V) (l : List (K × V)) :
    AL.find? k (l ++ [(k', v)]) = match AL.find? k l with | some x => some x | none => if k' = k then some v else none := by
  induction l with
  | nil => simp [AL.find?]
  | cons a l ih =>
    obtain ⟨ka, va⟩ := a
    simp only [List.cons_append, AL.find?]
    split
    · rfl
    · exact ih

theorem pendC_append_ne {t : CallTbl} {m n : Nat} {v} (h : m ≠ n) : pendC (t ++ [(m, v)]) n = pendC t n := by
  unfold pendC; rw [find?_append_single]
  cases AL.find? n t <;> simp [h]

theorem pendC_append_self {t : CallTbl} {n : Nat} {v} (h : AL.find? n t = none) : pendC (t ++ [(n, v)]) n = 1 := by
  unfold pendC; rw [find?_append_single]; simp [h]

theorem pendC_some {t : CallTbl} {n : Nat} {v} (h : AL.find? n t = some v) : pendC t n = 1 := by simp [pendC, h]
theorem pendC_none {t : CallTbl} {n : Nat} (h : AL.find? n t = none) : pendC t n = 0 := by simp [pendC, h]

@[simp] theorem isRep_mk (c n to m : Nat) (r : CallResult) (v : Option Nat) :
    isRep c n ⟨to, .callFunctionReply m r, v⟩ = (to == c && m == n) := rfl

theorem ck_alive {s : St} {c : ConnId} {t : CallTbl} {a : Bool} (h : ck s c = some (t, a)) : aliveB s c = a := by
  unfold ck at h; unfold aliveB
  split at h <;> simp_all

theorem ck_of_conn {s : St} {c : ConnId} {conn : Conn} (h : AL.find? c s.b.conns = some conn) : ck s c = some (conn.calls, conn.alive) := by
  simp [ck, h]

/-- the pattern of `call_function_reply`, `abort_call` and `remove_function_call`: the entry goes, the reply is sent -/
theorem erase_reply_bal {c n : Nat} {s : St} {caller : ConnId} {conn : Conn} {m : Nat} {r : CallResult} {v : Option Nat}
    (hc : AL.find? caller s.b.conns = some conn) (hm : AL.find? m conn.calls ≠ none) :
    BalK c n 0 s ((s.setConn caller { conn with calls := AL.erase m conn.calls }).sendOrRemove caller (.callFunctionReply m r) v) := by
  intro t' h
  simp only [ck_sendOrRemove, ck_setConn] at h
  split at h
  · rename_i heq; subst heq
    simp only [Option.some.injEq, Prod.mk.injEq] at h
    obtain ⟨h1, h2⟩ := h
    refine ⟨conn.calls, by rw [ck_of_conn hc, h2], ?_⟩
    have hal : aliveB (s.setConn caller { conn with calls := AL.erase m conn.calls }) caller = true := by simp [h2]
    simp only [sendOrRemove_out_eq, send_snd_alive, hal, ↓reduceIte, St.setConn_out, reps_append, reps_single, isRep_mk, beq_self_eq_true, Bool.true_and]
    subst h1
    by_cases hmn : m = n
    · subst hmn
      have : pendC conn.calls m = 1 := by
        unfold pendC; cases hf : AL.find? m conn.calls <;> simp_all
      simp [pendC_erase_self, this]
    · simp [hmn, pendC_erase_ne hmn]
  · rename_i hne
    refine ⟨t', h, ?_⟩
    simp only [sendOrRemove_out_eq, St.setConn_out]
    split
    · simp [reps_append, reps_single, isRep_mk, hne]
    · rfl

/-- the pattern of `call_function_impl`: a new entry -/
theorem add_call_bal {c n : Nat} {s : St} {id : ConnId} {conn : Conn} {m : Nat} {x : Nat × ConnId}
    (hc : AL.find? id s.b.conns = some conn) (hm : AL.find? m conn.calls = none) :
    BalK c n (if id = c ∧ m = n then 1 else 0) s (s.setConn id { conn with calls := conn.calls ++ [(m, x)] }) := by
  intro t' h
  simp only [ck_setConn] at h
  split at h
  · rename_i heq; subst heq
    simp only [Option.some.injEq, Prod.mk.injEq] at h
    obtain ⟨h1, h2⟩ := h
    refine ⟨conn.calls, by rw [ck_of_conn hc, h2], ?_⟩
    subst h1
    simp only [St.setConn_out, true_and]
    by_cases hmn : m = n
    · subst hmn; simp [pendC_append_self hm, pendC_none hm]
    · simp [hmn, pendC_append_ne hmn]
  · rename_i hne
    exact ⟨t', h, by simp [hne]⟩

/-- an immediate reply -/
theorem send_reply_bal {c n : Nat} {s : St} {id : ConnId} {m : Nat} {r : CallResult} {v : Option Nat} :
    BalK c n (if id = c ∧ m = n then 1 else 0) s (s.send id (.callFunctionReply m r) v).1 := by
  intro t' h
  simp only [ck_send] at h
  refine ⟨t', h, ?_⟩
  have hal := ck_alive h
  simp only [send_out_eq, send_snd_alive]
  by_cases hid : id = c
  · subst hid; simp [hal, reps_append, reps_single, isRep_mk]
    by_cases hmn : m = n <;> simp [hmn] <;> omega
  · split <;> simp [reps_append, reps_single, isRep_mk, hid]

/-- a message that is no call reply -/
theorem sendOrRemove_bal {c n : Nat} {s : St} {to : ConnId} {m : Rsp} {v : Option Nat} (hm : isR m = false) :
    BalK c n 0 s (s.sendOrRemove to m v) :=
  BalK.of_keep (CkLe.of_conns (by simp)) (by simp only [SameR, sendOrRemove_out_eq]; split <;> simp [hm])

theorem callFunctionReply_bal {c n : Nat} {s s' : St} {id serial r} {ok : Bool} :
    callFunctionReply s id serial r = .ok (s', ok) → BalK c n 0 s s' := by
  intro h; unfold callFunctionReply at h
  repeat' ((try simp only [] at h); split at h)
  all_goals (try (simp only [okH, errH, Except.ok.injEq, Prod.mk.injEq, reduceCtorEq] at h))
  all_goals (try (exact h.elim))
  all_goals (try (obtain ⟨h1, h2⟩ := h; subst h1; subst h2))
  all_goals (try (exact BalK.refl _ _ _))
  all_goals (try (refine BalK.of_keep (CkLe.of_conns ?_) ?_ <;> (simp [SameR]; done)))
  rename_i hcaller hfind
  refine BalK.trans0' (b := (s.setCalls _).setSvcs _) (BalK.of_keep (CkLe.of_conns ?_) ?_) (erase_reply_bal ?_ ?_)
  · simp
  · simp [SameR]
  · simpa using hcaller
  · simpa using hfind

theorem abortCall_bal {c n : Nat} {s s' : St} {serial cid} : abortCall s serial cid = .ok s' → BalK c n 0 s s' := by
  intro h; unfold abortCall at h
  split at h
  · simp at h; exact h ▸ BalK.refl _ _ _
  · split at h
    · simp at h; exact h ▸ BalK.refl _ _ _
    · simp only [] at h
      have e1 : ∀ s1 : St, BalK c n 0 s1 (match s1.conn? cid with
          | some c => if c.version ≥ Generated.abortMinCallee then s1.sendOrRemove cid (.abortFunctionCall serial) else s1
          | none => s1) := by
        intro s1; split
        · split
          · exact sendOrRemove_bal rfl
          · exact BalK.refl _ _ _
        · exact BalK.refl _ _ _
      generalize hs1 : s.setCalls _ = s1 at h
      have a1 : BalK c n 0 s s1 := hs1 ▸ BalK.of_keep (CkLe.of_conns rfl) (by simp [SameR])
      split at h
      · simp only [Except.ok.injEq] at h; subst h
        exact BalK.trans0 a1 (e1 s1)
      · split at h
        · simp at h
        · rename_i caller hcaller hfind
          simp only [Except.ok.injEq] at h; subst h
          refine BalK.trans0 (BalK.trans0 a1 (e1 s1)) (erase_reply_bal ?_ ?_)
          · exact hcaller
          · simpa using hfind

/-- connection `c` has no pending call with serial `n` -/
def serialFree (s : St) (c n : Nat) : Bool :=
  match AL.find? c s.b.conns with
  | some conn => (AL.find? n conn.calls).isNone
  | none => true

/-- what `call_function_impl` adds to the balance of connection `c` and serial `n`: the call is taken unless the
serial is in use for a live service (then the caller is in breach and the connection is closed) -/
def takesImpl (s : St) (id : ConnId) (serial : Nat) (svc : Cookie) (c n : Nat) : Nat :=
  if id = c ∧ serial = n ∧ ((AL.find? svc s.b.svcUuids).isNone || serialFree s c n) = true then 1 else 0

theorem callFunctionImpl_bal {c n : Nat} {s s' : St} {id serial svc f v p} {ok : Bool} :
    callFunctionImpl s id serial svc f v p = .ok (s', ok) → BalK c n (takesImpl s id serial svc c n) s s' := by
  intro h; unfold callFunctionImpl at h
  split at h
  · rename_i hnone
    simp only [okH, Except.ok.injEq, Prod.mk.injEq] at h; obtain ⟨rfl, _⟩ := h
    unfold takesImpl; split
    · rename_i hh; obtain ⟨rfl, _⟩ := hh
      intro t' ht
      simp only [St.conn?] at hnone; simp [ck, hnone] at ht
    · exact BalK.refl _ _ _
  · rename_i conn hconn
    simp only [St.conn?] at hconn
    simp only [] at h
    split at h
    · rename_i hsv
      simp only [Except.ok.injEq] at h
      have h' := congrArg Prod.fst h; simp only at h'; subst h'
      have : takesImpl s id serial svc c n = if id = c ∧ serial = n then 1 else 0 := by simp [takesImpl, hsv]
      rw [this]; exact send_reply_bal
    · rename_i objId svcUuid info hsv
      (try simp only [] at h)
      split at h
      · simp at h
      · rename_i obj hobj
        (try simp only [] at h)
        split at h
        · rename_i hdup
          simp only [errH, Except.ok.injEq, Prod.mk.injEq] at h; obtain ⟨rfl, _⟩ := h
          have : takesImpl s id serial svc c n = 0 := by
            unfold takesImpl; split
            · rename_i hh; obtain ⟨rfl, rfl, h3⟩ := hh
              simp [hsv, serialFree, hconn] at h3
              rw [h3] at hdup; simp at hdup
            · rfl
          rw [this]
          exact BalK.of_keep (CkLe.of_conns rfl) (by simp [SameR])
        · rename_i hdup
          have hfree : AL.find? serial conn.calls = none := by
            cases hf : AL.find? serial conn.calls <;> simp_all
          (try simp only [] at h)
          split at h
          · simp at h
          · rename_i callee hcallee
            split at h
            · simp at h
            · rename_i svcE hsvc
              simp only [okH, Except.ok.injEq, Prod.mk.injEq] at h; obtain ⟨rfl, _⟩ := h
              have : takesImpl s id serial svc c n = if id = c ∧ serial = n then 1 else 0 := by
                unfold takesImpl
                by_cases hh : id = c ∧ serial = n
                · obtain ⟨rfl, rfl⟩ := hh; simp [serialFree, hconn, hfree]
                · have : ¬ (id = c ∧ serial = n ∧ ((AL.find? svc s.b.svcUuids).isNone || serialFree s c n) = true) := fun x => hh ⟨x.1, x.2.1⟩
                  rw [if_neg this, if_neg hh]
              rw [this]
              refine BalK.trans0 (BalK.trans0 (BalK.trans0' (b := s.setCalls _) (BalK.of_keep (CkLe.of_conns rfl) (by simp [SameR])) (add_call_bal ?_ hfree)) (BalK.of_keep (CkLe.of_conns rfl) (by simp [SameR]))) (sendOrRemove_bal ?_)
              · simpa using hconn
              · split <;> rfl

theorem callFunction2_bal {c n : Nat} {s s' : St} {id serial svc f v p} {ok : Bool} :
    callFunction2 s id serial svc f v p = .ok (s', ok) →
      BalK c n (match AL.find? id s.b.conns with
        | some conn => if conn.version < gateCallFunction2 then 0 else takesImpl s id serial svc c n
        | none => 0) s s' := by
  intro h; unfold callFunction2 at h
  split at h
  · rename_i hnone
    simp only [St.conn?] at hnone
    simp only [okH, Except.ok.injEq, Prod.mk.injEq] at h; obtain ⟨rfl, _⟩ := h
    simp only [hnone]; exact BalK.refl _ _ _
  · rename_i conn hconn
    simp only [St.conn?] at hconn
    simp only [hconn]
    split at h
    · rename_i hv
      simp only [errH, Except.ok.injEq, Prod.mk.injEq] at h; obtain ⟨rfl, _⟩ := h
      rw [if_pos hv]; exact BalK.refl _ _ _
    · rename_i hv; rw [if_neg hv]; exact callFunctionImpl_bal h

/-- what an event adds to the balance of connection `c` and serial `n`: 1 for a call request of `c` with serial `n`
that the broker takes (see `takesImpl`; a `CallFunction2` from a connection below its minimum version is refused) -/
def takes (s : St) (c n : Nat) : Event → Nat
  | .msg id (.callFunction serial svc _ _) => takesImpl s id serial svc c n
  | .msg id (.callFunction2 serial svc _ _ _) =>
    match AL.find? id s.b.conns with
    | some conn => if conn.version < gateCallFunction2 then 0 else takesImpl s id serial svc c n
    | none => 0
  | _ => 0

theorem handleMessage_bal {c n : Nat} {s s' : St} {id : ConnId} {m : Req} {ok : Bool}
    (hr : handleMessage s id m = .ok (s', ok)) : BalK c n (takes s c n (.msg id m)) s s' := by
  cases m <;> simp only [handleMessage] at hr <;> simp only [takes]
  case callFunction => exact callFunctionImpl_bal hr
  case callFunction2 => exact callFunction2_bal hr
  case callFunctionReply => exact callFunctionReply_bal hr
  case createObject => exact BalK.of_keep (createObject_ck hr) (createObject_r hr)
  case destroyObject => exact BalK.of_keep (destroyObject_ck hr) (destroyObject_r hr)
  case createService => exact BalK.of_keep (createService_ck hr) (createService_r hr)
  case createService2 => exact BalK.of_keep (createService2_ck hr) (createService2_r hr)
  case destroyService => exact BalK.of_keep (destroyService_ck hr) (destroyService_r hr)
  case abortFunctionCall => exact BalK.of_keep (abortFunctionCall_ck hr) (abortFunctionCall_r hr)
  case subscribeEvent serial _ _ => exact BalK.of_keep (subscribeEvent_ck hr) (subscribeEvent_r hr)
  case unsubscribeEvent => exact BalK.of_keep (unsubscribeEvent_ck hr) (unsubscribeEvent_r hr)
  case emitEvent => exact BalK.of_keep (emitEvent_ck hr) (emitEvent_r hr)
  case queryServiceVersion => exact BalK.of_keep (queryServiceVersion_ck hr) (queryServiceVersion_r hr)
  case queryServiceInfo => exact BalK.of_keep (queryServiceInfo_ck hr) (queryServiceInfo_r hr)
  case subscribeService => exact BalK.of_keep (subscribeService_ck hr) (subscribeService_r hr)
  case unsubscribeService => exact BalK.of_keep (unsubscribeService_ck hr) (unsubscribeService_r hr)
  case subscribeAllEvents serial _ => exact BalK.of_keep (subscribeAllEvents_ck hr) (subscribeAllEvents_r hr)
  case unsubscribeAllEvents serial _ => exact BalK.of_keep (unsubscribeAllEvents_ck hr) (unsubscribeAllEvents_r hr)
  case createChannel => exact BalK.of_keep (createChannel_ck hr) (createChannel_r hr)
  case closeChannelEnd => exact BalK.of_keep (closeChannelEnd_ck hr) (closeChannelEnd_r hr)
  case claimChannelEnd => exact BalK.of_keep (claimChannelEnd_ck hr) (claimChannelEnd_r hr)
  case sendItem => exact BalK.of_keep (sendItem_ck hr) (sendItem_r hr)
  case addChannelCapacity => exact BalK.of_keep (addChannelCapacity_ck hr) (addChannelCapacity_r hr)
  case sync => exact BalK.of_keep (sync_ck hr) (sync_r hr)
  case createBusListener => exact BalK.of_keep (createBusListener_ck hr) (createBusListener_r hr)
  case destroyBusListener => exact BalK.of_keep (destroyBusListener_ck hr) (destroyBusListener_r hr)
  case addFilter f => exact BalK.of_keep (updListener_ck hr) (updListener_r hr)
  case removeFilter f => exact BalK.of_keep (updListener_ck hr) (updListener_r hr)
  case clearFilters => exact BalK.of_keep (updListener_ck hr) (updListener_r hr)
  case startBusListener => exact BalK.of_keep (startBusListener_ck hr) (startBusListener_r hr)
  case stopBusListener => exact BalK.of_keep (stopBusListener_ck hr) (stopBusListener_r hr)
  case registerIntrospection => exact BalK.of_keep (registerIntrospection_ck hr) (registerIntrospection_r hr)
  case queryIntrospection => exact BalK.of_keep (queryIntrospection_ck hr) (queryIntrospection_r hr)
  case queryIntrospectionReply => exact BalK.of_keep (queryIntrospectionReply_ck hr) (queryIntrospectionReply_r hr)
  case other => simp [errH] at hr; exact hr.1 ▸ BalK.refl _ _ _

theorem shutdownConnection_bal {c n : Nat} {s s' : St} {id b} (hr : shutdownConnection s id b = .ok s') : BalK c n 0 s s' :=
  BalK.of_keep (shutdownConnection_ck hr) (shutdownConnection_r hr)

theorem emitBusEvent_bal {c n : Nat} (s : St) (e : BusEv) : BalK c n 0 s (emitBusEvent s e) :=
  BalK.of_keep (emitBusEvent_ck s e) (emitBusEvent_r s e)

theorem BalK.of_eq {c n : Nat} {s s' : St} (h1 : s'.b.conns = s.b.conns) (h2 : s'.out = s.out) : BalK c n 0 s s' :=
  BalK.of_keep (CkLe.of_conns h1) (by simp [SameR, h2])

theorem processOne_bal {c n : Nat} {s s' : St} (hr : processOne s = some (.ok s')) : BalK c n 0 s s' := by
  unfold processOne at hr
  repeat' (split at hr)
  all_goals (try (simp only [Option.some.injEq, reduceCtorEq] at hr))
  all_goals first
    | (refine BalK.trans0' (b := s.setWRemoveConns _) (BalK.of_eq rfl rfl) (shutdownConnection_bal hr); done)
    | (refine BalK.trans0' (b := s.setWAbortCalls _) (BalK.of_eq rfl rfl) (abortCall_bal hr); done)
    | (simp only [Except.ok.injEq] at hr; subst hr; refine BalK.trans0' (b := s.setWCreateObject _) (BalK.of_eq rfl rfl) (emitBusEvent_bal _ _); done)
    | (simp only [Except.ok.injEq] at hr; subst hr; refine BalK.trans0' (b := s.setWCreateService _) (BalK.of_eq rfl rfl) (emitBusEvent_bal _ _); done)
    | (simp only [Except.ok.injEq] at hr; subst hr; refine BalK.trans0' (b := s.setWDestroyService _) (BalK.of_eq rfl rfl) (emitBusEvent_bal _ _); done)
    | (simp only [Except.ok.injEq] at hr; subst hr; refine BalK.trans0' (b := s.setWDestroyObject _) (BalK.of_eq rfl rfl) (emitBusEvent_bal _ _); done)
    | (simp only [Except.ok.injEq] at hr; subst hr; refine BalK.trans0' (b := s.setWUnsubscribeEvent _) (BalK.of_eq rfl rfl) ?_; split; exact sendOrRemove_bal rfl; exact BalK.refl _ _ _; done)
    | (simp only [Except.ok.injEq] at hr; subst hr; refine BalK.trans0' (b := s.setWUnsubscribeAll _) (BalK.of_eq rfl rfl) ?_; split; exact sendOrRemove_bal rfl; exact BalK.refl _ _ _; done)
    | (simp only [Except.ok.injEq] at hr; subst hr; refine BalK.trans0' (b := s.setWServicesDestroyed _) (BalK.of_eq rfl rfl) ?_; split; exact sendOrRemove_bal rfl; exact BalK.refl _ _ _; done)
    | skip
  · have := shutdownConnection_bal (c := c) (n := n) hr
    exact BalK.trans0' (BalK.of_eq rfl rfl) this
  · split at hr
    · simp only [Except.ok.injEq] at hr; subst hr; exact BalK.of_eq rfl rfl
    · rename_i conn hconn
      split at hr
      · simp at hr
      · rename_i hfind
        simp only [Except.ok.injEq] at hr; subst hr
        refine BalK.trans0' (b := s.setWRemoveCalls _) (BalK.of_eq rfl rfl) (erase_reply_bal ?_ ?_)
        · exact hconn
        · simpa using hfind
  · have := abortCall_bal (c := c) (n := n) hr
    exact BalK.trans0' (BalK.of_eq rfl rfl) this

theorem processLoop_bal {c n : Nat} : ∀ (fuel : Nat) (s s' : St), processLoop fuel s = .ok s' → BalK c n 0 s s' := by
  intro fuel
  induction fuel with
  | zero => intro s s' hr; simp [processLoop] at hr
  | succ k ih =>
    intro s s' hr
    simp only [processLoop] at hr
    split at hr
    · simp at hr; exact hr ▸ BalK.refl _ _ _
    · simp at hr
    · exact BalK.trans0 (processOne_bal ‹_›) (ih _ _ hr)

theorem handleEvent_bal {c n : Nat} {s s' : St} {e : Event} (he : ∀ v, e ≠ .newConn c v) (hr : handleEvent s e = .ok s') :
    BalK c n (takes s c n e) s s' := by
  cases e <;> simp only [handleEvent] at hr
  case msg id m =>
    split at hr
    · simp at hr
    · rename_i s1 ok hm
      have := handleMessage_bal (c := c) (n := n) hm
      simp only [Except.ok.injEq] at hr
      subst hr
      refine BalK.trans0 this ?_
      split <;> exact BalK.of_eq rfl rfl
  case newConn id v =>
    split at hr
    · simp at hr
    · simp only [Except.ok.injEq] at hr; subst hr
      have hne : id ≠ c := fun h => he v (h ▸ rfl)
      simp only [takes]
      intro t' h
      simp only [ck_stat, ck_setConn, hne, ↓reduceIte] at h
      exact ⟨t', h, by simp⟩
  case taskDropped id =>
    simp only [Except.ok.injEq] at hr; subst hr
    simp only [takes]
    intro t' h
    rw [ck_updConn'] at h
    split at h
    · cases hf : AL.find? id s.b.conns <;> simp [St.conn?, hf] at h
    · exact ⟨t', h, by simp [St.updConn]; split <;> rfl⟩
  all_goals (simp only [Except.ok.injEq] at hr; subst hr; simp only [takes]; exact BalK.of_eq (by simp) (by simp))

/-- One turn of `Broker::run` other than the arrival of connection `c` itself. -/
theorem step_bal {c n : Nat} {b b' : Broker} {w w' : Work} {e : Event} {out : List Out} (he : ∀ v, e ≠ .newConn c v)
    (hr : step b w e = .ok (b', w', out)) : BalK c n (takes ⟨b, w, []⟩ c n e) ⟨b, w, []⟩ ⟨b', w', out⟩ := by
  unfold step at hr
  split at hr
  · simp at hr
  · rename_i s1 h1
    split at hr
    · simp at hr
    · rename_i s2 h2
      simp only [Except.ok.injEq, Prod.mk.injEq] at hr
      obtain ⟨rfl, rfl, rfl⟩ := hr
      exact BalK.trans0 (handleEvent_bal he h1) (processLoop_bal _ _ _ h2)

/-! ### whole histories -/

/-- how many calls of `c` with serial `n` the broker took along a history -/
def taken (c n : Nat) : Broker → Work → List Event → Nat
  | _, _, [] => 0
  | b, w, e :: es => takes ⟨b, w, []⟩ c n e +
      match step b w e with
      | .ok (b', w', _) => taken c n b' w' es
      | .error _ => 0

/-- the call requests of `c` with serial `n` in a history -/
def isCallReq (c n : Nat) : Event → Bool
  | .msg id (.callFunction serial _ _ _) => id == c && serial == n
  | .msg id (.callFunction2 serial _ _ _ _) => id == c && serial == n
  | _ => false

def callReqs (c n : Nat) (es : List Event) : Nat := (es.filter (isCallReq c n)).length

theorem takesImpl_le (s : St) (id serial svc c n) : takesImpl s id serial svc c n ≤ if id = c ∧ serial = n then 1 else 0 := by
  unfold takesImpl
  by_cases h : id = c ∧ serial = n
  · rw [if_pos h]; split <;> omega
  · have : ¬ (id = c ∧ serial = n ∧ ((AL.find? svc s.b.svcUuids).isNone || serialFree s c n) = true) := fun x => h ⟨x.1, x.2.1⟩
    rw [if_neg this]; omega

theorem takes_le (s : St) (c n : Nat) (e : Event) : takes s c n e ≤ if isCallReq c n e then 1 else 0 := by
  cases e <;> simp only [takes, isCallReq] <;> try omega
  case msg id m =>
    cases m <;> simp only [takes, isCallReq] <;> try omega
    case callFunction serial svc f p =>
      have := takesImpl_le s id serial svc c n
      by_cases h : id = c ∧ serial = n
      · obtain ⟨rfl, rfl⟩ := h; simpa using this
      · rw [if_neg h] at this
        have h' : (id == c && serial == n) = false := by
          cases h1 : (id == c && serial == n)
          · rfl
          · simp at h1; exact absurd h1 h
        simp [h']; omega
    case callFunction2 serial svc f v p =>
      have := takesImpl_le s id serial svc c n
      have h0 : (match AL.find? id s.b.conns with
        | some conn => if conn.version < gateCallFunction2 then 0 else takesImpl s id serial svc c n
        | none => 0) ≤ takesImpl s id serial svc c n := by
        split
        · split <;> omega
        · omega
      by_cases h : id = c ∧ serial = n
      · obtain ⟨rfl, rfl⟩ := h; simp at this ⊢; omega
      · rw [if_neg h] at this
        have h' : (id == c && serial == n) = false := by
          cases h1 : (id == c && serial == n)
          · rfl
          · simp at h1; exact absurd h1 h
        simp [h']; omega

theorem taken_le (c n : Nat) : ∀ (es : List Event) (b : Broker) (w : Work), taken c n b w es ≤ callReqs c n es := by
  intro es
  induction es with
  | nil => intro b w; simp [taken, callReqs]
  | cons e es ih =>
    intro b w
    simp only [taken, callReqs, List.filter_cons]
    have h1 := takes_le ⟨b, w, []⟩ c n e
    have h2 : (match step b w e with
      | .ok (b', w', _) => taken c n b' w' es
      | .error _ => 0) ≤ callReqs c n es := by
      split
      · exact ih _ _
      · omega
    unfold callReqs at h2
    cases hq : isCallReq c n e <;> simp [hq] at h1 ⊢ <;> split <;> simp_all <;> omega

/-- the balance over a history: for a connection `c` that is there at the end with its task running, and that did not
arrive in between, `replies sent to c with serial n + (1 if a call (c, n) is pending at the end)` is
`(1 if one was pending at the start) + the calls (c, n) the broker took` -/
theorem run_bal {c n : Nat} : ∀ (es : List Event) (b : Broker) (w : Work) (b' : Broker) (w' : Work) (outs : List (List Out)),
    run b w es = .ok (b', w', outs) → (∀ v, Event.newConn c v ∉ es) →
    ∀ t', ck ⟨b', w', []⟩ c = some (t', true) →
      ∃ t, ck ⟨b, w, []⟩ c = some (t, true) ∧ reps c n outs.flatten + pendC t' n = pendC t n + taken c n b w es := by
  intro es
  induction es with
  | nil =>
    intro b w b' w' outs hr _ t' ht
    simp only [run, Except.ok.injEq, Prod.mk.injEq] at hr
    obtain ⟨rfl, rfl, rfl⟩ := hr
    exact ⟨t', ht, by simp [taken]⟩
  | cons e es ih =>
    intro b w b' w' outs hr hn t' ht
    simp only [run] at hr
    split at hr
    · simp at hr
    · rename_i b1 w1 out hstep
      split at hr
      · simp at hr
      · rename_i b2 w2 outs' hrun
        simp only [Except.ok.injEq, Prod.mk.injEq] at hr
        obtain ⟨rfl, rfl, rfl⟩ := hr
        obtain ⟨t1, e1, q1⟩ := ih b1 w1 _ _ _ hrun (fun v hv => hn v (List.mem_cons_of_mem _ hv)) t' ht
        have he : ∀ v, e ≠ .newConn c v := fun v hv => hn v (hv ▸ List.mem_cons_self)
        obtain ⟨t0, e0, q0⟩ := step_bal (n := n) he hstep t1 e1
        refine ⟨t0, e0, ?_⟩
        simp only [List.flatten_cons, reps_append, taken, hstep]
        simp only [reps_nil] at q0
        omega

/-- the version of connection `c` has `CallFunction2` -/
def versionOk (s : St) (c : Nat) : Bool :=
  match AL.find? c s.b.conns with
  | some conn => !decide (conn.version < gateCallFunction2)
  | none => true

/-- what a caller that keeps to the protocol guarantees for a request: a call with serial `n` is sent only while no
earlier call with that serial is pending, and `CallFunction2` only with a version that has it -/
def okReq (s : St) (c n : Nat) : Event → Bool
  | .msg id (.callFunction serial _ _ _) => !(id == c && serial == n) || serialFree s c n
  | .msg id (.callFunction2 serial _ _ _ _) => !(id == c && serial == n) || (serialFree s c n && versionOk s c)
  | _ => true

/-- `okReq` for every request of a history, each judged in the state the broker is in when it handles the request -/
def wellBehaved (c n : Nat) : Broker → Work → List Event → Bool
  | _, _, [] => true
  | b, w, e :: es => okReq ⟨b, w, []⟩ c n e &&
      match step b w e with
      | .ok (b', w', _) => wellBehaved c n b' w' es
      | .error _ => true

theorem takesImpl_of_free {s : St} {c n svc} (h : serialFree s c n = true) : takesImpl s c n svc c n = 1 := by
  simp [takesImpl, h]

theorem takesImpl_ne {s : St} {id serial c n svc} (h : ¬ (id = c ∧ serial = n)) : takesImpl s id serial svc c n = 0 := by
  have := takesImpl_le s id serial svc c n
  rw [if_neg h] at this; omega

theorem beq_and_false {id c serial n : Nat} (h : ¬ (id = c ∧ serial = n)) : (id == c && serial == n) = false := by
  cases h1 : (id == c && serial == n)
  · rfl
  · simp at h1; exact absurd h1 h

theorem takes_of_okReq {s : St} {c n : Nat} {e : Event} {t : CallTbl} {a : Bool} (hp : ck s c = some (t, a)) (h : okReq s c n e = true) :
    takes s c n e = if isCallReq c n e then 1 else 0 := by
  cases e
  case msg id m =>
    cases m
    case callFunction serial svc f p =>
      have hq : isCallReq c n (.msg id (.callFunction serial svc f p)) = (id == c && serial == n) := rfl
      simp only [takes, hq]
      by_cases hh : id = c ∧ serial = n
      · obtain ⟨rfl, rfl⟩ := hh
        simp [okReq] at h
        simp [takesImpl_of_free h]
      · simp [takesImpl_ne hh, beq_and_false hh]
    case callFunction2 serial svc f v p =>
      have hq : isCallReq c n (.msg id (.callFunction2 serial svc f v p)) = (id == c && serial == n) := rfl
      simp only [takes, hq]
      by_cases hh : id = c ∧ serial = n
      · obtain ⟨rfl, rfl⟩ := hh
        simp [okReq] at h
        obtain ⟨h1, h2⟩ := h
        unfold ck at hp
        split at hp
        · rename_i conn hconn
          simp [versionOk, hconn] at h2
          have : ¬ conn.version < gateCallFunction2 := by omega
          simp [hconn, this, takesImpl_of_free h1]
        · simp at hp
      · simp only [takesImpl_ne hh, beq_and_false hh]
        split
        · split <;> rfl
        · rfl
    all_goals rfl
  all_goals rfl

/-- for a caller that keeps to the protocol every call is taken -/
theorem taken_eq_callReqs {c n : Nat} : ∀ (es : List Event) (b : Broker) (w : Work) (b' : Broker) (w' : Work) (outs : List (List Out)),
    run b w es = .ok (b', w', outs) → (∀ v, Event.newConn c v ∉ es) → wellBehaved c n b w es = true →
    ∀ t', ck ⟨b', w', []⟩ c = some (t', true) → taken c n b w es = callReqs c n es := by
  intro es
  induction es with
  | nil => intro b w b' w' outs _ _ _ t' _; simp [taken, callReqs]
  | cons e es ih =>
    intro b w b' w' outs hr hn hwb t' ht
    simp only [run] at hr
    split at hr
    · simp at hr
    · rename_i b1 w1 out hstep
      split at hr
      · simp at hr
      · rename_i b2 w2 outs' hrun
        simp only [Except.ok.injEq, Prod.mk.injEq] at hr
        obtain ⟨rfl, rfl, rfl⟩ := hr
        have hn' : ∀ v, Event.newConn c v ∉ es := fun v hv => hn v (List.mem_cons_of_mem _ hv)
        simp only [wellBehaved, hstep, Bool.and_eq_true] at hwb
        have i1 := ih b1 w1 _ _ _ hrun hn' hwb.2 t' ht
        obtain ⟨t1, e1, _⟩ := run_bal (n := n) es b1 w1 _ _ _ hrun hn' t' ht
        have he : ∀ v, e ≠ .newConn c v := fun v hv => hn v (hv ▸ List.mem_cons_self)
        obtain ⟨t0, e0, _⟩ := step_bal (n := n) he hstep t1 e1
        have i0 := takes_of_okReq e0 hwb.1
        simp only [taken, hstep, callReqs, List.filter_cons, i0]
        unfold callReqs at i1
        cases hq : isCallReq c n e <;> simp [hq, i1] <;> omega

end Aldrin.Broker
