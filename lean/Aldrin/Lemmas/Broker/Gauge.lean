/-
Global invariant, part 2 (C09): the statistics gauges for channels and bus listeners equal the sizes
of the maps, for every history. Needs that cookies handed out are fresh (all keys below the counter).
-/
import Aldrin.Lemmas.Broker.Inv

namespace Aldrin.Broker
open Generated

def KeysBelow {V : Type} (n : Nat) (m : List (Cookie × V)) : Prop := ∀ k v, AL.find? k m = some v → k < n

theorem KeysBelow_nil {V : Type} (n : Nat) : KeysBelow n ([] : List (Cookie × V)) := by intro k v h; simp at h

theorem KeysBelow_mono {V : Type} {n n' : Nat} {m : List (Cookie × V)} (h : KeysBelow n m) (hn : n ≤ n') : KeysBelow n' m :=
  fun k v hk => Nat.lt_of_lt_of_le (h k v hk) hn

theorem KeysBelow_insert {V : Type} {n : Nat} {m : List (Cookie × V)} {k : Cookie} {v : V}
    (h : KeysBelow n m) (hk : k < n) : KeysBelow n (AL.insert k v m) := by
  intro k' v' hf
  rw [AL.find?_insert] at hf
  split at hf
  · subst_vars; exact hk
  · exact h _ _ hf

theorem KeysBelow_erase {V : Type} {n : Nat} {m : List (Cookie × V)} {k : Cookie}
    (h : KeysBelow n m) : KeysBelow n (AL.erase k m) := by
  intro k' v' hf
  rw [AL.find?_erase] at hf
  split at hf
  · simp at hf
  · exact h _ _ hf

theorem KeysBelow_fresh {V : Type} {n : Nat} {m : List (Cookie × V)} (h : KeysBelow n m) : AL.find? n m = none := by
  cases hf : AL.find? n m with
  | none => rfl
  | some v => exact absurd (h _ _ hf) (Nat.lt_irrefl _)

/-- size bookkeeping of one map with its gauge -/
structure MapG {V : Type} (g : Nat) (next : Nat) (m : List (Cookie × V)) : Prop where
  size : g = m.length
  nodup : AL.NodupKeys m
  below : KeysBelow next m

theorem MapG_nil {V : Type} (n : Nat) : MapG 0 n ([] : List (Cookie × V)) := ⟨rfl, AL.nodupKeys_nil, KeysBelow_nil n⟩

theorem MapG_mono {V : Type} {g n n' : Nat} {m : List (Cookie × V)} (h : MapG g n m) (hn : n ≤ n') : MapG g n' m :=
  ⟨h.size, h.nodup, KeysBelow_mono h.below hn⟩

/-- a fresh cookie is inserted and the gauge incremented -/
theorem MapG_insert_fresh {V : Type} {g n n' : Nat} {m : List (Cookie × V)} {v : V} (h : MapG g n m) (hn : n < n') :
    MapG (g + 1) n' (AL.insert n v m) :=
  ⟨by rw [AL.length_insert_of_none (KeysBelow_fresh h.below), h.size], AL.nodupKeys_insert h.nodup,
   KeysBelow_insert (KeysBelow_mono h.below (Nat.le_of_lt hn)) hn⟩

/-- the value of an existing key is replaced -/
theorem MapG_insert_same {V : Type} {g n : Nat} {m : List (Cookie × V)} {k : Cookie} {v v' : V} (h : MapG g n m)
    (hk : AL.find? k m = some v') : MapG g n (AL.insert k v m) :=
  ⟨by rw [AL.length_insert_of_some hk, h.size], AL.nodupKeys_insert h.nodup, KeysBelow_insert h.below (h.below _ _ hk)⟩

/-- an existing key is removed and the gauge decremented -/
theorem MapG_erase {V : Type} {g n : Nat} {m : List (Cookie × V)} {k : Cookie} {v' : V} (h : MapG g n m)
    (hk : AL.find? k m = some v') : MapG (g - 1) n (AL.erase k m) := by
  have := AL.length_erase_of_some h.nodup hk
  exact ⟨by rw [h.size]; omega, AL.nodupKeys_erase h.nodup, KeysBelow_erase h.below⟩

/-- replace then remove (what `remove_channel_end` does when the channel goes away) -/
theorem MapG_erase_insert {V : Type} {g n : Nat} {m : List (Cookie × V)} {k : Cookie} {v v' : V} (h : MapG g n m)
    (hk : AL.find? k m = some v') : MapG (g - 1) n (AL.erase k (AL.insert k v m)) :=
  MapG_erase (v' := v) (MapG_insert_same h hk) (by simp)

def G2 (s : St) : Prop :=
  MapG s.b.stats.numChannels s.b.nextCookie s.b.channels ∧ MapG s.b.stats.numBusListeners s.b.nextCookie s.b.listeners

theorem G2_of_same {s s' : St} (h : G2 s) (hs : SameCL s s') : G2 s' := by
  obtain ⟨h1, h2, h3, h4, h5⟩ := hs
  unfold G2
  rw [h1, h2, h3, h4]
  exact ⟨MapG_mono h.1 h5, MapG_mono h.2 h5⟩

syntax "g_tac" ident ident "[" Lean.Parser.Tactic.grindParam,* "]" : tactic
macro_rules
  | `(tactic| g_tac $f $hr [$ls,*]) => `(tactic|
      (unfold $f at $hr:ident
       repeat' ((try simp only [] at $hr:ident); split at $hr:ident)
       all_goals (try (simp at $hr:ident; done))
       all_goals (grind [okH, errH, G2, MapG_mono, MapG_insert_fresh, MapG_insert_same, MapG_erase, MapG_erase_insert, $ls,*])))

theorem createBusListener_G2 {s s' : St} {id serial} {ok : Bool} (h : G2 s)
    (hr : createBusListener s id serial = .ok (s', ok)) : G2 s' := by
  g_tac createBusListener hr []

theorem removeBusListener_G2 {s : St} (c : Cookie) (h : G2 s) : G2 (removeBusListener s c) := by
  unfold removeBusListener
  split
  · exact h
  · rename_i l hl
    refine ⟨by simpa using h.1, ?_⟩
    simp only [St.stat_b_stats, St.updConn_b_stats, St.setListeners_b_stats, St.stat_b_nextCookie, St.updConn_b_nextCookie,
      St.setListeners_b_nextCookie, St.stat_b_listeners, St.updConn_b_listeners, St.setListeners_b_listeners]
    exact MapG_erase h.2 hl

theorem destroyBusListener_G2 {s s' : St} {id serial c} {ok : Bool} (h : G2 s)
    (hr : destroyBusListener s id serial c = .ok (s', ok)) : G2 s' := by
  unfold destroyBusListener at hr
  repeat' ((try simp only [] at hr); split at hr)
  all_goals (simp only [okH, errH, Except.ok.injEq, Prod.mk.injEq] at hr)
  all_goals first
    | (obtain ⟨rfl, _⟩ := hr; exact h)
    | (obtain ⟨rfl, _⟩ := hr; refine removeBusListener_G2 _ (G2_of_same h ?_); simp [SameCL]; done)
    | (obtain ⟨rfl, _⟩ := hr; refine G2_of_same h ?_; simp [SameCL]; done)
    | (have hr' := congrArg Prod.fst hr; simp only at hr'; subst hr'; refine G2_of_same h ?_; simp [SameCL]; done)

/-- a handler that replaces the value of an existing listener and touches nothing else that matters -/
theorem G2_upd_listener {s s' : St} (h : G2 s) {c : Cookie} {l l' : Listener} (hf : AL.find? c s.b.listeners = some l)
    (h1 : s'.b.channels = s.b.channels) (h2 : s'.b.listeners = AL.insert c l' s.b.listeners)
    (h3 : s'.b.stats.numChannels = s.b.stats.numChannels) (h4 : s'.b.stats.numBusListeners = s.b.stats.numBusListeners)
    (h5 : s.b.nextCookie ≤ s'.b.nextCookie) : G2 s' := by
  unfold G2
  rw [h1, h2, h3, h4]
  exact ⟨MapG_mono h.1 h5, MapG_mono (MapG_insert_same h.2 hf) h5⟩

theorem updListener_G2 {s s' : St} {id c} {f : Listener → Listener} {ok : Bool} (h : G2 s)
    (hr : updListener s id c f = .ok (s', ok)) : G2 s' := by
  unfold updListener at hr
  repeat' ((try simp only [] at hr); split at hr)
  all_goals (simp only [okH, errH, Except.ok.injEq, Prod.mk.injEq] at hr; obtain ⟨rfl, _⟩ := hr)
  · exact G2_upd_listener h ‹_› (by simp) (by simp; rfl) (by simp) (by simp) (by simp)
  · exact h
  · exact h

theorem stopBusListener_G2 {s s' : St} {id serial c} {ok : Bool} (h : G2 s)
    (hr : stopBusListener s id serial c = .ok (s', ok)) : G2 s' := by
  unfold stopBusListener at hr
  repeat' ((try simp only [] at hr); split at hr)
  all_goals (simp only [okH, errH, Except.ok.injEq, Prod.mk.injEq] at hr)
  all_goals first
    | (obtain ⟨rfl, _⟩ := hr; exact h)
    | (have hr' := congrArg Prod.fst hr; simp only at hr'; subst hr'; refine G2_of_same h ?_; simp [SameCL]; done)
    | (have hr' := congrArg Prod.fst hr; simp only at hr'; subst hr'
       exact G2_upd_listener h ‹_› (by simp) (by simp; rfl) (by simp) (by simp) (by simp))

theorem startBusListener_G2 {s s' : St} {id serial c sc} {ok : Bool} (h : G2 s)
    (hr : startBusListener s id serial c sc = .ok (s', ok)) : G2 s' := by
  unfold startBusListener at hr
  repeat' ((try simp only [] at hr); split at hr)
  all_goals (try (simp at hr; done))
  all_goals (simp only [okH, errH, Except.ok.injEq, Prod.mk.injEq] at hr)
  all_goals first
    | (obtain ⟨rfl, _⟩ := hr; exact h)
    | (obtain ⟨rfl, _⟩ := hr
       exact G2_upd_listener h ‹_› (by simp) (by simp; rfl) (by simp) (by simp) (by simp))
    | (have hr' := congrArg Prod.fst hr; simp only at hr'; subst hr'; refine G2_of_same h ?_; simp [SameCL]; done)
    | (have hr' := congrArg Prod.fst hr; simp only at hr'; subst hr'
       exact G2_upd_listener h ‹_› (by simp) (by simp; rfl) (by simp) (by simp)
         (Nat.le_trans (by simp) (sendAll_nextCookie_le _ _ _)))

theorem removeChannelEnd_G2 {s s' : St} {c e o} (h : G2 s) (hr : removeChannelEnd s c e o = .ok s') : G2 s' := by
  g_tac removeChannelEnd hr []

theorem removeChannelEnd_G2' {s s' : St} {c e o} (hr : removeChannelEnd s c e o = .ok s') : G2 s → G2 s' :=
  fun h => removeChannelEnd_G2 h hr

theorem createChannel_G2 {s s' : St} {id serial e cap} {ok : Bool} (h : G2 s)
    (hr : createChannel s id serial e cap = .ok (s', ok)) (hfix : createChannelCountsBeforeReply = true) : G2 s' := by
  unfold createChannel at hr
  simp only [hfix, ↓reduceIte] at hr
  repeat' ((try simp only [] at hr); split at hr)
  all_goals (try (simp at hr; done))
  all_goals (grind [okH, errH, G2, MapG_mono, MapG_insert_fresh, MapG_insert_same, MapG_erase, MapG_erase_insert])

theorem closeChannelEnd_G2 {s s' : St} {id serial c e} {ok : Bool} (h : G2 s)
    (hr : closeChannelEnd s id serial c e = .ok (s', ok)) : G2 s' := by
  g_tac closeChannelEnd hr [→ removeChannelEnd_G2']

theorem claimChannelEnd_G2 {s s' : St} {id serial c e cap} {ok : Bool} (h : G2 s)
    (hr : claimChannelEnd s id serial c e cap = .ok (s', ok)) : G2 s' := by
  g_tac claimChannelEnd hr []

theorem addChannelCapacity_G2 {s s' : St} {id c cap} {ok : Bool} (h : G2 s)
    (hr : addChannelCapacity s id c cap = .ok (s', ok)) : G2 s' := by
  g_tac addChannelCapacity hr [→ removeChannelEnd_G2']

theorem sendItem_G2 {s s' : St} {id c p} {ok : Bool} (h : G2 s)
    (hr : sendItem s id c p = .ok (s', ok)) : G2 s' := by
  g_tac sendItem hr [→ removeChannelEnd_G2']


theorem shutdownConnection_G2 {s s' : St} {id b} (h : G2 s) (hr : shutdownConnection s id b = .ok s') : G2 s' := by
  unfold shutdownConnection at hr
  split at hr
  · simp at hr; exact hr ▸ h
  · rename_i conn hconn
    simp only [] at hr
    repeat' (split at hr)
    all_goals (try (simp at hr; done))
    rename_i s1 h1 _ s2 h2 _ s3 h3 _ s4 h4 _ s5 h5 _ s6 h6
    have i1 : G2 s1 := by
      refine foldE_inv G2 _ (fun s a s' hp hr => G2_of_same hp (removeObject_cl hr)) _ _ _ ?_ h1
      apply foldl_inv G2 _ (fun s a hp => removeBusListener_G2 a hp)
      apply G2_of_same h
      split <;> (try split) <;> simp [SameCL]
    have i2 := foldE_inv G2 _ (fun s a s' hp hr => G2_of_same hp (removeEventSubscription_cl hr)) _ _ _ i1 h2
    have i3 := foldE_inv G2 _ (fun s a s' hp hr => G2_of_same hp (removeAllEventsSubscription_cl hr)) _ _ _ i2 h3
    have i4 := foldE_inv G2 _ (fun s a s' hp hr => G2_of_same hp (removeSubscription_cl hr)) _ _ _ i3 h4
    have i5 := foldE_inv G2 _ (fun s a s' hp hr => removeChannelEnd_G2 hp hr) _ _ _ i4 h5
    have i6 := foldE_inv G2 _ (fun s a s' hp hr => removeChannelEnd_G2 hp hr) _ _ _ i5 h6
    refine G2_of_same ?_ (removeIntrospectionConn_cl hr)
    refine G2_of_same (s := List.foldl _ s6 conn.calls) ?_ (by simp only [SameCL, St.stat_b_channels, St.stat_b_listeners, St.stat_b_stats, St.stat_b_nextCookie]; exact ⟨rfl, rfl, rfl, rfl, Nat.le_refl _⟩)
    apply foldl_inv G2 _ ?_ _ _ i6
    intro s a hp
    exact G2_of_same hp (by simp [SameCL])

theorem handleMessage_G2 {s s' : St} {id : ConnId} {m : Req} {ok : Bool} (h : G2 s)
    (hr : handleMessage s id m = .ok (s', ok)) : G2 s' := by
  cases m <;> simp only [handleMessage] at hr
  case createObject => exact G2_of_same h (createObject_cl hr)
  case destroyObject => exact G2_of_same h (destroyObject_cl hr)
  case createService => exact G2_of_same h (createService_cl hr)
  case createService2 => exact G2_of_same h (createService2_cl hr)
  case destroyService => exact G2_of_same h (destroyService_cl hr)
  case callFunction => exact G2_of_same h (callFunctionImpl_cl hr)
  case callFunction2 => exact G2_of_same h (callFunction2_cl hr)
  case callFunctionReply => exact G2_of_same h (callFunctionReply_cl hr)
  case abortFunctionCall => exact G2_of_same h (abortFunctionCall_cl hr)
  case subscribeEvent => exact G2_of_same h (subscribeEvent_cl hr)
  case unsubscribeEvent => exact G2_of_same h (unsubscribeEvent_cl hr)
  case emitEvent => exact G2_of_same h (emitEvent_cl hr)
  case queryServiceVersion => exact G2_of_same h (queryServiceVersion_cl hr)
  case queryServiceInfo => exact G2_of_same h (queryServiceInfo_cl hr)
  case subscribeService => exact G2_of_same h (subscribeService_cl hr)
  case unsubscribeService => exact G2_of_same h (unsubscribeService_cl hr)
  case subscribeAllEvents => exact G2_of_same h (subscribeAllEvents_cl hr)
  case unsubscribeAllEvents => exact G2_of_same h (unsubscribeAllEvents_cl hr)
  case createChannel => exact createChannel_G2 h hr (by decide)
  case closeChannelEnd => exact closeChannelEnd_G2 h hr
  case claimChannelEnd => exact claimChannelEnd_G2 h hr
  case sendItem => exact sendItem_G2 h hr
  case addChannelCapacity => exact addChannelCapacity_G2 h hr
  case sync => exact G2_of_same h (sync_cl hr)
  case createBusListener => exact createBusListener_G2 h hr
  case destroyBusListener => exact destroyBusListener_G2 h hr
  case addFilter f => exact updListener_G2 h hr
  case removeFilter f => exact updListener_G2 h hr
  case clearFilters => exact updListener_G2 h hr
  case startBusListener => exact startBusListener_G2 h hr
  case stopBusListener => exact stopBusListener_G2 h hr
  case registerIntrospection => exact G2_of_same h (registerIntrospection_cl hr)
  case queryIntrospection => exact G2_of_same h (queryIntrospection_cl hr)
  case queryIntrospectionReply => exact G2_of_same h (queryIntrospectionReply_cl hr)
  case other => simp [errH] at hr; exact hr.1 ▸ h

theorem handleEvent_G2 {s s' : St} {e : Event} (h : G2 s) (hr : handleEvent s e = .ok s') : G2 s' := by
  cases e <;> simp only [handleEvent] at hr
  case msg id m =>
    split at hr
    · simp at hr
    · rename_i s1 ok hm
      have := handleMessage_G2 h hm
      simp only [Except.ok.injEq] at hr
      subst hr
      apply G2_of_same this
      split <;> simp [SameCL]
  case newConn id v =>
    split at hr
    · simp at hr
    · simp only [Except.ok.injEq] at hr; subst hr; exact G2_of_same h (by simp [SameCL])
  all_goals (simp only [Except.ok.injEq] at hr; subst hr; exact G2_of_same h (by simp [SameCL]))


theorem processOne_G2 {s s' : St} (h : G2 s) (hr : processOne s = some (.ok s')) : G2 s' := by
  unfold processOne at hr
  repeat' (split at hr)
  all_goals (try (simp only [Option.some.injEq, reduceCtorEq] at hr))
  all_goals first
    | (refine shutdownConnection_G2 (s := s.setWRemoveConns _) (G2_of_same h ?_) hr; simp [SameCL]; done)
    | (refine G2_of_same (G2_of_same (s' := s.setWAbortCalls _) h ?_) (abortCall_cl hr); simp [SameCL]; done)
    | (simp only [Except.ok.injEq] at hr; subst hr; refine G2_of_same h ?_; simp [SameCL]; done)
    | (simp only [Except.ok.injEq] at hr; subst hr; refine G2_of_same h (SameCL.trans (b := s.setWCreateObject _) ?_ (emitBusEvent_cl _ _)); simp [SameCL]; done)
    | (simp only [Except.ok.injEq] at hr; subst hr; refine G2_of_same h (SameCL.trans (b := s.setWCreateService _) ?_ (emitBusEvent_cl _ _)); simp [SameCL]; done)
    | (simp only [Except.ok.injEq] at hr; subst hr; refine G2_of_same h (SameCL.trans (b := s.setWDestroyService _) ?_ (emitBusEvent_cl _ _)); simp [SameCL]; done)
    | (simp only [Except.ok.injEq] at hr; subst hr; refine G2_of_same h (SameCL.trans (b := s.setWDestroyObject _) ?_ (emitBusEvent_cl _ _)); simp [SameCL]; done)
    | (simp only [Except.ok.injEq] at hr; subst hr; refine G2_of_same h ?_; split <;> simp [SameCL]; done)
    | (split at hr <;> (try split at hr) <;> (try simp only [Except.ok.injEq, reduceCtorEq] at hr) <;>
        first | (exact hr.elim) | (subst hr; refine G2_of_same h ?_; simp [SameCL]; done))

theorem processLoop_G2 : ∀ (fuel : Nat) (s s' : St), G2 s → processLoop fuel s = .ok s' → G2 s' := by
  intro fuel
  induction fuel with
  | zero => intro s s' _ hr; simp [processLoop] at hr
  | succ n ih =>
    intro s s' h hr
    simp only [processLoop] at hr
    split at hr
    · simp at hr; exact hr ▸ h
    · simp at hr
    · exact ih _ _ (processOne_G2 h ‹_›) hr

/-- One turn of `Broker::run` keeps every channel and every bus listener within its invariant. -/
theorem step_G2 {b b' : Broker} {w w' : Work} {e : Event} {out : List Out}
    (h : G2 ⟨b, w, []⟩) (hr : step b w e = .ok (b', w', out)) : G2 ⟨b', w', []⟩ := by
  unfold step at hr
  split at hr
  · simp at hr
  · rename_i s1 h1
    split at hr
    · simp at hr
    · rename_i s2 h2
      simp only [Except.ok.injEq, Prod.mk.injEq] at hr
      obtain ⟨rfl, rfl, _⟩ := hr
      have := processLoop_G2 _ _ _ (handleEvent_G2 h h1) h2
      exact this

theorem G2_init : G2 ⟨{}, {}, []⟩ := ⟨MapG_nil _, MapG_nil _⟩

theorem run_G2 : ∀ (es : List Event) (b b' : Broker) (w w' : Work) (outs : List (List Out)),
    G2 ⟨b, w, []⟩ → run b w es = .ok (b', w', outs) → G2 ⟨b', w', []⟩ := by
  intro es
  induction es with
  | nil => intro b b' w w' outs h hr; simp [run] at hr; obtain ⟨rfl, rfl, _⟩ := hr; exact h
  | cons e es ih =>
    intro b b' w w' outs h hr
    simp only [run] at hr
    split at hr
    · simp at hr
    · rename_i b1 w1 o1 h1
      split at hr
      · simp at hr
      · rename_i b2 w2 o2 h2
        simp only [Except.ok.injEq, Prod.mk.injEq] at hr
        obtain ⟨rfl, rfl, _⟩ := hr
        exact ih _ _ _ _ _ (step_G2 h h1) h2

end Aldrin.Broker
