/-
The bus events of the cascade: what `remove_service` and `remove_object` defer for the bus listeners. `remove_service`
of a registered service defers one `ServiceDestroyed` with its id and unregisters exactly that cookie; `remove_object`
of a registered object defers `ObjectDestroyed` with its id and, before it in the order of handling (`destroy_service`
items are handled before `destroy_object` items), one `ServiceDestroyed` per service the object lists.
-/
import Aldrin.Lemmas.Broker.SvcCalls

namespace Aldrin.Broker

/-- the parts of the state the bus events of the cascade depend on -/
def busPart (s : St) : List (Cookie × (ObjId × Uuid × SvcInfo)) × List SvcId × List ObjId :=
  (s.b.svcUuids, s.w.destroyService, s.w.destroyObject)

theorem removeService_calls_bus : ∀ (l : List Nat) (s s' : St), removeService.calls s l = .ok s' → busPart s' = busPart s := by
  intro l
  induction l with
  | nil => intro s s' h; simp only [removeService.calls, Except.ok.injEq] at h; subst h; rfl
  | cons a l ih =>
    intro s s' h
    simp only [removeService.calls] at h
    split at h
    · simp at h
    · rw [ih _ _ h]
      split <;> rfl

/-- the `ServiceDestroyed` a cookie stands for, if it is registered -/
def svcItem (m : List (Cookie × (ObjId × Uuid × SvcInfo))) (c : Cookie) : Option SvcId :=
  match AL.find? c m with
  | some (o, u, _) => some ⟨o, u, c⟩
  | none => none

theorem removeService_bus {s s' : St} {c : Cookie} (hr : removeService s c = .ok s') :
    (∀ c', AL.find? c' s'.b.svcUuids = if c = c' then none else AL.find? c' s.b.svcUuids) ∧
    s'.w.destroyService = (svcItem s.b.svcUuids c).toList ++ s.w.destroyService ∧
    s'.w.destroyObject = s.w.destroyObject := by
  unfold removeService at hr
  split at hr
  · rename_i hnone
    simp only [Except.ok.injEq] at hr; subst hr
    refine ⟨?_, by simp [svcItem, hnone], rfl⟩
    intro c'
    by_cases h : c = c'
    · subst h; simp [hnone]
    · simp [h]
  · rename_i objId svcUuid info hu
    (try simp only [] at hr)
    split at hr
    · simp at hr
    · rename_i svc hs
      (try simp only [] at hr)
      split at hr
      · simp at hr
      · rename_i s1 h1
        simp only [Except.ok.injEq] at hr
        subst hr
        have hb := removeService_calls_bus _ _ _ h1
        generalize hfold : List.foldl _ s1 svc.subscribedConnIds = t2
        have inv : busPart t2 = busPart s1 := by
          rw [← hfold]
          apply foldl_inv (fun t => busPart t = busPart s1)
          · intro t a hp
            split
            · rw [← hp]; rfl
            · exact hp
          · rfl
        have hstat : ∀ (x : St) (f : Stats → Stats), busPart (x.stat f) = busPart x := fun _ _ => rfl
        have hall : busPart (t2.stat fun st => { st with numServices := st.numServices - 1 }) =
            (AL.erase c s.b.svcUuids, ⟨objId, svcUuid, c⟩ :: s.w.destroyService, s.w.destroyObject) := by
          rw [hstat, inv, hb]
          split <;> rfl
        simp only [busPart, Prod.mk.injEq] at hall
        obtain ⟨e1, e2, e3⟩ := hall
        refine ⟨?_, ?_, e3⟩
        · intro c'; rw [e1, AL.find?_erase]
        · rw [e2]; simp [svcItem, hu]

theorem filterMap_congr' {α β : Type} {f g : α → Option β} : ∀ (l : List α), (∀ x, x ∈ l → f x = g x) → l.filterMap f = l.filterMap g := by
  intro l
  induction l with
  | nil => intro _; rfl
  | cons a l ih =>
    intro h
    simp only [List.filterMap_cons, h a List.mem_cons_self, ih (fun x hx => h x (List.mem_cons_of_mem _ hx))]

theorem removeObject_svcs_bus : ∀ (l : List Cookie) (s s' : St), l.Nodup → removeObject.svcs s l = .ok s' →
    (∀ c', AL.find? c' s'.b.svcUuids = if c' ∈ l then none else AL.find? c' s.b.svcUuids) ∧
    s'.w.destroyService = (l.filterMap (svcItem s.b.svcUuids)).reverse ++ s.w.destroyService ∧
    s'.w.destroyObject = s.w.destroyObject := by
  intro l
  induction l with
  | nil => intro s s' _ h; simp only [removeObject.svcs, Except.ok.injEq] at h; subst h; simp
  | cons a l ih =>
    intro s s' hnd h
    have hnd' := List.nodup_cons.1 hnd
    simp only [removeObject.svcs] at h
    split at h
    · simp at h
    · rename_i s1 h1
      obtain ⟨a1, a2, a3⟩ := removeService_bus h1
      obtain ⟨b1, b2, b3⟩ := ih _ _ hnd'.2 h
      have hitem : ∀ c', c' ∈ l → svcItem s1.b.svcUuids c' = svcItem s.b.svcUuids c' := by
        intro c' hc'
        have : a ≠ c' := fun e => hnd'.1 (e ▸ hc')
        simp only [svcItem, a1 c', this, ↓reduceIte]
      refine ⟨?_, ?_, by rw [b3, a3]⟩
      · intro c'
        rw [b1 c', a1 c']
        by_cases hc : c' ∈ l
        · simp [hc]
        · by_cases hac : a = c'
          · simp [hac]
          · have : ¬ c' = a := fun e => hac e.symm
            simp [hc, hac, this]
      · rw [b2, a2, filterMap_congr' l hitem]
        cases hsi : svcItem s.b.svcUuids a <;> simp [List.filterMap_cons, hsi]

end Aldrin.Broker

namespace Aldrin.Broker

theorem removeObject_bus {s s' : St} {c : Cookie} {objUuid : Uuid} {obj : Obj}
    (hu : AL.find? c s.b.objUuids = some objUuid) (ho : AL.find? objUuid s.b.objs = some obj) (hnd : obj.svcs.Nodup)
    (hr : removeObject s c = .ok s') :
    (∀ c', AL.find? c' s'.b.svcUuids = if c' ∈ obj.svcs then none else AL.find? c' s.b.svcUuids) ∧
    s'.w.destroyService = (obj.svcs.filterMap (svcItem s.b.svcUuids)).reverse ++ s.w.destroyService ∧
    s'.w.destroyObject = ⟨objUuid, c⟩ :: s.w.destroyObject := by
  unfold removeObject at hr
  simp only [hu, St.setObjUuids_b_objs, ho] at hr
  split at hr
  · simp at hr
  · rename_i s1 h1
    simp only [Except.ok.injEq] at hr
    subst hr
    obtain ⟨b1, b2, b3⟩ := removeObject_svcs_bus _ _ _ hnd h1
    have hstat : ∀ (x : St) (f : Stats → Stats), busPart (x.stat f) = busPart x := fun _ _ => rfl
    have h3 := congrArg (fun p => p.1) (hstat s1 fun st => { st with numObjects := st.numObjects - 1 })
    have h4 := congrArg (fun p => p.2.1) (hstat s1 fun st => { st with numObjects := st.numObjects - 1 })
    have h5 := congrArg (fun p => p.2.2) (hstat s1 fun st => { st with numObjects := st.numObjects - 1 })
    simp only [busPart] at h3 h4 h5
    refine ⟨?_, ?_, ?_⟩
    · intro c'; rw [h3, b1 c']; simp
    · rw [h4, b2]; simp
    · rw [h5, b3]; simp

end Aldrin.Broker
