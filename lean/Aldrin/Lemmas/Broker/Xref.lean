/-
The invariant `XP` on states of the broker model (`XrefP`), and its preservation by the functions that deal with calls:
`call_function_reply`, `abort_call`, `remove_service` / `remove_object` (and the two destroy handlers),
`call_function_impl` (while nothing is deferred and the call table has room), `abort_function_call`.
-/
import Aldrin.Lemmas.Broker.CallFrame
import Aldrin.Lemmas.Broker.CallBalance
import Aldrin.Lemmas.Broker.SerialFresh
import Aldrin.Lemmas.Broker.XP

set_option linter.unusedSimpArgs false
set_option linter.unusedVariables false
namespace Aldrin.Broker
open Generated

/-- the invariant `XP` on a state of the broker model; `sv` is `some (c, tbl)` only inside `shutdown_connection` -/
def XrefP (sv : Option (ConnId × CallTbl)) (s : St) : Prop :=
  XP sv (ck s) (fun k => s.b.calls.get? k) s.b.calls.next s.w.removeCalls s.w.abortCalls

abbrev Xref (s : St) : Prop := XrefP none s

/-- what the invariant looks at -/
def SameG (s s' : St) : Prop :=
  (∀ k, s'.b.calls.get? k = s.b.calls.get? k) ∧ s'.b.calls.next = s.b.calls.next ∧
  s'.w.removeCalls = s.w.removeCalls ∧ s'.w.abortCalls = s.w.abortCalls

theorem SameG.of_F {s s' : St} (h : SameF s s') : SameG s s' := ⟨fun k => by rw [h.1], by rw [h.1], h.2.1, h.2.2⟩

/-- the invariant holds of `s'` if it holds of the views computed for `s'` -/
theorem XrefP.of_views {sv} {s' : St} {K : KView} {G : GView} {nx : Nat} {R : RList} {A : AList}
    (h : XP sv K G nx R A) (hK : ∀ c, ck s' c = K c) (hG : ∀ k, s'.b.calls.get? k = G k) (hn : s'.b.calls.next = nx)
    (hR : s'.w.removeCalls = R) (hA : s'.w.abortCalls = A) : XrefP sv s' := by
  unfold XrefP
  have e1 : ck s' = K := funext hK
  have e2 : (fun k => s'.b.calls.get? k) = G := funext hG
  rw [e1, e2, hn, hR, hA]; exact h

theorem XrefP.of_frame {sv} {s s' : St} (h1 : CkEq s s') (h2 : SameG s s') (h : XrefP sv s) : XrefP sv s' :=
  XrefP.of_views h h1 h2.1 h2.2.1 h2.2.2.1 h2.2.2.2

theorem XrefP.of_F {sv} {s s' : St} (h1 : CkEq s s') (h2 : SameF s s') (h : XrefP sv s) : XrefP sv s' :=
  h.of_frame h1 (SameG.of_F h2)

theorem XrefP.of_F' {sv} {s s' : St} (h : XrefP sv s) (h1 : CkEq s s') (h2 : SameF s s') : XrefP sv s' := h.of_F h1 h2

theorem XrefP.of_eq {sv} {s s' : St} (h1 : s'.b.conns = s.b.conns) (h2 : s'.b.calls = s.b.calls) (h3 : s'.w.removeCalls = s.w.removeCalls)
    (h4 : s'.w.abortCalls = s.w.abortCalls) (h : XrefP sv s) : XrefP sv s' :=
  h.of_F (CkEq.of_conns h1) ⟨h2, h3, h4⟩

@[simp] theorem get?_remove {T : Type} (m : SerialMap T) (bs k : Nat) : (m.remove bs).get? k = if bs = k then none else m.get? k := by
  simp [SerialMap.remove, SerialMap.get?, AL.find?_erase]

@[simp] theorem get?_set {T : Type} (m : SerialMap T) (bs k : Nat) (x : T) : (m.set bs x).get? k = if bs = k then some x else m.get? k := by
  simp [SerialMap.set, SerialMap.get?, AL.find?_insert]

@[simp] theorem next_remove {T : Type} (m : SerialMap T) (bs : Nat) : (m.remove bs).next = m.next := rfl
@[simp] theorem next_set {T : Type} (m : SerialMap T) (bs : Nat) (x : T) : (m.set bs x).next = m.next := rfl

theorem upd_remove {T : Type} (G : GView) (m : SerialMap Call) (bs : Nat) (hG : ∀ k, m.get? k = G k) :
    Upd G (fun k => (m.remove bs).get? k) bs := by
  refine ⟨fun k hk => ?_, Or.inl ?_⟩
  · simp [Ne.symm hk, hG]
  · simp

theorem upd_set (G : GView) (m : SerialMap Call) (bs : Nat) (x : Call) (hx : x.aborted = true) (hG : ∀ k, m.get? k = G k) :
    Upd G (fun k => (m.set bs x).get? k) bs := by
  refine ⟨fun k hk => ?_, Or.inr ⟨x, ?_, hx⟩⟩
  · simp [Ne.symm hk, hG]
  · simp

theorem ck_of_find {s : St} {c : ConnId} {conn : Conn} (h : AL.find? c s.b.conns = some conn) : ck s c = some (conn.calls, conn.alive) := by
  simp [ck, h]
theorem ck_of_find_none {s : St} {c : ConnId} (h : AL.find? c s.b.conns = none) : ck s c = none := by
  simp [ck, h]

theorem callFunctionReply_xref {sv} {s s' : St} {id serial r} {ok : Bool} (hx : XrefP sv s) :
    callFunctionReply s id serial r = .ok (s', ok) → XrefP sv s' := by
  intro h; unfold callFunctionReply at h
  split at h
  · simp only [okH, Except.ok.injEq, Prod.mk.injEq] at h; obtain ⟨rfl, _⟩ := h; exact hx
  · (try simp only [] at h)
    split at h
    · simp only [okH, Except.ok.injEq, Prod.mk.injEq] at h; obtain ⟨rfl, _⟩ := h; exact hx
    · rename_i call hcall
      (try simp only [] at h)
      split at h
      · simp at h
      · split at h
        · simp only [okH, Except.ok.injEq, Prod.mk.injEq] at h; obtain ⟨rfl, _⟩ := h; exact hx
        · (try simp only [] at h)
          split at h
          · simp at h
          · rename_i svc hsvc
            (try simp only [] at h)
            have hu := upd_remove (T := Call) (fun k => s.b.calls.get? k) s.b.calls serial (fun _ => rfl)
            split at h
            · -- aborted before: the entry is long gone
              rename_i hab
              simp only [okH, Except.ok.injEq, Prod.mk.injEq] at h; obtain ⟨rfl, _⟩ := h
              exact XrefP.of_views (XP.finish_call_noentry hx hcall (Or.inl hab) hu) (fun c => by simp) (fun k => by simp) (by simp) (by simp) (by simp)
            · rename_i hab
              have hna : call.aborted = false := by cases hb : call.aborted <;> simp_all
              split at h
              · rename_i hnone
                simp only [okH, Except.ok.injEq, Prod.mk.injEq] at h; obtain ⟨rfl, _⟩ := h
                have hk : ck s call.callerConn = none := ck_of_find_none (by simpa using hnone)
                exact XrefP.of_views (XP.finish_call_noentry hx hcall (Or.inr hk) hu) (fun c => by simp) (fun k => by simp) (by simp) (by simp) (by simp)
              · rename_i caller hcaller
                split at h
                · simp at h
                · simp only [okH, Except.ok.injEq, Prod.mk.injEq] at h; obtain ⟨rfl, _⟩ := h
                  have hk : ck s call.callerConn = some (caller.calls, caller.alive) := ck_of_find (by simpa using hcaller)
                  refine XrefP.of_views (XP.finish_call hx hcall hna hk hu) (fun c => ?_) (fun k => by simp) (by simp) (by simp) (by simp)
                  simp only [ck_sendOrRemove, ck_setConn, ck_setSvcs, ck_setCalls]
                  by_cases hcc : c = call.callerConn
                  · simp [hcc]
                  · simp [hcc, Ne.symm hcc]

/-- the optional `AbortFunctionCall` to the callee -/
def notifyCallee (s : St) (cid : ConnId) (serial : Nat) : St :=
  match s.conn? cid with
  | some c => if c.version ≥ Generated.abortMinCallee then s.sendOrRemove cid (.abortFunctionCall serial) else s
  | none => s

theorem notifyCallee_frame (s : St) (cid : ConnId) (serial : Nat) :
    CkEq s (notifyCallee s cid serial) ∧ SameF s (notifyCallee s cid serial) := by
  unfold notifyCallee; split
  · split
    · exact ⟨CkEq.of_conns (by simp), by simp [SameF]⟩
    · exact ⟨CkEq.refl _, SameF.refl _⟩
  · exact ⟨CkEq.refl _, SameF.refl _⟩

theorem abortCall_eq (s : St) (serial : Nat) (cid : ConnId) : abortCall s serial cid =
    match s.b.calls.get? serial with
    | none => .ok s
    | some call =>
      if call.aborted then .ok s else
      let s2 := notifyCallee (s.setCalls (s.b.calls.set serial { call with aborted := true })) cid serial
      match s2.conn? call.callerConn with
      | none => .ok s2
      | some caller =>
        if (AL.find? call.callerSerial caller.calls).isNone then .error (.debugAssert "abort_call: remove_call") else
        let s3 := s2.setConn call.callerConn { caller with calls := AL.erase call.callerSerial caller.calls }
        .ok (s3.sendOrRemove call.callerConn (.callFunctionReply call.callerSerial .aborted)) := by
  unfold abortCall notifyCallee; rfl

theorem abortCall_xref {sv} {s s' : St} {serial cid} {rest : List (Nat × ConnId)} (hx : XrefP sv s)
    (hA : s.w.abortCalls = (serial, cid) :: rest) :
    abortCall (s.setWAbortCalls rest) serial cid = .ok s' → XrefP sv s' := by
  intro h; rw [abortCall_eq] at h
  unfold XrefP at hx; rw [hA] at hx
  split at h
  · rename_i hnone
    simp only [Except.ok.injEq] at h; subst h
    refine XrefP.of_views (XP.pop_abort hx ?_) (fun c => by simp) (fun k => by simp) (by simp) (by simp) (by simp)
    intro call hc; simp at hnone; simp at hc; rw [hnone] at hc; simp at hc
  · rename_i call hcall
    simp at hcall
    split at h
    · rename_i hab
      simp only [Except.ok.injEq] at h; subst h
      refine XrefP.of_views (XP.pop_abort hx ?_) (fun c => by simp) (fun k => by simp) (by simp) (by simp) (by simp)
      intro call' hc; simp at hc; rw [hcall] at hc; simp at hc; subst hc; exact hab
    · rename_i hab
      have hna : call.aborted = false := by cases hb : call.aborted <;> simp_all
      simp only [] at h
      have hu := upd_set (fun k => s.b.calls.get? k) s.b.calls serial { call with aborted := true } rfl (fun _ => rfl)
      have hdead : ∀ call', (fun k => (s.b.calls.set serial { call with aborted := true }).get? k) (serial, cid).1 = some call' → call'.aborted = true := by
        intro call' hc; simp at hc; subst hc; rfl
      have f2 := notifyCallee_frame ((s.setWAbortCalls rest).setCalls (s.b.calls.set serial { call with aborted := true })) cid serial
      split at h
      · rename_i hnone
        simp only [Except.ok.injEq] at h; subst h
        have hk : ck s call.callerConn = none := by
          have hk2 := ck_of_find_none hnone
          rw [(notifyCallee_frame _ cid serial).1 call.callerConn] at hk2
          simpa using hk2
        have x1 : XrefP sv ((s.setWAbortCalls rest).setCalls (s.b.calls.set serial { call with aborted := true })) :=
          XrefP.of_views (XP.pop_abort (XP.finish_call_noentry hx hcall (Or.inr hk) hu) hdead) (fun c => by simp) (fun k => by simp) (by simp) (by simp) (by simp)
        exact x1.of_F f2.1 f2.2
      · rename_i caller hcaller
        split at h
        · simp at h
        · simp only [Except.ok.injEq] at h; subst h
          have hk : ck s call.callerConn = some (caller.calls, caller.alive) := by
            have hk2 := ck_of_find hcaller
            rw [(notifyCallee_frame _ cid serial).1 call.callerConn] at hk2
            simpa using hk2
          have x1 := XP.pop_abort (XP.finish_call hx hcall hna hk hu) hdead
          refine XrefP.of_views x1 (fun c => ?_) (fun k => ?_) ?_ ?_ ?_
          · simp only [ck_sendOrRemove, ck_setConn]
            by_cases hcc : c = call.callerConn
            · simp [hcc]
            · have := f2.1 c
              simp [hcc, Ne.symm hcc, this]
          · have := f2.2.1; simp [this]
          · have := f2.2.1; simp [this]
          · have := f2.2.2.1; simp [this]
          · have := f2.2.2.2; simp [this]

theorem removeService_calls_xref {sv} : ∀ (l : List Nat) (s s' : St), XrefP sv s → removeService.calls s l = .ok s' → XrefP sv s' := by
  intro l
  induction l with
  | nil => intro s s' hx h; simp [removeService.calls] at h; subst h; exact hx
  | cons a l ih =>
    intro s s' hx h
    simp only [removeService.calls] at h
    split at h
    · simp at h
    · rename_i call hcall
      refine ih _ _ ?_ h
      have hu := upd_remove (T := Call) (fun k => s.b.calls.get? k) s.b.calls a (fun _ => rfl)
      split
      · rename_i hab
        exact XrefP.of_views (XP.finish_call_noentry hx hcall (Or.inl hab) hu) (fun c => by simp) (fun k => by simp) (by simp) (by simp) (by simp)
      · rename_i hab
        have hna : call.aborted = false := by cases hb : call.aborted <;> simp_all
        exact XrefP.of_views (XP.service_drops_call (r := CallResult.invalidService) hx hcall hna hu (by simp)) (fun c => by simp) (fun k => by simp) (by simp) (by simp) (by simp)

theorem removeService_xref {sv} {s s' : St} {c : Cookie} (hx : XrefP sv s) : removeService s c = .ok s' → XrefP sv s' := by
  intro h
  unfold removeService at h
  split at h
  · simp only [Except.ok.injEq] at h; subst h; exact hx
  · (try simp only [] at h)
    split at h
    · simp at h
    · (try simp only [] at h)
      split at h
      · simp at h
      · rename_i s1 hc
        simp only [Except.ok.injEq] at h
        subst h
        refine XrefP.of_F' (removeService_calls_xref (sv := sv) _ _ _ (XrefP.of_F' hx ?_ ?_) hc) ?_ ?_
        · split <;> exact CkEq.of_conns (by simp)
        · split <;> simp [SameF]
        · refine CkEq.trans ?_ (CkEq.of_conns (St.stat_b_conns _ _))
          apply foldl_inv (CkEq s1) _ _ _ _ (CkEq.refl _)
          intro s2 a hp
          refine CkEq.trans hp ?_
          split
          · rename_i c0 hc0
            exact CkEq.trans (CkEq.step_setConn (new := c0.unsubscribeAllOf _) hc0 rfl rfl) (CkEq.of_conns rfl)
          · exact CkEq.refl _
        · have : ∀ (l : List ConnId), SameF s1 (List.foldl (fun s cid =>
              match s.conn? cid with
              | some c_1 => (s.setConn cid (c_1.unsubscribeAllOf c)).setWServicesDestroyed ((cid, c) :: s.w.servicesDestroyed)
              | none => s) s1 l) := by
            intro l
            apply foldl_inv (SameF s1) _ _ _ _ (SameF.refl _)
            intro s2 a hp
            refine SameF.trans hp ?_
            split <;> simp [SameF]
          have h3 := this ‹Svc›.subscribedConnIds
          exact ⟨h3.1, h3.2.1, h3.2.2⟩

theorem removeObject_svcs_xref {sv} : ∀ (l : List Cookie) (s s' : St), XrefP sv s → removeObject.svcs s l = .ok s' → XrefP sv s' := by
  intro l
  induction l with
  | nil => intro s s' hx h; simp [removeObject.svcs] at h; subst h; exact hx
  | cons a l ih =>
    intro s s' hx h
    simp only [removeObject.svcs] at h
    split at h
    · simp at h
    · exact ih _ _ (removeService_xref hx ‹_›) h

theorem removeObject_xref {sv} {s s' : St} {c : Cookie} (hx : XrefP sv s) : removeObject s c = .ok s' → XrefP sv s' := by
  intro h
  unfold removeObject at h
  repeat' ((try simp only [] at h); split at h)
  all_goals (try (simp only [Except.ok.injEq, reduceCtorEq] at h))
  all_goals (try (exact h.elim))
  all_goals (try subst h)
  · exact hx
  · rename_i hs
    refine XrefP.of_F' (removeObject_svcs_xref (sv := sv) _ _ _ (XrefP.of_F' hx ?_ ?_) hs) (CkEq.of_conns rfl) ⟨rfl, rfl, rfl⟩
    · intro c; simp [ck_updConn']
    · simp [SameF]

theorem XP.push_abort {sv K G nx R A} (x : Nat × ConnId) (h : XP sv K G nx R A) : XP sv K G nx R (x :: A) := by
  refine ⟨h.a, ?_, h.c, h.e, h.d⟩
  intro bs call hg hna
  rcases h.b bs call hg hna with h1 | ⟨h1, y, hy⟩ | h1
  · exact Or.inl h1
  · exact Or.inr (Or.inl ⟨h1, y, List.mem_cons_of_mem _ hy⟩)
  · exact Or.inr (Or.inr h1)

theorem XP.set_next {sv K G nx R A} (h : XP sv K G nx R A) {nx' : Nat} (hn : nx' < u32Max + 1) : XP sv K G nx' R A :=
  ⟨h.a, h.b, h.c, h.e, hn⟩

theorem get?_insert_fresh {T : Type} (m : SerialMap T) (x : T) (hf : AL.find? (m.insert x).2 m.elems = none) (k : Nat) :
    (m.insert x).1.get? k = if k = (m.insert x).2 then some x else m.get? k := by
  simp only [SerialMap.insert, SerialMap.get?] at hf ⊢
  rw [AL.find?_append_one]
  by_cases hk : k = m.findFree (m.elems.length + 1) m.next
  · subst hk; simp [hf]
  · simp [hk, Ne.symm hk]

theorem next_insert_lt {T : Type} (m : SerialMap T) (x : T) : (m.insert x).1.next < u32Max + 1 := by
  simp only [SerialMap.insert]; exact Nat.mod_lt _ (by simp [u32Max])

/-- `call_function_impl`, while nothing is deferred and the call table has room -/
theorem callFunctionImpl_xref {sv} {s s' : St} {id serial svc f v p} {ok : Bool} (hx : XrefP sv s)
    (hR : s.w.removeCalls = []) (hroom : s.b.calls.elems.length ≤ u32Max) :
    callFunctionImpl s id serial svc f v p = .ok (s', ok) → XrefP sv s' := by
  intro h; unfold callFunctionImpl at h
  split at h
  · simp only [okH, Except.ok.injEq, Prod.mk.injEq] at h; obtain ⟨rfl, _⟩ := h; exact hx
  · rename_i conn hconn
    simp only [St.conn?] at hconn
    (try simp only [] at h)
    split at h
    · simp only [Except.ok.injEq] at h
      have h' := congrArg Prod.fst h; simp only at h'; subst h'
      exact hx.of_F (CkEq.of_conns (by simp)) (by simp [SameF])
    · rename_i objId svcUuid info hsv
      (try simp only [] at h)
      split at h
      · simp at h
      · rename_i obj hobj
        (try simp only [] at h)
        have hfresh := SerialMap.insert_fresh s.b.calls (⟨serial, id, objId.uuid, svcUuid, false⟩ : Call) hx.d hroom
        have hget := get?_insert_fresh s.b.calls (⟨serial, id, objId.uuid, svcUuid, false⟩ : Call) hfresh
        have hnx := next_insert_lt s.b.calls (⟨serial, id, objId.uuid, svcUuid, false⟩ : Call)
        split at h
        · rename_i hdup
          simp only [errH, Except.ok.injEq, Prod.mk.injEq] at h; obtain ⟨rfl, _⟩ := h
          refine XrefP.of_views (XP.set_next hx hnx) (fun c => by simp) (fun k => ?_) (by simp) (by simp) (by simp)
          simp only [St.setCalls_b_calls, get?_remove, hget]
          by_cases hk : k = (s.b.calls.insert (⟨serial, id, objId.uuid, svcUuid, false⟩ : Call)).2
          · subst hk; simp [SerialMap.get?, hfresh]
          · simp [hk, Ne.symm hk]
        · rename_i hdup
          have hfree : AL.find? serial conn.calls = none := by
            cases hf : AL.find? serial conn.calls <;> simp_all
          (try simp only [] at h)
          split at h
          · simp at h
          · rename_i callee hcallee
            split at h
            · simp at h
            · rename_i svcE hsvc
              simp only [okH, Except.ok.injEq, Prod.mk.injEq] at h; obtain ⟨rfl, _⟩ := h
              unfold XrefP at hx; rw [hR] at hx
              have hk : ck s id = some (conn.calls, conn.alive) := ck_of_find hconn
              have x1 := XP.add_call (callee := obj.conn) hx hk hfree (by simpa [SerialMap.get?] using hfresh) hget rfl rfl rfl hnx
              refine XrefP.of_views x1 (fun c => ?_) (fun k => by simp) (by simp) (by simp [hR]) (by simp)
              simp only [ck_sendOrRemove, ck_setSvcs, ck_setConn, ck_setCalls]
              by_cases hcc : c = id
              · simp [hcc]
              · simp [hcc, Ne.symm hcc]

theorem callFunction2_xref {sv} {s s' : St} {id serial svc f v p} {ok : Bool} (hx : XrefP sv s)
    (hR : s.w.removeCalls = []) (hroom : s.b.calls.elems.length ≤ u32Max) :
    callFunction2 s id serial svc f v p = .ok (s', ok) → XrefP sv s' := by
  intro h; unfold callFunction2 at h
  split at h
  · simp only [okH, Except.ok.injEq, Prod.mk.injEq] at h; obtain ⟨rfl, _⟩ := h; exact hx
  · split at h
    · simp only [errH, Except.ok.injEq, Prod.mk.injEq] at h; obtain ⟨rfl, _⟩ := h; exact hx
    · exact callFunctionImpl_xref hx hR hroom h

theorem abortFunctionCall_xref {sv} {s s' : St} {id serial} {ok : Bool} (hx : XrefP sv s) :
    abortFunctionCall s id serial = .ok (s', ok) → XrefP sv s' := by
  intro h; unfold abortFunctionCall at h
  repeat' ((try simp only [] at h); split at h)
  all_goals (simp only [okH, errH, Except.ok.injEq, Prod.mk.injEq] at h; obtain ⟨rfl, _⟩ := h)
  · exact hx
  · exact hx
  · exact hx
  · rename_i cs ci hf hr
    exact XrefP.of_views (XP.push_abort (cs, ci) hx) (fun c => rfl) (fun k => rfl) rfl rfl (by simp)

theorem destroyObject_xref {sv} {s s' : St} {id serial c} {ok : Bool} (hx : XrefP sv s) :
    destroyObject s id serial c = .ok (s', ok) → XrefP sv s' := by
  intro h; unfold destroyObject at h
  repeat' ((try simp only [] at h); split at h)
  all_goals (try (simp only [okH, errH, Except.ok.injEq, Prod.mk.injEq, reduceCtorEq] at h))
  all_goals (try (exact h.elim))
  all_goals (try (have hfst := congrArg Prod.fst h; (try dsimp only at hfst); rw [← hfst]; exact hx.of_F (CkEq.of_conns (by simp)) (by simp [SameF])))
  all_goals (try (obtain ⟨rfl, _⟩ := h))
  all_goals (try exact hx)
  all_goals (try (exact hx.of_F (CkEq.of_conns (by simp)) (by simp [SameF])))
  all_goals (exact removeObject_xref (XrefP.of_F' (s' := (s.send id _).1) hx (CkEq.of_conns (by simp)) (by simp [SameF])) ‹_›)

theorem destroyService_xref {sv} {s s' : St} {id serial c} {ok : Bool} (hx : XrefP sv s) :
    destroyService s id serial c = .ok (s', ok) → XrefP sv s' := by
  intro h; unfold destroyService at h
  repeat' ((try simp only [] at h); split at h)
  all_goals (try (simp only [okH, errH, Except.ok.injEq, Prod.mk.injEq, reduceCtorEq] at h))
  all_goals (try (exact h.elim))
  all_goals (try (have hfst := congrArg Prod.fst h; (try dsimp only at hfst); rw [← hfst]; exact hx.of_F (CkEq.of_conns (by simp)) (by simp [SameF])))
  all_goals (try (obtain ⟨rfl, _⟩ := h))
  all_goals (try exact hx)
  all_goals (try (exact hx.of_F (CkEq.of_conns (by simp)) (by simp [SameF])))
  all_goals (exact removeService_xref (XrefP.of_F' (s' := (s.send id _).1) hx (CkEq.of_conns (by simp)) (by simp [SameF])) ‹_›)

end Aldrin.Broker
