/-
A connection whose task is gone, or that has been removed, never comes back within the life of its id: no
handler, clean-up or work-loop step of the broker model turns `alive` on again or re-inserts a removed connection
(only `newConn` adds one).
-/
import Aldrin.Lemmas.Broker.Replies
import Aldrin.Lemmas.Broker.AL

namespace Aldrin.Broker

/-- the connection exists and its task still takes messages: `send` to it succeeds -/
def aliveB (s : St) (c : ConnId) : Bool :=
  match AL.find? c s.b.conns with
  | some conn => conn.alive
  | none => false

/-- no connection comes (back) to life -/
def AliveLe (s s' : St) : Prop := ∀ c, aliveB s' c = true → aliveB s c = true

theorem AliveLe.refl (s : St) : AliveLe s s := fun _ h => h
theorem AliveLe.trans {a b c : St} (h1 : AliveLe a b) (h2 : AliveLe b c) : AliveLe a c := fun x h => h1 x (h2 x h)

theorem aliveB_of_conns {s s' : St} (h : s'.b.conns = s.b.conns) (c : ConnId) : aliveB s' c = aliveB s c := by
  simp [aliveB, h]

theorem AliveLe.of_conns {s s' : St} (h : s'.b.conns = s.b.conns) : AliveLe s s' := by
  intro c; rw [aliveB_of_conns h]; exact fun x => x

@[simp, grind =] theorem aliveB_setObjUuids (s : St) (x : List (Cookie × Uuid)) (c : ConnId) : aliveB (s.setObjUuids x) c = aliveB s c := rfl
@[simp, grind =] theorem aliveB_setObjs (s : St) (x : List (Uuid × Obj)) (c : ConnId) : aliveB (s.setObjs x) c = aliveB s c := rfl
@[simp, grind =] theorem aliveB_setSvcUuids (s : St) (x : List (Cookie × (ObjId × Uuid × SvcInfo))) (c : ConnId) : aliveB (s.setSvcUuids x) c = aliveB s c := rfl
@[simp, grind =] theorem aliveB_setSvcs (s : St) (x : List ((Uuid × Uuid) × Svc)) (c : ConnId) : aliveB (s.setSvcs x) c = aliveB s c := rfl
@[simp, grind =] theorem aliveB_setCalls (s : St) (x : SerialMap Call) (c : ConnId) : aliveB (s.setCalls x) c = aliveB s c := rfl
@[simp, grind =] theorem aliveB_setChannels (s : St) (x : List (Cookie × Chan)) (c : ConnId) : aliveB (s.setChannels x) c = aliveB s c := rfl
@[simp, grind =] theorem aliveB_setListeners (s : St) (x : List (Cookie × Listener)) (c : ConnId) : aliveB (s.setListeners x) c = aliveB s c := rfl
@[simp, grind =] theorem aliveB_setIntrospection (s : St) (x : List (Uuid × IEntry)) (c : ConnId) : aliveB (s.setIntrospection x) c = aliveB s c := rfl
@[simp, grind =] theorem aliveB_setIqueries (s : St) (x : SerialMap Uuid) (c : ConnId) : aliveB (s.setIqueries x) c = aliveB s c := rfl
@[simp, grind =] theorem aliveB_setNextCookie (s : St) (x : Cookie) (c : ConnId) : aliveB (s.setNextCookie x) c = aliveB s c := rfl
@[simp, grind =] theorem aliveB_setWShutdownNow (s : St) (x : Bool) (c : ConnId) : aliveB (s.setWShutdownNow x) c = aliveB s c := rfl
@[simp, grind =] theorem aliveB_setWShutdownIdle (s : St) (x : Bool) (c : ConnId) : aliveB (s.setWShutdownIdle x) c = aliveB s c := rfl
@[simp, grind =] theorem aliveB_setWRemoveConns (s : St) (x : List (ConnId × Bool)) (c : ConnId) : aliveB (s.setWRemoveConns x) c = aliveB s c := rfl
@[simp, grind =] theorem aliveB_setWRemoveCalls (s : St) (x : List (Nat × ConnId × CallResult)) (c : ConnId) : aliveB (s.setWRemoveCalls x) c = aliveB s c := rfl
@[simp, grind =] theorem aliveB_setWServicesDestroyed (s : St) (x : List (ConnId × Cookie)) (c : ConnId) : aliveB (s.setWServicesDestroyed x) c = aliveB s c := rfl
@[simp, grind =] theorem aliveB_setWUnsubscribeEvent (s : St) (x : List (ConnId × Cookie × Nat)) (c : ConnId) : aliveB (s.setWUnsubscribeEvent x) c = aliveB s c := rfl
@[simp, grind =] theorem aliveB_setWUnsubscribeAll (s : St) (x : List (ConnId × Cookie)) (c : ConnId) : aliveB (s.setWUnsubscribeAll x) c = aliveB s c := rfl
@[simp, grind =] theorem aliveB_setWCreateObject (s : St) (x : List ObjId) (c : ConnId) : aliveB (s.setWCreateObject x) c = aliveB s c := rfl
@[simp, grind =] theorem aliveB_setWDestroyObject (s : St) (x : List ObjId) (c : ConnId) : aliveB (s.setWDestroyObject x) c = aliveB s c := rfl
@[simp, grind =] theorem aliveB_setWCreateService (s : St) (x : List SvcId) (c : ConnId) : aliveB (s.setWCreateService x) c = aliveB s c := rfl
@[simp, grind =] theorem aliveB_setWDestroyService (s : St) (x : List SvcId) (c : ConnId) : aliveB (s.setWDestroyService x) c = aliveB s c := rfl
@[simp, grind =] theorem aliveB_setWAbortCalls (s : St) (x : List (Nat × ConnId)) (c : ConnId) : aliveB (s.setWAbortCalls x) c = aliveB s c := rfl
@[simp, grind =] theorem aliveB_setOut (s : St) (x : List Out) (c : ConnId) : aliveB (s.setOut x) c = aliveB s c := rfl
@[simp, grind =] theorem aliveB_stat (s : St) (f : Stats → Stats) (c : ConnId) : aliveB (s.stat f) c = aliveB s c := rfl
@[simp, grind =] theorem aliveB_pushRemoveConn (s : St) (id : ConnId) (b : Bool) (c : ConnId) : aliveB (s.pushRemoveConn id b) c = aliveB s c := rfl
@[simp, grind =] theorem aliveB_freshCookie (s : St) (c : ConnId) : aliveB s.freshCookie.1 c = aliveB s c := rfl

@[simp, grind =] theorem aliveB_setConn (s : St) (id : ConnId) (new : Conn) (c : ConnId) :
    aliveB (s.setConn id new) c = if id = c then new.alive else aliveB s c := by
  simp only [aliveB, St.setConn_b_conns, AL.find?_insert]
  by_cases h : id = c <;> simp [h]

theorem aliveB_conn {s : St} {id : ConnId} {conn : Conn} (h : s.conn? id = some conn) : aliveB s id = conn.alive := by
  simp only [St.conn?] at h; simp [aliveB, h]

@[simp] theorem aliveB_ite (s : St) (id c : ConnId) : (if id = c then aliveB s id else aliveB s c) = aliveB s c := by
  split
  · rename_i h; subst h; rfl
  · rfl

@[simp] theorem aliveB_getD (s : St) (id : ConnId) : ((s.conn? id).map (fun x => x.alive)).getD false = aliveB s id := by
  unfold aliveB St.conn?
  cases AL.find? id s.b.conns <;> rfl

@[simp] theorem aliveB_getD' (s : St) (id : ConnId) : ((AL.find? id s.b.conns).map (fun x => x.alive)).getD false = aliveB s id :=
  aliveB_getD s id

theorem aliveB_updConn' (s : St) (id : ConnId) (f : Conn → Conn) (c : ConnId) :
    aliveB (s.updConn id f) c = if id = c then ((s.conn? id).map (fun x => (f x).alive)).getD false else aliveB s c := by
  unfold St.updConn
  cases h : s.conn? id with
  | none =>
    simp only [Option.map_none, Option.getD_none]
    split
    · rename_i heq; subst heq
      simp only [St.conn?] at h; simp [aliveB, h]
    · rfl
  | some old => simp [aliveB_setConn]

theorem aliveB_updConn (s : St) (id : ConnId) (f : Conn → Conn) (c : ConnId) (hf : ∀ x, (f x).alive = x.alive) :
    aliveB (s.updConn id f) c = aliveB s c := by
  rw [aliveB_updConn']; simp only [hf, aliveB_getD, aliveB_ite]

@[simp] theorem Conn.subscribeEvent_alive (c : Conn) (svc : Cookie) (ev : Nat) : (c.subscribeEvent svc ev).alive = c.alive := rfl
@[simp] theorem Conn.unsubscribeEvent_alive (c : Conn) (svc : Cookie) (ev : Nat) : (c.unsubscribeEvent svc ev).alive = c.alive := by
  unfold Conn.unsubscribeEvent; split
  · dsimp only; split <;> rfl
  · rfl
@[simp] theorem Conn.unsubscribeAllOf_alive (c : Conn) (svc : Cookie) : (c.unsubscribeAllOf svc).alive = c.alive := rfl

@[simp, grind =] theorem aliveB_send (s : St) (to : ConnId) (m : Rsp) (v : Option Nat) (c : ConnId) : aliveB (s.send to m v).1 c = aliveB s c :=
  aliveB_of_conns (by simp) c
@[simp, grind =] theorem aliveB_sendOrRemove (s : St) (to : ConnId) (m : Rsp) (v : Option Nat) (c : ConnId) : aliveB (s.sendOrRemove to m v) c = aliveB s c :=
  aliveB_of_conns (by simp) c

/-- a successful send: the receiver is alive -/
theorem send_ok_alive {s : St} {to : ConnId} {m : Rsp} {v : Option Nat} (h : (s.send to m v).2 = true) : aliveB s to = true := by
  unfold St.send at h
  simp only [] at h
  split at h
  · rename_i c hc
    split at h
    · rename_i ha
      have : AL.find? to s.b.conns = some c := by simpa [St.conn?] using hc
      simp [aliveB, this, ha]
    · simp at h
  · simp at h

syntax "alive_tac" ident : tactic
macro_rules
  | `(tactic| alive_tac $f) => `(tactic|
      (intro h; unfold $f at h
       repeat' ((try simp only [] at h); split at h)
       all_goals (try (simp only [okH, errH, Except.ok.injEq, Prod.mk.injEq, reduceCtorEq] at h))
       all_goals (try (have hfst := congrArg Prod.fst h; (try dsimp only at hfst); rw [← hfst]; clear hfst h))
       all_goals (try (exact h.elim))
       all_goals (try (obtain ⟨h1, h2⟩ := h; subst h1; subst h2))
       all_goals (try subst_vars)
       all_goals (try (simp only [AliveLe]; intro c; simp [aliveB_updConn']; done))
       all_goals (try (grind [AliveLe, aliveB_conn, aliveB_updConn']))))

@[simp, grind =] theorem aliveB_removeBusListener (s : St) (ck : Cookie) (c : ConnId) : aliveB (removeBusListener s ck) c = aliveB s c := by
  unfold removeBusListener; split <;> simp [aliveB_updConn']

theorem removeService_calls_alive : ∀ (l : List Nat) (s s' : St), removeService.calls s l = .ok s' → AliveLe s s' := by
  intro l
  induction l with
  | nil => intro s s' h; simp [removeService.calls] at h; subst h; exact AliveLe.refl _
  | cons a l ih =>
    intro s s' h
    simp only [removeService.calls] at h
    split at h
    · simp at h
    · refine AliveLe.trans ?_ (ih _ _ h)
      split <;> exact AliveLe.of_conns (by simp)

theorem AliveLe.step_setConn {s : St} {cid : ConnId} {old new : Conn} (h : s.conn? cid = some old) (ha : new.alive = old.alive) :
    AliveLe s (s.setConn cid new) := by
  intro c hc
  rw [aliveB_setConn] at hc
  split at hc
  · rename_i heq; subst heq; rw [aliveB_conn h, ← ha]; exact hc
  · exact hc

@[grind →] theorem removeService_alive {s s' : St} {c : Cookie} : removeService s c = .ok s' → AliveLe s s' := by
  intro h
  unfold removeService at h
  split at h
  · simp only [Except.ok.injEq] at h; subst h; exact AliveLe.refl _
  · (try simp only [] at h)
    split at h
    · simp at h
    · (try simp only [] at h)
      split at h
      · simp at h
      · rename_i s1 hc
        have h1 := removeService_calls_alive _ _ _ hc
        simp only [Except.ok.injEq] at h
        subst h
        refine AliveLe.trans (AliveLe.trans ?_ h1) ?_
        · split <;> exact AliveLe.of_conns (by simp)
        · refine AliveLe.trans ?_ (AliveLe.of_conns (St.stat_b_conns _ _))
          apply foldl_inv (AliveLe s1) _ _ _ _ (AliveLe.refl _)
          intro s2 a hp
          refine AliveLe.trans hp ?_
          split
          · rename_i c0 hc0
            exact AliveLe.trans (AliveLe.step_setConn (new := c0.unsubscribeAllOf _) hc0 rfl) (AliveLe.of_conns rfl)
          · exact AliveLe.refl _

@[grind →] theorem removeEventSubscription_alive {s s' : St} {cid c ev} : removeEventSubscription s cid c ev = .ok s' → AliveLe s s' := by
  alive_tac removeEventSubscription

@[grind →] theorem removeChannelEnd_alive {s s' : St} {c e o} : removeChannelEnd s c e o = .ok s' → AliveLe s s' := by
  alive_tac removeChannelEnd

theorem removeObject_svcs_alive : ∀ (l : List Cookie) (s s' : St), removeObject.svcs s l = .ok s' → AliveLe s s' := by
  intro l
  induction l with
  | nil => intro s s' h; simp [removeObject.svcs] at h; subst h; exact AliveLe.refl _
  | cons a l ih =>
    intro s s' h
    simp only [removeObject.svcs] at h
    split at h
    · simp at h
    · exact AliveLe.trans (removeService_alive ‹_›) (ih _ _ h)

@[grind →] theorem removeObject_alive {s s' : St} {c : Cookie} : removeObject s c = .ok s' → AliveLe s s' := by
  intro h
  unfold removeObject at h
  repeat' ((try simp only [] at h); split at h)
  all_goals (try (simp only [Except.ok.injEq, reduceCtorEq] at h))
  all_goals (try (exact h.elim))
  all_goals (try subst h)
  · exact AliveLe.refl _
  · rename_i hs
    refine AliveLe.trans (AliveLe.trans ?_ (removeObject_svcs_alive _ _ _ hs)) (AliveLe.of_conns rfl)
    intro c; simp [aliveB_updConn']

@[grind →] theorem removeAllEventsSubscription_alive {s s' : St} {cid c} : removeAllEventsSubscription s cid c = .ok s' → AliveLe s s' := by
  alive_tac removeAllEventsSubscription

@[grind →] theorem removeSubscription_alive {s s' : St} {cid c} : removeSubscription s cid c = .ok s' → AliveLe s s' := by
  alive_tac removeSubscription

@[grind →] theorem askIntrospection_alive {s s' : St} {ty e} : askIntrospection s ty e = .ok s' → AliveLe s s' := by
  alive_tac askIntrospection

theorem replyPending_alive : ∀ (l : List IQuery) (s s' : St) (r m), replyPending s l r m = .ok s' → AliveLe s s' := by
  intro l
  induction l with
  | nil => intro s s' r m h; simp [replyPending] at h; subst h; exact AliveLe.refl _
  | cons a l ih =>
    intro s s' r m h
    simp only [replyPending] at h
    repeat' (split at h)
    · simp at h
    · exact ih _ _ _ _ h
    · exact AliveLe.trans (AliveLe.of_conns (by simp)) (ih _ _ _ _ h)

@[grind →] theorem replyPending_alive' {l : List IQuery} {s s' : St} {r m} (h : replyPending s l r m = .ok s') : AliveLe s s' :=
  replyPending_alive _ _ _ _ _ h

theorem removeIntrospectionConn_go_alive : ∀ (l : List (Nat × Option Uuid × List IQuery)) (s s' : St),
    removeIntrospectionConn.go s l = .ok s' → AliveLe s s' := by
  intro l
  induction l with
  | nil => intro s s' h; simp [removeIntrospectionConn.go] at h; subst h; exact AliveLe.refl _
  | cons a l ih =>
    intro s s' h
    obtain ⟨serial, cont, pending⟩ := a
    simp only [removeIntrospectionConn.go] at h
    repeat' ((try simp only [] at h); split at h)
    all_goals (try (simp at h; done))
    · have h1 := replyPending_alive _ _ _ _ _ ‹_›
      have h2 := ih _ _ h
      exact AliveLe.trans (AliveLe.trans (by simp [AliveLe]) h1) h2
    · have h2 := ih _ _ h
      exact AliveLe.trans (by simp [AliveLe]) h2
    · have h1 := askIntrospection_alive ‹_›
      have h2 := ih _ _ h
      exact AliveLe.trans (AliveLe.trans (by simp [AliveLe]) h1) h2

@[grind →] theorem removeIntrospectionConn_alive {s s' : St} {cid} : removeIntrospectionConn s cid = .ok s' → AliveLe s s' := by
  intro h
  unfold removeIntrospectionConn at h
  simp only [] at h
  have := removeIntrospectionConn_go_alive _ _ _ h
  simp_all [AliveLe]

--HANDLERS
@[grind →] theorem createObject_alive {s s' : St} {id serial uuid} {ok : Bool} : createObject s id serial uuid = .ok (s', ok) → AliveLe s s' := by
  alive_tac createObject

@[grind →] theorem destroyObject_alive {s s' : St} {id serial c} {ok : Bool} : destroyObject s id serial c = .ok (s', ok) → AliveLe s s' := by
  alive_tac destroyObject

@[grind →] theorem createServiceImpl_alive {s s' : St} {id serial oc uuid info} {ok : Bool} : createServiceImpl s id serial oc uuid info = .ok (s', ok) → AliveLe s s' := by
  alive_tac createServiceImpl

@[grind →] theorem createService_alive {s s' : St} {id serial oc uuid v} {ok : Bool} : createService s id serial oc uuid v = .ok (s', ok) → AliveLe s s' := by
  alive_tac createService

@[grind →] theorem createService2_alive {s s' : St} {id serial oc uuid info} {ok : Bool} : createService2 s id serial oc uuid info = .ok (s', ok) → AliveLe s s' := by
  alive_tac createService2

@[grind →] theorem destroyService_alive {s s' : St} {id serial c} {ok : Bool} : destroyService s id serial c = .ok (s', ok) → AliveLe s s' := by
  alive_tac destroyService

@[grind →] theorem callFunctionImpl_alive {s s' : St} {id serial svc f v p} {ok : Bool} : callFunctionImpl s id serial svc f v p = .ok (s', ok) → AliveLe s s' := by
  alive_tac callFunctionImpl

@[grind →] theorem callFunction2_alive {s s' : St} {id serial svc f v p} {ok : Bool} : callFunction2 s id serial svc f v p = .ok (s', ok) → AliveLe s s' := by
  alive_tac callFunction2

@[grind →] theorem callFunctionReply_alive {s s' : St} {id serial r} {ok : Bool} : callFunctionReply s id serial r = .ok (s', ok) → AliveLe s s' := by
  alive_tac callFunctionReply

@[grind →] theorem abortFunctionCall_alive {s s' : St} {id serial} {ok : Bool} : abortFunctionCall s id serial = .ok (s', ok) → AliveLe s s' := by
  alive_tac abortFunctionCall

@[grind →] theorem subscribeEvent_alive {s s' : St} {id serial svc ev} {ok : Bool} : subscribeEvent s id serial svc ev = .ok (s', ok) → AliveLe s s' := by
  alive_tac subscribeEvent

@[grind →] theorem unsubscribeEvent_alive {s s' : St} {id svc ev} {ok : Bool} : unsubscribeEvent s id svc ev = .ok (s', ok) → AliveLe s s' := by
  alive_tac unsubscribeEvent

@[grind →] theorem emitEvent_alive {s s' : St} {id svc ev p} {ok : Bool} : emitEvent s id svc ev p = .ok (s', ok) → AliveLe s s' := by
  intro h; unfold emitEvent at h
  repeat' ((try simp only [] at h); split at h)
  all_goals (try (simp only [okH, errH, Except.ok.injEq, Prod.mk.injEq, reduceCtorEq] at h))
  all_goals (try (obtain ⟨h1, h2⟩ := h; subst h1; subst h2))
  all_goals (try (exact AliveLe.refl _))
  apply foldl_inv (fun s' => AliveLe s s')
  · intro s1 a hp; split
    · exact AliveLe.trans hp (AliveLe.of_conns (by simp))
    · exact hp
  · exact AliveLe.refl _

@[grind →] theorem queryServiceVersion_alive {s s' : St} {id serial svc} {ok : Bool} : queryServiceVersion s id serial svc = .ok (s', ok) → AliveLe s s' := by
  alive_tac queryServiceVersion

@[grind →] theorem queryServiceInfo_alive {s s' : St} {id serial svc} {ok : Bool} : queryServiceInfo s id serial svc = .ok (s', ok) → AliveLe s s' := by
  alive_tac queryServiceInfo

@[grind →] theorem subscribeService_alive {s s' : St} {id serial svc} {ok : Bool} : subscribeService s id serial svc = .ok (s', ok) → AliveLe s s' := by
  alive_tac subscribeService

@[grind →] theorem unsubscribeService_alive {s s' : St} {id svc} {ok : Bool} : unsubscribeService s id svc = .ok (s', ok) → AliveLe s s' := by
  alive_tac unsubscribeService

@[grind →] theorem subscribeAllEvents_alive {s s' : St} {id serial svc} {ok : Bool} : subscribeAllEvents s id serial svc = .ok (s', ok) → AliveLe s s' := by
  alive_tac subscribeAllEvents

@[grind →] theorem unsubscribeAllEvents_alive {s s' : St} {id serial svc} {ok : Bool} : unsubscribeAllEvents s id serial svc = .ok (s', ok) → AliveLe s s' := by
  alive_tac unsubscribeAllEvents

@[grind →] theorem createChannel_alive {s s' : St} {id serial e cap} {ok : Bool} : createChannel s id serial e cap = .ok (s', ok) → AliveLe s s' := by
  alive_tac createChannel

@[grind →] theorem closeChannelEnd_alive {s s' : St} {id serial c e} {ok : Bool} : closeChannelEnd s id serial c e = .ok (s', ok) → AliveLe s s' := by
  alive_tac closeChannelEnd

@[grind →] theorem claimChannelEnd_alive {s s' : St} {id serial c e cap} {ok : Bool} : claimChannelEnd s id serial c e cap = .ok (s', ok) → AliveLe s s' := by
  alive_tac claimChannelEnd

@[grind →] theorem addChannelCapacity_alive {s s' : St} {id c cap} {ok : Bool} : addChannelCapacity s id c cap = .ok (s', ok) → AliveLe s s' := by
  alive_tac addChannelCapacity

@[grind →] theorem sendItem_alive {s s' : St} {id c p} {ok : Bool} : sendItem s id c p = .ok (s', ok) → AliveLe s s' := by
  alive_tac sendItem

@[grind →] theorem sync_alive {s s' : St} {id serial} {ok : Bool} : sync s id serial = .ok (s', ok) → AliveLe s s' := by
  alive_tac sync

@[grind →] theorem createBusListener_alive {s s' : St} {id serial} {ok : Bool} : createBusListener s id serial = .ok (s', ok) → AliveLe s s' := by
  alive_tac createBusListener

@[grind →] theorem destroyBusListener_alive {s s' : St} {id serial c} {ok : Bool} : destroyBusListener s id serial c = .ok (s', ok) → AliveLe s s' := by
  alive_tac destroyBusListener

@[grind →] theorem updListener_alive {s s' : St} {id c f} {ok : Bool} : updListener s id c f = .ok (s', ok) → AliveLe s s' := by
  alive_tac updListener

theorem sendAll_conns : ∀ (l : List Rsp) (s : St) (id : ConnId), (sendAll s id l).1.b.conns = s.b.conns := by
  intro l
  induction l with
  | nil => intro s id; rfl
  | cons a l ih =>
    intro s id
    simp only [sendAll]
    split
    · rw [ih]; simp
    · simp

@[grind →] theorem startBusListener_alive {s s' : St} {id serial c sc} {ok : Bool} : startBusListener s id serial c sc = .ok (s', ok) → AliveLe s s' := by
  intro h; unfold startBusListener at h
  repeat' ((try simp only [] at h); split at h)
  all_goals (try (simp only [okH, errH, Except.ok.injEq, Prod.mk.injEq, reduceCtorEq] at h))
  all_goals (try (exact h.elim))
  all_goals (try (have hfst := congrArg Prod.fst h; (try dsimp only at hfst); rw [← hfst]; clear hfst h))
  all_goals (try (obtain ⟨h1, h2⟩ := h; subst h1; subst h2))
  all_goals (exact AliveLe.of_conns (by simp [sendAll_conns]))

@[grind →] theorem stopBusListener_alive {s s' : St} {id serial c} {ok : Bool} : stopBusListener s id serial c = .ok (s', ok) → AliveLe s s' := by
  alive_tac stopBusListener

@[grind →] theorem registerIntrospection_alive {s s' : St} {id tys} {ok : Bool} : registerIntrospection s id tys = .ok (s', ok) → AliveLe s s' := by
  intro h; unfold registerIntrospection at h
  repeat' ((try simp only [] at h); split at h)
  all_goals (try (simp only [okH, errH, Except.ok.injEq, Prod.mk.injEq, reduceCtorEq] at h))
  all_goals (try (obtain ⟨h1, h2⟩ := h; subst h1; subst h2))
  all_goals (try (exact AliveLe.refl _))
  apply foldl_inv (fun s' => AliveLe s s')
  · intro s1 a hp; exact AliveLe.trans hp (AliveLe.of_conns (by simp))
  · exact AliveLe.refl _

@[grind →] theorem queryIntrospection_alive {s s' : St} {id serial ty} {ok : Bool} : queryIntrospection s id serial ty = .ok (s', ok) → AliveLe s s' := by
  alive_tac queryIntrospection

@[grind →] theorem queryIntrospectionReply_alive {s s' : St} {id serial r} {ok : Bool} : queryIntrospectionReply s id serial r = .ok (s', ok) → AliveLe s s' := by
  alive_tac queryIntrospectionReply

theorem AliveLe.erase {s s0 : St} (id : ConnId) (h : s0.b.conns = s.b.conns) : AliveLe s (s0.setConns (AL.erase id s0.b.conns)) := by
  intro c hc
  simp only [aliveB, St.setConns_b_conns, AL.find?_erase, h] at hc ⊢
  split at hc
  · rename_i heq; split at heq
    · simp at heq
    · rw [heq]; exact hc
  · simp at hc

theorem shutdownConnection_alive {s s' : St} {id b} (hr : shutdownConnection s id b = .ok s') : AliveLe s s' := by
  unfold shutdownConnection at hr
  split at hr
  · simp at hr; exact hr ▸ AliveLe.refl _
  · rename_i conn hconn
    simp only [] at hr
    repeat' (split at hr)
    all_goals (try (simp at hr; done))
    rename_i s1 h1 _ s2 h2 _ s3 h3 _ s4 h4 _ s5 h5 _ s6 h6
    have i1 : AliveLe s s1 := by
      refine foldE_inv (AliveLe s) _ (fun s a s' hp hr => AliveLe.trans hp (removeObject_alive hr)) _ _ _ ?_ h1
      apply foldl_inv (AliveLe s) _ (fun s a hp => by simpa [AliveLe] using hp)
      apply AliveLe.erase
      split <;> (try split) <;> simp
    have i2 := foldE_inv (AliveLe s) _ (fun s a s' hp hr => AliveLe.trans hp (removeEventSubscription_alive hr)) _ _ _ i1 h2
    have i3 := foldE_inv (AliveLe s) _ (fun s a s' hp hr => AliveLe.trans hp (removeAllEventsSubscription_alive hr)) _ _ _ i2 h3
    have i4 := foldE_inv (AliveLe s) _ (fun s a s' hp hr => AliveLe.trans hp (removeSubscription_alive hr)) _ _ _ i3 h4
    have i5 := foldE_inv (AliveLe s) _ (fun s a s' hp hr => AliveLe.trans hp (removeChannelEnd_alive hr)) _ _ _ i4 h5
    have i6 := foldE_inv (AliveLe s) _ (fun s a s' hp hr => AliveLe.trans hp (removeChannelEnd_alive hr)) _ _ _ i5 h6
    refine AliveLe.trans ?_ (removeIntrospectionConn_alive hr)
    refine AliveLe.trans (b := List.foldl (fun s (p : Nat × (Nat × ConnId)) => (s.setWAbortCalls ((p.2.1, p.2.2) :: s.w.abortCalls))) s6 conn.calls) ?_ (by simp [AliveLe])
    apply foldl_inv (AliveLe s) _ ?_ _ _ i6
    intro s a hp
    simpa [AliveLe] using hp

theorem emitBusEvent_alive (s : St) (e : BusEv) : AliveLe s (emitBusEvent s e) := by
  unfold emitBusEvent
  simp only []
  apply foldl_inv (fun s' => AliveLe s s')
  · intro s1 a hp; split <;> simp_all [AliveLe]
  · exact AliveLe.refl _

theorem AliveLe.conn_some {s : St} {cid : ConnId} {conn : Conn} (h : s.conn? cid = some conn) (c : ConnId) :
    (if cid = c then conn.alive = true else aliveB s c = true) → aliveB s c = true := by
  intro hc
  split at hc
  · rename_i he; subst he; rw [aliveB_conn h]; exact hc
  · exact hc

@[grind →] theorem abortCall_alive {s s' : St} {serial cid} : abortCall s serial cid = .ok s' → AliveLe s s' := by
  intro h; unfold abortCall at h
  split at h
  · simp at h; exact h ▸ AliveLe.refl _
  · split at h
    · simp at h; exact h ▸ AliveLe.refl _
    · simp only [] at h
      have e1 : ∀ s1 : St, AliveLe s1 (match s1.conn? cid with
          | some c => if c.version ≥ Generated.abortMinCallee then s1.sendOrRemove cid (.abortFunctionCall serial) else s1
          | none => s1) := by
        intro s1; split
        · split
          · exact AliveLe.of_conns (by simp)
          · exact AliveLe.refl _
        · exact AliveLe.refl _
      generalize hs1 : s.setCalls _ = s1 at h
      have a1 : AliveLe s s1 := hs1 ▸ AliveLe.of_conns rfl
      split at h
      · simp only [Except.ok.injEq] at h; subst h
        exact AliveLe.trans a1 (e1 s1)
      · split at h
        · simp at h
        · rename_i caller hcaller _
          simp only [Except.ok.injEq] at h; subst h
          refine AliveLe.trans (AliveLe.trans a1 (e1 s1)) ?_
          exact AliveLe.trans (AliveLe.step_setConn (new := { caller with calls := AL.erase _ caller.calls }) hcaller rfl) (AliveLe.of_conns (St.sendOrRemove_b_conns _ _ _ _))

theorem processOne_alive {s s' : St} (hr : processOne s = some (.ok s')) : AliveLe s s' := by
  unfold processOne at hr
  repeat' (split at hr)
  all_goals (try (simp only [Option.some.injEq, reduceCtorEq] at hr))
  all_goals first
    | (refine AliveLe.trans (b := s.setWRemoveConns _) ?_ (shutdownConnection_alive hr); simp [AliveLe]; done)
    | (refine AliveLe.trans (b := s.setWAbortCalls _) ?_ (abortCall_alive hr); simp [AliveLe]; done)
    | (simp only [Except.ok.injEq] at hr; subst hr; simp [AliveLe]; done)
    | (simp only [Except.ok.injEq] at hr; subst hr; refine AliveLe.trans (b := s.setWCreateObject _) ?_ (emitBusEvent_alive _ _); simp [AliveLe]; done)
    | (simp only [Except.ok.injEq] at hr; subst hr; refine AliveLe.trans (b := s.setWCreateService _) ?_ (emitBusEvent_alive _ _); simp [AliveLe]; done)
    | (simp only [Except.ok.injEq] at hr; subst hr; refine AliveLe.trans (b := s.setWDestroyService _) ?_ (emitBusEvent_alive _ _); simp [AliveLe]; done)
    | (simp only [Except.ok.injEq] at hr; subst hr; refine AliveLe.trans (b := s.setWDestroyObject _) ?_ (emitBusEvent_alive _ _); simp [AliveLe]; done)
    | (simp only [Except.ok.injEq] at hr; subst hr; split <;> simp [AliveLe]; done)
    | (split at hr <;> (try split at hr) <;> (try simp only [Except.ok.injEq, reduceCtorEq] at hr) <;>
        first | (exact hr.elim) | (subst hr; simp [AliveLe]; done) | (subst hr; simp only [AliveLe]; intro c hc; (try simp at hc); exact AliveLe.conn_some ‹_› c hc))

theorem processLoop_alive : ∀ (fuel : Nat) (s s' : St), processLoop fuel s = .ok s' → AliveLe s s' := by
  intro fuel
  induction fuel with
  | zero => intro s s' hr; simp [processLoop] at hr
  | succ n ih =>
    intro s s' hr
    simp only [processLoop] at hr
    split at hr
    · simp at hr; exact hr ▸ AliveLe.refl _
    · simp at hr
    · exact AliveLe.trans (processOne_alive ‹_›) (ih _ _ hr)

theorem handleMessage_alive {s s' : St} {id : ConnId} {m : Req} {ok : Bool}
    (hr : handleMessage s id m = .ok (s', ok)) : AliveLe s s' := by
  cases m <;> simp only [handleMessage] at hr
  case createObject => exact createObject_alive hr
  case destroyObject => exact destroyObject_alive hr
  case createService => exact createService_alive hr
  case createService2 => exact createService2_alive hr
  case destroyService => exact destroyService_alive hr
  case callFunction => exact callFunctionImpl_alive hr
  case callFunction2 => exact callFunction2_alive hr
  case callFunctionReply => exact callFunctionReply_alive hr
  case abortFunctionCall => exact abortFunctionCall_alive hr
  case subscribeEvent serial _ _ => exact subscribeEvent_alive hr
  case unsubscribeEvent => exact unsubscribeEvent_alive hr
  case emitEvent => exact emitEvent_alive hr
  case queryServiceVersion => exact queryServiceVersion_alive hr
  case queryServiceInfo => exact queryServiceInfo_alive hr
  case subscribeService => exact subscribeService_alive hr
  case unsubscribeService => exact unsubscribeService_alive hr
  case subscribeAllEvents serial _ => exact subscribeAllEvents_alive hr
  case unsubscribeAllEvents serial _ => exact unsubscribeAllEvents_alive hr
  case createChannel => exact createChannel_alive hr
  case closeChannelEnd => exact closeChannelEnd_alive hr
  case claimChannelEnd => exact claimChannelEnd_alive hr
  case sendItem => exact sendItem_alive hr
  case addChannelCapacity => exact addChannelCapacity_alive hr
  case sync => exact sync_alive hr
  case createBusListener => exact createBusListener_alive hr
  case destroyBusListener => exact destroyBusListener_alive hr
  case addFilter f => exact updListener_alive hr
  case removeFilter f => exact updListener_alive hr
  case clearFilters => exact updListener_alive hr
  case startBusListener => exact startBusListener_alive hr
  case stopBusListener => exact stopBusListener_alive hr
  case registerIntrospection => exact registerIntrospection_alive hr
  case queryIntrospection => exact queryIntrospection_alive hr
  case queryIntrospectionReply => exact queryIntrospectionReply_alive hr
  case other => simp [errH] at hr; exact hr.1 ▸ AliveLe.refl _


theorem handleEvent_alive {s s' : St} {e : Event} (he : ∀ id v, e ≠ .newConn id v) (hr : handleEvent s e = .ok s') : AliveLe s s' := by
  cases e <;> simp only [handleEvent] at hr
  case msg id m =>
    split at hr
    · simp at hr
    · rename_i s1 ok hm
      have := handleMessage_alive hm
      simp only [Except.ok.injEq] at hr
      subst hr
      refine AliveLe.trans this ?_
      split <;> exact AliveLe.of_conns rfl
  case newConn id v => exact absurd rfl (he id v)
  case taskDropped id =>
    simp only [Except.ok.injEq] at hr; subst hr
    intro c hc
    rw [aliveB_updConn'] at hc
    split at hc
    · cases hf : AL.find? id s.b.conns <;> simp [St.conn?, hf] at hc
    · exact hc
  all_goals (simp only [Except.ok.injEq] at hr; subst hr; exact AliveLe.of_conns (by simp))

/-- One turn of `Broker::run` other than the arrival of a new connection: no connection comes back to life. -/
theorem step_alive {b b' : Broker} {w w' : Work} {e : Event} {out : List Out} (he : ∀ id v, e ≠ .newConn id v)
    (hr : step b w e = .ok (b', w', out)) (c : ConnId) : aliveB ⟨b', w', []⟩ c = true → aliveB ⟨b, w, []⟩ c = true := by
  unfold step at hr
  split at hr
  · simp at hr
  · rename_i s1 h1
    split at hr
    · simp at hr
    · rename_i s2 h2
      simp only [Except.ok.injEq, Prod.mk.injEq] at hr
      obtain ⟨rfl, rfl, _⟩ := hr
      exact AliveLe.trans (handleEvent_alive he h1) (processLoop_alive _ _ _ h2) c

end Aldrin.Broker
