/-
The three `debug_assert!`s of `ConnectionState::remove_call` (in `call_function_reply`, `abort_call` and the deferred
`remove_function_call` items) under the cross-reference invariant of the call tables, and the states a turn of
`Broker::run` passes through (`InTurn`), all of which satisfy the invariant.
-/
import Aldrin.Lemmas.Broker.Xref2

set_option linter.unusedSimpArgs false
set_option linter.unusedVariables false
namespace Aldrin.Broker
open Generated

/-- under the invariant a call that is not aborted and whose caller is there is in the caller's table -/
theorem XrefP.caller_has_entry {sv} {s : St} (hx : XrefP sv s) {bs : Nat} {call : Call} {caller : Conn}
    (hg : s.b.calls.get? bs = some call) (hna : call.aborted = false)
    (hc : AL.find? call.callerConn s.b.conns = some caller) : AL.find? call.callerSerial caller.calls ≠ none := by
  have hk : ck s call.callerConn = some (caller.calls, caller.alive) := ck_of_find hc
  rcases hx.b bs call hg hna with ⟨t, al, callee, hk', hf⟩ | ⟨hk', _⟩ | ⟨hk', _⟩
  · rw [hk] at hk'; simp at hk'; rw [hk'.1, hf]; simp
  · rw [hk] at hk'; simp at hk'
  · rw [hk] at hk'; simp at hk'

/-- the `debug_assert!` of `ConnectionState::remove_call` in `call_function_reply` cannot fail -/
theorem reply_remove_call_assert_holds {sv} {s : St} (hx : XrefP sv s) (id : ConnId) (serial : Nat) (r : CallResult) :
    callFunctionReply s id serial r ≠ .error (.debugAssert "remove_call") := by
  intro h; unfold callFunctionReply at h
  split at h
  · simp [okH] at h
  · (try simp only [] at h)
    split at h
    · simp [okH] at h
    · rename_i call hcall
      (try simp only [] at h)
      split at h
      · simp at h
      · split at h
        · simp [okH] at h
        · (try simp only [] at h)
          split at h
          · simp at h
          · (try simp only [] at h)
            split at h
            · simp [okH] at h
            · rename_i hab
              have hna : call.aborted = false := by cases hb : call.aborted <;> simp_all
              split at h
              · simp [okH] at h
              · rename_i caller hcaller
                split at h
                · rename_i hnone
                  have := hx.caller_has_entry hcall hna (by simpa using hcaller)
                  cases hf : AL.find? call.callerSerial caller.calls <;> simp_all
                · simp [okH] at h

/-- the same for `abort_call` -/
theorem abort_remove_call_assert_holds {sv} {s : St} (hx : XrefP sv s) (bs : Nat) (cid : ConnId) (rest : List (Nat × ConnId)) :
    abortCall (s.setWAbortCalls rest) bs cid ≠ .error (.debugAssert "abort_call: remove_call") := by
  intro h; rw [abortCall_eq] at h
  simp only [St.setWAbortCalls_b_calls] at h
  split at h
  · simp at h
  · rename_i call hcall
    split at h
    · simp at h
    · rename_i hab
      have hna : call.aborted = false := by cases hb : call.aborted <;> simp_all
      (try simp only [] at h)
      split at h
      · simp at h
      · rename_i caller hcaller
        split at h
        · rename_i hnone
          have hk2 := ck_of_find hcaller
          rw [(notifyCallee_frame _ cid bs).1 call.callerConn] at hk2
          simp only [ck_setCalls, ck_setWAbortCalls] at hk2
          rcases hx.b bs call hcall hna with ⟨t, al, callee, hk', hf⟩ | ⟨hk', _⟩ | ⟨hk', _⟩
          · rw [hk2] at hk'; simp at hk'
            cases hf2 : AL.find? call.callerSerial caller.calls
            · rw [hk'.1, hf] at hf2; simp at hf2
            · simp [hf2] at hnone
          · rw [hk2] at hk'; simp at hk'
          · rw [hk2] at hk'; simp at hk'
        · simp at h

/-- … and for the deferred `remove_function_call` items of the work loop: when the loop takes such an item for a
connection that is there, the serial is in that connection's table (the condition the `debug_assert!` checks) -/
theorem loop_remove_call_assert_holds {s : St} (hx : Xref s) {serial : Nat} {cid : ConnId} {result : CallResult}
    {rest : List (Nat × ConnId × CallResult)} (hq : s.w.removeCalls = (serial, cid, result) :: rest) {conn : Conn}
    (hc : AL.find? cid s.b.conns = some conn) : AL.find? serial conn.calls ≠ none := by
  have hk : ck s cid = some (conn.calls, conn.alive) := ck_of_find hc
  obtain ⟨bs, callee, hf, _⟩ := hx.c serial cid result (by rw [hq]; exact List.mem_cons_self) _ _ hk
  rw [hf]; simp

/-- the states a turn of `Broker::run` passes through: after the handler, and after every step of the work loop -/
inductive InTurn : St → Prop
  | handled {b : Broker} {w : Work} {e : Event} {s : St} :
      Reachable b w → b.calls.elems.length ≤ u32Max → handleEvent ⟨b, w, []⟩ e = .ok s → InTurn s
  | worked {s s' : St} : InTurn s → processOne s = some (.ok s') → InTurn s'

theorem InTurn.xref {s : St} (h : InTurn s) : Xref s := by
  induction h with
  | handled hr hroom he => exact handleEvent_xref hr.idle.x hr.idle.r hr.idle.a hroom he
  | worked _ hp ih => exact processOne_xref ih hp

end Aldrin.Broker
