/-
Bus listener component (`broker/src/bus_listener.rs`): the cached flags equal their recomputation
from the filter set for every history of add / remove / clear, so the two enumeration strategies of
`start_bus_listener` are selected consistently and their `unreachable!()` arms are dead.
-/
import Aldrin.Lemmas.Broker.AL
import Aldrin.Lemmas.Broker.Chan

namespace Aldrin.Broker

/-- the cached flags are what a recomputation from the filters gives; the filters form a set -/
def Listener.OK (l : Listener) : Prop :=
  l.allObjects = l.filters.any Filter.isAnyObject ∧
  l.specificServices = l.filters.all Filter.isSpecificService ∧
  l.filters.Nodup

theorem any_sinsert {α : Type} [DecidableEq α] (p : α → Bool) (a : α) (s : List α) :
    (sinsert a s).any p = (s.any p || p a) := by
  unfold sinsert
  split
  · rename_i h
    simp only [List.contains_iff_mem] at h
    cases hp : p a
    · simp
    · simp only [Bool.or_true, List.any_eq_true]; exact ⟨a, h, hp⟩
  · simp [List.any_append]

theorem all_sinsert {α : Type} [DecidableEq α] (p : α → Bool) (a : α) (s : List α) :
    (sinsert a s).all p = (s.all p && p a) := by
  unfold sinsert
  split
  · rename_i h
    simp only [List.contains_iff_mem] at h
    cases hp : p a
    · simp only [Bool.and_false, List.all_eq_false]; exact ⟨a, h, by simp [hp]⟩
    · simp
  · simp [List.all_append]

theorem Listener.new_ok (c : ConnId) : ({ conn := c } : Listener).OK := by simp [Listener.OK]

theorem Listener.addFilter_ok {l : Listener} (f : Filter) (h : l.OK) : (l.addFilter f).OK := by
  obtain ⟨h1, h2, h3⟩ := h
  refine ⟨?_, ?_, nodup_sinsert _ _ h3⟩
  · simp [Listener.addFilter, any_sinsert, h1]
  · simp [Listener.addFilter, all_sinsert, h2]

theorem Listener.removeFilter_ok {l : Listener} (f : Filter) (h : l.OK) : (l.removeFilter f).OK := by
  exact ⟨rfl, rfl, nodup_sremove _ _ h.2.2⟩

theorem Listener.clearFilters_ok (l : Listener) : (l.clearFilters).OK := by simp [Listener.OK, Listener.clearFilters]

theorem Listener.setScope_ok {l : Listener} (sc : Option Scope) (h : l.OK) : ({ l with scope := sc } : Listener).OK := h

/-- history form: whatever sequence of filter operations is applied to a new listener, the flags are right -/
inductive FOp where
  | add (f : Filter) | remove (f : Filter) | clear
  deriving Repr

def Listener.applyF (l : Listener) : FOp → Listener
  | .add f => l.addFilter f
  | .remove f => l.removeFilter f
  | .clear => l.clearFilters

theorem Listener.history_ok (c : ConnId) (ops : List FOp) : (ops.foldl Listener.applyF { conn := c }).OK := by
  suffices ∀ l : Listener, l.OK → (ops.foldl Listener.applyF l).OK from this _ (Listener.new_ok c)
  induction ops with
  | nil => intro l h; exact h
  | cons op ops ih =>
    intro l h
    apply ih
    cases op
    · exact Listener.addFilter_ok _ h
    · exact Listener.removeFilter_ok _ h
    · exact Listener.clearFilters_ok _

/-- the flag-guarded `unreachable!()` arms are dead and the enumeration strategy is chosen by the
filter set alone -/
theorem Listener.specificObjects_ok {l : Listener} (h : l.OK) :
    l.specificObjects = .ok (if l.filters.any Filter.isAnyObject then none
      else some (l.filters.filterMap Filter.objectUuid?)) := by
  unfold Listener.specificObjects
  rw [h.1]
  split <;> simp_all

theorem Listener.specificServices?_ok {l : Listener} (h : l.OK) :
    l.specificServices? = .ok (if l.filters.all Filter.isSpecificService
      then some (l.filters.filterMap Filter.servicePair?)
      else none) := by
  unfold Listener.specificServices?
  rw [h.2.1]
  by_cases hall : l.filters.all Filter.isSpecificService = true
  · simp only [hall, Bool.not_true, Bool.false_eq_true, ↓reduceIte]
    have : l.filters.any Filter.isUnspecificService = false := by
      rw [List.any_eq_false]
      intro f hf
      have := List.all_eq_true.mp hall f hf
      cases f with
      | object o => simp [Filter.isUnspecificService]
      | service o s => cases o <;> cases s <;> simp_all [Filter.isSpecificService, Filter.isUnspecificService]
    rw [this]; simp
  · simp [hall]

/-- `matches_object` is the plain filter semantics -/
theorem Listener.matchesObject_spec {l : Listener} (h : l.OK) (o : ObjId) :
    l.matchesObject o = l.filters.any (·.matchesObject o) := by
  unfold Listener.matchesObject
  rw [h.1]
  cases hany : l.filters.any Filter.isAnyObject
  · simp
  · simp only [Bool.true_or]
    symm
    rw [List.any_eq_true] at hany ⊢
    obtain ⟨f, hf, hp⟩ := hany
    refine ⟨f, hf, ?_⟩
    cases f with
    | object u => cases u <;> simp_all [Filter.isAnyObject, Filter.matchesObject]
    | service a b => simp [Filter.isAnyObject] at hp

/-- specific path for objects: when no any-object filter is present, an object matches iff its uuid is
listed, and the list has no duplicates (one event per object) -/
theorem Listener.specificObjects_complete {l : Listener} (h : l.OK) (hno : l.filters.any Filter.isAnyObject = false) (o : ObjId) :
    l.matchesObject o = true ↔
      o.uuid ∈ l.filters.filterMap Filter.objectUuid? := by
  rw [Listener.matchesObject_spec h, List.any_eq_true]
  simp only [List.mem_filterMap]
  constructor
  · rintro ⟨f, hf, hm⟩
    refine ⟨f, hf, ?_⟩
    cases f with
    | object u =>
      cases u with
      | none =>
        have := List.any_eq_false.mp hno _ hf
        simp [Filter.isAnyObject] at this
      | some u => simp_all [Filter.matchesObject, Filter.objectUuid?]
    | service a b => simp [Filter.matchesObject] at hm
  · rintro ⟨f, hf, hm⟩
    refine ⟨f, hf, ?_⟩
    cases f with
    | object u => cases u <;> simp_all [Filter.matchesObject, Filter.objectUuid?]
    | service a b => simp [Filter.objectUuid?] at hm

theorem Listener.specificServices_complete {l : Listener} (hall : l.filters.all Filter.isSpecificService = true) (s : SvcId) :
    l.matchesService s = true ↔
      (s.obj.uuid, s.uuid) ∈ l.filters.filterMap Filter.servicePair? := by
  unfold Listener.matchesService
  rw [List.any_eq_true]
  simp only [List.mem_filterMap]
  constructor
  · rintro ⟨f, hf, hm⟩
    refine ⟨f, hf, ?_⟩
    have := List.all_eq_true.mp hall f hf
    cases f with
    | object u => simp [Filter.isSpecificService] at this
    | service a b => cases a <;> cases b <;> simp_all [Filter.isSpecificService, Filter.matchesService, Filter.servicePair?]
  · rintro ⟨f, hf, hm⟩
    refine ⟨f, hf, ?_⟩
    cases f with
    | object u => simp [Filter.servicePair?] at hm
    | service a b => cases a <;> cases b <;> simp_all [Filter.matchesService, Filter.servicePair?]

theorem nodup_filterMap_inj {α β : Type} (f : α → Option β) (l : List α) (hl : l.Nodup)
    (hinj : ∀ a ∈ l, ∀ b ∈ l, ∀ x, f a = some x → f b = some x → a = b) : (l.filterMap f).Nodup := by
  induction l with
  | nil => simp
  | cons a l ih =>
    simp only [List.nodup_cons] at hl
    simp only [List.filterMap_cons]
    have ih' := ih hl.2 (fun a ha b hb x => hinj a (List.mem_cons_of_mem _ ha) b (List.mem_cons_of_mem _ hb) x)
    split
    · exact ih'
    · rename_i x hx
      simp only [List.nodup_cons]
      refine ⟨?_, ih'⟩
      intro hm
      obtain ⟨b, hb, hbx⟩ := List.mem_filterMap.mp hm
      have := hinj a (List.mem_cons_self) b (List.mem_cons_of_mem _ hb) x hx hbx
      subst this
      exact hl.1 hb

/-- the specific lists have no duplicates: one tagged event per listed entity -/
theorem Listener.specificObjects_nodup {l : Listener} (h : l.OK) :
    (l.filters.filterMap Filter.objectUuid?).Nodup := by
  apply nodup_filterMap_inj _ _ h.2.2
  intro a _ b _ x ha hb
  cases a with
  | object u => cases u <;> cases b with
    | object v => cases v <;> simp_all [Filter.objectUuid?]
    | service c d => simp_all [Filter.objectUuid?]
  | service c d => simp [Filter.objectUuid?] at ha

theorem Listener.specificServices_nodup {l : Listener} (h : l.OK) :
    (l.filters.filterMap Filter.servicePair?).Nodup := by
  apply nodup_filterMap_inj _ _ h.2.2
  intro a _ b _ x ha hb
  cases a with
  | object u => simp [Filter.servicePair?] at ha
  | service c d =>
    cases c <;> cases d <;> cases b with
    | object v => simp_all [Filter.servicePair?]
    | service e f => cases e <;> cases f <;> simp_all [Filter.servicePair?] <;> (subst_vars; simp_all)

end Aldrin.Broker
