/-
The registry invariant `RegP` (`Lemmas/Broker/XReg.lean`) on states of the broker model (`Reg`), through the
functions that change the registry: `create_object`, `create_service`, `remove_service`, `remove_object`, the two
destroy handlers, the removal of a connection, `NewConnection`; through every request, every item of deferred work,
every event and one turn of `Broker::run`; hence in every state `Broker::run` can be in between two events
(`run_reg`).
-/
import Aldrin.Lemmas.Broker.RegFrame
import Aldrin.Lemmas.Broker.XReg
import Aldrin.Lemmas.Broker.Gauge5

set_option linter.unusedSimpArgs false
set_option linter.unusedVariables false
namespace Aldrin.Broker
open Generated

def ouv (s : St) : OuView := fun c => AL.find? c s.b.objUuids
def obv (s : St) : ObView := fun u => AL.find? u s.b.objs
def suv (s : St) : SuView := fun c => AL.find? c s.b.svcUuids

/-- the registry invariant on a state of the broker model; `pc` / `ps` are `some` only inside the removal of a
connection / of an object -/
def Reg (pc : Option (ConnId × List Cookie)) (ps : Option (ObjId × List Cookie)) (s : St) : Prop :=
  RegP pc ps (ouv s) (obv s) (suv s) (sk s) (ro s)

variable {pc : Option (ConnId × List Cookie)} {ps : Option (ObjId × List Cookie)}

theorem Reg.of_views {s' : St} {ou : OuView} {ob : ObView} {su : SuView} {skv : SkView} {rov : RoView}
    (h : RegP pc ps ou ob su skv rov) (h1 : ∀ c, AL.find? c s'.b.objUuids = ou c) (h2 : ∀ u, AL.find? u s'.b.objs = ob u)
    (h3 : ∀ c, AL.find? c s'.b.svcUuids = su c) (h4 : ∀ k, sk s' k = skv k) (h5 : ∀ c, ro s' c = rov c) : Reg pc ps s' := by
  unfold Reg
  have e1 : ouv s' = ou := funext h1
  have e2 : obv s' = ob := funext h2
  have e3 : suv s' = su := funext h3
  have e4 : sk s' = skv := funext h4
  have e5 : ro s' = rov := funext h5
  rw [e1, e2, e3, e4, e5]; exact h

theorem Reg.of_same {s s' : St} (h : Reg pc ps s) (hs : SameReg s s') : Reg pc ps s' :=
  Reg.of_views h (fun c => by rw [hs.1]; rfl) (fun u => by rw [hs.2.1]; rfl) (fun c => by rw [hs.2.2.1]; rfl) hs.2.2.2.1 hs.2.2.2.2

theorem Reg.init : Reg none none ⟨{}, {}, []⟩ := by
  refine Reg.of_views RegP.init ?_ ?_ ?_ ?_ ?_ <;> intro x <;> rfl

/-! ### `remove_service` -/

theorem removeService_calls_reg : ∀ (l : List Nat) (s s' : St), removeService.calls s l = .ok s' → SameReg s s' := by
  intro l
  induction l with
  | nil => intro s s' h; simp [removeService.calls] at h; subst h; exact SameReg.refl _
  | cons a l ih =>
    intro s s' h
    simp only [removeService.calls] at h
    split at h
    · simp at h
    · refine SameReg.trans ?_ (ih _ _ h)
      split <;> reg_eq

theorem removeService_subs_reg (svcCookie : Cookie) : ∀ (l : List ConnId) (s : St),
    SameReg s (l.foldl (fun s cid =>
          match s.conn? cid with
          | some c =>
            let s := s.setConn cid (c.unsubscribeAllOf svcCookie)
            (s.setWServicesDestroyed ((cid, svcCookie) :: s.w.servicesDestroyed))
          | none => s) s) := by
  intro l s
  apply foldl_inv (fun s' => SameReg s s') _ _ _ _ (SameReg.refl _)
  intro s1 a hp
  refine SameReg.trans hp ?_
  split
  · rename_i c0 hc0
    refine ⟨rfl, rfl, rfl, fun k => rfl, fun c => ?_⟩
    simp only [ro_setWServicesDestroyed, ro_setConn]
    split
    · rename_i heq; subst heq; rw [ro_conn hc0]; rfl
    · rfl
  · exact SameReg.refl _

theorem removeService_reg {s s' : St} {c : Cookie} (h : Reg pc ps s) (hr : removeService s c = .ok s') :
    Reg pc ps s' ∧ AL.find? c s'.b.svcUuids = none ∧ s'.b.objUuids = s.b.objUuids := by
  unfold removeService at hr
  split at hr
  · rename_i hn
    simp only [Except.ok.injEq] at hr; subst hr; exact ⟨h, hn, rfl⟩
  · rename_i objId svcUuid info hu
    (try simp only [] at hr)
    split at hr
    · simp at hr
    · rename_i svc hsv
      (try simp only [] at hr)
      split at hr
      · simp at hr
      · rename_i s1 hc
        simp only [Except.ok.injEq] at hr
        subst hr
        have hcalls := removeService_calls_reg _ _ _ hc
        -- the state before the loop over the pending calls
        have hmid : Reg pc ps ((match AL.find? objId.uuid ((s.setSvcUuids (AL.erase c s.b.svcUuids)).setSvcs
              (AL.erase (objId.uuid, svcUuid) (s.setSvcUuids (AL.erase c s.b.svcUuids)).b.svcs)).b.objs with
            | some o => ((s.setSvcUuids (AL.erase c s.b.svcUuids)).setSvcs
                (AL.erase (objId.uuid, svcUuid) (s.setSvcUuids (AL.erase c s.b.svcUuids)).b.svcs)).setObjs
                  (AL.insert objId.uuid { o with svcs := sremove c o.svcs }
                    ((s.setSvcUuids (AL.erase c s.b.svcUuids)).setSvcs
                      (AL.erase (objId.uuid, svcUuid) (s.setSvcUuids (AL.erase c s.b.svcUuids)).b.svcs)).b.objs)
            | none => (s.setSvcUuids (AL.erase c s.b.svcUuids)).setSvcs
                (AL.erase (objId.uuid, svcUuid) (s.setSvcUuids (AL.erase c s.b.svcUuids)).b.svcs))) := by
          refine Reg.of_views (RegP.remove_service h (sc := c) (oid := objId) (svu := svcUuid) (info := info) hu) ?_ ?_ ?_ ?_ ?_
          · intro x; split <;> simp [ouv]
          · intro x
            simp only [St.setSvcs_b_objs, St.setSvcUuids_b_objs]
            rw [obDropSvc_apply]
            cases hob : AL.find? objId.uuid s.b.objs with
            | none =>
              simp only [obv, hob]
              by_cases hx : objId.uuid = x
              · subst hx; simp [hob]
              · simp [hx]
            | some o =>
              simp only [obv, hob, St.setObjs_b_objs, AL.find?_insert]
              by_cases hx : objId.uuid = x <;> simp [hx]
          · intro x; split <;> simp [suv, AL.find?_erase]
          · intro k
            have : ∀ t : St, sk (t.setSvcs (AL.erase (objId.uuid, svcUuid) s.b.svcs)) k = upd (sk s) (objId.uuid, svcUuid) none k := by
              intro t
              simp only [sk, skl, St.setSvcs_b_svcs, AL.find?_erase, upd_apply]
              by_cases hk : (objId.uuid, svcUuid) = k <;> simp [hk]
            split
            · simp only [sk_setObjs, St.setSvcUuids_b_svcs]; exact this _
            · simp only [St.setSvcUuids_b_svcs]; exact this _
          · intro x; split <;> simp
        have hs1 : Reg pc ps s1 := Reg.of_same (Reg.of_same hmid (by reg_eq)) hcalls
        have hfin := Reg.of_same (Reg.of_same hs1 (removeService_subs_reg c svc.subscribedConnIds s1))
          (s' := (List.foldl (fun s cid =>
            match s.conn? cid with
            | some c_1 => (s.setConn cid (c_1.unsubscribeAllOf c)).setWServicesDestroyed ((cid, c) :: (s.setConn cid (c_1.unsubscribeAllOf c)).w.servicesDestroyed)
            | none => s) s1 svc.subscribedConnIds).stat fun st => { st with numServices := st.numServices - 1 }) (by reg_eq)
        refine ⟨hfin, ?_, ?_⟩
        · have e1 : AL.find? c s1.b.svcUuids = none := by
            rw [hcalls.2.2.1]
            split <;> simp
          have e2 := (removeService_subs_reg c svc.subscribedConnIds s1).2.2.1
          simp only [St.stat_b_svcUuids]
          exact (congrArg (AL.find? c) e2).trans e1
        · have e1 : s1.b.objUuids = s.b.objUuids := by
            rw [hcalls.1]
            split <;> simp
          have e2 := (removeService_subs_reg c svc.subscribedConnIds s1).1
          simp only [St.stat_b_objUuids]
          exact e2.trans e1

/-! ### `remove_object` -/

theorem removeObject_svcs_reg {oid : ObjId} : ∀ (l : List Cookie) (s s' : St), Reg pc (some (oid, l)) s →
    removeObject.svcs s l = .ok s' → Reg pc none s' ∧ s'.b.objUuids = s.b.objUuids := by
  intro l
  induction l with
  | nil => intro s s' h hr; simp [removeObject.svcs] at hr; subst hr; exact ⟨RegP.ps_done h, rfl⟩
  | cons a l ih =>
    intro s s' h hr
    simp only [removeObject.svcs] at hr
    split at hr
    · simp at hr
    · rename_i s1 h1
      obtain ⟨r1, r2, r3⟩ := removeService_reg h h1
      obtain ⟨q1, q2⟩ := ih _ _ (RegP.ps_next r1 r2) hr
      exact ⟨q1, q2.trans r3⟩

theorem removeObject_reg {s s' : St} {c : Cookie} (h : Reg pc none s) (hr : removeObject s c = .ok s') :
    Reg pc none s' ∧ AL.find? c s'.b.objUuids = none := by
  unfold removeObject at hr
  split at hr
  · rename_i hn
    simp only [Except.ok.injEq] at hr; subst hr; exact ⟨h, hn⟩
  · rename_i u hu
    (try simp only [] at hr)
    split at hr
    · simp at hr
    · rename_i obj hob
      (try simp only [] at hr)
      split at hr
      · simp at hr
      · rename_i s1 hs
        simp only [Except.ok.injEq] at hr
        subst hr
        simp only [St.setObjUuids_b_objs] at hob
        have hmid : Reg pc (some (⟨u, c⟩, obj.svcs))
            ((((s.setObjUuids (AL.erase c s.b.objUuids)).setObjs (AL.erase u (s.setObjUuids (AL.erase c s.b.objUuids)).b.objs)).updConn
              obj.conn fun c_1 => { c_1 with objects := sremove c c_1.objects })) := by
          refine Reg.of_views (RegP.remove_object h (c := c) (u := u) (obj := obj) hu hob) ?_ ?_ ?_ ?_ ?_
          · intro x; simp [ouv, AL.find?_erase]
          · intro x; simp [obv, AL.find?_erase]
          · intro x; simp [suv]
          · intro k; simp
          · intro x
            rw [roDropObj_apply, ro_updConn']
            simp only [St.conn?, St.setObjs_b_conns, St.setObjUuids_b_conns, ro_setObjs, ro_setObjUuids]
            split
            · rename_i heq
              cases hf : AL.find? obj.conn s.b.conns <;> simp [ro, hf]
            · rfl
        obtain ⟨q1, q2⟩ := removeObject_svcs_reg _ _ _ (Reg.of_same hmid (s' := ((((s.setObjUuids (AL.erase c s.b.objUuids)).setObjs (AL.erase u (s.setObjUuids (AL.erase c s.b.objUuids)).b.objs)).updConn
              obj.conn fun c_1 => { c_1 with objects := sremove c c_1.objects })).setWDestroyObject _) (by reg_eq)) hs
        refine ⟨Reg.of_same q1 (by reg_eq), ?_⟩
        simp only [St.stat_b_objUuids]
        rw [q2]; simp

/-! ### the handlers that change the registry -/

theorem destroyObject_reg {s s' : St} {id serial c} {ok : Bool} (h : Reg none none s)
    (hr : destroyObject s id serial c = .ok (s', ok)) : Reg none none s' := by
  unfold destroyObject at hr
  repeat' ((try simp only [] at hr); split at hr)
  all_goals (try (simp only [okH, errH, Except.ok.injEq, Prod.mk.injEq, reduceCtorEq] at hr))
  all_goals (try (exact hr.elim))
  all_goals (try (have hfst := congrArg Prod.fst hr; (try dsimp only at hfst); rw [← hfst]; clear hfst hr))
  all_goals (try (obtain ⟨h1, h2⟩ := hr; subst h1; subst h2))
  all_goals (try (exact h))
  all_goals (try (refine Reg.of_same h ?_; reg_eq; done))
  all_goals (refine (removeObject_reg (Reg.of_same h ?_) ‹removeObject _ _ = _›).1; reg_eq)

theorem destroyService_reg {s s' : St} {id serial c} {ok : Bool} (h : Reg none none s)
    (hr : destroyService s id serial c = .ok (s', ok)) : Reg none none s' := by
  unfold destroyService at hr
  repeat' ((try simp only [] at hr); split at hr)
  all_goals (try (simp only [okH, errH, Except.ok.injEq, Prod.mk.injEq, reduceCtorEq] at hr))
  all_goals (try (exact hr.elim))
  all_goals (try (have hfst := congrArg Prod.fst hr; (try dsimp only at hfst); rw [← hfst]; clear hfst hr))
  all_goals (try (obtain ⟨h1, h2⟩ := hr; subst h1; subst h2))
  all_goals (try (exact h))
  all_goals (try (refine Reg.of_same h ?_; reg_eq; done))
  all_goals (refine (removeService_reg (Reg.of_same h ?_) ‹removeService _ _ = _›).1; reg_eq)

theorem createObject_reg {s s' : St} {id serial uuid} {ok : Bool} (hg : G5 s) (h : Reg none none s)
    (hr : createObject s id serial uuid = .ok (s', ok)) : Reg none none s' := by
  unfold createObject at hr
  repeat' ((try simp only [] at hr); split at hr)
  all_goals (simp only [okH, errH, Except.ok.injEq, Prod.mk.injEq] at hr)
  · obtain ⟨rfl, _⟩ := hr; exact h
  · obtain ⟨rfl, _⟩ := hr; refine Reg.of_same h ?_; reg_eq
  · obtain ⟨rfl, _⟩ := hr; refine Reg.of_same h ?_; reg_eq
  · obtain ⟨rfl, _⟩ := hr
    rename_i conn hconn hnone _ _
    have hnone' : AL.find? uuid s.b.objs = none := by
      cases hf : AL.find? uuid s.b.objs <;> simp_all
    have hfresh : AL.find? s.b.nextCookie s.b.objUuids = none := KeysBelow_fresh hg.2.1.below
    have hro : ro s id = some conn.objects := ro_conn hconn
    refine Reg.of_views (RegP.create_object h (id := id) (uuid := uuid) (ck := s.b.nextCookie) (l := conn.objects) hnone' hfresh hro) ?_ ?_ ?_ ?_ ?_
    · intro x; simp [ouv, AL.find?_insert]
    · intro x; simp [obv, AL.find?_insert]
    · intro x; simp [suv]
    · intro k; simp
    · intro x
      simp only [ro_stat, ro_setWCreateObject, ro_updConn', upd_apply]
      simp only [St.conn?] at hconn
      split
      · simp [St.conn?, hconn]
      · simp

theorem createServiceImpl_reg {s s' : St} {id serial oc uuid info} {ok : Bool} (hg : G5 s) (h : Reg none none s)
    (hr : createServiceImpl s id serial oc uuid info = .ok (s', ok)) : Reg none none s' := by
  unfold createServiceImpl at hr
  repeat' ((try simp only [] at hr); split at hr)
  all_goals (try (simp only [okH, errH, Except.ok.injEq, Prod.mk.injEq, reduceCtorEq] at hr))
  all_goals (try (exact hr.elim))
  all_goals (try (have hfst := congrArg Prod.fst hr; (try dsimp only at hfst); rw [← hfst]; clear hfst hr))
  all_goals (try (obtain ⟨h1, h2⟩ := hr; subst h1; subst h2))
  all_goals (try (exact h))
  all_goals (try (refine Reg.of_same h ?_; reg_eq; done))
  rename_i _ conn hconn _ objUuid hou hdup _ obj hob hne _ i hinfo _
  have hn : sk s (objUuid, uuid) = none := by
    cases hf : AL.find? (objUuid, uuid) s.b.svcs <;> simp_all [sk, skl]
  have hfresh : AL.find? s.b.nextCookie s.b.svcUuids = none := KeysBelow_fresh hg.2.2.2.1.below
  refine Reg.of_views (RegP.create_service h (objUuid := objUuid) (svu := uuid) (oc := oc) (ck := s.b.nextCookie) (obj := obj) (info := i)
    hou hob hn hfresh) ?_ ?_ ?_ ?_ ?_
  · intro x; simp [ouv]
  · intro x; simp [obv, AL.find?_insert]
  · intro x; simp [suv, AL.find?_insert]
  · intro k
    simp only [sk_stat, sk_setWCreateService, sk_setObjs, upd_apply]
    simp only [sk, skl, St.setSvcs_b_svcs, St.setSvcUuids_b_svcs, St.send_b_svcs, St.freshCookie_b_svcs, AL.find?_insert, St.freshCookie_snd]
    by_cases hk : (objUuid, uuid) = k <;> simp [hk]
  · intro x; simp

theorem createService_reg {s s' : St} {id serial oc uuid v} {ok : Bool} (hg : G5 s) (h : Reg none none s)
    (hr : createService s id serial oc uuid v = .ok (s', ok)) : Reg none none s' :=
  createServiceImpl_reg hg h hr

theorem createService2_reg {s s' : St} {id serial oc uuid info} {ok : Bool} (hg : G5 s) (h : Reg none none s)
    (hr : createService2 s id serial oc uuid info = .ok (s', ok)) : Reg none none s' := by
  unfold createService2 at hr
  repeat' ((try simp only [] at hr); split at hr)
  all_goals first
    | (simp only [okH, errH, Except.ok.injEq, Prod.mk.injEq] at hr; obtain ⟨rfl, _⟩ := hr; exact h)
    | exact createServiceImpl_reg hg h hr

/-- every request -/
theorem handleMessage_reg {s s' : St} {id : ConnId} {m : Req} {ok : Bool} (hg : G5 s) (h : Reg none none s)
    (hr : handleMessage s id m = .ok (s', ok)) : Reg none none s' := by
  cases m <;> simp only [handleMessage] at hr
  case createObject => exact createObject_reg hg h hr
  case destroyObject => exact destroyObject_reg h hr
  case createService => exact createService_reg hg h hr
  case createService2 => exact createService2_reg hg h hr
  case destroyService => exact destroyService_reg h hr
  case callFunction => exact h.of_same (callFunctionImpl_reg hr)
  case callFunction2 => exact h.of_same (callFunction2_reg hr)
  case callFunctionReply => exact h.of_same (callFunctionReply_reg hr)
  case abortFunctionCall => exact h.of_same (abortFunctionCall_reg hr)
  case subscribeEvent => exact h.of_same (subscribeEvent_reg hr)
  case unsubscribeEvent => exact h.of_same (unsubscribeEvent_reg hr)
  case emitEvent => exact h.of_same (emitEvent_reg hr)
  case queryServiceVersion => exact h.of_same (queryServiceVersion_reg hr)
  case queryServiceInfo => exact h.of_same (queryServiceInfo_reg hr)
  case subscribeService => exact h.of_same (subscribeService_reg hr)
  case unsubscribeService => exact h.of_same (unsubscribeService_reg hr)
  case subscribeAllEvents => exact h.of_same (subscribeAllEvents_reg hr)
  case unsubscribeAllEvents => exact h.of_same (unsubscribeAllEvents_reg hr)
  case createChannel => exact h.of_same (createChannel_reg hr)
  case closeChannelEnd => exact h.of_same (closeChannelEnd_reg hr)
  case claimChannelEnd => exact h.of_same (claimChannelEnd_reg hr)
  case sendItem => exact h.of_same (sendItem_reg hr)
  case addChannelCapacity => exact h.of_same (addChannelCapacity_reg hr)
  case sync => exact h.of_same (sync_reg hr)
  case createBusListener => exact h.of_same (createBusListener_reg hr)
  case destroyBusListener => exact h.of_same (destroyBusListener_reg hr)
  case addFilter f => exact h.of_same (updListener_reg hr)
  case removeFilter f => exact h.of_same (updListener_reg hr)
  case clearFilters => exact h.of_same (updListener_reg hr)
  case startBusListener => exact h.of_same (startBusListener_reg hr)
  case stopBusListener => exact h.of_same (stopBusListener_reg hr)
  case registerIntrospection => exact h.of_same (registerIntrospection_reg hr)
  case queryIntrospection => exact h.of_same (queryIntrospection_reg hr)
  case queryIntrospectionReply => exact h.of_same (queryIntrospectionReply_reg hr)
  case other => simp [errH] at hr; exact hr.1 ▸ h

/-! ### the removal of a connection -/

theorem removeObjects_reg {id : ConnId} : ∀ (l : List Cookie) (s s' : St), Reg (some (id, l)) none s →
    foldE removeObject s l = .ok s' → Reg none none s' := by
  intro l
  induction l with
  | nil => intro s s' h hr; simp [foldE] at hr; subst hr; exact RegP.pc_done h
  | cons a l ih =>
    intro s s' h hr
    simp only [foldE] at hr
    split at hr
    · simp at hr
    · rename_i s1 h1
      obtain ⟨r1, r2⟩ := removeObject_reg h h1
      exact ih _ _ (RegP.pc_next r1 r2) hr

theorem shutdownConnection_reg {s s' : St} {id b} (h : Reg none none s) (hr : shutdownConnection s id b = .ok s') : Reg none none s' := by
  unfold shutdownConnection at hr
  split at hr
  · simp at hr; exact hr ▸ h
  · rename_i conn hconn
    simp only [] at hr
    repeat' (split at hr)
    all_goals (try (simp at hr; done))
    rename_i s1 h1 _ s2 h2 _ s3 h3 _ s4 h4 _ s5 h5 _ s6 h6
    have hconn' : AL.find? id s.b.conns = some conn := by simpa using hconn
    have i1 : Reg none none s1 := by
      refine removeObjects_reg (id := id) _ _ _ ?_ h1
      apply foldl_inv (Reg (some (id, conn.objects)) none) _ (fun s a hp => Reg.of_same hp (removeBusListener_reg _ _))
      refine Reg.of_views (RegP.remove_conn h (id := id) (l := conn.objects) (ro_find hconn')) ?_ ?_ ?_ ?_ ?_
      · intro x; split <;> (try split) <;> rfl
      · intro x; split <;> (try split) <;> rfl
      · intro x; split <;> (try split) <;> rfl
      · intro x; split <;> (try split) <;> rfl
      · intro x
        have : ∀ t : St, t.b.conns = s.b.conns → ro (t.setConns (AL.erase id t.b.conns)) x = upd (ro s) id none x := by
          intro t ht
          simp only [ro, St.setConns_b_conns, ht, AL.find?_erase, upd_apply]
          by_cases hx : id = x <;> simp [hx]
        split <;> (try split) <;> exact this _ (by simp)
    have i2 := foldE_inv (Reg none none) _ (fun s a s' hp hr => Reg.of_same hp (removeEventSubscription_reg hr)) _ _ _ i1 h2
    have i3 := foldE_inv (Reg none none) _ (fun s a s' hp hr => Reg.of_same hp (removeAllEventsSubscription_reg hr)) _ _ _ i2 h3
    have i4 := foldE_inv (Reg none none) _ (fun s a s' hp hr => Reg.of_same hp (removeSubscription_reg hr)) _ _ _ i3 h4
    have i5 := foldE_inv (Reg none none) _ (fun s a s' hp hr => Reg.of_same hp (removeChannelEnd_reg hr)) _ _ _ i4 h5
    have i6 := foldE_inv (Reg none none) _ (fun s a s' hp hr => Reg.of_same hp (removeChannelEnd_reg hr)) _ _ _ i5 h6
    refine Reg.of_same ?_ (removeIntrospectionConn_reg hr)
    refine Reg.of_same ?_ (s := List.foldl (fun s (p : Nat × Nat × ConnId) => s.setWAbortCalls ((p.2.1, p.2.2) :: s.w.abortCalls)) s6 conn.calls) (by reg_eq)
    apply foldl_inv (Reg none none) _ ?_ _ _ i6
    intro s a hp
    exact Reg.of_same hp (by reg_eq)

/-! ### events, deferred work, turns, histories -/

theorem handleEvent_reg {s s' : St} {e : Event} (hg : G5 s) (h : Reg none none s) (hr : handleEvent s e = .ok s') : Reg none none s' := by
  cases e <;> simp only [handleEvent] at hr
  case msg id m =>
    split at hr
    · simp at hr
    · rename_i s1 ok hm
      have := handleMessage_reg hg h hm
      simp only [Except.ok.injEq] at hr
      subst hr
      refine Reg.of_same this ?_
      split <;> reg_eq
  case newConn id v =>
    split at hr
    · simp at hr
    · rename_i hnew
      simp only [Except.ok.injEq] at hr; subst hr
      have hnone : AL.find? id s.b.conns = none := by
        cases hf : AL.find? id s.b.conns <;> simp_all [St.conn?]
      refine Reg.of_views (RegP.new_conn h (id := id) (ro_find_none hnone)) ?_ ?_ ?_ ?_ ?_
      · intro x; rfl
      · intro x; rfl
      · intro x; rfl
      · intro x; rfl
      · intro x; simp [ro_setConn]
  case taskDropped id =>
    simp only [Except.ok.injEq] at hr; subst hr
    refine Reg.of_same h ⟨by simp, by simp, by simp, fun k => by simp, fun c => by simp [ro_updConn']⟩
  all_goals (simp only [Except.ok.injEq] at hr; subst hr; refine Reg.of_same h ?_; reg_eq)

theorem processOne_reg {s s' : St} (h : Reg none none s) (hr : processOne s = some (.ok s')) : Reg none none s' := by
  unfold processOne at hr
  repeat' (split at hr)
  all_goals (try (simp only [Option.some.injEq, reduceCtorEq] at hr))
  all_goals first
    | (refine shutdownConnection_reg (s := s.setWRemoveConns _) (Reg.of_same h ?_) hr; reg_eq; done)
    | (refine Reg.of_same (Reg.of_same (s' := s.setWAbortCalls _) h ?_) (abortCall_reg hr); reg_eq; done)
    | (simp only [Except.ok.injEq] at hr; subst hr; refine Reg.of_same h ?_; reg_eq; done)
    | (simp only [Except.ok.injEq] at hr; subst hr; refine Reg.of_same h (SameReg.trans (b := s.setWCreateObject _) ?_ (emitBusEvent_reg _ _)); reg_eq; done)
    | (simp only [Except.ok.injEq] at hr; subst hr; refine Reg.of_same h (SameReg.trans (b := s.setWCreateService _) ?_ (emitBusEvent_reg _ _)); reg_eq; done)
    | (simp only [Except.ok.injEq] at hr; subst hr; refine Reg.of_same h (SameReg.trans (b := s.setWDestroyService _) ?_ (emitBusEvent_reg _ _)); reg_eq; done)
    | (simp only [Except.ok.injEq] at hr; subst hr; refine Reg.of_same h (SameReg.trans (b := s.setWDestroyObject _) ?_ (emitBusEvent_reg _ _)); reg_eq; done)
    | (simp only [Except.ok.injEq] at hr; subst hr; refine Reg.of_same h ?_; split <;> reg_eq; done)
    | (split at hr <;> (try split at hr) <;> (try simp only [Except.ok.injEq, reduceCtorEq] at hr) <;>
        first | (exact hr.elim) | (subst hr; refine Reg.of_same h ?_; reg_eq; done)
              | (subst hr; rename_i c0 hc0 _; refine Reg.of_same h ⟨by simp, by simp, by simp, fun k => by simp, fun c => ?_⟩
                 simp only [ro_sendOrRemove, ro_setConn, ro_setWRemoveCalls]
                 split
                 · rename_i heq; subst heq; simp only [St.conn?, St.setWRemoveCalls_b_conns] at hc0; rw [ro_find hc0]
                 · rfl))

theorem processLoop_reg : ∀ (fuel : Nat) (s s' : St), Reg none none s → processLoop fuel s = .ok s' → Reg none none s' := by
  intro fuel
  induction fuel with
  | zero => intro s s' _ hr; simp [processLoop] at hr
  | succ n ih =>
    intro s s' h hr
    simp only [processLoop] at hr
    split at hr
    · simp at hr; exact hr ▸ h
    · simp at hr
    · exact ih _ _ (processOne_reg h ‹_›) hr

/-- one turn of `Broker::run` -/
theorem step_reg {b b' : Broker} {w w' : Work} {e : Event} {out : List Out}
    (hg : G5 ⟨b, w, []⟩) (h : Reg none none ⟨b, w, []⟩) (hr : step b w e = .ok (b', w', out)) : Reg none none ⟨b', w', []⟩ := by
  unfold step at hr
  split at hr
  · simp at hr
  · rename_i s1 h1
    split at hr
    · simp at hr
    · rename_i s2 h2
      simp only [Except.ok.injEq, Prod.mk.injEq] at hr
      obtain ⟨rfl, rfl, _⟩ := hr
      exact Reg.of_same (processLoop_reg _ _ _ (handleEvent_reg hg h h1) h2) (by reg_eq)

/-- every history -/
theorem run_reg : ∀ (es : List Event) (b b' : Broker) (w w' : Work) (outs : List (List Out)),
    G5 ⟨b, w, []⟩ → Reg none none ⟨b, w, []⟩ → run b w es = .ok (b', w', outs) → Reg none none ⟨b', w', []⟩ := by
  intro es
  induction es with
  | nil => intro b b' w w' outs _ h hr; simp [run] at hr; obtain ⟨rfl, rfl, _⟩ := hr; exact h
  | cons e es ih =>
    intro b b' w w' outs hg h hr
    simp only [run] at hr
    split at hr
    · simp at hr
    · rename_i b1 w1 o1 h1
      split at hr
      · simp at hr
      · rename_i b2 w2 o2 h2
        simp only [Except.ok.injEq, Prod.mk.injEq] at hr
        obtain ⟨rfl, rfl, _⟩ := hr
        exact ih _ _ _ _ _ (step_G5 hg h1) (step_reg hg h h1) h2

/-- the invariant in plain terms -/
structure RegistryConsistent (b : Broker) : Prop where
  cookie_names_object : ∀ c u, AL.find? c b.objUuids = some u → ∃ o, AL.find? u b.objs = some o ∧ o.cookie = c
  object_is_registered : ∀ u o, AL.find? u b.objs = some o → AL.find? o.cookie b.objUuids = some u
  owner_lists_object : ∀ u o, AL.find? u b.objs = some o → ∃ conn, AL.find? o.conn b.conns = some conn ∧ o.cookie ∈ conn.objects
  listed_object_is_owned : ∀ id conn c, AL.find? id b.conns = some conn → c ∈ conn.objects →
    ∃ u o, AL.find? c b.objUuids = some u ∧ AL.find? u b.objs = some o ∧ o.conn = id
  cookie_names_service : ∀ sc oid svu info, AL.find? sc b.svcUuids = some (oid, svu, info) →
    ∃ sv, AL.find? (oid.uuid, svu) b.svcs = some sv ∧ sv.cookie = sc ∧ sv.objCookie = oid.cookie
  service_is_registered : ∀ obu svu sv, AL.find? (obu, svu) b.svcs = some sv →
    ∃ info, AL.find? sv.cookie b.svcUuids = some (⟨obu, sv.objCookie⟩, svu, info)
  service_has_live_object : ∀ sc oid svu info, AL.find? sc b.svcUuids = some (oid, svu, info) →
    AL.find? oid.cookie b.objUuids = some oid.uuid ∧ ∃ o, AL.find? oid.uuid b.objs = some o ∧ sc ∈ o.svcs
  listed_service_is_of_object : ∀ u o sc, AL.find? u b.objs = some o → sc ∈ o.svcs →
    ∃ svu info, AL.find? sc b.svcUuids = some (⟨u, o.cookie⟩, svu, info)

theorem RegistryConsistent.of_reg {b : Broker} {w : Work} {out : List Out} (h : Reg none none ⟨b, w, out⟩) : RegistryConsistent b := by
  obtain ⟨h1, h2, h3, h4, h5, h6, h7, h8⟩ := h
  refine ⟨h1, h2, ?_, ?_, ?_, ?_, ?_, h8⟩
  · intro u o ho
    rcases h3 u o ho with ⟨l, hl, hm⟩ | ⟨l, hl, _⟩
    · simp only [ro] at hl
      split at hl
      · rename_i conn hc; simp at hl; subst hl; exact ⟨conn, hc, hm⟩
      · simp at hl
    · simp at hl
  · intro id conn c hc hm
    exact h4 id conn.objects c (ro_find hc) hm
  · intro sc oid svu info hs
    have := h5 sc oid svu info hs
    simp only [sk, skl] at this
    split at this
    · rename_i sv hsv; simp at this; exact ⟨sv, hsv, this.1, this.2⟩
    · simp at this
  · intro obu svu sv hsv
    exact h6 obu svu sv.cookie sv.objCookie (sk_find hsv)
  · intro sc oid svu info hs
    rcases h7 sc oid svu info hs with h | ⟨l, hl, _⟩
    · exact h
    · simp at hl


end Aldrin.Broker
