/-
The callee side of the cross-reference invariant of calls, on what it looks at — for every call in the table the
service it is for (`G`), for every service entry the set of calls it holds (`S`) — and its preservation by the abstract
operations of the broker: a call is taken (`add_call`), a call ends (`finish_call`), a service entry is dropped while
its calls are still to be removed (`drop_entry`, `pl_next`, `pl_done`), a service is created (`new_svc`).

`pl = some (k, l)`: the service entry `k` is gone, the calls in `l` are still to be removed from the table.
-/
import Aldrin.Lemmas.Broker.XReg

set_option linter.unusedSimpArgs false
set_option linter.unusedVariables false
namespace Aldrin.Broker

abbrev GkView := Nat → Option (Uuid × Uuid)
abbrev ScView := Uuid × Uuid → Option (List Nat)

structure CalleeP (pl : Option ((Uuid × Uuid) × List Nat)) (G : GkView) (S : ScView) : Prop where
  /-- a call in the table is held by the service entry it is for (or by the entry being removed) -/
  j1 : ∀ bs k, G bs = some k → (∃ l, S k = some l ∧ bs ∈ l) ∨ (∃ l, pl = some (k, l) ∧ bs ∈ l)
  /-- what a service entry holds is a call in the table, for that service -/
  j2 : ∀ k l bs, S k = some l → bs ∈ l → G bs = some k
  /-- the entry being removed is gone; what is left of its calls is in the table, each once -/
  j3 : ∀ k l, pl = some (k, l) → S k = none ∧ l.Nodup ∧ ∀ bs, bs ∈ l → G bs = some k
  /-- a service entry holds a call once -/
  j4 : ∀ k l, S k = some l → l.Nodup

variable {pl : Option ((Uuid × Uuid) × List Nat)} {G : GkView} {S : ScView}

theorem CalleeP.init : CalleeP none (fun _ => none) (fun _ => none) := by
  constructor <;> simp

/-- `call_function`: a serial that is not in the table, a service entry that is there -/
theorem CalleeP.add_call {bs : Nat} {k : Uuid × Uuid} {l : List Nat} (h : CalleeP none G S) (hg : G bs = none) (hs : S k = some l) :
    CalleeP none (upd G bs (some k)) (upd S k (some (sinsert bs l))) := by
  obtain ⟨h1, h2, h3, h4⟩ := h
  refine ⟨?_, ?_, ?_, ?_⟩
  · intro bs' k' hg'
    simp only [upd_apply] at hg' ⊢
    left
    split at hg'
    · simp at hg'; subst hg'; rename_i heq; subst heq; exact ⟨sinsert bs l, by simp, by simp [mem_sinsert]⟩
    · rcases h1 bs' k' hg' with ⟨l', hl', hm⟩ | ⟨l', hl', _⟩
      · by_cases hk : k = k'
        · subst hk; rw [hs] at hl'; simp at hl'; subst hl'; exact ⟨sinsert bs l, by simp, by simp [mem_sinsert, hm]⟩
        · exact ⟨l', by simp [hk, hl'], hm⟩
      · simp at hl'
  · intro k' l' bs' hs' hm
    simp only [upd_apply] at hs' ⊢
    split at hs'
    · simp at hs'; subst hs'; rename_i heq; subst heq
      rw [mem_sinsert] at hm
      rcases hm with rfl | hm
      · simp
      · have := h2 k l bs' hs hm
        have hne : bs ≠ bs' := by intro he; subst he; rw [hg] at this; simp at this
        simp [hne, this]
    · have := h2 k' l' bs' hs' hm
      have hne : bs ≠ bs' := by intro he; subst he; rw [hg] at this; simp at this
      simp [hne, this]
  · intro k' l' hp; simp at hp
  · intro k' l' hs'
    simp only [upd_apply] at hs'
    split at hs'
    · simp at hs'; subst hs'; exact nodup_sinsert _ _ (h4 k l hs)
    · exact h4 k' l' hs'

/-- `call_function_reply`: the call leaves the table and its service entry -/
theorem CalleeP.finish_call {bs : Nat} {k : Uuid × Uuid} {l : List Nat} (h : CalleeP none G S) (hg : G bs = some k) (hs : S k = some l) :
    CalleeP none (upd G bs none) (upd S k (some (sremove bs l))) := by
  obtain ⟨h1, h2, h3, h4⟩ := h
  refine ⟨?_, ?_, ?_, ?_⟩
  · intro bs' k' hg'
    simp only [upd_apply] at hg' ⊢
    left
    split at hg'
    · simp at hg'
    · rename_i hne
      rcases h1 bs' k' hg' with ⟨l', hl', hm⟩ | ⟨l', hl', _⟩
      · by_cases hk : k = k'
        · subst hk; rw [hs] at hl'; simp at hl'; subst hl'
          exact ⟨sremove bs l, by simp, by rw [mem_sremove]; exact ⟨Ne.symm hne, hm⟩⟩
        · exact ⟨l', by simp [hk, hl'], hm⟩
      · simp at hl'
  · intro k' l' bs' hs' hm
    simp only [upd_apply] at hs' ⊢
    split at hs'
    · simp at hs'; subst hs'; rename_i heq; subst heq
      rw [mem_sremove] at hm
      simp [Ne.symm hm.1, h2 k l bs' hs hm.2]
    · rename_i hk
      have := h2 k' l' bs' hs' hm
      have hne : bs ≠ bs' := by intro he; subst he; rw [hg] at this; simp at this; exact hk this
      simp [hne, this]
  · intro k' l' hp; simp at hp
  · intro k' l' hs'
    simp only [upd_apply] at hs'
    split at hs'
    · simp at hs'; subst hs'; exact nodup_sremove _ _ (h4 k l hs)
    · exact h4 k' l' hs'

/-- `create_service`: a new entry without calls -/
theorem CalleeP.new_svc {k : Uuid × Uuid} (h : CalleeP none G S) (hs : S k = none) : CalleeP none G (upd S k (some [])) := by
  obtain ⟨h1, h2, h3, h4⟩ := h
  refine ⟨?_, ?_, ?_, ?_⟩
  · intro bs' k' hg'
    rcases h1 bs' k' hg' with ⟨l', hl', hm⟩ | ⟨l', hl', _⟩
    · left
      have hk : k ≠ k' := by intro he; subst he; rw [hs] at hl'; simp at hl'
      exact ⟨l', by simp [hk, hl'], hm⟩
    · simp at hl'
  · intro k' l' bs' hs' hm
    simp only [upd_apply] at hs'
    split at hs'
    · simp at hs'; subst hs'; simp at hm
    · exact h2 k' l' bs' hs' hm
  · intro k' l' hp; simp at hp
  · intro k' l' hs'
    simp only [upd_apply] at hs'
    split at hs'
    · simp at hs'; subst hs'; simp
    · exact h4 k' l' hs'

/-- `remove_service` takes the entry out; its calls are still in the table -/
theorem CalleeP.drop_entry {k : Uuid × Uuid} {l : List Nat} (h : CalleeP none G S) (hs : S k = some l) :
    CalleeP (some (k, l)) G (upd S k none) := by
  obtain ⟨h1, h2, h3, h4⟩ := h
  refine ⟨?_, ?_, ?_, ?_⟩
  · intro bs' k' hg'
    rcases h1 bs' k' hg' with ⟨l', hl', hm⟩ | ⟨l', hl', _⟩
    · by_cases hk : k = k'
      · subst hk; rw [hs] at hl'; simp at hl'; subst hl'; right; exact ⟨l, rfl, hm⟩
      · left; exact ⟨l', by simp [hk, hl'], hm⟩
    · simp at hl'
  · intro k' l' bs' hs' hm
    simp only [upd_apply] at hs'
    split at hs'
    · simp at hs'
    · exact h2 k' l' bs' hs' hm
  · intro k' l' hp
    simp at hp; obtain ⟨rfl, rfl⟩ := hp
    exact ⟨by simp, h4 k l hs, fun bs hm => h2 k l bs hs hm⟩
  · intro k' l' hs'
    simp only [upd_apply] at hs'
    split at hs'
    · simp at hs'
    · exact h4 k' l' hs'

/-- the next call of the entry being removed is in the table -/
theorem CalleeP.pl_head {k : Uuid × Uuid} {bs : Nat} {rest : List Nat} (h : CalleeP (some (k, bs :: rest)) G S) : G bs = some k :=
  (h.j3 k (bs :: rest) rfl).2.2 bs (by simp)

/-- … and leaves it -/
theorem CalleeP.pl_next {k : Uuid × Uuid} {bs : Nat} {rest : List Nat} (h : CalleeP (some (k, bs :: rest)) G S) :
    CalleeP (some (k, rest)) (upd G bs none) S := by
  obtain ⟨h1, h2, h3, h4⟩ := h
  obtain ⟨hsk, hnd, hall⟩ := h3 k (bs :: rest) rfl
  refine ⟨?_, ?_, ?_, h4⟩
  · intro bs' k' hg'
    simp only [upd_apply] at hg'
    split at hg'
    · simp at hg'
    · rename_i hne
      rcases h1 bs' k' hg' with hl | ⟨l', hl', hm⟩
      · exact Or.inl hl
      · simp at hl'; obtain ⟨rfl, rfl⟩ := hl'
        right; refine ⟨rest, rfl, ?_⟩
        rcases List.mem_cons.mp hm with he | hm'
        · exact absurd he.symm hne
        · exact hm'
  · intro k' l' bs' hs' hm
    have := h2 k' l' bs' hs' hm
    have hne : bs ≠ bs' := by
      intro he; subst he
      rw [hall bs (by simp)] at this; simp at this; subst this
      rw [hsk] at hs'; simp at hs'
    simp [hne, this]
  · intro k' l' hp
    simp at hp; obtain ⟨rfl, rfl⟩ := hp
    rw [List.nodup_cons] at hnd
    refine ⟨hsk, hnd.2, ?_⟩
    intro bs' hm
    have hne : bs ≠ bs' := by intro he; subst he; exact hnd.1 hm
    simp [hne, hall bs' (by simp [hm])]

theorem CalleeP.pl_done {k : Uuid × Uuid} (h : CalleeP (some (k, [])) G S) : CalleeP none G S := by
  obtain ⟨h1, h2, h3, h4⟩ := h
  refine ⟨?_, h2, ?_, h4⟩
  · intro bs' k' hg'
    rcases h1 bs' k' hg' with hl | ⟨l', hl', hm⟩
    · exact Or.inl hl
    · simp at hl'; obtain ⟨_, rfl⟩ := hl'; simp at hm
  · intro k' l' hp; simp at hp

end Aldrin.Broker
