/-
Event subscriptions (`broker/src/broker/service.rs`) and the fan-out of `emit_event`.
-/
import Aldrin.Lemmas.Broker.Registry

namespace Aldrin.Broker
open Generated

/-- the subscribers of one event id -/
def Svc.subscribers (s : Svc) (ev : Nat) : List ConnId := (AL.find? ev s.events).getD []

/-- no empty subscriber entry is kept (the code removes an entry when its last subscriber leaves) -/
def Svc.OK (s : Svc) : Prop := ∀ ev subs, AL.find? ev s.events = some subs → subs ≠ [] ∧ subs.Nodup

theorem Svc.new_ok (c oc : Cookie) : ({ cookie := c, objCookie := oc } : Svc).OK := by
  intro ev subs h; simp at h

theorem sinsert_ne_nil {α : Type} [DecidableEq α] (a : α) (s : List α) : sinsert a s ≠ [] := by
  unfold sinsert; split
  · rename_i h; intro hn; subst hn; simp at h
  · simp

/-- subscribe: `first` is reported exactly on the 0 → 1 transition; afterwards `c` is subscribed and
nobody else's subscription changed -/
theorem Svc.subscribeEvent_spec (s : Svc) (ev : Nat) (c : ConnId) (h : s.OK) :
    ((s.subscribeEvent ev c).2 = true ↔ s.subscribers ev = []) ∧
    (∀ x, x ∈ (s.subscribeEvent ev c).1.subscribers ev ↔ x = c ∨ x ∈ s.subscribers ev) ∧
    (∀ ev', ev' ≠ ev → (s.subscribeEvent ev c).1.subscribers ev' = s.subscribers ev') ∧
    (s.subscribeEvent ev c).1.OK := by
  unfold Svc.subscribeEvent Svc.subscribers
  cases hf : AL.find? ev s.events with
  | none =>
    simp only [Option.getD_none, AL.find?_insert_self, Option.getD_some, List.mem_singleton, List.not_mem_nil, or_false]
    refine ⟨by simp, by simp, ?_, ?_⟩
    · intro ev' hne; rw [AL.find?_insert_ne _ _ (Ne.symm hne)]
    · intro e subs he
      rw [AL.find?_insert] at he
      split at he
      · simp at he; subst he; simp
      · exact h _ _ he
  | some subs =>
    have hs := h _ _ hf
    simp only [Option.getD_some, AL.find?_insert_self, mem_sinsert]
    refine ⟨by simp [hs.1], by simp, ?_, ?_⟩
    · intro ev' hne; rw [AL.find?_insert_ne _ _ (Ne.symm hne)]
    · intro e subs' he
      rw [AL.find?_insert] at he
      split at he
      · simp at he; subst he; exact ⟨sinsert_ne_nil _ _, nodup_sinsert _ _ hs.2⟩
      · exact h _ _ he

/-- unsubscribe: `last` is reported exactly on the 1 → 0 transition -/
theorem Svc.unsubscribeEvent_spec (s : Svc) (ev : Nat) (c : ConnId) (h : s.OK) :
    ((s.unsubscribeEvent ev c).2 = true ↔ (s.subscribers ev ≠ [] ∧ (s.unsubscribeEvent ev c).1.subscribers ev = [])) ∧
    (∀ x, x ∈ (s.unsubscribeEvent ev c).1.subscribers ev ↔ x ≠ c ∧ x ∈ s.subscribers ev) ∧
    (∀ ev', ev' ≠ ev → (s.unsubscribeEvent ev c).1.subscribers ev' = s.subscribers ev') ∧
    (s.unsubscribeEvent ev c).1.OK := by
  unfold Svc.unsubscribeEvent Svc.subscribers
  cases hf : AL.find? ev s.events with
  | none => simp [hf]; exact h
  | some subs =>
    have hs := h _ _ hf
    simp only [Option.getD_some]
    by_cases he : (sremove c subs).isEmpty = true
    · simp only [he, ↓reduceIte, AL.find?_erase_self, Option.getD_none, List.not_mem_nil, false_iff, not_and]
      have hnil : sremove c subs = [] := List.isEmpty_iff.mp he
      refine ⟨by simp [hs.1], ?_, ?_, ?_⟩
      · intro x hx hm
        have : x ∈ sremove c subs := (mem_sremove _ _ _).mpr ⟨hx, hm⟩
        rw [hnil] at this; simp at this
      · intro ev' hne; rw [AL.find?_erase_ne _ (Ne.symm hne)]
      · intro e subs' hfe
        rw [AL.find?_erase] at hfe
        split at hfe
        · simp at hfe
        · exact h _ _ hfe
    · simp only [he, Bool.false_eq_true, ↓reduceIte, AL.find?_insert_self, Option.getD_some, mem_sremove, false_iff, not_and]
      have hne' : sremove c subs ≠ [] := fun hn => he (by simp [hn])
      refine ⟨fun _ => hne', by simp, ?_, ?_⟩
      · intro ev' hne; rw [AL.find?_insert_ne _ _ (Ne.symm hne)]
      · intro e subs' hfe
        rw [AL.find?_insert] at hfe
        split at hfe
        · simp at hfe; subst hfe; exact ⟨hne', nodup_sremove _ _ hs.2⟩
        · exact h _ _ hfe

/-- all-events subscriptions: same transitions on the single set -/
theorem Svc.subscribeAll_spec (s : Svc) (c : ConnId) :
    ((s.subscribeAll c).2 = true ↔ s.allEvents = []) ∧
    (∀ x, x ∈ (s.subscribeAll c).1.allEvents ↔ x = c ∨ x ∈ s.allEvents) := by
  unfold Svc.subscribeAll
  simp [mem_sinsert, List.isEmpty_iff]

theorem Svc.unsubscribeAll_spec (s : Svc) (c : ConnId) :
    ((s.unsubscribeAll c).2 = true ↔ (s.allEvents ≠ [] ∧ (s.unsubscribeAll c).1.allEvents = [])) ∧
    (∀ x, x ∈ (s.unsubscribeAll c).1.allEvents ↔ x ≠ c ∧ x ∈ s.allEvents) := by
  unfold Svc.unsubscribeAll
  simp [mem_sremove, List.isEmpty_iff]

/-- history form for one event id of one service: for every sequence of subscribe / unsubscribe by any
connections, the owner notifications (`first` / `last` flags) are raised exactly when the subscriber
set changes between empty and non-empty -/
inductive SubOp where
  | sub (c : ConnId) | unsub (c : ConnId)
  deriving Repr

def Svc.applySub (ev : Nat) (s : Svc) : SubOp → Svc × Bool
  | .sub c => s.subscribeEvent ev c
  | .unsub c => s.unsubscribeEvent ev c

theorem Svc.history_transitions (ev : Nat) (ops : List SubOp) (s : Svc) (h : s.OK) :
    (ops.foldl (fun (a : Svc × Prop) op => ((a.1.applySub ev op).1,
        a.2 ∧ (((a.1.applySub ev op).2 = true) ↔
          ((a.1.subscribers ev = []) ≠ (((a.1.applySub ev op).1).subscribers ev = []))))) (s, True)).2 ∧
    (ops.foldl (fun (a : Svc × Prop) op => ((a.1.applySub ev op).1,
        a.2 ∧ (((a.1.applySub ev op).2 = true) ↔
          ((a.1.subscribers ev = []) ≠ (((a.1.applySub ev op).1).subscribers ev = []))))) (s, True)).1.OK := by
  suffices ∀ (P : Prop), P → 
      (ops.foldl (fun (a : Svc × Prop) op => ((a.1.applySub ev op).1,
        a.2 ∧ (((a.1.applySub ev op).2 = true) ↔
          ((a.1.subscribers ev = []) ≠ (((a.1.applySub ev op).1).subscribers ev = []))))) (s, P)).2 ∧
      (ops.foldl (fun (a : Svc × Prop) op => ((a.1.applySub ev op).1,
        a.2 ∧ (((a.1.applySub ev op).2 = true) ↔
          ((a.1.subscribers ev = []) ≠ (((a.1.applySub ev op).1).subscribers ev = []))))) (s, P)).1.OK from this True trivial
  induction ops generalizing s with
  | nil => intro P hp; exact ⟨hp, h⟩
  | cons op ops ih =>
    intro P hp
    simp only [List.foldl_cons]
    cases op with
    | sub c =>
      obtain ⟨h1, h2, _, h4⟩ := Svc.subscribeEvent_spec s ev c h
      apply ih _ h4
      refine ⟨hp, ?_⟩
      simp only [Svc.applySub]
      rw [h1]
      have hne : (s.subscribeEvent ev c).1.subscribers ev ≠ [] := by
        intro hn
        have := (h2 c).mpr (Or.inl rfl)
        rw [hn] at this; simp at this
      simp [hne]
    | unsub c =>
      obtain ⟨h1, _, _, h4⟩ := Svc.unsubscribeEvent_spec s ev c h
      apply ih _ h4
      refine ⟨hp, ?_⟩
      simp only [Svc.applySub]
      rw [h1]
      by_cases he : s.subscribers ev = []
      · simp [he]
        -- unsubscribing from an empty set leaves it empty
        unfold Svc.unsubscribeEvent Svc.subscribers at *
        cases hf : AL.find? ev s.events with
        | none => simp [hf]
        | some subs => simp [hf] at he; exact absurd he (h _ _ hf).1
      · simp [he]

/-! ### fan-out -/

theorem emitEvent_fold_out (svc : Cookie) (ev : Nat) (p : Payload) (v : Option Nat) :
    ∀ (cs : List (ConnId × Conn)) (s : St),
    (cs.foldl (fun s (q : ConnId × Conn) =>
        if q.2.isSubscribedToEvent svc ev then s.sendOrRemove q.1 (.emitEvent svc ev p) v else s) s).out =
      s.out ++ cs.filterMap (fun q => if q.2.isSubscribedToEvent svc ev then
        (match AL.find? q.1 s.b.conns with
          | some c => if c.alive then some ⟨q.1, .emitEvent svc ev p, v⟩ else none
          | none => none) else none) ∧
    (cs.foldl (fun s (q : ConnId × Conn) =>
        if q.2.isSubscribedToEvent svc ev then s.sendOrRemove q.1 (.emitEvent svc ev p) v else s) s).b.conns = s.b.conns := by
  intro cs
  induction cs with
  | nil => intro s; simp
  | cons q cs ih =>
    intro s
    simp only [List.foldl_cons, List.filterMap_cons]
    obtain ⟨ih1, ih2⟩ := ih (if q.2.isSubscribedToEvent svc ev then s.sendOrRemove q.1 (.emitEvent svc ev p) v else s)
    rw [ih1, ih2]
    by_cases hsub : q.2.isSubscribedToEvent svc ev = true
    · simp only [hsub, ↓reduceIte, St.sendOrRemove_b_conns]
      cases hc : AL.find? q.1 s.b.conns with
      | none =>
        unfold St.sendOrRemove St.send
        simp [hc, St.pushRemoveConn]
      | some c =>
        unfold St.sendOrRemove St.send
        cases ha : c.alive <;> simp [hc, ha, St.pushRemoveConn]
    · simp [hsub]

/-- C04: an event emitted by the owner goes, payload unchanged, exactly once to every connection that
is subscribed to that event id or to all events of the service (and still alive), to nobody else -/
theorem emitEvent_fanout {s : St} {id svc ev p} {emitter : Conn} {oid : ObjId} {su info} {o : Obj}
    (hc : AL.find? id s.b.conns = some emitter) (hs : AL.find? svc s.b.svcUuids = some (oid, su, info))
    (ho : AL.find? oid.uuid s.b.objs = some o) (hown : o.conn = id) :
    ∃ s', emitEvent s id svc ev p = .ok (s', true) ∧
      s'.out = s.out ++ s.b.conns.filterMap (fun q => if q.2.isSubscribedToEvent svc ev then
        (match AL.find? q.1 s.b.conns with
          | some c => if c.alive then some ⟨q.1, .emitEvent svc ev p, some emitter.version⟩ else none
          | none => none) else none) := by
  unfold emitEvent
  simp only [St.conn?_def, hc, hs, ho, hown, ne_eq, not_true_eq_false, ↓reduceIte, okH]
  exact ⟨_, rfl, (emitEvent_fold_out svc ev p (some emitter.version) s.b.conns s).1⟩

/-- events emitted by anybody but the owner are dropped -/
theorem emitEvent_foreign_dropped {s : St} {id svc ev p} {emitter : Conn} {oid : ObjId} {su info} {o : Obj}
    (hc : AL.find? id s.b.conns = some emitter) (hs : AL.find? svc s.b.svcUuids = some (oid, su, info))
    (ho : AL.find? oid.uuid s.b.objs = some o) (hne : o.conn ≠ id) :
    emitEvent s id svc ev p = .ok (s, true) := by
  unfold emitEvent
  simp [hc, hs, ho, hne, okH]

end Aldrin.Broker
