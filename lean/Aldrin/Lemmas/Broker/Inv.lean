/-
Global invariants of the broker model, part 1: every channel in the map satisfies the channel
invariant (`Chan.OK`), every bus listener the listener invariant (`Listener.OK`).
-/
import Aldrin.Lemmas.Broker.Frame
import Aldrin.Lemmas.Broker.Listener
import Aldrin.Model.Broker.Run

namespace Aldrin.Broker
open Generated

/-- all values of a map satisfy `P` -/
def AllV {K V : Type} [DecidableEq K] (P : V → Prop) (m : List (K × V)) : Prop := ∀ k v, AL.find? k m = some v → P v

theorem AllV_find {K V : Type} [DecidableEq K] {P : V → Prop} {m : List (K × V)} {k : K} {v : V}
    (h : AllV P m) (hf : AL.find? k m = some v) : P v := h k v hf

theorem AllV_insert {K V : Type} [DecidableEq K] {P : V → Prop} {m : List (K × V)} {k : K} {v : V}
    (h : AllV P m) (hv : P v) : AllV P (AL.insert k v m) := by
  intro k' v' hk
  rw [AL.find?_insert] at hk
  split at hk
  · simp at hk; exact hk ▸ hv
  · exact h _ _ hk

theorem AllV_erase {K V : Type} [DecidableEq K] {P : V → Prop} {m : List (K × V)} {k : K}
    (h : AllV P m) : AllV P (AL.erase k m) := by
  intro k' v' hk
  rw [AL.find?_erase] at hk
  split at hk
  · simp at hk
  · exact h _ _ hk

theorem AllV_erase_insert {K V : Type} [DecidableEq K] {P : V → Prop} {m : List (K × V)} {k : K} {v : V}
    (h : AllV P m) : AllV P (AL.erase k (AL.insert k v m)) := by
  intro k' v' hk
  rw [AL.find?_erase] at hk
  split at hk
  · simp at hk
  · rw [AL.find?_insert_ne _ _ ‹_›] at hk; exact h _ _ hk

theorem AllV_nil {K V : Type} [DecidableEq K] {P : V → Prop} : AllV P ([] : List (K × V)) := by
  intro k v h; simp at h

def ChInv (s : St) : Prop := AllV Chan.OK s.b.channels
def LInv (s : St) : Prop := AllV Listener.OK s.b.listeners
def CLInv (s : St) : Prop := ChInv s ∧ LInv s

theorem CLInv_of_same {s s' : St} (h : CLInv s) (hs : SameCL s s') : CLInv s' := by
  unfold CLInv ChInv LInv at *
  rw [hs.1, hs.2.1]; exact h

theorem ChInv_of_eq {s s' : St} (h : ChInv s) (hs : s'.b.channels = s.b.channels) : ChInv s' := by
  unfold ChInv at *; rw [hs]; exact h

theorem LInv_of_eq {s s' : St} (h : LInv s) (hs : s'.b.listeners = s.b.listeners) : LInv s' := by
  unfold LInv at *; rw [hs]; exact h

syntax "inv_tac" ident ident "[" Lean.Parser.Tactic.grindParam,* "]" : tactic
macro_rules
  | `(tactic| inv_tac $f $hr [$ls,*]) => `(tactic|
      (unfold $f at $hr:ident
       repeat' ((try simp only [] at $hr:ident); split at $hr:ident)
       all_goals (try (simp at $hr:ident; done))
       all_goals (grind [okH, errH, ChInv, LInv, → AllV_find, AllV_insert, AllV_erase, AllV_erase_insert, $ls,*])))

/-! ### listener handlers -/

theorem removeBusListener_LInv {s : St} (c : Cookie) (h : LInv s) : LInv (removeBusListener s c) := by
  unfold removeBusListener
  split
  · exact h
  · simp only [LInv, St.stat_b_listeners, St.updConn_b_listeners, St.setListeners_b_listeners]
    exact AllV_erase h

theorem createBusListener_LInv {s s' : St} {id serial} {ok : Bool} (h : LInv s)
    (hr : createBusListener s id serial = .ok (s', ok)) : LInv s' := by
  inv_tac createBusListener hr [Listener.new_ok]

theorem destroyBusListener_LInv {s s' : St} {id serial c} {ok : Bool} (h : LInv s)
    (hr : destroyBusListener s id serial c = .ok (s', ok)) : LInv s' := by
  inv_tac destroyBusListener hr [removeBusListener_LInv]

theorem updListener_LInv {s s' : St} {id c} {f : Listener → Listener} {ok : Bool} (h : LInv s)
    (hf : ∀ l, l.OK → (f l).OK) (hr : updListener s id c f = .ok (s', ok)) : LInv s' := by
  inv_tac updListener hr []

theorem stopBusListener_LInv {s s' : St} {id serial c} {ok : Bool} (h : LInv s)
    (hr : stopBusListener s id serial c = .ok (s', ok)) : LInv s' := by
  inv_tac stopBusListener hr [Listener.OK]

theorem startBusListener_LInv {s s' : St} {id serial c sc} {ok : Bool} (h : LInv s)
    (hr : startBusListener s id serial c sc = .ok (s', ok)) : LInv s' := by
  inv_tac startBusListener hr [Listener.OK]

/-! ### channel handlers -/

theorem removeChannelEnd_ChInv {s s' : St} {c e o} (h : ChInv s) (hr : removeChannelEnd s c e o = .ok s') : ChInv s' := by
  inv_tac removeChannelEnd hr [→ close_preserves]

theorem removeChannelEnd_ChInv' {s s' : St} {c e o} (hr : removeChannelEnd s c e o = .ok s') : ChInv s → ChInv s' :=
  fun h => removeChannelEnd_ChInv h hr

theorem createChannel_ChInv {s s' : St} {id serial e cap} {ok : Bool} (h : ChInv s)
    (hr : createChannel s id serial e cap = .ok (s', ok)) : ChInv s' := by
  inv_tac createChannel hr [withClaimedSender_ok, withClaimedReceiver_ok]

theorem closeChannelEnd_ChInv {s s' : St} {id serial c e} {ok : Bool} (h : ChInv s)
    (hr : closeChannelEnd s id serial c e = .ok (s', ok)) : ChInv s' := by
  inv_tac closeChannelEnd hr [→ removeChannelEnd_ChInv']

theorem claimChannelEnd_ChInv {s s' : St} {id serial c e cap} {ok : Bool} (h : ChInv s)
    (hr : claimChannelEnd s id serial c e cap = .ok (s', ok)) : ChInv s' := by
  inv_tac claimChannelEnd hr [→ claimSender_preserves, → claimReceiver_preserves]

theorem addChannelCapacity_ChInv {s s' : St} {id c cap} {ok : Bool} (h : ChInv s)
    (hr : addChannelCapacity s id c cap = .ok (s', ok)) : ChInv s' := by
  inv_tac addChannelCapacity hr [→ addCapacity_preserves, → removeChannelEnd_ChInv']

theorem sendItem_ChInv {s s' : St} {id c p} {ok : Bool} (h : ChInv s)
    (hr : sendItem s id c p = .ok (s', ok)) : ChInv s' := by
  inv_tac sendItem hr [→ sendItem_preserves, → removeChannelEnd_ChInv']

/-! ### connection teardown, dispatch, the work loop -/

theorem removeChannelEnd_CLInv {s s' : St} {c e o} (h : CLInv s) (hr : removeChannelEnd s c e o = .ok s') : CLInv s' :=
  ⟨removeChannelEnd_ChInv h.1 hr, LInv_of_eq h.2 (removeChannelEnd_listeners hr)⟩

theorem removeBusListener_CLInv {s : St} (c : Cookie) (h : CLInv s) : CLInv (removeBusListener s c) :=
  ⟨ChInv_of_eq h.1 (by simp), removeBusListener_LInv c h.2⟩

theorem shutdownConnection_CLInv {s s' : St} {id b} (h : CLInv s) (hr : shutdownConnection s id b = .ok s') : CLInv s' := by
  unfold shutdownConnection at hr
  split at hr
  · simp at hr; exact hr ▸ h
  · rename_i conn hconn
    simp only [] at hr
    repeat' (split at hr)
    all_goals (try (simp at hr; done))
    rename_i s1 h1 _ s2 h2 _ s3 h3 _ s4 h4 _ s5 h5 _ s6 h6
    have i1 : CLInv s1 := by
      refine foldE_inv CLInv _ (fun s a s' hp hr => CLInv_of_same hp (removeObject_cl hr)) _ _ _ ?_ h1
      apply foldl_inv CLInv _ (fun s a hp => removeBusListener_CLInv a hp)
      apply CLInv_of_same h
      split <;> (try split) <;> simp [SameCL]
    have i2 := foldE_inv CLInv _ (fun s a s' hp hr => CLInv_of_same hp (removeEventSubscription_cl hr)) _ _ _ i1 h2
    have i3 := foldE_inv CLInv _ (fun s a s' hp hr => CLInv_of_same hp (removeAllEventsSubscription_cl hr)) _ _ _ i2 h3
    have i4 := foldE_inv CLInv _ (fun s a s' hp hr => CLInv_of_same hp (removeSubscription_cl hr)) _ _ _ i3 h4
    have i5 := foldE_inv CLInv _ (fun s a s' hp hr => removeChannelEnd_CLInv hp hr) _ _ _ i4 h5
    have i6 := foldE_inv CLInv _ (fun s a s' hp hr => removeChannelEnd_CLInv hp hr) _ _ _ i5 h6
    refine CLInv_of_same ?_ (removeIntrospectionConn_cl hr)
    refine CLInv_of_same (s := List.foldl _ s6 conn.calls) ?_ (by simp only [SameCL, St.stat_b_channels, St.stat_b_listeners, St.stat_b_stats, St.stat_b_nextCookie]; exact ⟨rfl, rfl, rfl, rfl, Nat.le_refl _⟩)
    apply foldl_inv CLInv _ ?_ _ _ i6
    intro s a hp
    exact CLInv_of_same hp (by simp [SameCL])

theorem handleMessage_CLInv {s s' : St} {id : ConnId} {m : Req} {ok : Bool} (h : CLInv s)
    (hr : handleMessage s id m = .ok (s', ok)) : CLInv s' := by
  cases m <;> simp only [handleMessage] at hr
  case createObject => exact CLInv_of_same h (createObject_cl hr)
  case destroyObject => exact CLInv_of_same h (destroyObject_cl hr)
  case createService => exact CLInv_of_same h (createService_cl hr)
  case createService2 => exact CLInv_of_same h (createService2_cl hr)
  case destroyService => exact CLInv_of_same h (destroyService_cl hr)
  case callFunction => exact CLInv_of_same h (callFunctionImpl_cl hr)
  case callFunction2 => exact CLInv_of_same h (callFunction2_cl hr)
  case callFunctionReply => exact CLInv_of_same h (callFunctionReply_cl hr)
  case abortFunctionCall => exact CLInv_of_same h (abortFunctionCall_cl hr)
  case subscribeEvent => exact CLInv_of_same h (subscribeEvent_cl hr)
  case unsubscribeEvent => exact CLInv_of_same h (unsubscribeEvent_cl hr)
  case emitEvent => exact CLInv_of_same h (emitEvent_cl hr)
  case queryServiceVersion => exact CLInv_of_same h (queryServiceVersion_cl hr)
  case queryServiceInfo => exact CLInv_of_same h (queryServiceInfo_cl hr)
  case subscribeService => exact CLInv_of_same h (subscribeService_cl hr)
  case unsubscribeService => exact CLInv_of_same h (unsubscribeService_cl hr)
  case subscribeAllEvents => exact CLInv_of_same h (subscribeAllEvents_cl hr)
  case unsubscribeAllEvents => exact CLInv_of_same h (unsubscribeAllEvents_cl hr)
  case createChannel => exact ⟨createChannel_ChInv h.1 hr, LInv_of_eq h.2 (createChannel_listeners hr)⟩
  case closeChannelEnd => exact ⟨closeChannelEnd_ChInv h.1 hr, LInv_of_eq h.2 (closeChannelEnd_listeners hr)⟩
  case claimChannelEnd => exact ⟨claimChannelEnd_ChInv h.1 hr, LInv_of_eq h.2 (claimChannelEnd_listeners hr)⟩
  case sendItem => exact ⟨sendItem_ChInv h.1 hr, LInv_of_eq h.2 (sendItem_listeners hr)⟩
  case addChannelCapacity => exact ⟨addChannelCapacity_ChInv h.1 hr, LInv_of_eq h.2 (addChannelCapacity_listeners hr)⟩
  case sync => exact CLInv_of_same h (sync_cl hr)
  case createBusListener => exact ⟨ChInv_of_eq h.1 (createBusListener_channels hr), createBusListener_LInv h.2 hr⟩
  case destroyBusListener => exact ⟨ChInv_of_eq h.1 (destroyBusListener_channels hr), destroyBusListener_LInv h.2 hr⟩
  case addFilter f => exact ⟨ChInv_of_eq h.1 (updListener_channels hr), updListener_LInv h.2 (fun l hl => Listener.addFilter_ok _ hl) hr⟩
  case removeFilter f => exact ⟨ChInv_of_eq h.1 (updListener_channels hr), updListener_LInv h.2 (fun l hl => Listener.removeFilter_ok _ hl) hr⟩
  case clearFilters => exact ⟨ChInv_of_eq h.1 (updListener_channels hr), updListener_LInv h.2 (fun l _ => Listener.clearFilters_ok l) hr⟩
  case startBusListener => exact ⟨ChInv_of_eq h.1 (startBusListener_channels hr), startBusListener_LInv h.2 hr⟩
  case stopBusListener => exact ⟨ChInv_of_eq h.1 (stopBusListener_channels hr), stopBusListener_LInv h.2 hr⟩
  case registerIntrospection => exact CLInv_of_same h (registerIntrospection_cl hr)
  case queryIntrospection => exact CLInv_of_same h (queryIntrospection_cl hr)
  case queryIntrospectionReply => exact CLInv_of_same h (queryIntrospectionReply_cl hr)
  case other => simp [errH] at hr; exact hr.1 ▸ h

theorem handleEvent_CLInv {s s' : St} {e : Event} (h : CLInv s) (hr : handleEvent s e = .ok s') : CLInv s' := by
  cases e <;> simp only [handleEvent] at hr
  case msg id m =>
    split at hr
    · simp at hr
    · rename_i s1 ok hm
      have := handleMessage_CLInv h hm
      simp only [Except.ok.injEq] at hr
      subst hr
      apply CLInv_of_same this
      split <;> simp [SameCL]
  case newConn id v =>
    split at hr
    · simp at hr
    · simp only [Except.ok.injEq] at hr; subst hr; exact CLInv_of_same h (by simp [SameCL])
  all_goals (simp only [Except.ok.injEq] at hr; subst hr; exact CLInv_of_same h (by simp [SameCL]))

@[simp] theorem emitBusEvent_channels (s : St) (e : BusEv) : (emitBusEvent s e).b.channels = s.b.channels := (emitBusEvent_cl s e).1
@[simp] theorem emitBusEvent_listeners (s : St) (e : BusEv) : (emitBusEvent s e).b.listeners = s.b.listeners := (emitBusEvent_cl s e).2.1
@[simp] theorem emitBusEvent_numChannels (s : St) (e : BusEv) : (emitBusEvent s e).b.stats.numChannels = s.b.stats.numChannels := (emitBusEvent_cl s e).2.2.1
@[simp] theorem emitBusEvent_numBusListeners (s : St) (e : BusEv) : (emitBusEvent s e).b.stats.numBusListeners = s.b.stats.numBusListeners := (emitBusEvent_cl s e).2.2.2.1
theorem emitBusEvent_nextCookie (s : St) (e : BusEv) : s.b.nextCookie ≤ (emitBusEvent s e).b.nextCookie := (emitBusEvent_cl s e).2.2.2.2

theorem processOne_CLInv {s s' : St} (h : CLInv s) (hr : processOne s = some (.ok s')) : CLInv s' := by
  unfold processOne at hr
  repeat' (split at hr)
  all_goals (try (simp only [Option.some.injEq, reduceCtorEq] at hr))
  all_goals first
    | (refine shutdownConnection_CLInv (s := s.setWRemoveConns _) (CLInv_of_same h ?_) hr; simp [SameCL]; done)
    | (refine CLInv_of_same (CLInv_of_same (s' := s.setWAbortCalls _) h ?_) (abortCall_cl hr); simp [SameCL]; done)
    | (simp only [Except.ok.injEq] at hr; subst hr; refine CLInv_of_same h ?_; simp [SameCL]; done)
    | (simp only [Except.ok.injEq] at hr; subst hr; refine CLInv_of_same h (SameCL.trans (b := s.setWCreateObject _) ?_ (emitBusEvent_cl _ _)); simp [SameCL]; done)
    | (simp only [Except.ok.injEq] at hr; subst hr; refine CLInv_of_same h (SameCL.trans (b := s.setWCreateService _) ?_ (emitBusEvent_cl _ _)); simp [SameCL]; done)
    | (simp only [Except.ok.injEq] at hr; subst hr; refine CLInv_of_same h (SameCL.trans (b := s.setWDestroyService _) ?_ (emitBusEvent_cl _ _)); simp [SameCL]; done)
    | (simp only [Except.ok.injEq] at hr; subst hr; refine CLInv_of_same h (SameCL.trans (b := s.setWDestroyObject _) ?_ (emitBusEvent_cl _ _)); simp [SameCL]; done)
    | (simp only [Except.ok.injEq] at hr; subst hr; refine CLInv_of_same h ?_; split <;> simp [SameCL]; done)
    | (split at hr <;> (try split at hr) <;> (try simp only [Except.ok.injEq, reduceCtorEq] at hr) <;>
        first | (exact hr.elim) | (subst hr; refine CLInv_of_same h ?_; simp [SameCL]; done))

theorem processLoop_CLInv : ∀ (fuel : Nat) (s s' : St), CLInv s → processLoop fuel s = .ok s' → CLInv s' := by
  intro fuel
  induction fuel with
  | zero => intro s s' _ hr; simp [processLoop] at hr
  | succ n ih =>
    intro s s' h hr
    simp only [processLoop] at hr
    split at hr
    · simp at hr; exact hr ▸ h
    · simp at hr
    · exact ih _ _ (processOne_CLInv h ‹_›) hr

/-- One turn of `Broker::run` keeps every channel and every bus listener within its invariant. -/
theorem step_CLInv {b b' : Broker} {w w' : Work} {e : Event} {out : List Out}
    (h : CLInv ⟨b, w, []⟩) (hr : step b w e = .ok (b', w', out)) : CLInv ⟨b', w', []⟩ := by
  unfold step at hr
  split at hr
  · simp at hr
  · rename_i s1 h1
    split at hr
    · simp at hr
    · rename_i s2 h2
      simp only [Except.ok.injEq, Prod.mk.injEq] at hr
      obtain ⟨rfl, rfl, _⟩ := hr
      have := processLoop_CLInv _ _ _ (handleEvent_CLInv h h1) h2
      exact this

theorem CLInv_init : CLInv ⟨{}, {}, []⟩ := ⟨AllV_nil, AllV_nil⟩

/-- the invariant does not depend on the work queue or the output buffer -/
theorem CLInv_b {b : Broker} {w w' : Work} {o o' : List Out} (h : CLInv ⟨b, w, o⟩) : CLInv ⟨b, w', o'⟩ := h

/-- For every history: whenever the run does not panic, every channel and every bus listener of the
final state satisfies its invariant. -/
theorem run_CLInv : ∀ (es : List Event) (b b' : Broker) (w w' : Work) (outs : List (List Out)),
    CLInv ⟨b, w, []⟩ → run b w es = .ok (b', w', outs) → CLInv ⟨b', w', []⟩ := by
  intro es
  induction es with
  | nil => intro b b' w w' outs h hr; simp [run] at hr; obtain ⟨rfl, rfl, _⟩ := hr; exact h
  | cons e es ih =>
    intro b b' w w' outs h hr
    simp only [run] at hr
    split at hr
    · simp at hr
    · rename_i b1 w1 o1 h1
      split at hr
      · simp at hr
      · rename_i b2 w2 o2 h2
        simp only [Except.ok.injEq, Prod.mk.injEq] at hr
        obtain ⟨rfl, rfl, _⟩ := hr
        exact ih _ _ _ _ _ (step_CLInv h h1) h2

end Aldrin.Broker
