/-
Frame lemmas for the registry invariant: every function of the broker model except `create_object`, `create_service`,
`remove_service`, `remove_object` (and the handlers that call them), the removal of a connection and `NewConnection`
leaves the views of `Lemmas/Broker/RegView.lean` exactly as they were (`SameReg`).
-/
import Aldrin.Lemmas.Broker.RegView

set_option linter.unusedSimpArgs false
set_option linter.unusedVariables false
namespace Aldrin.Broker

@[simp, grind =] theorem ro_removeBusListener (s : St) (k : Cookie) (c : ConnId) : ro (removeBusListener s k) c = ro s c := by
  unfold removeBusListener; split <;> simp [ro_updConn']

theorem removeBusListener_reg (s : St) (k : Cookie) : SameReg s (removeBusListener s k) := by
  refine ⟨?_, ?_, ?_, fun k => ?_, fun c => ?_⟩
  all_goals (unfold removeBusListener; split <;> simp [ro_updConn'])

@[grind →] theorem removeEventSubscription_reg {s s' : St} {cid c ev} : removeEventSubscription s cid c ev = .ok s' → SameReg s s' := by
  reg_tac removeEventSubscription

@[grind →] theorem removeChannelEnd_reg {s s' : St} {c e o} : removeChannelEnd s c e o = .ok s' → SameReg s s' := by
  reg_tac removeChannelEnd
@[grind →] theorem removeAllEventsSubscription_reg {s s' : St} {cid c} : removeAllEventsSubscription s cid c = .ok s' → SameReg s s' := by
  reg_tac removeAllEventsSubscription
@[grind →] theorem removeSubscription_reg {s s' : St} {cid c} : removeSubscription s cid c = .ok s' → SameReg s s' := by
  reg_tac removeSubscription
@[grind →] theorem askIntrospection_reg {s s' : St} {ty e} : askIntrospection s ty e = .ok s' → SameReg s s' := by
  reg_tac askIntrospection
@[grind →] theorem abortCall_reg {s s' : St} {serial cid} : abortCall s serial cid = .ok s' → SameReg s s' := by
  reg_tac abortCall

theorem replyPending_reg : ∀ (l : List IQuery) (s s' : St) (r m), replyPending s l r m = .ok s' → SameReg s s' := by
  intro l
  induction l with
  | nil => intro s s' r m h; simp [replyPending] at h; subst h; exact SameReg.refl _
  | cons a l ih =>
    intro s s' r m h
    simp only [replyPending] at h
    repeat' (split at h)
    · simp at h
    · exact ih _ _ _ _ h
    · exact SameReg.trans (by reg_eq) (ih _ _ _ _ h)

theorem removeIntrospectionConn_go_reg : ∀ (l : List (Nat × Option Uuid × List IQuery)) (s s' : St),
    removeIntrospectionConn.go s l = .ok s' → SameReg s s' := by
  intro l
  induction l with
  | nil => intro s s' h; simp [removeIntrospectionConn.go] at h; subst h; exact SameReg.refl _
  | cons a l ih =>
    intro s s' h
    obtain ⟨serial, cont, pending⟩ := a
    simp only [removeIntrospectionConn.go] at h
    repeat' ((try simp only [] at h); split at h)
    all_goals (try (simp at h; done))
    · have h1 := replyPending_reg _ _ _ _ _ ‹_›
      have h2 := ih _ _ h
      exact SameReg.trans (SameReg.trans (by reg_eq) h1) h2
    · have h2 := ih _ _ h
      exact SameReg.trans (by reg_eq) h2
    · have h1 := askIntrospection_reg ‹_›
      have h2 := ih _ _ h
      exact SameReg.trans (SameReg.trans (by reg_eq) h1) h2

@[grind →] theorem removeIntrospectionConn_reg {s s' : St} {cid} : removeIntrospectionConn s cid = .ok s' → SameReg s s' := by
  intro h
  unfold removeIntrospectionConn at h
  simp only [] at h
  exact SameReg.trans (by reg_eq) (removeIntrospectionConn_go_reg _ _ _ h)

--HANDLERS
@[grind →] theorem callFunctionImpl_reg {s s' : St} {id serial svc f v p} {ok : Bool} : callFunctionImpl s id serial svc f v p = .ok (s', ok) → SameReg s s' := by
  reg_tac callFunctionImpl
@[grind →] theorem callFunction2_reg {s s' : St} {id serial svc f v p} {ok : Bool} : callFunction2 s id serial svc f v p = .ok (s', ok) → SameReg s s' := by
  intro h; unfold callFunction2 at h
  repeat' ((try simp only [] at h); split at h)
  all_goals (try (simp only [okH, errH, Except.ok.injEq, Prod.mk.injEq, reduceCtorEq] at h))
  all_goals (try (obtain ⟨h1, h2⟩ := h; subst h1; subst h2))
  all_goals (try (exact SameReg.refl _))
  exact callFunctionImpl_reg h
@[grind →] theorem callFunctionReply_reg {s s' : St} {id serial r} {ok : Bool} : callFunctionReply s id serial r = .ok (s', ok) → SameReg s s' := by
  reg_tac callFunctionReply
@[grind →] theorem abortFunctionCall_reg {s s' : St} {id serial} {ok : Bool} : abortFunctionCall s id serial = .ok (s', ok) → SameReg s s' := by
  reg_tac abortFunctionCall
@[grind →] theorem subscribeEvent_reg {s s' : St} {id serial svc ev} {ok : Bool} : subscribeEvent s id serial svc ev = .ok (s', ok) → SameReg s s' := by
  reg_tac subscribeEvent
@[grind →] theorem unsubscribeEvent_reg {s s' : St} {id svc ev} {ok : Bool} : unsubscribeEvent s id svc ev = .ok (s', ok) → SameReg s s' := by
  reg_tac unsubscribeEvent

@[grind →] theorem emitEvent_reg {s s' : St} {id svc ev p} {ok : Bool} : emitEvent s id svc ev p = .ok (s', ok) → SameReg s s' := by
  intro h; unfold emitEvent at h
  repeat' ((try simp only [] at h); split at h)
  all_goals (try (simp only [okH, errH, Except.ok.injEq, Prod.mk.injEq, reduceCtorEq] at h))
  all_goals (try (obtain ⟨h1, h2⟩ := h; subst h1; subst h2))
  all_goals (try (exact SameReg.refl _))
  apply foldl_inv (fun s' => SameReg s s')
  · intro s1 a hp; split
    · exact SameReg.trans hp (by reg_eq)
    · exact hp
  · exact SameReg.refl _

@[grind →] theorem queryServiceVersion_reg {s s' : St} {id serial svc} {ok : Bool} : queryServiceVersion s id serial svc = .ok (s', ok) → SameReg s s' := by
  reg_tac queryServiceVersion
@[grind →] theorem queryServiceInfo_reg {s s' : St} {id serial svc} {ok : Bool} : queryServiceInfo s id serial svc = .ok (s', ok) → SameReg s s' := by
  reg_tac queryServiceInfo
@[grind →] theorem subscribeService_reg {s s' : St} {id serial svc} {ok : Bool} : subscribeService s id serial svc = .ok (s', ok) → SameReg s s' := by
  reg_tac subscribeService
@[grind →] theorem unsubscribeService_reg {s s' : St} {id svc} {ok : Bool} : unsubscribeService s id svc = .ok (s', ok) → SameReg s s' := by
  reg_tac unsubscribeService
@[grind →] theorem subscribeAllEvents_reg {s s' : St} {id serial svc} {ok : Bool} : subscribeAllEvents s id serial svc = .ok (s', ok) → SameReg s s' := by
  reg_tac subscribeAllEvents
@[grind →] theorem unsubscribeAllEvents_reg {s s' : St} {id serial svc} {ok : Bool} : unsubscribeAllEvents s id serial svc = .ok (s', ok) → SameReg s s' := by
  reg_tac unsubscribeAllEvents
@[grind →] theorem createChannel_reg {s s' : St} {id serial e cap} {ok : Bool} : createChannel s id serial e cap = .ok (s', ok) → SameReg s s' := by
  reg_tac createChannel
@[grind →] theorem closeChannelEnd_reg {s s' : St} {id serial c e} {ok : Bool} : closeChannelEnd s id serial c e = .ok (s', ok) → SameReg s s' := by
  intro h; unfold closeChannelEnd at h
  repeat' ((try simp only [] at h); split at h)
  all_goals (try (simp only [okH, errH, Except.ok.injEq, Prod.mk.injEq, reduceCtorEq] at h))
  all_goals (try (have hfst := congrArg Prod.fst h; (try dsimp only at hfst); rw [← hfst]; clear hfst h))
  all_goals (try (exact h.elim))
  all_goals (try (obtain ⟨h1, h2⟩ := h; subst h1; subst h2))
  all_goals (try (exact SameReg.refl _))
  all_goals (try (reg_eq))
  all_goals (refine SameReg.trans ?_ (removeChannelEnd_reg ‹removeChannelEnd _ _ _ _ = _›); reg_eq)
@[grind →] theorem claimChannelEnd_reg {s s' : St} {id serial c e cap} {ok : Bool} : claimChannelEnd s id serial c e cap = .ok (s', ok) → SameReg s s' := by
  reg_tac claimChannelEnd
@[grind →] theorem addChannelCapacity_reg {s s' : St} {id c cap} {ok : Bool} : addChannelCapacity s id c cap = .ok (s', ok) → SameReg s s' := by
  intro h; unfold addChannelCapacity at h
  repeat' ((try simp only [] at h); split at h)
  all_goals (try (simp only [okH, errH, Except.ok.injEq, Prod.mk.injEq, reduceCtorEq] at h))
  all_goals (try (exact h.elim))
  all_goals (try (obtain ⟨h1, h2⟩ := h; subst h1; subst h2))
  all_goals (try (exact SameReg.refl _))
  all_goals (try (reg_eq))
  all_goals (exact removeChannelEnd_reg ‹removeChannelEnd _ _ _ _ = _›)
@[grind →] theorem sendItem_reg {s s' : St} {id c p} {ok : Bool} : sendItem s id c p = .ok (s', ok) → SameReg s s' := by
  intro h; unfold sendItem at h
  repeat' ((try simp only [] at h); split at h)
  all_goals (try (simp only [okH, errH, Except.ok.injEq, Prod.mk.injEq, reduceCtorEq] at h))
  all_goals (try (have hfst := congrArg Prod.fst h; (try dsimp only at hfst); rw [← hfst]; clear hfst h))
  all_goals (try (exact h.elim))
  all_goals (try (obtain ⟨h1, h2⟩ := h; subst h1; subst h2))
  all_goals (try (exact SameReg.refl _))
  all_goals (try (reg_eq))
  all_goals (try (exact removeChannelEnd_reg ‹removeChannelEnd _ _ _ _ = _›))
  all_goals (rename_i h1 _ _ h2; exact SameReg.trans (removeChannelEnd_reg h1) (removeChannelEnd_reg h2))
@[grind →] theorem sync_reg {s s' : St} {id serial} {ok : Bool} : sync s id serial = .ok (s', ok) → SameReg s s' := by
  reg_tac sync
@[grind →] theorem createBusListener_reg {s s' : St} {id serial} {ok : Bool} : createBusListener s id serial = .ok (s', ok) → SameReg s s' := by
  reg_tac createBusListener
@[grind →] theorem destroyBusListener_reg {s s' : St} {id serial c} {ok : Bool} : destroyBusListener s id serial c = .ok (s', ok) → SameReg s s' := by
  intro h; unfold destroyBusListener at h
  repeat' ((try simp only [] at h); split at h)
  all_goals (try (simp only [okH, errH, Except.ok.injEq, Prod.mk.injEq, reduceCtorEq] at h))
  all_goals (try (have hfst := congrArg Prod.fst h; (try dsimp only at hfst); rw [← hfst]; clear hfst h))
  all_goals (try (exact h.elim))
  all_goals (try (obtain ⟨h1, h2⟩ := h; subst h1; subst h2))
  all_goals (try (exact SameReg.refl _))
  all_goals (try (reg_eq))
  all_goals (refine SameReg.trans ?_ (removeBusListener_reg _ _); reg_eq)
@[grind →] theorem updListener_reg {s s' : St} {id c f} {ok : Bool} : updListener s id c f = .ok (s', ok) → SameReg s s' := by
  reg_tac updListener

theorem sendAll_reg : ∀ (l : List Rsp) (s : St) (id : ConnId), SameReg s (sendAll s id l).1 := by
  intro l
  induction l with
  | nil => intro s id; exact SameReg.refl _
  | cons a l ih =>
    intro s id
    simp only [sendAll]
    split
    · exact SameReg.trans (by reg_eq) (ih _ _)
    · reg_eq

@[grind →] theorem startBusListener_reg {s s' : St} {id serial c sc} {ok : Bool} : startBusListener s id serial c sc = .ok (s', ok) → SameReg s s' := by
  intro h; unfold startBusListener at h
  repeat' ((try simp only [] at h); split at h)
  all_goals (try (simp only [okH, errH, Except.ok.injEq, Prod.mk.injEq, reduceCtorEq] at h))
  all_goals (try (exact h.elim))
  all_goals (try (have hfst := congrArg Prod.fst h; (try dsimp only at hfst); rw [← hfst]; clear hfst h))
  all_goals (try (obtain ⟨h1, h2⟩ := h; subst h1; subst h2))
  all_goals (try (exact SameReg.refl _))
  all_goals (try (reg_eq))
  all_goals (refine SameReg.trans ?_ (sendAll_reg _ _ _); reg_eq)

@[grind →] theorem stopBusListener_reg {s s' : St} {id serial c} {ok : Bool} : stopBusListener s id serial c = .ok (s', ok) → SameReg s s' := by
  reg_tac stopBusListener

@[grind →] theorem registerIntrospection_reg {s s' : St} {id tys} {ok : Bool} : registerIntrospection s id tys = .ok (s', ok) → SameReg s s' := by
  intro h; unfold registerIntrospection at h
  repeat' ((try simp only [] at h); split at h)
  all_goals (try (simp only [okH, errH, Except.ok.injEq, Prod.mk.injEq, reduceCtorEq] at h))
  all_goals (try (obtain ⟨h1, h2⟩ := h; subst h1; subst h2))
  all_goals (try (exact SameReg.refl _))
  apply foldl_inv (fun s' => SameReg s s')
  · intro s1 a hp; exact SameReg.trans hp (by reg_eq)
  · exact SameReg.refl _

@[grind →] theorem queryIntrospection_reg {s s' : St} {id serial ty} {ok : Bool} : queryIntrospection s id serial ty = .ok (s', ok) → SameReg s s' := by
  intro h; unfold queryIntrospection at h
  repeat' ((try simp only [] at h); split at h)
  all_goals (try (simp only [okH, errH, Except.ok.injEq, Prod.mk.injEq, reduceCtorEq] at h))
  all_goals (try (have hfst := congrArg Prod.fst h; (try dsimp only at hfst); rw [← hfst]; clear hfst h))
  all_goals (try (exact h.elim))
  all_goals (try (obtain ⟨h1, h2⟩ := h; subst h1; subst h2))
  all_goals (try (exact SameReg.refl _))
  all_goals (try (reg_eq))
  all_goals (refine SameReg.trans ?_ (askIntrospection_reg ‹askIntrospection _ _ _ = _›); reg_eq)

@[grind →] theorem queryIntrospectionReply_reg {s s' : St} {id serial r} {ok : Bool} : queryIntrospectionReply s id serial r = .ok (s', ok) → SameReg s s' := by
  intro h; unfold queryIntrospectionReply at h
  repeat' ((try simp only [] at h); split at h)
  all_goals (try (simp only [okH, errH, Except.ok.injEq, Prod.mk.injEq, reduceCtorEq] at h))
  all_goals (try (exact h.elim))
  all_goals (try (obtain ⟨h1, h2⟩ := h; subst h1; subst h2))
  all_goals (try (exact SameReg.refl _))
  all_goals (try (refine SameReg.trans ?_ (replyPending_reg _ _ _ _ _ ‹replyPending _ _ _ _ = _›); reg_eq; done))
  all_goals (refine SameReg.trans ?_ (askIntrospection_reg ‹askIntrospection _ _ _ = _›); reg_eq)

theorem emitBusEvent_reg (s : St) (e : BusEv) : SameReg s (emitBusEvent s e) := by
  unfold emitBusEvent
  simp only []
  apply foldl_inv (fun s' => SameReg s s')
  · intro s1 a hp; split
    · exact SameReg.trans hp (by reg_eq)
    · exact hp
  · exact SameReg.refl _

end Aldrin.Broker
