/-
The callee side of the cross-reference invariant of calls (`CalleeP`, `Lemmas/Broker/XCallee.lean`) on states of the
broker model (`Cal`): every call in the table is held by the service entry it is for, and what a service entry holds is
a call in the table for that service. Through `call_function`, `call_function_reply`, `abort_call`, `create_service`,
`remove_service` (hence `remove_object`, the destroy handlers, the removal of a connection), every request, every item
of deferred work, every event and turn; hence in every reachable state (`Reachable.cal`).
-/
import Aldrin.Lemmas.Broker.CalFrame
import Aldrin.Lemmas.Broker.XCallee
import Aldrin.Lemmas.Broker.Xref2
import Aldrin.Lemmas.Broker.Reg

set_option linter.unusedSimpArgs false
set_option linter.unusedVariables false
namespace Aldrin.Broker
open Generated

def Cal (pl : Option ((Uuid × Uuid) × List Nat)) (s : St) : Prop := CalleeP pl (gk s) (scv s)

variable {pl : Option ((Uuid × Uuid) × List Nat)}

/-- every call in the table is for the service it was for -/
def GkEq (s s' : St) : Prop := ∀ bs, gk s' bs = gk s bs

theorem GkEq.refl (s : St) : GkEq s s := fun _ => rfl
theorem GkEq.trans {a b c : St} (h1 : GkEq a b) (h2 : GkEq b c) : GkEq a c := fun k => (h2 k).trans (h1 k)
theorem GkEq.of_calls {s s' : St} (h : s'.b.calls = s.b.calls) : GkEq s s' := fun bs => by simp [gk, h]
theorem GkEq.of_F {s s' : St} (h : SameF s s') : GkEq s s' := GkEq.of_calls h.1

theorem Cal.of_views {s' : St} {G : GkView} {S : ScView} (h : CalleeP pl G S) (h1 : ∀ bs, gk s' bs = G bs) (h2 : ∀ k, scv s' k = S k) :
    Cal pl s' := by
  unfold Cal
  have e1 : gk s' = G := funext h1
  have e2 : scv s' = S := funext h2
  rw [e1, e2]; exact h

theorem Cal.of_frame {s s' : St} (h : Cal pl s) (hg : GkEq s s') (hs : SameSc s s') : Cal pl s' := Cal.of_views h hg hs

theorem Cal.of_F {s s' : St} (h : Cal pl s) (hf : SameF s s') (hs : SameSc s s') : Cal pl s' := h.of_frame (GkEq.of_F hf) hs

theorem Cal.of_eq {s s' : St} (h : Cal pl s) (h1 : s'.b.calls = s.b.calls) (h2 : s'.b.svcs = s.b.svcs) : Cal pl s' :=
  h.of_frame (GkEq.of_calls h1) (SameSc.of_eq h2)

theorem Cal.init : Cal none ⟨{}, {}, []⟩ := by
  refine Cal.of_views CalleeP.init ?_ ?_ <;> intro x <;> rfl

theorem gk_get {s : St} {bs : Nat} {c : Call} (h : s.b.calls.get? bs = some c) : gk s bs = some (c.calleeObj, c.calleeSvc) := by
  simp [gk, h]
theorem gk_get_none {s : St} {bs : Nat} (h : s.b.calls.get? bs = none) : gk s bs = none := by
  simp [gk, h]

/-! ### `abort_call` marks a call; the service it is for stays -/

theorem abortCall_gk {s s' : St} {serial cid} (hr : abortCall s serial cid = .ok s') : GkEq s s' := by
  unfold abortCall at hr
  split at hr
  · simp only [Except.ok.injEq] at hr; subst hr; exact GkEq.refl _
  · rename_i call hcall
    split at hr
    · simp only [Except.ok.injEq] at hr; subst hr; exact GkEq.refl _
    · simp only [] at hr
      have key : ∀ t : St, t.b.calls = s.b.calls.set serial { call with aborted := true } → GkEq s t := by
        intro t ht bs
        simp only [gk, ht, get?_set]
        by_cases hb : serial = bs
        · subst hb; simp [hcall]
        · simp [hb]
      repeat' (split at hr)
      all_goals (try (simp only [Except.ok.injEq, reduceCtorEq] at hr))
      all_goals (try (exact hr.elim))
      all_goals (subst hr; apply key; simp)

/-! ### `remove_service` -/

theorem removeService_calls_cal {k : Uuid × Uuid} : ∀ (l : List Nat) (s s' : St), Cal (some (k, l)) s →
    removeService.calls s l = .ok s' → Cal none s' := by
  intro l
  induction l with
  | nil => intro s s' h hr; simp [removeService.calls] at hr; subst hr; exact CalleeP.pl_done h
  | cons a l ih =>
    intro s s' h hr
    simp only [removeService.calls] at hr
    split at hr
    · simp at hr
    · rename_i call hcall
      refine ih _ _ ?_ hr
      refine Cal.of_views (CalleeP.pl_next h) ?_ ?_
      · intro bs
        have : ∀ t : St, t.b.calls = s.b.calls.remove a → gk t bs = upd (gk s) a none bs := by
          intro t ht
          simp only [gk, ht, get?_remove, upd_apply]
          by_cases hb : a = bs <;> simp [hb]
        split <;> exact this _ (by simp)
      · intro k'; split <;> simp [scv]

/-- while the calls of a removed entry are dropped, every serial of the entry is found in the table -/
theorem removeService_calls_no_panic {k : Uuid × Uuid} : ∀ (l : List Nat) (s : St), Cal (some (k, l)) s →
    ∃ s', removeService.calls s l = .ok s' := by
  intro l
  induction l with
  | nil => intro s h; exact ⟨s, rfl⟩
  | cons a l ih =>
    intro s h
    simp only [removeService.calls]
    have hg := CalleeP.pl_head h
    simp only [gk] at hg
    split at hg
    · rename_i call hcall
      simp only [hcall]
      refine ih _ ?_
      refine Cal.of_views (CalleeP.pl_next h) ?_ ?_
      · intro bs
        have : ∀ t : St, t.b.calls = s.b.calls.remove a → gk t bs = upd (gk s) a none bs := by
          intro t ht
          simp only [gk, ht, get?_remove, upd_apply]
          by_cases hb : a = bs <;> simp [hb]
        split <;> exact this _ (by simp)
      · intro k'; split <;> simp [scv]
    · simp at hg

theorem removeService_subs_cal (svcCookie : Cookie) : ∀ (l : List ConnId) (s : St),
    SameSc s (l.foldl (fun s cid =>
          match s.conn? cid with
          | some c =>
            let s := s.setConn cid (c.unsubscribeAllOf svcCookie)
            (s.setWServicesDestroyed ((cid, svcCookie) :: s.w.servicesDestroyed))
          | none => s) s) ∧
    GkEq s (l.foldl (fun s cid =>
          match s.conn? cid with
          | some c =>
            let s := s.setConn cid (c.unsubscribeAllOf svcCookie)
            (s.setWServicesDestroyed ((cid, svcCookie) :: s.w.servicesDestroyed))
          | none => s) s) := by
  intro l s
  apply foldl_inv (fun s' => SameSc s s' ∧ GkEq s s') _ _ _ _ ⟨SameSc.refl _, GkEq.refl _⟩
  intro s1 a hp
  split
  · exact ⟨SameSc.trans hp.1 (SameSc.of_eq rfl), GkEq.trans hp.2 (GkEq.of_calls rfl)⟩
  · exact hp

theorem removeService_cal {s s' : St} {c : Cookie} (h : Cal none s) (hr : removeService s c = .ok s') : Cal none s' := by
  unfold removeService at hr
  split at hr
  · simp only [Except.ok.injEq] at hr; subst hr; exact h
  · rename_i objId svcUuid info hu
    (try simp only [] at hr)
    split at hr
    · simp at hr
    · rename_i svc hsv
      (try simp only [] at hr)
      split at hr
      · simp at hr
      · rename_i s1 hc
        simp only [Except.ok.injEq] at hr
        subst hr
        simp only [St.setSvcUuids_b_svcs] at hsv
        have hmid : Cal (some ((objId.uuid, svcUuid), svc.calls)) (((match AL.find? objId.uuid ((s.setSvcUuids (AL.erase c s.b.svcUuids)).setSvcs
              (AL.erase (objId.uuid, svcUuid) (s.setSvcUuids (AL.erase c s.b.svcUuids)).b.svcs)).b.objs with
            | some o => ((s.setSvcUuids (AL.erase c s.b.svcUuids)).setSvcs
                (AL.erase (objId.uuid, svcUuid) (s.setSvcUuids (AL.erase c s.b.svcUuids)).b.svcs)).setObjs
                  (AL.insert objId.uuid { o with svcs := sremove c o.svcs }
                    ((s.setSvcUuids (AL.erase c s.b.svcUuids)).setSvcs
                      (AL.erase (objId.uuid, svcUuid) (s.setSvcUuids (AL.erase c s.b.svcUuids)).b.svcs)).b.objs)
            | none => (s.setSvcUuids (AL.erase c s.b.svcUuids)).setSvcs
                (AL.erase (objId.uuid, svcUuid) (s.setSvcUuids (AL.erase c s.b.svcUuids)).b.svcs)))) := by
          refine Cal.of_views (CalleeP.drop_entry h (k := (objId.uuid, svcUuid)) (l := svc.calls) (scv_find hsv)) ?_ ?_
          · intro bs; split <;> simp [gk]
          · intro k
            have : ∀ t : St, t.b.svcs = AL.erase (objId.uuid, svcUuid) s.b.svcs → scv t k = upd (scv s) (objId.uuid, svcUuid) none k := by
              intro t ht
              simp only [scv, ht, scl_erase, upd_apply]
            split <;> exact this _ (by simp)
        have hs1 : Cal none s1 := by
          refine removeService_calls_cal _ _ _ (Cal.of_eq hmid ?_ ?_) hc
          · rfl
          · rfl
        obtain ⟨q1, q2⟩ := removeService_subs_cal c svc.subscribedConnIds s1
        refine Cal.of_eq (hs1.of_frame q2 q1) ?_ ?_
        · rfl
        · rfl

theorem removeObject_svcs_cal : ∀ (l : List Cookie) (s s' : St), Cal none s → removeObject.svcs s l = .ok s' → Cal none s' := by
  intro l
  induction l with
  | nil => intro s s' h hr; simp [removeObject.svcs] at hr; subst hr; exact h
  | cons a l ih =>
    intro s s' h hr
    simp only [removeObject.svcs] at hr
    split at hr
    · simp at hr
    · exact ih _ _ (removeService_cal h ‹_›) hr

theorem removeObject_cal {s s' : St} {c : Cookie} (h : Cal none s) (hr : removeObject s c = .ok s') : Cal none s' := by
  unfold removeObject at hr
  repeat' ((try simp only [] at hr); split at hr)
  all_goals (try (simp only [Except.ok.injEq, reduceCtorEq] at hr))
  all_goals (try (exact hr.elim))
  all_goals (try subst hr)
  · exact h
  · rename_i hs
    exact (removeObject_svcs_cal _ _ _ (h.of_eq (by simp) (by simp)) hs).of_eq (by simp) (by simp)

theorem destroyObject_cal {s s' : St} {id serial c} {ok : Bool} (h : Cal none s)
    (hr : destroyObject s id serial c = .ok (s', ok)) : Cal none s' := by
  unfold destroyObject at hr
  repeat' ((try simp only [] at hr); split at hr)
  all_goals (try (simp only [okH, errH, Except.ok.injEq, Prod.mk.injEq, reduceCtorEq] at hr))
  all_goals (try (exact hr.elim))
  all_goals (try (have hfst := congrArg Prod.fst hr; (try dsimp only at hfst); rw [← hfst]; clear hfst hr))
  all_goals (try (obtain ⟨h1, h2⟩ := hr; subst h1; subst h2))
  all_goals (try (exact h))
  all_goals (try (exact h.of_eq (by simp) (by simp)))
  all_goals (refine removeObject_cal (Cal.of_eq h ?_ ?_) ‹removeObject _ _ = _› <;> simp)

theorem destroyService_cal {s s' : St} {id serial c} {ok : Bool} (h : Cal none s)
    (hr : destroyService s id serial c = .ok (s', ok)) : Cal none s' := by
  unfold destroyService at hr
  repeat' ((try simp only [] at hr); split at hr)
  all_goals (try (simp only [okH, errH, Except.ok.injEq, Prod.mk.injEq, reduceCtorEq] at hr))
  all_goals (try (exact hr.elim))
  all_goals (try (have hfst := congrArg Prod.fst hr; (try dsimp only at hfst); rw [← hfst]; clear hfst hr))
  all_goals (try (obtain ⟨h1, h2⟩ := hr; subst h1; subst h2))
  all_goals (try (exact h))
  all_goals (try (exact h.of_eq (by simp) (by simp)))
  all_goals (refine removeService_cal (Cal.of_eq h ?_ ?_) ‹removeService _ _ = _› <;> simp)

/-! ### the call handlers -/

theorem callFunctionImpl_cal {s s' : St} {id serial svc f v p} {ok : Bool} (h : Cal none s)
    (hnext : s.b.calls.next < u32Max + 1) (hroom : s.b.calls.elems.length ≤ u32Max)
    (hr : callFunctionImpl s id serial svc f v p = .ok (s', ok)) : Cal none s' := by
  unfold callFunctionImpl at hr
  split at hr
  · simp only [okH, Except.ok.injEq, Prod.mk.injEq] at hr; obtain ⟨rfl, _⟩ := hr; exact h
  · rename_i conn hconn
    split at hr
    · have hfst := congrArg Prod.fst (Except.ok.inj hr); dsimp only at hfst; rw [← hfst]
      exact h.of_eq (by simp) (by simp)
    · rename_i objId svcUuid info hsvc
      (try simp only [] at hr)
      split at hr
      · simp at hr
      · rename_i obj hobj
        (try simp only [] at hr)
        have hfresh := SerialMap.insert_fresh s.b.calls (⟨serial, id, objId.uuid, svcUuid, false⟩ : Call) hnext hroom
        have hget := get?_insert_fresh s.b.calls (⟨serial, id, objId.uuid, svcUuid, false⟩ : Call) hfresh
        split at hr
        · simp only [errH, Except.ok.injEq, Prod.mk.injEq] at hr; obtain ⟨rfl, _⟩ := hr
          refine h.of_frame ?_ (SameSc.of_eq (by simp))
          intro k
          simp only [gk, St.setCalls_b_calls, get?_remove, hget]
          by_cases hk : k = (s.b.calls.insert (⟨serial, id, objId.uuid, svcUuid, false⟩ : Call)).2
          · subst hk; simp [SerialMap.get?, hfresh]
          · simp [hk, Ne.symm hk]
        · (try simp only [] at hr)
          split at hr
          · simp at hr
          · rename_i callee hcallee
            split at hr
            · simp at hr
            · rename_i svcE hsvcE
              simp only [okH, Except.ok.injEq, Prod.mk.injEq] at hr; obtain ⟨rfl, _⟩ := hr
              simp only [St.setConn_b_svcs, St.setCalls_b_svcs] at hsvcE
              have hnone : gk s (s.b.calls.insert (⟨serial, id, objId.uuid, svcUuid, false⟩ : Call)).2 = none :=
                gk_get_none (by simpa [SerialMap.get?] using hfresh)
              refine Cal.of_views (CalleeP.add_call h hnone (scv_find hsvcE)) ?_ ?_
              · intro bs
                simp only [gk, St.sendOrRemove_b_calls, St.setSvcs_b_calls, St.setConn_b_calls, St.setCalls_b_calls, hget, upd_apply]
                by_cases hk : bs = (s.b.calls.insert (⟨serial, id, objId.uuid, svcUuid, false⟩ : Call)).2
                · subst hk; simp
                · simp [hk, Ne.symm hk]
              · intro k
                simp only [scv, St.sendOrRemove_b_svcs, St.setSvcs_b_svcs, St.setConn_b_svcs, St.setCalls_b_svcs, scl_insert, upd_apply]

theorem callFunction2_cal {s s' : St} {id serial svc f v p} {ok : Bool} (h : Cal none s)
    (hnext : s.b.calls.next < u32Max + 1) (hroom : s.b.calls.elems.length ≤ u32Max)
    (hr : callFunction2 s id serial svc f v p = .ok (s', ok)) : Cal none s' := by
  unfold callFunction2 at hr
  repeat' ((try simp only [] at hr); split at hr)
  all_goals first
    | (simp only [okH, errH, Except.ok.injEq, Prod.mk.injEq] at hr; obtain ⟨rfl, _⟩ := hr; exact h)
    | exact callFunctionImpl_cal h hnext hroom hr

theorem callFunctionReply_cal {s s' : St} {id serial r} {ok : Bool} (h : Cal none s)
    (hr : callFunctionReply s id serial r = .ok (s', ok)) : Cal none s' := by
  unfold callFunctionReply at hr
  split at hr
  · simp only [okH, Except.ok.injEq, Prod.mk.injEq] at hr; obtain ⟨rfl, _⟩ := hr; exact h
  · split at hr
    · simp only [okH, Except.ok.injEq, Prod.mk.injEq] at hr; obtain ⟨rfl, _⟩ := hr; exact h
    · rename_i call hcall
      split at hr
      · simp at hr
      · split at hr
        · simp only [okH, Except.ok.injEq, Prod.mk.injEq] at hr; obtain ⟨rfl, _⟩ := hr; exact h
        · (try simp only [] at hr)
          split at hr
          · simp at hr
          · rename_i svcE hsvcE
            simp only [St.setCalls_b_svcs] at hsvcE
            have hmid : Cal none ((s.setCalls (s.b.calls.remove serial)).setSvcs
                (AL.insert (call.calleeObj, call.calleeSvc) { svcE with calls := sremove serial svcE.calls } (s.setCalls (s.b.calls.remove serial)).b.svcs)) := by
              refine Cal.of_views (CalleeP.finish_call h (gk_get hcall) (scv_find hsvcE)) ?_ ?_
              · intro bs
                simp only [gk, St.setSvcs_b_calls, St.setCalls_b_calls, get?_remove, upd_apply]
                by_cases hk : serial = bs <;> simp [hk]
              · intro k
                simp only [scv, St.setSvcs_b_svcs, St.setCalls_b_svcs, scl_insert, upd_apply]
            repeat' (split at hr)
            all_goals (try (simp only [okH, errH, Except.ok.injEq, Prod.mk.injEq, reduceCtorEq] at hr))
            all_goals (try (exact hr.elim))
            all_goals (obtain ⟨rfl, _⟩ := hr)
            all_goals (first | exact hmid | (refine Cal.of_eq hmid ?_ ?_ <;> simp))

theorem createServiceImpl_cal {s s' : St} {id serial oc uuid info} {ok : Bool} (h : Cal none s)
    (hr : createServiceImpl s id serial oc uuid info = .ok (s', ok)) : Cal none s' := by
  unfold createServiceImpl at hr
  repeat' ((try simp only [] at hr); split at hr)
  all_goals (try (simp only [okH, errH, Except.ok.injEq, Prod.mk.injEq, reduceCtorEq] at hr))
  all_goals (try (exact hr.elim))
  all_goals (try (have hfst := congrArg Prod.fst hr; (try dsimp only at hfst); rw [← hfst]; clear hfst hr))
  all_goals (try (obtain ⟨h1, h2⟩ := hr; subst h1; subst h2))
  all_goals (try (exact h))
  all_goals (try (refine Cal.of_eq h ?_ ?_ <;> simp; done))
  rename_i _ conn hconn _ objUuid hou hdup _ obj hob hne _ i hinfo _
  have hn : scv s (objUuid, uuid) = none := by
    cases hf : AL.find? (objUuid, uuid) s.b.svcs <;> simp_all [scv, scl]
  refine Cal.of_views (CalleeP.new_svc h hn) ?_ ?_
  · intro bs; simp [gk]
  · intro k
    simp only [scv, St.stat_b_svcs, St.setWCreateService_b_svcs, St.setObjs_b_svcs, St.setSvcs_b_svcs, St.setSvcUuids_b_svcs,
      St.send_b_svcs, St.freshCookie_b_svcs, scl_insert, upd_apply]

theorem createService2_cal {s s' : St} {id serial oc uuid info} {ok : Bool} (h : Cal none s)
    (hr : createService2 s id serial oc uuid info = .ok (s', ok)) : Cal none s' := by
  unfold createService2 at hr
  repeat' ((try simp only [] at hr); split at hr)
  all_goals first
    | (simp only [okH, errH, Except.ok.injEq, Prod.mk.injEq] at hr; obtain ⟨rfl, _⟩ := hr; exact h)
    | exact createServiceImpl_cal h hr

theorem createObject_cal {s s' : St} {id serial uuid} {ok : Bool} : createObject s id serial uuid = .ok (s', ok) → SameSc s s' := by
  cal_tac createObject

theorem abortFunctionCall_eqs {s s' : St} {id serial} {ok : Bool} (hr : abortFunctionCall s id serial = .ok (s', ok)) :
    s'.b.calls = s.b.calls ∧ s'.b.svcs = s.b.svcs := by
  unfold abortFunctionCall at hr
  repeat' ((try simp only [] at hr); split at hr)
  all_goals (simp only [okH, errH, Except.ok.injEq, Prod.mk.injEq] at hr; obtain ⟨rfl, _⟩ := hr; exact ⟨by simp, by simp⟩)

/-- every request, while the call table has room -/
theorem handleMessage_cal {s s' : St} {id : ConnId} {m : Req} {ok : Bool} (h : Cal none s)
    (hnext : s.b.calls.next < u32Max + 1) (hroom : s.b.calls.elems.length ≤ u32Max)
    (hr : handleMessage s id m = .ok (s', ok)) : Cal none s' := by
  cases m <;> simp only [handleMessage] at hr
  case callFunction => exact callFunctionImpl_cal h hnext hroom hr
  case callFunction2 => exact callFunction2_cal h hnext hroom hr
  case callFunctionReply => exact callFunctionReply_cal h hr
  case abortFunctionCall => exact h.of_eq (abortFunctionCall_eqs hr).1 (abortFunctionCall_eqs hr).2
  case destroyObject => exact destroyObject_cal h hr
  case destroyService => exact destroyService_cal h hr
  case createObject => exact h.of_F (createObject_f hr) (createObject_cal hr)
  case createService => exact createServiceImpl_cal h hr
  case createService2 => exact createService2_cal h hr
  case subscribeEvent serial _ _ => exact h.of_F (subscribeEvent_f hr) (subscribeEvent_cal hr)
  case unsubscribeEvent => exact h.of_F (unsubscribeEvent_f hr) (unsubscribeEvent_cal hr)
  case emitEvent => exact h.of_F (emitEvent_f hr) (emitEvent_cal hr)
  case queryServiceVersion => exact h.of_F (queryServiceVersion_f hr) (queryServiceVersion_cal hr)
  case queryServiceInfo => exact h.of_F (queryServiceInfo_f hr) (queryServiceInfo_cal hr)
  case subscribeService => exact h.of_F (subscribeService_f hr) (subscribeService_cal hr)
  case unsubscribeService => exact h.of_F (unsubscribeService_f hr) (unsubscribeService_cal hr)
  case subscribeAllEvents serial _ => exact h.of_F (subscribeAllEvents_f hr) (subscribeAllEvents_cal hr)
  case unsubscribeAllEvents serial _ => exact h.of_F (unsubscribeAllEvents_f hr) (unsubscribeAllEvents_cal hr)
  case createChannel => exact h.of_F (createChannel_f hr) (createChannel_cal hr)
  case closeChannelEnd => exact h.of_F (closeChannelEnd_f hr) (closeChannelEnd_cal hr)
  case claimChannelEnd => exact h.of_F (claimChannelEnd_f hr) (claimChannelEnd_cal hr)
  case sendItem => exact h.of_F (sendItem_f hr) (sendItem_cal hr)
  case addChannelCapacity => exact h.of_F (addChannelCapacity_f hr) (addChannelCapacity_cal hr)
  case sync => exact h.of_F (sync_f hr) (sync_cal hr)
  case createBusListener => exact h.of_F (createBusListener_f hr) (createBusListener_cal hr)
  case destroyBusListener => exact h.of_F (destroyBusListener_f hr) (destroyBusListener_cal hr)
  case addFilter f => exact h.of_F (updListener_f hr) (updListener_cal hr)
  case removeFilter f => exact h.of_F (updListener_f hr) (updListener_cal hr)
  case clearFilters => exact h.of_F (updListener_f hr) (updListener_cal hr)
  case startBusListener => exact h.of_F (startBusListener_f hr) (startBusListener_cal hr)
  case stopBusListener => exact h.of_F (stopBusListener_f hr) (stopBusListener_cal hr)
  case registerIntrospection => exact h.of_F (registerIntrospection_f hr) (registerIntrospection_cal hr)
  case queryIntrospection => exact h.of_F (queryIntrospection_f hr) (queryIntrospection_cal hr)
  case queryIntrospectionReply => exact h.of_F (queryIntrospectionReply_f hr) (queryIntrospectionReply_cal hr)
  case other => simp [errH] at hr; exact hr.1 ▸ h

/-! ### the removal of a connection -/

theorem shutdownConnection_cal {s s' : St} {id b} (h : Cal none s) (hr : shutdownConnection s id b = .ok s') : Cal none s' := by
  unfold shutdownConnection at hr
  split at hr
  · simp at hr; exact hr ▸ h
  · rename_i conn hconn
    simp only [] at hr
    repeat' (split at hr)
    all_goals (try (simp at hr; done))
    rename_i s1 h1 _ s2 h2 _ s3 h3 _ s4 h4 _ s5 h5 _ s6 h6
    have i1 : Cal none s1 := by
      refine foldE_inv (Cal none) _ (fun s a s' hp hr => removeObject_cal hp hr) _ _ _ ?_ h1
      apply foldl_inv (Cal none) _ (fun s a hp => ?_)
      · refine Cal.of_eq h ?_ ?_ <;> (split <;> (try split) <;> rfl)
      · refine hp.of_frame (GkEq.of_calls ?_) (removeBusListener_cal _ _)
        unfold removeBusListener; split <;> simp
    have i2 := foldE_inv (Cal none) _ (fun s a s' hp hr => hp.of_F (removeEventSubscription_f hr) (removeEventSubscription_cal hr)) _ _ _ i1 h2
    have i3 := foldE_inv (Cal none) _ (fun s a s' hp hr => hp.of_F (removeAllEventsSubscription_f hr) (removeAllEventsSubscription_cal hr)) _ _ _ i2 h3
    have i4 := foldE_inv (Cal none) _ (fun s a s' hp hr => hp.of_F (removeSubscription_f hr) (removeSubscription_cal hr)) _ _ _ i3 h4
    have i5 := foldE_inv (Cal none) _ (fun s a s' hp hr => hp.of_F (removeChannelEnd_f hr) (removeChannelEnd_cal hr)) _ _ _ i4 h5
    have i6 := foldE_inv (Cal none) _ (fun s a s' hp hr => hp.of_F (removeChannelEnd_f hr) (removeChannelEnd_cal hr)) _ _ _ i5 h6
    refine Cal.of_frame ?_ (GkEq.of_calls (removeIntrospectionConn_f hr).1) (removeIntrospectionConn_cal hr)
    refine Cal.of_eq (s := List.foldl (fun s (p : Nat × Nat × ConnId) => s.setWAbortCalls ((p.2.1, p.2.2) :: s.w.abortCalls)) s6 conn.calls) ?_ (by simp) (by simp)
    apply foldl_inv (Cal none) _ ?_ _ _ i6
    intro s a hp
    exact hp.of_eq (by simp) (by simp)

/-! ### events, deferred work, turns -/

theorem handleEvent_cal {s s' : St} {e : Event} (h : Cal none s)
    (hnext : s.b.calls.next < u32Max + 1) (hroom : s.b.calls.elems.length ≤ u32Max) (hr : handleEvent s e = .ok s') : Cal none s' := by
  cases e <;> simp only [handleEvent] at hr
  case msg id m =>
    split at hr
    · simp at hr
    · rename_i s1 ok hm
      have := handleMessage_cal h hnext hroom hm
      simp only [Except.ok.injEq] at hr
      subst hr
      refine Cal.of_eq this ?_ ?_ <;> (split <;> simp)
  case newConn id v =>
    split at hr
    · simp at hr
    · simp only [Except.ok.injEq] at hr; subst hr
      exact h.of_eq (by simp) (by simp)
  all_goals (simp only [Except.ok.injEq] at hr; subst hr; refine Cal.of_eq h ?_ ?_ <;> simp)

theorem processOne_cal {s s' : St} (h : Cal none s) (hr : processOne s = some (.ok s')) : Cal none s' := by
  unfold processOne at hr
  repeat' (split at hr)
  all_goals (try (simp only [Option.some.injEq, reduceCtorEq] at hr))
  all_goals first
    | (refine shutdownConnection_cal (s := s.setWRemoveConns _) (Cal.of_eq h ?_ ?_) hr <;> simp; done)
    | (refine Cal.of_frame (Cal.of_eq (s' := s.setWAbortCalls _) h ?_ ?_) (abortCall_gk hr) (abortCall_cal hr) <;> simp; done)
    | (simp only [Except.ok.injEq] at hr; subst hr; refine Cal.of_eq h ?_ ?_ <;> simp; done)
    | (simp only [Except.ok.injEq] at hr; subst hr; refine Cal.of_F (Cal.of_eq (s' := s.setWCreateObject _) h ?_ ?_) (emitBusEvent_f _ _) (emitBusEvent_cal _ _) <;> simp; done)
    | (simp only [Except.ok.injEq] at hr; subst hr; refine Cal.of_F (Cal.of_eq (s' := s.setWCreateService _) h ?_ ?_) (emitBusEvent_f _ _) (emitBusEvent_cal _ _) <;> simp; done)
    | (simp only [Except.ok.injEq] at hr; subst hr; refine Cal.of_F (Cal.of_eq (s' := s.setWDestroyService _) h ?_ ?_) (emitBusEvent_f _ _) (emitBusEvent_cal _ _) <;> simp; done)
    | (simp only [Except.ok.injEq] at hr; subst hr; refine Cal.of_F (Cal.of_eq (s' := s.setWDestroyObject _) h ?_ ?_) (emitBusEvent_f _ _) (emitBusEvent_cal _ _) <;> simp; done)
    | (simp only [Except.ok.injEq] at hr; subst hr; refine Cal.of_eq h ?_ ?_ <;> (split <;> simp); done)
    | (split at hr <;> (try split at hr) <;> (try simp only [Except.ok.injEq, reduceCtorEq] at hr) <;>
        first | (exact hr.elim) | (subst hr; refine Cal.of_eq h ?_ ?_ <;> simp; done))

theorem processLoop_cal : ∀ (fuel : Nat) (s s' : St), Cal none s → processLoop fuel s = .ok s' → Cal none s' := by
  intro fuel
  induction fuel with
  | zero => intro s s' _ hr; simp [processLoop] at hr
  | succ n ih =>
    intro s s' h hr
    simp only [processLoop] at hr
    split at hr
    · simp at hr; exact hr ▸ h
    · simp at hr
    · exact ih _ _ (processOne_cal h ‹_›) hr

/-- one turn of `Broker::run`, while the call table has room -/
theorem step_cal {b b' : Broker} {w w' : Work} {e : Event} {out : List Out} (h : Cal none ⟨b, w, []⟩)
    (hnext : b.calls.next < u32Max + 1) (hroom : b.calls.elems.length ≤ u32Max)
    (hr : step b w e = .ok (b', w', out)) : Cal none ⟨b', w', []⟩ := by
  unfold step at hr
  split at hr
  · simp at hr
  · rename_i s1 h1
    split at hr
    · simp at hr
    · rename_i s2 h2
      simp only [Except.ok.injEq, Prod.mk.injEq] at hr
      obtain ⟨rfl, rfl, _⟩ := hr
      exact Cal.of_eq (processLoop_cal _ _ _ (handleEvent_cal h hnext hroom h1) h2) rfl rfl

/-- in every reachable state every call in the table is held by the service entry it is for, and conversely -/
theorem Reachable.cal {b : Broker} {w : Work} (h : Reachable b w) : Cal none ⟨b, w, []⟩ := by
  induction h with
  | init => exact Cal.init
  | step hprev hroom hs ih => exact step_cal ih hprev.idle.x.d hroom hs

/-- in every reachable state the registry invariant and the size book-keeping of the registry hold -/
theorem Reachable.reg {b : Broker} {w : Work} (h : Reachable b w) : G5 ⟨b, w, []⟩ ∧ Reg none none ⟨b, w, []⟩ := by
  induction h with
  | init => exact ⟨G5_init, Reg.init⟩
  | step _ _ hs ih => exact ⟨step_G5 ih.1 hs, step_reg ih.1 ih.2 hs⟩

/-- the service entry, the registration, the object and the owner of a call in the table -/
theorem callee_of_call {s : St} (hc : Cal none s) (hr : Reg none none s) {bs : Nat} {call : Call} (hg : s.b.calls.get? bs = some call) :
    ∃ sv info o owner, AL.find? (call.calleeObj, call.calleeSvc) s.b.svcs = some sv ∧ bs ∈ sv.calls ∧
      AL.find? sv.cookie s.b.svcUuids = some (⟨call.calleeObj, sv.objCookie⟩, call.calleeSvc, info) ∧
      AL.find? call.calleeObj s.b.objs = some o ∧ sv.cookie ∈ o.svcs ∧ AL.find? o.conn s.b.conns = some owner := by
  rcases hc.j1 bs _ (gk_get hg) with ⟨l, hl, hm⟩ | ⟨l, hl, _⟩
  · simp only [scv, scl] at hl
    split at hl
    · rename_i sv hsv
      simp at hl; subst hl
      obtain ⟨info, hi⟩ := hr.i6 call.calleeObj call.calleeSvc sv.cookie sv.objCookie (sk_find hsv)
      rcases hr.i7 _ _ _ _ hi with ⟨_, o, ho, hmo⟩ | ⟨l, hl, _⟩
      · rcases hr.i3 _ o ho with ⟨lo, hlo, _⟩ | ⟨lo, hlo, _⟩
        · simp only [ro] at hlo
          split at hlo
          · rename_i owner hown
            exact ⟨sv, info, o, owner, hsv, hm, hi, ho, hmo, hown⟩
          · simp at hlo
        · simp at hlo
      · simp at hl
    · simp at hl
  · simp at hl

end Aldrin.Broker
