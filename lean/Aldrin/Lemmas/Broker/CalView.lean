/-
The callee side of the book-keeping of calls: what it looks at in a service entry (the set of pending calls the
service holds, `scv`) and in the call table (the service a call is for, `gk`), and the relation `SameSc`: every service
entry holds the calls it held.
-/
import Aldrin.Lemmas.Broker.CallConnEq

set_option linter.unusedSimpArgs false
set_option linter.unusedVariables false
namespace Aldrin.Broker

/-- the calls a service entry holds -/
def scl (m : List ((Uuid × Uuid) × Svc)) (k : Uuid × Uuid) : Option (List Nat) :=
  match AL.find? k m with
  | some v => some v.calls
  | none => none

def scv (s : St) (k : Uuid × Uuid) : Option (List Nat) := scl s.b.svcs k

/-- the service (object uuid, service uuid) a call in the table is for -/
def gk (s : St) (bs : Nat) : Option (Uuid × Uuid) :=
  match s.b.calls.get? bs with
  | some c => some (c.calleeObj, c.calleeSvc)
  | none => none

theorem scl_insert_same {m : List ((Uuid × Uuid) × Svc)} {k0 : Uuid × Uuid} {old new : Svc} (h : AL.find? k0 m = some old)
    (h1 : new.calls = old.calls) (k : Uuid × Uuid) : scl (AL.insert k0 new m) k = scl m k := by
  simp only [scl, AL.find?_insert]
  by_cases hk : k0 = k
  · subst hk; simp [h, h1]
  · simp [hk]

theorem scl_insert (m : List ((Uuid × Uuid) × Svc)) (k0 : Uuid × Uuid) (new : Svc) (k : Uuid × Uuid) :
    scl (AL.insert k0 new m) k = if k0 = k then some new.calls else scl m k := by
  simp only [scl, AL.find?_insert]
  by_cases hk : k0 = k <;> simp [hk]

theorem scl_erase (m : List ((Uuid × Uuid) × Svc)) (k0 : Uuid × Uuid) (k : Uuid × Uuid) :
    scl (AL.erase k0 m) k = if k0 = k then none else scl m k := by
  simp only [scl, AL.find?_erase]
  by_cases hk : k0 = k <;> simp [hk]

theorem scv_find {s : St} {k : Uuid × Uuid} {v : Svc} (h : AL.find? k s.b.svcs = some v) : scv s k = some v.calls := by
  simp [scv, scl, h]
theorem scv_find_none {s : St} {k : Uuid × Uuid} (h : AL.find? k s.b.svcs = none) : scv s k = none := by
  simp [scv, scl, h]

@[simp] theorem Svc.subscribeEvent_calls' (s : Svc) (ev : Nat) (c : ConnId) : (s.subscribeEvent ev c).1.calls = s.calls := by
  unfold Svc.subscribeEvent; split <;> rfl
@[simp] theorem Svc.unsubscribeEvent_calls' (s : Svc) (ev : Nat) (c : ConnId) : (s.unsubscribeEvent ev c).1.calls = s.calls := by
  unfold Svc.unsubscribeEvent; split
  · dsimp only; split <;> rfl
  · rfl
@[simp] theorem Svc.subscribeAll_calls' (s : Svc) (c : ConnId) : (s.subscribeAll c).1.calls = s.calls := rfl
@[simp] theorem Svc.unsubscribeAll_calls' (s : Svc) (c : ConnId) : (s.unsubscribeAll c).1.calls = s.calls := rfl

/-- every service entry holds the calls it held -/
def SameSc (s s' : St) : Prop := ∀ k, scv s' k = scv s k

theorem SameSc.refl (s : St) : SameSc s s := fun _ => rfl
theorem SameSc.trans {a b c : St} (h1 : SameSc a b) (h2 : SameSc b c) : SameSc a c := fun k => (h2 k).trans (h1 k)
theorem SameSc.of_eq {s s' : St} (h : s'.b.svcs = s.b.svcs) : SameSc s s' := fun k => by simp [scv, h]

macro "cal_eq" : tactic => `(tactic| (refine SameSc.of_eq ?_; (first | rfl | (simp; done))))

syntax "cal_tac" ident : tactic
macro_rules
  | `(tactic| cal_tac $f) => `(tactic|
      (intro h; unfold $f at h
       repeat' ((try simp only [] at h); split at h)
       all_goals (try (simp only [okH, errH, Except.ok.injEq, Prod.mk.injEq, reduceCtorEq] at h))
       all_goals (try (have hfst := congrArg Prod.fst h; (try dsimp only at hfst); rw [← hfst]; clear hfst h))
       all_goals (try (exact h.elim))
       all_goals (try (obtain ⟨h1, h2⟩ := h; subst h1; subst h2))
       all_goals (try subst_vars)
       all_goals (try (exact SameSc.refl _))
       all_goals (try (cal_eq; done))
       all_goals (try simp only [St.updConn_b_svcs, St.send_b_svcs, St.setConn_b_svcs, St.setCalls_b_svcs] at *)
       all_goals (intro k; simp only [scv]; simp only [St.setSvcs_b_svcs, St.updConn_b_svcs, St.send_b_svcs, St.sendOrRemove_b_svcs, St.setWUnsubscribeEvent_b_svcs, St.setWUnsubscribeAll_b_svcs, St.setCalls_b_svcs, St.setConn_b_svcs, St.stat_b_svcs]; (first | rfl | (rw [scl_insert_same (by assumption) (by simp)]; done)))))

end Aldrin.Broker
