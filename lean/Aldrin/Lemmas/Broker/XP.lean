/-
The caller-side cross-reference invariant of the broker's book-keeping of calls, on what it looks at (per-connection
tables `K`, call table `G`, the deferred `remove_function_calls` `R` and `abort_function_calls` `A`), and its
preservation by the abstract operations the broker performs on them: a call ends (`finish_call`), a service drops a
call (`service_drops_call`), a queued reply is handled (`pop_remove`, `pop_remove_gone`), a call is taken (`add_call`),
a connection is removed (`remove_conn`, `flush_aborts`), its task ends (`drop_alive`), a connection arrives
(`new_conn`), a queued abort is handled (`pop_abort`).
-/
import Aldrin.Lemmas.Broker.AL
import Aldrin.Model.Broker.Parts

set_option linter.unusedSimpArgs false
set_option linter.unusedVariables false
namespace Aldrin.Broker

abbrev CallTbl' := List (Nat × (Nat × ConnId))
abbrev KView := ConnId → Option (CallTbl' × Bool)
abbrev GView := Nat → Option Call
abbrev RList := List (Nat × ConnId × CallResult)
abbrev AList := List (Nat × ConnId)

theorem AL.find?_append_one {K V : Type} [DecidableEq K] (k k' : K) (v : V) (l : List (K × V)) :
    AL.find? k (l ++ [(k', v)]) = (AL.find? k l).or (if k' = k then some v else none) := by
  induction l with
  | nil => simp [AL.find?]
  | cons a l ih =>
    obtain ⟨ka, va⟩ := a
    simp only [List.cons_append, AL.find?]
    split
    · simp
    · exact ih

/-- the invariant on what it looks at: the per-connection tables `K`, the call table `G`, the serial counter, the
deferred `remove_function_calls` `R` and `abort_function_calls` `A` -/
structure XP (sv : Option (ConnId × CallTbl')) (K : KView) (G : GView) (nx : Nat) (R : RList) (A : AList) : Prop where
  a : ∀ c t al n bs callee, K c = some (t, al) → AL.find? n t = some (bs, callee) →
        (∃ call, G bs = some call ∧ call.callerSerial = n ∧ call.callerConn = c ∧ call.aborted = false)
        ∨ (G bs = none ∧ ∃ r, (n, c, r) ∈ R)
  b : ∀ bs call, G bs = some call → call.aborted = false →
        (∃ t al callee, K call.callerConn = some (t, al) ∧ AL.find? call.callerSerial t = some (bs, callee))
        ∨ (K call.callerConn = none ∧ ∃ y, (bs, y) ∈ A)
        ∨ (K call.callerConn = none ∧ ∃ tbl callee, sv = some (call.callerConn, tbl) ∧ AL.find? call.callerSerial tbl = some (bs, callee))
  c : ∀ n c r, (n, c, r) ∈ R → ∀ t al, K c = some (t, al) → ∃ bs callee, AL.find? n t = some (bs, callee) ∧ G bs = none
  e : R.Pairwise (fun x y => x.2.1 = y.2.1 → x.1 = y.1 → K x.2.1 = none)
  d : nx < u32Max + 1

variable {sv : Option (ConnId × CallTbl')} {K : KView} {G : GView} {nx : Nat} {R : RList} {A : AList}

/-- a live call and the entry of its caller determine each other -/
theorem XP.entry_live (h : XP sv K G nx R A) {c : ConnId} {t : CallTbl'} {al : Bool} {n bs : Nat} {callee : ConnId} {bs' : Nat} {call : Call}
    (hk : K c = some (t, al)) (hf : AL.find? n t = some (bs, callee))
    (hg : G bs' = some call) (hna : call.aborted = false) (hc : call.callerConn = c) (hn : call.callerSerial = n) : bs' = bs := by
  rcases h.b bs' call hg hna with ⟨t', al', callee'', hk', hf'⟩ | ⟨hk', _⟩ | ⟨hk', _⟩
  · rw [hc, hk] at hk'; simp at hk'; obtain ⟨rfl, rfl⟩ := hk'
    rw [hn, hf] at hf'; simp at hf'; exact hf'.1.symm
  · rw [hc, hk] at hk'; simp at hk'
  · rw [hc, hk] at hk'; simp at hk'

/-- the entry `(caller, cs)` goes (its call is gone or marked aborted already) -/
theorem XP.erase_entry (h : XP sv K G nx R A) {caller : ConnId} {t : CallTbl'} {al : Bool} {cs : Nat}
    (hk : K caller = some (t, al))
    (hdead : ∀ bs callee, AL.find? cs t = some (bs, callee) → (∀ call, G bs = some call → call.aborted = true) ∧ ∀ r, (cs, caller, r) ∉ R) :
    XP sv (fun c => if c = caller then some (AL.erase cs t, al) else K c) G nx R A := by
  constructor
  · intro c t' al' n bs callee hc hf
    by_cases hcc : c = caller
    · subst hcc
      simp only [↓reduceIte, Option.some.injEq, Prod.mk.injEq] at hc
      obtain ⟨rfl, rfl⟩ := hc
      rw [AL.find?_erase] at hf
      split at hf
      · simp at hf
      · exact h.a c t al n bs callee hk hf
    · simp only [hcc, ↓reduceIte] at hc
      exact h.a c t' al' n bs callee hc hf
  · intro bs call hg hna
    rcases h.b bs call hg hna with ⟨t', al', callee, hk', hf'⟩ | h2 | h3
    · left
      by_cases hcc : call.callerConn = caller
      · rw [hcc, hk] at hk'; simp at hk'; obtain ⟨rfl, rfl⟩ := hk'
        refine ⟨AL.erase cs t, al, callee, by simp [hcc], ?_⟩
        rw [AL.find?_erase]
        split
        · rename_i heq
          rw [← heq] at hf'
          have := (hdead bs callee hf').1 call hg
          rw [hna] at this; simp at this
        · exact hf'
      · exact ⟨t', al', callee, by simp [hcc, hk'], hf'⟩
    · right; left
      obtain ⟨h2a, h2b⟩ := h2
      refine ⟨?_, h2b⟩
      by_cases hcc : call.callerConn = caller
      · rw [hcc, hk] at h2a; simp at h2a
      · simp [hcc, h2a]
    · right; right
      obtain ⟨h3a, h3b⟩ := h3
      refine ⟨?_, h3b⟩
      by_cases hcc : call.callerConn = caller
      · rw [hcc, hk] at h3a; simp at h3a
      · simp [hcc, h3a]
  · intro n c r hm t' al' hc
    by_cases hcc : c = caller
    · subst hcc
      simp only [↓reduceIte, Option.some.injEq, Prod.mk.injEq] at hc
      obtain ⟨rfl, rfl⟩ := hc
      obtain ⟨bs, callee, hf, hg⟩ := h.c n c r hm t al hk
      refine ⟨bs, callee, ?_, hg⟩
      rw [AL.find?_erase]
      split
      · rename_i heq; subst heq
        exact absurd hm ((hdead bs callee hf).2 r)
      · exact hf
    · simp only [hcc, ↓reduceIte] at hc
      exact h.c n c r hm t' al' hc
  · refine h.e.imp ?_
    intro x y hxy h1 h2
    have := hxy h1 h2
    by_cases hcc : x.2.1 = caller
    · rw [hcc, hk] at this; simp at this
    · simp [hcc, this]
  · exact h.d

/-- the call table changes at `bs` only, where the call goes or is marked aborted -/
def Upd (G G' : GView) (bs : Nat) : Prop :=
  (∀ k, k ≠ bs → G' k = G k) ∧ (G' bs = none ∨ ∃ c', G' bs = some c' ∧ c'.aborted = true)

theorem Upd.live {G G' : GView} {bs k : Nat} {call : Call} (hu : Upd G G' bs) (hg : G' k = some call) (hna : call.aborted = false) :
    k ≠ bs ∧ G k = some call := by
  by_cases hk : k = bs
  · subst hk
    rcases hu.2 with h | ⟨c', h, ha⟩
    · rw [h] at hg; simp at hg
    · rw [h] at hg; simp at hg; subst hg; rw [ha] at hna; simp at hna
  · exact ⟨hk, by rw [← hu.1 k hk]; exact hg⟩

/-- the live call `bs` ends while its caller is there: the caller's entry goes (`call_function_reply`, `abort_call`) -/
theorem XP.finish_call (h : XP sv K G nx R A) {G' : GView} {bs : Nat} {call : Call} {t : CallTbl'} {al : Bool}
    (hg : G bs = some call) (hna : call.aborted = false) (hk : K call.callerConn = some (t, al)) (hu : Upd G G' bs) :
    XP sv (fun c => if c = call.callerConn then some (AL.erase call.callerSerial t, al) else K c) G' nx R A := by
  -- the caller's entry for this call
  have hent : ∃ callee, AL.find? call.callerSerial t = some (bs, callee) := by
    rcases h.b bs call hg hna with ⟨t', al', callee, hk', hf'⟩ | ⟨hk', _⟩ | ⟨hk', _⟩
    · rw [hk] at hk'; simp at hk'; obtain ⟨rfl, rfl⟩ := hk'; exact ⟨callee, hf'⟩
    · rw [hk] at hk'; simp at hk'
    · rw [hk] at hk'; simp at hk'
  obtain ⟨callee0, hent⟩ := hent
  constructor
  · intro c t' al' n bs' callee hc hf
    have key : K c = some (if c = call.callerConn then t else t', al') ∧ AL.find? n (if c = call.callerConn then t else t') = some (bs', callee) ∧ ¬ (c = call.callerConn ∧ n = call.callerSerial) := by
      by_cases hcc : c = call.callerConn
      · subst hcc
        simp only [↓reduceIte, Option.some.injEq, Prod.mk.injEq] at hc
        obtain ⟨rfl, rfl⟩ := hc
        rw [AL.find?_erase] at hf
        split at hf
        · simp at hf
        · rename_i hne
          exact ⟨by simp [hk], by simpa using hf, fun x => hne x.2.symm⟩
      · simp only [hcc, ↓reduceIte] at hc
        exact ⟨by simp [hcc, hc], by simpa [hcc] using hf, fun x => hcc x.1⟩
    obtain ⟨k1, k2, k3⟩ := key
    rcases h.a c _ al' n bs' callee k1 k2 with ⟨call', hg', h1, h2, h3⟩ | ⟨hg', hr⟩
    · by_cases hb : bs' = bs
      · subst hb
        rw [hg] at hg'; simp at hg'; subst hg'
        exact absurd ⟨h2.symm, h1.symm⟩ k3
      · left; exact ⟨call', by rw [hu.1 bs' hb]; exact hg', h1, h2, h3⟩
    · right
      have hb : bs' ≠ bs := fun x => by rw [x, hg] at hg'; simp at hg'
      exact ⟨by rw [hu.1 bs' hb]; exact hg', hr⟩
  · intro bs' call' hg' hna'
    obtain ⟨hb, hg0⟩ := hu.live hg' hna'
    rcases h.b bs' call' hg0 hna' with ⟨t', al', callee, hk', hf'⟩ | h2 | h3
    · left
      by_cases hcc : call'.callerConn = call.callerConn
      · rw [hcc, hk] at hk'; simp at hk'; obtain ⟨rfl, rfl⟩ := hk'
        refine ⟨AL.erase call.callerSerial t, al, callee, by simp [hcc], ?_⟩
        rw [AL.find?_erase]
        split
        · rename_i heq
          rw [← heq, hent] at hf'; simp at hf'
          exact absurd hf'.1.symm hb
        · exact hf'
      · exact ⟨t', al', callee, by simp [hcc, hk'], hf'⟩
    · right; left
      obtain ⟨h2a, h2b⟩ := h2
      refine ⟨?_, h2b⟩
      by_cases hcc : call'.callerConn = call.callerConn
      · rw [hcc, hk] at h2a; simp at h2a
      · simp [hcc, h2a]
    · right; right
      obtain ⟨h3a, h3b⟩ := h3
      refine ⟨?_, h3b⟩
      by_cases hcc : call'.callerConn = call.callerConn
      · rw [hcc, hk] at h3a; simp at h3a
      · simp [hcc, h3a]
  · intro n c r hm t' al' hc
    by_cases hcc : c = call.callerConn
    · subst hcc
      simp only [↓reduceIte, Option.some.injEq, Prod.mk.injEq] at hc
      obtain ⟨rfl, rfl⟩ := hc
      obtain ⟨bs0, callee, hf, hg0⟩ := h.c n _ r hm t al hk
      have hb : bs0 ≠ bs := fun x => by rw [x, hg] at hg0; simp at hg0
      refine ⟨bs0, callee, ?_, by rw [hu.1 bs0 hb]; exact hg0⟩
      rw [AL.find?_erase]
      split
      · rename_i heq; subst heq
        rw [hent] at hf; simp at hf; exact absurd hf.1.symm hb
      · exact hf
    · simp only [hcc, ↓reduceIte] at hc
      obtain ⟨bs0, callee, hf, hg0⟩ := h.c n c r hm t' al' hc
      have hb : bs0 ≠ bs := fun x => by rw [x, hg] at hg0; simp at hg0
      exact ⟨bs0, callee, hf, by rw [hu.1 bs0 hb]; exact hg0⟩
  · refine h.e.imp ?_
    intro x y hxy h1 h2
    have := hxy h1 h2
    by_cases hcc : x.2.1 = call.callerConn
    · rw [hcc, hk] at this; simp at this
    · simp [hcc, this]
  · exact h.d

/-- the call `bs` goes or is marked aborted while no entry of a connection that is there points to it as a live call:
it was aborted before, or its caller is gone -/
theorem XP.finish_call_noentry (h : XP sv K G nx R A) {G' : GView} {bs : Nat} {call : Call}
    (hg : G bs = some call) (hno : call.aborted = true ∨ K call.callerConn = none) (hu : Upd G G' bs) :
    XP sv K G' nx R A := by
  constructor
  · intro c t al n bs' callee hc hf
    rcases h.a c t al n bs' callee hc hf with ⟨call', hg', h1, h2, h3⟩ | ⟨hg', hr⟩
    · by_cases hb : bs' = bs
      · subst hb
        rw [hg] at hg'; simp at hg'; subst hg'
        rcases hno with hno | hno
        · rw [hno] at h3; simp at h3
        · rw [h2, hc] at hno; simp at hno
      · left; exact ⟨call', by rw [hu.1 bs' hb]; exact hg', h1, h2, h3⟩
    · right
      have hb : bs' ≠ bs := fun x => by rw [x, hg] at hg'; simp at hg'
      exact ⟨by rw [hu.1 bs' hb]; exact hg', hr⟩
  · intro bs' call' hg' hna'
    obtain ⟨hb, hg0⟩ := hu.live hg' hna'
    exact h.b bs' call' hg0 hna'
  · intro n c r hm t al hc
    obtain ⟨bs0, callee, hf, hg0⟩ := h.c n c r hm t al hc
    have hb : bs0 ≠ bs := fun x => by rw [x, hg] at hg0; simp at hg0
    exact ⟨bs0, callee, hf, by rw [hu.1 bs0 hb]; exact hg0⟩
  · exact h.e
  · exact h.d

/-- `remove_service` drops the live call `bs` and queues the `InvalidService` reply for its caller -/
theorem XP.service_drops_call (h : XP sv K G nx R A) {G' : GView} {bs : Nat} {call : Call} {r : CallResult}
    (hg : G bs = some call) (hna : call.aborted = false) (hu : Upd G G' bs) (hnone : G' bs = none) :
    XP sv K G' nx ((call.callerSerial, call.callerConn, r) :: R) A := by
  constructor
  · intro c t al n bs' callee hc hf
    rcases h.a c t al n bs' callee hc hf with ⟨call', hg', h1, h2, h3⟩ | ⟨hg', r', hr⟩
    · by_cases hb : bs' = bs
      · subst hb
        rw [hg] at hg'; simp at hg'; subst hg'
        right; exact ⟨hnone, r, by rw [h1, h2]; exact List.mem_cons_self⟩
      · left; exact ⟨call', by rw [hu.1 bs' hb]; exact hg', h1, h2, h3⟩
    · right
      have hb : bs' ≠ bs := fun x => by rw [x, hg] at hg'; simp at hg'
      exact ⟨by rw [hu.1 bs' hb]; exact hg', r', List.mem_cons_of_mem _ hr⟩
  · intro bs' call' hg' hna'
    obtain ⟨hb, hg0⟩ := hu.live hg' hna'
    exact h.b bs' call' hg0 hna'
  · intro n c r' hm t al hc
    rw [List.mem_cons] at hm
    rcases hm with hm | hm
    · simp only [Prod.mk.injEq] at hm
      obtain ⟨rfl, rfl, _⟩ := hm
      rcases h.b bs call hg hna with ⟨t', al', callee, hk', hf'⟩ | ⟨hk', _⟩ | ⟨hk', _⟩
      · rw [hc] at hk'; simp at hk'; obtain ⟨rfl, rfl⟩ := hk'
        exact ⟨bs, callee, hf', hnone⟩
      · rw [hc] at hk'; simp at hk'
      · rw [hc] at hk'; simp at hk'
    · obtain ⟨bs0, callee, hf, hg0⟩ := h.c n c r' hm t al hc
      have hb : bs0 ≠ bs := fun x => by rw [x, hg] at hg0; simp at hg0
      exact ⟨bs0, callee, hf, by rw [hu.1 bs0 hb]; exact hg0⟩
  · rw [List.pairwise_cons]
    refine ⟨?_, h.e⟩
    intro y hy h1 h2
    simp only at h1 h2 ⊢
    cases hk : K call.callerConn with
    | none => rfl
    | some v =>
      exfalso
      obtain ⟨t, al⟩ := v
      obtain ⟨ny, cy, ry⟩ := y
      simp only at h1 h2
      subst h1; subst h2
      obtain ⟨bs0, callee, hf, hg0⟩ := h.c _ _ ry hy t al hk
      have := h.entry_live hk hf hg hna rfl rfl
      rw [this] at hg; rw [hg] at hg0; simp at hg0
  · exact h.d

/-- the work loop takes the first queued `InvalidService` reply, whose connection is gone -/
theorem XP.pop_remove_gone {n : Nat} {c : ConnId} {r : CallResult} (h : XP sv K G nx ((n, c, r) :: R) A) (hk : K c = none) : XP sv K G nx R A := by
  constructor
  · intro c' t al n' bs callee hc hf
    rcases h.a c' t al n' bs callee hc hf with h1 | ⟨hg', r', hr⟩
    · exact Or.inl h1
    · right
      rw [List.mem_cons] at hr
      rcases hr with hr | hr
      · simp only [Prod.mk.injEq] at hr
        rw [hr.2.1, hk] at hc; simp at hc
      · exact ⟨hg', r', hr⟩
  · exact h.b
  · intro n' c' r' hm; exact h.c n' c' r' (List.mem_cons_of_mem _ hm)
  · exact (List.pairwise_cons.1 h.e).2
  · exact h.d

/-- … whose connection is there: its entry goes -/
theorem XP.pop_remove {n : Nat} {c : ConnId} {r : CallResult} (h : XP sv K G nx ((n, c, r) :: R) A) {t : CallTbl'} {al : Bool} (hk : K c = some (t, al)) :
    XP sv (fun c' => if c' = c then some (AL.erase n t, al) else K c') G nx R A := by
  obtain ⟨bs0, callee0, hent, hg0⟩ := h.c n c r List.mem_cons_self t al hk
  have he := List.pairwise_cons.1 h.e
  constructor
  · intro c' t' al' n' bs callee hc hf
    have key : K c' = some (if c' = c then t else t', al') ∧ AL.find? n' (if c' = c then t else t') = some (bs, callee) ∧ ¬ (c' = c ∧ n' = n) := by
      by_cases hcc : c' = c
      · subst hcc
        simp only [↓reduceIte, Option.some.injEq, Prod.mk.injEq] at hc
        obtain ⟨rfl, rfl⟩ := hc
        rw [AL.find?_erase] at hf
        split at hf
        · simp at hf
        · rename_i hne
          exact ⟨by simp [hk], by simpa using hf, fun x => hne x.2.symm⟩
      · simp only [hcc, ↓reduceIte] at hc
        exact ⟨by simp [hcc, hc], by simpa [hcc] using hf, fun x => hcc x.1⟩
    obtain ⟨k1, k2, k3⟩ := key
    rcases h.a c' _ al' n' bs callee k1 k2 with h1 | ⟨hg', r', hr⟩
    · exact Or.inl h1
    · right
      rw [List.mem_cons] at hr
      rcases hr with hr | hr
      · simp only [Prod.mk.injEq] at hr
        exact absurd ⟨hr.2.1, hr.1⟩ k3
      · exact ⟨hg', r', hr⟩
  · intro bs call hg hna
    rcases h.b bs call hg hna with ⟨t', al', callee, hk', hf'⟩ | h2 | h3
    · left
      by_cases hcc : call.callerConn = c
      · rw [hcc, hk] at hk'; simp at hk'; obtain ⟨rfl, rfl⟩ := hk'
        refine ⟨AL.erase n t, al, callee, by simp [hcc], ?_⟩
        rw [AL.find?_erase]
        split
        · rename_i heq
          rw [← heq, hent] at hf'; simp at hf'
          rw [← hf'.1, hg0] at hg; simp at hg
        · exact hf'
      · exact ⟨t', al', callee, by simp [hcc, hk'], hf'⟩
    · right; left
      obtain ⟨h2a, h2b⟩ := h2
      refine ⟨?_, h2b⟩
      by_cases hcc : call.callerConn = c
      · rw [hcc, hk] at h2a; simp at h2a
      · simp [hcc, h2a]
    · right; right
      obtain ⟨h3a, h3b⟩ := h3
      refine ⟨?_, h3b⟩
      by_cases hcc : call.callerConn = c
      · rw [hcc, hk] at h3a; simp at h3a
      · simp [hcc, h3a]
  · intro n' c' r' hm t' al' hc
    by_cases hcc : c' = c
    · subst hcc
      simp only [↓reduceIte, Option.some.injEq, Prod.mk.injEq] at hc
      obtain ⟨rfl, rfl⟩ := hc
      obtain ⟨bs, callee, hf, hg⟩ := h.c n' c' r' (List.mem_cons_of_mem _ hm) t al hk
      refine ⟨bs, callee, ?_, hg⟩
      rw [AL.find?_erase]
      split
      · rename_i heq; subst heq
        have := he.1 (n, c', r') hm rfl rfl
        simp only at this
        rw [hk] at this; simp at this
      · exact hf
    · simp only [hcc, ↓reduceIte] at hc
      exact h.c n' c' r' (List.mem_cons_of_mem _ hm) t' al' hc
  · refine he.2.imp ?_
    intro x y hxy h1 h2
    have := hxy h1 h2
    by_cases hcc : x.2.1 = c
    · rw [hcc, hk] at this; simp at this
    · simp [hcc, this]
  · exact h.d

/-- `call_function_impl` takes a call: a fresh serial of the broker, a new entry of the caller -/
theorem XP.add_call (h : XP sv K G nx [] A) {id : ConnId} {t : CallTbl'} {al : Bool} {serial bsn nx' : Nat} {callee : ConnId} {call : Call}
    {G' : GView} (hk : K id = some (t, al)) (hfree : AL.find? serial t = none) (hfresh : G bsn = none)
    (hG : ∀ k, G' k = if k = bsn then some call else G k) (hc1 : call.callerSerial = serial) (hc2 : call.callerConn = id)
    (hc3 : call.aborted = false) (hnx : nx' < u32Max + 1) :
    XP sv (fun c => if c = id then some (t ++ [(serial, (bsn, callee))], al) else K c) G' nx' [] A := by
  have happ : ∀ n, AL.find? n (t ++ [(serial, (bsn, callee))]) =
      (AL.find? n t).or (if serial = n then some (bsn, callee) else none) :=
    fun n => AL.find?_append_one n serial (bsn, callee) t
  constructor
  · intro c t' al' n bs callee' hc hf
    by_cases hcc : c = id
    · subst hcc
      simp only [↓reduceIte, Option.some.injEq, Prod.mk.injEq] at hc
      obtain ⟨rfl, rfl⟩ := hc
      rw [happ] at hf
      cases hft : AL.find? n t with
      | some x =>
        simp only [hft, Option.some_or, Option.some.injEq] at hf; subst hf
        rcases h.a c t al n bs callee' hk hft with ⟨call', hg', h1, h2, h3⟩ | ⟨_, r', hr⟩
        · left
          have hb : bs ≠ bsn := fun x => by rw [x, hfresh] at hg'; simp at hg'
          exact ⟨call', by rw [hG]; simp [hb, hg'], h1, h2, h3⟩
        · simp at hr
      | none =>
        simp only [hft, Option.none_or] at hf
        by_cases hsn : serial = n
        · subst hsn
          simp only [↓reduceIte, Option.some.injEq, Prod.mk.injEq] at hf; obtain ⟨rfl, rfl⟩ := hf
          left; exact ⟨call, by rw [hG]; simp, hc1, hc2, hc3⟩
        · simp [hsn] at hf
    · simp only [hcc, ↓reduceIte] at hc
      rcases h.a c t' al' n bs callee' hc hf with ⟨call', hg', h1, h2, h3⟩ | ⟨_, r', hr⟩
      · left
        have hb : bs ≠ bsn := fun x => by rw [x, hfresh] at hg'; simp at hg'
        exact ⟨call', by rw [hG]; simp [hb, hg'], h1, h2, h3⟩
      · simp at hr
  · intro bs call' hg' hna
    rw [hG] at hg'
    split at hg'
    · rename_i hb; subst hb
      simp at hg'; subst hg'
      left
      refine ⟨t ++ [(serial, (bs, callee))], al, callee, by simp [hc2], ?_⟩
      rw [happ, hc1, hfree]; simp
    · rcases h.b bs call' hg' hna with ⟨t', al', callee', hk', hf'⟩ | h2 | h3
      · left
        by_cases hcc : call'.callerConn = id
        · rw [hcc, hk] at hk'; simp at hk'; obtain ⟨rfl, rfl⟩ := hk'
          refine ⟨t ++ [(serial, (bsn, callee))], al, callee', by simp [hcc], ?_⟩
          rw [happ, hf']; simp
        · exact ⟨t', al', callee', by simp [hcc, hk'], hf'⟩
      · right; left
        obtain ⟨h2a, h2b⟩ := h2
        refine ⟨?_, h2b⟩
        by_cases hcc : call'.callerConn = id
        · rw [hcc, hk] at h2a; simp at h2a
        · simp [hcc, h2a]
      · right; right
        obtain ⟨h3a, h3b⟩ := h3
        refine ⟨?_, h3b⟩
        by_cases hcc : call'.callerConn = id
        · rw [hcc, hk] at h3a; simp at h3a
        · simp [hcc, h3a]
  · intro n c r hm; simp at hm
  · exact List.Pairwise.nil
  · exact hnx

/-- `shutdown_connection` takes the connection out of the map; its table is kept aside -/
theorem XP.remove_conn (h : XP none K G nx R A) {c0 : ConnId} {tbl : CallTbl'} {al0 : Bool} (hk : K c0 = some (tbl, al0)) :
    XP (some (c0, tbl)) (fun c => if c = c0 then none else K c) G nx R A := by
  constructor
  · intro c t al n bs callee hc hf
    by_cases hcc : c = c0
    · simp [hcc] at hc
    · simp only [hcc, ↓reduceIte] at hc; exact h.a c t al n bs callee hc hf
  · intro bs call hg hna
    rcases h.b bs call hg hna with ⟨t', al', callee, hk', hf'⟩ | ⟨h2a, h2b⟩ | ⟨_, _, _, h3, _⟩
    · by_cases hcc : call.callerConn = c0
      · right; right
        rw [hcc, hk] at hk'; simp at hk'; obtain ⟨rfl, rfl⟩ := hk'
        exact ⟨by simp [hcc], tbl, callee, by rw [hcc], hf'⟩
      · left; exact ⟨t', al', callee, by simp [hcc, hk'], hf'⟩
    · right; left
      refine ⟨?_, h2b⟩
      by_cases hcc : call.callerConn = c0 <;> simp [hcc, h2a]
    · simp at h3
  · intro n c r hm t al hc
    by_cases hcc : c = c0
    · simp [hcc] at hc
    · simp only [hcc, ↓reduceIte] at hc; exact h.c n c r hm t al hc
  · refine h.e.imp ?_
    intro x y hxy h1 h2
    have := hxy h1 h2
    by_cases hcc : x.2.1 = c0 <;> simp [hcc, this]
  · exact h.d

/-- … and at the end queues the abort of every call in that table -/
theorem XP.flush_aborts {c0 : ConnId} {tbl : CallTbl'} (h : XP (some (c0, tbl)) K G nx R A) {A' : AList}
    (h1 : ∀ x ∈ A, x ∈ A') (h2 : ∀ p ∈ tbl, (p.2.1, p.2.2) ∈ A') : XP none K G nx R A' := by
  constructor
  · exact h.a
  · intro bs call hg hna
    rcases h.b bs call hg hna with h1' | ⟨h2a, y, hy⟩ | ⟨h3a, tbl', callee, h3, hf⟩
    · exact Or.inl h1'
    · exact Or.inr (Or.inl ⟨h2a, y, h1 _ hy⟩)
    · right; left
      simp only [Option.some.injEq, Prod.mk.injEq] at h3
      obtain ⟨_, rfl⟩ := h3
      exact ⟨h3a, callee, h2 _ (AL.find?_some_mem hf)⟩
  · exact h.c
  · exact h.e
  · exact h.d

/-- the task of a connection is gone: only its flag changes -/
theorem XP.drop_alive (h : XP sv K G nx R A) {c0 : ConnId} {K' : KView}
    (hK : ∀ c, K' c = if c = c0 then (K c).map (fun x => (x.1, false)) else K c) : XP sv K' G nx R A := by
  have hsome : ∀ c t al, K' c = some (t, al) → ∃ al', K c = some (t, al') := by
    intro c t al hc
    rw [hK] at hc
    split at hc
    · cases hkc : K c with
      | none => simp [hkc] at hc
      | some v => simp [hkc] at hc; exact ⟨v.2, by rw [← hc.1]⟩
    · exact ⟨al, hc⟩
  have hnone : ∀ c, K c = none → K' c = none := by
    intro c hc; rw [hK]; split <;> simp [hc]
  constructor
  · intro c t al n bs callee hc hf
    obtain ⟨al', hc'⟩ := hsome c t al hc
    exact h.a c t al' n bs callee hc' hf
  · intro bs call hg hna
    rcases h.b bs call hg hna with ⟨t', al', callee, hk', hf'⟩ | ⟨h2a, h2b⟩ | ⟨h3a, h3b⟩
    · left
      by_cases hcc : call.callerConn = c0
      · exact ⟨t', false, callee, by rw [hK, if_pos hcc, hk']; rfl, hf'⟩
      · exact ⟨t', al', callee, by rw [hK, if_neg hcc, hk'], hf'⟩
    · exact Or.inr (Or.inl ⟨hnone _ h2a, h2b⟩)
    · exact Or.inr (Or.inr ⟨hnone _ h3a, h3b⟩)
  · intro n c r hm t al hc
    obtain ⟨al', hc'⟩ := hsome c t al hc
    exact h.c n c r hm t al' hc'
  · exact h.e.imp (fun {x y} hxy h1 h2 => hnone _ (hxy h1 h2))
  · exact h.d

/-- a connection arrives while nothing is deferred -/
theorem XP.new_conn (h : XP none K G nx [] []) {c0 : ConnId} (hk : K c0 = none) :
    XP none (fun c => if c = c0 then some ([], true) else K c) G nx [] [] := by
  constructor
  · intro c t al n bs callee hc hf
    by_cases hcc : c = c0
    · simp [hcc] at hc; rw [hc.1] at hf; simp [AL.find?] at hf
    · simp only [hcc, ↓reduceIte] at hc; exact h.a c t al n bs callee hc hf
  · intro bs call hg hna
    rcases h.b bs call hg hna with ⟨t', al', callee, hk', hf'⟩ | ⟨_, y, hy⟩ | ⟨_, _, _, h3, _⟩
    · left
      have hcc : call.callerConn ≠ c0 := fun x => by rw [x, hk] at hk'; simp at hk'
      exact ⟨t', al', callee, by simp [hcc, hk'], hf'⟩
    · simp at hy
    · simp at h3
  · intro n c r hm; simp at hm
  · exact List.Pairwise.nil
  · exact h.d

/-- the work loop takes the first queued abort; the call it names is gone or marked aborted by then -/
theorem XP.pop_abort {x : Nat × ConnId} (h : XP sv K G nx R (x :: A)) (hdead : ∀ call, G x.1 = some call → call.aborted = true) :
    XP sv K G nx R A := by
  constructor
  · exact h.a
  · intro bs call hg hna
    rcases h.b bs call hg hna with h1 | ⟨h2a, y, hy⟩ | h3
    · exact Or.inl h1
    · rw [List.mem_cons] at hy
      rcases hy with hy | hy
      · have : x.1 = bs := by rw [← hy]
        have := hdead call (this ▸ hg)
        rw [hna] at this; simp at this
      · exact Or.inr (Or.inl ⟨h2a, y, hy⟩)
    · exact Or.inr (Or.inr h3)
  · exact h.c
  · exact h.e
  · exact h.d

end Aldrin.Broker
