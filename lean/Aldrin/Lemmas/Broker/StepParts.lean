/-
One turn of the broker for a request, taken apart: the handler, then the work loop; and what the parts guarantee
together (used by the composed-system proofs).
-/
import Aldrin.Lemmas.Broker.ListenerSpec

namespace Aldrin.Broker
open Aldrin.Client (SKind reqKey rspKey)

/-- a turn for a request is the handler followed by the work loop, which adds no checked message, only removes
listeners and revives nobody -/
theorem step_msg_parts {b b' : Broker} {w w' : Work} {id : ConnId} {m : Req} {out : List Out}
    (hr : step b w (.msg id m) = .ok (b', w', out)) :
    ∃ s1 ok, handleMessage ⟨b, w, []⟩ id m = .ok (s1, ok) ∧ LShrink s1 ⟨b', w', []⟩ ∧ AliveLe s1 ⟨b', w', []⟩ ∧
      sf out = sf s1.out := by
  unfold step at hr
  split at hr
  · simp at hr
  · rename_i s0 h0
    split at hr
    · simp at hr
    · rename_i s2 h2
      simp only [Except.ok.injEq, Prod.mk.injEq] at hr
      obtain ⟨rfl, rfl, rfl⟩ := hr
      simp only [handleEvent] at h0
      split at h0
      · simp at h0
      · rename_i s1 ok hm
        simp only [Except.ok.injEq] at h0
        subst h0
        refine ⟨s1, ok, hm, ?_, ?_, ?_⟩
        · have : LShrink s1 s2 := by
            refine LShrink.trans (LShrink.of_eq ?_) (processLoop_shrink _ _ _ h2)
            split <;> simp
          exact this
        · have : AliveLe s1 s2 := by
            refine AliveLe.trans (AliveLe.of_conns ?_) (processLoop_alive _ _ _ h2)
            split <;> simp
          exact this
        · have := processLoop_s _ _ _ h2
          simp only [SameS] at this
          rw [this]
          split <;> simp

/-- any other turn (not a request, not a new connection) adds no checked message, only removes listeners and
revives nobody -/
theorem step_other_parts {b b' : Broker} {w w' : Work} {e : Event} {out : List Out}
    (he : ∀ id m, e ≠ .msg id m) (hn : ∀ id v, e ≠ .newConn id v) (hr : step b w e = .ok (b', w', out)) :
    LShrink ⟨b, w, []⟩ ⟨b', w', []⟩ ∧ AliveLe ⟨b, w, []⟩ ⟨b', w', []⟩ ∧ sf out = [] := by
  refine ⟨?_, fun c => step_alive hn hr c, step_other_no_reply he hr⟩
  unfold step at hr
  split at hr
  · simp at hr
  · rename_i s0 h0
    split at hr
    · simp at hr
    · rename_i s2 h2
      simp only [Except.ok.injEq, Prod.mk.injEq] at hr
      obtain ⟨rfl, rfl, rfl⟩ := hr
      have : LShrink ⟨b, w, []⟩ s2 := by
        refine LShrink.trans (LShrink.of_eq ?_) (processLoop_shrink _ _ _ h2)
        cases e <;> simp only [handleEvent] at h0
        case msg id m => exact absurd rfl (he id m)
        case newConn id v => exact absurd rfl (hn id v)
        all_goals (simp only [Except.ok.injEq] at h0; subst h0; simp)
      exact this

/-- a new connection: nothing is sent, listeners only vanish, and nobody but the new connection becomes alive -/
theorem step_newConn_parts {b b' : Broker} {w w' : Work} {c : ConnId} {v : Nat} {out : List Out}
    (hr : step b w (.newConn c v) = .ok (b', w', out)) :
    LShrink ⟨b, w, []⟩ ⟨b', w', []⟩ ∧ (∀ x, x ≠ c → aliveB ⟨b', w', []⟩ x = true → aliveB ⟨b, w, []⟩ x = true) ∧ sf out = [] := by
  refine ⟨?_, ?_, step_other_no_reply (by intro id m h; simp at h) hr⟩
  all_goals
    unfold step at hr
    split at hr
    · simp at hr
    · rename_i s0 h0
      split at hr
      · simp at hr
      · rename_i s2 h2
        simp only [Except.ok.injEq, Prod.mk.injEq] at hr
        obtain ⟨rfl, rfl, rfl⟩ := hr
        simp only [handleEvent] at h0
        split at h0
        · simp at h0
        · simp only [Except.ok.injEq] at h0
          subst h0
          first
            | (have : LShrink ⟨b, w, []⟩ s2 := LShrink.trans (LShrink.of_eq (by simp)) (processLoop_shrink _ _ _ h2)
               exact this)
            | (intro x hx ha
               have ha' : aliveB s2 x = true := ha
               have := processLoop_alive _ _ _ h2 x ha'
               simp only [aliveB_stat, aliveB_setConn] at this
               rw [if_neg (fun e => hx e.symm)] at this
               exact this)

/-! ### requests that are not about listeners -/

/-- the requests that read or change the listener table -/
def Req.isListenerReq : Req → Bool
  | .createBusListener .. | .destroyBusListener .. | .startBusListener .. | .stopBusListener ..
  | .addFilter .. | .removeFilter .. | .clearFilters .. => true
  | _ => false

theorem handleMessage_listeners_eq {s s' : St} {id : ConnId} {m : Req} {ok : Bool} (hm : m.isListenerReq = false)
    (hr : handleMessage s id m = .ok (s', ok)) : s'.b.listeners = s.b.listeners := by
  cases m <;> simp only [Req.isListenerReq, reduceCtorEq] at hm <;> simp only [handleMessage] at hr
  case createObject => exact (createObject_cl hr).2.1
  case destroyObject => exact (destroyObject_cl hr).2.1
  case createService => exact (createService_cl hr).2.1
  case createService2 => exact (createService2_cl hr).2.1
  case destroyService => exact (destroyService_cl hr).2.1
  case callFunction => exact (callFunctionImpl_cl hr).2.1
  case callFunction2 => exact (callFunction2_cl hr).2.1
  case callFunctionReply => exact (callFunctionReply_cl hr).2.1
  case abortFunctionCall => exact (abortFunctionCall_cl hr).2.1
  case subscribeEvent => exact (subscribeEvent_cl hr).2.1
  case unsubscribeEvent => exact (unsubscribeEvent_cl hr).2.1
  case emitEvent => exact (emitEvent_cl hr).2.1
  case queryServiceVersion => exact (queryServiceVersion_cl hr).2.1
  case queryServiceInfo => exact (queryServiceInfo_cl hr).2.1
  case subscribeService => exact (subscribeService_cl hr).2.1
  case unsubscribeService => exact (unsubscribeService_cl hr).2.1
  case subscribeAllEvents => exact (subscribeAllEvents_cl hr).2.1
  case unsubscribeAllEvents => exact (unsubscribeAllEvents_cl hr).2.1
  case createChannel => exact (createChannel_listeners hr)
  case closeChannelEnd => exact (closeChannelEnd_listeners hr)
  case claimChannelEnd => exact (claimChannelEnd_listeners hr)
  case sendItem => exact (sendItem_listeners hr)
  case addChannelCapacity => exact (addChannelCapacity_listeners hr)
  case sync => exact (sync_cl hr).2.1
  case registerIntrospection => exact (registerIntrospection_cl hr).2.1
  case queryIntrospection => exact (queryIntrospection_cl hr).2.1
  case queryIntrospectionReply => exact (queryIntrospectionReply_cl hr).2.1
  case other => simp [errH] at hr; rw [hr.1]

/-- only the start of a listener is answered by more than its reply -/
theorem handleMessage_rep_one {s s' : St} {id : ConnId} {m : Req} {ok : Bool} (hm : ∀ n ck sc, m ≠ .startBusListener n ck sc)
    (hr : handleMessage s id m = .ok (s', ok)) : AtMost s s' id (reqKeyS m) := by
  cases m <;> simp only [handleMessage] at hr
  case createObject => exact createObject_rep hr
  case destroyObject => exact destroyObject_rep hr
  case createService => exact createService_rep hr
  case createService2 => exact createService2_rep hr
  case destroyService => exact destroyService_rep hr
  case callFunction => exact callFunctionImpl_rep hr
  case callFunction2 => exact callFunction2_rep hr
  case callFunctionReply => exact callFunctionReply_rep hr
  case abortFunctionCall => exact abortFunctionCall_rep hr
  case subscribeEvent serial _ _ => cases serial <;> exact subscribeEvent_rep hr
  case unsubscribeEvent => exact unsubscribeEvent_rep hr
  case emitEvent => exact emitEvent_rep hr
  case queryServiceVersion => exact queryServiceVersion_rep hr
  case queryServiceInfo => exact queryServiceInfo_rep hr
  case subscribeService => exact subscribeService_rep hr
  case unsubscribeService => exact unsubscribeService_rep hr
  case subscribeAllEvents serial _ => cases serial <;> exact subscribeAllEvents_rep hr
  case unsubscribeAllEvents serial _ => cases serial <;> exact unsubscribeAllEvents_rep hr
  case createChannel => exact createChannel_rep hr
  case closeChannelEnd => exact closeChannelEnd_rep hr
  case claimChannelEnd => exact claimChannelEnd_rep hr
  case sendItem => exact sendItem_rep hr
  case addChannelCapacity => exact addChannelCapacity_rep hr
  case sync => exact sync_rep hr
  case createBusListener => exact createBusListener_rep hr
  case destroyBusListener => exact destroyBusListener_rep hr
  case addFilter f => exact updListener_rep hr
  case removeFilter f => exact updListener_rep hr
  case clearFilters => exact updListener_rep hr
  case startBusListener n ck sc => exact absurd rfl (hm n ck sc)
  case stopBusListener => exact stopBusListener_rep hr
  case registerIntrospection => exact registerIntrospection_rep hr
  case queryIntrospection => exact queryIntrospection_rep hr
  case queryIntrospectionReply => exact queryIntrospectionReply_rep hr
  case other => simp [errH] at hr; exact Or.inl (by rw [hr.1])

/-- changing the filters of a listener: nothing is sent; the entry keeps its owner and scope -/
theorem updListener_spec {s s' : St} {id ck f} {ok : Bool} (h : updListener s id ck f = .ok (s', ok)) :
    s'.out = s.out ∧ (s'.b.listeners = s.b.listeners ∨
      ∃ l, AL.find? ck s.b.listeners = some l ∧ l.conn = id ∧ s'.b.listeners = AL.insert ck (f l) s.b.listeners) := by
  unfold updListener at h
  repeat' ((try simp only [] at h); split at h)
  all_goals (simp only [okH, Except.ok.injEq, Prod.mk.injEq] at h; obtain ⟨h1, h2⟩ := h; subst h1; subst h2)
  · rename_i l hl hc
    exact ⟨rfl, Or.inr ⟨l, hl, hc, rfl⟩⟩
  · exact ⟨rfl, Or.inl rfl⟩
  · exact ⟨rfl, Or.inl rfl⟩

/-- whatever is sent to a connection during a handler, the connection was alive before -/
theorem sf_grows_alive_create {s s' : St} {id n} {ok : Bool} (h : createBusListener s id n = .ok (s', ok))
    (hs : sf s'.out ≠ sf s.out) : aliveB s id = true := by
  unfold createBusListener at h
  repeat' ((try simp only [] at h); split at h)
  all_goals (simp only [okH, errH, Except.ok.injEq, Prod.mk.injEq] at h; obtain ⟨h1, h2⟩ := h; subst h1; subst h2)
  · exact absurd rfl hs
  · rename_i hb
    have hb' : ((s.setNextCookie (s.b.nextCookie + 1)).send id (.createBusListenerReply n s.b.nextCookie)).2 = false := by
      simpa [St.freshCookie] using hb
    exact absurd (by simp [hb', St.freshCookie]) hs
  · rename_i c hc _
    have hb' : ((s.setNextCookie (s.b.nextCookie + 1)).send id (.createBusListenerReply n s.b.nextCookie)).2 = true := by
      simpa [St.freshCookie] using ‹¬ (!_) = true›
    have := send_ok_alive hb'
    simpa using this

end Aldrin.Broker
