/-
`SerialMap::insert` (`broker/src/serial_map.rs`): with fewer than 2³² entries the serial handed out is not in the map
(the model's bounded search and the implementation's loop agree; with 2³² entries the implementation does not return).
-/
import Aldrin.Lemmas.Broker.AL
import Aldrin.Model.Broker.Parts

namespace Aldrin.Broker

/-- the search of `SerialMap::insert` ends at a free serial, or every serial it looked at is taken -/
theorem SerialMap.findFree_spec {T : Type} (m : SerialMap T) : ∀ (fuel s : Nat), s < u32Max + 1 →
    AL.find? (m.findFree fuel s) m.elems = none ∨ ∀ i, i < fuel → AL.find? ((s + i) % (u32Max + 1)) m.elems ≠ none := by
  intro fuel
  induction fuel with
  | zero => intro s _; right; intro i hi; omega
  | succ k ih =>
    intro s hs
    simp only [SerialMap.findFree]
    split
    · rename_i hocc
      rcases ih ((s + 1) % (u32Max + 1)) (Nat.mod_lt _ (by omega)) with h | h
      · left; exact h
      · right
        intro i hi
        cases i with
        | zero =>
          simp only [Nat.add_zero, Nat.mod_eq_of_lt hs]
          intro hn; rw [hn] at hocc; simp at hocc
        | succ j =>
          have := h j (by omega)
          have e : ((s + 1) % (u32Max + 1) + j) % (u32Max + 1) = (s + (j + 1)) % (u32Max + 1) := by
            rw [Nat.mod_add_mod]; congr 1; omega
          rw [e] at this; exact this
    · rename_i hfree
      left
      cases hf : AL.find? s m.elems with
      | none => rfl
      | some v => rw [hf] at hfree; simp at hfree

/-- with room in the map (fewer than 2³² entries) the serial handed out is a free one -/
theorem SerialMap.insert_fresh {T : Type} (m : SerialMap T) (x : T) (hnext : m.next < u32Max + 1)
    (hroom : m.elems.length ≤ u32Max) : AL.find? (m.insert x).2 m.elems = none := by
  simp only [SerialMap.insert]
  rcases SerialMap.findFree_spec m (m.elems.length + 1) m.next hnext with h | h
  · exact h
  · exfalso
    -- `length + 1` distinct serials are all keys of the map
    let l := (List.range (m.elems.length + 1)).map (fun i => (m.next + i) % (u32Max + 1))
    have hnd : l.Nodup := by
      simp only [l, List.Nodup, List.pairwise_map]
      refine List.Pairwise.imp_of_mem ?_ (List.pairwise_lt_range (n := m.elems.length + 1))
      intro i j hi hj hlt hij
      simp only [List.mem_range] at hi hj
      simp only [u32Max] at *
      omega
    have hsub : l ⊆ m.elems.map Prod.fst := by
      intro k hk
      simp only [l, List.mem_map, List.mem_range] at hk
      obtain ⟨i, hi, rfl⟩ := hk
      have := h i hi
      rw [Ne, AL.find?_none_iff] at this
      exact Classical.not_not.mp this
    have := hnd.length_le_of_subset hsub
    simp [l] at this
    omega

end Aldrin.Broker
