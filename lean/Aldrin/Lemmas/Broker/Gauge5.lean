/-
Global invariant, part 3 (C09, C03): the gauges for connections, objects and services equal the sizes
of the maps, both views of objects / services have the same size, keys are unique and cookies fresh.
-/
import Aldrin.Lemmas.Broker.Frame5

namespace Aldrin.Broker
open Generated

/-- size bookkeeping of a map whose keys are chosen by clients (uuids, connection ids) -/
structure MapL {K V : Type} [DecidableEq K] (g : Nat) (m : List (K × V)) : Prop where
  size : g = m.length
  nodup : AL.NodupKeys m

theorem MapL_nil {K V : Type} [DecidableEq K] : MapL 0 ([] : List (K × V)) := ⟨rfl, AL.nodupKeys_nil⟩

theorem MapL_of_keys {K V : Type} [DecidableEq K] {g : Nat} {m m' : List (K × V)} (h : MapL g m)
    (hk : m'.map Prod.fst = m.map Prod.fst) : MapL g m' :=
  ⟨by rw [h.size]; have := congrArg List.length hk; simpa using this.symm, by unfold AL.NodupKeys at *; rw [hk]; exact h.nodup⟩

theorem MapL_insert_new {K V : Type} [DecidableEq K] {g : Nat} {m : List (K × V)} {k : K} {v : V} (h : MapL g m)
    (hk : AL.find? k m = none) : MapL (g + 1) (AL.insert k v m) :=
  ⟨by rw [AL.length_insert_of_none hk, h.size], AL.nodupKeys_insert h.nodup⟩

theorem MapL_insert_new' {K V : Type} [DecidableEq K] {g : Nat} {m : List (K × V)} {k : K} {v : V} (h : MapL g m)
    (hk : (AL.find? k m).isSome = false) : MapL (g + 1) (AL.insert k v m) :=
  MapL_insert_new h (by cases hf : AL.find? k m <;> simp_all)

theorem MapL_insert_same {K V : Type} [DecidableEq K] {g : Nat} {m : List (K × V)} {k : K} {v v' : V} (h : MapL g m)
    (hk : AL.find? k m = some v') : MapL g (AL.insert k v m) :=
  MapL_of_keys h (AL.keys_insert_of_some hk)

theorem MapL_erase {K V : Type} [DecidableEq K] {g : Nat} {m : List (K × V)} {k : K} {v' : V} (h : MapL g m)
    (hk : AL.find? k m = some v') : MapL (g - 1) (AL.erase k m) := by
  have := AL.length_erase_of_some h.nodup hk
  exact ⟨by rw [h.size]; omega, AL.nodupKeys_erase h.nodup⟩

/-- `dc` / `d` = number of connections / objects already taken out of the object maps whose gauge decrement is still to come
(`remove_object` decrements at its end, after removing the object's services) -/
def G5o (dc d : Nat) (s : St) : Prop :=
  MapL (s.b.stats.numConnections - dc) s.b.conns ∧
  MapG (s.b.stats.numObjects - d) s.b.nextCookie s.b.objUuids ∧ MapL (s.b.stats.numObjects - d) s.b.objs ∧
  MapG s.b.stats.numServices s.b.nextCookie s.b.svcUuids ∧ MapL s.b.stats.numServices s.b.svcs

def G5 (s : St) : Prop := G5o 0 0 s

theorem G5o_of_same5 {dc d : Nat} {s s' : St} (h : G5o dc d s) (hs : Same5 s s') : G5o dc d s' := by
  obtain ⟨h1, h2, h3, h4, h5, h6, h7, h8, h9⟩ := hs
  obtain ⟨g1, g2, g3, g4, g5⟩ := h
  unfold G5o
  rw [h1, h2, h6, h7, h8]
  exact ⟨MapL_of_keys g1 h5, MapG_mono g2 h9, MapL_of_keys g3 h3, MapG_mono g4 h9, MapL_of_keys g5 h4⟩

theorem G5_of_same5 {s s' : St} (h : G5 s) (hs : Same5 s s') : G5 s' := G5o_of_same5 h hs

syntax "g5_tac" ident ident "[" Lean.Parser.Tactic.grindParam,* "]" : tactic
macro_rules
  | `(tactic| g5_tac $f $hr [$ls,*]) => `(tactic|
      (unfold $f at $hr:ident
       repeat' ((try simp only [] at $hr:ident); split at $hr:ident)
       all_goals (try (simp at $hr:ident; done))
       all_goals (grind [okH, errH, G5, MapG_mono, MapG_insert_fresh, MapG_insert_same, MapG_erase, MapL_of_keys,
         MapL_insert_new', MapL_insert_new, MapL_insert_same, MapL_erase, keys_insert_some, $ls,*])))

theorem createObject_G5 {s s' : St} {id serial uuid} {ok : Bool} (h : G5 s)
    (hr : createObject s id serial uuid = .ok (s', ok)) : G5 s' := by
  unfold createObject at hr
  repeat' ((try simp only [] at hr); split at hr)
  all_goals (simp only [okH, errH, Except.ok.injEq, Prod.mk.injEq] at hr)
  · obtain ⟨rfl, _⟩ := hr; exact h
  · obtain ⟨rfl, _⟩ := hr
    exact G5_of_same5 h (send_same5 _ _ _ _)
  · obtain ⟨rfl, _⟩ := hr
    exact G5_of_same5 h (by simp [Same5])
  · obtain ⟨rfl, _⟩ := hr
    rename_i hnone _
    obtain ⟨g1, g2, g3, g4, g5⟩ := h
    have hnone' : AL.find? uuid s.b.objs = none := by
      cases hf : AL.find? uuid s.b.objs <;> simp_all
    refine ⟨?_, ?_, ?_, ?_, ?_⟩
    · exact MapL_of_keys (by simpa using g1) (by simp)
    · simp only [St.stat_b_stats, St.stat_b_nextCookie, St.stat_b_objUuids, St.setWCreateObject_b_stats,
        St.setWCreateObject_b_nextCookie, St.setWCreateObject_b_objUuids, St.updConn_b_stats, St.updConn_b_nextCookie,
        St.updConn_b_objUuids, St.setObjs_b_stats, St.setObjs_b_nextCookie, St.setObjs_b_objUuids, St.setObjUuids_b_stats,
        St.setObjUuids_b_nextCookie, St.setObjUuids_b_objUuids, St.send_gauge_numObjects, St.send_b_nextCookie,
        St.send_b_objUuids, St.freshCookie_b_stats, St.freshCookie_b_nextCookie, St.freshCookie_b_objUuids, St.freshCookie_snd]
      exact MapG_insert_fresh g2 (Nat.lt_succ_self _)
    · simp only [St.stat_b_stats, St.stat_b_objs, St.setWCreateObject_b_stats, St.setWCreateObject_b_objs, St.updConn_b_stats,
        St.updConn_b_objs, St.setObjs_b_stats, St.setObjs_b_objs, St.setObjUuids_b_stats, St.setObjUuids_b_objs,
        St.send_gauge_numObjects, St.send_b_objs, St.freshCookie_b_stats, St.freshCookie_b_objs, St.freshCookie_snd]
      exact MapL_insert_new g3 hnone'
    · simp only [St.stat_b_stats, St.stat_b_nextCookie, St.stat_b_svcUuids, St.setWCreateObject_b_stats,
        St.setWCreateObject_b_nextCookie, St.setWCreateObject_b_svcUuids, St.updConn_b_stats, St.updConn_b_nextCookie,
        St.updConn_b_svcUuids, St.setObjs_b_stats, St.setObjs_b_nextCookie, St.setObjs_b_svcUuids, St.setObjUuids_b_stats,
        St.setObjUuids_b_nextCookie, St.setObjUuids_b_svcUuids, St.send_gauge_numServices, St.send_b_nextCookie,
        St.send_b_svcUuids, St.freshCookie_b_stats, St.freshCookie_b_nextCookie, St.freshCookie_b_svcUuids]
      exact MapG_mono g4 (Nat.le_succ _)
    · simpa using g5

/-! ### removing a service / an object -/

theorem removeService_calls_same5 : ∀ (l : List Nat) (s s' : St), removeService.calls s l = .ok s' → Same5 s s' := by
  intro l
  induction l with
  | nil => intro s s' h; simp [removeService.calls] at h; subst h; exact Same5.refl _
  | cons a l ih =>
    intro s s' h
    simp only [removeService.calls] at h
    split at h
    · simp at h
    · refine Same5.trans ?_ (ih _ _ h)
      split <;> simp [Same5]

/-- assembling `G5` after a service was taken out of both service maps and the gauge decremented -/
theorem G5_after_remove_service {s sA sZ : St} {c : Cookie} {k : Uuid × Uuid} {vu vs}
    {dc d : Nat} (h : G5o dc d s) (hu : AL.find? c s.b.svcUuids = some vu) (hs : AL.find? k s.b.svcs = some vs)
    (a1 : sA.b.svcUuids = AL.erase c s.b.svcUuids) (a2 : sA.b.svcs = AL.erase k s.b.svcs)
    (a3 : sA.b.objs.map Prod.fst = s.b.objs.map Prod.fst) (a4 : sA.b.objUuids = s.b.objUuids)
    (a5 : sA.b.conns = s.b.conns) (a6 : sA.b.stats = s.b.stats) (a7 : sA.b.nextCookie = s.b.nextCookie)
    (hZ : Same5 sA sZ) :
    G5o dc d (sZ.stat (fun st => { st with numServices := st.numServices - 1 })) := by
  obtain ⟨g1, g2, g3, g4, g5⟩ := h
  obtain ⟨z1, z2, z3, z4, z5, z6, z7, z8, z9⟩ := hZ
  unfold G5o
  simp only [St.stat_b_stats, St.stat_b_conns, St.stat_b_nextCookie, St.stat_b_objUuids, St.stat_b_objs, St.stat_b_svcUuids, St.stat_b_svcs]
  rw [z1, z2, z6, z7, z8, a1, a4, a6]
  rw [a7] at z9
  refine ⟨MapL_of_keys g1 (by rw [z5, a5]), MapG_mono g2 z9, MapL_of_keys g3 (by rw [z3, a3]),
    MapG_mono (MapG_erase g4 hu) z9, MapL_of_keys (MapL_erase g5 hs) (by rw [z4, a2])⟩

theorem removeService_G5o {dc d : Nat} {s s' : St} {c : Cookie} (h : G5o dc d s) (hr : removeService s c = .ok s') : G5o dc d s' := by
  unfold removeService at hr
  split at hr
  · simp at hr; exact hr ▸ h
  · rename_i objId svcUuid info hu
    (try simp only [] at hr)
    split at hr
    · simp at hr
    · rename_i svc hsv
      (try simp only [] at hr)
      split at hr
      · simp at hr
      · rename_i s1 hc
        simp only [Except.ok.injEq] at hr
        subst hr
        have hsv' : AL.find? (objId.uuid, svcUuid) s.b.svcs = some svc := by simpa using hsv
        refine G5_after_remove_service (c := c) (k := (objId.uuid, svcUuid)) h hu hsv' (sA := _) ?_ ?_ ?_ ?_ ?_ ?_ ?_
          (Same5.trans (removeService_calls_same5 _ _ _ hc) ?_)
        · split <;> simp
        · split <;> simp
        · split
          · rename_i o ho
            simp only [St.setWDestroyService_b_objs, St.setObjs_b_objs]
            exact keys_insert_some (by simp at ho; simp [ho])
          · simp
        · split <;> simp
        · split <;> simp
        · split <;> simp
        · split <;> simp
        · apply foldl_inv (fun s' => Same5 s1 s')
          · intro s2 a hp
            split
            · rename_i c2 hc2
              refine Same5.trans hp ?_
              simp only [Same5, St.setWServicesDestroyed_b_objUuids, St.setConn_b_objUuids, St.setWServicesDestroyed_b_svcUuids,
                St.setConn_b_svcUuids, St.setWServicesDestroyed_b_objs, St.setConn_b_objs, St.setWServicesDestroyed_b_svcs,
                St.setConn_b_svcs, St.setWServicesDestroyed_b_conns, St.setConn_b_conns, St.setWServicesDestroyed_b_stats,
                St.setConn_b_stats, St.setWServicesDestroyed_b_nextCookie, St.setConn_b_nextCookie, true_and, Nat.le_refl, and_true]
              exact keys_insert_some (by simp at hc2; simp [hc2])
            · exact hp
          · exact Same5.refl _

theorem removeObject_svcs_G5o {dc d : Nat} : ∀ (l : List Cookie) (s s' : St), G5o dc d s → removeObject.svcs s l = .ok s' → G5o dc d s' := by
  intro l
  induction l with
  | nil => intro s s' h hr; simp [removeObject.svcs] at hr; subst hr; exact h
  | cons a l ih =>
    intro s s' h hr
    simp only [removeObject.svcs] at hr
    split at hr
    · simp at hr
    · exact ih _ _ (removeService_G5o h ‹_›) hr

theorem removeObject_G5o {dc : Nat} {s s' : St} {c : Cookie} (h : G5o dc 0 s) (hr : removeObject s c = .ok s') : G5o dc 0 s' := by
  unfold removeObject at hr
  split at hr
  · simp at hr; exact hr ▸ h
  · rename_i objUuid hu
    (try simp only [] at hr)
    split at hr
    · simp at hr
    · rename_i obj ho
      (try simp only [] at hr)
      split at hr
      · simp at hr
      · rename_i s1 hs1
        simp only [Except.ok.injEq] at hr
        subst hr
        have ho' : AL.find? objUuid s.b.objs = some obj := by simpa using ho
        obtain ⟨g1, g2, g3, g4, g5⟩ := h
        have hA : G5o dc 1 ((((s.setObjUuids (AL.erase c s.b.objUuids)).setObjs
            (AL.erase objUuid (s.setObjUuids (AL.erase c s.b.objUuids)).b.objs)).updConn obj.conn fun c_1 =>
              { c_1 with objects := sremove c c_1.objects }).setWDestroyObject
            (⟨objUuid, c⟩ :: ((((s.setObjUuids (AL.erase c s.b.objUuids)).setObjs
              (AL.erase objUuid (s.setObjUuids (AL.erase c s.b.objUuids)).b.objs)).updConn obj.conn fun c_1 =>
              { c_1 with objects := sremove c c_1.objects })).w.destroyObject)) := by
          refine ⟨?_, ?_, ?_, ?_, ?_⟩
          · exact MapL_of_keys (by simpa using g1) (by simp)
          · simpa using MapG_erase g2 hu
          · simpa using MapL_erase g3 ho'
          · simpa using g4
          · simpa using g5
        have hZ := removeObject_svcs_G5o _ _ _ hA hs1
        obtain ⟨z1, z2, z3, z4, z5⟩ := hZ
        exact ⟨by simpa using z1, by simpa using z2, by simpa using z3, by simpa using z4, by simpa using z5⟩

theorem destroyObject_G5 {s s' : St} {id serial c} {ok : Bool} (h : G5 s)
    (hr : destroyObject s id serial c = .ok (s', ok)) : G5 s' := by
  unfold destroyObject at hr
  repeat' ((try simp only [] at hr); split at hr)
  all_goals (try (simp at hr; done))
  all_goals (simp only [okH, errH, Except.ok.injEq, Prod.mk.injEq] at hr)
  all_goals first
    | (obtain ⟨rfl, _⟩ := hr; exact h)
    | (obtain ⟨rfl, _⟩ := hr; exact G5_of_same5 h (send_same5 _ _ _ _))
    | (obtain ⟨rfl, _⟩ := hr; exact removeObject_G5o (G5_of_same5 h (send_same5 _ _ _ _)) ‹_›)
    | (have hr' := congrArg Prod.fst hr; simp only at hr'; subst hr'; exact G5_of_same5 h (send_same5 _ _ _ _))

theorem destroyService_G5 {s s' : St} {id serial c} {ok : Bool} (h : G5 s)
    (hr : destroyService s id serial c = .ok (s', ok)) : G5 s' := by
  unfold destroyService at hr
  repeat' ((try simp only [] at hr); split at hr)
  all_goals (try (simp at hr; done))
  all_goals (simp only [okH, errH, Except.ok.injEq, Prod.mk.injEq] at hr)
  all_goals first
    | (obtain ⟨rfl, _⟩ := hr; exact h)
    | (obtain ⟨rfl, _⟩ := hr; exact G5_of_same5 h (send_same5 _ _ _ _))
    | (obtain ⟨rfl, _⟩ := hr; exact removeService_G5o (G5_of_same5 h (send_same5 _ _ _ _)) ‹_›)
    | (have hr' := congrArg Prod.fst hr; simp only at hr'; subst hr'; exact G5_of_same5 h (send_same5 _ _ _ _))

theorem createServiceImpl_G5 {s s' : St} {id serial oc uuid info} {ok : Bool} (h : G5 s)
    (hr : createServiceImpl s id serial oc uuid info = .ok (s', ok)) : G5 s' := by
  unfold createServiceImpl at hr
  repeat' ((try simp only [] at hr); split at hr)
  all_goals (try (simp at hr; done))
  all_goals (simp only [okH, errH, Except.ok.injEq, Prod.mk.injEq] at hr)
  all_goals first
    | (obtain ⟨rfl, _⟩ := hr; exact h)
    | (obtain ⟨rfl, _⟩ := hr; exact G5_of_same5 h (send_same5 _ _ _ _))
    | (obtain ⟨rfl, _⟩ := hr; refine G5_of_same5 h ?_; simp [Same5]; done)
    | (have hr' := congrArg Prod.fst hr; simp only at hr'; subst hr'; exact G5_of_same5 h (send_same5 _ _ _ _))
    | skip
  -- the successful creation
  obtain ⟨rfl, _⟩ := hr
  rename_i objUuid hou hdup _ obj hobj _ _ _ _ _ _
  obtain ⟨g1, g2, g3, g4, g5⟩ := h
  have hnone : AL.find? (objUuid, uuid) s.b.svcs = none := by
    cases hf : AL.find? (objUuid, uuid) s.b.svcs <;> simp_all
  refine ⟨?_, ?_, ?_, ?_, ?_⟩
  · simpa using g1
  · simp only [St.stat_b_stats, St.stat_b_nextCookie, St.stat_b_objUuids, St.setWCreateService_b_stats, St.setWCreateService_b_nextCookie,
      St.setWCreateService_b_objUuids, St.setObjs_b_stats, St.setObjs_b_nextCookie, St.setObjs_b_objUuids, St.setSvcs_b_stats,
      St.setSvcs_b_nextCookie, St.setSvcs_b_objUuids, St.setSvcUuids_b_stats, St.setSvcUuids_b_nextCookie, St.setSvcUuids_b_objUuids,
      St.send_gauge_numObjects, St.send_b_nextCookie, St.send_b_objUuids, St.freshCookie_b_stats, St.freshCookie_b_nextCookie,
      St.freshCookie_b_objUuids]
    exact MapG_mono g2 (Nat.le_succ _)
  · simp only [St.stat_b_stats, St.stat_b_objs, St.setWCreateService_b_stats, St.setWCreateService_b_objs, St.setObjs_b_stats,
      St.setObjs_b_objs, St.setSvcs_b_stats, St.setSvcs_b_objs, St.setSvcUuids_b_stats, St.setSvcUuids_b_objs,
      St.send_gauge_numObjects, St.send_b_objs, St.freshCookie_b_stats, St.freshCookie_b_objs]
    exact MapL_insert_same g3 (by simpa using hobj)
  · simp only [St.stat_b_stats, St.stat_b_nextCookie, St.stat_b_svcUuids, St.setWCreateService_b_stats, St.setWCreateService_b_nextCookie,
      St.setWCreateService_b_svcUuids, St.setObjs_b_stats, St.setObjs_b_nextCookie, St.setObjs_b_svcUuids, St.setSvcs_b_stats,
      St.setSvcs_b_nextCookie, St.setSvcs_b_svcUuids, St.setSvcUuids_b_stats, St.setSvcUuids_b_nextCookie, St.setSvcUuids_b_svcUuids,
      St.send_gauge_numServices, St.send_b_nextCookie, St.send_b_svcUuids, St.freshCookie_b_stats, St.freshCookie_b_nextCookie,
      St.freshCookie_b_svcUuids, St.freshCookie_snd]
    exact MapG_insert_fresh g4 (Nat.lt_succ_self _)
  · simp only [St.stat_b_stats, St.stat_b_svcs, St.setWCreateService_b_stats, St.setWCreateService_b_svcs, St.setObjs_b_stats,
      St.setObjs_b_svcs, St.setSvcs_b_stats, St.setSvcs_b_svcs, St.setSvcUuids_b_stats, St.setSvcUuids_b_svcs,
      St.send_gauge_numServices, St.send_b_svcs, St.freshCookie_b_stats, St.freshCookie_b_svcs]
    exact MapL_insert_new g5 hnone

theorem createService_G5 {s s' : St} {id serial oc uuid v} {ok : Bool} (h : G5 s)
    (hr : createService s id serial oc uuid v = .ok (s', ok)) : G5 s' := by
  unfold createService at hr; exact createServiceImpl_G5 h hr

theorem createService2_G5 {s s' : St} {id serial oc uuid info} {ok : Bool} (h : G5 s)
    (hr : createService2 s id serial oc uuid info = .ok (s', ok)) : G5 s' := by
  unfold createService2 at hr
  repeat' ((try simp only [] at hr); split at hr)
  all_goals first
    | (simp only [okH, errH, Except.ok.injEq, Prod.mk.injEq] at hr; obtain ⟨rfl, _⟩ := hr; exact h)
    | exact createServiceImpl_G5 h hr

theorem shutdownConnection_G5 {s s' : St} {id b} (h : G5 s) (hr : shutdownConnection s id b = .ok s') : G5 s' := by
  unfold shutdownConnection at hr
  split at hr
  · simp at hr; exact hr ▸ h
  · rename_i conn hconn
    simp only [] at hr
    repeat' (split at hr)
    all_goals (try (simp at hr; done))
    rename_i s1 h1 _ s2 h2 _ s3 h3 _ s4 h4 _ s5 h5 _ s6 h6
    have hconn' : AL.find? id s.b.conns = some conn := by simpa using hconn
    -- after the connection is taken out of the map its gauge is one ahead until the very end
    have i1 : G5o 1 0 s1 := by
      refine foldE_inv (G5o 1 0) _ (fun s a s' hp hr => removeObject_G5o hp hr) _ _ _ ?_ h1
      apply foldl_inv (G5o 1 0) _ (fun s a hp => G5o_of_same5 hp (removeBusListener_same5 _ _))
      obtain ⟨g1, g2, g3, g4, g5⟩ := h
      refine ⟨?_, ?_, ?_, ?_, ?_⟩
      · have : MapL (s.b.stats.numConnections - 0 - 1) (AL.erase id s.b.conns) := MapL_erase g1 hconn'
        split <;> (try split) <;> simpa using this
      · split <;> (try split) <;> simpa using g2
      · split <;> (try split) <;> simpa using g3
      · split <;> (try split) <;> simpa using g4
      · split <;> (try split) <;> simpa using g5
    have i2 := foldE_inv (G5o 1 0) _ (fun s a s' hp hr => G5o_of_same5 hp (removeEventSubscription_same5 hr)) _ _ _ i1 h2
    have i3 := foldE_inv (G5o 1 0) _ (fun s a s' hp hr => G5o_of_same5 hp (removeAllEventsSubscription_same5 hr)) _ _ _ i2 h3
    have i4 := foldE_inv (G5o 1 0) _ (fun s a s' hp hr => G5o_of_same5 hp (removeSubscription_same5 hr)) _ _ _ i3 h4
    have i5 := foldE_inv (G5o 1 0) _ (fun s a s' hp hr => G5o_of_same5 hp (removeChannelEnd_same5 hr)) _ _ _ i4 h5
    have i6 := foldE_inv (G5o 1 0) _ (fun s a s' hp hr => G5o_of_same5 hp (removeChannelEnd_same5 hr)) _ _ _ i5 h6
    refine G5_of_same5 ?_ (removeIntrospectionConn_same5 hr)
    have i7 : G5o 1 0 (List.foldl (fun s (p : Nat × Nat × ConnId) => s.setWAbortCalls ((p.2.1, p.2.2) :: s.w.abortCalls)) s6 conn.calls) := by
      apply foldl_inv (G5o 1 0) _ ?_ _ _ i6
      intro s a hp
      exact G5o_of_same5 hp (by simp [Same5])
    obtain ⟨z1, z2, z3, z4, z5⟩ := i7
    exact ⟨by simpa using z1, by simpa using z2, by simpa using z3, by simpa using z4, by simpa using z5⟩

theorem handleMessage_G5 {s s' : St} {id : ConnId} {m : Req} {ok : Bool} (h : G5 s)
    (hr : handleMessage s id m = .ok (s', ok)) : G5 s' := by
  cases m <;> simp only [handleMessage] at hr
  case createObject => exact createObject_G5 h hr
  case destroyObject => exact destroyObject_G5 h hr
  case createService => exact createService_G5 h hr
  case createService2 => exact createService2_G5 h hr
  case destroyService => exact destroyService_G5 h hr
  case callFunction => exact G5_of_same5 h (callFunctionImpl_same5 hr)
  case callFunction2 => exact G5_of_same5 h (callFunction2_same5 hr)
  case callFunctionReply => exact G5_of_same5 h (callFunctionReply_same5 hr)
  case abortFunctionCall => exact G5_of_same5 h (abortFunctionCall_same5 hr)
  case subscribeEvent => exact G5_of_same5 h (subscribeEvent_same5 hr)
  case unsubscribeEvent => exact G5_of_same5 h (unsubscribeEvent_same5 hr)
  case emitEvent => exact G5_of_same5 h (emitEvent_same5 hr)
  case queryServiceVersion => exact G5_of_same5 h (queryServiceVersion_same5 hr)
  case queryServiceInfo => exact G5_of_same5 h (queryServiceInfo_same5 hr)
  case subscribeService => exact G5_of_same5 h (subscribeService_same5 hr)
  case unsubscribeService => exact G5_of_same5 h (unsubscribeService_same5 hr)
  case subscribeAllEvents => exact G5_of_same5 h (subscribeAllEvents_same5 hr)
  case unsubscribeAllEvents => exact G5_of_same5 h (unsubscribeAllEvents_same5 hr)
  case createChannel => exact G5_of_same5 h (createChannel_same5 hr)
  case closeChannelEnd => exact G5_of_same5 h (closeChannelEnd_same5 hr)
  case claimChannelEnd => exact G5_of_same5 h (claimChannelEnd_same5 hr)
  case sendItem => exact G5_of_same5 h (sendItem_same5 hr)
  case addChannelCapacity => exact G5_of_same5 h (addChannelCapacity_same5 hr)
  case sync => exact G5_of_same5 h (sync_same5 hr)
  case createBusListener => exact G5_of_same5 h (createBusListener_same5 hr)
  case destroyBusListener => exact G5_of_same5 h (destroyBusListener_same5 hr)
  case addFilter f => exact G5_of_same5 h (updListener_same5 hr)
  case removeFilter f => exact G5_of_same5 h (updListener_same5 hr)
  case clearFilters => exact G5_of_same5 h (updListener_same5 hr)
  case startBusListener => exact G5_of_same5 h (startBusListener_same5 hr)
  case stopBusListener => exact G5_of_same5 h (stopBusListener_same5 hr)
  case registerIntrospection => exact G5_of_same5 h (registerIntrospection_same5 hr)
  case queryIntrospection => exact G5_of_same5 h (queryIntrospection_same5 hr)
  case queryIntrospectionReply => exact G5_of_same5 h (queryIntrospectionReply_same5 hr)
  case other => simp [errH] at hr; exact hr.1 ▸ h

theorem handleEvent_G5 {s s' : St} {e : Event} (h : G5 s) (hr : handleEvent s e = .ok s') : G5 s' := by
  cases e <;> simp only [handleEvent] at hr
  case msg id m =>
    split at hr
    · simp at hr
    · rename_i s1 ok hm
      have := handleMessage_G5 h hm
      simp only [Except.ok.injEq] at hr
      subst hr
      apply G5_of_same5 this
      split <;> simp [Same5]
  case newConn id v =>
    split at hr
    · simp at hr
    · rename_i hnew
      simp only [Except.ok.injEq] at hr; subst hr
      obtain ⟨g1, g2, g3, g4, g5⟩ := h
      have hnone : AL.find? id s.b.conns = none := by
        cases hf : AL.find? id s.b.conns <;> simp_all
      refine ⟨?_, by simpa using g2, by simpa using g3, by simpa using g4, by simpa using g5⟩
      have := MapL_insert_new (v := ({ version := v } : Conn)) g1 hnone
      simpa using this
  all_goals (simp only [Except.ok.injEq] at hr; subst hr; exact G5_of_same5 h (by simp [Same5]))


theorem processOne_G5 {s s' : St} (h : G5 s) (hr : processOne s = some (.ok s')) : G5 s' := by
  unfold processOne at hr
  repeat' (split at hr)
  all_goals (try (simp only [Option.some.injEq, reduceCtorEq] at hr))
  all_goals first
    | (refine shutdownConnection_G5 (s := s.setWRemoveConns _) (G5_of_same5 h ?_) hr; simp [Same5]; done)
    | (refine G5_of_same5 (G5_of_same5 (s' := s.setWAbortCalls _) h ?_) (abortCall_same5 hr); simp [Same5]; done)
    | (simp only [Except.ok.injEq] at hr; subst hr; refine G5_of_same5 h ?_; simp [Same5]; done)
    | (simp only [Except.ok.injEq] at hr; subst hr; refine G5_of_same5 h (Same5.trans (b := s.setWCreateObject _) ?_ (emitBusEvent_same5 _ _)); simp [Same5]; done)
    | (simp only [Except.ok.injEq] at hr; subst hr; refine G5_of_same5 h (Same5.trans (b := s.setWCreateService _) ?_ (emitBusEvent_same5 _ _)); simp [Same5]; done)
    | (simp only [Except.ok.injEq] at hr; subst hr; refine G5_of_same5 h (Same5.trans (b := s.setWDestroyService _) ?_ (emitBusEvent_same5 _ _)); simp [Same5]; done)
    | (simp only [Except.ok.injEq] at hr; subst hr; refine G5_of_same5 h (Same5.trans (b := s.setWDestroyObject _) ?_ (emitBusEvent_same5 _ _)); simp [Same5]; done)
    | (simp only [Except.ok.injEq] at hr; subst hr; refine G5_of_same5 h ?_; split <;> simp [Same5]; done)
    | (split at hr <;> (try split at hr) <;> (try simp only [Except.ok.injEq, reduceCtorEq] at hr) <;>
        first | (exact hr.elim) | (subst hr; refine G5_of_same5 h ?_; simp [Same5]; done)
              | (subst hr; refine G5_of_same5 h ?_; simp [Same5]; apply keys_insert_some; simp_all))

theorem processLoop_G5 : ∀ (fuel : Nat) (s s' : St), G5 s → processLoop fuel s = .ok s' → G5 s' := by
  intro fuel
  induction fuel with
  | zero => intro s s' _ hr; simp [processLoop] at hr
  | succ n ih =>
    intro s s' h hr
    simp only [processLoop] at hr
    split at hr
    · simp at hr; exact hr ▸ h
    · simp at hr
    · exact ih _ _ (processOne_G5 h ‹_›) hr

/-- One turn of `Broker::run` keeps every channel and every bus listener within its invariant. -/
theorem step_G5 {b b' : Broker} {w w' : Work} {e : Event} {out : List Out}
    (h : G5 ⟨b, w, []⟩) (hr : step b w e = .ok (b', w', out)) : G5 ⟨b', w', []⟩ := by
  unfold step at hr
  split at hr
  · simp at hr
  · rename_i s1 h1
    split at hr
    · simp at hr
    · rename_i s2 h2
      simp only [Except.ok.injEq, Prod.mk.injEq] at hr
      obtain ⟨rfl, rfl, _⟩ := hr
      have := processLoop_G5 _ _ _ (handleEvent_G5 h h1) h2
      exact this

theorem G5_init : G5 ⟨{}, {}, []⟩ := ⟨MapL_nil, MapG_nil _, MapL_nil, MapG_nil _, MapL_nil⟩


theorem run_G5 : ∀ (es : List Event) (b b' : Broker) (w w' : Work) (outs : List (List Out)),
    G5 ⟨b, w, []⟩ → run b w es = .ok (b', w', outs) → G5 ⟨b', w', []⟩ := by
  intro es
  induction es with
  | nil => intro b b' w w' outs h hr; simp [run] at hr; obtain ⟨rfl, rfl, _⟩ := hr; exact h
  | cons e es ih =>
    intro b b' w w' outs h hr
    simp only [run] at hr
    split at hr
    · simp at hr
    · rename_i b1 w1 o1 h1
      split at hr
      · simp at hr
      · rename_i b2 w2 o2 h2
        simp only [Except.ok.injEq, Prod.mk.injEq] at hr
        obtain ⟨rfl, rfl, _⟩ := hr
        exact ih _ _ _ _ _ (step_G5 h h1) h2

end Aldrin.Broker
