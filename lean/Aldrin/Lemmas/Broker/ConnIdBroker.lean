/-
The broker together with the allocator of its connection ids: a new connection gets the id that `acquire` returns, and
an id can only be released while the broker has no connection under it (the key of the broker's map of connections is
a clone of the `ConnectionId`, and the id is released when the last clone is dropped). Then the id of a new connection
is never in use: the `debug_assert!(dup.is_none())` of `Broker::run` cannot fail.
-/
import Aldrin.Lemmas.Broker.Exists
import Aldrin.Lemmas.ConnId.Inv

set_option linter.unusedVariables false
namespace Aldrin.Broker

structure Node where
  b : Broker := {}
  w : Work := {}
  ids : Aldrin.ConnId.Sys := {}

inductive NEv where
  /-- `BrokerHandle::connect` with a handshake that negotiated `version`: an id is acquired, `NewConnection` is handled -/
  | connect (version : Nat)
  /-- any other event of `Broker::run` (a `newConn` here is ignored: connections only come through `connect`) -/
  | ev (e : Event)
  /-- the last clone of the id goes; ignored while the broker still has a connection under that id, or if the id is not in use -/
  | dropId (id : Nat)

def Event.isNewConn : Event → Bool
  | .newConn _ _ => true
  | _ => false

def Node.step (n : Node) : NEv → Except Panic (Node × List Out)
  | .connect v =>
    let (id, ids) := n.ids.ids.acquire
    match Aldrin.Broker.step n.b n.w (.newConn id v) with
    | .error p => .error p
    | .ok (b, w, out) => .ok ({ b := b, w := w, ids := { ids := ids, held := id :: n.ids.held } }, out)
  | .ev e =>
    if e.isNewConn then .ok (n, []) else
    match Aldrin.Broker.step n.b n.w e with
    | .error p => .error p
    | .ok (b, w, out) => .ok ({ n with b := b, w := w }, out)
  | .dropId id =>
    if (AL.find? id n.b.conns).isSome then .ok (n, []) else
    match n.ids.step (.release id) with
    | .error p => .error (.debugAssert "Inner::release")
    | .ok ids => .ok ({ n with ids := ids }, [])

def Node.run (n : Node) : List NEv → Except Panic Node
  | [] => .ok n
  | e :: es => match n.step e with
    | .error p => .error p
    | .ok (n, _) => n.run es

/-- the allocator's bookkeeping is right and every connection of the broker has an id that is in use -/
structure NInv (n : Node) : Prop where
  ids : Aldrin.ConnId.Inv n.ids
  held : ∀ c, exB ⟨n.b, n.w, []⟩ c = true → c ∈ n.ids.held

theorem NInv.init : NInv {} := ⟨Aldrin.ConnId.Inv.init, by intro c h; simp [exB, AL.find?] at h⟩

theorem exB_false_of_not_held {n : Node} (h : NInv n) {c : Nat} (hc : c ∉ n.ids.held) : (AL.find? c n.b.conns).isSome = false := by
  cases hf : AL.find? c n.b.conns with
  | none => rfl
  | some conn => exact absurd (h.held c (by simp [exB, hf])) hc

theorem isNewConn_false {e : Event} (h : e.isNewConn = false) : ∀ id v, e ≠ .newConn id v := by
  intro id v he; subst he; simp [Event.isNewConn] at h

/-- the id that `connect` acquires is not the id of a connection the broker has: the duplicate check of `NewConnection` passes -/
theorem NInv.acquired_is_new {n : Node} (h : NInv n) : (AL.find? n.ids.ids.acquire.1 n.b.conns).isSome = false :=
  exB_false_of_not_held h (Aldrin.ConnId.acquire_fresh h.ids)

theorem NInv.handleEvent_newConn_ok {n : Node} (h : NInv n) (v : Nat) :
    ∃ s, handleEvent ⟨n.b, n.w, []⟩ (.newConn n.ids.ids.acquire.1 v) = .ok s := by
  simp only [handleEvent, St.conn?, h.acquired_is_new, Bool.false_eq_true, ↓reduceIte]
  exact ⟨_, rfl⟩

theorem Node.step_inv {n n' : Node} {e : NEv} {out : List Out} (h : NInv n) (hr : n.step e = .ok (n', out)) : NInv n' := by
  cases e with
  | connect v =>
    simp only [Node.step] at hr
    split at hr
    · simp at hr
    · rename_i b w o hs
      simp only [Except.ok.injEq, Prod.mk.injEq] at hr
      obtain ⟨rfl, _⟩ := hr
      refine ⟨Aldrin.ConnId.acquire_inv h.ids, ?_⟩
      intro c hc
      simp only at hc ⊢
      unfold Aldrin.Broker.step at hs
      simp only [handleEvent, St.conn?, h.acquired_is_new, Bool.false_eq_true, ↓reduceIte] at hs
      split at hs
      · simp at hs
      · rename_i s2 h2
        simp only [Except.ok.injEq, Prod.mk.injEq] at hs
        obtain ⟨rfl, rfl, _⟩ := hs
        have := processLoop_ex _ _ _ h2 c hc
        simp only [exB_stat, exB_setConn] at this
        split at this
        · rename_i heq; rw [← heq]; exact List.mem_cons_self
        · exact List.mem_cons_of_mem _ (h.held c this)
  | ev e =>
    simp only [Node.step] at hr
    split at hr
    · simp only [Except.ok.injEq, Prod.mk.injEq] at hr; obtain ⟨rfl, _⟩ := hr; exact h
    · rename_i hn
      split at hr
      · simp at hr
      · rename_i b w o hs
        simp only [Except.ok.injEq, Prod.mk.injEq] at hr
        obtain ⟨rfl, _⟩ := hr
        exact ⟨h.ids, fun c hc => h.held c (step_ex (isNewConn_false (by simpa using hn)) hs c hc)⟩
  | dropId id =>
    simp only [Node.step] at hr
    split at hr
    · simp only [Except.ok.injEq, Prod.mk.injEq] at hr; obtain ⟨rfl, _⟩ := hr; exact h
    · rename_i hfree
      obtain ⟨ids', hs, hi⟩ := Aldrin.ConnId.step_ok h.ids (.release id)
      simp only [hs, Except.ok.injEq, Prod.mk.injEq] at hr
      obtain ⟨rfl, _⟩ := hr
      refine ⟨hi, ?_⟩
      intro c hc
      have hm := h.held c hc
      have hne : c ≠ id := by
        rintro rfl
        simp only [exB] at hc
        cases hf : AL.find? c n.b.conns <;> simp [hf] at hc hfree
      simp only [Aldrin.ConnId.Sys.step] at hs
      split at hs
      · split at hs
        · simp only [Except.ok.injEq] at hs; subst hs
          exact (List.mem_erase_of_ne hne).2 hm
        · simp at hs
      · simp only [Except.ok.injEq] at hs; subst hs; exact hm

theorem Node.run_inv : ∀ (es : List NEv) (n n' : Node), NInv n → n.run es = .ok n' → NInv n' := by
  intro es
  induction es with
  | nil => intro n n' h hr; simp only [Node.run, Except.ok.injEq] at hr; subst hr; exact h
  | cons e es ih =>
    intro n n' h hr
    simp only [Node.run] at hr
    split at hr
    · simp at hr
    · rename_i n1 o h1
      exact ih _ _ (Node.step_inv h h1) hr

end Aldrin.Broker
