import Aldrin.Lemmas.ConvDec
namespace Aldrin
open Generated

/-! Whatever the decoder returns is well-formed (what the Rust types guarantee by construction) and
fits below the depth limit. -/

theorem decInt_inRange {t : IntTy} {bs r : Bytes} {i : Int} (h : decInt t bs = .ok (i, r)) : t.inRange i := by
  cases t <;> simp only [decInt] at h
  case u8 =>
    cases bs with
    | nil => simp at h
    | cons b t =>
      simp at h; obtain ⟨rfl, _⟩ := h
      have := b.toNat_lt
      simp [IntTy.inRange, IntTy.signed, IntTy.bytes]; omega
  case i8 =>
    cases bs with
    | nil => simp at h
    | cons b t =>
      simp at h; obtain ⟨rfl, _⟩ := h
      have := b.toNat_lt
      simp [IntTy.inRange, IntTy.signed, IntTy.bytes]; split <;> omega
  all_goals (
    split at h
    · simp at h
    · rename_i n r' hg
      simp at h; obtain ⟨rfl, _⟩ := h
      have := (getVarint_ok (by decide) (by decide) hg).2.2.1
      simp [IntTy.inRange, IntTy.signed, IntTy.bytes] at this ⊢
      first | omega | (unfold zzDec; split <;> omega))

theorem decKey_wf {utf8 : Bool} (hu : utf8 = true) {kt : KeyTy} {bs r : Bytes} {k : Key} (h : decKey utf8 kt bs = .ok (k, r))
    (hl : bs.length ≤ u32Max) : KeyWF kt k := by
  subst hu
  cases kt with
  | int t =>
    simp only [decKey] at h
    split at h
    · simp at h
    · rename_i i r' hg
      simp at h; obtain ⟨rfl, _⟩ := h
      exact decInt_inRange hg
  | string =>
    simp only [decKey] at h
    split at h
    · simp at h
    · rename_i n r1 hg
      split at h
      · simp at h
      · rename_i s r2 ht
        split at h
        · simp at h
        · rename_i hu
          simp at h; obtain ⟨rfl, _⟩ := h
          have := getVarint_shrink hg
          have := takeN_ok ht
          simp at hu
          exact ⟨by omega, hu⟩
  | uuid =>
    simp only [decKey] at h
    split at h
    · simp at h
    · rename_i s r2 ht
      simp at h; obtain ⟨rfl, _⟩ := h
      exact (takeN_ok ht).2.1
  | field =>
    simp only [decKey] at h
    split at h
    · simp at h
    · rename_i n r1 hg
      simp at h; obtain ⟨rfl, _⟩ := h
      have := (getVarint_ok (by decide) (by decide) hg).2.2.1
      simp [KeyWF, u32Max] at this ⊢; omega

theorem decKey_wf' {kt : KeyTy} {bs r : Bytes} {k : Key} (h : decKey true kt bs = .ok (k, r))
    (hl : bs.length ≤ u32Max) : KeyWF kt k := decKey_wf rfl h hl

theorem decKeys1_wf' (kt : KeyTy) (f n : Nat) (bs : Bytes) : ∀ ks r,
    decKeys1 true kt f n bs = .ok (ks, r) → bs.length ≤ u32Max → ∀ k ∈ ks, KeyWF kt k := by
  fun_induction decKeys1 true kt f n bs <;> simp_all [decKeys1] <;>
    grind [→ decKey_wf', → decKey_shrink]

theorem decKeys1_wf {utf8 : Bool} (hu : utf8 = true) {kt : KeyTy} {f n : Nat} {bs : Bytes} {ks r}
    (h : decKeys1 utf8 kt f n bs = .ok (ks, r)) (hl : bs.length ≤ u32Max) : ∀ k ∈ ks, KeyWF kt k := by
  subst hu; exact decKeys1_wf' kt f n bs ks r h hl

theorem decKeys2_wf' (kt : KeyTy) (f : Nat) (bs : Bytes) : ∀ ks r,
    decKeys2 true kt f bs = .ok (ks, r) → bs.length ≤ u32Max → ∀ k ∈ ks, KeyWF kt k := by
  fun_induction decKeys2 true kt f bs <;> simp_all [decKeys2] <;>
    grind [→ decKey_wf', → decKey_shrink]

theorem decKeys2_wf {utf8 : Bool} (hu : utf8 = true) {kt : KeyTy} {f : Nat} {bs : Bytes} {ks r}
    (h : decKeys2 utf8 kt f bs = .ok (ks, r)) (hl : bs.length ≤ u32Max) : ∀ k ∈ ks, KeyWF kt k := by
  subst hu; exact decKeys2_wf' kt f bs ks r h hl

theorem getVarint4_le {bs r : Bytes} {n : Nat} (h : getVarint 4 bs = .ok (n, r)) : n ≤ u32Max := by
  have := (getVarint_ok (by decide) (by decide) h).2.2.1
  simp [u32Max] at this ⊢; omega

theorem decElems1_count {cfg : DecCfg} {f n : Nat} {bs : Bytes} {d : Nat} {vs : List Value} {r : Bytes}
    (h : decElems1 cfg f n bs d = .ok (vs, r)) : vs.length + r.length ≤ bs.length := by
  have := (dec_size_all cfg).2.2.2.2 f n bs d vs r h
  have := sizeList_ge vs
  omega
theorem decEntries1_count {cfg : DecCfg} {kt : KeyTy} {f n : Nat} {bs : Bytes} {d : Nat} {es : List (Key × Value)} {r : Bytes}
    (h : decEntries1 cfg kt f n bs d = .ok (es, r)) : es.length + r.length ≤ bs.length := by
  have := (dec_size_all cfg).2.2.2.1 kt f n bs d es r h
  have := sizeEntries_ge es
  omega
theorem decKeys1_count (utf8 : Bool) (kt : KeyTy) (f n : Nat) (bs : Bytes) : ∀ ks r,
    decKeys1 utf8 kt f n bs = .ok (ks, r) → ks.length + r.length ≤ bs.length := by
  fun_induction decKeys1 utf8 kt f n bs <;> simp_all [decKeys1] <;> grind [→ decKey_shrink]

theorem classify_set1_ne_field {b : UInt8} {kt : KeyTy} (h : classify b = some (.set1 kt)) : kt ≠ .field := by
  intro hk; subst hk
  have := classify_sound h
  simp [Kind.byte] at this

theorem classify_set2_ne_field {b : UInt8} {kt : KeyTy} (h : classify b = some (.set2 kt)) : kt ≠ .field := by
  intro hk; subst hk
  have := classify_sound h
  simp [Kind.byte] at this

end Aldrin

namespace Aldrin
open Generated

set_option maxHeartbeats 8000000 in
theorem dec_wf_all (cfg : DecCfg) (hu : cfg.utf8 = true) :
    (∀ (f : Nat) (bs : Bytes) (d : Nat), ∀ v r, dec cfg f bs d = .ok (v, r) → bs.length ≤ u32Max → v.WF) ∧
    (∀ kt (f : Nat) (bs : Bytes) (d : Nat), ∀ v r, decEntries2 cfg kt f bs d = .ok (v, r) → bs.length ≤ u32Max → WFEntries kt v) ∧
    (∀ (f : Nat) (bs : Bytes) (d : Nat), ∀ v r, decElems2 cfg f bs d = .ok (v, r) → bs.length ≤ u32Max → WFList v) ∧
    (∀ kt (f n : Nat) (bs : Bytes) (d : Nat), ∀ v r, decEntries1 cfg kt f n bs d = .ok (v, r) → bs.length ≤ u32Max → WFEntries kt v) ∧
    (∀ (f n : Nat) (bs : Bytes) (d : Nat), ∀ v r, decElems1 cfg f n bs d = .ok (v, r) → bs.length ≤ u32Max → WFList v) := by
  apply dec.mutual_induct cfg
    (motive_1 := fun f bs d => ∀ v r, dec cfg f bs d = .ok (v, r) → bs.length ≤ u32Max → v.WF)
    (motive_2 := fun kt f bs d => ∀ v r, decEntries2 cfg kt f bs d = .ok (v, r) → bs.length ≤ u32Max → WFEntries kt v)
    (motive_3 := fun f bs d => ∀ v r, decElems2 cfg f bs d = .ok (v, r) → bs.length ≤ u32Max → WFList v)
    (motive_4 := fun kt f n bs d => ∀ v r, decEntries1 cfg kt f n bs d = .ok (v, r) → bs.length ≤ u32Max → WFEntries kt v)
    (motive_5 := fun f n bs d => ∀ v r, decElems1 cfg f n bs d = .ok (v, r) → bs.length ≤ u32Max → WFList v)
  all_goals (intros; first
    | (have hk := decKeys1_wf hu ‹decKeys1 cfg.utf8 _ _ _ _ = Except.ok _›
       have hc := decKeys1_count _ _ _ _ _ _ _ ‹decKeys1 cfg.utf8 _ _ _ _ = Except.ok _›
       simp_all [dec, decElems1, decElems2, decEntries1, decEntries2, if_lt_of_le])
    | (have hk := decKeys2_wf hu ‹decKeys2 cfg.utf8 _ _ _ = Except.ok _›
       have hc := decKeys2_count _ _ _ _ _ _ ‹decKeys2 cfg.utf8 _ _ _ = Except.ok _›
       simp_all [dec, decElems1, decElems2, decEntries1, decEntries2, if_lt_of_le])
    | simp_all [dec, decElems1, decElems2, decEntries1, decEntries2, if_lt_of_le])
  all_goals (try (obtain ⟨rfl, rfl⟩ := ‹_ = _ ∧ _ = _›))
  all_goals (try (subst_vars))
  all_goals (try (simp only [Value.WF, WFList, WFEntries]))
  all_goals (first | omega | grind [Value.WF, WFList, WFEntries, → getVarint_shrink, → takeN_ok, → decInt_shrink, → decKey_shrink,
    → dec_shrink, → decElems1_shrink, → decElems2_shrink, → decEntries1_shrink, → decEntries2_shrink,
    → decElems1_count, → decEntries1_count, → decElems2_count, → decEntries2_count,
    → decChunks_size, → decInt_inRange, → decKey_wf, → getVarint4_le,
    → classifyC_some, → classify_set1_ne_field, → classify_set2_ne_field] | skip)
  done

end Aldrin

namespace Aldrin
open Generated

set_option maxHeartbeats 8000000 in
theorem dec_depth_all (cfg : DecCfg) :
    (∀ (f : Nat) (bs : Bytes) (d : Nat), ∀ v r, dec cfg f bs d = .ok (v, r) → d + v.depth ≤ maxValueDepth) ∧
    (∀ kt (f : Nat) (bs : Bytes) (d : Nat), ∀ v r, decEntries2 cfg kt f bs d = .ok (v, r) → depthEntries v = 0 ∨ d + depthEntries v ≤ maxValueDepth) ∧
    (∀ (f : Nat) (bs : Bytes) (d : Nat), ∀ v r, decElems2 cfg f bs d = .ok (v, r) → depthList v = 0 ∨ d + depthList v ≤ maxValueDepth) ∧
    (∀ kt (f n : Nat) (bs : Bytes) (d : Nat), ∀ v r, decEntries1 cfg kt f n bs d = .ok (v, r) → depthEntries v = 0 ∨ d + depthEntries v ≤ maxValueDepth) ∧
    (∀ (f n : Nat) (bs : Bytes) (d : Nat), ∀ v r, decElems1 cfg f n bs d = .ok (v, r) → depthList v = 0 ∨ d + depthList v ≤ maxValueDepth) := by
  apply dec.mutual_induct cfg
    (motive_1 := fun f bs d => ∀ v r, dec cfg f bs d = .ok (v, r) → d + v.depth ≤ maxValueDepth)
    (motive_2 := fun kt f bs d => ∀ v r, decEntries2 cfg kt f bs d = .ok (v, r) → depthEntries v = 0 ∨ d + depthEntries v ≤ maxValueDepth)
    (motive_3 := fun f bs d => ∀ v r, decElems2 cfg f bs d = .ok (v, r) → depthList v = 0 ∨ d + depthList v ≤ maxValueDepth)
    (motive_4 := fun kt f n bs d => ∀ v r, decEntries1 cfg kt f n bs d = .ok (v, r) → depthEntries v = 0 ∨ d + depthEntries v ≤ maxValueDepth)
    (motive_5 := fun f n bs d => ∀ v r, decElems1 cfg f n bs d = .ok (v, r) → depthList v = 0 ∨ d + depthList v ≤ maxValueDepth)
  all_goals (intros; simp_all [dec, decElems1, decElems2, decEntries1, decEntries2, if_lt_of_le])
  all_goals (try (obtain ⟨rfl, rfl⟩ := ‹_ = _ ∧ _ = _›))
  all_goals (try (subst_vars))
  all_goals (try (simp only [Value.depth, depthList, depthEntries]))
  all_goals (first | omega | grind [Value.depth, depthList, depthEntries] | skip)
  done

/-- A decoded value is well-formed and respects the depth limit. -/
theorem dec_wf {f : Nat} {bs : Bytes} {d : Nat} {v : Value} {r : Bytes}
    (h : dec .std f bs d = .ok (v, r)) (hl : bs.length ≤ u32Max) : v.WF ∧ d + v.depth ≤ maxValueDepth :=
  ⟨(dec_wf_all .std rfl).1 f bs d v r h hl, (dec_depth_all .std).1 f bs d v r h⟩

end Aldrin
