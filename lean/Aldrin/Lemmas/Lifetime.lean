import Aldrin.Model.Lifetime
namespace Aldrin.Lifetime

theorem run_ended (target : Nat) (s : LfSt) (evs : List LEv) (h : s.ended = true) : run target s evs = s := by
  induction evs with
  | nil => rfl
  | cons e evs ih => simp only [run, List.foldl_cons, h, ↓reduceIte] at ih ⊢; exact ih

theorem run_append (target : Nat) (s : LfSt) (a b : List LEv) : run target s (a ++ b) = run target (run target s a) b := by
  simp [run, List.foldl_append]

def Bus.WF (b : Bus) : Prop := ∀ ck, b.alive = some ck → ck ∈ b.used

theorem Bus.apply_wf {b b' : Bus} {op : BOp} (h : b.apply op = some b') (hw : b.WF) : b'.WF := by
  cases op with
  | create ck =>
    simp only [Bus.apply] at h
    split at h
    · simp at h
    · simp only [Option.some.injEq] at h; subst h
      intro c hc; simp only [Option.some.injEq] at hc; subst hc; simp
  | destroy =>
    simp only [Bus.apply] at h
    split at h
    · simp only [Option.some.injEq] at h; subst h; intro c hc; simp at hc
    · simp at h

theorem Bus.run_wf : ∀ (ops : List BOp) (b b' : Bus), b.run ops = some b' → b.WF → b'.WF := by
  intro ops
  induction ops with
  | nil => intro b b' h hw; simp [Bus.run] at h; exact h ▸ hw
  | cons op ops ih =>
    intro b b' h hw
    simp only [Bus.run] at h
    split at h
    · rename_i b1 h1; exact ih b1 b' h (Bus.apply_wf h1 hw)
    · simp at h

theorem Bus.init_wf : ({} : Bus).WF := by intro c hc; simp at hc

/-- a cookie that has been used and is not the living one never lives again -/
theorem Bus.run_not_alive : ∀ (ops : List BOp) (b b' : Bus) (t : Nat), b.run ops = some b' → t ∈ b.used → b.alive ≠ some t →
    b'.alive ≠ some t ∧ t ∈ b'.used := by
  intro ops
  induction ops with
  | nil => intro b b' t h hu ha; simp [Bus.run] at h; subst h; exact ⟨ha, hu⟩
  | cons op ops ih =>
    intro b b' t h hu ha
    simp only [Bus.run] at h
    split at h
    · rename_i b1 h1
      refine ih b1 b' t h ?_ ?_
      · cases op with
        | create ck =>
          simp only [Bus.apply] at h1
          split at h1
          · simp at h1
          · simp only [Option.some.injEq] at h1; subst h1; simp [hu]
        | destroy =>
          simp only [Bus.apply] at h1
          split at h1
          · simp only [Option.some.injEq] at h1; subst h1; exact hu
          · simp at h1
      · cases op with
        | create ck =>
          simp only [Bus.apply] at h1
          split at h1
          · simp at h1
          · rename_i hc
            simp only [Option.some.injEq] at h1; subst h1
            intro e
            have e' : ck = t := Option.some.inj e
            subst e'
            simp [hu] at hc
        | destroy =>
          simp only [Bus.apply] at h1
          split at h1
          · simp only [Option.some.injEq] at h1; subst h1; simp
          · simp at h1
    · simp at h

/-- while the scope lives: the lifetime ends exactly with the first thing that happens on the bus -/
theorem run_alive (t : Nat) (b b' : Bus) (ops : List BOp) (hb : b.alive = some t) (hr : b.run ops = some b') :
    (run t { found := true, ended := false } (eventsFrom b ops)).ended = true ↔ ops ≠ [] := by
  cases ops with
  | nil => simp [eventsFrom, run]
  | cons op ops =>
    simp only [ne_eq, reduceCtorEq, not_false_eq_true, iff_true]
    cases op with
    | create ck => simp [Bus.run, Bus.apply, hb] at hr
    | destroy =>
      simp only [eventsFrom, run, List.foldl_cons, Bool.false_eq_true, ↓reduceIte, step]
      exact congrArg LfSt.ended (run_ended t _ _ rfl)

/-- For every history of the scope's UUID on the bus and every point of it at which the lifetime is bound: once all
events have been handled, the lifetime has ended iff its scope does not live (any more). The identifier is one that
was handed out before the lifetime was bound, or never at all. -/
theorem ended_iff_scope_gone (t : Nat) (pre post : List BOp) (b1 b2 : Bus)
    (h1 : ({} : Bus).run pre = some b1) (h2 : b1.run post = some b2) (ht : t ∈ b1.used ∨ t ∉ b2.used) :
    (run t {} (currentEvents b1 ++ eventsFrom b1 post)).ended = true ↔ b2.alive ≠ some t := by
  have w1 := Bus.run_wf pre _ _ h1 Bus.init_wf
  have w2 := Bus.run_wf post _ _ h2 w1
  rw [run_append]
  by_cases ha : b1.alive = some t
  · -- bound while the scope lives
    have hc : run t {} (currentEvents b1) = { found := true, ended := false } := by
      simp [currentEvents, ha, run, step]
    rw [hc, run_alive t b1 b2 post ha h2]
    constructor
    · intro hne
      cases post with
      | nil => exact absurd rfl hne
      | cons op ops =>
        cases op with
        | create ck => simp [Bus.run, Bus.apply, ha] at h2
        | destroy =>
          simp only [Bus.run, Bus.apply, ha] at h2
          exact (Bus.run_not_alive ops _ b2 t h2 (w1 t ha) (by simp)).1
    · intro hne hnil
      subst hnil
      simp only [Bus.run, Option.some.injEq] at h2
      subst h2
      exact hne ha
  · -- bound when the scope does not live: ended at once, and it never lives later
    have hc : (run t {} (currentEvents b1)).ended = true := by
      cases hb : b1.alive with
      | none => simp [currentEvents, hb, run, step]
      | some ck =>
        have hne : ck ≠ t := by intro e; subst e; exact ha hb
        simp [currentEvents, hb, run, step, hne]
    rw [run_ended t _ _ hc]
    simp only [hc, true_iff]
    rcases ht with ht | ht
    · exact (Bus.run_not_alive post b1 b2 t h2 ht ha).1
    · intro hb; exact ht (w2 t hb)

end Aldrin.Lifetime
